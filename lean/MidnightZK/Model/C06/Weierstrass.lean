import MidnightZK.Model.ModArith
import MidnightZK.Model.C06.Edwards
/-!
# C06 — executable model of the foreign Weierstrass chip (`y² = x³ + b`, `a = 0`)
`circuits/src/ecc/foreign/ecc_chip.rs`. Field elements are `Nat`s below `p`; a point carries the
identity flag of `AssignedForeignPoint` (`is_id`; coordinates `(0,0)` when set, as
`assign_point_unchecked` / `assign_fixed` write them).

* `add`, `double`, `neg`: the values `add` / `double` / `negate` assign to the result;
* `mulByU128`, `mulByConstant` (including the computation of the `u128` from the scalar's 64-bit
  digits exactly as the code does it), `msm` (value of `msm_by_bounded_scalars` /
  `windowed_msm`), `glvSplit` value model;
* `Act` / `addActs` / `doubleActs`: the custom-gate activations (`on_curve`, `slope`, `tangent`,
  `lambda_squared`) each instruction emits, with the condition flag and the field values they
  relate — compared with the rows of the real `MockProver` table on which the selectors are on.
-/
namespace MidnightZK.C06

/-- `y² = x³ + b` over `𝔽_p`, group of (prime) order `r`. -/
structure WCurve where
  p : Nat
  b : Nat
  r : Nat
  /-- `ScalarField::NUM_BITS` -/
  scalarBits : Nat

/-- `AssignedForeignPoint`: identity flag and coordinates. -/
structure WPt where
  isId : Bool
  x : Nat
  y : Nat
deriving Repr, BEq, DecidableEq

namespace WCurve
variable (E : WCurve)

def fadd (a b : Nat) : Nat := addMod a b E.p
def fsub (a b : Nat) : Nat := subMod a b E.p
def fmul (a b : Nat) : Nat := mulMod a b E.p
def finv (a : Nat) : Nat := invModE a E.p

/-- The identity as `assign_point_unchecked` writes it: flag set, coordinates `(0, 0)`. -/
def id (_E : WCurve) : WPt := ⟨true, 0, 0⟩

def onCurve (P : WPt) : Bool :=
  E.fmul P.y P.y == E.fadd (E.fmul (E.fmul P.x P.x) P.x) (E.b % E.p)

/-- `assert_double`: `λ = 3x²/(2y)` (`1` for the identity). -/
def tangentLambda (P : WPt) : Nat :=
  if P.isId then 1 % E.p
  else E.fmul (E.fmul 3 (E.fmul P.x P.x)) (E.finv (E.fmul 2 P.y))

/-- `assert_add`: `λ = (qy − py)/(qx − px)` (`1` when an operand is the identity or `px = qx`). -/
def chordLambda (P Q : WPt) : Nat :=
  if P.isId || Q.isId then 1 % E.p
  else if P.x == Q.x then 1 % E.p
  else E.fmul (E.fsub Q.y P.y) (E.finv (E.fsub Q.x P.x))

/-- Third point from a slope: `x₃ = λ² − x₁ − x₂`, `y₃ = λ(x₁ − x₃) − y₁`. -/
def third (lam : Nat) (P Q : WPt) : WPt :=
  let x3 := E.fsub (E.fsub (E.fmul lam lam) P.x) Q.x
  ⟨false, x3, E.fsub (E.fmul lam (E.fsub P.x x3)) P.y⟩

/-- Value of `double` (`p + p` of the curve library; no point of order 2 exists). -/
def double (P : WPt) : WPt :=
  if P.isId then E.id else E.third (E.tangentLambda P) P P

/-- Value of `add` (`p + q` of the curve library): complete addition. -/
def add (P Q : WPt) : WPt :=
  if P.isId then (if Q.isId then E.id else Q)
  else if Q.isId then P
  else if P.x == Q.x then
    (if E.fadd P.y Q.y == 0 then E.id else E.double P)
  else E.third (E.chordLambda P Q) P Q

/-- `negate`: `(x, −y)` with the same flag. -/
def neg (P : WPt) : WPt := ⟨P.isId, P.x, negMod P.y E.p⟩

/-- Canonical form of a value (identity ↦ `(true, 0, 0)`). -/
def canon (E : WCurve) (P : WPt) : WPt := if P.isId then E.id else P

/-- `mul_by_u128` over any carrier: double-and-add from the least significant bit; `res = none`
until the first set bit, `tmp` holds `2^i · p` (`fuel` ≥ number of bits of `n`). -/
def mulLsbG {G : Type} (add : G → G → G) (dbl : G → G) : Nat → Nat → G → Option G → Option G
  | 0, _, _, res => res
  | fuel + 1, n, tmp, res =>
    if n = 0 then res else
    let res' := if n % 2 = 1 then (match res with | none => some tmp | some a => some (add a tmp)) else res
    mulLsbG add dbl fuel (n / 2) (dbl tmp) res'

/-- `mul_by_u128` on circuit points. -/
def mulLsb (fuel n : Nat) (tmp : WPt) (res : Option WPt) : Option WPt :=
  mulLsbG E.add E.double fuel n tmp res

/-- Integer multiple in the model. -/
def smul (n : Nat) (P : WPt) : WPt :=
  match E.mulLsb (n.log2 + 1) n (E.canon P) none with
  | some R => E.canon R
  | none => E.id

/-- `mul_by_constant`: how the code turns a scalar of at most 128 bits into a `u128`:
`to_u64_digits().iter().rev().fold(0u128, |acc, limb| (acc << 64) | *limb as u128)`
(at most two digits). -/
def u128OfDigits (s : Nat) : Nat := ((s / 2 ^ 64) % 2 ^ 64) * 2 ^ 64 + s % 2 ^ 64

/-- `BigUint::to_u64_digits`: little-endian base-`2^64` digits, none for `0` (fuel = a bound on
the number of digits). -/
def u64Digits : Nat → Nat → List Nat
  | 0, _ => []
  | f + 1, s => if s = 0 then [] else (s % 2 ^ 64) :: u64Digits f (s / 2 ^ 64)

/-- `digits.iter().rev().fold(0u128, |acc, limb| (acc << 64) | *limb as u128)`: `acc << 64` on a
`u128` drops the bits shifted out. -/
def foldDigitsU128 (digits : List Nat) : Nat :=
  digits.reverse.foldl (fun acc limb => ((acc <<< 64) % 2 ^ 128) ||| limb) 0

/-- `BigUint::bits`. -/
def bitLen (s : Nat) : Nat := if s = 0 then 0 else s.log2 + 1

/-- The branch of `ForeignEccChip::mul_by_constant` (`scalar_as_big.bits() <= 128`). -/
inductive MulConstBranch where
  /-- `mul_by_u128(n, ·)` with the rebuilt `n` -/
  | u128 (n : Nat)
  /-- `msm_by_le_bits` of the constant bits (windowed msm) -/
  | windowed (s : Nat)
deriving Repr, BEq, DecidableEq

def mulConstBranch (s : Nat) : MulConstBranch :=
  if bitLen s ≤ 128 then .u128 (foldDigitsU128 (u64Digits 3 s)) else .windowed s

/-- Outcome of an instruction: a point, or the constraint system is unsatisfiable. -/
inductive Res where
  | ok (P : WPt)
  | unsat
deriving Repr, BEq

/-- `mul_by_constant(s, P)` with `s` reduced modulo `r`:
* at most 128 bits: `mul_by_u128(u128OfDigits s, P')` with the identity swapped for the generator
  before the (incomplete) multiplication and swapped back afterwards;
* otherwise `msm_by_le_bits`, whose `windowed_msm` asserts that the base is not the identity
  (recorded finding: the trait promises that the base may be the identity). -/
def mulByConstant (s : Nat) (P : WPt) : Res :=
  if s < 2 ^ 128 then
    if P.isId then .ok E.id else .ok (E.smul (u128OfDigits s) P)
  else
    if P.isId then .unsat else .ok (E.smul s P)

/-- `msm` / `msm_by_bounded_scalars` / `msm_by_le_bits`-through-`mul`: `Σ sᵢ·Pᵢ`. -/
def msm (terms : List (Nat × WPt)) : WPt :=
  terms.foldl (fun acc sp => E.add acc (E.smul sp.1 sp.2)) E.id

/-- `msm_by_le_bits` called directly: `windowed_msm` rejects identity bases. -/
def msmBits (terms : List (Nat × WPt)) : Res :=
  if terms.any (fun sp => sp.2.isId) then .unsat else .ok (E.msm terms)

/-- `point_from_coordinates`: on-curve assertion with `cond = 1`, flag fixed to `false`. -/
def pointFromCoordinates (P : WPt) : Res :=
  if E.onCurve ⟨false, P.x, P.y⟩ then .ok ⟨false, P.x, P.y⟩ else .unsat

/-! ### `mul_by_u128` as wired: incomplete additions (`incomplete_add`) and `double` -/

/-- `incomplete_add(p, q)` for non-identity operands as the honest prover runs it: the chord
sum when `p.x ≠ q.x`; for `p.x = q.x` the witness generation writes `λ = 1` and the true sum, which
the constraints reject (`p = q`) or which cannot exist (`p = −q`): `none` = rejected. -/
def incAddHonest (P Q : WPt) : Option WPt :=
  if P.x == Q.x then none else some (E.third (E.chordLambda P Q) P Q)

/-- `incomplete_add(p, q)` against the prover of `incomplete_add_equal_free`: for EQUAL operands
the constraints accept `(λ² − 2x, λ(x − rx) − y)` for every `λ`; the prover keeps the `λ = 1`
that `assert_add` writes for `p.x = q.x` and witnesses `r` accordingly. `p = −q` stays rejected. -/
def incAddForge (P Q : WPt) : Option WPt :=
  if P.x == Q.x then (if P.y == Q.y then some (E.third (1 % E.p) P Q) else none)
  else some (E.third (E.chordLambda P Q) P Q)

/-- `mul_by_u128` with a given `incomplete_add` (outer `none` = the circuit rejects). Same loop as
`mulLsbG`; `double` is complete for non-identity points. -/
def mulLsbInc (inc : WPt → WPt → Option WPt) : Nat → Nat → WPt → Option WPt → Option (Option WPt)
  | 0, _, _, res => some res
  | fuel + 1, n, tmp, res =>
    if n = 0 then some res else
    let next := fun (r : Option WPt) => mulLsbInc inc fuel (n / 2) (E.double tmp) r
    if n % 2 = 1 then
      match res with
      | none => next (some tmp)
      | some a => match inc a tmp with
        | none => none
        | some r => next (some r)
    else next res

/-- `point_from_coordinates(x, y)` followed by `mul_by_constant(n, ·)` for `0 < n < 2^128` on a
curve point (not flagged): the identity swap selects the point itself, `mul_by_u128` runs with
the given `incomplete_add`. -/
def mulConstRaw (inc : WPt → WPt → Option WPt) (n x y : Nat) : Res :=
  if n = 0 ∨ n ≥ 2 ^ 128 then .unsat else
  match E.pointFromCoordinates ⟨false, x, y⟩ with
  | .unsat => .unsat
  | .ok P =>
    match E.mulLsbInc inc (n.log2 + 1) (u128OfDigits n) P none with
    | some (some R) => .ok R
    | _ => .unsat

/-! ## Custom-gate activations -/

/-- One activation of an EC custom gate: the value in the condition column (`1`, `0`, or `p − 1`
for a negated slope) and the field values read by the gate. -/
inductive Act where
  /-- `on_curve`: `cond`, `x`, `y` -/
  | onCurve (cond x y : Nat)
  /-- `slope`: `cond` (sign), `px py qx qy λ` -/
  | slope (cond px py qx qy lam : Nat)
  /-- `tangent`: `cond`, `px py λ` -/
  | tangent (cond px py lam : Nat)
  /-- `lambda_squared`: `cond`, `px qx rx λ` -/
  | lamSq (cond px qx rx lam : Nat)
deriving Repr, BEq

/-- Value copied in the condition column: the bit, or its negation (`p_native − 1`, rendered
`-1`) for a slope between `p` and `−r`. -/
inductive Cond where
  | off
  | on
  | neg
deriving Repr, BEq

def condOf (b : Bool) : Cond := if b then .on else .off
def condNeg (b : Bool) : Cond := if b then .neg else .off

/-- `assign` of a witness point: `on_curve` under `cond = ¬is_id`. -/
def assignActs (P : WPt) : List (Cond × Act) :=
  let P := E.canon P
  [(condOf (!P.isId), .onCurve 0 P.x P.y)]

/-- `assert_double(p, r, cond)`: `tangent`, `lambda_squared(p,p,r)`, `slope(p, −r)`. The witnessed
`λ` does not depend on `cond`. -/
def assertDoubleActs (c : Bool) (P R : WPt) : List (Cond × Act) :=
  let lam := E.tangentLambda P
  [(condOf c, .tangent 0 P.x P.y lam), (condOf c, .lamSq 0 P.x P.x R.x lam),
   (condNeg c, .slope 0 P.x P.y R.x R.y lam)]

/-- `assert_add(p, q, r, cond)`: `slope(p,q)`, `lambda_squared(p,q,r)`, `slope(p, −r)`. -/
def assertAddActs (c : Bool) (P Q R : WPt) : List (Cond × Act) :=
  let lam := E.chordLambda P Q
  [(condOf c, .slope 0 P.x P.y Q.x Q.y lam), (condOf c, .lamSq 0 P.x Q.x R.x lam),
   (condNeg c, .slope 0 P.x P.y R.x R.y lam)]

/-- `add(p, q)`: the doubling assertions under `px = qx ∧ py = qy ∧ none is the identity`, then
the addition assertions under `px ≠ qx ∧ none is the identity`. -/
def addActs (P Q : WPt) : List (Cond × Act) :=
  let R := E.add P Q
  let none := !(P.isId || Q.isId || R.isId)
  E.assertDoubleActs (P.x == Q.x && P.y == Q.y && none) P R ++
    E.assertAddActs (!(P.x == Q.x) && none) P Q R

/-- `double(p)`: the doubling assertions under `¬ p.is_id`. -/
def doubleActs (P : WPt) : List (Cond × Act) :=
  E.assertDoubleActs (!P.isId) P (E.double P)

/-! ## Number of custom-gate activations of the multiplication instructions -/

/-- Activations of `on_curve`, `slope`, `tangent`, `lambda_squared`. -/
structure Shape where
  oc : Nat := 0
  sl : Nat := 0
  tg : Nat := 0
  ls : Nat := 0
deriving Repr, BEq

instance : Add Shape := ⟨fun a b => ⟨a.oc + b.oc, a.sl + b.sl, a.tg + b.tg, a.ls + b.ls⟩⟩
def Shape.scale (k : Nat) (a : Shape) : Shape := ⟨k * a.oc, k * a.sl, k * a.tg, k * a.ls⟩

/-- `double`: one tangent, one λ², one slope. -/
def shDouble : Shape := { sl := 1, tg := 1, ls := 1 }
/-- `incomplete_add`: two slopes, one λ². -/
def shIncAdd : Shape := { sl := 2, ls := 1 }
/-- `add`: `assert_double` + `assert_add`. -/
def shAdd : Shape := { sl := 3, tg := 1, ls := 2 }
/-- `assign`: one `on_curve`. -/
def shAssign : Shape := { oc := 1 }

def popcount : Nat → Nat → Nat
  | 0, _ => 0
  | f + 1, n => if n = 0 then 0 else n % 2 + popcount f (n / 2)

/-- `mul_by_u128(n, ·)`: `bitlen(n) − 1` doublings and `popcount(n) − 1` incomplete additions. -/
def shMulByU128 (n : Nat) : Shape :=
  if n = 0 then {} else
  shDouble.scale n.log2 + shIncAdd.scale (popcount (n.log2 + 1) n - 1)

/-- `windowed_msm::<4>` with `l` bases and `w` windows: the blinding point `r` (assigned,
on-curve), `l·r` and `15·r`, the tables (15 incomplete additions per base), `w` iterations of
4 doublings and `l` incomplete additions, the final complete addition of `−l·r`. -/
def shWindowed (l w : Nat) : Shape :=
  if l = 0 then {} else
  shAssign + shMulByU128 l + shMulByU128 15 + shIncAdd.scale (15 * l) +
    (shDouble.scale 4 + shIncAdd.scale l).scale w + shAdd

/-- `mul_by_constant(s, ·)` (`s` reduced). -/
def shMulByConstant (s : Nat) : Shape :=
  if s < 2 ^ 128 then shMulByU128 (u128OfDigits s) else shWindowed 1 ((s.log2 + 1 + 3) / 4)

/-- `msm_by_bounded_scalars` with distinct scalars and bases: a scalar whose bound exceeds
`⌈NUM_BITS/2⌉ + 4` is split by GLV into two `⌈NUM_BITS/2⌉`-bit scalars. -/
def shMsmBounded (bounds : List Nat) : Shape :=
  let half := (E.scalarBits + 1) / 2
  let parts := bounds.flatMap (fun b => if b > half + 4 then [half, half] else [b])
  shWindowed parts.length (parts.foldl (fun m b => max m ((b + 3) / 4)) 0)

/-- `msm_by_le_bits` with bit strings of the given lengths. -/
def shMsmBits (lens : List Nat) : Shape :=
  shWindowed lens.length (lens.foldl (fun m b => max m ((b + 3) / 4)) 0)

end WCurve
end MidnightZK.C06
