import MidnightZK.Model.ModArith
import MidnightZK.Model.C06.Edwards
/-!
# C06 — executable model of the foreign Weierstrass chip (`y² = x³ + b`, `a = 0`)
`circuits/src/ecc/foreign/ecc_chip.rs`. Field elements are `Nat`s below `p`; a point carries the
identity flag of `AssignedForeignPoint` (`is_id`; coordinates `(0,0)` when set, as
`assign_point_unchecked` / `assign_fixed` write them).

* `add`, `double`, `neg`: the values `add` / `double` / `negate` assign to the result;
* `mulByU128`, `mulByConstant` (including the computation of the `u128` from the scalar's 64-bit
  digits exactly as the code does it), `msm` (value of `msm_by_bounded_scalars` /
  `windowed_msm`), `glvSplit` value model;
* `Act` / `addActs` / `doubleActs`: the custom-gate activations (`on_curve`, `slope`, `tangent`,
  `lambda_squared`) each instruction emits, with the condition flag and the field values they
  relate — compared with the rows of the real `MockProver` table on which the selectors are on.
-/
namespace MidnightZK.C06

/-- `y² = x³ + b` over `𝔽_p`, group of (prime) order `r`. -/
structure WCurve where
  p : Nat
  b : Nat
  r : Nat
  /-- `ScalarField::NUM_BITS` -/
  scalarBits : Nat

/-- `AssignedForeignPoint`: identity flag and coordinates. -/
structure WPt where
  isId : Bool
  x : Nat
  y : Nat
deriving Repr, BEq, DecidableEq

namespace WCurve
variable (E : WCurve)

def fadd (a b : Nat) : Nat := addMod a b E.p
def fsub (a b : Nat) : Nat := subMod a b E.p
def fmul (a b : Nat) : Nat := mulMod a b E.p
def finv (a : Nat) : Nat := invModE a E.p

/-- The identity as `assign_point_unchecked` writes it: flag set, coordinates `(0, 0)`. -/
def id (_E : WCurve) : WPt := ⟨true, 0, 0⟩

def onCurve (P : WPt) : Bool :=
  E.fmul P.y P.y == E.fadd (E.fmul (E.fmul P.x P.x) P.x) (E.b % E.p)

/-- `assert_double`: `λ = 3x²/(2y)` (`1` for the identity). -/
def tangentLambda (P : WPt) : Nat :=
  if P.isId then 1 % E.p
  else E.fmul (E.fmul 3 (E.fmul P.x P.x)) (E.finv (E.fmul 2 P.y))

/-- `assert_add`: `λ = (qy − py)/(qx − px)` (`1` when an operand is the identity or `px = qx`). -/
def chordLambda (P Q : WPt) : Nat :=
  if P.isId || Q.isId then 1 % E.p
  else if P.x == Q.x then 1 % E.p
  else E.fmul (E.fsub Q.y P.y) (E.finv (E.fsub Q.x P.x))

/-- Third point from a slope: `x₃ = λ² − x₁ − x₂`, `y₃ = λ(x₁ − x₃) − y₁`. -/
def third (lam : Nat) (P Q : WPt) : WPt :=
  let x3 := E.fsub (E.fsub (E.fmul lam lam) P.x) Q.x
  ⟨false, x3, E.fsub (E.fmul lam (E.fsub P.x x3)) P.y⟩

/-- Value of `double` (`p + p` of the curve library; no point of order 2 exists). -/
def double (P : WPt) : WPt :=
  if P.isId then E.id else E.third (E.tangentLambda P) P P

/-- Value of `add` (`p + q` of the curve library): complete addition. -/
def add (P Q : WPt) : WPt :=
  if P.isId then (if Q.isId then E.id else Q)
  else if Q.isId then P
  else if P.x == Q.x then
    (if E.fadd P.y Q.y == 0 then E.id else E.double P)
  else E.third (E.chordLambda P Q) P Q

/-- `negate`: `(x, −y)` with the same flag. -/
def neg (P : WPt) : WPt := ⟨P.isId, P.x, negMod P.y E.p⟩

/-- Canonical form of a value (identity ↦ `(true, 0, 0)`). -/
def canon (E : WCurve) (P : WPt) : WPt := if P.isId then E.id else P

/-- `n · P` by double-and-add from the least significant bit, as `mul_by_u128`
(`fuel` ≥ number of bits of `n`). -/
def mulLsb : Nat → Nat → WPt → Option WPt → Option WPt
  | 0, _, _, res => res
  | fuel + 1, n, tmp, res =>
    if n = 0 then res else
    let res' := if n % 2 = 1 then (match res with | none => some tmp | some a => some (E.add a tmp)) else res
    mulLsb fuel (n / 2) (E.double tmp) res'

/-- Integer multiple in the model. -/
def smul (n : Nat) (P : WPt) : WPt :=
  match E.mulLsb (n.log2 + 1) n (E.canon P) none with
  | some R => E.canon R
  | none => E.id

/-- `mul_by_constant`: how the code turns a scalar of at most 128 bits into a `u128`:
`to_u64_digits().iter().rev().fold(0u128, |acc, limb| (acc << 64) | *limb as u128)`
(at most two digits). -/
def u128OfDigits (s : Nat) : Nat := ((s / 2 ^ 64) % 2 ^ 64) * 2 ^ 64 + s % 2 ^ 64

/-- Outcome of an instruction: a point, or the constraint system is unsatisfiable. -/
inductive Res where
  | ok (P : WPt)
  | unsat
deriving Repr, BEq

/-- `mul_by_constant(s, P)` with `s` reduced modulo `r`:
* at most 128 bits: `mul_by_u128(u128OfDigits s, P')` with the identity swapped for the generator
  before the (incomplete) multiplication and swapped back afterwards;
* otherwise `msm_by_le_bits`, whose `windowed_msm` asserts that the base is not the identity
  (recorded finding: the trait promises that the base may be the identity). -/
def mulByConstant (s : Nat) (P : WPt) : Res :=
  if s < 2 ^ 128 then
    if P.isId then .ok E.id else .ok (E.smul (u128OfDigits s) P)
  else
    if P.isId then .unsat else .ok (E.smul s P)

/-- `msm` / `msm_by_bounded_scalars` / `msm_by_le_bits`-through-`mul`: `Σ sᵢ·Pᵢ`. -/
def msm (terms : List (Nat × WPt)) : WPt :=
  terms.foldl (fun acc sp => E.add acc (E.smul sp.1 sp.2)) E.id

/-- `msm_by_le_bits` called directly: `windowed_msm` rejects identity bases. -/
def msmBits (terms : List (Nat × WPt)) : Res :=
  if terms.any (fun sp => sp.2.isId) then .unsat else .ok (E.msm terms)

/-- `point_from_coordinates`: on-curve assertion with `cond = 1`, flag fixed to `false`. -/
def pointFromCoordinates (P : WPt) : Res :=
  if E.onCurve ⟨false, P.x, P.y⟩ then .ok ⟨false, P.x, P.y⟩ else .unsat

/-! ## Custom-gate activations -/

/-- One activation of an EC custom gate: the value in the condition column (`1`, `0`, or `p − 1`
for a negated slope) and the field values read by the gate. -/
inductive Act where
  /-- `on_curve`: `cond`, `x`, `y` -/
  | onCurve (cond x y : Nat)
  /-- `slope`: `cond` (sign), `px py qx qy λ` -/
  | slope (cond px py qx qy lam : Nat)
  /-- `tangent`: `cond`, `px py λ` -/
  | tangent (cond px py lam : Nat)
  /-- `lambda_squared`: `cond`, `px qx rx λ` -/
  | lamSq (cond px qx rx lam : Nat)
deriving Repr, BEq

end WCurve
end MidnightZK.C06
