import MidnightZK.Model.ModArith
import MidnightZK.Model.C06.Edwards
/-!
# C06 — executable model of map-to-curve / hash-to-curve for Jubjub

`circuits/src/ecc/hash_to_curve/{mtc_params.rs, mtc_cpu.rs, mtc.rs, htc_gadget.rs}`.
Field elements are `Nat`s below `p`. The CPU reference (`mtc_cpu.rs`) and the in-circuit gadget
(`mtc.rs`) are the same 36-step listing (RFC 9380, Shallue–van de Woestijne) followed by two
rational maps and the cofactor clearing; `svdwSteps` mirrors it step by step and returns every
intermediate value.
-/
namespace MidnightZK.C06

/-- Parameters of `MapToWeierstrassParams` / `MapToEdwardsParams`. -/
structure HtcParams where
  p : Nat
  /-- `SVDW_Z` -/
  z : Nat
  /-- Weierstrass model `y² = x³ + a x + b` -/
  a : Nat
  b : Nat
  /-- Montgomery model `K y² = x³ + J x² + x` -/
  j : Nat
  k : Nat

namespace HtcParams
variable (H : HtcParams)

def fadd (a b : Nat) : Nat := addMod a b H.p
def fsub (a b : Nat) : Nat := subMod a b H.p
def fmul (a b : Nat) : Nat := mulMod a b H.p
def fneg (a : Nat) : Nat := negMod a H.p
/-- `inv0`: `invert().unwrap_or(ZERO)` off-circuit, `base_field.inv0` in-circuit. -/
def inv0 (a : Nat) : Nat := invModE a H.p

/-- `mtc_params.rs: MapToWeierstrassParams::g` — `x³ + A x + B` (as `x*x*x + A*x + B`). -/
def g (x : Nat) : Nat := H.fadd (H.fadd (H.fmul (H.fmul x x) x) (H.fmul H.a x)) H.b

/-- `3 Z² + 4 A` (`den` of `c3`, `det` of `c4`). -/
def den : Nat := H.fadd (H.fmul (H.fmul (3 % H.p) H.z) H.z) (H.fmul (4 % H.p) H.a)

/-- `mtc_params.rs: c1` — `g(Z)`. -/
def c1 : Nat := H.g H.z
/-- `mtc_params.rs: c2` — `-Z · TWO_INV`. -/
def c2 : Nat := H.fmul (H.fneg H.z) (H.inv0 2)

/-- Legendre symbol as the code uses it: `!ct_quadratic_non_residue()` off-circuit,
`x.sqrt().is_some()` for the honest in-circuit witness — `0` counts as a square. -/
def isSquare (x : Nat) : Bool := powMod x ((H.p - 1) / 2) H.p != H.p - 1

/-- `p - 1 = q · 2^s`: returns `(q, s)`. -/
def twoAdic : Nat → Nat → Nat → Nat × Nat
  | 0, q, s => (q, s)
  | f + 1, q, s => if q % 2 = 0 ∧ q ≠ 0 then twoAdic f (q / 2) (s + 1) else (q, s)

/-- least quadratic non-residue `≥ z` (fuel-bounded search). -/
def findNonResidue : Nat → Nat → Nat
  | 0, z => z
  | f + 1, z => if H.isSquare z then findNonResidue f (z + 1) else z

/-- least `i` with `t^(2^i) = 1`. -/
def orderExp : Nat → Nat → Nat → Nat
  | 0, _, i => i
  | f + 1, t, i => if t = 1 % H.p then i else orderExp f (H.fmul t t) (i + 1)

def sqPow : Nat → Nat → Nat
  | 0, c => c
  | n + 1, c => sqPow n (H.fmul c c)

/-- Tonelli–Shanks main loop. -/
def tsLoop : Nat → Nat → Nat → Nat → Nat → Nat
  | 0, _, _, _, r => r
  | f + 1, m, c, t, r =>
    if t = 1 % H.p then r else
    let i := H.orderExp m t 0
    let b := H.sqPow (m - i - 1) c
    let c' := H.fmul b b
    tsLoop f i c' (H.fmul t c') (H.fmul r b)

/-- A square root (`none` for a non-residue). Which of the two roots is returned is irrelevant for
the map: step 35 fixes the sign. -/
def sqrt (x : Nat) : Option Nat :=
  let x := x % H.p
  if x = 0 then some 0 else
  if !H.isSquare x then none else
  let (q, s) := twoAdic (H.p.log2 + 1) (H.p - 1) 0
  let z := H.findNonResidue 64 2
  some (H.tsLoop (s + 1) s (powMod z q H.p) (powMod x q H.p) (powMod x ((q + 1) / 2) H.p))

/-- `mtc_params.rs: c3` — the even square root of `-c1 · den` (`none`: the `expect` panics). -/
def c3 : Option Nat :=
  (H.sqrt (H.fmul (H.fneg H.c1) H.den)).map fun r => if r % 2 = 0 then r else H.fneg r

/-- `mtc_params.rs: c4` — `-4 · c1 · den⁻¹`. -/
def c4 : Nat := H.fmul (H.fmul (H.fneg (4 % H.p)) H.c1) (H.inv0 H.den)

/-- `sgn0` (RFC 9380): parity of the canonical representative (`is_odd` / `base_field.sgn0`). -/
def sgn0 (x : Nat) : Bool := (x % H.p) % 2 == 1

/-- Every intermediate value of the 36 steps of `svdw_map_to_curve` /
`svdw_map_to_weierstrass`. -/
structure SvdwTrace where
  tv1 : Nat
  tv2 : Nat
  tv3 : Nat
  tv4 : Nat
  x1 : Nat
  gx1 : Nat
  e1 : Bool
  x2 : Nat
  gx2 : Nat
  e2 : Bool
  x3 : Nat
  x : Nat
  gx : Nat
  /-- `none`: `gx.sqrt().unwrap()` panics / the circuit is unsatisfiable -/
  y : Option Nat

/-- `mtc_cpu.rs: svdw_map_to_curve`, `mtc.rs: svdw_map_to_weierstrass`, with the constants
`c1 … c4` given (`C::c1()` … are recomputed at every call in the Rust code). -/
def svdwSteps (c1 c2 c3 c4 : Nat) (u : Nat) : SvdwTrace :=
  let one := 1 % H.p
  -- 1. tv1 = u^2
  let tv1 := H.fmul u u
  -- 2. tv1 = tv1 * c1
  let tv1 := H.fmul tv1 c1
  -- 3. tv2 = 1 + tv1
  let tv2 := H.fadd one tv1
  -- 4. tv1 = 1 - tv1
  let tv1 := H.fsub one tv1
  -- 5. tv3 = tv1 * tv2
  let tv3 := H.fmul tv1 tv2
  -- 6. tv3 = inv0(tv3)
  let tv3 := H.inv0 tv3
  -- 7. tv4 = u * tv1
  let tv4 := H.fmul u tv1
  -- 8. tv4 = tv4 * tv3
  let tv4 := H.fmul tv4 tv3
  -- 9. tv4 = tv4 * c3
  let tv4 := H.fmul tv4 c3
  -- 10. x1 = c2 - tv4
  let x1 := H.fsub c2 tv4
  -- 11.–14. gx1 = (x1^2 + A) * x1 + B
  let gx1 := H.fadd (H.fmul (H.fadd (H.fmul x1 x1) H.a) x1) H.b
  -- 15. e1 = is_square(gx1)
  let e1 := H.isSquare gx1
  -- 16. x2 = c2 + tv4
  let x2 := H.fadd c2 tv4
  -- 17.–20. gx2 = (x2^2 + A) * x2 + B
  let gx2 := H.fadd (H.fmul (H.fadd (H.fmul x2 x2) H.a) x2) H.b
  -- 21. e2 = is_square(gx2) AND NOT e1
  let e2 := H.isSquare gx2 && !e1
  -- 22. x3 = tv2^2
  let x3 := H.fmul tv2 tv2
  -- 23. x3 = x3 * tv3
  let x3 := H.fmul x3 tv3
  -- 24. x3 = x3^2
  let x3 := H.fmul x3 x3
  -- 25. x3 = x3 * c4
  let x3 := H.fmul x3 c4
  -- 26. x3 = x3 + Z
  let x3 := H.fadd x3 H.z
  -- 27. x = CMOV(x3, x1, e1)
  let x := if e1 then x1 else x3
  -- 28. x = CMOV(x, x2, e2)
  let x := if e2 then x2 else x
  -- 29.–32. gx = (x^2 + A) * x + B
  let gx := H.fadd (H.fmul (H.fadd (H.fmul x x) H.a) x) H.b
  -- 33. y = sqrt(gx)
  let y := H.sqrt gx
  -- 34. e3 = sgn0(u) == sgn0(y) ; 35. y = CMOV(-y, y, e3)
  let y := y.map fun y => if H.sgn0 u == H.sgn0 y then y else H.fneg y
  { tv1, tv2, tv3, tv4, x1, gx1, e1, x2, gx2, e2, x3, x, gx, y }

/-- `svdw_map_to_curve` with the constants derived as in `mtc_params.rs`. -/
def svdw (u : Nat) : Option (Nat × Nat) :=
  match H.c3 with
  | none => none
  | some c3 =>
    let t := H.svdwSteps H.c1 H.c2 c3 H.c4 u
    t.y.map fun y => (t.x, y)

/-- `mtc_cpu.rs: weierstrass_to_montgomery`: `(K x − J/3, K y)` (`mtc.rs`: the constant
`−J · 3⁻¹` is added). -/
def weierstrassToMontgomery (P : Nat × Nat) : Nat × Nat :=
  (H.fsub (H.fmul P.1 H.k) (H.fmul H.j (H.inv0 3)), H.fmul P.2 H.k)

/-- `mtc_cpu.rs: montgomery_to_edwards` / `mtc.rs: montgomery_to_edwards` (RFC 9380 D.1 with the
exceptional cases `t = 0`, `s = −1` sent to `(0, 1)`). -/
def montgomeryToEdwards (P : Nat × Nat) : Nat × Nat :=
  let one := 1 % H.p
  -- 1. tv1 = s + 1
  let tv1 := H.fadd P.1 one
  -- 2. tv2 = tv1 * t ; 3. tv2 = inv0(tv2)
  let tv2 := H.inv0 (H.fmul tv1 P.2)
  -- 4. v = tv2 * tv1 ; 5. v = v * s
  let v := H.fmul (H.fmul tv2 tv1) P.1
  -- 6. w = tv2 * t ; 7. tv1 = s - 1 ; 8. w = w * tv1
  let w := H.fmul (H.fmul tv2 P.2) (H.fsub P.1 one)
  -- 9. e = tv2 == 0 ; 10. w = CMOV(w, 1, e)
  let w := if tv2 = 0 then one else w
  (v, w)

/-- The three stages before `from_xy` (hook `verif_map_to_jubjub_steps`). -/
def stages (u : Nat) : Option ((Nat × Nat) × (Nat × Nat) × (Nat × Nat)) :=
  (H.svdw u).map fun w =>
    let m := H.weierstrassToMontgomery w
    (w, m, H.montgomeryToEdwards m)

/-- `MapToCurveCPU::map_to_curve` / `MapToCurveInstructions::map_to_curve`: the Edwards point,
checked on the curve (`from_xy(..).unwrap()` / the membership gate of
`point_from_coordinates_unsafe`), then `clear_cofactor` (`mul_by_constant(COFACTOR)` in-circuit,
three doublings off-circuit: the same group element). -/
def mapToCurve (E : EdCurve) (u : Nat) : Option Pt :=
  match H.stages u with
  | none => none
  | some (_, _, e) => if E.onCurve e then some (E.mulByConstant (E.h % E.r) e) else none

/-- `HashToCurveGadget::hash_to_curve` after the two `squeeze`s: `map(x1) + map(x2)`. -/
def hashGlue (E : EdCurve) (x1 x2 : Nat) : Option Pt :=
  match H.mapToCurve E x1, H.mapToCurve E x2 with
  | some p1, some p2 => some (E.add p1 p2)
  | _, _ => none

/-! ## Exceptional inputs, computed from the constants -/

/-- Both square roots of `x` (sorted, without duplicates), `[]` for a non-residue. -/
def roots (x : Nat) : List Nat :=
  match H.sqrt x with
  | none => []
  | some r => let r' := H.fneg r; if r = r' then [r] else if r < r' then [r, r'] else [r', r]

/-- The inputs with `tv1 · tv2 = 0` (step 6 inverts zero): `c1 u² = 1` and `c1 u² = −1`. -/
def exceptionalInputs : List Nat :=
  let i := H.inv0 H.c1
  H.roots i ++ H.roots (H.fneg i)

/-- The root `ρ = J/(3K)` of `g` that is the image of the point of order two (the only root when
the 2-torsion is cyclic). -/
def rho : Nat := H.fmul (H.fmul H.j (H.inv0 3)) (H.inv0 H.k)

/-- Solutions of `α u² + β u + γ = 0` (`α ≠ 0`). -/
def quadRoots (α β γ : Nat) : List Nat :=
  let disc := H.fsub (H.fmul β β) (H.fmul (4 % H.p) (H.fmul α γ))
  let i := H.inv0 (H.fmul 2 α)
  (H.roots disc).map fun s => H.fmul (H.fsub s β) i

/-- Inputs with `x1(u) = ρ` (`g(x1) = 0`: the in-circuit `is_square` bit is not determined) and
with `x2(u) = ρ`: `(c2 − ρ)(1 + c1 u²) = ± c3 u`. -/
def zeroGxInputs (c3 : Nat) : List Nat × List Nat :=
  let d := H.fsub H.c2 H.rho
  (H.quadRoots (H.fmul d H.c1) (H.fneg c3) d, H.quadRoots (H.fmul d H.c1) c3 d)

/-- `repr_J` (Zcash protocol 5.4.9.3; `jubjub` `to_bytes`, `into_bytes.rs: into_bytes_incircuit`):
the 32 little-endian bytes of `v` with `sgn0(u)` in the top bit of the last byte, as an integer. -/
def reprJInt (p u v : Nat) : Nat := v % p + 2 ^ 255 * (if (u % p) % 2 == 1 then 1 else 0)

end HtcParams
end MidnightZK.C06
