import MidnightZK.Model.C19.Rx
/-!
# C19 — the n-ary internal tree of `regex.rs` and its reading as a binary expression

`RTree` is `regex.rs: enum RegexInternal` verbatim (as dumped by the hook `Regex::verif_dump`);
`RTree.toRx` gives its meaning: `Concat`/`Union` are folds of the binary operations, `Inter` is
the left fold of the marker-unifying intersection starting from the universal language
(`regex.rs: to_raw_automaton`, case `Inter`: `fold(RawAutomaton::universal, inter)`),
`Star(true, r)` is `r·r*`.
-/
namespace MidnightZK.C19

inductive RTree where
  | single (S : LSet)
  | concat (l : List RTree)
  | union (l : List RTree)
  | inter (l : List RTree)
  | star (strict : Bool) (r : RTree)
  | compl (r : RTree)
  deriving Repr, Inhabited, BEq

namespace RTree

mutual
  def toRx : RTree → Rx
    | .single S => .single S
    | .concat l => catList l
    | .union l => altList l
    | .inter l => andList Rx.univ l
    | .star strict r => if strict then Rx.plus (toRx r) else .star (toRx r)
    | .compl r => .compl (toRx r)
  def catList : List RTree → Rx
    | [] => .eps
    | r :: rs => .cat (toRx r) (catList rs)
  def altList : List RTree → Rx
    | [] => .empty
    | r :: rs => .alt (toRx r) (altList rs)
  def andList (acc : Rx) : List RTree → Rx
    | [] => acc
    | r :: rs => andList (.and acc (toRx r)) rs
end

mutual
  /-- `regex.rs: Regex::contains_markers`. -/
  def containsMarkers : RTree → Bool
    | .single S => S.any (fun p => p.1 != 0 && p.2 != 0)
    | .concat l => anyMarkers l
    | .union l => anyMarkers l
    | .inter l => anyMarkers l
    | .star _ r => containsMarkers r
    | .compl r => containsMarkers r
  def anyMarkers : List RTree → Bool
    | [] => false
    | r :: rs => containsMarkers r || anyMarkers rs
end

/-- Normal form of a `Single` set: masks of equal markers merged, empty masks dropped, sorted by
marker (the Rust vector is an unordered collection of letters). -/
def normLSet (S : LSet) : LSet :=
  let ms := (S.map (·.1)).foldl (fun acc m => if acc.contains m then acc else acc ++ [m]) []
  let merged := ms.map (fun m => (m, (S.filter (·.1 == m)).foldl (fun acc p => acc ||| p.2) 0))
  let nz := merged.filter (·.2 != 0)
  nz.mergeSort (fun a b => a.1 ≤ b.1)

end RTree

end MidnightZK.C19
