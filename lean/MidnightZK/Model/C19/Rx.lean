/-!
# C19 — regular expressions with markers: executable model

Model of the *meaning* of the private tree `RegexInternal` of
`circuits/src/parsing/regex.rs` (constructors `Single`, `Concat`, `Union`, `Inter`, `Star`,
`Complement`) in binary form, with Brzozowski derivatives over marked letters.
The n-ary tree that the Rust code really stores is `RTree` (file `Tree.lean`); `RTree.toRx`
folds it into this binary form.

Import-free (core only).
-/
namespace MidnightZK.C19

/-- `automaton.rs: struct Letter { char, marker }` as `(byte, marker)`; marker 0 = unmarked. -/
abbrev Letter := Nat × Nat

/-- The argument of `RegexInternal::Single(Vec<Letter>)`, stored per marker as a bit mask over
the bytes: `(marker, mask)` with bit `b` of `mask` set iff `Letter { char: b, marker }` is in the
vector. -/
abbrev LSet := List (Nat × Nat)

/-- Membership of a letter in a `Single` set. -/
def lmem (S : LSet) (a : Letter) : Bool :=
  S.any (fun p => p.1 == a.2 && p.2.testBit a.1)

/-- Binary form of `RegexInternal`.
* `empty` = `Union([])`, `eps` = `Concat([])`;
* `and` is `Inter` with marker unification (`automaton.rs: RawAutomaton::inter`);
* `star` is `Star(false, _)`; `Star(true, r)` is `cat r (star r)`;
* `compl` is `Complement` (complement among the *unmarked* words). -/
inductive Rx where
  | empty
  | eps
  | single (S : LSet)
  | cat (a b : Rx)
  | alt (a b : Rx)
  | and (a b : Rx)
  | star (a : Rx)
  | compl (a : Rx)
  deriving DecidableEq, Hashable, Repr, Inhabited

namespace Rx

def isEmpty : Rx → Bool
  | .empty => true
  | _ => false

def isEps : Rx → Bool
  | .eps => true
  | _ => false

/-- Does the language contain the empty word? -/
def nullable : Rx → Bool
  | .empty => false
  | .eps => true
  | .single _ => false
  | .cat a b => nullable a && nullable b
  | .alt a b => nullable a || nullable b
  | .and a b => nullable a && nullable b
  | .star _ => true
  | .compl a => !nullable a

def rank : Rx → Nat
  | .empty => 0
  | .eps => 1
  | .single _ => 2
  | .cat _ _ => 3
  | .alt _ _ => 4
  | .and _ _ => 5
  | .star _ => 6
  | .compl _ => 7

def cmpLSet : LSet → LSet → Ordering
  | [], [] => .eq
  | [], _ :: _ => .lt
  | _ :: _, [] => .gt
  | p :: ps, q :: qs =>
    (compare p.1 q.1).then ((compare p.2 q.2).then (cmpLSet ps qs))

/-- Some deterministic order on expressions; used only to keep unions in a canonical shape
(no theorem depends on its properties). -/
def cmp : Rx → Rx → Ordering
  | .single S, .single T => cmpLSet S T
  | .cat a b, .cat c d => (cmp a c).then (cmp b d)
  | .alt a b, .alt c d => (cmp a c).then (cmp b d)
  | .and a b, .and c d => (cmp a c).then (cmp b d)
  | .star a, .star c => cmp a c
  | .compl a, .compl c => cmp a c
  | a, b => compare a.rank b.rank

def lt (a b : Rx) : Bool := cmp a b == .lt

/-- Insert `x` into a right-nested, sorted, duplicate-free union (ACI normalisation). -/
def altInsert (x : Rx) : Rx → Rx
  | .empty => x
  | .alt y z =>
    if x = y then .alt y z
    else if lt x y then .alt x (.alt y z)
    else .alt y (altInsert x z)
  | y =>
    if x = y then y
    else if lt x y then .alt x y
    else .alt y x

/-- Smart union: flattens the left argument into the (normalised) right one. -/
def mkAlt : Rx → Rx → Rx
  | .empty, b => b
  | .alt x y, b => altInsert x (mkAlt y b)
  | a, b => altInsert a b

/-- Smart concatenation: `∅·b = a·∅ = ∅`, `ε·b = b`, `a·ε = a`, right association, and
distribution over a union on the left (so that a derivative is a union of concatenation chains,
as with Antimirov's partial derivatives). -/
def mkCat : Rx → Rx → Rx
  | .empty, _ => .empty
  | .eps, b => b
  | .cat x y, b => mkCat x (mkCat y b)
  | a, b => if b.isEmpty then .empty else if b.isEps then a else .cat a b

/-- `RawAutomaton::universal`: all unmarked words. -/
def univ : Rx := .compl .empty

/-- Right part of the smart intersection (left argument is not a union). -/
def mkAndR (a : Rx) : Rx → Rx
  | .empty => .empty
  | .alt x y => mkAlt (mkAndR a x) (mkAndR a y)
  | b => if a = univ then b else if b = univ then a else .and a b

/-- Smart intersection: `∅ ∩ b = a ∩ ∅ = ∅`, `univ ∩ b = b`, `a ∩ univ = a`, distribution over
unions on both sides. -/
def mkAnd : Rx → Rx → Rx
  | .empty, _ => .empty
  | .alt x y, b => mkAlt (mkAnd x b) (mkAnd y b)
  | a, b => mkAndR a b

/-- Smart star: `∅* = ε* = ε`, `(a*)* = a*`. -/
def mkStar : Rx → Rx
  | .empty => .eps
  | .eps => .eps
  | .star a => .star a
  | a => .star a

/-- Bottom-up normalisation with the smart constructors (same language, see `L_norm`). -/
def norm : Rx → Rx
  | .single S => if S.all (fun p => p.2 == 0) then .empty else .single S
  | .cat a b => mkCat (norm a) (norm b)
  | .alt a b => mkAlt (norm a) (norm b)
  | .and a b => mkAnd (norm a) (norm b)
  | .star a => mkStar (norm a)
  | .compl a => .compl (norm a)
  | r => r

/-- Brzozowski derivative with respect to the marked letter `x`.

For `and` (the marker-unifying intersection of `RawAutomaton::inter`: equal bytes whose markers
are equal or one of which is 0 are joined into the byte with the larger marker) a letter
`(b, m)` with `m ≠ 0` arises from `(m, m)`, `(m, 0)` or `(0, m)`.
For `compl` only unmarked letters have a non-empty derivative. -/
def deriv (x : Letter) : Rx → Rx
  | .empty => .empty
  | .eps => .empty
  | .single S => if lmem S x then .eps else .empty
  | .cat a b =>
    if nullable a then mkAlt (mkCat (deriv x a) b) (deriv x b) else mkCat (deriv x a) b
  | .alt a b => mkAlt (deriv x a) (deriv x b)
  | .and a b =>
    if x.2 = 0 then mkAnd (deriv x a) (deriv x b)
    else
      mkAlt (mkAnd (deriv x a) (deriv x b))
        (mkAlt (mkAnd (deriv x a) (deriv (x.1, 0) b)) (mkAnd (deriv (x.1, 0) a) (deriv x b)))
  | .star a => mkCat (deriv x a) (.star a)
  | .compl a => if x.2 = 0 then .compl (deriv x a) else .empty

/-- Derivative with respect to a word. -/
def derivs : List Letter → Rx → Rx
  | [], r => r
  | x :: w, r => derivs w (deriv x r)

/-- The derivative matcher: is the marked word in the language? -/
def «matches» (r : Rx) (w : List Letter) : Bool := nullable (derivs w r)

/-- All `Single` sets occurring in an expression. -/
def singles : Rx → List LSet
  | .empty => []
  | .eps => []
  | .single S => [S]
  | .cat a b => singles a ++ singles b
  | .alt a b => singles a ++ singles b
  | .and a b => singles a ++ singles b
  | .star a => singles a
  | .compl a => singles a

/-- All markers occurring in an expression. -/
def markersOf (r : Rx) : List Nat :=
  (singles r).flatMap (fun S => S.map (·.1))

/-- The letters `x` and `y` pass exactly the same `Single` tests of `r`. -/
def sameTests (r : Rx) (x y : Letter) : Bool :=
  (singles r).all (fun S => lmem S x == lmem S y)

def plus (r : Rx) : Rx := .cat r (.star r)

def size : Rx → Nat
  | .cat a b => size a + size b + 1
  | .alt a b => size a + size b + 1
  | .and a b => size a + size b + 1
  | .star a => size a + 1
  | .compl a => size a + 1
  | _ => 1

end Rx

end MidnightZK.C19
