import MidnightZK.Model.C19.Circuit
/-!
# C19 — several automata in one lookup table (`automaton_chip.rs: NativeAutomaton::from_collection`)

`AutomatonChip::configure` receives a map of automata; `from_collection` walks the map and gives
each automaton the offset `1 + Σ nb_states of the automata before it`; `load` writes the dummy
row and then, per automaton, its shifted transitions and its final-state sentinel rows into the
SAME four table columns; `parse(automaton_index, ..)` pins the first state cell to
`initial_state + offset` of the chosen member.
-/
namespace MidnightZK.C19

/-- `from_collection`: `let mut offset = 1; for each automaton { na = offset_states(offset);
offset += nb_states }` — the automata (in iteration order of the map) with their offsets,
starting from `start`. -/
def collFrom : Nat → List Dfa → List (Dfa × Nat)
  | _, [] => []
  | start, A :: As => (A, start) :: collFrom (start + A.nStates) As

/-- `NativeAutomaton::from_collection` (the offset starts from 1). -/
def collOf (As : List Dfa) : List (Dfa × Nat) := collFrom 1 As

/-- Rows contributed by one member: its shifted transitions and its sentinel rows. -/
def inMember (A : Dfa) (off : Nat) (row : Nat × Nat × Nat × Nat) : Prop :=
  (∃ s b t m, A.lookup s b = some (t, m) ∧ row = (s + off, b, t + off, m)) ∨
  (∃ f, A.isFinal f = true ∧ row = (f + off, 256, 0, 0))

/-- Membership in the table loaded for a collection: the dummy row or a row of some member. -/
def inCollTable (C : List (Dfa × Nat)) (row : Nat × Nat × Nat × Nat) : Prop :=
  row = (0, 0, 0, 0) ∨ ∃ p ∈ C, inMember p.1 p.2 row

/-- `AutomatonChip::load` for a collection: dummy row, then the members' rows. (Printed in the
canonical order of the harness: transitions by source state, then sentinels by state; the
offsets are increasing, so this is the order of the members.) -/
def collTableRows (C : List (Dfa × Nat)) : List (Nat × Nat × Nat × Nat) :=
  (0, 0, 0, 0) :: (C.flatMap (fun p => transRows p.1 p.2) ++ C.flatMap (fun p => finalRows p.1 p.2))

/-- The automaton's numbers are within its declared number of states (`nb_states`): what
`from_collection` relies on when it advances the offset by `nb_states`. -/
def Dfa.closed (A : Dfa) : Prop :=
  A.init < A.nStates ∧
  (∀ s b t m, A.lookup s b = some (t, m) → s < A.nStates ∧ t < A.nStates) ∧
  (∀ f, A.isFinal f = true → f < A.nStates)

/-- Executable form of `Dfa.closed` (evaluated by the driver on every dumped automaton). -/
def Dfa.closedB (A : Dfa) : Bool :=
  decide (A.init < A.nStates) && decide (A.tbl.size ≤ A.nStates * 256) &&
  decide (A.finals.size ≤ A.nStates) &&
  A.tbl.toList.all (fun e => match e with | some (t, _) => decide (t < A.nStates) | none => true)

/-- A well-formed collection: offsets at least 1, members closed, state ranges in increasing
order without overlap. -/
def collWf (C : List (Dfa × Nat)) : Prop :=
  (∀ p ∈ C, 0 < p.2 ∧ p.1.closed) ∧ C.Pairwise (fun p q => p.2 + p.1.nStates ≤ q.2)

/-- `rowsOk` over an arbitrary table. -/
def rowsOkT (T : Nat × Nat × Nat × Nat → Prop) : Nat → List Nat → List Nat → Prop
  | s, [], [] => T (s, 256, 0, 0)
  | s, b :: bs, o :: os => ∃ s', T (s, b, s', o) ∧ rowsOkT T s' bs os
  | _, _, _ => False

/-- `layoutSat` over an arbitrary table. -/
def layoutSatT (T : Nat × Nat × Nat × Nat → Prop) : List PRow → Prop
  | [] => False
  | [r] => r.q = false ∧ pinOk r.state
  | r :: r' :: rest =>
    pinOk r.state ∧
    (∃ l o, r.q = true ∧ r.letter = some l ∧ r.out = some o ∧ pinOk l ∧ pinOk o ∧
      T (r.state.1, l.1, r'.state.1, o.1)) ∧
    layoutSatT T (r' :: rest)

/-- The i-th member with its offset. -/
def collMember (As : List Dfa) (i : Nat) : Option (Dfa × Nat) := (collOf As)[i]?

end MidnightZK.C19
