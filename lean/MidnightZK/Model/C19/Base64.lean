/-!
# C19 — in-circuit base64 / base64url decoding (`circuits/src/parsing/base64_chip.rs`, `table.rs`)

The model follows the constraint logic of `Base64Chip`: url-safe translation, handling of the
last chunk (`process_padded_chunk` / `pad`), the two-character table lookup
(`base64_to_val_chunk`, table `two_entry_table`) and the 4→3 recombination
(`val_to_ascii_chunk`). `none` = the circuit is unsatisfiable (a lookup or an assertion fails).
Import-free.
-/
namespace MidnightZK.C19.B64

/-- `table.rs: BASE64_TABLE` as a function: value of a base64 character (`decode_char`);
`none` for a byte outside the alphabet (the lookup has no such row). -/
def val (c : Nat) : Option Nat :=
  if 65 ≤ c ∧ c ≤ 90 then some (c - 65)
  else if 97 ≤ c ∧ c ≤ 122 then some (c - 97 + 26)
  else if 48 ≤ c ∧ c ≤ 57 then some (c - 48 + 52)
  else if c = 43 then some 62
  else if c = 47 then some 63
  else none

/-- The base64 character of a 6-bit value. -/
def chr (v : Nat) : Nat :=
  if v < 26 then v + 65 else if v < 52 then v - 26 + 97 else if v < 62 then v - 52 + 48
  else if v = 62 then 43 else 47

/-- `ALT_PAD` (`'A'`, value 0) and `B64_PAD` (`'='`). -/
def altPad : Nat := 65
def b64Pad : Nat := 61

/-- `url_to_standard` on one character: `'-' ↦ '+'`, then `'_' ↦ '/'`. -/
def urlToStd (c : Nat) : Nat :=
  let c := if c = 45 then 43 else c
  if c = 95 then 47 else c

/-- One row of the lookup (`two_entry_table`): the pair of characters must be in the table and
the advice value is `v0 * 64 + v1`. -/
def pairVal (c0 c1 : Nat) : Option Nat := do
  let v0 ← val c0
  let v1 ← val c1
  pure (v0 * 64 + v1)

/-- `base64_to_val_chunk` followed by `val_to_ascii_chunk`: two lookups, then the 3 big-endian
bytes of `v01 * 2^12 + v23`. -/
def chunk (c0 c1 c2 c3 : Nat) : Option (List Nat) := do
  let a ← pairVal c0 c1
  let b ← pairVal c2 c3
  let t := a * 4096 + b
  pure [t / 65536, t / 256 % 256, t % 256]

/-- `process_padded_chunk`: `pad_in_3rd → pad_in_4th` is asserted; paddings become `ALT_PAD`. -/
def lastPadded (c0 c1 c2 c3 : Nat) : Option (List Nat) :=
  let p3 := c2 == b64Pad
  let p4 := c3 == b64Pad
  if p3 && !p4 then none
  else chunk c0 c1 (if p3 then altPad else c2) (if p4 then altPad else c3)

/-- `decode_base64`: the loop over `chunks(4)`, the last chunk being processed by
`process_padded_chunk` (padded) or `pad` (not padded).
A padded input whose length is not a multiple of 4 makes the Rust code panic
(`debug_assert!`/`try_into().expect`): the caller checks `lengthOk` first. -/
def decode (padded : Bool) : List Nat → Option (List Nat)
  | [] => some []
  | [c0] => if padded then none else chunk c0 altPad altPad altPad
  | [c0, c1] => if padded then none else chunk c0 c1 altPad altPad
  | [c0, c1, c2] => if padded then none else chunk c0 c1 c2 altPad
  | [c0, c1, c2, c3] => if padded then lastPadded c0 c1 c2 c3 else chunk c0 c1 c2 c3
  | c0 :: c1 :: c2 :: c3 :: c4 :: rest => do
    let a ← chunk c0 c1 c2 c3
    let b ← decode padded (c4 :: rest)
    pure (a ++ b)

def lengthOk (padded : Bool) (input : List Nat) : Bool := !padded || input.length % 4 == 0

/-- `decode_base64url`. -/
def decodeUrl (padded : Bool) (input : List Nat) : Option (List Nat) :=
  decode padded (input.map urlToStd)

/-- `var_decode_base64` on a `Base64Vec<_, M, 4>` holding `input` (right-aligned, filler
`ALT_PAD`): the whole buffer is decoded (padded mode), the result vector has length
`3/4 · len` and holds the last `3/4 · len` bytes of the decoded buffer. -/
def decodeVar (m : Nat) (input : List Nat) : Option (List Nat) := do
  let buf := List.replicate (m - input.length) altPad ++ input
  let out ← decode true buf
  pure (out.drop (out.length - input.length / 4 * 3))

/-! ### The standard encoder (RFC 4648 §4), used as the specification -/

/-- Standard base64 of 3 bytes. -/
def enc3 (b0 b1 b2 : Nat) : List Nat :=
  let t := b0 * 65536 + b1 * 256 + b2
  [chr (t / 262144), chr (t / 4096 % 64), chr (t / 64 % 64), chr (t % 64)]

/-- RFC 4648 encoding, with (`pad = true`) or without the `=` padding. -/
def encode (pad : Bool) : List Nat → List Nat
  | [] => []
  | [b0] =>
    let t := b0 * 65536
    [chr (t / 262144), chr (t / 4096 % 64)] ++ (if pad then [b64Pad, b64Pad] else [])
  | [b0, b1] =>
    let t := b0 * 65536 + b1 * 256
    [chr (t / 262144), chr (t / 4096 % 64), chr (t / 64 % 64)] ++ (if pad then [b64Pad] else [])
  | b0 :: b1 :: b2 :: rest => enc3 b0 b1 b2 ++ encode pad rest

/-- Zero bytes that complete the output to a multiple of 3 (`ASCII_ZERO`). -/
def zeroFill (n : Nat) : List Nat := List.replicate ((3 - n % 3) % 3) 0

/-- A character that the (lenient) circuit accepts at position `i` of a padded input of length
`n`: alphabet everywhere; `=` only in the last two positions, and `=` in the last-but-one
position forces `=` in the last one. -/
def acceptedShape (input : List Nat) : Bool :=
  let n := input.length
  (input.zipIdx).all (fun ci =>
    (val ci.1).isSome || (ci.1 == b64Pad && n % 4 == 0 && ci.2 + 2 ≥ n)) &&
  (n < 2 || !(input.getD (n - 2) 0 == b64Pad) || input.getD (n - 1) 0 == b64Pad)

end MidnightZK.C19.B64
