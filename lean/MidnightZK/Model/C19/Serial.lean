import MidnightZK.Model.C19.Dfa
/-!
# C19 — serialization of automata (`circuits/src/parsing/serialization.rs`)

`impl_serialize_for_struct!(Automaton { nb_states, initial_state, final_states, transitions })`:
`usize` as 8 little-endian bytes, `u8` as one byte, `FxHashSet`/`FxHashMap` as a length-prefixed
vector of the entries sorted (by key), pairs as the concatenation of their components.
-/
namespace MidnightZK.C19

/-- The plain data of `struct Automaton` (sets and maps as lists). -/
structure AutData where
  nbStates : Nat
  init : Nat
  finals : List Nat
  trans : List ((Nat × Nat) × (Nat × Nat))
  deriving DecidableEq, Repr, Inhabited

/-- `k` little-endian bytes of `n` (`to_le_bytes`). -/
def leBytes : Nat → Nat → List Nat
  | 0, _ => []
  | k + 1, n => n % 256 :: leBytes k (n / 256)

/-- `from_le_bytes`. -/
def fromLe : List Nat → Nat
  | [] => 0
  | b :: bs => b + 256 * fromLe bs

/-- `impl Serialize for usize` (`serialize`). -/
def serUsize (n : Nat) : List Nat := leBytes 8 n

/-- `impl Serialize for usize` (`deserialize`): `ensure_buf_len!(buf, 8)`, then the value. -/
def deUsize (buf : List Nat) : Option (Nat × List Nat) :=
  if buf.length < 8 then none else some (fromLe (buf.take 8), buf.drop 8)

/-- `impl Serialize for u8` (`deserialize`). -/
def deU8 : List Nat → Option (Nat × List Nat)
  | [] => none
  | b :: bs => some (b, bs)

def serTrans (e : (Nat × Nat) × (Nat × Nat)) : List Nat :=
  serUsize e.1.1 ++ [e.1.2] ++ (serUsize e.2.1 ++ serUsize e.2.2)

def deTrans (buf : List Nat) : Option (((Nat × Nat) × (Nat × Nat)) × List Nat) := do
  let (s, buf) ← deUsize buf
  let (b, buf) ← deU8 buf
  let (t, buf) ← deUsize buf
  let (m, buf) ← deUsize buf
  pure (((s, b), (t, m)), buf)

/-- `impl Serialize for Vec<T>` (`serialize`): length, then the items. -/
def serVec {α : Type} (f : α → List Nat) (l : List α) : List Nat :=
  serUsize l.length ++ l.flatMap f

/-- The `for _ in 0..len` loop of `Vec::<T>::deserialize`. -/
def deItems {α : Type} (f : List Nat → Option (α × List Nat)) :
    Nat → List Nat → Option (List α × List Nat)
  | 0, buf => some ([], buf)
  | k + 1, buf => do
    let (x, buf) ← f buf
    let (xs, buf) ← deItems f k buf
    pure (x :: xs, buf)

def deVec {α : Type} (f : List Nat → Option (α × List Nat)) (buf : List Nat) :
    Option (List α × List Nat) := do
  let (len, buf) ← deUsize buf
  deItems f len buf

/-- `Automaton::serialize` (sets and maps already sorted). -/
def serialize (A : AutData) : List Nat :=
  serUsize A.nbStates ++ (serUsize A.init ++ (serVec serUsize A.finals ++ serVec serTrans A.trans))

/-- `Automaton::deserialize`: the automaton and the unread rest of the buffer. -/
def deserialize (buf : List Nat) : Option (AutData × List Nat) := do
  let (n, buf) ← deUsize buf
  let (i, buf) ← deUsize buf
  let (fs, buf) ← deVec deUsize buf
  let (tr, buf) ← deVec deTrans buf
  pure ({ nbStates := n, init := i, finals := fs, trans := tr }, buf)

/-- Every number fits its Rust type. -/
def AutData.wf (A : AutData) : Prop :=
  A.nbStates < 2 ^ 64 ∧ A.init < 2 ^ 64 ∧ A.finals.length < 2 ^ 64 ∧ A.trans.length < 2 ^ 64 ∧
  (∀ f ∈ A.finals, f < 2 ^ 64) ∧
  (∀ e ∈ A.trans, e.1.1 < 2 ^ 64 ∧ e.1.2 < 256 ∧ e.2.1 < 2 ^ 64 ∧ e.2.2 < 2 ^ 64)

/-- Sorted views of an automaton (as `serialize` sorts the set and the map). -/
def Dfa.toData (A : Dfa) : AutData where
  nbStates := A.nStates
  init := A.init
  finals := (List.range A.nStates).filter (fun s => A.isFinal s)
  trans := (List.range A.nStates).flatMap (fun s =>
    (List.range 256).filterMap (fun b => (A.lookup s b).map (fun tm => ((s, b), tm))))

/-- The automaton of plain data (later entries of a repeated key win, as in `FxHashMap::from_iter`). -/
def AutData.toDfa (D : AutData) : Dfa where
  nStates := D.nbStates
  init := D.init
  finals := D.finals.foldl (fun a f => a.setIfInBounds f true) (Array.replicate D.nbStates false)
  tbl := D.trans.foldl (fun a e =>
      if e.1.2 < 256 then a.setIfInBounds (e.1.1 * 256 + e.1.2) (some e.2) else a)
    (Array.replicate (D.nbStates * 256) none)

end MidnightZK.C19
