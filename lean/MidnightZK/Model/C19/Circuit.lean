import MidnightZK.Model.C19.Dfa
/-!
# C19 — the in-circuit parser (`circuits/src/parsing/automaton_chip.rs`)

The lookup table loaded by `AutomatonChip::load` and the rows laid out by `parse`
(`apply_one_transition` per input byte, then `assert_final_state`), for one automaton whose
states are shifted by `off ≥ 1` (`NativeAutomaton::from_collection`).
-/
namespace MidnightZK.C19

/-- Membership in the table `(t_source, t_letter, t_target, t_output)`:
the dummy row `(0,0,0,0)`, one row per transition, one sentinel row `(f, 256, 0, 0)` per final
state. -/
def inTable (A : Dfa) (off : Nat) (row : Nat × Nat × Nat × Nat) : Prop :=
  row = (0, 0, 0, 0) ∨
  (∃ s b t m, A.lookup s b = some (t, m) ∧ row = (s + off, b, t + off, m)) ∨
  (∃ f, A.isFinal f = true ∧ row = (f + off, 256, 0, 0))

/-- The rows of the region "parsing layout" are all in the table: starting in (shifted) state
`s`, each byte `b` with output `o` needs a prover-chosen next state `s'` with
`(s, b, s', o)` in the table, and the last state needs the sentinel row `(s, 256, 0, 0)`. -/
def rowsOk (A : Dfa) (off : Nat) : Nat → List Nat → List Nat → Prop
  | s, [], [] => inTable A off (s, 256, 0, 0)
  | s, b :: bs, o :: os => ∃ s', inTable A off (s, b, s', o) ∧ rowsOk A off s' bs os
  | _, _, _ => False

/-- What the honest prover computes (`apply_one_transition`): `none` when the run is stuck
(`error_if_known_and`) or ends in a non-final state (unsatisfiable lookup). -/
def parseModel (A : Dfa) (bytes : List Nat) : Option (List Nat) :=
  match A.run A.init bytes with
  | some (q, ms) => if A.isFinal q then some ms else none
  | none => none

/-! ## Structure emitted by `configure` / `load` / `parse` (compared with the real circuit) -/

/-- `AutomatonChip::configure`: the lookup "automaton transition check" multiplies the selector
`q_automaton` with four advice cells and looks the tuple up in the four table columns:
`(advice column, rotation, table column)` with advice columns 0 = state, 1 = letter, 2 = output.
`rowsOk`/`layoutSat` read a row exactly this way: `(state@0, letter@0, state@1, output@0)`. -/
def lookupShape : List (Nat × Nat × Nat) := [(0, 0, 0), (1, 0, 1), (0, 1, 2), (2, 0, 3)]

def lookupText : String :=
  " ".intercalate (lookupShape.map fun (a, r, t) => s!"q*a{a}@{r}>t{t}")

/-- `AutomatonChip::load`, main transitions: one row `(s + off, b, t + off, m)` per entry of the
transition map, in the order of `(s, b)`. -/
def transRows (A : Dfa) (off : Nat) : List (Nat × Nat × Nat × Nat) :=
  (List.range A.tbl.size).filterMap fun i =>
    match (A.tbl[i]?).join with
    | some (t, m) => some (i / 256 + off, i % 256, t + off, m)
    | none => none

/-- `AutomatonChip::load`, dummy transitions `(f + off, 256, 0, 0)` for the final states. -/
def finalRows (A : Dfa) (off : Nat) : List (Nat × Nat × Nat × Nat) :=
  (List.range A.finals.size).filterMap fun f =>
    if A.isFinal f then some (f + off, 256, 0, 0) else none

/-- `AutomatonChip::load`: the whole table (the unused rows of the table columns repeat the
first entry, the dummy transition). -/
def tableRows (A : Dfa) (off : Nat) : List (Nat × Nat × Nat × Nat) :=
  (0, 0, 0, 0) :: (transRows A off ++ finalRows A off)

/-- How the permutation argument constrains a cell of the parsing region: equal to a constant
(`assign_fixed` + `copy_advice`), copied from another advice cell (the input byte), or free
(chosen by the prover). -/
inductive Pin where
  | fixed (c : Nat)
  | copy
  | free
  deriving Repr, DecidableEq

/-- A cell: assigned value and its pin. -/
abbrev PCell := Nat × Pin

/-- One row of the region "parsing layout": selector `q_automaton`, state cell, and (on enabled
rows) letter and output cells. -/
structure PRow where
  q : Bool
  state : PCell
  letter : Option PCell
  out : Option PCell

/-- `AutomatonChip::parse`: the rows laid out for the input `bytes`, given the value and pin of
the current state cell, the values `sts` of the following state cells (one per byte — assigned
by `apply_one_transition`, free — plus the last one, copied from the constant 0 by
`assert_final_state`) and the values `outs` of the output cells (free).
Row per byte: selector on, letter copied from the input. Sentinel row: selector on, letter
pinned to 256, output pinned to 0. Last row: selector off, state pinned to 0. -/
def mkRows : PCell → List Nat → List Nat → List Nat → List PRow
  | cur, [z], [], [] =>
    [⟨true, cur, some (256, .fixed 256), some (0, .fixed 0)⟩, ⟨false, (z, .fixed 0), none, none⟩]
  | cur, s' :: sts, b :: bs, o :: os =>
    ⟨true, cur, some (b, .copy), some (o, .free)⟩ :: mkRows (s', .free) sts bs os
  | _, _, _, _ => []

/-- The permutation argument on one cell. -/
def pinOk : PCell → Prop
  | (v, .fixed c) => v = c
  | _ => True

/-- All constraints on the region: copy constraints to constants, and on every enabled row the
lookup of `(state@0, letter@0, state@1, output@0)`; the last row is not enabled. -/
def layoutSat (A : Dfa) (off : Nat) : List PRow → Prop
  | [] => False
  | [r] => r.q = false ∧ pinOk r.state
  | r :: r' :: rest =>
    pinOk r.state ∧
    (∃ l o, r.q = true ∧ r.letter = some l ∧ r.out = some o ∧ pinOk l ∧ pinOk o ∧
      inTable A off (r.state.1, l.1, r'.state.1, o.1)) ∧
    layoutSat A off (r' :: rest)

/-- States visited and markers emitted by the run from `s` (`apply_one_transition` per byte);
`none` when the run is stuck (`error_if_known_and`: the honest prover cannot go on). -/
def Dfa.runTrace (A : Dfa) : Nat → List Nat → Option (List Nat × List Nat)
  | _, [] => some ([], [])
  | s, b :: bs =>
    match A.lookup s b with
    | none => none
    | some (t, m) => (A.runTrace t bs).map fun p => (t :: p.1, m :: p.2)

/-- The rows the honest prover lays out (whether or not the last state is final). -/
def parseRows (A : Dfa) (off : Nat) (bytes : List Nat) : Option (List PRow) :=
  (A.runTrace A.init bytes).map fun (sts, ms) =>
    mkRows (A.init + off, .fixed (A.init + off)) (sts.map (· + off) ++ [0]) bytes ms

def Pin.text : Pin → String
  | .fixed c => s!"={c}"
  | .copy => "c"
  | .free => "f"

def PCell.text (c : PCell) : String := s!"{c.1}{c.2.text}"

def PRow.text (r : PRow) : String :=
  let q := if r.q then "1" else "0"
  match r.letter, r.out with
  | some l, some o => s!"{q}:{PCell.text r.state}:{PCell.text l}:{PCell.text o}"
  | _, _ => s!"{q}:{PCell.text r.state}"

def rowText (r : Nat × Nat × Nat × Nat) : String := s!"{r.1}.{r.2.1}.{r.2.2.1}.{r.2.2.2}"

end MidnightZK.C19
