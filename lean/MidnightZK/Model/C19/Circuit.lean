import MidnightZK.Model.C19.Dfa
/-!
# C19 — the in-circuit parser (`circuits/src/parsing/automaton_chip.rs`)

The lookup table loaded by `AutomatonChip::load` and the rows laid out by `parse`
(`apply_one_transition` per input byte, then `assert_final_state`), for one automaton whose
states are shifted by `off ≥ 1` (`NativeAutomaton::from_collection`).
-/
namespace MidnightZK.C19

/-- Membership in the table `(t_source, t_letter, t_target, t_output)`:
the dummy row `(0,0,0,0)`, one row per transition, one sentinel row `(f, 256, 0, 0)` per final
state. -/
def inTable (A : Dfa) (off : Nat) (row : Nat × Nat × Nat × Nat) : Prop :=
  row = (0, 0, 0, 0) ∨
  (∃ s b t m, A.lookup s b = some (t, m) ∧ row = (s + off, b, t + off, m)) ∨
  (∃ f, A.isFinal f = true ∧ row = (f + off, 256, 0, 0))

/-- The rows of the region "parsing layout" are all in the table: starting in (shifted) state
`s`, each byte `b` with output `o` needs a prover-chosen next state `s'` with
`(s, b, s', o)` in the table, and the last state needs the sentinel row `(s, 256, 0, 0)`. -/
def rowsOk (A : Dfa) (off : Nat) : Nat → List Nat → List Nat → Prop
  | s, [], [] => inTable A off (s, 256, 0, 0)
  | s, b :: bs, o :: os => ∃ s', inTable A off (s, b, s', o) ∧ rowsOk A off s' bs os
  | _, _, _ => False

/-- What the honest prover computes (`apply_one_transition`): `none` when the run is stuck
(`error_if_known_and`) or ends in a non-final state (unsatisfiable lookup). -/
def parseModel (A : Dfa) (bytes : List Nat) : Option (List Nat) :=
  match A.run A.init bytes with
  | some (q, ms) => if A.isFinal q then some ms else none
  | none => none

end MidnightZK.C19
