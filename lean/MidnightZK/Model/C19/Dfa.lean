import MidnightZK.Model.C19.Rx
import Std.Data.HashMap
/-!
# C19 — compiled automata, their runs, and certificate-style equivalence checking

* `Dfa` mirrors `automaton.rs: struct Automaton` (deterministic, partial, byte-labelled,
  one output marker per transition); `Dfa.run` mirrors `Automaton::run`.
* `Machine`, `Cert`, `verifyCert`: a bisimulation certificate between two deterministic
  machines over *marked* letters and the (small, verified) function that checks it.
* `explore`: the untrusted search that proposes a certificate or a distinguishing word.
* `checkEquiv` (automaton against regular expression, all words) and `dfaBisim` (automaton
  against automaton, all words).

Import-free apart from `Std.Data.HashMap` (used by the untrusted search only).
-/
namespace MidnightZK.C19

/-- `automaton.rs: struct Automaton`. `tbl[s * 256 + b] = some (t, m)` iff
`transitions[(s, b)] = (t, m)`; `finals[s]` iff `s ∈ final_states`. -/
structure Dfa where
  nStates : Nat
  init : Nat
  finals : Array Bool
  tbl : Array (Option (Nat × Nat))
  deriving Inhabited

namespace Dfa

/-- `self.transitions.get(&(s, b))`. -/
def lookup (A : Dfa) (s b : Nat) : Option (Nat × Nat) :=
  if b < 256 then (A.tbl[s * 256 + b]?).join else none

def isFinal (A : Dfa) (s : Nat) : Bool := (A.finals[s]?).getD false

/-- `automaton.rs: Automaton::run` from state `s`: the reached state and the emitted markers,
or `none` when the run gets stuck. -/
def run (A : Dfa) : Nat → List Nat → Option (Nat × List Nat)
  | s, [] => some (s, [])
  | s, b :: bs =>
    match A.lookup s b with
    | none => none
    | some (t, m) => (A.run t bs).map (fun p => (p.1, m :: p.2))

/-- The automaton accepts `bytes` and emits exactly `markers`. -/
def accepts (A : Dfa) (bytes markers : List Nat) : Bool :=
  match A.run A.init bytes with
  | some (q, ms) => A.isFinal q && decide (ms = markers)
  | none => false

/-- The same automaton read as a complete machine over marked letters: state `none` is the
implicit deadlock; a letter `(b, m)` is followed only if the transition on `b` emits `m`. -/
def mstep (A : Dfa) : Option Nat → Letter → Option Nat
  | none, _ => none
  | some s, x =>
    match A.lookup s x.1 with
    | some (t, m) => if m = x.2 then some t else none
    | none => none

def macc (A : Dfa) : Option Nat → Bool
  | none => false
  | some s => A.isFinal s

def acceptsMarked (A : Dfa) (w : List Letter) : Bool :=
  A.macc (w.foldl A.mstep (some A.init))

/-- Markers emitted by some transition. -/
def markersOf (A : Dfa) : List Nat :=
  A.tbl.toList.filterMap (fun e => e.map (·.2))

end Dfa

/-- A deterministic complete machine over marked letters. `same t x y` is a sufficient test for
`step t x = step t y` (used to treat a whole class of bytes through one representative). -/
structure Machine (T : Type) where
  step : T → Letter → T
  acc : T → Bool
  same : T → Letter → Letter → Bool

def dfaMachine (A : Dfa) : Machine (Option Nat) where
  step := A.mstep
  acc := A.macc
  same s x y := decide (A.mstep s x = A.mstep s y)

def rxMachine : Machine Rx where
  step t x := Rx.deriv x t
  acc := Rx.nullable
  same t x y := decide (x.2 = y.2) && Rx.sameTests t x y && Rx.sameTests t (x.1, 0) (y.1, 0)

/-- A bisimulation certificate.
* `markers`: the marker alphabet; `rep[b]`: representative of the class of byte `b`;
  `reps`: the representatives;
* `pairs`: the proposed relation, `pairs[0]` the initial pair;
* `succ[i][j]`: index in `pairs` of the successor of `pairs[i]` under the `j`-th letter of
  `letters` (representatives × markers). -/
structure Cert (S T : Type) where
  markers : List Nat
  rep : Array Nat
  reps : List Nat
  pairs : Array (S × T)
  succ : Array (Array Nat)

def Cert.letters {S T : Type} (c : Cert S T) : List Letter :=
  c.reps.flatMap (fun b => c.markers.map (fun m => (b, m)))

def Cert.repOf {S T : Type} (c : Cert S T) (b : Nat) : Nat := (c.rep[b]?).getD 256

/-- The verified certificate check: initial pair present, acceptance agrees on every pair, every
byte behaves like its representative on every pair, and the relation is closed under every
representative letter. -/
def verifyCert {S T : Type} [DecidableEq S] [DecidableEq T] (MS : Machine S) (MT : Machine T)
    (s0 : S) (t0 : T) (c : Cert S T) : Bool :=
  (match c.pairs[0]? with
   | some p => decide (p.1 = s0) && decide (p.2 = t0)
   | none => false) &&
  (List.range 256).all (fun b => decide (c.repOf b < 256) && c.reps.contains (c.repOf b)) &&
  (List.range c.pairs.size).all (fun i =>
    match c.pairs[i]? with
    | none => false
    | some (s, t) =>
      (MS.acc s == MT.acc t) &&
      (List.range 256).all (fun b => c.markers.all (fun m =>
        MS.same s (b, m) (c.repOf b, m) && MT.same t (b, m) (c.repOf b, m))) &&
      (c.letters.zipIdx).all (fun aj =>
        match c.pairs[((c.succ[i]?).getD #[])[aj.2]?.getD c.pairs.size]? with
        | some p => decide (p.1 = MS.step s aj.1) && decide (p.2 = MT.step t aj.1)
        | none => false))

/-! ## Untrusted search -/

structure Explored (S T : Type) where
  pairs : Array (S × T)
  succ : Array (Array Nat)
  parent : Array (Nat × Letter)
  /-- index of a pair on which acceptance differs -/
  bad : Option Nat
  complete : Bool

/-- Breadth-first closure of the initial pair under `letters`; stops at the first pair whose
acceptance differs. -/
def exploreLoop {S T : Type} [BEq S] [Hashable S] [BEq T] [Hashable T]
    (MS : Machine S) (MT : Machine T) (tooBig : T → Bool) (letters : Array Letter) :
    Nat → Nat → Std.HashMap (S × T) Nat → Explored S T → Explored S T
  | 0, _, _, e => e
  | fuel + 1, i, idx, e =>
    if h : i < e.pairs.size then
      let (s, t) := e.pairs[i]
      if MS.acc s != MT.acc t then { e with bad := some i }
      else if tooBig t then e
      else
        let (idx, pairs, parent, row) := letters.foldl (init := (idx, e.pairs, e.parent, (#[] : Array Nat)))
          (fun (idx, pairs, parent, row) a =>
            let p := (MS.step s a, MT.step t a)
            match idx[p]? with
            | some k => (idx, pairs, parent, row.push k)
            | none =>
              let k := pairs.size
              (idx.insert p k, pairs.push p, parent.push (i, a), row.push k))
        exploreLoop MS MT tooBig letters fuel (i + 1) idx
          { e with pairs := pairs, parent := parent, succ := e.succ.push row }
    else { e with complete := true }

def explore {S T : Type} [BEq S] [Hashable S] [BEq T] [Hashable T]
    (MS : Machine S) (MT : Machine T) (tooBig : T → Bool) (s0 : S) (t0 : T)
    (letters : Array Letter) (fuel : Nat) : Explored S T :=
  exploreLoop MS MT tooBig letters fuel 0 ((∅ : Std.HashMap (S × T) Nat).insert (s0, t0) 0)
    { pairs := #[(s0, t0)], succ := #[], parent := #[(0, (0, 0))], bad := none, complete := false }

/-- The word leading from the initial pair to pair `i` (follows the parent pointers). -/
def Explored.wordTo {S T : Type} (e : Explored S T) : Nat → Nat → List Letter → List Letter
  | 0, _, acc => acc
  | fuel + 1, i, acc =>
    if i = 0 then acc
    else
      match e.parent[i]? with
      | some (j, a) => e.wordTo fuel j (a :: acc)
      | none => acc

/-- Class representatives of the bytes: two bytes are in the same class when they have the same
signature. The signature is supplied by the caller (untrusted). -/
def mkReps (sig : Nat → List Nat) : Array Nat × List Nat :=
  let (rep, reps, _) := (List.range 256).foldl
    (init := ((#[] : Array Nat), ([] : List Nat), (∅ : Std.HashMap (List Nat) Nat)))
    (fun (rep, reps, seen) b =>
      let s := sig b
      match seen[s]? with
      | some r => (rep.push r, reps, seen)
      | none => (rep.push b, b :: reps, seen.insert s b))
  (rep, reps.reverse)

def dedupNat (l : List Nat) : List Nat :=
  l.foldl (fun acc x => if acc.contains x then acc else acc ++ [x]) []

/-- Signature of a byte w.r.t. a list of `Single` sets and markers. -/
def sigRx (ss : List LSet) (ms : List Nat) (b : Nat) : List Nat :=
  ss.flatMap (fun S => ms.map (fun m => if lmem S (b, m) then 1 else 0))

/-- Signature of a byte w.r.t. the transition table of an automaton (column of the table). -/
def sigDfa (A : Dfa) (b : Nat) : List Nat :=
  (List.range A.nStates).flatMap (fun s =>
    match A.lookup s b with
    | none => [0]
    | some (t, m) => [t + 1, m])

inductive Verdict where
  | equiv (pairs : Nat) (classes : Nat)
  | diff (w : List Letter)
  | unknown (why : String)
  deriving Repr

/-! ## Automaton against regular expression -/

def certOfExplored {S T : Type} (ms : List Nat) (rep : Array Nat) (reps : List Nat)
    (e : Explored S T) : Cert S T :=
  { markers := ms, rep := rep, reps := reps, pairs := e.pairs, succ := e.succ }

/-- The side conditions on the marker alphabet, then the certificate check. -/
def checkEquivWith (A : Dfa) (r : Rx) (c : Cert (Option Nat) Rx) : Bool :=
  c.markers.contains 0 &&
  (Rx.markersOf r).all (fun m => c.markers.contains m) &&
  A.markersOf.all (fun m => c.markers.contains m) &&
  verifyCert (dfaMachine A) rxMachine (some A.init) (Rx.norm r) c

def equivSetup (A : Dfa) (r : Rx) : List Nat × Array Nat × List Nat × Array Letter :=
  let ms := dedupNat (0 :: (Rx.markersOf r ++ A.markersOf))
  let ss := Rx.singles r
  let (rep, reps) := mkReps (fun b => sigRx ss ms b ++ sigDfa A b)
  (ms, rep, reps, (reps.flatMap (fun b => ms.map (fun m => (b, m)))).toArray)

/-- Search for a certificate, or for a distinguishing word. -/
def equivSearch (fuel : Nat) (A : Dfa) (r : Rx) : Explored (Option Nat) Rx × Cert (Option Nat) Rx :=
  let (ms, rep, reps, letters) := equivSetup A r
  let e := explore (dfaMachine A) rxMachine (fun t => t.size > 20000) (some A.init) (Rx.norm r)
    letters fuel
  (e, certOfExplored ms rep reps e)

/-- Decides, for ALL marked words, whether automaton `A` accepts exactly the words of `L r`
(with exactly their markers). `true` is backed by `checkEquiv_sound`. -/
def checkEquiv (fuel : Nat) (A : Dfa) (r : Rx) : Bool :=
  checkEquivWith A r (equivSearch fuel A r).2

def checkEquivVerdict (fuel : Nat) (A : Dfa) (r : Rx) : Verdict :=
  let (e, c) := equivSearch fuel A r
  match e.bad with
  | some i => .diff (e.wordTo (e.pairs.size + 1) i [])
  | none =>
    if !e.complete then .unknown "fuel"
    else if checkEquivWith A r c then .equiv c.pairs.size c.reps.length
    else .unknown "certificate-rejected"

/-! ## Automaton against automaton -/

def dfaBisimWith (A B : Dfa) (c : Cert (Option Nat) (Option Nat)) : Bool :=
  A.markersOf.all (fun m => c.markers.contains m) &&
  B.markersOf.all (fun m => c.markers.contains m) &&
  verifyCert (dfaMachine A) (dfaMachine B) (some A.init) (some B.init) c

def bisimSearch (fuel : Nat) (A B : Dfa) :
    Explored (Option Nat) (Option Nat) × Cert (Option Nat) (Option Nat) :=
  let ms := dedupNat (0 :: (A.markersOf ++ B.markersOf))
  let (rep, reps) := mkReps (fun b => sigDfa A b ++ sigDfa B b)
  let letters := (reps.flatMap (fun b => ms.map (fun m => (b, m)))).toArray
  let e := explore (dfaMachine A) (dfaMachine B) (fun _ => false) (some A.init) (some B.init)
    letters fuel
  (e, certOfExplored ms rep reps e)

/-- Decides, for ALL words, whether two automata accept the same byte strings with the same
markers. `true` is backed by `dfaBisim_sound`. -/
def dfaBisim (fuel : Nat) (A B : Dfa) : Bool :=
  dfaBisimWith A B (bisimSearch fuel A B).2

def dfaBisimVerdict (fuel : Nat) (A B : Dfa) : Verdict :=
  let (e, c) := bisimSearch fuel A B
  match e.bad with
  | some i => .diff (e.wordTo (e.pairs.size + 1) i [])
  | none =>
    if !e.complete then .unknown "fuel"
    else if dfaBisimWith A B c then .equiv c.pairs.size c.reps.length
    else .unknown "certificate-rejected"

/-! ## Output determinism of an expression (untrusted search, used for the refusal verdict) -/

/-- `Regex::to_automaton` refuses ("non output-deterministic language") an expression iff, after
some common prefix, the same byte can continue towards accepted words with two different
markers. Decided here on the derivative automaton: `some true` = deterministic,
`some false` = a conflict exists, `none` = budget exceeded. -/
def detCheck (fuel : Nat) (r : Rx) : Option Bool :=
  let ms := dedupNat (0 :: Rx.markersOf r)
  let ss := Rx.singles r
  let (_, reps) := mkReps (fun b => sigRx ss ms b)
  let letters := (reps.flatMap (fun b => ms.map (fun m => (b, m)))).toArray
  let r0 := Rx.norm r
  let e := explore rxMachine rxMachine (fun t => t.size > 20000) r0 r0 letters fuel
  if !e.complete then none else
  let n := e.pairs.size
  let live0 : Array Bool := e.pairs.map (fun p => p.2.nullable)
  let stepLive (live : Array Bool) : Array Bool :=
    (Array.range n).map (fun i => live.getD i false ||
      ((e.succ.getD i #[]).any (fun k => live.getD k false)))
  let rec iter : Nat → Array Bool → Array Bool
    | 0, l => l
    | k + 1, l => let l' := stepLive l; if l' == l then l else iter k l'
  let live := iter n live0
  let nm := ms.length
  let conflict := (List.range n).any (fun i =>
    live.getD i false &&
    (List.range reps.length).any (fun bi =>
      let liveMs := (List.range nm).filter (fun mi =>
        live.getD ((e.succ.getD i #[]).getD (bi * nm + mi) n) false)
      liveMs.length ≥ 2))
  some (!conflict)

end MidnightZK.C19
