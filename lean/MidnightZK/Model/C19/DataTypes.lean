import MidnightZK.Model.C19.Serial
/-!
# C19 — `ParserGadget` (`circuits/src/parsing/parser_gadget.rs`, `data_types.rs`)

`get_subsequence` / `fetch_bytes` (a window of a byte sequence at a witness index),
`ascii_to_digit` / `ascii_to_int` / `date_to_int` (decimal fields of a credential).
`none` = the circuit is unsatisfiable (an assertion fails). Numbers are natural numbers: every
value stays far below the field modulus (`ascii_to_int` asserts `n < digit_capacity`, chunks
hold `CAPACITY / 8 = 31` bytes).
-/
namespace MidnightZK.C19.PG
open MidnightZK.C19

/-- `parser_gadget.rs: get_subsequence`: `assert_lower_than_fixed(idx, n - len + 1)`, then the
loop `for i in 0..=(n - len) { b = (idx == i); for j { output[j] = select(b, sequence[i + j],
output[j]) } }` starting from the all-default output. (The Rust code panics on `n - len` when
`len > n`; the caller checks.) -/
def getSubsequence (seq : List Nat) (idx len : Nat) : Option (List Nat) :=
  let n := seq.length
  if idx < n - len + 1 then
    some ((List.range (n - len + 1)).foldl
      (fun out i => if idx = i then (seq.drop i).take len else out) (List.replicate len 0))
  else none

/-- `sequence.chunks(k)`. -/
def chunksOfN (k : Nat) : Nat → List Nat → List (List Nat)
  | 0, _ => []
  | _, [] => []
  | fuel + 1, l => l.take k :: chunksOfN k fuel (l.drop k)

/-- Bytes per chunk: `F::CAPACITY as usize / 8` for the BLS12-381 scalar field (capacity 254). -/
def perChunk : Nat := 31

/-- `parser_gadget.rs: fetch_bytes`: range assertion on `idx`; the sequence packed into
little-endian chunks of 31 bytes plus a dummy chunk; `div_rem(idx, 31)`; coarse
`get_subsequence` over the chunks (`len_for_chunks = min(nb_chunks, 1 + ⌈len/31⌉)`); the selected
chunks unpacked into bytes; fine `get_subsequence` at `idx % 31`. -/
def fetchBytes (seq : List Nat) (idx len : Nat) : Option (List Nat) :=
  let n := seq.length
  if ¬ idx < n - len + 1 then none else
  let nbChunks := (n + perChunk - 1) / perChunk
  let chunks := (chunksOfN perChunk n seq).map fromLe ++ [0]
  let lenForChunks := min nbChunks (1 + (len + perChunk - 1) / perChunk)
  match getSubsequence chunks (idx / perChunk) lenForChunks with
  | none => none
  | some sel => getSubsequence (sel.flatMap (leBytes perChunk)) (idx % perChunk) len

/-- `data_types.rs: ascii_to_digit`: `val = byte − 48` (in the field) and
`assert_lower_than_fixed(val, 10)`: a byte below 48 wraps around to a huge element and is
refused like one above 57. -/
def asciiToDigit (b : Nat) : Option Nat := if 48 ≤ b ∧ b < 58 then some (b - 48) else none

/-- One iteration of the loop of `ascii_to_int`: state = (partial sum, current power of ten). -/
def atoiStep (st : Option (Nat × Nat)) (b : Nat) : Option (Nat × Nat) :=
  match st, asciiToDigit b with
  | some (acc, base), some v => some (acc + base * v, base * 10)
  | _, _ => none

/-- `data_types.rs: ascii_to_int`: `for byte in input.iter().rev() { terms.push((base, digit));
base *= 10 }`, then the linear combination. -/
def asciiToInt (input : List Nat) : Option Nat :=
  (input.reverse.foldl atoiStep (some (0, 1))).map (·.1)

/-- `digit_capacity = (F::CAPACITY as f64 / 10f64.log2()) as usize` for capacity 254. -/
def digitCapacity : Nat := 76

inductive DateFormat where
  | yyyymmdd
  | ddmmyyyy
  deriving DecidableEq, Repr

def slice (l : List Nat) (a b : Nat) : List Nat := (l.drop a).take (b - a)

/-- `data_types.rs: date_to_int`: the separator assertions and the index ranges of day, month,
year; the bytes are re-ordered to `YYYY MM DD` and read as one decimal number. The length of the
input is asserted by the Rust code (panic otherwise): `dateLen`. -/
def dateToInt (fmt : DateFormat) (sep : Option Nat) (input : List Nat) : Option Nat :=
  let sepOk (i j : Nat) (s : Nat) : Bool := input[i]? == some s && input[j]? == some s
  match fmt, sep with
  | .ddmmyyyy, none => asciiToInt (slice input 4 8 ++ slice input 2 4 ++ slice input 0 2)
  | .ddmmyyyy, some s =>
    if sepOk 2 5 s then asciiToInt (slice input 6 10 ++ slice input 3 5 ++ slice input 0 2) else none
  | .yyyymmdd, none => asciiToInt (slice input 0 4 ++ slice input 4 6 ++ slice input 6 8)
  | .yyyymmdd, some s =>
    if sepOk 4 7 s then asciiToInt (slice input 0 4 ++ slice input 5 7 ++ slice input 8 10) else none

def dateLen (sep : Option Nat) : Nat := if sep.isSome then 10 else 8

end MidnightZK.C19.PG
