import MidnightZK.Model.C19.Base64
import MidnightZK.Model.C19.Circuit
/-!
# C19 — the lookup wiring of `Base64Chip` (`base64_chip.rs: configure`, `load`,
`base64_to_val_chunk`, `val_to_ascii_chunk`; `table.rs: two_entry_table`)

What the chip really constrains, chunk by chunk: two rows of the region "Base64 chunk" with the
selector on, each holding two characters (copied in) and one 12-bit value; the lookup
`(q·(a0·256 + a1) + (1 − q)·default, q·a2) ∈ (t_char, t_val)`; then the 3 big-endian bytes of
`v01·2^12 + v23` (`assigned_to_be_bytes`, range-checked bytes).
-/
namespace MidnightZK.C19.B64
open MidnightZK.C19

/-- `table.rs: two_entry_table` over a given `BASE64_TABLE` (`(char, value)` pairs): entry
`i * len + j` is `((char_i << 8) ^ char_j, (val_i << 6) ^ val_j)`. -/
def twoEntryTable (tbl : List (Nat × Nat)) : List (Nat × Nat) :=
  tbl.flatMap fun e0 => tbl.map fun e1 => ((e0.1 <<< 8) ^^^ e1.1, (e0.2 <<< 6) ^^^ e1.2)

/-- `Base64Chip::configure`: the two input expressions of the lookup "Base64 lookup", printed
structurally (`q` selector, `aN@r` advice column N at rotation r, `kN` constant), with the
character shift and the default pair as parameters (regenerated from `table.rs`). -/
def lookupText (charShift dflt : Nat) : String :=
  s!"((q@0*((a0@0*k{1 <<< charShift})+a1@0))+((k1+(-q@0))*k{dflt}))>t0 (q@0*a2@0)>t1"

/-- All constraints on one chunk of 4 (normalised) characters producing the 3 bytes `out`:
two lookups into the table `T` with prover-chosen values, and the byte decomposition of
`v01·2^12 + v23` (numbers below 2^24: no wrap-around in the field). -/
def chunkSat (T : List (Nat × Nat)) (c0 c1 c2 c3 : Nat) (out : List Nat) : Prop :=
  ∃ v01 v23 b0 b1 b2, (c0 * 256 + c1, v01) ∈ T ∧ (c2 * 256 + c3, v23) ∈ T ∧
    b0 < 256 ∧ b1 < 256 ∧ b2 < 256 ∧ v01 * 4096 + v23 = b0 * 65536 + b1 * 256 + b2 ∧
    out = [b0, b1, b2]

/-- All constraints of `decode_base64` (same control flow as `B64.decode`): per chunk
`chunkSat`; on the last chunk of a padded input the assertion `pad_in_3rd → pad_in_4th` of
`process_padded_chunk` and the substitution of `=` by `ALT_PAD`; on the last chunk of an
unpadded input the fill with `ALT_PAD` (`pad`). -/
def decodeSat (T : List (Nat × Nat)) (padded : Bool) : List Nat → List Nat → Prop
  | [], out => out = []
  | [c0], out => padded = false ∧ chunkSat T c0 altPad altPad altPad out
  | [c0, c1], out => padded = false ∧ chunkSat T c0 c1 altPad altPad out
  | [c0, c1, c2], out => padded = false ∧ chunkSat T c0 c1 c2 altPad out
  | [c0, c1, c2, c3], out =>
    if padded then
      ¬ (c2 = b64Pad ∧ c3 ≠ b64Pad) ∧
      chunkSat T c0 c1 (if c2 = b64Pad then altPad else c2) (if c3 = b64Pad then altPad else c3) out
    else chunkSat T c0 c1 c2 c3 out
  | c0 :: c1 :: c2 :: c3 :: c4 :: rest, out =>
    ∃ a b, chunkSat T c0 c1 c2 c3 a ∧ decodeSat T padded (c4 :: rest) b ∧ out = a ++ b

/-- The chunks handed to `base64_to_val_chunk` by `decode_base64`, as cells with their copy
constraints: input characters are copied in; the fill of `pad` is the constant `ALT_PAD`
(`assign_fixed`); the substituted `=` of `process_padded_chunk` is the output of a `select`
(a copied cell). -/
def chunkCells (padded : Bool) : List Nat → List (List PCell)
  | [] => []
  | [c0] => if padded then [] else [[(c0, .copy), (altPad, .fixed altPad), (altPad, .fixed altPad), (altPad, .fixed altPad)]]
  | [c0, c1] => if padded then [] else [[(c0, .copy), (c1, .copy), (altPad, .fixed altPad), (altPad, .fixed altPad)]]
  | [c0, c1, c2] => if padded then [] else [[(c0, .copy), (c1, .copy), (c2, .copy), (altPad, .fixed altPad)]]
  | [c0, c1, c2, c3] =>
    if padded then
      [[(c0, .copy), (c1, .copy), (if c2 = b64Pad then altPad else c2, .copy),
        (if c3 = b64Pad then altPad else c3, .copy)]]
    else [[(c0, .copy), (c1, .copy), (c2, .copy), (c3, .copy)]]
  | c0 :: c1 :: c2 :: c3 :: c4 :: rest =>
    [(c0, .copy), (c1, .copy), (c2, .copy), (c3, .copy)] :: chunkCells padded (c4 :: rest)

/-- The enabled rows of the regions "Base64 chunk" laid out by the honest prover: per chunk two
rows `1:c0:c1:v`; `none` when a character has no table entry (`decode_char` panics). -/
def chunkRows (padded : Bool) (input : List Nat) : Option (List String) :=
  (chunkCells padded input).mapM fun cells =>
    match cells with
    | [a, b, c, d] => do
      let v01 ← pairVal a.1 b.1
      let v23 ← pairVal c.1 d.1
      pure s!"1:{PCell.text a}:{PCell.text b}:{v01}c 1:{PCell.text c}:{PCell.text d}:{v23}c"
    | _ => none

end MidnightZK.C19.B64
