import MidnightZK.Model.C19.Tree
/-!
# C19 — the public combinator language of `regex.rs` (`trait RegexInstructions`)

`RxSpec` has one constructor per public combinator. `RxSpec.toInternal` is the Lean transcription
of what the Rust combinators build (required methods of `impl RegexInstructions for Regex` and
every default method of the trait, in the order of the source file); the harness compares it
with the tree that the real combinators built (hook `Regex::verif_dump`), so that an edit of any
combinator is seen.
-/
namespace MidnightZK.C19

namespace RTree

/-! ### Letter sets -/

def bitsOf (l : List Nat) : Nat := l.foldl (fun acc b => acc ||| (1 <<< b)) 0

def fullMask : Nat := 2 ^ 256 - 1

def rangeBytes (lo hi : Nat) : List Nat := (List.range (hi + 1 - lo)).map (· + lo)

/-- `Regex::map` on a `Single`: every letter `(b, m)` becomes `(b, f b m)`. -/
def mapLSet (f : Nat → Nat → Nat) (S : LSet) : LSet :=
  normLSet (S.flatMap (fun p =>
    (List.range 256).filterMap (fun b => if p.2.testBit b then some (f b p.1, 1 <<< b) else none)))

/-! ### Required methods (`impl RegexInstructions for Regex`) -/

/-- `byte_from`. -/
def byteFrom (l : List Nat) : RTree := .single (normLSet [(0, bitsOf l)])
/-- `cat`. -/
def cat (l : List RTree) : RTree := .concat l
/-- `inter`. -/
def interL (l : List RTree) : RTree := .inter l
/-- `union`. -/
def unionL (l : List RTree) : RTree := .union l
/-- `neg` (the assertion on markers is `RxSpec.negOk`). -/
def neg (a : RTree) : RTree := .compl a
/-- `non_empty_list`. -/
def nonEmptyList (a : RTree) : RTree := .star true a

mutual
  /-- `Regex::map`. -/
  def mapLetters (f : Nat → Nat → Nat) : RTree → RTree
    | .single S => .single (mapLSet f S)
    | .concat l => .concat (mapLettersL f l)
    | .union l => .union (mapLettersL f l)
    | .inter l => .inter (mapLettersL f l)
    | .star s r => .star s (mapLetters f r)
    | .compl r => .compl (mapLetters f r)
  def mapLettersL (f : Nat → Nat → Nat) : List RTree → List RTree
    | [] => []
    | r :: rs => mapLetters f r :: mapLettersL f rs
end

def lookupTbl (tbl : List (Nat × Nat)) (k : Nat) : Option Nat :=
  (tbl.find? (fun p => p.1 == k)).map (·.2)

/-- `mark(f)`: `f(b) = Some m` for the entries `(b, m)` of `tbl`. -/
def mark (tbl : List (Nat × Nat)) (a : RTree) : RTree :=
  mapLetters (fun b m => (lookupTbl tbl b).getD m) a
/-- `mark_bytes(bytes, marker)`. -/
def markBytes (bytes : List Nat) (marker : Nat) (a : RTree) : RTree :=
  mapLetters (fun b m => if bytes.contains b then marker else m) a
/-- `replace_markers(upd)`: `upd(m) = Some m'` for the entries `(m, m')` of `tbl`. -/
def replaceMarkers (tbl : List (Nat × Nat)) (a : RTree) : RTree :=
  mapLetters (fun _ m => (lookupTbl tbl m).getD m) a

/-! ### Default methods of the trait, in source order -/

/-- `byte_not_from`. -/
def byteNotFrom (l : List Nat) : RTree :=
  byteFrom ((List.range 256).filter (fun b => !l.contains b))
/-- `any_byte`. -/
def anyByte : RTree := byteFrom (List.range 256)
/-- `word`. -/
def word (w : List Nat) : RTree := cat (w.map (fun b => byteFrom [b]))
/-- `digit`. -/
def digit : RTree := byteFrom (rangeBytes 48 57)
/-- `lowercase_letter`. -/
def lowercaseLetter : RTree := byteFrom (rangeBytes 97 122)
/-- `uppercase_letter`. -/
def uppercaseLetter : RTree := byteFrom (rangeBytes 65 90)
/-- `letter`. -/
def letter : RTree := byteFrom (rangeBytes 97 122 ++ rangeBytes 65 90)
/-- `alphanumeric`. -/
def alphanumeric : RTree := byteFrom (rangeBytes 97 122 ++ rangeBytes 65 90 ++ rangeBytes 48 57)
/-- `one_blank` (`b" \t\n"`). -/
def oneBlank : RTree := byteFrom [32, 9, 10]
/-- `epsilon`. -/
def epsilon : RTree := cat []
/-- `or`. -/
def or (a b : RTree) : RTree := unionL [a, b]
/-- `and`. -/
def and (a b : RTree) : RTree := interL [a, b]
/-- `terminated`. -/
def terminated (a b : RTree) : RTree := cat [a, b]
/-- `list`. -/
def list (a : RTree) : RTree := or (nonEmptyList a) epsilon
/-- `blanks_strict`. -/
def blanksStrict : RTree := nonEmptyList oneBlank
/-- `blanks`. -/
def blanks : RTree := list oneBlank
/-- `separated_cat`: `reduce(|acc, r| cat([acc, sep, r]))`, `epsilon` when empty. -/
def separatedCat (l : List RTree) (sep : RTree) : RTree :=
  match l with
  | [] => epsilon
  | x :: xs => xs.foldl (fun acc r => cat [acc, sep, r]) x
/-- `spaced_cat`. -/
def spacedCat (l : List RTree) : RTree := separatedCat l blanks
/-- `spaced_non_empty_list`. -/
def spacedNonEmptyList (a : RTree) : RTree := terminated a (list (terminated blanks a))
/-- `spaced_list`. -/
def spacedList (a : RTree) : RTree := or epsilon (spacedNonEmptyList a)
/-- `spaced_terminated`. -/
def spacedTerminated (a b : RTree) : RTree := cat [a, blanks, b]
/-- `any`. -/
def any : RTree := interL []
/-- `minus`. -/
def minus (a b : RTree) : RTree := and a (neg b)
/-- `optional`. -/
def optional (a : RTree) : RTree := or a epsilon
/-- `delimited`. -/
def delimited (a o c : RTree) : RTree := cat [o, a, c]
/-- `spaced_delimited`. -/
def spacedDelimited (a o c : RTree) : RTree := cat [o, blanks, a, blanks, c]
/-- `separated_non_empty_list`. -/
def separatedNonEmptyList (a sep : RTree) : RTree := terminated a (list (terminated sep a))
/-- `spaced_separated_non_empty_list`. -/
def spacedSeparatedNonEmptyList (a sep : RTree) : RTree :=
  terminated a (list (cat [blanks, sep, blanks, a]))
/-- `separated_list`. -/
def separatedList (a sep : RTree) : RTree := or epsilon (separatedNonEmptyList a sep)
/-- `spaced_separated_list`. -/
def spacedSeparatedList (a sep : RTree) : RTree := or epsilon (spacedSeparatedNonEmptyList a sep)
/-- `spaced_separated_cat`. -/
def spacedSeparatedCat (l : List RTree) (sep : RTree) : RTree :=
  match l with
  | [] => epsilon
  | x :: xs => xs.foldl (fun acc r => cat [acc, blanks, sep, blanks, r]) x
/-- `repeat`. -/
def repeatN (a : RTree) (n : Nat) : RTree := cat (List.replicate n a)
/-- `spaced_repeat`. -/
def spacedRepeat (a : RTree) (n : Nat) : RTree := spacedCat (List.replicate n a)
/-- `repeat_at_most`: `union((0..=n).map(|i| self.repeat(i)))`. -/
def repeatAtMost (a : RTree) (n : Nat) : RTree := unionL ((List.range (n + 1)).map (repeatN a))
/-- `spaced_repeat_at_most`. -/
def spacedRepeatAtMost (a : RTree) (n : Nat) : RTree :=
  unionL ((List.range (n + 1)).map (spacedRepeat a))
/-- `separated_repeat`. -/
def separatedRepeat (a : RTree) (n : Nat) (sep : RTree) : RTree :=
  separatedCat (List.replicate n a) sep
/-- `spaced_separated_repeat`. -/
def spacedSeparatedRepeat (a : RTree) (n : Nat) (sep : RTree) : RTree :=
  spacedSeparatedCat (List.replicate n a) sep
/-- `separated_repeat_at_most`. -/
def separatedRepeatAtMost (a : RTree) (n : Nat) (sep : RTree) : RTree :=
  unionL ((List.range (n + 1)).map (fun i => separatedRepeat a i sep))
/-- `spaced_separated_repeat_at_most`. -/
def spacedSeparatedRepeatAtMost (a : RTree) (n : Nat) (sep : RTree) : RTree :=
  unionL ((List.range (n + 1)).map (fun i => spacedSeparatedRepeat a i sep))
/-- `utf8_cps`. -/
def utf8Cps : RTree :=
  let cont := byteFrom (rangeBytes 0x80 0xBF)
  unionL [
    byteFrom (rangeBytes 0x00 0x7F),
    cat [byteFrom (rangeBytes 0xC2 0xDF), cont],
    cat [byteFrom [0xE0], byteFrom (rangeBytes 0xA0 0xBF), cont],
    terminated (byteFrom (rangeBytes 0xE1 0xEC ++ rangeBytes 0xEE 0xEF)) (repeatN cont 2),
    cat [byteFrom [0xED], byteFrom (rangeBytes 0x80 0x9F), cont],
    cat [byteFrom [0xF0], byteFrom (rangeBytes 0x90 0xBF), repeatN cont 2],
    terminated (byteFrom (rangeBytes 0xF1 0xF3)) (repeatN cont 3),
    cat [byteFrom [0xF4], byteFrom (rangeBytes 0x80 0x8F), repeatN cont 2]]
/-- `utf8`. -/
def utf8 : RTree := list utf8Cps
/-- `json_string`. -/
def jsonString : RTree :=
  let unescaped := and utf8Cps (byteNotFrom (rangeBytes 0x00 0x1F ++ [0x22, 0x5C]))
  let simpleEscape := terminated (word [0x5C]) (byteFrom [0x22, 0x5C, 0x2F, 0x62, 0x66, 0x6E, 0x72, 0x74])
  let hex := byteFrom (rangeBytes 48 57 ++ rangeBytes 97 102 ++ rangeBytes 65 70)
  let unicodeEscape := terminated (word [0x5C, 0x75]) (repeatN hex 4)
  let content := list (unionL [unescaped, simpleEscape, unicodeEscape])
  delimited (mark ((List.range 256).map (fun b => (b, 1))) content) (word [0x22]) (word [0x22])

end RTree

/-- One constructor per public combinator of `RegexInstructions`. -/
inductive RxSpec where
  | byteFrom (l : List Nat) | byteNotFrom (l : List Nat) | anyByte | word (w : List Nat)
  | digit | lower | upper | letter | alnum | oneBlank | blanksStrict | blanks | any | epsilon
  | utf8Cps | utf8 | jsonString
  | neg (a : RxSpec)
  | union (l : List RxSpec) | inter (l : List RxSpec) | cat (l : List RxSpec)
  | spacedCat (l : List RxSpec)
  | list (a : RxSpec) | spacedList (a : RxSpec) | nonEmptyList (a : RxSpec)
  | spacedNonEmptyList (a : RxSpec)
  | terminated (a b : RxSpec) | spacedTerminated (a b : RxSpec)
  | or (a b : RxSpec) | and (a b : RxSpec) | minus (a b : RxSpec) | optional (a : RxSpec)
  | delimited (a o c : RxSpec) | spacedDelimited (a o c : RxSpec)
  | sepNonEmptyList (a s : RxSpec) | spacedSepNonEmptyList (a s : RxSpec)
  | sepList (a s : RxSpec) | spacedSepList (a s : RxSpec)
  | sepCat (l : List RxSpec) (s : RxSpec) | spacedSepCat (l : List RxSpec) (s : RxSpec)
  | repeatN (n : Nat) (a : RxSpec) | spacedRepeat (n : Nat) (a : RxSpec)
  | repeatAtMost (n : Nat) (a : RxSpec) | spacedRepeatAtMost (n : Nat) (a : RxSpec)
  | sepRepeat (n : Nat) (a s : RxSpec) | spacedSepRepeat (n : Nat) (a s : RxSpec)
  | sepRepeatAtMost (n : Nat) (a s : RxSpec) | spacedSepRepeatAtMost (n : Nat) (a s : RxSpec)
  | mark (tbl : List (Nat × Nat)) (a : RxSpec)
  | markBytes (bytes : List Nat) (m : Nat) (a : RxSpec)
  | replaceMarkers (tbl : List (Nat × Nat)) (a : RxSpec)
  deriving Inhabited

namespace RxSpec
open RTree in
mutual
  /-- What the real combinators build. -/
  def toInternal : RxSpec → RTree
    | .byteFrom l => RTree.byteFrom l
    | .byteNotFrom l => RTree.byteNotFrom l
    | .anyByte => RTree.anyByte
    | .word w => RTree.word w
    | .digit => RTree.digit
    | .lower => RTree.lowercaseLetter
    | .upper => RTree.uppercaseLetter
    | .letter => RTree.letter
    | .alnum => RTree.alphanumeric
    | .oneBlank => RTree.oneBlank
    | .blanksStrict => RTree.blanksStrict
    | .blanks => RTree.blanks
    | .any => RTree.any
    | .epsilon => RTree.epsilon
    | .utf8Cps => RTree.utf8Cps
    | .utf8 => RTree.utf8
    | .jsonString => RTree.jsonString
    | .neg a => RTree.neg (toInternal a)
    | .union l => RTree.unionL (toInternalL l)
    | .inter l => RTree.interL (toInternalL l)
    | .cat l => RTree.cat (toInternalL l)
    | .spacedCat l => RTree.spacedCat (toInternalL l)
    | .list a => RTree.list (toInternal a)
    | .spacedList a => RTree.spacedList (toInternal a)
    | .nonEmptyList a => RTree.nonEmptyList (toInternal a)
    | .spacedNonEmptyList a => RTree.spacedNonEmptyList (toInternal a)
    | .terminated a b => RTree.terminated (toInternal a) (toInternal b)
    | .spacedTerminated a b => RTree.spacedTerminated (toInternal a) (toInternal b)
    | .or a b => RTree.or (toInternal a) (toInternal b)
    | .and a b => RTree.and (toInternal a) (toInternal b)
    | .minus a b => RTree.minus (toInternal a) (toInternal b)
    | .optional a => RTree.optional (toInternal a)
    | .delimited a o c => RTree.delimited (toInternal a) (toInternal o) (toInternal c)
    | .spacedDelimited a o c => RTree.spacedDelimited (toInternal a) (toInternal o) (toInternal c)
    | .sepNonEmptyList a s => RTree.separatedNonEmptyList (toInternal a) (toInternal s)
    | .spacedSepNonEmptyList a s => RTree.spacedSeparatedNonEmptyList (toInternal a) (toInternal s)
    | .sepList a s => RTree.separatedList (toInternal a) (toInternal s)
    | .spacedSepList a s => RTree.spacedSeparatedList (toInternal a) (toInternal s)
    | .sepCat l s => RTree.separatedCat (toInternalL l) (toInternal s)
    | .spacedSepCat l s => RTree.spacedSeparatedCat (toInternalL l) (toInternal s)
    | .repeatN n a => RTree.repeatN (toInternal a) n
    | .spacedRepeat n a => RTree.spacedRepeat (toInternal a) n
    | .repeatAtMost n a => RTree.repeatAtMost (toInternal a) n
    | .spacedRepeatAtMost n a => RTree.spacedRepeatAtMost (toInternal a) n
    | .sepRepeat n a s => RTree.separatedRepeat (toInternal a) n (toInternal s)
    | .spacedSepRepeat n a s => RTree.spacedSeparatedRepeat (toInternal a) n (toInternal s)
    | .sepRepeatAtMost n a s => RTree.separatedRepeatAtMost (toInternal a) n (toInternal s)
    | .spacedSepRepeatAtMost n a s =>
      RTree.spacedSeparatedRepeatAtMost (toInternal a) n (toInternal s)
    | .mark tbl a => RTree.mark tbl (toInternal a)
    | .markBytes bytes m a => RTree.markBytes bytes m (toInternal a)
    | .replaceMarkers tbl a => RTree.replaceMarkers tbl (toInternal a)
  def toInternalL : List RxSpec → List RTree
    | [] => []
    | a :: l => toInternal a :: toInternalL l
end

mutual
  /-- `neg` asserts that its argument contains no marker: does every `neg`/`minus` of the
  specification pass that assertion? -/
  def negOk : RxSpec → Bool
    | .neg a => negOk a && !(toInternal a).containsMarkers
    | .minus a b => negOk a && negOk b && !(toInternal b).containsMarkers
    | .union l => negOkL l
    | .inter l => negOkL l
    | .cat l => negOkL l
    | .spacedCat l => negOkL l
    | .list a => negOk a
    | .spacedList a => negOk a
    | .nonEmptyList a => negOk a
    | .spacedNonEmptyList a => negOk a
    | .terminated a b => negOk a && negOk b
    | .spacedTerminated a b => negOk a && negOk b
    | .or a b => negOk a && negOk b
    | .and a b => negOk a && negOk b
    | .optional a => negOk a
    | .delimited a o c => negOk a && negOk o && negOk c
    | .spacedDelimited a o c => negOk a && negOk o && negOk c
    | .sepNonEmptyList a s => negOk a && negOk s
    | .spacedSepNonEmptyList a s => negOk a && negOk s
    | .sepList a s => negOk a && negOk s
    | .spacedSepList a s => negOk a && negOk s
    | .sepCat l s => negOkL l && negOk s
    | .spacedSepCat l s => negOkL l && negOk s
    | .repeatN _ a => negOk a
    | .spacedRepeat _ a => negOk a
    | .repeatAtMost _ a => negOk a
    | .spacedRepeatAtMost _ a => negOk a
    | .sepRepeat _ a s => negOk a && negOk s
    | .spacedSepRepeat _ a s => negOk a && negOk s
    | .sepRepeatAtMost _ a s => negOk a && negOk s
    | .spacedSepRepeatAtMost _ a s => negOk a && negOk s
    | .mark _ a => negOk a
    | .markBytes _ _ a => negOk a
    | .replaceMarkers _ a => negOk a
    | _ => true
  def negOkL : List RxSpec → Bool
    | [] => true
    | a :: l => negOk a && negOkL l
end

end RxSpec

namespace RTree

def hexDigitC (n : Nat) : Char :=
  if n < 10 then Char.ofNat (48 + n) else Char.ofNat (87 + n)

def hexOfNat : Nat → Nat → List Char → List Char
  | 0, _, acc => acc
  | fuel + 1, n, acc =>
    if n < 16 then hexDigitC n :: acc else hexOfNat fuel (n / 16) (hexDigitC (n % 16) :: acc)

def hexStr (n : Nat) : String := String.ofList (hexOfNat 70 n [])

mutual
  /-- The text form of the harness (`tree_text`): `Single` sets in normal form. -/
  def toText : RTree → List String
    | .single S =>
      let S := normLSet S
      "S" :: toString S.length :: S.flatMap (fun p => [toString p.1, hexStr p.2])
    | .concat l => "C" :: toString l.length :: toTextL l
    | .union l => "U" :: toString l.length :: toTextL l
    | .inter l => "I" :: toString l.length :: toTextL l
    | .star true r => "P" :: toText r
    | .star false r => "T" :: toText r
    | .compl r => "N" :: toText r
  def toTextL : List RTree → List String
    | [] => []
    | r :: rs => toText r ++ toTextL rs
end

end RTree

end MidnightZK.C19
