import MidnightZK.Model.Common
import MidnightZK.Model.C19.Rx
import MidnightZK.Model.C19.Tree
import MidnightZK.Model.C19.Dfa
/-! Parsers and printers of the C19 line protocol (trees, automata, words, verdicts). -/
namespace MidnightZK.C19.Driver
open MidnightZK MidnightZK.C19

/-- Parse `k` items with `p`. -/
def parseMany {α : Type} (p : List String → Option (α × List String)) :
    Nat → List String → Option (List α × List String)
  | 0, ts => some ([], ts)
  | k + 1, ts => do
    let (x, ts) ← p ts
    let (xs, ts) ← parseMany p k ts
    pure (x :: xs, ts)

def parseLSetItem : List String → Option ((Nat × Nat) × List String)
  | m :: mask :: ts => do
    let m ← m.toNat?
    let mask ← parseHex? mask
    pure ((m, mask), ts)
  | _ => none

/-- Prefix syntax of the dumped internal tree:
`S k (marker hexmask)*k | C n t*n | U n t*n | I n t*n | P t | T t | N t`. -/
partial def parseTree : List String → Option (RTree × List String)
  | "S" :: k :: ts => do
    let k ← k.toNat?
    let (items, ts) ← parseMany parseLSetItem k ts
    pure (.single items, ts)
  | "C" :: n :: ts => do
    let (l, ts) ← parseMany parseTree (← n.toNat?) ts
    pure (.concat l, ts)
  | "U" :: n :: ts => do
    let (l, ts) ← parseMany parseTree (← n.toNat?) ts
    pure (.union l, ts)
  | "I" :: n :: ts => do
    let (l, ts) ← parseMany parseTree (← n.toNat?) ts
    pure (.inter l, ts)
  | "P" :: ts => do
    let (r, ts) ← parseTree ts
    pure (.star true r, ts)
  | "T" :: ts => do
    let (r, ts) ← parseTree ts
    pure (.star false r, ts)
  | "N" :: ts => do
    let (r, ts) ← parseTree ts
    pure (.compl r, ts)
  | _ => none

def parseNats : Nat → List String → Option (List Nat × List String) :=
  parseMany (fun ts => match ts with
    | t :: ts => t.toNat?.map (fun n => (n, ts))
    | [] => none)

def parseRow : List String → Option ((Nat × Nat × Nat × Nat) × List String)
  | s :: t :: m :: mask :: ts => do
    pure ((← s.toNat?, ← t.toNat?, ← m.toNat?, ← parseHex? mask), ts)
  | _ => none

/-- Syntax of a dumped automaton:
`A nb_states initial F k f*k R k (source target marker hexmask-of-bytes)*k`. -/
def parseDfa : List String → Option (Dfa × List String)
  | "A" :: n :: init :: "F" :: k :: ts => do
    let n ← n.toNat?
    let init ← init.toNat?
    let (fs, ts) ← parseNats (← k.toNat?) ts
    match ts with
    | "R" :: k :: ts =>
      let (rows, ts) ← parseMany parseRow (← k.toNat?) ts
      if n > 100000 then none else
      let finals := fs.foldl (fun (a : Array Bool) f => a.setIfInBounds f true) (Array.replicate n false)
      if fs.any (· ≥ n) then none else
      let tbl := rows.foldl (fun (a : Array (Option (Nat × Nat))) (s, t, m, mask) =>
        (List.range 256).foldl (fun a b =>
          if mask.testBit b then a.setIfInBounds (s * 256 + b) (some (t, m)) else a) a)
        (Array.replicate (n * 256) none)
      if rows.any (fun (s, t, _, mask) => s ≥ n || t ≥ n || mask ≥ 2 ^ 256) then none else
      pure ({ nStates := n, init := init, finals := finals, tbl := tbl }, ts)
    | _ => none
  | _ => none

def parseWord (s : String) : Option (List Letter) :=
  if s = "-" then some [] else
  (s.splitOn ",").mapM (fun t => match t.splitOn ":" with
    | [b, m] => do pure (← b.toNat?, ← m.toNat?)
    | _ => none)

def fmtWord (w : List Letter) : String :=
  if w.isEmpty then "-" else ",".intercalate (w.map (fun a => s!"{a.1}:{a.2}"))

def fmtVerdict : Verdict → String
  | .equiv _ _ => "equiv"
  | .diff w => s!"diff {fmtWord w}"
  | .unknown why => s!"unknown {why}"

end MidnightZK.C19.Driver
