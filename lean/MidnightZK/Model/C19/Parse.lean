import MidnightZK.Model.Common
import MidnightZK.Model.C19.Rx
import MidnightZK.Model.C19.Tree
import MidnightZK.Model.C19.Dfa
import MidnightZK.Model.C19.Spec
import MidnightZK.Model.C19.Serial
/-! Parsers and printers of the C19 line protocol (trees, automata, words, verdicts). -/
namespace MidnightZK.C19.Driver
open MidnightZK MidnightZK.C19

/-- Parse `k` items with `p`. -/
def parseMany {α : Type} (p : List String → Option (α × List String)) :
    Nat → List String → Option (List α × List String)
  | 0, ts => some ([], ts)
  | k + 1, ts => do
    let (x, ts) ← p ts
    let (xs, ts) ← parseMany p k ts
    pure (x :: xs, ts)

def parseLSetItem : List String → Option ((Nat × Nat) × List String)
  | m :: mask :: ts => do
    let m ← m.toNat?
    let mask ← parseHex? mask
    pure ((m, mask), ts)
  | _ => none

/-- Prefix syntax of the dumped internal tree:
`S k (marker hexmask)*k | C n t*n | U n t*n | I n t*n | P t | T t | N t`. -/
partial def parseTree : List String → Option (RTree × List String)
  | "S" :: k :: ts => do
    let k ← k.toNat?
    let (items, ts) ← parseMany parseLSetItem k ts
    pure (.single items, ts)
  | "C" :: n :: ts => do
    let (l, ts) ← parseMany parseTree (← n.toNat?) ts
    pure (.concat l, ts)
  | "U" :: n :: ts => do
    let (l, ts) ← parseMany parseTree (← n.toNat?) ts
    pure (.union l, ts)
  | "I" :: n :: ts => do
    let (l, ts) ← parseMany parseTree (← n.toNat?) ts
    pure (.inter l, ts)
  | "P" :: ts => do
    let (r, ts) ← parseTree ts
    pure (.star true r, ts)
  | "T" :: ts => do
    let (r, ts) ← parseTree ts
    pure (.star false r, ts)
  | "N" :: ts => do
    let (r, ts) ← parseTree ts
    pure (.compl r, ts)
  | _ => none

def parseNats : Nat → List String → Option (List Nat × List String) :=
  parseMany (fun ts => match ts with
    | t :: ts => t.toNat?.map (fun n => (n, ts))
    | [] => none)

def parseRow : List String → Option ((Nat × Nat × Nat × Nat) × List String)
  | s :: t :: m :: mask :: ts => do
    pure ((← s.toNat?, ← t.toNat?, ← m.toNat?, ← parseHex? mask), ts)
  | _ => none

/-- Syntax of a dumped automaton:
`A nb_states initial F k f*k R k (source target marker hexmask-of-bytes)*k`. -/
def parseDfa : List String → Option (Dfa × List String)
  | "A" :: n :: init :: "F" :: k :: ts => do
    let n ← n.toNat?
    let init ← init.toNat?
    let (fs, ts) ← parseNats (← k.toNat?) ts
    match ts with
    | "R" :: k :: ts =>
      let (rows, ts) ← parseMany parseRow (← k.toNat?) ts
      if n > 100000 then none else
      let finals := fs.foldl (fun (a : Array Bool) f => a.setIfInBounds f true) (Array.replicate n false)
      if fs.any (· ≥ n) then none else
      let tbl := rows.foldl (fun (a : Array (Option (Nat × Nat))) (s, t, m, mask) =>
        (List.range 256).foldl (fun a b =>
          if mask.testBit b then a.setIfInBounds (s * 256 + b) (some (t, m)) else a) a)
        (Array.replicate (n * 256) none)
      if rows.any (fun (s, t, _, mask) => s ≥ n || t ≥ n || mask ≥ 2 ^ 256) then none else
      pure ({ nStates := n, init := init, finals := finals, tbl := tbl }, ts)
    | _ => none
  | _ => none

def parseWord (s : String) : Option (List Letter) :=
  if s = "-" then some [] else
  (s.splitOn ",").mapM (fun t => match t.splitOn ":" with
    | [b, m] => do pure (← b.toNat?, ← m.toNat?)
    | _ => none)

def fmtWord (w : List Letter) : String :=
  if w.isEmpty then "-" else ",".intercalate (w.map (fun a => s!"{a.1}:{a.2}"))

def fmtVerdict : Verdict → String
  | .equiv _ _ => "equiv"
  | .diff w => s!"diff {fmtWord w}"
  | .unknown why => s!"unknown {why}"

/-- `-` or an even-length lowercase hex string: the bytes. -/
def parseHexBytes (s : String) : Option (List Nat) :=
  if s = "-" then some [] else
  let cs := s.toList
  let rec go : List Char → Option (List Nat)
    | [] => some []
    | a :: b :: rest => do
      let v ← parseHex? (String.ofList [a, b])
      let vs ← go rest
      pure (v :: vs)
    | _ => none
  go cs

def parsePair (t : String) : Option (Nat × Nat) :=
  match t.splitOn ":" with
  | [a, b] => do pure (← a.toNat?, ← b.toNat?)
  | _ => none

def parsePairs : Nat → List String → Option (List (Nat × Nat) × List String) :=
  parseMany (fun ts => match ts with
    | t :: ts => (parsePair t).map (fun p => (p, ts))
    | [] => none)

/-- Prefix syntax of a specification (harness `spec_text`). -/
partial def parseSpec : List String → Option (RxSpec × List String)
  | "byte_from" :: h :: ts => do pure (.byteFrom (← parseHexBytes h), ts)
  | "byte_not_from" :: h :: ts => do pure (.byteNotFrom (← parseHexBytes h), ts)
  | "any_byte" :: ts => some (.anyByte, ts)
  | "word" :: h :: ts => do pure (.word (← parseHexBytes h), ts)
  | "digit" :: ts => some (.digit, ts)
  | "lowercase_letter" :: ts => some (.lower, ts)
  | "uppercase_letter" :: ts => some (.upper, ts)
  | "letter" :: ts => some (.letter, ts)
  | "alphanumeric" :: ts => some (.alnum, ts)
  | "one_blank" :: ts => some (.oneBlank, ts)
  | "blanks_strict" :: ts => some (.blanksStrict, ts)
  | "blanks" :: ts => some (.blanks, ts)
  | "any" :: ts => some (.any, ts)
  | "epsilon" :: ts => some (.epsilon, ts)
  | "utf8_cps" :: ts => some (.utf8Cps, ts)
  | "utf8" :: ts => some (.utf8, ts)
  | "json_string" :: ts => some (.jsonString, ts)
  | "neg" :: ts => do let (a, ts) ← parseSpec ts; pure (.neg a, ts)
  | "union" :: n :: ts => do let (l, ts) ← parseMany parseSpec (← n.toNat?) ts; pure (.union l, ts)
  | "inter" :: n :: ts => do let (l, ts) ← parseMany parseSpec (← n.toNat?) ts; pure (.inter l, ts)
  | "cat" :: n :: ts => do let (l, ts) ← parseMany parseSpec (← n.toNat?) ts; pure (.cat l, ts)
  | "spaced_cat" :: n :: ts => do
    let (l, ts) ← parseMany parseSpec (← n.toNat?) ts; pure (.spacedCat l, ts)
  | "list" :: ts => do let (a, ts) ← parseSpec ts; pure (.list a, ts)
  | "spaced_list" :: ts => do let (a, ts) ← parseSpec ts; pure (.spacedList a, ts)
  | "non_empty_list" :: ts => do let (a, ts) ← parseSpec ts; pure (.nonEmptyList a, ts)
  | "spaced_non_empty_list" :: ts => do
    let (a, ts) ← parseSpec ts; pure (.spacedNonEmptyList a, ts)
  | "terminated" :: ts => do
    let (a, ts) ← parseSpec ts; let (b, ts) ← parseSpec ts; pure (.terminated a b, ts)
  | "spaced_terminated" :: ts => do
    let (a, ts) ← parseSpec ts; let (b, ts) ← parseSpec ts; pure (.spacedTerminated a b, ts)
  | "or" :: ts => do let (a, ts) ← parseSpec ts; let (b, ts) ← parseSpec ts; pure (.or a b, ts)
  | "and" :: ts => do let (a, ts) ← parseSpec ts; let (b, ts) ← parseSpec ts; pure (.and a b, ts)
  | "minus" :: ts => do
    let (a, ts) ← parseSpec ts; let (b, ts) ← parseSpec ts; pure (.minus a b, ts)
  | "optional" :: ts => do let (a, ts) ← parseSpec ts; pure (.optional a, ts)
  | "delimited" :: ts => do
    let (a, ts) ← parseSpec ts; let (o, ts) ← parseSpec ts; let (c, ts) ← parseSpec ts
    pure (.delimited a o c, ts)
  | "spaced_delimited" :: ts => do
    let (a, ts) ← parseSpec ts; let (o, ts) ← parseSpec ts; let (c, ts) ← parseSpec ts
    pure (.spacedDelimited a o c, ts)
  | "separated_non_empty_list" :: ts => do
    let (a, ts) ← parseSpec ts; let (b, ts) ← parseSpec ts; pure (.sepNonEmptyList a b, ts)
  | "spaced_separated_non_empty_list" :: ts => do
    let (a, ts) ← parseSpec ts; let (b, ts) ← parseSpec ts; pure (.spacedSepNonEmptyList a b, ts)
  | "separated_list" :: ts => do
    let (a, ts) ← parseSpec ts; let (b, ts) ← parseSpec ts; pure (.sepList a b, ts)
  | "spaced_separated_list" :: ts => do
    let (a, ts) ← parseSpec ts; let (b, ts) ← parseSpec ts; pure (.spacedSepList a b, ts)
  | "separated_cat" :: n :: ts => do
    let (l, ts) ← parseMany parseSpec (← n.toNat?) ts
    let (s, ts) ← parseSpec ts
    pure (.sepCat l s, ts)
  | "spaced_separated_cat" :: n :: ts => do
    let (l, ts) ← parseMany parseSpec (← n.toNat?) ts
    let (s, ts) ← parseSpec ts
    pure (.spacedSepCat l s, ts)
  | "repeat" :: n :: ts => do let (a, ts) ← parseSpec ts; pure (.repeatN (← n.toNat?) a, ts)
  | "spaced_repeat" :: n :: ts => do
    let (a, ts) ← parseSpec ts; pure (.spacedRepeat (← n.toNat?) a, ts)
  | "repeat_at_most" :: n :: ts => do
    let (a, ts) ← parseSpec ts; pure (.repeatAtMost (← n.toNat?) a, ts)
  | "spaced_repeat_at_most" :: n :: ts => do
    let (a, ts) ← parseSpec ts; pure (.spacedRepeatAtMost (← n.toNat?) a, ts)
  | "separated_repeat" :: n :: ts => do
    let (a, ts) ← parseSpec ts; let (s, ts) ← parseSpec ts; pure (.sepRepeat (← n.toNat?) a s, ts)
  | "spaced_separated_repeat" :: n :: ts => do
    let (a, ts) ← parseSpec ts; let (s, ts) ← parseSpec ts
    pure (.spacedSepRepeat (← n.toNat?) a s, ts)
  | "separated_repeat_at_most" :: n :: ts => do
    let (a, ts) ← parseSpec ts; let (s, ts) ← parseSpec ts
    pure (.sepRepeatAtMost (← n.toNat?) a s, ts)
  | "spaced_separated_repeat_at_most" :: n :: ts => do
    let (a, ts) ← parseSpec ts; let (s, ts) ← parseSpec ts
    pure (.spacedSepRepeatAtMost (← n.toNat?) a s, ts)
  | "mark" :: k :: ts => do
    let (tbl, ts) ← parsePairs (← k.toNat?) ts
    let (a, ts) ← parseSpec ts
    pure (.mark tbl a, ts)
  | "mark_bytes" :: h :: m :: ts => do
    let (a, ts) ← parseSpec ts
    pure (.markBytes (← parseHexBytes h) (← m.toNat?) a, ts)
  | "replace_markers" :: k :: ts => do
    let (tbl, ts) ← parsePairs (← k.toNat?) ts
    let (a, ts) ← parseSpec ts
    pure (.replaceMarkers tbl a, ts)
  | _ => none

/-- Text form of an automaton (harness `dfa_text`): rows grouped by (source, target, marker). -/
def dfaText (A : Dfa) : String :=
  let finals := (List.range A.nStates).filter (fun s => A.isFinal s)
  let rows : List (Nat × Nat × Nat × Nat) := (List.range A.nStates).flatMap (fun s =>
    let es := (List.range 256).filterMap (fun b => (A.lookup s b).map (fun tm => (tm.1, tm.2, b)))
    let keys := (es.map (fun e => (e.1, e.2.1))).foldl
      (fun acc k => if acc.contains k then acc else acc ++ [k]) []
    let keys := keys.mergeSort (fun a b => a.1 < b.1 || (a.1 == b.1 && a.2 ≤ b.2))
    keys.map (fun k => (s, k.1, k.2,
      (es.filter (fun e => e.1 == k.1 && e.2.1 == k.2)).foldl (fun acc e => acc ||| (1 <<< e.2.2)) 0)))
  " ".intercalate (["A", toString A.nStates, toString A.init, "F", toString finals.length]
    ++ finals.map toString ++ ["R", toString rows.length]
    ++ rows.flatMap (fun r => [toString r.1, toString r.2.1, toString r.2.2.1, RTree.hexStr r.2.2.2]))

def hexOfBytes (l : List Nat) : String :=
  if l.isEmpty then "-" else
  String.ofList (l.flatMap (fun b => [RTree.hexDigitC (b / 16), RTree.hexDigitC (b % 16)]))

end MidnightZK.C19.Driver
