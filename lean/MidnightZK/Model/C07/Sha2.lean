/-!
# C07 — reference SHA-2 (FIPS 180-4) and RIPEMD-160 on byte lists, over `Nat`

Words are naturals `< 2^w` (`w = 32` for SHA-256 / RIPEMD-160, `w = 64` for SHA-512); bytes are
naturals `< 256`. Bitwise operations are the core `Nat` ones (`&&&`, `^^^`, `/ 2^n`, `% 2^n`), all
evaluated natively by the kernel. The constant tables are parameters (instantiated with the tables
the translator parses from the Rust sources). Import-free.

Also: the padding function of `sha256_chip.rs: fn pad` / `sha512_chip.rs: fn pad` as written in the
code (`padRust`), next to the FIPS formulation (`pad`).
-/
namespace MidnightZK.C07

/-- Rotate right the `w`-bit word `x` by `n` (`0 < n < w`). -/
def rotr (w x n : Nat) : Nat := x / 2 ^ n + (x % 2 ^ n) * 2 ^ (w - n)
/-- Rotate left. -/
def rotl (w x n : Nat) : Nat := rotr w x (w - n)
/-- Shift right. -/
def shr (x n : Nat) : Nat := x / 2 ^ n
/-- Bitwise complement of a `w`-bit word. -/
def notW (w x : Nat) : Nat := 2 ^ w - 1 - x

def ch (w e f g : Nat) : Nat := (e &&& f) ^^^ (notW w e &&& g)
def maj (a b c : Nat) : Nat := (a &&& b) ^^^ (a &&& c) ^^^ (b &&& c)

/-- Big-endian bytes of `v` on `n` bytes. -/
def beBytes : Nat → Nat → List Nat
  | 0, _ => []
  | n + 1, v => beBytes n (v / 256) ++ [v % 256]

/-- Little-endian bytes of `v` on `n` bytes. -/
def leBytes : Nat → Nat → List Nat
  | 0, _ => []
  | n + 1, v => (v % 256) :: leBytes n (v / 256)

/-- Big-endian value of a byte list. -/
def beValue (l : List Nat) : Nat := l.foldl (fun a b => a * 256 + b) 0
/-- Little-endian value of a byte list. -/
def leValue : List Nat → Nat
  | [] => 0
  | b :: t => b + 256 * leValue t

/-- Split into chunks of `n` (the last one may be shorter). Fuel-recursive. -/
def chunksFuel (n : Nat) : Nat → List Nat → List (List Nat)
  | 0, _ => []
  | f + 1, l => if l.isEmpty then [] else l.take n :: chunksFuel n f (l.drop n)
def chunks (n : Nat) (l : List Nat) : List (List Nat) := chunksFuel n (l.length + 1) l

/-- The parameters of a SHA-2 function. -/
structure Sha2 where
  w : Nat
  rounds : Nat
  k : List Nat
  iv : List Nat
  /-- rotation amounts of Σ₀, Σ₁ (three rotations) and σ₀, σ₁ (two rotations and a shift). -/
  bS0 : Nat × Nat × Nat
  bS1 : Nat × Nat × Nat
  sS0 : Nat × Nat × Nat
  sS1 : Nat × Nat × Nat
  /-- number of digest words kept. -/
  outWords : Nat

namespace Sha2
variable (P : Sha2)

def wordBytes : Nat := P.w / 8
def blockBytes : Nat := 16 * P.wordBytes
def lenBytes : Nat := 2 * P.wordBytes
def modW (x : Nat) : Nat := x % 2 ^ P.w

def bigSigma0 (x : Nat) : Nat := rotr P.w x P.bS0.1 ^^^ rotr P.w x P.bS0.2.1 ^^^ rotr P.w x P.bS0.2.2
def bigSigma1 (x : Nat) : Nat := rotr P.w x P.bS1.1 ^^^ rotr P.w x P.bS1.2.1 ^^^ rotr P.w x P.bS1.2.2
def smallSigma0 (x : Nat) : Nat := rotr P.w x P.sS0.1 ^^^ rotr P.w x P.sS0.2.1 ^^^ shr x P.sS0.2.2
def smallSigma1 (x : Nat) : Nat := rotr P.w x P.sS1.1 ^^^ rotr P.w x P.sS1.2.1 ^^^ shr x P.sS1.2.2

/-- FIPS 180-4 §5.1: append `0x80`, the least number of zero bytes, and the bit length on
`lenBytes` bytes, so that the total is a multiple of the block size. -/
def pad (msg : List Nat) : List Nat :=
  let b := P.blockBytes
  let z := (b - (msg.length + 1 + P.lenBytes) % b) % b
  msg ++ [0x80] ++ List.replicate z 0 ++ beBytes P.lenBytes (8 * msg.length)

/-- `sha256_chip.rs / sha512_chip.rs: fn pad` as written: `l = 8·len`, `k = B − (l + 1 + L) % B`
zero *bits* with `B` the block size in bits and `L` the length field in bits; the code pushes
`0x80`, then `k / 8` zero bytes, then the length. -/
def padRust (msg : List Nat) : List Nat :=
  let l := 8 * msg.length
  let bBits := 8 * P.blockBytes
  let k := bBits - (l + 1 + 8 * P.lenBytes) % bBits
  msg ++ [0x80] ++ List.replicate (k / 8) 0 ++ beBytes P.lenBytes l

/-- Message schedule: `W_0 … W_{rounds-1}`. -/
def scheduleLoop : Nat → List Nat → List Nat
  | 0, ws => ws
  | n + 1, ws =>
    let i := ws.length
    let x := P.modW (P.smallSigma1 (ws.getD (i - 2) 0) + ws.getD (i - 7) 0 +
              P.smallSigma0 (ws.getD (i - 15) 0) + ws.getD (i - 16) 0)
    scheduleLoop n (ws ++ [x])

def schedule (block : List Nat) : List Nat :=
  let w0 := (chunks P.wordBytes block).map beValue
  P.scheduleLoop (P.rounds - 16) w0

/-- One compression round on `[a,b,c,d,e,f,g,h]`. -/
def round (st : List Nat) (kt wt : Nat) : List Nat :=
  let a := st.getD 0 0; let b := st.getD 1 0; let c := st.getD 2 0; let d := st.getD 3 0
  let e := st.getD 4 0; let f := st.getD 5 0; let g := st.getD 6 0; let h := st.getD 7 0
  let t1 := h + P.bigSigma1 e + ch P.w e f g + kt + wt
  let t2 := P.bigSigma0 a + maj a b c
  [P.modW (t1 + t2), a, b, c, P.modW (d + t1), e, f, g]

def roundsLoop (ws : List Nat) : Nat → Nat → List Nat → List Nat
  | 0, _, st => st
  | n + 1, t, st => roundsLoop ws n (t + 1) (P.round st (P.k.getD t 0) (ws.getD t 0))

/-- Compression function: new chaining value. -/
def compress (h : List Nat) (block : List Nat) : List Nat :=
  let ws := P.schedule block
  let st := P.roundsLoop ws P.rounds 0 h
  List.zipWith (fun x y => P.modW (x + y)) h st

/-- Message schedule from the 16 block words. -/
def scheduleW (w0 : List Nat) : List Nat := P.scheduleLoop (P.rounds - 16) w0

/-- Compression function on the 16 block words (what the chips compute: the conversion of the block
bytes into words is done by the native gadget). -/
def compressW (h : List Nat) (w0 : List Nat) : List Nat :=
  let ws := P.scheduleW w0
  let st := P.roundsLoop ws P.rounds 0 h
  List.zipWith (fun x y => P.modW (x + y)) h st

/-- The big-endian words of a block. -/
def blockWords (block : List Nat) : List Nat := (chunks P.wordBytes block).map beValue

theorem compress_eq_compressW (h block : List Nat) : P.compress h block = P.compressW h (P.blockWords block) := rfl

/-- The digest bytes of `msg`. -/
def digest (msg : List Nat) : List Nat :=
  let blocks := chunks P.blockBytes (P.pad msg)
  let h := blocks.foldl P.compress P.iv
  (h.take P.outWords).flatMap (beBytes P.wordBytes)

end Sha2

/-- SHA-256 with the given constant tables. -/
def sha256P (k iv : List Nat) : Sha2 :=
  { w := 32, rounds := 64, k := k, iv := iv, bS0 := (2, 13, 22), bS1 := (6, 11, 25),
    sS0 := (7, 18, 3), sS1 := (17, 19, 10), outWords := 8 }

/-- SHA-512 with the given constant tables. -/
def sha512P (k iv : List Nat) : Sha2 :=
  { w := 64, rounds := 80, k := k, iv := iv, bS0 := (28, 34, 39), bS1 := (14, 18, 41),
    sS0 := (1, 8, 7), sS1 := (19, 61, 6), outWords := 8 }

/-! ## RIPEMD-160 -/

/-- The tables of RIPEMD-160 (`ripemd160_chip.rs: K, K_PRIME, IV, R, R_PRIME, S, S_PRIME`). -/
structure Rmd where
  k : List Nat
  k' : List Nat
  iv : List Nat
  r : List (List Nat)
  r' : List (List Nat)
  s : List (List Nat)
  s' : List (List Nat)

namespace Rmd
variable (P : Rmd)

def m32 (x : Nat) : Nat := x % 2 ^ 32

/-- The five boolean functions `f_0 … f_4` (left line uses `f_j`, right line `f_{4-j}`). -/
def f (j x y z : Nat) : Nat :=
  match j with
  | 0 => x ^^^ y ^^^ z
  | 1 => (x &&& y) ||| (notW 32 x &&& z)
  | 2 => (x ||| notW 32 y) ^^^ z
  | 3 => (x &&& z) ||| (y &&& notW 32 z)
  | _ => x ^^^ (y ||| notW 32 z)

/-- One step of a line on `[a,b,c,d,e]`. -/
def step (st : List Nat) (fj kj x s : Nat) : List Nat :=
  let a := st.getD 0 0; let b := st.getD 1 0; let c := st.getD 2 0; let d := st.getD 3 0
  let e := st.getD 4 0
  let t := m32 (rotl 32 (m32 (a + f fj b c d + x + kj)) s + e)
  [e, t, b, rotl 32 c 10, d]

def line (xs : List Nat) (left : Bool) : Nat → Nat → List Nat → List Nat
  | 0, _, st => st
  | n + 1, j, st =>
    let rd := j / 16
    let i := j % 16
    let st' :=
      if left then Rmd.step st rd (P.k.getD rd 0) (xs.getD ((P.r.getD rd []).getD i 0) 0) ((P.s.getD rd []).getD i 0)
      else Rmd.step st (4 - rd) (P.k'.getD rd 0) (xs.getD ((P.r'.getD rd []).getD i 0) 0) ((P.s'.getD rd []).getD i 0)
    line xs left n (j + 1) st'

def compress (h block : List Nat) : List Nat :=
  let xs := (chunks 4 block).map leValue
  let l := P.line xs true 80 0 h
  let r := P.line xs false 80 0 h
  let g := fun i => h.getD i 0
  [m32 (g 1 + l.getD 2 0 + r.getD 3 0), m32 (g 2 + l.getD 3 0 + r.getD 4 0),
   m32 (g 3 + l.getD 4 0 + r.getD 0 0), m32 (g 4 + l.getD 0 0 + r.getD 1 0),
   m32 (g 0 + l.getD 1 0 + r.getD 2 0)]

/-- MD-style padding with a little-endian 64-bit bit length. -/
def pad (msg : List Nat) : List Nat :=
  let z := (64 - (msg.length + 9) % 64) % 64
  msg ++ [0x80] ++ List.replicate z 0 ++ leBytes 8 (8 * msg.length)

def digest (msg : List Nat) : List Nat :=
  ((chunks 64 (Rmd.pad msg)).foldl P.compress P.iv).flatMap (leBytes 4)

end Rmd

/-! ## Spread encoding (`sha256/utils.rs: spread`, `get_even_and_odd_bits`) -/

/-- `spread x`: insert a zero between the bits of `x` (`Σ bᵢ·4^i`). Fuel = number of bits. -/
def spreadFuel : Nat → Nat → Nat
  | 0, _ => 0
  | n + 1, x => x % 2 + 4 * spreadFuel n (x / 2)

/-- Even-position bits of `x` compacted (`Σ x_{2i}·2^i`), on `n` output bits. -/
def evenBits : Nat → Nat → Nat
  | 0, _ => 0
  | n + 1, x => x % 2 + 2 * evenBits n (x / 4)

/-- Odd-position bits of `x` compacted. -/
def oddBits (n x : Nat) : Nat := evenBits n (x / 2)

/-- `expr_pow4_ip(exponents, terms) = Σ 4^eᵢ · termᵢ`. -/
def pow4Ip (exps terms : List Nat) : Nat :=
  (List.zipWith (fun e t => 4 ^ e * t) exps terms).foldl (· + ·) 0

/-- `expr_pow2_ip(exponents, terms) = Σ 2^eᵢ · termᵢ`. -/
def pow2Ip (exps terms : List Nat) : Nat :=
  (List.zipWith (fun e t => 2 ^ e * t) exps terms).foldl (· + ·) 0

end MidnightZK.C07
