/-!
# C07 — executable model of the Poseidon code of `circuits/src/hash/poseidon`

* `textbook`           : the Hades/Poseidon permutation as published (add round constants, S-box
                         `x^5` on every cell in full rounds / on one cell in partial rounds, MDS).
* `permutationCpu`     : `poseidon_cpu.rs: permutation_cpu` — *shifted* rounds (S-box, MDS, next round's
                         constants) with batches of `1 + nb_skips` partial rounds evaluated through the
                         pre-computed linear identities of `round_skips.rs`.
* `RoundId.generate`   : `round_skips.rs: RoundId::generate` (symbolic linear forms), `RoundId.eval`,
                         `roundConstantsOpt` (`round_constants_cpu` / `round_constants_circuit`).
* `Sponge`             : `poseidon_cpu.rs: impl SpongeCPU` and `poseidon_chip.rs: impl SpongeInstructions`
                         (same state machine on both sides), `hash` (`mod.rs: impl HashCPU`).
* `varlen`             : `poseidon_varlen.rs: poseidon_varlen` at value level.

All vectors are lists read with `getD · 0` and built with `vec n f = (List.range n).map f`, so every
function is total and the theorems need no length hypotheses. The field is a type parameter with
`0, 1, +, *` only (instantiated by `Fp p` in the driver, by any commutative ring in the theorems).
Import-free.
-/
namespace MidnightZK.C07

/-- Integers modulo `m` kept canonical by every operation (driver instance of the field). -/
structure Fp (m : Nat) where
  val : Nat
deriving DecidableEq, Repr

namespace Fp
variable {m : Nat}
def ofNat (m n : Nat) : Fp m := ⟨n % m⟩
instance : Zero (Fp m) := ⟨⟨0⟩⟩
instance : One (Fp m) := ⟨⟨1 % m⟩⟩
instance : Add (Fp m) := ⟨fun a b => ⟨(a.val + b.val) % m⟩⟩
instance : Mul (Fp m) := ⟨fun a b => ⟨(a.val * b.val) % m⟩⟩
instance : Inhabited (Fp m) := ⟨⟨0⟩⟩
end Fp

section
variable {F : Type} [Zero F] [One F] [Add F] [Mul F]

/-- `x.square().square() * x` (the S-box of `full_round_cpu`; `sbox` of `poseidon_chip.rs`). -/
def sbox (x : F) : F := (x * x) * (x * x) * x

/-- The vector `[f 0, …, f (n-1)]`. -/
def vec (n : Nat) (f : Nat → F) : List F := (List.range n).map f

/-- `init + f 0 + f 1 + … + f (n-1)`, accumulated from the left like the Rust folds. -/
def sumTo (n : Nat) (f : Nat → F) (init : F) : F := (List.range n).foldl (fun a j => a + f j) init

/-- `f (start + count - 1) (… (f start a))`. -/
def iter {α : Type} (f : Nat → α → α) : Nat → Nat → α → α
  | 0, _, a => a
  | n + 1, start, a => iter f n (start + 1) (f start a)

/-- The compile-time parameters of `constants/mod.rs` and the tables of `PoseidonField`. -/
structure PParams (F : Type) where
  width : Nat
  rate : Nat
  nbFull : Nat
  nbPartial : Nat
  mds : List (List F)
  rc : List (List F)

/-- `F::MDS[i][j]`. -/
def PParams.m (P : PParams F) (i j : Nat) : F := (P.mds.getD i []).getD j 0
/-- `F::ROUND_CONSTANTS[r][i]`. -/
def PParams.k (P : PParams F) (r i : Nat) : F := (P.rc.getD r []).getD i 0

/-! ## Textbook permutation -/

/-- Is round `r` a full round (`R_F/2` full, `R_P` partial, `R_F/2` full)? -/
def PParams.isFull (P : PParams F) (r : Nat) : Bool :=
  r < P.nbFull / 2 || P.nbFull / 2 + P.nbPartial ≤ r

/-- One round of the published permutation: `ARK`, S-box layer (all cells in a full round, the
last cell in a partial round — this code base puts the partial S-box on cell `WIDTH-1`), `MDS`. -/
def textbookRound (P : PParams F) (r : Nat) (st : List F) : List F :=
  let a := vec P.width (fun i => st.getD i 0 + P.k r i)
  let b := vec P.width (fun i => if P.isFull r || i = P.width - 1 then sbox (a.getD i 0) else a.getD i 0)
  vec P.width (fun i => sumTo P.width (fun j => P.m i j * b.getD j 0) 0)

/-- The published permutation: rounds `0 … R_F + R_P - 1`. -/
def textbook (P : PParams F) (st : List F) : List F :=
  iter (textbookRound P) (P.nbFull + P.nbPartial) 0 (vec P.width (fun i => st.getD i 0))

/-! ## Shifted rounds of `poseidon_cpu.rs` -/

/-- `poseidon_cpu.rs: fn linear_layer`: `constants[i] += MDS[i][j] * state[j]`. -/
def linearLayer (P : PParams F) (st cs : List F) : List F :=
  vec P.width (fun i => sumTo P.width (fun j => P.m i j * st.getD j 0) (cs.getD i 0))

/-- The constants used by shifted round `r`: `ROUND_CONSTANTS[r + 1]`, zero for the last round. -/
def shiftedConsts (P : PParams F) (r : Nat) : List F :=
  if r = P.nbFull + P.nbPartial - 1 then vec P.width (fun _ => 0) else vec P.width (P.k (r + 1))

/-- `poseidon_cpu.rs: fn full_round_cpu`. -/
def fullRoundCpu (P : PParams F) (r : Nat) (st : List F) : List F :=
  linearLayer P (vec P.width (fun i => sbox (st.getD i 0))) (shiftedConsts P r)

/-- `poseidon_cpu.rs: fn partial_round_cpu_raw` (`ROUND_CONSTANTS[round + 1]` unconditionally). -/
def partialRoundRaw (P : PParams F) (r : Nat) (st : List F) : List F :=
  linearLayer P (vec P.width (fun i => if i = P.width - 1 then sbox (st.getD i 0) else st.getD i 0))
    (vec P.width (P.k (r + 1)))

/-- `tests::permutation_cpu_raw`: the shifted permutation without round skips. -/
def permutationRaw (P : PParams F) (st : List F) : List F :=
  let s0 := vec P.width (fun i => st.getD i 0 + P.k 0 i)
  let s1 := iter (fullRoundCpu P) (P.nbFull / 2) 0 s0
  let s2 := iter (partialRoundRaw P) P.nbPartial (P.nbFull / 2) s1
  iter (fullRoundCpu P) (P.nbFull / 2) (P.nbFull / 2 + P.nbPartial) s2

/-! ## Round skips (`round_skips.rs`) -/

/-- `RoundVarId`: a linear form in the variables (`var`, length `WIDTH + NB_SKIPS_MAX`) and in the
round constants of the batch (`cst`, length `WIDTH * (1 + NB_SKIPS_MAX)`). -/
structure LF (F : Type) where
  var : List F
  cst : List F

instance : Inhabited (LF F) := ⟨⟨[], []⟩⟩

/-- Array sizes `WIDTH + NB_SKIPS_MAX` and `WIDTH * (1 + NB_SKIPS_MAX)`. -/
structure Dims where
  nv : Nat
  nc : Nat

/-- `RoundVarId::init`. -/
def LF.zero (d : Dims) : LF F := ⟨vec d.nv (fun _ => 0), vec d.nc (fun _ => 0)⟩
/-- The form `x_i` (`id.var_coeffs[i] = ONE`). -/
def LF.unitVar (d : Dims) (i : Nat) : LF F :=
  ⟨vec d.nv (fun j => if j = i then 1 else 0), vec d.nc (fun _ => 0)⟩
/-- `RoundVarId::from_constant_index` with `k = round_offset * WIDTH + column`. -/
def LF.unitCst (d : Dims) (k : Nat) : LF F :=
  ⟨vec d.nv (fun _ => 0), vec d.nc (fun j => if j = k then 1 else 0)⟩
/-- `RoundVarId::add_and_mul`: `self += c * rhs`. -/
def LF.addMul (d : Dims) (a b : LF F) (c : F) : LF F :=
  ⟨vec d.nv (fun j => a.var.getD j 0 + b.var.getD j 0 * c),
   vec d.nc (fun j => a.cst.getD j 0 + b.cst.getD j 0 * c)⟩

/-- `RoundVarId::eval_constants`: `Σ_k const_coeffs[k] * instances.flatten()[k]` over the
`n = WIDTH * (1 + nb_skips)` flattened constants of the window. -/
def LF.evalConsts (l : LF F) (n : Nat) (inst : Nat → F) : F :=
  sumTo n (fun k => l.cst.getD k 0 * inst k) 0

/-- `RoundVarId::eval_vars`: `constant + Σ_j var_coeffs[j] * instances[j]` over `n` instances. -/
def LF.evalVars (l : LF F) (n : Nat) (inst : List F) (c : F) : F :=
  sumTo n (fun j => l.var.getD j 0 * inst.getD j 0) c

/-- `RoundId`. -/
structure RoundId (F : Type) where
  nbSkips : Nat
  ids : List (LF F)

/-- `RoundId::init`: `ids[i] = x_i` for `i < WIDTH`, zero otherwise (`WIDTH + 1 + NB_SKIPS_MAX` forms). -/
def RoundId.init (W smax : Nat) (d : Dims) (nbSkips : Nat) : RoundId F :=
  ⟨nbSkips, (List.range (W + 1 + smax)).map (fun i => if i < W then LF.unitVar d i else LF.zero d)⟩

/-- `RoundId::row_id`. -/
def RoundId.rowId (R : RoundId F) (W : Nat) (d : Dims) (row : Nat) : List (LF F) :=
  (List.range W).map (fun i => if i = W - 1 then LF.unitVar d (W - 1 + row) else R.ids.getD i default)

/-- `base + Σ_j coef j * cur[j]` by successive `add_and_mul`. -/
def lfComb (d : Dims) (W : Nat) (base : LF F) (cur : List (LF F)) (coef : Nat → F) : LF F :=
  (List.range W).foldl (fun acc j => LF.addMul d acc (cur.getD j default) (coef j)) base

/-- `RoundId::update_row`. -/
def RoundId.updateRow (P : PParams F) (d : Dims) (R : RoundId F) (off : Nat) : RoundId F :=
  let W := P.width
  let cur := R.rowId W d off
  ⟨R.nbSkips, (List.range R.ids.length).map (fun i =>
    if i < W - 1 then lfComb d W (LF.unitCst d (off * W + i)) cur (P.m i)
    else if i = W + off then lfComb d W (LF.unitCst d (off * W + (W - 1))) cur (P.m (W - 1))
    else R.ids.getD i default)⟩

/-- `RoundId::generate`: `update_row` for `row = 0 … nb_skips`. -/
def RoundId.generate (P : PParams F) (smax : Nat) (d : Dims) (nbSkips : Nat) : RoundId F :=
  (List.range (1 + nbSkips)).foldl (RoundId.updateRow P d) (RoundId.init P.width smax d nbSkips)

/-- The forms in the order `ids[..WIDTH-1] ++ ids[WIDTH..]` used by `eval_constants`/`to_expression`. -/
def RoundId.outForm (R : RoundId F) (W t : Nat) : LF F :=
  if t < W - 1 then R.ids.getD t default else R.ids.getD (t + 1) default

/-- `RoundId::eval_constants(round, arg)`: the `WIDTH + nb_skips` pre-computed constants of the batch
starting at `round` (window `ROUND_CONSTANTS[round + 1 .. round + 2 + nb_skips]`). -/
def RoundId.evalConstants (P : PParams F) (R : RoundId F) (round : Nat) : List F :=
  let W := P.width
  vec (W + R.nbSkips) (fun t =>
    (R.outForm W t).evalConsts (W * (1 + R.nbSkips)) (fun k => P.k (round + 1 + k / W) (k % W)))

/-- `round_constants_cpu` / `round_constants_circuit`: one row per batch of `1 + nb_skips` rounds. -/
def RoundId.roundConstantsOpt (P : PParams F) (R : RoundId F) : List (List F) :=
  (List.range (P.nbPartial / (1 + R.nbSkips))).map (fun b =>
    R.evalConstants P (P.nbFull / 2 + b * (1 + R.nbSkips)))

/-- The loop `for i in 0..nb_skips` of `RoundId::eval`: returns the exponentiated instances and
`pow_instances`. -/
def RoundId.evalLoop (R : RoundId F) (W : Nat) (rcs : List F) :
    Nat → Nat → List F × List F → List F × List F
  | 0, _, ep => ep
  | fuel + 1, i, (exp, pows) =>
    let next := (R.ids.getD (W + i) default).evalVars (W + R.nbSkips) exp (rcs.getD (W - 1 + i) 0)
    RoundId.evalLoop R W rcs fuel (i + 1)
      (vec (W + R.nbSkips) (fun j => if j = W + i then sbox next else exp.getD j 0), pows ++ [next])

/-- `RoundId::eval::<NB_SKIPS>` (with `NB_SKIPS = self.nb_skips`): new state, and the
`pow_instances` handed to the circuit (values of the last cell of the skipped rows). -/
def RoundId.eval (R : RoundId F) (W : Nat) (rcs st : List F) : List F × List F :=
  let s := R.nbSkips
  let exp0 := vec (W + s) (fun j =>
    if j < W - 1 then st.getD j 0 else if j = W - 1 then sbox (st.getD j 0) else 0)
  let ep := RoundId.evalLoop R W rcs s 0 (exp0, [])
  let out := vec W (fun i =>
    if i < W - 1 then (R.ids.getD i default).evalVars (W + s) ep.1 (rcs.getD i 0)
    else (R.ids.getD (W + s) default).evalVars (W + s) ep.1 (rcs.getD (W + s - 1) 0))
  (out, ep.2)

/-- `PreComputedRoundCPU` / `PreComputedRoundCircuit`. -/
structure PreComputed (F : Type) where
  id : RoundId F
  roundConstants : List (List F)

/-- `PreComputedRound*::init` for `nb_skips` skips, array sizes for `smax = NB_SKIPS_MAX`. -/
def PreComputed.init (P : PParams F) (smax nbSkips : Nat) : PreComputed F :=
  let d : Dims := ⟨P.width + smax, P.width * (1 + smax)⟩
  let id := RoundId.generate P smax d nbSkips
  ⟨id, id.roundConstantsOpt P⟩

/-- `poseidon_cpu.rs: fn partial_round_cpu` (batch `b`). -/
def partialRoundSkip (P : PParams F) (pre : PreComputed F) (b : Nat) (st : List F) : List F :=
  (pre.id.eval P.width (pre.roundConstants.getD b []) st).1

/-- `poseidon_cpu.rs: pub fn permutation_cpu`. -/
def permutationCpu (P : PParams F) (pre : PreComputed F) (st : List F) : List F :=
  let s := pre.id.nbSkips
  let nMain := P.nbPartial / (1 + s)
  let rem := P.nbPartial % (1 + s)
  let s0 := vec P.width (fun i => st.getD i 0 + P.k 0 i)
  let s1 := iter (fullRoundCpu P) (P.nbFull / 2) 0 s0
  let s2 := iter (partialRoundSkip P pre) nMain 0 s1
  let s3 := iter (partialRoundRaw P) rem (P.nbFull / 2 + P.nbPartial - rem) s2
  iter (fullRoundCpu P) (P.nbFull / 2) (P.nbFull / 2 + P.nbPartial) s3

/-! ## Sponge (`impl SpongeCPU for PoseidonChip`, `impl SpongeInstructions for PoseidonChip`) -/

/-- `PoseidonState` / `AssignedPoseidonState` (values only). -/
structure Sponge (F : Type) where
  register : List F
  queue : List F
  squeezePos : Nat
  inputLen : Option Nat

/-- `init(input_len)`: capacity cell `register[RATE] = input_len` or `2^64`. `ofNat` embeds `u128`. -/
def Sponge.init (P : PParams F) (ofNat : Nat → F) (inputLen : Option Nat) : Sponge F :=
  ⟨vec P.width (fun i => if i = P.rate then ofNat (inputLen.getD (2 ^ 64)) else 0), [], 0, inputLen⟩

/-- `absorb`. -/
def Sponge.absorb (s : Sponge F) (inputs : List F) : Sponge F :=
  { s with queue := s.queue ++ inputs, squeezePos := 0 }

/-- Absorb the queue in chunks of `RATE` (a shorter last chunk adds to fewer cells). -/
def absorbChunks (W rate : Nat) (perm : List F → List F) : Nat → List F → List F → List F
  | 0, reg, _ => reg
  | fuel + 1, reg, q =>
    if q.isEmpty then reg else
    let chunk := q.take rate
    let reg' := vec W (fun i => if i < chunk.length then reg.getD i 0 + chunk.getD i 0 else reg.getD i 0)
    absorbChunks W rate perm fuel (perm reg') (q.drop rate)

/-- `squeeze`: `none` = the Rust code panics (second squeeze of a fixed-length sponge, or wrong
number of absorbed inputs). -/
def Sponge.squeeze (P : PParams F) (ofNat : Nat → F) (perm : List F → List F) (s : Sponge F) :
    Option (Sponge F × F) :=
  if s.squeezePos > 0 then
    if s.inputLen.isSome then none else
    some ({ s with squeezePos := (s.squeezePos + 1) % P.rate }, s.register.getD (s.squeezePos % P.rate) 0)
  else
    let q? : Option (List F) := match s.inputLen with
      | none => some (s.queue ++ [ofNat s.queue.length])
      | some len => if s.queue.length ≠ len then none else some s.queue
    match q? with
    | none => none
    | some q =>
      let reg := absorbChunks P.width P.rate perm (q.length + 1) s.register q
      some ({ s with register := reg, queue := [], squeezePos := 1 % P.rate }, reg.getD 0 0)

/-- `mod.rs: impl HashCPU for PoseidonChip`: fixed-length hash of `inputs`. -/
def hash (P : PParams F) (ofNat : Nat → F) (perm : List F → List F) (inputs : List F) : Option F :=
  ((Sponge.squeeze P ofNat perm ((Sponge.init P ofNat (some inputs.length)).absorb inputs)).map (·.2))

/-! ## Variable-length hashing (`poseidon_varlen.rs`) at value level -/

/-- `vec/vector.rs: get_lims::<M, A>(len)`: where the payload sits in the buffer. -/
def getLims (M A len : Nat) : Nat × Nat :=
  let finalPad := (A - len % A) % A
  (M - len - finalPad, M - finalPad)

/-- `assign_with_filler`: the buffer for `data` with every other cell equal to `filler`. -/
def vecBuffer (M A : Nat) (data : List F) (filler : F) : List F :=
  let (lo, hi) := getLims M A data.length
  vec M (fun i => if lo ≤ i ∧ i < hi then data.getD (i - lo) 0 else filler)

/-- Body of the chunk loop of `poseidon_varlen` for chunk `i`: switch `updating` on at the first
payload chunk (`rounded_len == MAX_LEN - i * RATE`), zero the cells after the payload in the last
chunk (`constrain_last_chunk`), and `cond_update` the register. -/
def varlenStep (P : PParams F) (perm : List F → List F) (maxLen : Nat) (buffer : List F) (len : Nat)
    (s : List F × Bool) (i : Nat) : List F × Bool :=
  let rate := P.rate
  let lastChunkLen := len % rate
  let roundedLen := if lastChunkLen = 0 then len - lastChunkLen else len - lastChunkLen + rate
  let b := decide (roundedLen = maxLen - i * rate)
  let updating := xor b s.2
  let chunk := vec rate (fun j => buffer.getD (i * rate + j) 0)
  let chunk := if i + 1 = maxLen / rate then
      -- `constrain_last_chunk`
      vec rate (fun j => if lastChunkLen ≠ 0 ∧ lastChunkLen ≤ j then 0 else chunk.getD j 0)
    else chunk
  let upd := perm (vec P.width (fun j => if j < rate then s.1.getD j 0 + chunk.getD j 0 else s.1.getD j 0))
  (if updating then upd else s.1, updating)

/-- `poseidon_varlen`: the digest computed in circuit for a buffer of `maxLen` cells and the
length `len` (as a number; the circuit asserts `len ≤ MAX_LEN`). The last chunk
(`i + 1 == MAX_LEN / RATE`) goes through `constrain_last_chunk`, which zeroes the cells after the
payload (before fix 7fb7af7 the test was `i == MAX_LEN / RATE`, never true, and the digest of an
odd-length payload depended on the filler). -/
def varlen (P : PParams F) (ofNat : Nat → F) (perm : List F → List F) (maxLen : Nat)
    (buffer : List F) (len : Nat) : F :=
  let reg0 := vec P.width (fun i => if i = P.rate then ofNat len else 0)
  let nChunks := (maxLen + P.rate - 1) / P.rate
  ((List.range nChunks).foldl (varlenStep P perm maxLen buffer len) (reg0, false)).1.getD 0 0

end

end MidnightZK.C07
