/-!
# C07 — the Grain LFSR parameter generation of Poseidon (`generate_parameters_grain.sage`)

The round constants and the MDS matrix of `constants/blstrs.rs` are documented as the output of
`sage generate_parameters_grain.sage 1 0 255 3 8 60 <p>`. This file re-implements that generation
(80-bit Grain LFSR in self-shrinking mode, rejection sampling of field elements, Cauchy matrix
`1/(xᵢ + yⱼ)`) over `Nat`, with fuel-recursive functions the kernel can evaluate. Import-free.
-/
namespace MidnightZK.C07.Grain

/-- Big-endian bits of `v` on `n` bits. -/
def beBits : Nat → Nat → List Nat
  | 0, _ => []
  | n + 1, v => beBits n (v / 2) ++ [v % 2]

/-- LFSR state from the list of its 80 bits (`bits[0]` is shifted out first). -/
def ofBits (bits : List Nat) : Nat := bits.foldr (fun b acc => b + 2 * acc) 0

/-- Initial state: field type (2 bits), S-box type (4), field size `n` (12), `t` (12), `R_F` (10),
`R_P` (10), thirty ones. -/
def initState (field sbox n t rf rp : Nat) : Nat :=
  ofBits (beBits 2 field ++ beBits 4 sbox ++ beBits 12 n ++ beBits 12 t ++ beBits 10 rf ++ beBits 10 rp
    ++ List.replicate 30 1)

/-- Evaluate `s` before continuing (makes the kernel normalise the state to a literal at every
step instead of carrying a growing unevaluated term). -/
def force {α : Type} (s : Nat) (k : Nat → α) : α :=
  match s with
  | 0 => k 0
  | n + 1 => k (n + 1)

/-- New bit of the LFSR: `b62 ⊕ b51 ⊕ b38 ⊕ b23 ⊕ b13 ⊕ b0`. -/
def outBit (s : Nat) : Nat :=
  (s / 2 ^ 62 + s / 2 ^ 51 + s / 2 ^ 38 + s / 2 ^ 23 + s / 2 ^ 13 + s) % 2

/-- One LFSR step: the new bit is shifted in at position 79. -/
def stepS (s : Nat) : Nat := s / 2 + outBit s * 2 ^ 79

def discard : Nat → Nat → Nat
  | 0, s => s
  | n + 1, s => force (stepS s) (discard n)

/-- Self-shrinking output: read bit pairs, output the second bit of the first pair whose first bit is 1. -/
def nextBit : Nat → Nat → Option (Nat × Nat)
  | 0, _ => none
  | f + 1, s =>
    force (stepS s) fun s1 =>
    force (stepS s1) fun s2 =>
    if outBit s = 1 then some (outBit s1, s2) else nextBit f s2

/-- `n` output bits, most significant first. -/
def bits : Nat → Nat → Nat → Option (Nat × Nat)
  | 0, acc, s => some (acc, s)
  | n + 1, acc, s =>
    match nextBit 200 s with
    | none => none
    | some (b, s') => force (2 * acc + b) fun acc' => force s' fun s'' => bits n acc' s''

/-- Next field element: `n`-bit candidates until one is below `p`. -/
def elem (p n : Nat) : Nat → Nat → Option (Nat × Nat)
  | 0, _ => none
  | f + 1, s =>
    match bits n 0 s with
    | none => none
    | some (v, s') => if v < p then some (v, s') else elem p n f s'

/-- Check that the next elements are exactly `expected`; returns the state afterwards. -/
def checkElems (p n : Nat) : List Nat → Nat → Option Nat
  | [], s => some s
  | e :: rest, s =>
    match elem p n 64 s with
    | none => none
    | some (v, s') => if v = e then checkElems p n rest s' else none

/-- The next `k` elements. -/
def takeElems (p n : Nat) : Nat → Nat → Option (List Nat × Nat)
  | 0, s => some ([], s)
  | k + 1, s =>
    match elem p n 64 s with
    | none => none
    | some (v, s') =>
      match takeElems p n k s' with
      | none => none
      | some (l, s'') => some (v :: l, s'')

/-- The next `2t` elements `x₀…x_{t-1}, y₀…y_{t-1}` are pairwise distinct and
`MDS[i][j]·(xᵢ + yⱼ) = 1 (mod p)`. -/
def mdsCheck (p n t : Nat) (mds : List (List Nat)) (s1 : Nat) : Bool :=
  match takeElems p n (2 * t) s1 with
  | none => false
  | some (xy, _) =>
    xy.Nodup &&
    (List.range t).all (fun i => (List.range t).all (fun j =>
      ((mds.getD i []).getD j 0 * ((xy.take t).getD i 0 + (xy.drop t).getD j 0)) % p == 1))

/-- The whole check: the `(R_F + R_P)·t` round constants in order, then the Cauchy MDS matrix. -/
def check (p n t rf rp : Nat) (rc mds : List (List Nat)) : Bool :=
  match checkElems p n rc.flatten (discard 160 (initState 1 0 n t rf rp)) with
  | none => false
  | some s1 => mdsCheck p n t mds s1

end MidnightZK.C07.Grain
