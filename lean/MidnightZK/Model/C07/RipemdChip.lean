import MidnightZK.Model.C07.ShaChip
/-!
# C07 — the RIPEMD-160 chip as an emitter of regions (`circuits/src/hash/ripemd160/ripemd160_chip.rs`)

Import-free (core only). Same conventions as `ShaChip.lean` (whose `Src`, `Asg`, `get`, `InTable`,
`hex`, sorting helpers are reused), extended with FIXED cells: the left-rotation gate of this chip
queries four extra fixed columns (`T2 … T5`: limb coefficients of the word and of the rotated word),
so a region records every `assign_fixed` (`fixeds`; the lookup tags `T0`/`T1` are fixed columns `0`/`1`)
and gate polynomials may query fixed cells (`Expr.fix`).

* `Expr` / `Expr.eval`: gate polynomials as dumped from the REAL `RipeMD160Chip::configure`
  (`Gen/C07RmdGates.lean`, rendered by `translators/c07_rmdgates.py`).
* every function below mirrors the Rust function of the same name and performs the same `Region`
  calls in the same order; `emit n` = the chip regions of a message of `n` blocks
  (`RipeMD160Chip::ripemd160` after padding) in synthesis order.
* `Sat` / `TraceSat`: an assignment of all advice cells satisfies every gate on every enabled row,
  both lookups on every `q_lookup` row and every copy constraint of the regions (fixed cells hold what
  the emitter assigned; an unassigned fixed cell is `0`).
-/
namespace MidnightZK.C07.ChipR
open MidnightZK.C07.Chip (Src Asg get InTable inTableB hex sortBy dedupAdj joinC ltPair zero maskEvn64 spread32)

/-- The selectors of `RipeMD160Config` (`q_lookup`, `q_11_11_10`, `q_spr_sum_evn`, `q_spr_sum_odd`,
`q_left_rot`, `q_add`, `q_mod_add`). -/
inductive Sel where
  | lookup | d11 | sumEvn | sumOdd | rot | add | modadd
  deriving DecidableEq, Repr, Inhabited

def Sel.name : Sel → String
  | .lookup => "lookup" | .d11 => "d11" | .sumEvn => "sumEvn" | .sumOdd => "sumOdd" | .rot => "rot"
  | .add => "add" | .modadd => "modadd"

/-- `midnight_proofs::plonk::Expression` restricted to what the gates of the chip use (advice and
fixed queries on logical columns, constants, negation, sums, products). -/
inductive Expr where
  | const (n : Nat)
  | adv (col : Nat) (rot : Int)
  | fix (col : Nat) (rot : Int)
  | neg (a : Expr)
  | sum (a b : Expr)
  | prod (a b : Expr)
  | scaled (a : Expr) (n : Nat)
  deriving Repr, Inhabited

/-- Value of a gate polynomial on one row (over the integers). -/
def Expr.eval (env fenv : Nat → Int → Int) : Expr → Int
  | .const n => (n : Int)
  | .adv c r => env c r
  | .fix c r => fenv c r
  | .neg a => - a.eval env fenv
  | .sum a b => a.eval env fenv + b.eval env fenv
  | .prod a b => a.eval env fenv * b.eval env fenv
  | .scaled a n => a.eval env fenv * (n : Int)

/-- One region of the chip. -/
structure Region where
  kind : String
  /-- `(selector, offset)` of every `Selector::enable`. -/
  sels : List (Sel × Nat) := []
  /-- `(logical fixed column, offset, value)` of every `region.assign_fixed`. -/
  fixeds : List (Nat × Nat × Nat) := []
  /-- `(logical advice column, offset)` of every assigned advice cell. -/
  advice : List (Nat × Nat) := []
  /-- `(source, logical advice column, offset)` of every `copy_advice` / `constrain_equal`. -/
  copies : List (Src × Nat × Nat) := []
  deriving Repr, Inhabited

namespace Region

def enable (s : Sel) (off : Nat) (r : Region) : Region := { r with sels := r.sels ++ [(s, off)] }

def assignAdvice (col off : Nat) (r : Region) : Region := { r with advice := r.advice ++ [(col, off)] }

def assignFixed (col off v : Nat) (r : Region) : Region := { r with fixeds := r.fixeds ++ [(col, off, v)] }

def copyAdvice (src : Src) (col off : Nat) (r : Region) : Region :=
  { r with advice := r.advice ++ [(col, off)], copies := r.copies ++ [(src, col, off)] }

/-- `region.constrain_equal(src, cell)` on an already assigned cell (`assert_equal`). -/
def constrainEqual (src : Src) (col off : Nat) (r : Region) : Region :=
  { r with copies := r.copies ++ [(src, col, off)] }

/-- `ripemd160_chip.rs: fn assign_plain_and_spreaded::<L>(region, _, offset, lookup_idx)`. -/
def aps (L off li : Nat) (r : Region) : Region :=
  r.enable .lookup off |>.assignFixed li off L |>.assignAdvice (2 * li + 1) off |>.assignAdvice (2 * li) off

/-- `ripemd160_chip.rs: fn assign_sprdd_11_11_10(region, _, parity, offset)`. -/
def sprdd111110 (odd : Bool) (off : Nat) (r : Region) : Region :=
  let idx := if odd then 1 else 0
  r.enable .d11 (off + 1)
    |>.aps 11 off idx |>.aps 11 (off + 1) idx |>.aps 10 (off + 2) idx
    |>.aps 11 off (1 - idx) |>.aps 11 (off + 1) (1 - idx) |>.aps 10 (off + 2) (1 - idx)
    |>.assignAdvice 4 off

end Region

/-! ## `ripemd160/utils.rs`: limb lengths and coefficients of the rotation -/

/-- `utils.rs: fn limb_lengths(rot)` (`WORD = 32`, `MAX_LIMB = 11`, `LAST_LIMB = 10`, `NUM_LIMBS = 4`). -/
def limbLengths (rot : Nat) : List Nat × Nat :=
  let a := rot % 11
  let b := 11 - a
  let k := rot / 11 + 1
  ((([11, 11, 11, 10] : List Nat).set (k - 1) a).set k b, k)

/-- The closure `compute_coeffs` of `utils.rs: fn limb_coeffs` (`wrapping_shl` on `u32`). -/
def computeCoeffs (lengths : List Nat) : List Nat :=
  ((lengths.reverse.foldl (fun (st : Nat × List Nat) len => ((st.1 * 2 ^ len) % 2 ^ 32, st.2 ++ [st.1]))
    (1, [])).2).reverse

def rotateLeft (k : Nat) (l : List Nat) : List Nat := l.drop k ++ l.take k
def rotateRight (k : Nat) (l : List Nat) : List Nat := l.drop (l.length - k) ++ l.take (l.length - k)

/-- `utils.rs: fn limb_coeffs(rot)`. -/
def limbCoeffs (rot : Nat) : List Nat × List Nat :=
  let ll := limbLengths rot
  (computeCoeffs ll.1, rotateRight ll.2 (computeCoeffs (rotateLeft ll.2 ll.1)))

/-! ## The operations of the chip: one region each. `k` is the index the region gets. -/

/-- `ripemd160_chip.rs: fn prepare_spreaded` followed by its `assert_equal(word, word_copy)`.
Output: `~X` in `A5` at offset 0. -/
def prepareSpreaded (k : Nat) (word : Src) : Region × Src :=
  (({ kind := "prepspr" } : Region).enable .sumEvn 1
    |>.assignAdvice 5 0 |>.copyAdvice zero 6 0 |>.copyAdvice zero 7 0
    |>.copyAdvice zero 2 0 |>.copyAdvice zero 2 1 |>.copyAdvice zero 2 2
    |>.sprdd111110 false 0
    |>.constrainEqual word 4 0,
   .reg k 0 5)

/-- `ripemd160_chip.rs: fn and`. Output: `Odd` in `A4` at offset 0. -/
def and (k : Nat) (sX sY : Src) : Region × Src :=
  (({ kind := "and" } : Region).enable .sumOdd 1
    |>.copyAdvice sX 5 0 |>.copyAdvice sY 6 0 |>.copyAdvice zero 7 0
    |>.sprdd111110 true 0,
   .reg k 0 4)

/-- `ripemd160_chip.rs: fn f_type_one`. Output: `Evn` in `A4` at offset 0. -/
def fTypeOne (k : Nat) (sX sY sZ : Src) : Region × Src :=
  (({ kind := "f1" } : Region).enable .sumEvn 1
    |>.copyAdvice sX 5 0 |>.copyAdvice sY 6 0 |>.copyAdvice sZ 7 0
    |>.sprdd111110 false 0,
   .reg k 0 4)

/-- `ripemd160_chip.rs: fn f_type_two`. Output: `Ret` in `A6` at offset 1. -/
def fTypeTwo (k : Nat) (sX sY sZ : Src) : Region × Src :=
  (({ kind := "f2" } : Region).enable .sumOdd 1 |>.enable .add 1 |>.enable .sumOdd 4 |>.enable .add 4
    |>.copyAdvice zero 7 0 |>.copyAdvice zero 7 3
    |>.copyAdvice sX 5 0 |>.copyAdvice sX 4 4
    |>.copyAdvice sY 6 0 |>.copyAdvice sZ 6 3
    |>.assignAdvice 5 3 |>.copyAdvice (.reg k 3 5) 5 4
    |>.copyAdvice (.const maskEvn64) 6 4
    |>.sprdd111110 true 0 |>.copyAdvice (.reg k 0 4) 4 1
    |>.sprdd111110 true 3 |>.copyAdvice (.reg k 3 4) 5 1
    |>.assignAdvice 6 1,
   .reg k 1 6)

/-- `ripemd160_chip.rs: fn f_type_three`: `~(¬Y)` is the output of the native gadget's
`linear_combination([(-1, ~Y)], MASK_EVN_64)` (external cell `x`), then five regions
`f_type_one`, `prepare_spreaded`, `and`, `prepare_spreaded`, `xor = f_type_one(_, _, ~0)`. -/
def fTypeThree (k x : Nat) (sX _sY sZ : Src) : List Region × Src :=
  let nY : Src := .ext x
  let t1 := fTypeOne k sX nY sZ
  let s1 := prepareSpreaded (k + 1) t1.2
  let t2 := and (k + 2) sX nY
  let s2 := prepareSpreaded (k + 3) t2.2
  let o := fTypeOne (k + 4) s1.2 s2.2 zero
  ([t1.1, s1.1, t2.1, s2.1, o.1], o.2)

/-- `ripemd160_chip.rs: fn assign_left_rotation` inside `fn left_rotate`. Output: `Rot(X)` in `A4` at
offset 1. -/
def leftRotate (k : Nat) (word : Src) (rot : Nat) : Region × Src :=
  let ll := (limbLengths rot).1
  let cs := limbCoeffs rot
  (({ kind := "rotl" } : Region).enable .lookup 0 |>.enable .lookup 1 |>.enable .rot 1
    |>.copyAdvice word 4 0 |>.assignAdvice 4 1
    |>.assignFixed 0 0 (ll.getD 0 0) |>.assignAdvice 0 0 |>.assignAdvice 1 0
    |>.assignFixed 1 0 (ll.getD 1 0) |>.assignAdvice 2 0 |>.assignAdvice 3 0
    |>.assignFixed 0 1 (ll.getD 2 0) |>.assignAdvice 0 1 |>.assignAdvice 1 1
    |>.assignFixed 1 1 (ll.getD 3 0) |>.assignAdvice 2 1 |>.assignAdvice 3 1
    |>.assignFixed 2 0 (cs.1.getD 0 0) |>.assignFixed 3 0 (cs.1.getD 1 0)
    |>.assignFixed 2 1 (cs.1.getD 2 0) |>.assignFixed 3 1 (cs.1.getD 3 0)
    |>.assignFixed 4 0 (cs.2.getD 0 0) |>.assignFixed 5 0 (cs.2.getD 1 0)
    |>.assignFixed 4 1 (cs.2.getD 2 0) |>.assignFixed 5 1 (cs.2.getD 3 0),
   .reg k 1 4)

/-- `ripemd160_chip.rs: fn add_mod_2_32` (`summands.resize(4, &zero)`). Output: `R` in `A4` at offset 0. -/
def addMod (k : Nat) (ss : List Src) : Region × Src :=
  (({ kind := "addmod" } : Region).enable .modadd 1 |>.enable .d11 1
    |>.copyAdvice (ss.getD 0 zero) 5 0 |>.copyAdvice (ss.getD 1 zero) 6 0 |>.copyAdvice (ss.getD 2 zero) 7 0
    |>.copyAdvice (ss.getD 3 zero) 5 1
    |>.aps 2 0 1 |>.aps 0 1 1 |>.aps 0 2 1
    |>.aps 11 0 0 |>.aps 11 1 0 |>.aps 10 2 0
    |>.assignAdvice 4 0,
   .reg k 0 4)

/-- Emission state threaded through the synthesis: index of the next region, index of the next
external cell, and the `linear_combination` calls made so far (`(output cell, input ~Y)`). -/
structure Em where
  k : Nat
  x : Nat
  lcs : List (Nat × Src) := []
  deriving Repr, Inhabited

/-- `ripemd160_chip.rs: fn f(idx, X, Y, Z)`: three `prepare_spreaded`, then the function of the
type selected by `idx`. -/
def fEmit (em : Em) (idx : Nat) (X Y Z : Src) : List Region × Src × Em :=
  let sX := prepareSpreaded em.k X
  let sY := prepareSpreaded (em.k + 1) Y
  let sZ := prepareSpreaded (em.k + 2) Z
  let pre := [sX.1, sY.1, sZ.1]
  let k := em.k + 3
  match idx / 16 with
  | 0 => let o := fTypeOne k sX.2 sY.2 sZ.2; (pre ++ [o.1], o.2, { em with k := k + 1 })
  | 1 => let o := fTypeTwo k sX.2 sY.2 sZ.2; (pre ++ [o.1], o.2, { em with k := k + 1 })
  | 2 => let o := fTypeThree k em.x sX.2 sY.2 sZ.2
         (pre ++ o.1, o.2, { k := k + 5, x := em.x + 1, lcs := em.lcs ++ [(em.x, sY.2)] })
  | 3 => let o := fTypeTwo k sZ.2 sX.2 sY.2; (pre ++ [o.1], o.2, { em with k := k + 1 })
  | _ => let o := fTypeThree k em.x sY.2 sZ.2 sX.2
         (pre ++ o.1, o.2, { k := k + 5, x := em.x + 1, lcs := em.lcs ++ [(em.x, sZ.2)] })

/-- One line of `fn round_function` on the state `[A, B, C, D, E]`. -/
def halfRound (em : Em) (fidx rot : Nat) (st : List Src) (word rc : Src) : List Region × List Src × Em :=
  let A := st.getD 0 zero; let B := st.getD 1 zero; let C := st.getD 2 zero; let D := st.getD 3 zero
  let E := st.getD 4 zero
  let f := fEmit em fidx B C D
  let em1 := f.2.2
  let t1 := addMod em1.k [A, f.2.1, word, rc]
  let t2 := leftRotate (em1.k + 1) t1.2 rot
  let T := addMod (em1.k + 2) [t2.2, E]
  let rc10 := leftRotate (em1.k + 3) C 10
  (f.1 ++ [t1.1, t2.1, T.1, rc10.1], [E, T.2, B, rc10.2, D], { em1 with k := em1.k + 4 })

/-- The tables of the chip (`K, K_PRIME, R, R_PRIME, S, S_PRIME`), as in `Rmd`. -/
abbrev Tabs := MidnightZK.C07.Rmd

/-- `ripemd160_chip.rs: fn round_function(idx = j)` inside the loop of `fn process_block`. -/
def roundEmit (P : Tabs) (em : Em) (j : Nat) (l r : List Src) (words : List Src) :
    List Region × List Src × List Src × Em :=
  let rd := j / 16
  let i := j % 16
  let hl := halfRound em j ((P.s.getD rd []).getD i 0) l (words.getD ((P.r.getD rd []).getD i 0) zero)
    (.const (P.k.getD rd 0))
  let hr := halfRound hl.2.2 (79 - j) ((P.s'.getD rd []).getD i 0) r (words.getD ((P.r'.getD rd []).getD i 0) zero)
    (.const (P.k'.getD rd 0))
  (hl.1 ++ hr.1, hl.2.1, hr.2.1, hr.2.2)

/-- `n` rounds starting at round `j`. -/
def roundsEmit (P : Tabs) (words : List Src) : Nat → Nat → Em → List Src → List Src →
    List Region × List Src × List Src × Em
  | 0, _, em, l, r => ([], l, r, em)
  | n + 1, j, em, l, r =>
    let rd := roundEmit P em j l r words
    let rest := roundsEmit P words n (j + 1) rd.2.2.2 rd.2.1 rd.2.2.1
    (rd.1 ++ rest.1, rest.2)

/-- `ripemd160_chip.rs: fn process_block` on the 16 block words (external cells `x … x+15`, assigned
by `block_from_bytes` outside of the chip). -/
def blockEmit (P : Tabs) (em : Em) (h : List Src) : List Region × List Src × Em :=
  let words := (List.range 16).map (fun i => Src.ext (em.x + i))
  let rd := roundsEmit P words 80 0 { em with x := em.x + 16 } h h
  let l := rd.2.1; let r := rd.2.2.1; let em1 := rd.2.2.2
  let g := fun (s : List Src) i => s.getD i zero
  let T := addMod em1.k [g h 1, g l 2, g r 3]
  let h1 := addMod (em1.k + 1) [g h 2, g l 3, g r 4]
  let h2 := addMod (em1.k + 2) [g h 3, g l 4, g r 0]
  let h3 := addMod (em1.k + 3) [g h 4, g l 0, g r 1]
  let h4 := addMod (em1.k + 4) [g h 0, g l 1, g r 2]
  (rd.1 ++ [T.1, h1.1, h2.1, h3.1, h4.1], [T.2, h1.2, h2.2, h3.2, h4.2], { em1 with k := em1.k + 5 })

/-- `n` blocks. -/
def blocksEmit (P : Tabs) : Nat → Em → List Src → List Region × List Src × Em
  | 0, em, h => ([], h, em)
  | n + 1, em, h =>
    let b := blockEmit P em h
    let rest := blocksEmit P n b.2.2 b.2.1
    (b.1 ++ rest.1, rest.2)

/-- `ripemd160_chip.rs: fn ripemd160` on a padded message of `n` blocks: all chip regions in
synthesis order, the final state cells and the emission state (with the `linear_combination` calls). -/
def emit (P : Tabs) (n : Nat) : List Region × List Src × Em :=
  blocksEmit P n { k := 0, x := 0 } (P.iv.map Src.const)

/-! ## Canonical text of a region -/

/-- Same format as `Chip.Region.render`; the `f:` list holds every fixed cell of the region. -/
def Region.render (advCols fixedCols : List Nat) (r : Region) : String :=
  let sels := dedupAdj (sortBy (fun (a b : Nat × String) => a.1 < b.1 || (a.1 == b.1 && a.2 < b.2))
    (r.sels.map (fun so => (so.2, so.1.name))))
  let fx := dedupAdj (sortBy (fun (a b : (Nat × Nat) × Nat) => ltPair a.1 b.1 || (a.1 == b.1 && a.2 < b.2))
    (r.fixeds.map (fun t => ((t.2.1, fixedCols.getD t.1 99), t.2.2))))
  let advs := dedupAdj (sortBy ltPair (r.advice.map (fun c => (c.2, advCols.getD c.1 99))))
  let cps := dedupAdj (sortBy (fun (a b : (Nat × Nat) × String) => ltPair a.1 b.1 || (a.1 == b.1 && a.2 < b.2))
    (r.copies.map (fun c => ((c.2.2, advCols.getD c.2.1 99), c.1.render advCols))))
  s!"{r.kind} s:{joinC (sels.map (fun s => s!"{s.2}@{s.1}"))} f:{joinC (fx.map (fun t => s!"{t.1.2}@{t.1.1}={hex t.2}"))} a:{joinC (advs.map (fun c => s!"{c.2}@{c.1}"))} c:{joinC (cps.map (fun c => s!"{c.2}>{c.1.2}@{c.1.1}"))}"

/-- `ripemd160/utils.rs: fn gen_spread_table`: for every `len` in `0..=11` the rows
`(len, i, spread(i))`, `i < 2^len`. -/
def spreadTable : List (Nat × List (Nat × Nat)) :=
  (List.range 12).map (fun len => (len, (List.range (2 ^ len)).map (fun i => (i, spread32 i))))

/-! ## Satisfaction -/

/-- The fixed cell of logical column `c` at offset `o` (unassigned fixed cells are `0`). -/
def fixAt (r : Region) (c o : Nat) : Nat :=
  match r.fixeds.find? (fun t => t.1 == c && t.2.1 == o) with
  | some t => t.2.2
  | none => 0

/-- What a gate enabled at offset `o` of region `k` sees in the advice columns. -/
def rowEnv (a : Asg) (k o : Nat) : Nat → Int → Int :=
  fun c rot => (a (.reg k (Int.toNat ((o : Int) + rot)) c) : Int)

/-- What it sees in the fixed columns. -/
def fixEnv (r : Region) (o : Nat) : Nat → Int → Int :=
  fun c rot => (fixAt r c (Int.toNat ((o : Int) + rot)) : Int)

/-- Region `k` is satisfied by the assignment `a`. -/
structure Sat (p : Nat) (G : Sel → List Expr) (a : Asg) (k : Nat) (r : Region) : Prop where
  gate : ∀ so ∈ r.sels, ∀ e ∈ G so.1, e.eval (rowEnv a k so.2) (fixEnv r so.2) % (p : Int) = 0
  look : ∀ so ∈ r.sels, so.1 = .lookup → ∀ li, li < 2 →
    InTable (fixAt r li so.2) (a (.reg k so.2 (2 * li))) (a (.reg k so.2 (2 * li + 1)))
  copy : ∀ c ∈ r.copies, a (.reg k c.2.2 c.2.1) = get a c.1

/-- Executable form of `Sat`: the list of failed checks (`[]` = satisfied). -/
def satFailures (p : Nat) (G : Sel → List Expr) (a : Asg) (k : Nat) (r : Region) : List String :=
  (r.sels.flatMap (fun so =>
    ((G so.1).zipIdx.filter (fun ei => ei.1.eval (rowEnv a k so.2) (fixEnv r so.2) % (p : Int) != 0)).map
      (fun ei => s!"gate:{so.1.name}@{so.2}#{ei.2}"))) ++
  (r.sels.flatMap (fun so =>
    if so.1 == .lookup then
      ((List.range 2).filter (fun li =>
        !inTableB (fixAt r li so.2) (a (.reg k so.2 (2 * li))) (a (.reg k so.2 (2 * li + 1))))).map
        (fun li => s!"lookup{li}@{so.2}")
    else [])) ++
  ((r.copies.filter (fun c => a (.reg k c.2.2 c.2.1) != get a c.1)).map (fun c => s!"copy:{c.2.1}@{c.2.2}"))

/-- Regions `k, k+1, …` are satisfied. -/
def TraceSat (p : Nat) (G : Sel → List Expr) (a : Asg) : Nat → List Region → Prop
  | _, [] => True
  | k, r :: rs => Sat p G a k r ∧ TraceSat p G a (k + 1) rs

end MidnightZK.C07.ChipR
