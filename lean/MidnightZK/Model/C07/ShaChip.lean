import MidnightZK.Model.C07.Sha2
/-!
# C07 — the SHA-256 chip as an emitter of regions (`circuits/src/hash/sha256/sha256_chip.rs`)

Import-free (core only).

* `Expr` / `Expr.eval`: gate polynomials as dumped from the REAL `Sha256Chip::configure`
  (`Gen/C07ShaGates.lean`, rendered by `translators/c07_shagates.py`; columns are the *logical*
  indices `A0 … A7` of `Sha256Config::advice_cols`, the selector factor is stripped).
* `Src`, `Region`: what one `layouter.assign_region` call of the chip leaves behind: enabled
  selectors, tag cells of the two plain-spreaded lookups, assigned advice cells, copy constraints
  (source cell → cell of the region). Every function below mirrors the Rust function of the same
  name and performs the same `Region` calls in the same order.
* `emit n`: the chip regions of a message of `n` blocks (`Sha256Chip::sha256` after padding), in
  synthesis order; `render` prints a region in the canonical text compared line by line with the
  recorded real synthesis (`harness/c07/src/shachip.rs`).
* `Sat` / `TraceSat`: an assignment of all cells satisfies every gate on every enabled row, both
  lookups on every `q_lookup` row and every copy constraint of the regions.
-/
namespace MidnightZK.C07.Chip

/-! ## Gates -/

/-- The selectors of `Sha256Config` (`q_lookup`, `q_maj`, `q_half_ch`, `q_Sigma_0`, `q_Sigma_1`,
`q_sigma_0`, `q_sigma_1`, `q_11_11_10`, `q_10_9_11_2`, `q_7_12_2_5_6`, `q_12_1x3_7_3_4_3`,
`q_add_mod_2_32`). -/
inductive Sel where
  | lookup | maj | halfch | Sig0 | Sig1 | sig0 | sig1 | d11 | dA | dE | dW | add
  deriving DecidableEq, Repr, Inhabited

def Sel.name : Sel → String
  | .lookup => "lookup" | .maj => "maj" | .halfch => "halfch" | .Sig0 => "Sig0" | .Sig1 => "Sig1"
  | .sig0 => "sig0" | .sig1 => "sig1" | .d11 => "d11" | .dA => "dA" | .dE => "dE" | .dW => "dW"
  | .add => "add"

/-- `midnight_proofs::plonk::Expression` restricted to what the gates of the chip use (advice
queries on logical columns, constants, negation, sums, products). -/
inductive Expr where
  | const (n : Nat)
  | adv (col : Nat) (rot : Int)
  | neg (a : Expr)
  | sum (a b : Expr)
  | prod (a b : Expr)
  | scaled (a : Expr) (n : Nat)
  deriving Repr, Inhabited

/-- Value of a gate polynomial on one row (over the integers; a gate holds when the value is
`0` modulo the field modulus). -/
def Expr.eval (env : Nat → Int → Int) : Expr → Int
  | .const n => (n : Int)
  | .adv c r => env c r
  | .neg a => - a.eval env
  | .sum a b => a.eval env + b.eval env
  | .prod a b => a.eval env * b.eval env
  | .scaled a n => a.eval env * (n : Int)

/-! ## Cells and regions -/

/-- A cell that can be the source of a copy constraint: an advice cell of chip region `k`
(region-relative offset, logical column), a fixed cell holding a constant
(`NativeChip::assign_fixed`), or an advice cell assigned outside of the chip (block words). -/
inductive Src where
  | reg (k off col : Nat)
  | const (v : Nat)
  | ext (i : Nat)
  deriving DecidableEq, Repr, Inhabited

/-- One region of the chip. -/
structure Region where
  kind : String
  /-- `(selector, offset)` of every `Selector::enable`. -/
  sels : List (Sel × Nat) := []
  /-- `(lookup index, offset, L)`: `assign_fixed` of the tag cell `T0` / `T1`. -/
  tags : List (Nat × Nat × Nat) := []
  /-- `(logical advice column, offset)` of every assigned advice cell. -/
  advice : List (Nat × Nat) := []
  /-- `(source, logical advice column, offset)` of every `copy_advice`. -/
  copies : List (Src × Nat × Nat) := []
  deriving Repr, Inhabited

namespace Region

/-- `Selector::enable(region, off)`. -/
def enable (s : Sel) (off : Nat) (r : Region) : Region := { r with sels := r.sels ++ [(s, off)] }

/-- `region.assign_advice(_, advice_cols[col], off, _)`. -/
def assignAdvice (col off : Nat) (r : Region) : Region := { r with advice := r.advice ++ [(col, off)] }

/-- `src.copy_advice(_, region, advice_cols[col], off)`: assigns the cell and constrains it equal
to the source. -/
def copyAdvice (src : Src) (col off : Nat) (r : Region) : Region :=
  { r with advice := r.advice ++ [(col, off)], copies := r.copies ++ [(src, col, off)] }

/-- `sha256_chip.rs: fn assign_plain_and_spreaded::<L>(region, _, offset, lookup_idx)`: enables
`q_lookup`, writes the tag `L` in `T_idx` and assigns the plain / spreaded cells
`A_{2·idx}`, `A_{2·idx+1}`. -/
def assignTag (li off L : Nat) (r : Region) : Region := { r with tags := r.tags ++ [(li, off, L)] }

def aps (L off li : Nat) (r : Region) : Region :=
  r.enable .lookup off |>.assignTag li off L |>.assignAdvice (2 * li) off |>.assignAdvice (2 * li + 1) off

/-- `sha256_chip.rs: fn assign_sprdd_11_11_10(region, _, parity, offset)`; `odd = true` is
`Parity::Odd` (the returned 32-bit word, in `A4` at `offset`, is the odd part). -/
def sprdd111110 (odd : Bool) (off : Nat) (r : Region) : Region :=
  let idx := if odd then 1 else 0
  r.enable .d11 (off + 1)
    |>.aps 11 off idx |>.aps 11 (off + 1) idx |>.aps 10 (off + 2) idx
    |>.aps 11 off (1 - idx) |>.aps 11 (off + 1) (1 - idx) |>.aps 10 (off + 2) (1 - idx)
    |>.assignAdvice 4 off

/-- `sha256_chip.rs: fn assign_add_mod_2_32(region, summands, zero)` on the seven (already
padded) summands. -/
def addMod (s0 s1 s2 s3 s4 s5 s6 : Src) (r : Region) : Region :=
  r.enable .add 1
    |>.copyAdvice s0 5 0 |>.copyAdvice s1 6 0 |>.copyAdvice s2 5 1 |>.copyAdvice s3 6 1
    |>.copyAdvice s4 4 2 |>.copyAdvice s5 5 2 |>.copyAdvice s6 6 2
    |>.aps 3 2 1
    |>.assignAdvice 4 0

end Region

/-- The fixed zero every `prepare_*` pads its summands with. -/
def zero : Src := .const 0

/-- `MASK_EVN_64` (`sha256/utils.rs`). -/
def maskEvn64 : Nat := 0x5555555555555555

/-- `sha256/utils.rs: fn spread(x: u32) -> u64`. -/
def spread32 (x : Nat) : Nat := spreadFuel 32 x

/-! ## Assigned types (`sha256/types.rs`) as cell references -/

/-- `AssignedPlainSpreaded<F, 32>`. -/
structure PS where
  plain : Src
  sprd : Src
  deriving Repr, Inhabited

/-- `LimbsOfA`. -/
structure ARefs where
  plain : Src
  sprd : Src
  l10 : Src
  l09 : Src
  l11 : Src
  l02 : Src
  deriving Repr, Inhabited

/-- `LimbsOfE`. -/
structure ERefs where
  plain : Src
  sprd : Src
  l07 : Src
  l12 : Src
  l02 : Src
  l05 : Src
  l06 : Src
  deriving Repr, Inhabited

/-- `AssignedMessageWord`. -/
structure WRefs where
  plain : Src
  w12 : Src
  w1a : Src
  w1b : Src
  w1c : Src
  w07 : Src
  w3a : Src
  w04 : Src
  w3b : Src
  deriving Repr, Inhabited

/-- `CompressionState`. -/
structure StRefs where
  a : ARefs
  b : PS
  c : PS
  d : Src
  e : ERefs
  f : PS
  g : PS
  h : Src
  deriving Repr, Inhabited

/-- `sha256/utils.rs: fn u32_in_be_limbs(value, limb_lengths)`. -/
def beLimbsAux (v : Nat) : Nat → List Nat → List Nat
  | _, [] => []
  | shift, len :: t => (v / 2 ^ (shift - len) % 2 ^ len) :: beLimbsAux v (shift - len) t

def u32InBeLimbs (v : Nat) (lens : List Nat) : List Nat := beLimbsAux v 32 lens

/-- `AssignedPlainSpreaded::fixed`. -/
def PS.fixed (c : Nat) : PS := { plain := .const c, sprd := .const (spread32 c) }

/-- `LimbsOfA::fixed`. -/
def ARefs.fixed (c : Nat) : ARefs :=
  let l := u32InBeLimbs c [10, 9, 11, 2]
  { plain := .const c, sprd := .const (spread32 c), l10 := .const (spread32 (l.getD 0 0)),
    l09 := .const (spread32 (l.getD 1 0)), l11 := .const (spread32 (l.getD 2 0)),
    l02 := .const (spread32 (l.getD 3 0)) }

/-- `LimbsOfE::fixed`. -/
def ERefs.fixed (c : Nat) : ERefs :=
  let l := u32InBeLimbs c [7, 12, 2, 5, 6]
  { plain := .const c, sprd := .const (spread32 c), l07 := .const (spread32 (l.getD 0 0)),
    l12 := .const (spread32 (l.getD 1 0)), l02 := .const (spread32 (l.getD 2 0)),
    l05 := .const (spread32 (l.getD 3 0)), l06 := .const (spread32 (l.getD 4 0)) }

/-- `CompressionState::fixed`. -/
def StRefs.fixed (iv : List Nat) : StRefs :=
  { a := ARefs.fixed (iv.getD 0 0), b := PS.fixed (iv.getD 1 0), c := PS.fixed (iv.getD 2 0),
    d := .const (iv.getD 3 0), e := ERefs.fixed (iv.getD 4 0), f := PS.fixed (iv.getD 5 0),
    g := PS.fixed (iv.getD 6 0), h := .const (iv.getD 7 0) }

/-- `CompressionState::plain`. -/
def StRefs.plain (s : StRefs) : List Src :=
  [s.a.plain, s.b.plain, s.c.plain, s.d, s.e.plain, s.f.plain, s.g.plain, s.h]

/-! ## The operations of the chip: one region each. `k` is the index the region gets. -/

/-- `sha256_chip.rs: fn maj`. Output: `Odd` in `A4` at offset 0. -/
def maj (k : Nat) (sA sB sC : Src) : Region × Src :=
  (({ kind := "maj" } : Region).enable .maj 1
    |>.copyAdvice sA 5 0 |>.copyAdvice sB 6 0 |>.copyAdvice sC 5 1
    |>.sprdd111110 true 0,
   .reg k 0 4)

/-- `sha256_chip.rs: fn ch`. Output: `Ret` in `A6` at offset 1. -/
def ch (k : Nat) (sE sF sG : Src) : Region × Src :=
  (({ kind := "ch" } : Region).enable .halfch 1 |>.enable .halfch 4
    |>.copyAdvice sE 5 0 |>.copyAdvice sE 4 4
    |>.copyAdvice sF 6 0 |>.copyAdvice sG 6 3
    |>.assignAdvice 5 3 |>.copyAdvice (.reg k 3 5) 5 4
    |>.copyAdvice (.const maskEvn64) 6 4
    |>.sprdd111110 true 0 |>.copyAdvice (.reg k 0 4) 4 1
    |>.sprdd111110 true 3 |>.copyAdvice (.reg k 3 4) 5 1
    |>.assignAdvice 6 1,
   .reg k 1 6)

/-- `sha256_chip.rs: fn Sigma_0`. Output: `Evn` in `A4` at offset 0. -/
def Sigma0 (k : Nat) (a : ARefs) : Region × Src :=
  (({ kind := "Sig0" } : Region).enable .Sig0 1
    |>.copyAdvice a.l10 5 0 |>.copyAdvice a.l09 6 0 |>.copyAdvice a.l11 5 1 |>.copyAdvice a.l02 6 1
    |>.sprdd111110 false 0,
   .reg k 0 4)

/-- `sha256_chip.rs: fn Sigma_1`. -/
def Sigma1 (k : Nat) (e : ERefs) : Region × Src :=
  (({ kind := "Sig1" } : Region).enable .Sig1 1
    |>.copyAdvice e.l07 5 0 |>.copyAdvice e.l12 6 0 |>.copyAdvice e.l02 5 1 |>.copyAdvice e.l05 6 1
    |>.copyAdvice e.l06 5 2
    |>.sprdd111110 false 0,
   .reg k 0 4)

/-- The eight `copy_advice` calls shared by `fn sigma_0` and `fn sigma_1`. -/
def copyW (w : WRefs) (r : Region) : Region :=
  r.copyAdvice w.w12 5 0 |>.copyAdvice w.w1a 6 0 |>.copyAdvice w.w1b 4 1 |>.copyAdvice w.w1c 5 1
    |>.copyAdvice w.w07 6 1 |>.copyAdvice w.w3a 4 2 |>.copyAdvice w.w04 5 2 |>.copyAdvice w.w3b 6 2

/-- `sha256_chip.rs: fn sigma_0`. -/
def sigma0 (k : Nat) (w : WRefs) : Region × Src :=
  (copyW w (({ kind := "sig0" } : Region).enable .sig0 1) |>.sprdd111110 false 0, .reg k 0 4)

/-- `sha256_chip.rs: fn sigma_1`. -/
def sigma1 (k : Nat) (w : WRefs) : Region × Src :=
  (copyW w (({ kind := "sig1" } : Region).enable .sig1 1) |>.sprdd111110 false 0, .reg k 0 4)

/-- The `i`-th of the seven summands after `summands.resize(7, zero)`. -/
def summand (ss : List Src) (i : Nat) : Src := ss.getD i zero

/-- `sha256_chip.rs: fn prepare_A`. -/
def prepareA (k : Nat) (ss : List Src) : Region × ARefs :=
  (({ kind := "prepA" } : Region).enable .dA 1
    |>.addMod (summand ss 0) (summand ss 1) (summand ss 2) (summand ss 3) (summand ss 4) (summand ss 5)
      (summand ss 6)
    |>.assignAdvice 4 1
    |>.aps 10 0 0 |>.aps 9 0 1 |>.aps 11 1 0 |>.aps 2 1 1 |>.aps 0 2 0,
   { plain := .reg k 0 4, sprd := .reg k 1 4, l10 := .reg k 0 1, l09 := .reg k 0 3, l11 := .reg k 1 1,
     l02 := .reg k 1 3 })

/-- `sha256_chip.rs: fn prepare_E`. -/
def prepareE (k : Nat) (ss : List Src) : Region × ERefs :=
  (({ kind := "prepE" } : Region).enable .dE 1
    |>.addMod (summand ss 0) (summand ss 1) (summand ss 2) (summand ss 3) (summand ss 4) (summand ss 5)
      (summand ss 6)
    |>.assignAdvice 4 1
    |>.aps 7 0 0 |>.aps 12 0 1 |>.aps 2 1 0 |>.aps 5 1 1 |>.aps 6 2 0,
   { plain := .reg k 0 4, sprd := .reg k 1 4, l07 := .reg k 0 1, l12 := .reg k 0 3, l02 := .reg k 1 1,
     l05 := .reg k 1 3, l06 := .reg k 2 1 })

/-- `sha256_chip.rs: fn prepare_message_word`. -/
def prepareW (k : Nat) (ss : List Src) : Region × WRefs :=
  (({ kind := "prepW" } : Region).enable .dW 1
    |>.addMod (summand ss 0) (summand ss 1) (summand ss 2) (summand ss 3) (summand ss 4) (summand ss 5)
      (summand ss 6)
    |>.aps 12 0 0 |>.aps 7 0 1 |>.aps 3 1 0 |>.aps 4 1 1 |>.aps 3 2 0
    |>.assignAdvice 7 0 |>.assignAdvice 7 1 |>.assignAdvice 7 2,
   { plain := .reg k 0 4, w12 := .reg k 0 1, w1a := .reg k 0 7, w1b := .reg k 1 7, w1c := .reg k 2 7,
     w07 := .reg k 0 3, w3a := .reg k 1 1, w04 := .reg k 1 3, w3b := .reg k 2 1 })

/-! ## Compression round, message schedule, block, digest -/

/-- `sha256_chip.rs: fn compression_round`: six regions `k … k+5`
(`Σ₀(a)`, `Maj(a,b,c)`, `Σ₁(e)`, `Ch(e,f,g)`, `prepare_A`, `prepare_E`). -/
def compressionRound (k : Nat) (st : StRefs) (roundK : Nat) (w : Src) : List Region × StRefs :=
  let rk : Src := .const roundK
  let s0 := Sigma0 k st.a
  let mj := maj (k + 1) st.a.sprd st.b.sprd st.c.sprd
  let s1 := Sigma1 (k + 2) st.e
  let c := ch (k + 3) st.e.sprd st.f.sprd st.g.sprd
  let na := prepareA (k + 4) [st.h, s1.2, c.2, rk, w, s0.2, mj.2]
  let ne := prepareE (k + 5) [st.d, st.h, s1.2, c.2, rk, w]
  ([s0.1, mj.1, s1.1, c.1, na.1, ne.1],
   { a := na.2, b := ⟨st.a.plain, st.a.sprd⟩, c := st.b, d := st.c.plain,
     e := ne.2, f := ⟨st.e.plain, st.e.sprd⟩, g := st.f, h := st.g.plain })

/-- The 64 rounds of `fn sha256` (`for i in 0..64`), `n` of them starting at round `t`. -/
def roundsEmit (ks : List Nat) (ws : List Src) : Nat → Nat → Nat → StRefs → List Region × StRefs
  | 0, _, _, st => ([], st)
  | n + 1, t, k, st =>
    let r := compressionRound k st (ks.getD t 0) (ws.getD t zero)
    let rest := roundsEmit ks ws n (t + 1) (k + 6) r.2
    (r.1 ++ rest.1, rest.2)

/-- First loop of `fn message_schedule`: `prepare_message_word(&[block[i]])` for the 16 block
words. -/
def scheduleHead : Nat → List Src → List Region × List WRefs
  | _, [] => ([], [])
  | k, b :: t =>
    let w := prepareW k [b]
    let rest := scheduleHead (k + 1) t
    (w.1 :: rest.1, w.2 :: rest.2)

/-- Second loop of `fn message_schedule` (`for word_idx in 16..64`): three regions per word
(`σ₀(W[i-15])`, `σ₁(W[i-2])`, `prepare_message_word([W[i-16], W[i-7], σ₀, σ₁])`). -/
def scheduleTail : Nat → Nat → List WRefs → List Region × List WRefs
  | 0, _, ws => ([], ws)
  | n + 1, k, ws =>
    let i := ws.length
    let s0 := sigma0 k (ws.getD (i - 15) default)
    let s1 := sigma1 (k + 1) (ws.getD (i - 2) default)
    let w := prepareW (k + 2) [(ws.getD (i - 16) default).plain, (ws.getD (i - 7) default).plain, s0.2, s1.2]
    let rest := scheduleTail n (k + 3) (ws ++ [w.2])
    (s0.1 :: s1.1 :: w.1 :: rest.1, rest.2)

/-- `sha256_chip.rs: fn message_schedule`. -/
def messageSchedule (k : Nat) (block : List Src) : List Region × List WRefs :=
  let h := scheduleHead k block
  let t := scheduleTail 48 (k + block.length) h.2
  (h.1 ++ t.1, t.2)

/-- `CompressionState::add`: four `prepare_A`, four `prepare_E`. -/
def stateAdd (k : Nat) (s o : StRefs) : List Region × StRefs :=
  let a := prepareA k [s.a.plain, o.a.plain]
  let b := prepareA (k + 1) [s.b.plain, o.b.plain]
  let c := prepareA (k + 2) [s.c.plain, o.c.plain]
  let d := prepareA (k + 3) [s.d, o.d]
  let e := prepareE (k + 4) [s.e.plain, o.e.plain]
  let f := prepareE (k + 5) [s.f.plain, o.f.plain]
  let g := prepareE (k + 6) [s.g.plain, o.g.plain]
  let h := prepareE (k + 7) [s.h, o.h]
  ([a.1, b.1, c.1, d.1, e.1, f.1, g.1, h.1],
   { a := a.2, b := ⟨b.2.plain, b.2.sprd⟩, c := ⟨c.2.plain, c.2.sprd⟩, d := d.2.plain,
     e := e.2, f := ⟨f.2.plain, f.2.sprd⟩, g := ⟨g.2.plain, g.2.sprd⟩, h := h.2.plain })

/-- Number of regions of one block. -/
def regionsPerBlock : Nat := 16 + 3 * 48 + 6 * 64 + 8

/-- The body of the `for block_bytes in …` loop of `fn sha256` on the 16 block words. -/
def blockEmit (ks : List Nat) (k : Nat) (st : StRefs) (block : List Src) : List Region × StRefs :=
  let ms := messageSchedule k block
  let k1 := k + block.length + 3 * 48
  let rd := roundsEmit ks (ms.2.map (·.plain)) 64 0 k1 st
  let ad := stateAdd (k1 + 6 * 64) st rd.2
  (ms.1 ++ rd.1 ++ ad.1, ad.2)

/-- The block words of block `b`: external cells `16·b … 16·b + 15`
(`block_from_bytes` assigns them outside of the chip, in this order). -/
def blockWords (b : Nat) : List Src := (List.range 16).map (fun i => Src.ext (16 * b + i))

/-- `n` blocks starting with block `b`. -/
def blocksEmit (ks : List Nat) : Nat → Nat → Nat → StRefs → List Region × StRefs
  | 0, _, _, st => ([], st)
  | n + 1, b, k, st =>
    let r := blockEmit ks k st (blockWords b)
    let rest := blocksEmit ks n (b + 1) (k + regionsPerBlock) r.2
    (r.1 ++ rest.1, rest.2)

/-- `sha256_chip.rs: fn sha256` on a padded message of `n` blocks: all chip regions in synthesis
order and the final state. -/
def emit (ks iv : List Nat) (n : Nat) : List Region × StRefs :=
  blocksEmit ks n 0 0 (StRefs.fixed iv)

/-! ## Canonical text of a region (compared with the recorded real synthesis) -/

def hexDigitC (n : Nat) : Char :=
  if n < 10 then Char.ofNat (48 + n) else Char.ofNat (87 + n)

def toHexFuel : Nat → Nat → List Char → List Char
  | 0, _, acc => acc
  | f + 1, n, acc => if n < 16 then hexDigitC n :: acc else toHexFuel f (n / 16) (hexDigitC (n % 16) :: acc)

def hex (n : Nat) : String := "0x" ++ String.ofList (toHexFuel 80 n [])

/-- Insertion sort (small lists). -/
def insertBy {α : Type} (lt : α → α → Bool) (x : α) : List α → List α
  | [] => [x]
  | y :: t => if lt y x then y :: insertBy lt x t else x :: y :: t

def sortBy {α : Type} (lt : α → α → Bool) (l : List α) : List α := l.foldl (fun acc x => insertBy lt x acc) []

def dedupAdj {α : Type} [BEq α] : List α → List α
  | [] => []
  | [x] => [x]
  | x :: y :: t => if x == y then dedupAdj (y :: t) else x :: dedupAdj (y :: t)

def joinC (l : List String) : String := if l.isEmpty then "-" else ",".intercalate l

def Src.render (advCols : List Nat) : Src → String
  | .reg k off col => s!"R{k}.{off}.{advCols.getD col 99}"
  | .const v => "K" ++ hex v
  | .ext i => s!"X{i}"

def ltPair (a b : Nat × Nat) : Bool := a.1 < b.1 || (a.1 == b.1 && a.2 < b.2)

/-- `<kind> s:<sel>@<off>,… f:<fixed col>@<off>=<tag>,… a:<col>@<off>,… c:<src>><col>@<off>,…`
with real column indices, every list sorted by (offset, column / name) and de-duplicated. -/
def Region.render (advCols fixedCols : List Nat) (r : Region) : String :=
  let sels := dedupAdj (sortBy (fun (a b : Nat × String) => a.1 < b.1 || (a.1 == b.1 && a.2 < b.2))
    (r.sels.map (fun so => (so.2, so.1.name))))
  let tags := dedupAdj (sortBy (fun (a b : (Nat × Nat) × Nat) => ltPair a.1 b.1 || (a.1 == b.1 && a.2 < b.2))
    (r.tags.map (fun t => ((t.2.1, fixedCols.getD t.1 99), t.2.2))))
  let advs := dedupAdj (sortBy ltPair (r.advice.map (fun c => (c.2, advCols.getD c.1 99))))
  let cps := dedupAdj (sortBy (fun (a b : (Nat × Nat) × String) => ltPair a.1 b.1 || (a.1 == b.1 && a.2 < b.2))
    (r.copies.map (fun c => ((c.2.2, advCols.getD c.2.1 99), c.1.render advCols))))
  s!"{r.kind} s:{joinC (sels.map (fun s => s!"{s.2}@{s.1}"))} f:{joinC (tags.map (fun t => s!"{t.1.2}@{t.1.1}={hex t.2}"))} a:{joinC (advs.map (fun c => s!"{c.2}@{c.1}"))} c:{joinC (cps.map (fun c => s!"{c.2}>{c.1.2}@{c.1.1}"))}"

/-! ## The plain-spreaded table (`sha256/utils.rs: fn gen_spread_table`) -/

/-- `(tag, [(plain, spreaded)])` groups in table order: the disabled-lookup row `(0, 0, 0)`, then
for every `len` of `LOOKUP_LENGTHS` the rows `(len, i, spread(i))`, `i < 2^len`. -/
def spreadTable (lengths : List Nat) : List (Nat × List (Nat × Nat)) :=
  (0, [(0, 0)]) :: lengths.map (fun len => (len, (List.range (2 ^ len)).map (fun i => (i, spread32 i))))

/-! ## Satisfaction -/

/-- An assignment: the value (canonical representative `< p`) of every advice cell. -/
abbrev Asg := Src → Nat

/-- Value of a copy source: a fixed cell holds its constant. -/
def get (a : Asg) : Src → Nat
  | .const v => v
  | s => a s

/-- What a gate enabled at offset `o` of region `k` sees. -/
def rowEnv (a : Asg) (k o : Nat) : Nat → Int → Int :=
  fun c rot => (a (.reg k (Int.toNat ((o : Int) + rot)) c) : Int)

/-- The tag cell `T_li` at offset `o` (unassigned fixed cells are `0`). -/
def tagAt (r : Region) (li o : Nat) : Nat :=
  match r.tags.find? (fun t => t.1 == li && t.2.1 == o) with
  | some t => t.2.2
  | none => 0

/-- `(tag, plain, spreaded)` is a row of the plain-spreaded table (as far as soundness needs:
the plain value has `tag` bits and the other value is its spread). -/
def InTable (t x s : Nat) : Prop := x < 2 ^ t ∧ s = spreadFuel t x

/-- Region `k` is satisfied by the assignment `a`: every polynomial of every enabled gate vanishes
modulo `p` on its row, both lookups hold on every `q_lookup` row, every copy constraint holds. -/
structure Sat (p : Nat) (G : Sel → List Expr) (a : Asg) (k : Nat) (r : Region) : Prop where
  gate : ∀ so ∈ r.sels, ∀ e ∈ G so.1, e.eval (rowEnv a k so.2) % (p : Int) = 0
  look : ∀ so ∈ r.sels, so.1 = .lookup → ∀ li, li < 2 →
    InTable (tagAt r li so.2) (a (.reg k so.2 (2 * li))) (a (.reg k so.2 (2 * li + 1)))
  copy : ∀ c ∈ r.copies, a (.reg k c.2.2 c.2.1) = get a c.1

/-- Executable form of `InTable`. -/
def inTableB (t x s : Nat) : Bool := decide (x < 2 ^ t) && (s == spreadFuel t x)

/-- Executable form of `Sat` (sound: `satB_sound`): used to check that the witness of the REAL honest
prover satisfies the model's notion of satisfaction, region by region. Returns the list of failed
checks (`[]` = satisfied). -/
def satFailures (p : Nat) (G : Sel → List Expr) (a : Asg) (k : Nat) (r : Region) : List String :=
  (r.sels.flatMap (fun so =>
    ((G so.1).zipIdx.filter (fun ei => ei.1.eval (rowEnv a k so.2) % (p : Int) != 0)).map
      (fun ei => s!"gate:{so.1.name}@{so.2}#{ei.2}"))) ++
  (r.sels.flatMap (fun so =>
    if so.1 == .lookup then
      ((List.range 2).filter (fun li =>
        !inTableB (tagAt r li so.2) (a (.reg k so.2 (2 * li))) (a (.reg k so.2 (2 * li + 1))))).map
        (fun li => s!"lookup{li}@{so.2}")
    else [])) ++
  ((r.copies.filter (fun c => a (.reg k c.2.2 c.2.1) != get a c.1)).map (fun c => s!"copy:{c.2.1}@{c.2.2}"))

def satB (p : Nat) (G : Sel → List Expr) (a : Asg) (k : Nat) (r : Region) : Bool :=
  r.sels.all (fun so => (G so.1).all (fun e => e.eval (rowEnv a k so.2) % (p : Int) == 0)) &&
  r.sels.all (fun so => so.1 != .lookup ||
    (inTableB (tagAt r 0 so.2) (a (.reg k so.2 0)) (a (.reg k so.2 1)) &&
     inTableB (tagAt r 1 so.2) (a (.reg k so.2 2)) (a (.reg k so.2 3)))) &&
  r.copies.all (fun c => a (.reg k c.2.2 c.2.1) == get a c.1)

/-- Regions `k, k+1, …` are satisfied. -/
def TraceSat (p : Nat) (G : Sel → List Expr) (a : Asg) : Nat → List Region → Prop
  | _, [] => True
  | k, r :: rs => Sat p G a k r ∧ TraceSat p G a (k + 1) rs

end MidnightZK.C07.Chip
