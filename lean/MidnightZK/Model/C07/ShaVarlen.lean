import MidnightZK.Model.C07.Sha2
/-!
# C07 — value-level model of `sha256_varlen.rs`

Which 64-byte blocks the variable-length SHA-256 gadget feeds to the compression function, for a
buffer of `M` cells (payload right-aligned on 64-byte chunks, unused cells arbitrary) and the length
`len`: `final_block_len`, `merge_chunks`, `insert_in_array`, `compute_padding` and the conditional
update loop of `sha256_varlen`. Polymorphic in the cell type so that the same functions run on
bytes (driver) and on position tags (structural theorem). Import-free.
-/
namespace MidnightZK.C07

section
variable {α : Type}

/-- `merge_chunks`: the first `len` cells of `c1`, then the cells of `c2` (`first_chunk` is switched
off at index `len`; never if `len ≥ L`). -/
def mergeChunks (c1 c2 : List α) (d : α) (len : Nat) : List α :=
  (List.range c1.length).map (fun i => if i < len then c1.getD i d else c2.getD i d)

/-- `insert_in_array`: put `elem` at position `idx` (no change if `idx` is out of range). -/
def insertInArray (arr : List α) (d : α) (idx : Nat) (elem : α) : List α :=
  (List.range arr.length).map (fun i => if i = idx then elem else arr.getD i d)

/-- `final_block_len`: `(final_block_len, extra_block)`. -/
def finalBlockLen (len : Nat) : Nat × Bool :=
  let fb := len % 64
  let full := xor (decide (len = 0)) (decide (fb = 0))
  let fbl := if full then 64 else fb
  (fbl, !(decide (fbl < 56)))

/-- `compute_padding`: the two last blocks (128 cells). `zero`, `one` are the constant cells `0x00`,
`0x80`; `lenBytes` the 8 big-endian bytes of `8·len`. -/
def computePadding (zero one : α) (lenBytes : List α) (fbl : Nat) (extra : Bool) (finalChunk : List α) :
    List α :=
  let block1 := mergeChunks finalChunk (List.replicate 64 zero) zero fbl
  let condLen := fbl * (if extra then 0 else 1)
  let block2 := mergeChunks (finalChunk.take 56) (List.replicate 56 zero) zero condLen
  let padding := block1 ++ block2 ++ lenBytes
  -- idx = final_chunk_len + 64 * not_extra - 56 (never negative: extra ⇒ fbl ≥ 56)
  let idx := fbl + (if extra then 0 else 64) - 56
  padding.take 56 ++ insertInArray ((padding.drop 56).take 64) zero idx one ++ padding.drop 120

/-- The blocks the gadget compresses, in order: the buffer chunks from the first payload chunk up to
the one before last (conditional updates with `updating`), `final_block_1` if an extra block is
needed, `final_block_2` always. -/
def varlenBlocks (zero one : α) (lenBytes : Nat → List α) (M : Nat) (buffer : List α) (len : Nat) :
    List (List α) :=
  let (fbl, extra) := finalBlockLen len
  let roundedLen := if fbl = 0 then len - fbl else len - fbl + 64
  let nb := M / 64
  let step : (List (List α) × Bool) → Nat → (List (List α) × Bool) := fun (acc, updating) i =>
    let b := decide (roundedLen = M - i * 64)
    let updating := xor b updating
    (if updating then acc ++ [(buffer.drop (i * 64)).take 64] else acc, updating)
  let pre := ((List.range (nb - 1)).foldl step ([], false)).1
  let finalChunk := (buffer.drop ((nb - 1) * 64)).take 64
  let padding := computePadding zero one (lenBytes len) fbl extra finalChunk
  pre ++ (if extra then [padding.take 64] else []) ++ [padding.drop 64]

end

/-- The digest computed by the gadget (bytes): compress `varlenBlocks` from the IV. -/
def sha256Varlen (P : Sha2) (M : Nat) (buffer : List Nat) (len : Nat) : List Nat :=
  let blocks := varlenBlocks 0 0x80 (fun l => beBytes 8 (8 * l)) M buffer len
  let h := blocks.foldl P.compress P.iv
  (h.take P.outWords).flatMap (beBytes P.wordBytes)

/-- The buffer of `assign_with_filler` for alignment 64. -/
def byteBuffer {α : Type} (M : Nat) (data : List α) (filler : α) : List α :=
  let finalPad := (64 - data.length % 64) % 64
  let lo := M - data.length - finalPad
  (List.range M).map (fun i => if lo ≤ i ∧ i < lo + data.length then data.getD (i - lo) filler else filler)

/-- Cells of the structural check, as numbers: constant `0x00` ↦ 0, constant `0x80` ↦ 1, length
byte `i` ↦ `10 + i`, filler ↦ 999, payload position `i` ↦ `1000 + i` (all distinct). -/
def tagData (i : Nat) : Nat := 1000 + i
def tagLen (i : Nat) : Nat := 10 + i
def tagFiller : Nat := 999

/-- Structural statement for one `(M, len)`: on position-tagged cells, the blocks the gadget
compresses are exactly the 64-byte blocks of `payload ‖ 0x80 ‖ 0…0 ‖ len64` (FIPS padding). -/
def varlenStructOk (M len : Nat) : Bool :=
  let data := (List.range len).map tagData
  let lenB := (List.range 8).map tagLen
  let blocks := varlenBlocks 0 1 (fun _ => lenB) M (byteBuffer M data tagFiller) len
  let z := (64 - (len + 1 + 8) % 64) % 64
  let padded := data ++ [1] ++ List.replicate z 0 ++ lenB
  (blocks.flatten == padded) && blocks.all (fun b => b.length == 64)

end MidnightZK.C07
