import MidnightZK.Model.C07.Poseidon
/-!
# C07 — `poseidon_varlen.rs: fn constrain_last_chunk` as the loop the code runs

`varlenStep` (in `Poseidon.lean`) uses the closed form "cells `j ≥ offset` are zero when `offset ≠ 0`".
This file mirrors the loop literally (`after_data ^= (offset == i)`, `elem = select(after_data, 0, elem)`
for `i = 1 … RATE-1`; cell 0 is never touched); `Proofs/C07/VarlenTail.lean` proves that both agree for
every chunk length and every offset. Import-free.
-/
namespace MidnightZK.C07

section
variable {F : Type} [Zero F]

/-- The loop body of `constrain_last_chunk` from index `i` on, `after` = `after_data` so far. -/
def clcAux (offset : Nat) : Nat → Bool → List F → List F
  | _, _, [] => []
  | i, after, x :: t =>
    let after' := xor (decide (offset = i)) after
    (if after' then 0 else x) :: clcAux offset (i + 1) after' t

/-- `poseidon_varlen.rs: fn constrain_last_chunk(chunk, offset)` at value level
(`chunk.iter_mut().enumerate().skip(1)`: the first cell is returned unchanged). -/
def constrainLastChunk (chunk : List F) (offset : Nat) : List F :=
  match chunk with
  | [] => []
  | x :: t => x :: clcAux offset 1 false t

end

section
variable {F : Type} [Zero F] [One F] [Add F] [Mul F]

/-- `varlenStep` with the last chunk going through the literal loop `constrainLastChunk` (what the driver
runs for the `varlen` requests, so that the loop itself is compared with the real circuit). -/
def varlenStepLoop (P : PParams F) (perm : List F → List F) (maxLen : Nat) (buffer : List F) (len : Nat)
    (s : List F × Bool) (i : Nat) : List F × Bool :=
  let rate := P.rate
  let lastChunkLen := len % rate
  let roundedLen := if lastChunkLen = 0 then len - lastChunkLen else len - lastChunkLen + rate
  let b := decide (roundedLen = maxLen - i * rate)
  let updating := xor b s.2
  let chunk := vec rate (fun j => buffer.getD (i * rate + j) 0)
  let chunk := if i + 1 = maxLen / rate then constrainLastChunk chunk lastChunkLen else chunk
  let upd := perm (vec P.width (fun j => if j < rate then s.1.getD j 0 + chunk.getD j 0 else s.1.getD j 0))
  (if updating then upd else s.1, updating)

/-- `poseidon_varlen` with the literal `constrain_last_chunk` loop. -/
def varlenLoop (P : PParams F) (ofNat : Nat → F) (perm : List F → List F) (maxLen : Nat)
    (buffer : List F) (len : Nat) : F :=
  let reg0 := vec P.width (fun i => if i = P.rate then ofNat len else 0)
  let nChunks := (maxLen + P.rate - 1) / P.rate
  ((List.range nChunks).foldl (varlenStepLoop P perm maxLen buffer len) (reg0, false)).1.getD 0 0

end

end MidnightZK.C07
