import MidnightZK.Model.C07.ShaChip
/-!
# C07 — the SHA-512 chip as an emitter of regions (`circuits/src/hash/sha512/sha512_chip.rs`)

Same region model as `ShaChip.lean` (`Src`, `Region`, the `Region` builder calls); every function
mirrors the Rust function of the same name of `sha512_chip.rs` and performs the same `Region` calls
in the same order. The selectors are named by their role: `d11` is `q_13x4_12` (limb decomposition of
the returned even/odd word), `dA` / `dE` / `dW` the three operand decompositions, `add` is
`q_add_mod_2_64`. The output (`emit n`, rendered) is compared line by line with the recorded real
synthesis of the SHA-512 chip (696 regions per block). The soundness theorems over this emitter and the
gate polynomials dumped from the real `Sha512Chip::configure` (`Gen/C07Sha512Gates.lean`) are in
`Proofs/C07/Chip512*.lean` (`sha512_ops_sound` … `sha512_digest_sound` in `Props/C07.lean`).
-/
namespace MidnightZK.C07.Chip512
open MidnightZK.C07 MidnightZK.C07.Chip

/-- `MASK_EVN_128` (`sha512/utils.rs`). -/
def maskEvn128 : Nat := 0x55555555555555555555555555555555

/-- `sha512/utils.rs: fn spread(x: u64) -> u128`. -/
def spread64 (x : Nat) : Nat := spreadFuel 64 x

/-- `sha512/utils.rs: fn u64_in_be_limbs`. -/
def u64InBeLimbs (v : Nat) (lens : List Nat) : List Nat := beLimbsAux v 64 lens

/-- `LimbsOfA` / `LimbsOfE`: combined plain and spreaded cells and the spreaded limbs (big-endian order
of the Rust struct fields). -/
structure LRefs where
  plain : Src
  sprd : Src
  limbs : List Src
  deriving Repr, Inhabited

/-- `AssignedMessageWord`: `combined_plain` and the ten spreaded limbs in the order
`03a, 13a, 13b, 13c, 03b, 11, 01a, 01b, 05, 01c`. -/
structure WRefs where
  plain : Src
  limbs : List Src
  deriving Repr, Inhabited

/-- `CompressionState`. -/
structure StRefs where
  a : LRefs
  b : PS
  c : PS
  d : Src
  e : LRefs
  f : PS
  g : PS
  h : Src
  deriving Repr, Inhabited

def PS.fixed (c : Nat) : PS := { plain := .const c, sprd := .const (spread64 c) }

/-- `LimbsOfA::fixed` (`lens = [13,12,5,6,13,13,2]`) / `LimbsOfE::fixed` (`[13,10,13,10,4,13,1]`). -/
def LRefs.fixed (lens : List Nat) (c : Nat) : LRefs :=
  { plain := .const c, sprd := .const (spread64 c),
    limbs := (u64InBeLimbs c lens).map (fun l => Src.const (spread64 l)) }

def StRefs.fixed (iv : List Nat) : StRefs :=
  { a := LRefs.fixed [13, 12, 5, 6, 13, 13, 2] (iv.getD 0 0), b := PS.fixed (iv.getD 1 0), c := PS.fixed (iv.getD 2 0),
    d := .const (iv.getD 3 0), e := LRefs.fixed [13, 10, 13, 10, 4, 13, 1] (iv.getD 4 0), f := PS.fixed (iv.getD 5 0),
    g := PS.fixed (iv.getD 6 0), h := .const (iv.getD 7 0) }

def StRefs.plain (s : StRefs) : List Src :=
  [s.a.plain, s.b.plain, s.c.plain, s.d, s.e.plain, s.f.plain, s.g.plain, s.h]

/-- `sha512_chip.rs: fn assign_sprdd_13x4_12(region, _, parity, offset)`. -/
def sprdd13x4_12 (odd : Bool) (off : Nat) (r : Region) : Region :=
  let idx := if odd then 1 else 0
  r.enable .d11 (off + 1)
    |>.aps 13 off idx |>.aps 13 (off + 1) idx |>.aps 13 (off + 2) idx |>.aps 13 (off + 3) idx
    |>.aps 12 (off + 4) idx
    |>.aps 13 off (1 - idx) |>.aps 13 (off + 1) (1 - idx) |>.aps 13 (off + 2) (1 - idx)
    |>.aps 13 (off + 3) (1 - idx) |>.aps 12 (off + 4) (1 - idx)
    |>.assignAdvice 4 off

/-- `sha512_chip.rs: fn assign_add_mod_2_64` (the carry sits in row 3). -/
def addMod (ss : List Src) (r : Region) : Region :=
  r.enable .add 1
    |>.copyAdvice (summand ss 0) 5 0 |>.copyAdvice (summand ss 1) 6 0 |>.copyAdvice (summand ss 2) 5 1
    |>.copyAdvice (summand ss 3) 6 1 |>.copyAdvice (summand ss 4) 4 2 |>.copyAdvice (summand ss 5) 5 2
    |>.copyAdvice (summand ss 6) 6 2
    |>.aps 3 3 1
    |>.assignAdvice 4 0

/-- A sequence of `copy_advice` calls: the `i`-th source into the `i`-th `(column, offset)`. -/
def copyAll : List Src → List (Nat × Nat) → Region → Region
  | s :: ss, (c, o) :: cs, r => copyAll ss cs (r.copyAdvice s c o)
  | _, _, r => r

/-- A sequence of `assign_plain_and_spreaded::<L>(_, _, offset, lookup_idx)` calls. -/
def apsAll : List (Nat × Nat × Nat) → Region → Region
  | (l, o, li) :: t, r => apsAll t (r.aps l o li)
  | [], r => r

/-- `fn maj`. -/
def maj (k : Nat) (sA sB sC : Src) : Region × Src :=
  (({ kind := "maj" } : Region).enable .maj 1
    |>.copyAdvice sA 5 0 |>.copyAdvice sB 6 0 |>.copyAdvice sC 5 1
    |> sprdd13x4_12 true 0,
   .reg k 0 4)

/-- `fn ch` (second half at offset 5). -/
def ch (k : Nat) (sE sF sG : Src) : Region × Src :=
  (({ kind := "ch" } : Region).enable .halfch 1 |>.enable .halfch 6
    |>.copyAdvice sE 5 0 |>.copyAdvice sE 4 6
    |>.copyAdvice sF 6 0 |>.copyAdvice sG 6 5
    |>.assignAdvice 5 5 |>.copyAdvice (.reg k 5 5) 5 6
    |>.copyAdvice (.const maskEvn128) 6 6
    |> sprdd13x4_12 true 0 |>.copyAdvice (.reg k 0 4) 4 1
    |> sprdd13x4_12 true 5 |>.copyAdvice (.reg k 5 4) 5 1
    |>.assignAdvice 6 1,
   .reg k 1 6)

/-- Cells the seven limbs of `A` / `E` are copied to in `fn Sigma_0` / `fn Sigma_1`. -/
def sigmaBigCells : List (Nat × Nat) := [(5, 0), (6, 0), (5, 1), (6, 1), (5, 2), (6, 2), (5, 3)]

/-- `fn Sigma_0`. -/
def Sigma0 (k : Nat) (a : LRefs) : Region × Src :=
  (copyAll a.limbs sigmaBigCells (({ kind := "Sig0" } : Region).enable .Sig0 1) |> sprdd13x4_12 false 0, .reg k 0 4)

/-- `fn Sigma_1`. -/
def Sigma1 (k : Nat) (e : LRefs) : Region × Src :=
  (copyAll e.limbs sigmaBigCells (({ kind := "Sig1" } : Region).enable .Sig1 1) |> sprdd13x4_12 false 0, .reg k 0 4)

/-- Cells the ten limbs of a message word are copied to in `fn sigma_0` / `fn sigma_1`. -/
def sigmaSmallCells : List (Nat × Nat) :=
  [(5, 0), (6, 0), (5, 1), (6, 1), (5, 2), (6, 2), (5, 3), (6, 3), (5, 4), (6, 4)]

/-- `fn sigma_0`. -/
def sigma0 (k : Nat) (w : WRefs) : Region × Src :=
  (copyAll w.limbs sigmaSmallCells (({ kind := "sig0" } : Region).enable .sig0 1) |> sprdd13x4_12 false 0, .reg k 0 4)

/-- `fn sigma_1`. -/
def sigma1 (k : Nat) (w : WRefs) : Region × Src :=
  (copyAll w.limbs sigmaSmallCells (({ kind := "sig1" } : Region).enable .sig1 1) |> sprdd13x4_12 false 0, .reg k 0 4)

/-- `fn prepare_A`: limbs 13a, 12, 05, 06, 13b, 13c, 02. -/
def prepareA (k : Nat) (ss : List Src) : Region × LRefs :=
  (({ kind := "prepA" } : Region).enable .dA 1 |> addMod ss |>.assignAdvice 4 1
    |> apsAll [(13, 0, 0), (12, 0, 1), (5, 1, 0), (6, 1, 1), (13, 2, 0), (13, 2, 1), (2, 3, 0)],
   { plain := .reg k 0 4, sprd := .reg k 1 4,
     limbs := [.reg k 0 1, .reg k 0 3, .reg k 1 1, .reg k 1 3, .reg k 2 1, .reg k 2 3, .reg k 3 1] })

/-- `fn prepare_E`: limbs 13a, 10a, 13b, 10b, 04, 13c, 01. -/
def prepareE (k : Nat) (ss : List Src) : Region × LRefs :=
  (({ kind := "prepE" } : Region).enable .dE 1 |> addMod ss |>.assignAdvice 4 1
    |> apsAll [(13, 0, 0), (10, 0, 1), (13, 1, 0), (10, 1, 1), (4, 2, 0), (13, 2, 1), (1, 3, 0)],
   { plain := .reg k 0 4, sprd := .reg k 1 4,
     limbs := [.reg k 0 1, .reg k 0 3, .reg k 1 1, .reg k 1 3, .reg k 2 1, .reg k 2 3, .reg k 3 1] })

/-- `fn prepare_message_word`: limbs 03a, 13a, 13b, 13c, 03b, 11, 05 through the lookups, the three
1-bit limbs in `A7`. -/
def prepareW (k : Nat) (ss : List Src) : Region × WRefs :=
  (({ kind := "prepW" } : Region).enable .dW 1 |> addMod ss
    |> apsAll [(3, 0, 0), (13, 0, 1), (13, 1, 0), (13, 1, 1), (3, 2, 0), (11, 2, 1), (5, 3, 0)]
    |>.assignAdvice 7 0 |>.assignAdvice 7 1 |>.assignAdvice 7 2,
   { plain := .reg k 0 4,
     limbs := [.reg k 0 1, .reg k 0 3, .reg k 1 1, .reg k 1 3, .reg k 2 1, .reg k 2 3, .reg k 0 7, .reg k 1 7,
       .reg k 3 1, .reg k 2 7] })

/-- `fn compression_round`. -/
def compressionRound (k : Nat) (st : StRefs) (roundK : Nat) (w : Src) : List Region × StRefs :=
  let rk : Src := .const roundK
  let s0 := Sigma0 k st.a
  let mj := maj (k + 1) st.a.sprd st.b.sprd st.c.sprd
  let s1 := Sigma1 (k + 2) st.e
  let c := ch (k + 3) st.e.sprd st.f.sprd st.g.sprd
  let na := prepareA (k + 4) [st.h, s1.2, c.2, rk, w, s0.2, mj.2]
  let ne := prepareE (k + 5) [st.d, st.h, s1.2, c.2, rk, w]
  ([s0.1, mj.1, s1.1, c.1, na.1, ne.1],
   { a := na.2, b := ⟨st.a.plain, st.a.sprd⟩, c := st.b, d := st.c.plain,
     e := ne.2, f := ⟨st.e.plain, st.e.sprd⟩, g := st.f, h := st.g.plain })

def roundsEmit (ks : List Nat) (ws : List Src) : Nat → Nat → Nat → StRefs → List Region × StRefs
  | 0, _, _, st => ([], st)
  | n + 1, t, k, st =>
    let r := compressionRound k st (ks.getD t 0) (ws.getD t zero)
    let rest := roundsEmit ks ws n (t + 1) (k + 6) r.2
    (r.1 ++ rest.1, rest.2)

def scheduleHead : Nat → List Src → List Region × List WRefs
  | _, [] => ([], [])
  | k, b :: t =>
    let w := prepareW k [b]
    let rest := scheduleHead (k + 1) t
    (w.1 :: rest.1, w.2 :: rest.2)

def scheduleTail : Nat → Nat → List WRefs → List Region × List WRefs
  | 0, _, ws => ([], ws)
  | n + 1, k, ws =>
    let i := ws.length
    let s0 := sigma0 k (ws.getD (i - 15) default)
    let s1 := sigma1 (k + 1) (ws.getD (i - 2) default)
    let w := prepareW (k + 2) [(ws.getD (i - 16) default).plain, (ws.getD (i - 7) default).plain, s0.2, s1.2]
    let rest := scheduleTail n (k + 3) (ws ++ [w.2])
    (s0.1 :: s1.1 :: w.1 :: rest.1, rest.2)

/-- `fn message_schedule` (80 words). -/
def messageSchedule (k : Nat) (block : List Src) : List Region × List WRefs :=
  let h := scheduleHead k block
  let t := scheduleTail 64 (k + block.length) h.2
  (h.1 ++ t.1, t.2)

/-- `CompressionState::add`. -/
def stateAdd (k : Nat) (s o : StRefs) : List Region × StRefs :=
  let a := prepareA k [s.a.plain, o.a.plain]
  let b := prepareA (k + 1) [s.b.plain, o.b.plain]
  let c := prepareA (k + 2) [s.c.plain, o.c.plain]
  let d := prepareA (k + 3) [s.d, o.d]
  let e := prepareE (k + 4) [s.e.plain, o.e.plain]
  let f := prepareE (k + 5) [s.f.plain, o.f.plain]
  let g := prepareE (k + 6) [s.g.plain, o.g.plain]
  let h := prepareE (k + 7) [s.h, o.h]
  ([a.1, b.1, c.1, d.1, e.1, f.1, g.1, h.1],
   { a := a.2, b := ⟨b.2.plain, b.2.sprd⟩, c := ⟨c.2.plain, c.2.sprd⟩, d := d.2.plain,
     e := e.2, f := ⟨f.2.plain, f.2.sprd⟩, g := ⟨g.2.plain, g.2.sprd⟩, h := h.2.plain })

def regionsPerBlock : Nat := 16 + 3 * 64 + 6 * 80 + 8

def blockEmit (ks : List Nat) (k : Nat) (st : StRefs) (block : List Src) : List Region × StRefs :=
  let ms := messageSchedule k block
  let k1 := k + block.length + 3 * 64
  let rd := roundsEmit ks (ms.2.map (·.plain)) 80 0 k1 st
  let ad := stateAdd (k1 + 6 * 80) st rd.2
  (ms.1 ++ rd.1 ++ ad.1, ad.2)

def blocksEmit (ks : List Nat) : Nat → Nat → Nat → StRefs → List Region × StRefs
  | 0, _, _, st => ([], st)
  | n + 1, b, k, st =>
    let r := blockEmit ks k st (blockWords b)
    let rest := blocksEmit ks n (b + 1) (k + regionsPerBlock) r.2
    (r.1 ++ rest.1, rest.2)

/-- `sha512_chip.rs: fn sha512` on a padded message of `n` blocks. -/
def emit (ks iv : List Nat) (n : Nat) : List Region × StRefs :=
  blocksEmit ks n 0 0 (StRefs.fixed iv)

/-- `sha512/utils.rs: fn gen_spread_table`. -/
def spreadTable (lengths : List Nat) : List (Nat × List (Nat × Nat)) :=
  (0, [(0, 0)]) :: lengths.map (fun len => (len, (List.range (2 ^ len)).map (fun i => (i, spread64 i))))

end MidnightZK.C07.Chip512
