import MidnightZK.Model.C03.Absorb
/-!
# What enters `VerifyingKey::transcript_repr` (model)

Mirrors `proofs/src/plonk/mod.rs: VerifyingKey::from_parts`: the buffer hashed (BLAKE2b-512 personalised
`Halo2-Verify-Key`, then `F::from_uniform_bytes`) into the transcript representative of a verifying key is

  `VERSION ‖ k as u8 ‖ u32le(#fixed) ‖ fixed commitments ‖ u32le(#perm) ‖ permutation commitments
   ‖ Debug(domain.pinned()) ‖ Debug(cs.pinned())`

with every commitment written by `write(.., RawBytesUnchecked)` = `G1Affine::to_uncompressed` (96 bytes).
The two `Debug` strings are opaque byte strings here (their field lists are regenerated from the source into
`Gen.C03Consts` and checked by `vk_repr_covers_cs`). The order of the components is re-read from the source by the
translator (`Gen.vkInputOrder`) and the model is assembled FROM that list, so a reordering in the code reorders the
model, and the theorems about it are re-checked against the new order.
Import-free.
-/
namespace MidnightZK.C03
open MidnightZK

/-- The parts of a verifying key that `from_parts` serialises. -/
structure VKParts where
  k : Nat
  fixed : List Pt
  perm : List Pt
  /-- `format!("{:?}", vk.get_domain().pinned())` as bytes -/
  domainDbg : List Nat
  /-- `format!("{:?}", vk.cs().pinned())` as bytes -/
  csDbg : List Nat
deriving Repr, Inhabited, DecidableEq

def u32le (n : Nat) : List Nat := natToLeBytes 4 n

/-- `commitment.write(&mut buffer, SerdeFormat::RawBytesUnchecked)` for each commitment. -/
def rawPoints : List Pt → List Nat
  | [] => []
  | p :: t => C16.encodeG1u p ++ rawPoints t

/-- One component of the buffer, by the name the translator gives it. -/
def vkComponent (v : VKParts) : String → List Nat
  | "version" => [Gen.vkVersion]
  | "k" => [v.k % 256]
  | "nfixed" => u32le v.fixed.length
  | "fixed" => rawPoints v.fixed
  | "nperm" => u32le v.perm.length
  | "perm" => rawPoints v.perm
  | "domain" => v.domainDbg
  | "cs" => v.csDbg
  | _ => []

def concatComponents (v : VKParts) : List String → List Nat
  | [] => []
  | c :: t => vkComponent v c ++ concatComponents v t

/-- The buffer hashed into `transcript_repr`, components in the order of the source. -/
def vkHashInput (v : VKParts) : List Nat := concatComponents v Gen.vkInputOrder

end MidnightZK.C03
