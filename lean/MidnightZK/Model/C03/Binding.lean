import MidnightZK.Model.Common
import MidnightZK.Model.ModArith
import MidnightZK.Model.C01.Schedule
/-!
# What the verifier binds: instance absorption, proof layout, scalar decoding (model)

* `instStream` mirrors how `parse_trace` (verifier.rs) absorbs the plain instance columns of one
  proof: for each column its length (as a field element) followed by its values.
* `layout` is the byte layout of a proof implied by the verifier schedule (compressed G1 = 48
  bytes, scalar = 32 bytes), `elementAt` the element covering a byte offset.
* `decodeScalar` mirrors `Fq::from_bytes_le` / `Hashable::read` for scalars
  (`curves/src/bls12_381/fq.rs`, `proofs/src/transcript/implementors.rs`): 32 little-endian
  bytes, accepted iff the integer is below the modulus.
Import-free.
-/
namespace MidnightZK.C03
open MidnightZK MidnightZK.C01

/-- Field elements absorbed for the plain instance columns of one proof. -/
def instStream : List (List Nat) → List Nat
  | [] => []
  | c :: t => c.length :: (c ++ instStream t)

/-- Inverse of `instStream` (fuel = length of the stream). -/
def parseStream : Nat → List Nat → Option (List (List Nat))
  | _, [] => some []
  | 0, _ :: _ => none
  | fuel + 1, len :: rest =>
    if rest.length < len then none
    else (parseStream fuel (rest.drop len)).map fun t => rest.take len :: t

abbrev elemSize : Ty → Nat := elemBytes

/-- Proof elements (in order) with their byte offsets. -/
def layoutAux : List Ev → Nat → List (Nat × Ev)
  | [], _ => []
  | e :: t, off => if e.kind = .elem then (off, e) :: layoutAux t (off + elemSize e.ty) else layoutAux t off

def layout (sh : Shape) (cfg : Cfg) : List (Nat × Ev) := layoutAux (verifierSchedule sh cfg) 0

def totalLen : List Ev → Nat
  | [] => 0
  | e :: t => (if e.kind = .elem then elemSize e.ty else 0) + totalLen t

/-- BLS12-381 scalar field modulus. -/
def rModulus : Nat := 0x73eda753299d7d483339d80809a1d80553bda402fffe5bfeffffffff00000001

/-- Checked scalar decoder: exactly 32 bytes, value below the modulus. -/
def decodeScalar (bytes : List Nat) : Option Nat :=
  if bytes.length = 32 ∧ bytes.all (· < 256) then
    let v := leBytesToNat bytes
    if v < rModulus then some v else none
  else none

def encodeScalar (v : Nat) : List Nat := natToLeBytes 32 v

/-- Classification of a single-element substitution by the stage at which the verifier must
fail: at decoding (`Transcript` error) or at the final checks. -/
inductive Stage | decode | verify
deriving DecidableEq, Repr

end MidnightZK.C03
