import MidnightZK.Model.C03.Binding
import MidnightZK.Model.C16.Points
import MidnightZK.Gen.C03Consts
/-!
# What the transcript hash absorbs, element by element (model)

Mirrors
* `proofs/src/transcript/mod.rs: CircuitTranscript::{common, read, squeeze_challenge, assert_empty}`
  (`common` = `state.absorb(input.to_input())`; `read` = decode from the proof buffer, then `common`);
* `proofs/src/transcript/implementors.rs: impl TranscriptHash for Blake2bState`
  (`absorb` = `update([PREFIX_COMMON]); update(input)`, `squeeze` = `update([PREFIX_CHALLENGE]); finalize()` —
  `finalize` of `blake2b_simd::State` does not consume the state, so the hash of challenge `i` is the hash of
  everything updated so far), `Hashable<Blake2bState> for Fq` (`to_repr`: 32 little-endian bytes) and
  `for G1Projective` (`GroupEncoding::to_bytes`: 48-byte compressed form);
* `circuits/src/hash/poseidon/poseidon_cpu.rs: impl TranscriptHash for PoseidonState` (`init(None)`,
  `SpongeCPU::absorb` = push to the queue and reset `squeeze_position`, `SpongeCPU::squeeze` = pad with the queue
  length, add the queue to the rate part `RATE` elements at a time, permute), `Hashable<PoseidonState<Fq>> for Fq`
  (`vec![self]`) and `for G1Projective` (`AssignedForeignPoint::as_public_input`,
  `circuits/src/ecc/foreign/ecc_chip.rs`: the `NB_LIMBS` base-`2^LOG2_BASE` limbs of `x − 1` and of `y − 1`
  (`circuits/src/field/foreign/field_chip.rs: AssignedField::as_public_input`), the identity being `(0, 0)` with
  `2^LOG2_BASE` added to the first limb);
* `proofs/src/plonk/verifier.rs: parse_trace` for the values that enter at the `absorb` events of the schedule
  (vk representative, committed-instance commitments, length and values of the plain instance columns).
Import-free (core + other models).
-/
namespace MidnightZK.C03
open MidnightZK MidnightZK.C01

abbrev Pt := C16.G1Pt

/-- A transcript element: a scalar (value) or a G1 point. -/
inductive Val
  | F (v : Nat)
  | G (p : Pt)
deriving DecidableEq, Repr, Inhabited

def Val.ty : Val → Ty
  | .F _ => .F
  | .G _ => .G

/-! ## Encodings (`Hashable::to_input`, `Hashable::to_bytes`) -/

/-- `n` little-endian digits of `v` in base `B` (`circuits/src/utils/util.rs: bi_to_limbs`). -/
def toLimbs (B : Nat) : Nat → Nat → List Nat
  | 0, _ => []
  | n + 1, v => (v % B) :: toLimbs B n (v / B)

def fromLimbs (B : Nat) : List Nat → Nat
  | [] => 0
  | l :: t => l + B * fromLimbs B t

def limbBase : Nat := 2 ^ Gen.emLog2Base

/-- `AssignedField::<Fq, Fp, MEP>::as_public_input(x)`: limbs of `x − 1 (mod p)`. -/
def fieldLimbs (x : Nat) : List Nat :=
  toLimbs limbBase Gen.emNbLimbs ((x % Gen.fpModulus + Gen.fpModulus - 1) % Gen.fpModulus)

/-- `AssignedForeignPoint::<Fq, G1Projective, MEP>::as_public_input(p)` = `to_input` under Poseidon. -/
def pointLimbs : Pt → List Nat
  | .aff x y => fieldLimbs x ++ fieldLimbs y
  | .inf =>
    match fieldLimbs 0 ++ fieldLimbs 0 with
    | [] => []
    | l :: t => (l + limbBase) :: t

/-- `Hashable<Blake2bState>::to_input` (= `to_bytes`, the bytes written to the proof). -/
def valBytes : Val → List Nat
  | .F v => encodeScalar v
  | .G p => C16.encodeG1c p

/-- `Hashable<PoseidonState<Fq>>::to_input`. -/
def valFields : Val → List Nat
  | .F v => [v]
  | .G p => pointLimbs p

/-! ## The two hashes -/

/-- Everything `update`d into the transcript BLAKE2b state, in order, for a schedule and the values of its
non-squeeze events (`vals`, in order). -/
def blakeStream : List Ev → List Val → List Nat
  | [], _ => []
  | e :: t, vals =>
    if e.kind = .squeeze then Gen.blakePrefixChallenge :: blakeStream t vals
    else match vals with
      | [] => []
      | v :: vs => Gen.blakePrefixCommon :: (valBytes v ++ blakeStream t vs)

/-- Number of bytes of the stream up to and including the prefix byte of each squeeze (the preimage of
challenge `i` is the stream truncated there). -/
def blakeSqueezeOffsets : List Ev → List Val → Nat → List Nat
  | [], _, _ => []
  | e :: t, vals, off =>
    if e.kind = .squeeze then (off + 1) :: blakeSqueezeOffsets t vals (off + 1)
    else match vals with
      | [] => []
      | v :: vs => blakeSqueezeOffsets t vs (off + 1 + (valBytes v).length)

/-- The blocks the Poseidon sponge absorbs: one per squeeze that finds `squeeze_position = 0`
(queue followed by its length), and at the end the residual queue (never permuted in).
`cur` = queue, `sq` = `squeeze_position`. -/
def poseidonBlocks : List Ev → List Val → List Nat → Nat → List (List Nat)
  | [], _, cur, _ => [cur]
  | e :: t, vals, cur, sq =>
    if e.kind = .squeeze then
      if sq > 0 then poseidonBlocks t vals cur ((sq + 1) % Gen.poseidonRate)
      else (cur ++ [cur.length]) :: poseidonBlocks t vals [] (1 % Gen.poseidonRate)
    else match vals with
      | [] => [cur]
      | v :: vs => poseidonBlocks t vs (cur ++ valFields v) 0

/-! ## The statement side: values of the `absorb` events (`parse_trace`) -/

/-- What the verifier is given besides the proof. -/
structure Stmt where
  /-- `vk.transcript_repr` -/
  vkRepr : Nat
  /-- nb_committed_instances -/
  nCommitted : Nat
  /-- committed-instance commitments, per proof -/
  coms : List (List Pt)
  /-- plain instance columns, per proof -/
  cols : List (List (List Nat))
deriving Repr, Inhabited

/-- The configuration the schedule depends on. -/
def Stmt.cfg (st : Stmt) : Cfg :=
  { nProofs := st.cols.length, nCommitted := st.nCommitted, lens := st.cols.map fun p => p.map List.length }

/-- Value absorbed at an `absorb` event (`parse_trace`: `vk.hash_into`, `common(commitment)`,
`common(F::from_u128(len))`, `common(value)`). -/
def absorbedVal (st : Stmt) : Tag → Option Val
  | .vk => some (.F st.vkRepr)
  | .instCommit p c => ((st.coms.getD p [])[c]?).map .G
  | .instLen p c => ((st.cols.getD p [])[c - st.nCommitted]?).map fun col => .F col.length
  | .instVal p c i => (((st.cols.getD p [])[c - st.nCommitted]?).bind fun col => col[i]?).map .F
  | _ => none

/-- Values of all non-squeeze events of a schedule: statement values at `absorb`, the proof's elements
(in reading order) at `elem`. `none` if the proof has too few / too many elements. -/
def assemble (st : Stmt) : List Ev → List Val → Option (List Val)
  | [], [] => some []
  | [], _ :: _ => none
  | e :: t, pv =>
    match e.kind with
    | .squeeze => assemble st t pv
    | .absorb =>
      match absorbedVal st e.tag with
      | none => none
      | some v => (assemble st t pv).map (v :: ·)
    | .elem =>
      match pv with
      | [] => none
      | v :: vs => (assemble st t vs).map (v :: ·)

/-- The statement side of the stream in closed form: vk representative, then proof by proof the committed-instance
commitments and the length-prefixed plain instance columns (`parse_trace`). The driver checks on every `absorbed`
request that the values at the `absorb` events of the verifier schedule (`absorbVals`) are exactly this list;
`statement_injective` (Props) is about this list. -/
def stmtVals (st : Stmt) : List Val :=
  .F st.vkRepr :: (List.range st.cols.length).flatMap fun p =>
    (st.coms.getD p []).map .G ++ (instStream (st.cols.getD p [])).map .F

/-- Values at the `absorb` events of a schedule, in order. -/
def absorbVals (st : Stmt) : List Ev → Option (List Val)
  | [] => some []
  | e :: t =>
    if e.kind = .absorb then
      match absorbedVal st e.tag with
      | none => none
      | some v => (absorbVals st t).map (v :: ·)
    else absorbVals st t

/-! ## Parsing a proof (`Transcript::read` element by element, then `assert_empty`) -/

/-- All elements are bytes. -/
def isBytes (bs : List Nat) : Bool := bs.all (· < 256)

/-- `G1Projective::from_bytes` / `G1Affine::from_bytes` = `from_compressed` (model of C16). -/
def g1Dec (bs : List Nat) : Option Pt :=
  if isBytes bs then
    match C16.decodeG1c bs with
    | .ok p => some p
    | .error _ => none
  else none

/-- `Hashable::read` for one element with point decoder `decPt`. -/
def decodeElemWith (decPt : List Nat → Option Pt) : Ty → List Nat → Option Val
  | .F, bs => (decodeScalar bs).map .F
  | .G, bs => (decPt bs).map .G

/-- Read the elements of the given types one after the other (`read_exact` of 32 / 48 bytes, decode);
returns the elements and the unread rest. -/
def parseElemsWith (decPt : List Nat → Option Pt) : List Ty → List Nat → Option (List Val × List Nat)
  | [], bs => some ([], bs)
  | ty :: t, bs =>
    if bs.length < elemSize ty then none else
    match decodeElemWith decPt ty (bs.take (elemSize ty)) with
    | none => none
    | some v => (parseElemsWith decPt t (bs.drop (elemSize ty))).map fun r => (v :: r.1, r.2)

/-- Types of the proof elements of a schedule, in reading order. -/
def elemTys : List Ev → List Ty
  | [] => []
  | e :: t => if e.kind = .elem then e.ty :: elemTys t else elemTys t

/-- `prepare` + `assert_empty` at the parsing level: all elements decode and no byte is left. -/
def parseProofWith (decPt : List Nat → Option Pt) (evs : List Ev) (bs : List Nat) : Option (List Val) :=
  match parseElemsWith decPt (elemTys evs) bs with
  | some (vs, []) => some vs
  | _ => none

def parseProof (evs : List Ev) (bs : List Nat) : Option (List Val) := parseProofWith g1Dec evs bs

/-- Index of the first element that fails to decode (or is cut short), `none` if all decode. -/
def firstBadElem (decPt : List Nat → Option Pt) : List Ty → List Nat → Nat → Option Nat
  | [], _, _ => none
  | ty :: t, bs, i =>
    if bs.length < elemSize ty then some i else
    match decodeElemWith decPt ty (bs.take (elemSize ty)) with
    | none => some i
    | some _ => firstBadElem decPt t (bs.drop (elemSize ty)) (i + 1)

/-- Re-encoding of parsed elements (what the prover wrote). -/
def encodeElems : List Val → List Nat
  | [] => []
  | v :: t => valBytes v ++ encodeElems t

end MidnightZK.C03
