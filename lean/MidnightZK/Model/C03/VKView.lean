import MidnightZK.Model.C03.VK
/-!
# What `transcript_repr` covers of the constraint system, field by field (model)

Mirrors
* `proofs/src/plonk/circuit.rs: ConstraintSystem::pinned` (every member of `PinnedConstraintSystem` is the field of
  the same name — checked by the translator) and `impl Debug for PinnedConstraintSystem` (`debug_struct` with the
  fields of `Gen.csDebugOrder`, those flagged `true` only under the condition `Gen.csDebugPhaseCondition`:
  a challenge exists OR some advice column is not in the first phase);
* `impl Debug for Advice` (the phase of a column is printed inside `advice_queries` only if it is not the first phase);
* `proofs/src/plonk/mod.rs: VerifyingKey::from_parts`: `format!("{:?}", vk.cs().pinned())` is appended to the buffer
  hashed into `transcript_repr` (`vkHashInput`, component `cs`).

`CSView` = the members of `PinnedConstraintSystem`. Numbers, phases and advice queries are structured (they are what
the Fiat–Shamir schedule of the verifier depends on: `C01.Shape`); gates, the other query lists, permutation,
lookups, trashcans, constants and `minimum_degree` are their `Debug` renderings. `pinnedFields` is the list of
(field name, value) pairs that `Debug` prints, in order: the hash input is a function of it. Import-free.
-/
namespace MidnightZK.C03
open MidnightZK

/-- The members of `PinnedConstraintSystem`. `num_challenges` is `challengePhase.length` (`challenge_usable_after`
pushes to `challenge_phase` and increments `num_challenges` together). -/
structure CSView where
  numFixed : Nat
  numAdvice : Nat
  numInstance : Nat
  numSelectors : Nat
  /-- `advice_column_phase`, one entry per advice column -/
  advicePhase : List Nat
  /-- `challenge_phase`, one entry per challenge -/
  challengePhase : List Nat
  /-- `advice_queries`: (column index, rotation) -/
  adviceQueries : List (Nat × Int)
  gates : String
  instanceQueries : String
  fixedQueries : String
  permutation : String
  lookups : String
  trashcans : String
  constants : String
  minimumDegree : String
deriving DecidableEq, Repr, Inhabited

/-- A printed value. -/
inductive FieldVal where
  | nat (n : Nat)
  | nats (l : List Nat)
  /-- advice queries as printed: (index, phase shown by `Debug for Advice`, rotation); the phase is shown as
  `some ph` only if `ph ≠ 0` -/
  | aq (l : List (Nat × Option Nat × Int))
  | str (s : String)
deriving DecidableEq, Repr

/-- `Debug for Advice`: `Advice` for the first phase, `Advice { phase: .. }` otherwise. -/
def shownPhase (ph : Nat) : Option Nat :=
  if Gen.advicePhaseShownOnlyIfLater then (if ph = 0 then none else some ph) else some ph

/-- Value printed for a member of `PinnedConstraintSystem`, by field name. -/
def fieldValue (v : CSView) : String → Option FieldVal
  | "num_fixed_columns" => some (.nat v.numFixed)
  | "num_advice_columns" => some (.nat v.numAdvice)
  | "num_instance_columns" => some (.nat v.numInstance)
  | "num_selectors" => some (.nat v.numSelectors)
  | "num_challenges" => some (.nat v.challengePhase.length)
  | "advice_column_phase" => some (.nats v.advicePhase)
  | "challenge_phase" => some (.nats v.challengePhase)
  | "gates" => some (.str v.gates)
  | "advice_queries" => some (.aq (v.adviceQueries.map fun q => (q.1, shownPhase (v.advicePhase.getD q.1 0), q.2)))
  | "instance_queries" => some (.str v.instanceQueries)
  | "fixed_queries" => some (.str v.fixedQueries)
  | "permutation" => some (.str v.permutation)
  | "lookups" => some (.str v.lookups)
  | "trashcans" => some (.str v.trashcans)
  | "constants" => some (.str v.constants)
  | "minimum_degree" => some (.str v.minimumDegree)
  | _ => none

/-- One disjunct of the condition of the multi-phase block (`Gen.csDebugPhaseCondition`, regenerated). -/
def phaseCondHolds (nch : Nat) (advicePhase : List Nat) : String → Bool
  | "num_challenges>0" => decide (0 < nch)
  | "advice_phase_not_first" => advicePhase.any (· != 0)
  | _ => false

/-- Are `num_challenges`, `advice_column_phase`, `challenge_phase` printed? (`if *num_challenges > &0 ||
advice_column_phase.iter().any(|p| *p != FirstPhase.to_sealed())` since the repair; the disjuncts are re-read from
the source) -/
def showPhaseFields (nch : Nat) (advicePhase : List Nat) : Bool :=
  Gen.csDebugPhaseCondition.any (phaseCondHolds nch advicePhase)

/-- Names of the fields `Debug for PinnedConstraintSystem` prints, in order (`sh` = the multi-phase block is shown). -/
def csDebugFieldNames (sh : Bool) : List String :=
  (Gen.csDebugOrder.filter fun f => !f.2 || sh).map (·.1)

/-- What `format!("{:?}", cs.pinned())` prints, as (name, value) pairs: the `cs` component of the hash input is a
function of this list. -/
def pinnedFields (v : CSView) : List (String × Option FieldVal) :=
  (csDebugFieldNames (showPhaseFields v.challengePhase.length v.advicePhase)).map fun n => (n, fieldValue v n)

/-- The part of the constraint system the VERIFIER's control flow reads (`parse_trace`, `verify_algebraic_constraints`):
all of it — in particular `advice_column_phase` decides in which order the advice commitments are read
(`for phase in cs.phases() { for column in columns of that phase { read } ; squeeze challenges of that phase }`). -/
def verifierView (v : CSView) : CSView := v

/-- Order in which the verifier reads the advice commitments of one proof (`parse_trace`): phase by phase, by column
index inside a phase. `nPhases` = `max phase + 1`. -/
def adviceReadOrder (advicePhase : List Nat) : List Nat :=
  let maxPh := advicePhase.foldl max 0
  (List.range (maxPh + 1)).flatMap fun ph =>
    (List.range advicePhase.length).filter fun c => advicePhase.getD c 0 == ph

/-! ## Splitting a real `Debug` string into its top-level fields (driver side of the `csdebug` lines) -/

/-- Split `bs` at every `", "` that is outside any bracket (`skip` = the space after such a comma is dropped). -/
def splitTopAux : List Nat → Int → Bool → List Nat → List (List Nat)
  | [], _, _, cur => [cur.reverse]
  | c :: t, depth, skip, cur =>
    if skip then splitTopAux t depth false cur
    else if c = 40 ∨ c = 91 ∨ c = 123 then splitTopAux t (depth + 1) false (c :: cur)
    else if c = 41 ∨ c = 93 ∨ c = 125 then splitTopAux t (depth - 1) false (c :: cur)
    else if c = 44 ∧ depth = 0 ∧ t.head? = some 32 then cur.reverse :: splitTopAux t depth true []
    else splitTopAux t depth false (c :: cur)

def splitTop (bs : List Nat) (depth : Int) (cur : List Nat) : List (List Nat) := splitTopAux bs depth false cur

/-- Position of the first occurrence of `pat` in `bs`. -/
def findSub (pat : List Nat) : List Nat → Nat → Option Nat
  | [], _ => none
  | bs@(_ :: t), i => if pat.isPrefixOf bs then some i else findSub pat t (i + 1)

/-- `Name { f1: v1, f2: v2 }` → `(Name, [(f1, |v1|), (f2, |v2|)])` (byte strings). -/
def splitDebugStruct (bs : List Nat) : Option (List Nat × List (List Nat × Nat)) := do
  let op ← findSub [32, 123, 32] bs 0
  let name := bs.take op
  let rest := bs.drop (op + 3)
  if rest.length < 2 then none else
  if rest.drop (rest.length - 2) ≠ [32, 125] then none else
  let body := rest.take (rest.length - 2)
  let parts := splitTop body 0 []
  let fields ← parts.mapM fun p => do
    let c ← findSub [58, 32] p 0
    pure (p.take c, p.length - c - 2)
  pure (name, fields)

end MidnightZK.C03
