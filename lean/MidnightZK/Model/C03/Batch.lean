import MidnightZK.Model.C03.Absorb
import MidnightZK.Gen.C03Sites
/-!
# The verification entry points at the parsing level (model)

Mirrors
* `zk_stdlib/src/utils/plonk_api.rs: BlstPLONK::verify` — `CircuitTranscript::init_from_bytes(proof)`, `prepare`,
  `transcript.assert_empty()`, `guard.verify`;
* `zk_stdlib/src/lib.rs: batch_verify` — per member: public-input count check, `init_from_bytes(proof)`, `prepare`,
  `squeeze_challenge` (summary), `r_transcript.common(summary)`, `<receiver>.assert_empty()`, then the guards are
  folded with powers of `r` (C15);
* `proofs/src/poly/commitment.rs: Guard::batch_verify` — `guard.verify(params)` for each guard (the callers parse
  each proof and call `assert_empty` themselves);
* `proofs/src/transcript/mod.rs: CircuitTranscript::{init, init_from_bytes, assert_empty}` — the cursor over the
  proof bytes; `assert_empty` succeeds iff the cursor is at the end of ITS OWN buffer, so on a transcript created by
  `init()` (empty buffer, never written to by a verifier) it always succeeds.

The receiver of each `assert_empty` call and the transcript handed to `prepare` are NOT hand-copied: they are re-read
from the sources by `translators/c03_sites.py` (`Gen.assertSites`) and the model below takes its exhaustion check from
that list. Import-free.
-/
namespace MidnightZK.C03
open MidnightZK MidnightZK.C01

/-- What an `assert_empty` call of an entry point checks, given the site the translator found for that function:
the rest of the proof buffer if the receiver is the transcript that was initialised from the proof bytes AND handed
to `prepare`, unconditionally, after `prepare`, with its error propagated; nothing otherwise (another transcript —
e.g. the auxiliary `r_transcript` of `batch_verify`, whose buffer is always empty — or a conditional / swallowed
call). `none` = the function has no such call at all. -/
def siteChecksRest (s : Gen.AssertSite) : Bool :=
  s.receiver == s.prepared && s.receiver == s.initVar && s.afterPrepare && s.propagated && s.relDepth == 0

/-- Does function `fn` of `file` enforce exhaustion of the proof buffer? (some site of that function does) -/
def enforcesExhaustion (file fn : String) : Bool :=
  Gen.assertSites.any fun s => s.file == file && s.fn == fn && siteChecksRest s

/-- One verification at the parsing level: every element of the schedule decodes from `bs`; if `exhaust`, no byte
may be left (`assert_empty` on the proof transcript), otherwise the rest is ignored. -/
def parseMember (decPt : List Nat → Option Pt) (exhaust : Bool) (evs : List Ev) (bs : List Nat) : Option (List Val) :=
  match parseElemsWith decPt (elemTys evs) bs with
  | none => none
  | some (vs, rest) => if exhaust then (if rest.isEmpty then some vs else none) else some vs

/-- `BlstPLONK::verify` (= `zk_stdlib::verify` after the public-input count check) at the parsing level. -/
def verifyParse (decPt : List Nat → Option Pt) (evs : List Ev) (bs : List Nat) : Option (List Val) :=
  parseMember decPt (enforcesExhaustion "zk_stdlib/src/utils/plonk_api.rs" "verify") evs bs

/-- `zk_stdlib::batch_verify` at the parsing level: members are parsed in order (`.map(..).collect::<Result<..>>()`
stops at the first error). A member = its verifier schedule (from its key) and its proof bytes. -/
def batchParse (decPt : List Nat → Option Pt) : List (List Ev × List Nat) → Option (List (List Val))
  | [] => some []
  | (evs, bs) :: t =>
    match parseMember decPt (enforcesExhaustion "zk_stdlib/src/lib.rs" "batch_verify") evs bs with
    | none => none
    | some vs => (batchParse decPt t).map (vs :: ·)

/-- Index of the first member that fails at the parsing level. -/
def batchFirstBad (decPt : List Nat → Option Pt) : List (List Ev × List Nat) → Nat → Option Nat
  | [], _ => none
  | (evs, bs) :: t, i =>
    match parseMember decPt (enforcesExhaustion "zk_stdlib/src/lib.rs" "batch_verify") evs bs with
    | none => some i
    | some _ => batchFirstBad decPt t (i + 1)

end MidnightZK.C03
