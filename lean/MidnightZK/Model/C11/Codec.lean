import MidnightZK.Model.C11.Weierstrass
import MidnightZK.Model.C11.Edwards
import MidnightZK.Model.C11.Params
/-!
Byte-level codecs of the Weierstrass curve types and of Curve25519, as the code performs them:

* BLS12-381 G1/G2: `blst_p1_uncompress`, `blst_p1_deserialize`, `blst_p1_affine_compress`,
  `blst_p1_affine_serialize` (and the `p2` versions) as wrapped by `bls12_381/g1.rs`, `g2.rs`
  `from_compressed[_unchecked]`, `from_uncompressed[_unchecked]` (three flag bits in byte 0);
* BN254 G1/G2: `serde.rs` `Compressed::{encode, decode}` with `CompressedFlagConfig::TwoSpare`,
  and the uncompressed encoding of `derive/curve.rs`;
* secp256k1: SEC1 compressed encoding as used through `k256` by `k256/curve.rs`;
* Curve25519: `CompressedEdwardsY::{decompress, compress}` as wrapped by `curve25519/*.rs`.

Byte strings are lists of naturals `< 256` in array order. Import-free.
-/
namespace MidnightZK.C11.Codec
open MidnightZK MidnightZK.C11

def beToNat (l : List Nat) : Nat := l.foldl (fun acc b => acc * 256 + b) 0
def natToBe (n v : Nat) : List Nat := (natToLeBytes n v).reverse
def allZero (l : List Nat) : Bool := l.all (· == 0)
def setHead (l : List Nat) (f : Nat → Nat) : List Nat :=
  match l with
  | [] => []
  | h :: t => f h :: t
def setLast (l : List Nat) (f : Nat → Nat) : List Nat := (setHead l.reverse f).reverse

/-- What a coordinate field contributes to a codec. -/
structure FieldCodec (F : Type) where
  /-- number of bytes of one element -/
  size : Nat
  /-- big-endian bytes (BLS convention: for `Fp2`, `c1` first) -/
  toBe : F → List Nat
  /-- canonical element from big-endian bytes after masking `mask` top bits of byte 0 -/
  ofBe : Nat → List Nat → Option F
  /-- little-endian bytes (BN convention: for `Fq2`, `c0` first) -/
  toLe : F → List Nat
  /-- canonical element from little-endian bytes after masking `mask` top bits of the last byte -/
  ofLe : Nat → List Nat → Option F
  lexLargest : F → Bool
  /-- parity of the first little-endian byte (`to_repr()[0] & 1`) -/
  parity : F → Bool

def fpCodec (p size : Nat) : FieldCodec (Fp p) where
  size := size
  toBe x := natToBe size x.v
  ofBe mask bs :=
    let v := beToNat bs % 2 ^ (8 * size - mask)
    if v < p then some ⟨v⟩ else none
  toLe x := natToLeBytes size x.v
  ofLe mask bs :=
    let v := leBytesToNat bs % 2 ^ (8 * size - mask)
    if v < p then some ⟨v⟩ else none
  lexLargest := Fp.lexLargest
  parity := Fp.isOdd

def fp2Codec (p size : Nat) : FieldCodec (Fp2 p) where
  size := 2 * size
  toBe x := natToBe size x.c1.v ++ natToBe size x.c0.v
  ofBe mask bs :=
    let v1 := beToNat (bs.take size) % 2 ^ (8 * size - mask)
    let v0 := beToNat (bs.drop size)
    if v1 < p ∧ v0 < p then some ⟨⟨v0⟩, ⟨v1⟩⟩ else none
  toLe x := natToLeBytes size x.c0.v ++ natToLeBytes size x.c1.v
  ofLe mask bs :=
    let v0 := leBytesToNat (bs.take size)
    let v1 := leBytesToNat (bs.drop size) % 2 ^ (8 * size - mask)
    if v1 < p ∧ v0 < p then some ⟨⟨v0⟩, ⟨v1⟩⟩ else none
  lexLargest := Fp2.lexLargest
  parity x := x.c0.isOdd

section
variable {F : Type} [CoordField F] [DecidableEq F] [OfNat F 0]

def rhs (b : F) (x : F) : F := x * x * x + b

/-! ### BLS12-381 (blst) -/

/-- `blst_p1_affine_compress` / `blst_p1_compress` (`to_compressed`, `to_bytes`). -/
def blsCompress (c : FieldCodec F) : WPoint F → List Nat
  | none => 0xc0 :: List.replicate (c.size - 1) 0
  | some (x, y) => setHead (c.toBe x) (fun h => h ||| 0x80 ||| (if c.lexLargest y then 0x20 else 0))

/-- `blst_p1_affine_serialize` (`to_uncompressed`). -/
def blsSerialize (c : FieldCodec F) : WPoint F → List Nat
  | none => 0x40 :: List.replicate (2 * c.size - 1) 0
  | some (x, y) => c.toBe x ++ c.toBe y

/-- `blst_p1_uncompress` = success (`POINTonE1_Uncompress_Z`): `from_compressed_unchecked`. -/
def blsUncompress (c : FieldCodec F) (b : F) (bs : List Nat) : Option (WPoint F) :=
  let in0 := bs.headD 0
  if in0 &&& 0x80 = 0 then none else
  if in0 &&& 0x40 ≠ 0 then
    (if in0 &&& 0x3f = 0 ∧ allZero (bs.drop 1) then some none else none)
  else
  match c.ofBe 3 bs with
  | none => none                                  -- BLST_BAD_ENCODING (x ≥ p)
  | some x =>
    match CoordField.sqrtO (rhs b x) with
    | none => none                                -- BLST_POINT_NOT_ON_CURVE
    | some y0 =>
      let sign := in0 &&& 0x20 ≠ 0
      let y := if c.lexLargest y0 = sign then y0 else -y0
      if x = 0 then none                          -- BLST_POINT_NOT_IN_GROUP: (0, ±2)
      else some (some (x, y))

/-- `from_uncompressed_unchecked` of `g1.rs` / `g2.rs`: `bytes[0] & 0x80 == 0` and
`blst_p1_deserialize` = success (`POINTonE1_Deserialize_Z`). blst itself would parse a string
whose compression bit is set as a *compressed* point from its first half; the wrapper rejects
that form since fix c6a63c4. -/
def blsDeserialize (c : FieldCodec F) (b : F) (bs : List Nat) : Option (WPoint F) :=
  let in0 := bs.headD 0
  if in0 &&& 0x80 ≠ 0 then none
  else if in0 &&& 0xe0 = 0 then
    match c.ofBe 3 (bs.take c.size), c.ofBe 0 (bs.drop c.size) with
    | some x, some y =>
      if y * y = rhs b x then (if x = 0 then none else some (some (x, y))) else none
    | _, _ => none
  else if in0 &&& 0x40 ≠ 0 ∧ in0 &&& 0x3f = 0 ∧ allZero (bs.drop 1) then some none
  else none

/-! ### BN254 (`serde.rs`, `CompressedFlagConfig::TwoSpare`; flag byte = last byte) -/

/-- `Compressed::encode`. -/
def bnEncode (c : FieldCodec F) : WPoint F → List Nat
  | none => setLast (List.replicate c.size 0) (fun h => h ||| 0x40)
  | some (x, y) => setLast (c.toLe x) (fun h => h ||| (if c.parity y then 0x80 else 0))

/-- `Compressed::decode`. -/
def bnDecode (c : FieldCodec F) (b : F) (bs : List Nat) : Option (WPoint F) :=
  let fl := bs.getLastD 0
  let isId := fl &&& 0x40 ≠ 0
  let sign := fl &&& 0x80 ≠ 0
  match c.ofLe 0 (setLast bs (fun h => h &&& 0x3f)) with
  | none => none
  | some x =>
    let isZero := decide (x = 0)
    let valid := (isId && isZero && !sign) != (!isId && !isZero)
    if valid && isId then some none else
    match CoordField.sqrtO (rhs b x) with
    | none => none
    | some y0 =>
      let y := if c.parity y0 = sign then y0 else -y0
      if valid then some (some (x, y)) else none

/-- `UncompressedEncoding::to_uncompressed` of `derive/curve.rs`. -/
def bnToUncompressed (c : FieldCodec F) : WPoint F → List Nat
  | none => List.replicate (2 * c.size) 0
  | some (x, y) => c.toLe x ++ c.toLe y

/-- `from_uncompressed_unchecked` (`checked = false`) / `from_uncompressed` (`checked = true`). -/
def bnFromUncompressed (c : FieldCodec F) (b : F) (checked : Bool) (bs : List Nat) : Option (WPoint F) :=
  match c.ofLe 0 (bs.take c.size), c.ofLe 0 (bs.drop c.size) with
  | some x, some y =>
    if x = 0 ∧ y = 0 then some none
    else if checked && !(decide (y * y = rhs b x)) then none
    else some (some (x, y))
  | _, _ => none

end

/-! ### secp256k1 (SEC1 compressed, 33 bytes, through `k256`) -/

def secpEncode : WPoint (Fp Params.secpP) → List Nat
  | none => List.replicate 33 0
  | some (x, y) => (if y.isOdd then 3 else 2) :: natToBe 32 x.v

/-- `K256Affine::from_bytes` / `K256::from_bytes`: the all-zero string is the identity; otherwise
only the SEC1 tags `02` / `03` are accepted (the x-only "compact" tag `05`, which the `sec1`
parser admits at this length, is rejected since fix 82051ee). -/
def secpDecode (bs : List Nat) : Option (WPoint (Fp Params.secpP)) :=
  if allZero bs then some none else
  let tag := bs.headD 0
  if tag ≠ 2 ∧ tag ≠ 3 then none else
  let xv := beToNat (bs.drop 1)
  if xv ≥ Params.secpP then none else
  let x : Fp Params.secpP := ⟨xv⟩
  match (x * x * x + 7).sqrt with
  | none => none
  | some y0 =>
    let y := if y0.isOdd = (tag == 3) then y0 else -y0
    some (some (x, y))

/-! ### Curve25519 (`CompressedEdwardsY`) -/

/-- `EdwardsPoint::compress` on the affine value: `y | (x mod 2) << 255`, little-endian. -/
def edEncode (p : Fp Params.edP × Fp Params.edP) : List Nat :=
  natToLeBytes 32 (p.2.v + (p.1.v % 2) * 2 ^ 255)

/-- `CompressedEdwardsY::decompress` (curve25519-dalek 4.1.3) over a generic modulus: the `y`
bytes are reduced modulo `q` without a canonicity check, and a set sign bit with `x = 0` is not
rejected. -/
def edDecodeGen {q : Nat} (d : Fp q) (bs : List Nat) : Option (Fp q × Fp q) :=
  let n := leBytesToNat bs
  let sign := n / 2 ^ 255 % 2 == 1
  let y : Fp q := ⟨n % 2 ^ 255 % q⟩
  let yy := y * y
  match ((yy - 1) * (d * yy + 1)⁻¹).sqrt with
  | none => none
  | some x0 =>
    let x := if x0.isOdd then -x0 else x0        -- non-negative root
    some (if sign then -x else x, y)

/-- `Curve25519::from_bytes` / `Curve25519Affine::from_bytes`. -/
def edDecode (bs : List Nat) : Option (Fp Params.edP × Fp Params.edP) :=
  edDecodeGen (⟨Params.edD⟩ : Fp Params.edP) bs

end MidnightZK.C11.Codec
