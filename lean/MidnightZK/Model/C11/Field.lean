import MidnightZK.Model.Common
import MidnightZK.Model.ModArith
/-!
Executable finite fields of the curve models of property C11: `Fp p` (naturals modulo `p`) and
`Fp2 p` = `Fp p [u] / (u² + 1)` (the quadratic extension used by BLS12-381 `Fp2` and BN254 `Fq2`).

All curve formulas of `Model/C11` are written polymorphically over the operation classes
`Add/Sub/Mul/Neg/Inv/OfNat`, so the *same* definitions are evaluated here (driver `mzk-c11`) and
reasoned about over an arbitrary field (`[Lean.Grind.Field F]`) in `Props/C11.lean`.
Import-free (core only).
-/
namespace MidnightZK.C11

/-- Canonical representative `v < p` of a residue class modulo `p` (`p` prime in every use). -/
structure Fp (p : Nat) where
  v : Nat
  deriving DecidableEq, Repr

namespace Fp
variable {p : Nat}

def mk' (p n : Nat) : Fp p := ⟨n % p⟩

instance : Add (Fp p) := ⟨fun a b => ⟨addMod a.v b.v p⟩⟩
instance : Sub (Fp p) := ⟨fun a b => ⟨subMod a.v b.v p⟩⟩
instance : Mul (Fp p) := ⟨fun a b => ⟨mulMod a.v b.v p⟩⟩
instance : Neg (Fp p) := ⟨fun a => ⟨negMod a.v p⟩⟩
/-- Extended Euclid on `(r0, r1, t0, t1)`; returns the Bézout coefficient of the second input. -/
def egcd : Nat → Int → Int → Int → Int → Int
  | 0, _, _, t0, _ => t0
  | f + 1, r0, r1, t0, t1 =>
    if r1 = 0 then t0 else
    let q := r0 / r1
    egcd f r1 (r0 - q * r1) t1 (t0 - q * t1)

/-- Modular inverse by extended Euclid (same value as Fermat's `a^(p-2)` for prime `p`, much
faster in the driver); `0⁻¹ = 0` (the Rust callers use `invert().unwrap_or(ZERO)` or guard). -/
def invNat (a p : Nat) : Nat :=
  if a % p = 0 then 0 else ((egcd (2 * p.log2 + 4) p (a % p) 0 1) % (p : Int)).toNat

instance : Inv (Fp p) := ⟨fun a => ⟨invNat a.v p⟩⟩
instance (n : Nat) : OfNat (Fp p) n := ⟨mk' p n⟩

def pow (a : Fp p) (e : Nat) : Fp p := ⟨powMod a.v e p⟩

/-- Euler criterion: `a` is a nonzero square. -/
def isSquareNZ (a : Fp p) : Bool := powMod a.v ((p - 1) / 2) p == 1

/-- `2^s * t = p - 1`, `t` odd: returns `(s, t)`. Fuel-recursive. -/
def twoAdicity : Nat → Nat → Nat → Nat × Nat
  | 0, s, t => (s, t)
  | f + 1, s, t => if t % 2 == 0 && t != 0 then twoAdicity f (s + 1) (t / 2) else (s, t)

/-- Smallest quadratic non-residue ≥ 2 (fuel-bounded search). -/
def nonResidue (p : Nat) : Nat → Nat → Nat
  | 0, z => z
  | f + 1, z => if powMod z ((p - 1) / 2) p == p - 1 then z else nonResidue p f (z + 1)

/-- Inner loop of Tonelli–Shanks: least `i` with `t^(2^i) = 1`. -/
def tsOrder (p : Nat) : Nat → Nat → Nat → Nat
  | 0, _, i => i
  | f + 1, t, i => if t == 1 then i else tsOrder p f (t * t % p) (i + 1)

def tsLoop (p : Nat) : Nat → Nat → Nat → Nat → Nat → Nat
  | 0, _, _, _, r => r
  | f + 1, m, c, t, r =>
    if t == 1 then r else
    let i := tsOrder p m t 0
    let b := powMod c (2 ^ (m - i - 1)) p
    tsLoop p f i (b * b % p) (t * b % p * b % p) (r * b % p)

/-- Some square root of `a` (Tonelli–Shanks; any odd prime `p`), or `none`. Which of the two
roots is returned is irrelevant: every decoder normalises the sign afterwards. -/
def sqrt (a : Fp p) : Option (Fp p) :=
  if a.v % p == 0 then some ⟨0⟩ else
  if !(isSquareNZ a) then none else
  let (s, q) := twoAdicity 400 0 (p - 1)
  let z := nonResidue p 1000 2
  let r := tsLoop p (s + 1) s (powMod z q p) (powMod a.v q p) (powMod a.v ((q + 1) / 2) p)
  if r * r % p == a.v % p then some ⟨r⟩ else none

def isZero (a : Fp p) : Bool := a.v == 0
def isOdd (a : Fp p) : Bool := a.v % 2 == 1
/-- `a > (p-1)/2`: the "lexicographically largest" sign convention of the BLS12-381 encodings. -/
def lexLargest (a : Fp p) : Bool := a.v > (p - 1) / 2

end Fp

/-- `c0 + c1·u` with `u² = -1`. -/
structure Fp2 (p : Nat) where
  c0 : Fp p
  c1 : Fp p
  deriving DecidableEq, Repr

namespace Fp2
variable {p : Nat}

instance : Add (Fp2 p) := ⟨fun a b => ⟨a.c0 + b.c0, a.c1 + b.c1⟩⟩
instance : Sub (Fp2 p) := ⟨fun a b => ⟨a.c0 - b.c0, a.c1 - b.c1⟩⟩
instance : Neg (Fp2 p) := ⟨fun a => ⟨-a.c0, -a.c1⟩⟩
instance : Mul (Fp2 p) := ⟨fun a b => ⟨a.c0 * b.c0 - a.c1 * b.c1, a.c0 * b.c1 + a.c1 * b.c0⟩⟩
instance : Inv (Fp2 p) := ⟨fun a =>
  let n : Fp p := (a.c0 * a.c0 + a.c1 * a.c1)⁻¹
  ⟨a.c0 * n, -(a.c1 * n)⟩⟩
instance (n : Nat) : OfNat (Fp2 p) n := ⟨⟨Fp.mk' p n, ⟨0⟩⟩⟩

def conj (a : Fp2 p) : Fp2 p := ⟨a.c0, -a.c1⟩
def isZero (a : Fp2 p) : Bool := a.c0.isZero && a.c1.isZero

/-- Square root in `Fp2` (complex method, `p ≡ 3 mod 4`), or `none`. -/
def sqrt (a : Fp2 p) : Option (Fp2 p) :=
  if a.isZero then some ⟨⟨0⟩, ⟨0⟩⟩ else
  let half : Fp p := (2 : Fp p)⁻¹
  let check (r : Fp2 p) : Option (Fp2 p) := if r * r == a then some r else none
  if a.c1.isZero then
    match a.c0.sqrt with
    | some r => check ⟨r, ⟨0⟩⟩
    | none => match (-a.c0).sqrt with
      | some r => check ⟨⟨0⟩, r⟩
      | none => none
  else
    match (a.c0 * a.c0 + a.c1 * a.c1).sqrt with
    | none => none
    | some n =>
      let try1 := ((a.c0 + n) * half)
      let x2 := if try1.isSquareNZ then try1 else ((a.c0 - n) * half)
      match x2.sqrt with
      | none => none
      | some x => check ⟨x, a.c1 * (x + x)⁻¹⟩

/-- BLS12-381 convention for `Fp2`: compare `c1` first, then `c0`. -/
def lexLargest (a : Fp2 p) : Bool :=
  if a.c1.isZero then a.c0.lexLargest else a.c1.lexLargest

end Fp2

/-- What the executable curve models need from a coordinate field beyond ring operations. -/
class CoordField (F : Type) extends Add F, Sub F, Mul F, Neg F, Inv F where
  zero : F
  one : F
  isZeroB : F → Bool
  sqrtO : F → Option F
  fmt : F → String
  parse : String → Option F

instance {p : Nat} : CoordField (Fp p) where
  zero := ⟨0⟩
  one := Fp.mk' p 1
  isZeroB := Fp.isZero
  sqrtO := Fp.sqrt
  fmt a := toHex a.v
  parse s := (parseNat? s).map (Fp.mk' p)

instance {p : Nat} : CoordField (Fp2 p) where
  zero := ⟨⟨0⟩, ⟨0⟩⟩
  one := ⟨Fp.mk' p 1, ⟨0⟩⟩
  isZeroB := Fp2.isZero
  sqrtO := Fp2.sqrt
  fmt a := toHex a.c0.v ++ "~" ++ toHex a.c1.v
  parse s := match s.splitOn "~" with
    | [a, b] => do
      let a ← parseNat? a
      let b ← parseNat? b
      pure ⟨Fp.mk' p a, Fp.mk' p b⟩
    | _ => none

end MidnightZK.C11
