import MidnightZK.Model.C11.Jubjub
import MidnightZK.Model.C11.Bn
/-!
Shared-inversion ("Montgomery trick") batch routines of the curve types, as the code performs them:

* `ff::BatchInverter::invert_with_internal_scratch` / `ff::BatchInvert::batch_invert` (crate `ff`
  0.13; the same two passes) — used by `jubjub/curve.rs: JubjubExtended::batch_normalize`, the
  free function `jubjub/curve.rs: batch_normalize` and `JubjubAffine::batch_from_bytes`;
* the hand-written two-pass loop of `derive/curve.rs: Curve::batch_normalize` (BN254 G1/G2);
* the `Sum` folds of `jubjub/curve.rs` and `derive/curve.rs`.

Zero entries are *skipped* (left in place) by both passes, exactly as the `conditional_select`s of
the code do. Polymorphic in the field; import-free.
-/
namespace MidnightZK.C11.Batch

section
variable {F : Type} [Mul F] [Inv F] [OfNat F 0] [OfNat F 1] [DecidableEq F]

/-- First pass: `scratch[i] = acc; acc = select(acc * z[i], acc, z[i] == 0)`.
Returns the scratch values and the final accumulator (product of the non-zero entries). -/
def fwd : List F → F → List F × F
  | [], acc => ([], acc)
  | z :: zs, acc =>
    let r := fwd zs (if z = 0 then acc else acc * z)
    (acc :: r.1, r.2)

/-- Second pass, over `(z[i], scratch[i])` in *reverse* order (the recursion returns from the
tail first): `tmp = scratch[i] * acc; acc = select(acc * z[i], acc, skip); z[i] = select(tmp, z[i], skip)`.
Returns the new entries and the accumulator left after the first entry. -/
def bwd : List (F × F) → F → List F × F
  | [], acc => ([], acc)
  | (z, s) :: rest, acc =>
    let r := bwd rest acc
    let tmp := s * r.2
    ((if z = 0 then z else tmp) :: r.1, if z = 0 then r.2 else r.2 * z)

/-- `BatchInverter::invert_with_internal_scratch` / `batch_invert`: every non-zero entry is
replaced by its inverse with ONE field inversion; zero entries stay zero. -/
def batchInvert (zs : List F) : List F :=
  let r := fwd zs 1
  (bwd (zs.zip r.1) r.2⁻¹).1

end

section
variable {F : Type} [Add F] [Sub F] [Mul F] [Neg F] [Inv F] [OfNat F 0] [OfNat F 1] [DecidableEq F]
open Jubjub

/-- `JubjubExtended::batch_normalize(p, q)`: `q[i].u = p[i].z`; batch inversion in place;
`q[i] = (p[i].u * q[i].u, p[i].v * q[i].u)`. A `z = 0` entry (not a valid point) gives `(0, 0)`. -/
def jjBatchNormalize (ps : List (Ext F)) : List (F × F) :=
  List.zipWith (fun (p : Ext F) zi => (p.u * zi, p.v * zi)) ps (batchInvert (ps.map (·.z)))

/-- Free function `jubjub/curve.rs: batch_normalize(v)`: the slice itself is rewritten to
`(u/z, v/z, 1, u/z, v/z)` (scratch = `t1`). -/
def jjBatchNormalizeInPlace (ps : List (Ext F)) : List (Ext F) :=
  (jjBatchNormalize ps).map fun (a : F × F) => (⟨a.1, a.2, 1, a.1, a.2⟩ : Ext F)

/-- `impl Sum for JubjubExtended`: `iter.fold(identity, |acc, item| acc + item)`. -/
def jjSum (d2 : F) (ps : List (Ext F)) : Ext F := ps.foldl (fun acc p => acc.add d2 p) Ext.identity

/-- `derive/curve.rs: Curve::batch_normalize`: the same two passes written out by hand on `z`
(`is_identity` = `z == 0` is the skip condition); skipped entries become the affine identity. -/
def bnBatchNormalize (ps : List (Bn.Proj F)) : List (WPoint F) :=
  List.zipWith (fun (p : Bn.Proj F) zi => if p.z = 0 then none else some (p.x * zi, p.y * zi)) ps
    (batchInvert (ps.map (·.z)))

/-- `impl Sum for $name` of `derive/curve.rs`: `iter.fold(identity, |acc, item| acc + item)`. -/
def bnSum (b3 : F) (ps : List (Bn.Proj F)) : Bn.Proj F := ps.foldl (Bn.addRaw b3) Bn.Proj.identity

end
end MidnightZK.C11.Batch
