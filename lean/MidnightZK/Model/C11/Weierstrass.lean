import MidnightZK.Model.C11.Field
/-!
Affine group law of a short Weierstrass curve `y² = x³ + a·x + b` (chord and tangent), the
specification every Weierstrass curve type of `/repo/curves` (BLS12-381 G1/G2, secp256k1, BN254
G1/G2) is compared with. Polymorphic in the coordinate field. Import-free.
-/
namespace MidnightZK.C11

/-- Affine point; `none` is the point at infinity. -/
abbrev WPoint (F : Type) := Option (F × F)

section
variable {F : Type} [Add F] [Sub F] [Mul F] [Neg F] [Inv F] [OfNat F 0] [DecidableEq F]

def wOnCurve (a b : F) : WPoint F → Bool
  | none => true
  | some (x, y) => decide (y * y = x * x * x + a * x + b)

def wNeg : WPoint F → WPoint F
  | none => none
  | some (x, y) => some (x, -y)

/-- Slope of the chord through two points with different abscissae. -/
def wChord (x1 y1 x2 y2 : F) : F := (y2 - y1) * (x2 - x1)⁻¹
/-- Slope of the tangent at `(x, y)`, `y ≠ 0`. -/
def wTangent (a x y : F) : F := (x * x + x * x + x * x + a) * (y + y)⁻¹
/-- Third point from a slope. -/
def wThird (l x1 y1 x2 : F) : F × F :=
  let x3 := l * l - x1 - x2
  (x3, l * (x1 - x3) - y1)

def wAdd (a : F) : WPoint F → WPoint F → WPoint F
  | none, q => q
  | p, none => p
  | some (x1, y1), some (x2, y2) =>
    if x1 = x2 then
      if y1 + y2 = 0 then none
      else some (wThird (wTangent a x1 y1) x1 y1 x2)
    else some (wThird (wChord x1 y1 x2 y2) x1 y1 x2)

def wDouble (a : F) (p : WPoint F) : WPoint F := wAdd a p p
def wSub (a : F) (p q : WPoint F) : WPoint F := wAdd a p (wNeg q)

/-- Double-and-add, least significant bit first; `fuel` ≥ number of bits of `k`. -/
def wMulFuel (a : F) : Nat → Nat → WPoint F → WPoint F → WPoint F
  | 0, _, _, acc => acc
  | f + 1, k, base, acc =>
    if k = 0 then acc else
    wMulFuel a f (k / 2) (wAdd a base base) (if k % 2 = 1 then wAdd a acc base else acc)

/-- `k·P`. -/
def wMul (a : F) (k : Nat) (p : WPoint F) : WPoint F := wMulFuel a (k.log2 + 1) k p none

def wSum (a : F) (ps : List (WPoint F)) : WPoint F := ps.foldl (wAdd a) none

/-- Jacobian `(X : Y : Z)` ↦ affine `(X/Z², Y/Z³)`; `Z = 0` ↦ infinity. -/
def jacToAffine (x y z : F) : WPoint F :=
  if z = 0 then none else
  let zi := z⁻¹
  some (x * (zi * zi), y * (zi * zi * zi))

/-- Homogeneous `(X : Y : Z)` ↦ affine `(X/Z, Y/Z)`; `Z = 0` ↦ infinity. -/
def homToAffine (x y z : F) : WPoint F :=
  if z = 0 then none else
  let zi := z⁻¹
  some (x * zi, y * zi)

/-- Equality test of two Jacobian triples as `g1.rs` / `g2.rs` `ct_eq` performs it:
`x₁z₂² = x₂z₁²  ∧  y₁z₂³ = y₂z₁³`, identities (`z = 0`) compared separately. -/
def jacCtEq (x1 y1 z1 x2 y2 z2 : F) : Bool :=
  let id1 := decide (z1 = 0)
  let id2 := decide (z2 = 0)
  (id1 && id2) || (!id1 && !id2 &&
    decide (x1 * (z2 * z2) = x2 * (z1 * z1)) && decide (y1 * (z2 * z2) * z2 = y2 * (z1 * z1) * z1))

/-- Equality test of two homogeneous triples as `derive/curve.rs` `ct_eq` performs it. -/
def homCtEq (x1 y1 z1 x2 y2 z2 : F) : Bool :=
  let id1 := decide (z1 = 0)
  let id2 := decide (z2 = 0)
  (id1 && id2) || (!id1 && !id2 && decide (x1 * z2 = x2 * z1) && decide (y1 * z2 = y2 * z1))

end
end MidnightZK.C11
