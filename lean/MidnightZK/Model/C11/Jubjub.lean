import MidnightZK.Model.C11.Edwards
/-!
Model of `curves/src/jubjub/curve.rs`: the extended / affine-Niels / extended-Niels formulas,
doubling, scalar multiplication, the identity / small-order / torsion predicates, batch
normalisation and the 32-byte codec. Each definition names the Rust function it mirrors and
follows its arithmetic step by step (same intermediate values, same output coordinates), so the
correspondence harness compares raw `(U, V, Z, T1, T2)` tuples. Polymorphic in the field:
evaluated over `Fp r_BLS` by the driver, reasoned about over any field in `Props/C11.lean`.
Import-free.
-/
namespace MidnightZK.C11.Jubjub

/-- `JubjubExtended { u, v, z, t1, t2 }` : affine point `(u/z, v/z)`, `t1·t2 = u·v/z`. -/
structure Ext (F : Type) where
  u : F
  v : F
  z : F
  t1 : F
  t2 : F
  deriving DecidableEq, Repr

/-- `ExtendedNielsPoint { v_plus_u, v_minus_u, z, t2d }`. -/
structure ENiels (F : Type) where
  vpu : F
  vmu : F
  z : F
  t2d : F
  deriving DecidableEq, Repr

/-- `JubjubAffineNiels { v_plus_u, v_minus_u, t2d }`. -/
structure ANiels (F : Type) where
  vpu : F
  vmu : F
  t2d : F
  deriving DecidableEq, Repr

section
variable {F : Type} [Add F] [Sub F] [Mul F] [Neg F]

/-- `CompletedPoint::into_extended`. -/
def intoExtended (u v z t : F) : Ext F := ⟨u * t, v * z, z * t, u, v⟩

/-- `JubjubExtended::to_niels` (`d2 = EDWARDS_D2`). -/
def Ext.toNiels (d2 : F) (p : Ext F) : ENiels F := ⟨p.v + p.u, p.v - p.u, p.z, p.t1 * p.t2 * d2⟩

/-- `JubjubAffine::to_niels`. -/
def affToNiels (d2 : F) (p : F × F) : ANiels F := ⟨p.2 + p.1, p.2 - p.1, p.1 * p.2 * d2⟩

/-- `impl Add<&ExtendedNielsPoint> for &JubjubExtended`. -/
def addENiels (p : Ext F) (q : ENiels F) : Ext F :=
  let a := (p.v - p.u) * q.vmu
  let b := (p.v + p.u) * q.vpu
  let c := p.t1 * p.t2 * q.t2d
  let d := p.z * q.z + p.z * q.z
  intoExtended (b - a) (b + a) (d + c) (d - c)

/-- `impl Sub<&ExtendedNielsPoint> for &JubjubExtended`. -/
def subENiels (p : Ext F) (q : ENiels F) : Ext F :=
  let a := (p.v - p.u) * q.vpu
  let b := (p.v + p.u) * q.vmu
  let c := p.t1 * p.t2 * q.t2d
  let d := p.z * q.z + p.z * q.z
  intoExtended (b - a) (b + a) (d - c) (d + c)

/-- `impl Add<&JubjubAffineNiels> for &JubjubExtended`. -/
def addANiels (p : Ext F) (q : ANiels F) : Ext F :=
  let a := (p.v - p.u) * q.vmu
  let b := (p.v + p.u) * q.vpu
  let c := p.t1 * p.t2 * q.t2d
  let d := p.z + p.z
  intoExtended (b - a) (b + a) (d + c) (d - c)

/-- `impl Sub<&JubjubAffineNiels> for &JubjubExtended`. -/
def subANiels (p : Ext F) (q : ANiels F) : Ext F :=
  let a := (p.v - p.u) * q.vpu
  let b := (p.v + p.u) * q.vmu
  let c := p.t1 * p.t2 * q.t2d
  let d := p.z + p.z
  intoExtended (b - a) (b + a) (d - c) (d + c)

/-- `JubjubExtended::double` (dbl-2008-bbjlp). -/
def Ext.double (p : Ext F) : Ext F :=
  let uu := p.u * p.u
  let vv := p.v * p.v
  let zz2 := p.z * p.z + p.z * p.z
  let uv2 := (p.u + p.v) * (p.u + p.v)
  let vvpuu := vv + uu
  let vvmuu := vv - uu
  intoExtended (uv2 - vvpuu) vvpuu vvmuu (zz2 - vvmuu)

/-- `impl Neg for JubjubExtended`. -/
def Ext.neg (p : Ext F) : Ext F := ⟨-p.u, p.v, p.z, -p.t1, p.t2⟩

/-- `impl Add<&JubjubExtended> for &JubjubExtended` : `self + other.to_niels()`. -/
def Ext.add (d2 : F) (p q : Ext F) : Ext F := addENiels p (q.toNiels d2)
/-- `impl Sub<&JubjubExtended> for &JubjubExtended`. -/
def Ext.sub (d2 : F) (p q : Ext F) : Ext F := subENiels p (q.toNiels d2)

/-- `JubjubExtended::mul_by_cofactor`. -/
def Ext.mulByCofactor (p : Ext F) : Ext F := p.double.double.double

end

section
variable {F : Type} [Add F] [Sub F] [Mul F] [Neg F] [OfNat F 0] [OfNat F 1]

/-- `JubjubExtended::identity`. -/
def Ext.identity : Ext F := ⟨0, 1, 1, 0, 0⟩
/-- `ExtendedNielsPoint::identity`. -/
def ENiels.identity : ENiels F := ⟨1, 1, 1, 0⟩
/-- `JubjubAffineNiels::identity`. -/
def ANiels.identity : ANiels F := ⟨1, 1, 0⟩

/-- `From<JubjubAffine> for JubjubExtended` / `JubjubAffine::to_extended`. -/
def ofAffine (p : F × F) : Ext F := ⟨p.1, p.2, 1, p.1, p.2⟩

/-- The 252 bits consumed by `multiply` from a little-endian 32-byte scalar: most significant
first, the top four bits of the last byte skipped. -/
def scalarBits (k : Nat) : List Bool :=
  (List.range 252).reverse.map (fun i => k.testBit i)

/-- Loop of `ExtendedNielsPoint::multiply` over an explicit bit list (most significant first):
`acc = acc.double(); acc += conditional_select(&zero, self, bit)`. -/
def ENiels.multiplyBits (q : ENiels F) (bits : List Bool) (acc : Ext F) : Ext F :=
  bits.foldl (fun acc bit => addENiels acc.double (if bit then q else ENiels.identity)) acc

/-- `ExtendedNielsPoint::multiply` (double-and-add over `scalarBits`). -/
def ENiels.multiply (q : ENiels F) (k : Nat) : Ext F := q.multiplyBits (scalarBits k) Ext.identity

/-- Loop of `JubjubAffineNiels::multiply`. -/
def ANiels.multiplyBits (q : ANiels F) (bits : List Bool) (acc : Ext F) : Ext F :=
  bits.foldl (fun acc bit => addANiels acc.double (if bit then q else ANiels.identity)) acc

/-- `JubjubAffineNiels::multiply`. -/
def ANiels.multiply (q : ANiels F) (k : Nat) : Ext F := q.multiplyBits (scalarBits k) Ext.identity

/-- `JubjubExtended::multiply` : `self.to_niels().multiply(by)`. -/
def Ext.multiply (d2 : F) (p : Ext F) (k : Nat) : Ext F := (p.toNiels d2).multiply k

variable [DecidableEq F]

/-- `JubjubExtended::is_identity` : `u == 0 & v == z`. -/
def Ext.isIdentity (p : Ext F) : Bool := decide (p.u = 0) && decide (p.v = p.z)

/-- `impl ConstantTimeEq for JubjubExtended` (also `PartialEq`). -/
def Ext.ctEq (p q : Ext F) : Bool := decide (p.u * q.z = q.u * p.z) && decide (p.v * q.z = q.v * p.z)

/-- `JubjubExtended::is_small_order`. -/
def Ext.isSmallOrder (p : Ext F) : Bool := decide (p.double.double.u = 0)

/-- `JubjubExtended::is_torsion_free` (`r` = `FR_MODULUS_BYTES` as a number). -/
def Ext.isTorsionFree (d2 : F) (r : Nat) (p : Ext F) : Bool := (p.multiply d2 r).isIdentity

/-- `JubjubExtended::is_prime_order`. -/
def Ext.isPrimeOrder (d2 : F) (r : Nat) (p : Ext F) : Bool := p.isTorsionFree d2 r && !p.isIdentity

variable [Inv F]

/-- `From<&JubjubExtended> for JubjubAffine` : `(u/z, v/z)`. -/
def Ext.toAffine (p : Ext F) : F × F := (p.u * p.z⁻¹, p.v * p.z⁻¹)

/-- `JubjubExtended::batch_normalize` and the free function `batch_normalize`: value-wise equal
to `toAffine` of every element (the batched inversion leaves a zero `z` at zero, as `0⁻¹ = 0`). -/
def batchNormalize (ps : List (Ext F)) : List (F × F) := ps.map Ext.toAffine

end

/-! ### 32-byte codec (over `Fp q`) -/

section
variable {q : Nat}

/-- `JubjubAffine::to_bytes` as a 256-bit little-endian number: `v | (u mod 2) << 255`. -/
def toBytesNat (p : Fp q × Fp q) : Nat := p.2.v + (p.1.v % 2) * 2 ^ 255

/-- `JubjubAffine::from_bytes_inner(b, zip_216_enabled)`; input = the 32 bytes as a
little-endian number `< 2^256`. -/
def fromBytesInner (d : Fp q) (zip216 : Bool) (b : Nat) : Option (Fp q × Fp q) :=
  let sign := b / 2 ^ 255 % 2
  let vb := b % 2 ^ 255
  if vb ≥ q then none else          -- `Base::from_bytes_le` rejects non-canonical `v`
  let v : Fp q := ⟨vb⟩
  let v2 := v * v
  match ((v2 - 1) * (1 + d * v2)⁻¹).sqrt with
  | none => none
  | some u =>
    let flip := (u.v % 2) != sign
    let fu := if flip then -u else u
    if zip216 && u.v == 0 && flip then none else some (fu, v)

end

end MidnightZK.C11.Jubjub
