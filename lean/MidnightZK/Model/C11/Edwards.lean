import MidnightZK.Model.C11.Field
/-!
Affine group law of a twisted Edwards curve `a·x² + y² = 1 + d·x²·y²` (complete when `a` is a
square and `d` is not), the specification of the Jubjub types (`a = -1`, coordinates `(u, v)`)
and of the Curve25519 wrappers. Polymorphic in the coordinate field. Import-free.
-/
namespace MidnightZK.C11

section
variable {F : Type} [Add F] [Sub F] [Mul F] [Neg F] [Inv F] [OfNat F 0] [OfNat F 1] [DecidableEq F]

def eOnCurve (a d : F) (p : F × F) : Bool :=
  decide (a * (p.1 * p.1) + p.2 * p.2 = 1 + d * (p.1 * p.1) * (p.2 * p.2))

def eZero : F × F := (0, 1)

def eNeg (p : F × F) : F × F := (-p.1, p.2)

def eAdd (a d : F) (p q : F × F) : F × F :=
  let k := d * p.1 * q.1 * p.2 * q.2
  ((p.1 * q.2 + p.2 * q.1) * (1 + k)⁻¹, (p.2 * q.2 - a * p.1 * q.1) * (1 - k)⁻¹)

def eSub (a d : F) (p q : F × F) : F × F := eAdd a d p (eNeg q)

def eMulFuel (a d : F) : Nat → Nat → F × F → F × F → F × F
  | 0, _, _, acc => acc
  | f + 1, k, base, acc =>
    if k = 0 then acc else
    eMulFuel a d f (k / 2) (eAdd a d base base) (if k % 2 = 1 then eAdd a d acc base else acc)

/-- `k·P`. -/
def eMul (a d : F) (k : Nat) (p : F × F) : F × F := eMulFuel a d (k.log2 + 1) k p eZero

/-- The affine double-and-add schedule, most significant bit first, from accumulator `acc`:
the value `Σ bits·P` is computed as `acc ← 2·acc (+ P)`. -/
def eMulBits (a d : F) (bits : List Bool) (p acc : F × F) : F × F :=
  bits.foldl (fun acc b => let dd := eAdd a d acc acc; if b then eAdd a d dd p else dd) acc

def eSum (a d : F) (ps : List (F × F)) : F × F := ps.foldl (eAdd a d) eZero

end
end MidnightZK.C11
