import MidnightZK.Model.C11.Field
/-!
Curve parameters as published in the curve specifications (NOT read from the Rust sources: the
translator `translators/c11_constants.py` extracts what the Rust sources say into
`Gen/C11Constants.lean`, and `Props/C11.lean` proves the two agree). Import-free.
-/
namespace MidnightZK.C11.Params

/-- BLS12-381 base field modulus. -/
def blsP : Nat := 0x1a0111ea397fe69a4b1ba7b6434bacd764774b84f38512bf6730d2a0f6b0f6241eabfffeb153ffffb9feffffffffaaab
/-- BLS12-381 scalar field modulus = Jubjub base field modulus. -/
def blsR : Nat := 0x73eda753299d7d483339d80809a1d80553bda402fffe5bfeffffffff00000001
/-- BLS12-381 G1 generator. -/
def g1GenX : Nat := 0x17f1d3a73197d7942695638c4fa9ac0fc3688c4f9774b905a14e3a3f171bac586c55e83ff97a1aeffb3af00adb22c6bb
def g1GenY : Nat := 0x08b3f481e3aaa0f1a09e30ed741d8ae4fcf5e095d5d00af600db18cb2c04b3edd03cc744a2888ae40caa232946c5e7e1
/-- BLS12-381 G2 generator. -/
def g2GenX0 : Nat := 0x024aa2b2f08f0a91260805272dc51051c6e47ad4fa403b02b4510b647ae3d1770bac0326a805bbefd48056c8c121bdb8
def g2GenX1 : Nat := 0x13e02b6052719f607dacd3a088274f65596bd0d09920b61ab5da61bbdc7f5049334cf11213945d57e5ac7d055d042b7e
def g2GenY0 : Nat := 0x0ce5d527727d6e118cc9cdc6da2e351aadfd9baa8cbdd3a76d429a695160d12c923ac9cc3baca289e193548608b82801
def g2GenY1 : Nat := 0x0606c4a02ea734cc32acd2b02bc28b99cb3e287e85a763af267492ab572e99ab3f370d275cec1da1aaa9075ff05f79be
/-- A primitive cube root of unity of the BLS12-381 base field (`ZETA_BASE`). -/
def blsZeta : Nat := 0x1a0111ea397fe699ec02408663d4de85aa0d857d89759ad4897d29650fb85f9b409427eb4f49fffd8bfd00000000aaac

/-- Jubjub scalar field modulus (order of the prime subgroup). -/
def jjR : Nat := 0x0e7db4ea6533afa906673b0101343b00a6682093ccc81082d0970e5ed6f72cb7
/-- Jubjub `d = -(10240/10241) mod blsR`. -/
def jjD : Nat := 0x2a9318e74bfa2b48f5fd9207e6bd7fd4292d7f6d37579d2601065fd6d6343eb1
def jjD2 : Nat := (2 * jjD) % blsR
/-- Jubjub full generator of `curve.rs` (lowest positive `v`, positive `u`). -/
def jjGenU : Nat := 0x62edcbb8bf3787c88b0f03ddd60a8187caf55d1b29bf81afe4b3d35df1a7adfe
def jjGenV : Nat := 0xb

/-- secp256k1. -/
def secpP : Nat := 2 ^ 256 - 2 ^ 32 - 977
def secpN : Nat := 0xfffffffffffffffffffffffffffffffebaaedce6af48a03bbfd25e8cd0364141
def secpGenX : Nat := 0x79be667ef9dcbbac55a06295ce870b07029bfcdb2dce28d959f2815b16f81798
def secpGenY : Nat := 0x483ada7726a3c4655da4fbfc0e1108a8fd17b448a68554199c47d08ffb10d4b8

/-- Curve25519 (edwards25519). -/
def edP : Nat := 2 ^ 255 - 19
def edL : Nat := 2 ^ 252 + 27742317777372353535851937790883648493
/-- `d = -121665/121666 mod edP`. -/
def edD : Nat := 0x52036cee2b6ffe738cc740797779e89800700a4d4141d8ab75eb4dca135978a3
def edGenX : Nat := 0x216936d3cd6e53fec0a4e231fdd6dc5c692cc7609525a7b2c9562d608f25d51a
def edGenY : Nat := 0x6666666666666666666666666666666666666666666666666666666666666658

/-- BN254. -/
def bnP : Nat := 0x30644e72e131a029b85045b68181585d97816a916871ca8d3c208c16d87cfd47
def bnR : Nat := 0x30644e72e131a029b85045b68181585d2833e84879b9709143e1f593f0000001
/-- BN254 twist coefficient `b' = 3/(9+u)`. -/
def bnB2c0 : Nat := 0x2b149d40ceb8aaae81be18991be06ac3b5b4c5e559dbefa33267e6dc24a138e5
def bnB2c1 : Nat := 0x009713b03af0fed4cd2cafadeed8fdf4a74fa084e52d1852e4a2bd0685c315d2
def bnG2X0 : Nat := 0x1800deef121f1e76426a00665e5c4479674322d4f75edadd46debd5cd992f6ed
def bnG2X1 : Nat := 0x198e9393920d483a7260bfb731fb5d25f1aa493335a9e71297e485b7aef312c2
def bnG2Y0 : Nat := 0x12c85ea5db8c6deb4aab71808dcb408fe3d1e7690c43d37b4ce6cc0166fa7daa
def bnG2Y1 : Nat := 0x090689d0585ff075ec9e99ad690c3395bc4b313370b38ef355acdadcd122975b
/-- `Fq::ZETA` of BN254 (cube root of unity of the base field). -/
def bnZeta : Nat := 0x30644e72e131a0295e6dd9e7e0acccb0c28f069fbb966e3de4bd44e5607cfd48

end MidnightZK.C11.Params
