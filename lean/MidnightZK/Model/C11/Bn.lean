import MidnightZK.Model.C11.Weierstrass
/-!
Model of `curves/src/derive/curve.rs` (`new_curve_impl!`, the `a = 0` branches used by BN254
G1/G2): homogeneous projective points `(X : Y : Z)`, the complete Renes–Costello–Batina
formulas (Algorithms 7, 8, 9 of eprint 2015/1060) transcribed step by step, the identity
selects, `to_affine`, `jacobian_coordinates`, `new_jacobian`, `is_on_curve`, `ct_eq`, `endo`,
`batch_normalize`, scalar multiplication. `b3 = 3·b` (`mul_by_3b`). Polymorphic in the field.
Import-free.
-/
namespace MidnightZK.C11.Bn

/-- `$name { x, y, z }`. -/
structure Proj (F : Type) where
  x : F
  y : F
  z : F
  deriving DecidableEq, Repr

section
variable {F : Type} [Add F] [Sub F] [Mul F] [Neg F]

/-- `impl Add<&$name> for &$name`, Algorithm 7. -/
def addRaw (b3 : F) (p q : Proj F) : Proj F :=
  let t0 := p.x * q.x
  let t1 := p.y * q.y
  let t2 := p.z * q.z
  let t3 := p.x + p.y
  let t4 := q.x + q.y
  let t3 := t3 * t4
  let t4 := t0 + t1
  let t3 := t3 - t4
  let t4 := p.y + p.z
  let x3 := q.y + q.z
  let t4 := t4 * x3
  let x3 := t1 + t2
  let t4 := t4 - x3
  let x3 := p.x + p.z
  let y3 := q.x + q.z
  let x3 := x3 * y3
  let y3 := t0 + t2
  let y3 := x3 - y3
  let x3 := t0 + t0
  let t0 := x3 + t0
  let t2 := t2 * b3
  let z3 := t1 + t2
  let t1 := t1 - t2
  let y3 := y3 * b3
  let x3 := t4 * y3
  let t2 := t3 * t1
  let x3 := t2 - x3
  let y3 := y3 * t0
  let t1 := t1 * z3
  let y3 := t1 + y3
  let t0 := t0 * t3
  let z3 := z3 * t4
  let z3 := z3 + t0
  ⟨x3, y3, z3⟩

/-- `impl Add<&$name_affine> for &$name`, Algorithm 8, before the identity select. -/
def addMixedRaw (b3 : F) (p : Proj F) (qx qy : F) : Proj F :=
  let t0 := p.x * qx
  let t1 := p.y * qy
  let t3 := qx + qy
  let t4 := p.x + p.y
  let t3 := t3 * t4
  let t4 := t0 + t1
  let t3 := t3 - t4
  let t4 := qy * p.z
  let t4 := t4 + p.y
  let y3 := qx * p.z
  let y3 := y3 + p.x
  let x3 := t0 + t0
  let t0 := x3 + t0
  let t2 := p.z * b3
  let z3 := t1 + t2
  let t1 := t1 - t2
  let y3 := y3 * b3
  let x3 := t4 * y3
  let t2 := t3 * t1
  let x3 := t2 - x3
  let y3 := y3 * t0
  let t1 := t1 * z3
  let y3 := t1 + y3
  let t0 := t0 * t3
  let z3 := z3 * t4
  let z3 := z3 + t0
  ⟨x3, y3, z3⟩

/-- `Group::double`, Algorithm 9, before the identity select. -/
def doubleRaw (b3 : F) (p : Proj F) : Proj F :=
  let t0 := p.y * p.y
  let z3 := t0 + t0
  let z3 := z3 + z3
  let z3 := z3 + z3
  let t1 := p.y * p.z
  let t2 := p.z * p.z
  let t2 := t2 * b3
  let x3 := t2 * z3
  let y3 := t0 + t2
  let z3 := t1 * z3
  let t1 := t2 + t2
  let t2 := t1 + t2
  let t0 := t0 - t2
  let y3 := t0 * y3
  let y3 := x3 + y3
  let t1 := p.x * p.y
  let x3 := t0 * t1
  let x3 := x3 + x3
  ⟨x3, y3, z3⟩

/-- `impl Neg for &$name`. -/
def Proj.neg (p : Proj F) : Proj F := ⟨p.x, -p.y, p.z⟩

/-- `CurveExt::jacobian_coordinates` : homogeneous → Jacobian `(X·Z, Y·Z², Z)`. -/
def jacobianCoordinates (p : Proj F) : F × F × F := (p.x * p.z, p.y * (p.z * p.z), p.z)

/-- `CurveExt::endo`. -/
def endo (zeta : F) (p : Proj F) : Proj F := ⟨p.x * zeta, p.y, p.z⟩

end

section
variable {F : Type} [Add F] [Sub F] [Mul F] [Neg F] [Inv F] [OfNat F 0] [OfNat F 1] [DecidableEq F]

/-- `Group::identity` : `(0, 1, 0)`. -/
def Proj.identity : Proj F := ⟨0, 1, 0⟩
/-- `Group::is_identity` : `z == 0`. -/
def Proj.isIdentity (p : Proj F) : Bool := decide (p.z = 0)

/-- `Group::double` with its select. -/
def double (b3 : F) (p : Proj F) : Proj F := if p.isIdentity then Proj.identity else doubleRaw b3 p

/-- Mixed addition with its select: `conditional_select(&tmp, self, rhs.is_identity())`;
the affine identity is `(0, 0)`. -/
def addMixed (b3 : F) (p : Proj F) (q : WPoint F) : Proj F :=
  match q with
  | none => p
  | some (qx, qy) => addMixedRaw b3 p qx qy

/-- `PrimeCurveAffine::to_curve`. -/
def ofAffine : WPoint F → Proj F
  | none => Proj.identity
  | some (x, y) => ⟨x, y, 1⟩

/-- `Curve::to_affine` : `zinv = z.invert().unwrap_or(0)`, identity when `zinv` is zero. -/
def toAffine (p : Proj F) : WPoint F :=
  let zi := p.z⁻¹
  if zi = 0 then none else some (p.x * zi, p.y * zi)

/-- `CurveExt::is_on_curve` (`a = 0`): `Z·Y² - X³ = Z³·b  |  Z = 0`. -/
def isOnCurve (b : F) (p : Proj F) : Bool :=
  decide (p.z * (p.y * p.y) - p.x * p.x * p.x = p.z * p.z * p.z * b) || decide (p.z = 0)

/-- `CurveAffine::is_on_curve` (`a = 0`): `y² - x³ = b | identity`; the affine identity is `(0,0)`. -/
def affIsOnCurve (b : F) (x y : F) : Bool :=
  decide (y * y - x * x * x = b) || (decide (x = 0) && decide (y = 0))

/-- `CurveExt::new_jacobian`. -/
def newJacobian (b : F) (x y z : F) : Option (Proj F) :=
  let zi := z⁻¹
  let p : Proj F := ⟨x * zi, if z = 0 then 1 else y * (zi * zi), z⟩
  if isOnCurve b p then some p else none

/-- `impl ConstantTimeEq for $name` (also `PartialEq`). -/
def ctEq (p q : Proj F) : Bool :=
  let bothId := p.isIdentity && q.isIdentity
  bothId || (!p.isIdentity && !q.isIdentity &&
    decide (p.x * q.z = q.x * p.z) && decide (p.y * q.z = q.y * p.z))

/-- `impl Mul<&$scalar> for &$name`: double-and-add over the 256 bits of the little-endian
`to_repr()`, most significant first: `acc = acc.double(); acc = select(acc, acc + self, bit)`. -/
def mulBits (b3 : F) (p : Proj F) (bits : List Bool) (acc : Proj F) : Proj F :=
  bits.foldl (fun acc bit => let d := double b3 acc; if bit then addRaw b3 d p else d) acc

def scalarBits (k : Nat) : List Bool := (List.range 256).reverse.map (fun i => k.testBit i)

def mul (b3 : F) (p : Proj F) (k : Nat) : Proj F := mulBits b3 p (scalarBits k) Proj.identity

/-- `impl Mul<&$scalar> for &$name_affine`: the same loop with the mixed addition. -/
def mulAffine (b3 : F) (q : WPoint F) (k : Nat) : Proj F :=
  (scalarBits k).foldl (fun acc bit => let d := double b3 acc; if bit then addMixed b3 d q else d)
    Proj.identity

/-- `Curve::batch_normalize`: value-wise `to_affine` (identities, `z = 0`, are skipped by the
batched inversion and mapped to the affine identity). -/
def batchNormalize (ps : List (Proj F)) : List (WPoint F) := ps.map toAffine

end
end MidnightZK.C11.Bn
