import MidnightZK.Model.Common
import MidnightZK.Model.C01.GraphEval
import MidnightZK.Model.C02.Parse
/-!
Executable instantiation of the graph compiler over the BLS12-381 scalar field (`Fin r`, whose
`Lean.Grind.CommRing` instance is provided by core) and canonical rendering of a compiled graph,
in the format of the hook `ProvingKey::verif_custom_gates_graph`.
-/
namespace MidnightZK.C01.Graph
open MidnightZK

def rMod : Nat := 0x73eda753299d7d483339d80809a1d80553bda402fffe5bfeffffffff00000001
instance : NeZero rMod := ⟨by decide⟩
abbrev Fr := Fin rMod

/-- The derived `PartialOrd` of `ValueSource`: variant order, then fields lexicographically. -/
def vsRank : VS → Nat × Nat × Nat
  | .const i => (0, i, 0)
  | .inter i => (1, i, 0)
  | .fixed c r => (2, c, r)
  | .advice c r => (3, c, r)
  | .inst c r => (4, c, r)
  | .chal i => (5, i, 0)

def vsLe (a b : VS) : Bool :=
  let (a0, a1, a2) := vsRank a
  let (b0, b1, b2) := vsRank b
  a0 < b0 || (a0 == b0 && (a1 < b1 || (a1 == b1 && a2 ≤ b2)))

def ofC02 : C02.Expr → Expr Fr
  | .const c => .const (Fin.ofNat rMod c)
  | .fixed c r => .fixed c r
  | .advice c r => .advice c r
  | .inst c r => .inst c r
  | .challenge i => .challenge i
  | .neg e => .neg (ofC02 e)
  | .sum a b => .sum (ofC02 a) (ofC02 b)
  | .prod a b => .prod (ofC02 a) (ofC02 b)
  | .scaled e c => .scaled (ofC02 e) (Fin.ofNat rMod c)

/-- `Evaluator::new`: all gate polynomials are added to one graph, in order. -/
def compileAll (es : List (Expr Fr)) : G Fr × List VS :=
  es.foldl (fun (acc : G Fr × List VS) e => let (g, v) := addExpr vsLe e acc.1; (g, acc.2 ++ [v])) (G.init, [])

def fmtVS : VS → String
  | .const i => s!"c{i}"
  | .inter i => s!"t{i}"
  | .fixed c r => s!"f{c}.{r}"
  | .advice c r => s!"a{c}.{r}"
  | .inst c r => s!"i{c}.{r}"
  | .chal i => s!"h{i}"

def fmtCalc : Calc → String
  | .add a b => s!"add({fmtVS a},{fmtVS b})"
  | .sub a b => s!"sub({fmtVS a},{fmtVS b})"
  | .mul a b => s!"mul({fmtVS a},{fmtVS b})"
  | .square a => s!"square({fmtVS a})"
  | .double a => s!"double({fmtVS a})"
  | .negate a => s!"negate({fmtVS a})"
  | .store a => s!"store({fmtVS a})"

/-- `consts=… rots=… calcs=… parts=…` -/
def render (es : List (Expr Fr)) : String :=
  let (g, parts) := compileAll es
  let consts := ",".intercalate (g.constants.map fun c => toHex c.val)
  let rots := if g.rotations.isEmpty then "-" else ",".intercalate (g.rotations.map toString)
  let calcs := if g.calcs.isEmpty then "-" else ";".intercalate (g.calcs.zipIdx.map fun (c, i) => s!"t{i}={fmtCalc c}")
  let ps := if parts.isEmpty then "-" else ",".intercalate (parts.map fmtVS)
  s!"consts={consts} rots={rots} calcs={calcs} parts={ps}"

/-! ### the lookup and trash graphs of `Evaluator::new` -/

def renderGraph (consts : List Fr) (rots : List Int) (calcLines : List String) : String :=
  let cs := ",".intercalate (consts.map fun c => toHex c.val)
  let rs := if rots.isEmpty then "-" else ",".intercalate (rots.map toString)
  let cl := if calcLines.isEmpty then "-" else ";".intercalate calcLines
  s!"consts={cs} rots={rs} calcs={cl}"

def compileInto (g : G Fr) (es : List (Expr Fr)) : G Fr × List VS :=
  es.foldl (fun (acc : G Fr × List VS) e => let (g, v) := addExpr vsLe e acc.1; (g, acc.2 ++ [v])) (g, [])

/-- Stand-in for a `Calculation::Horner` slot inside the list of calculations (the model's `Calc`
has no Horner constructor: `add_expression` never emits one). It keeps the numbering of the
intermediates that follow; it could only collide with a real calculation if an expression queried
challenge number `4294967295`. -/
def hornerSlot : Calc := .store (.chal 4294967295)

def fmtParts (parts : List VS) : String := ",".intercalate (parts.map fmtVS)

/-- `evaluation.rs: Evaluator::new`, the loop `for trash in cs.trashcans`: the constraint
expressions compiled into a fresh graph, then `Horner(Constant(0), parts, TrashChallenge)`. -/
def renderTrash (es : List (Expr Fr)) : String :=
  let (g, parts) := compileInto G.init es
  let lines := g.calcs.zipIdx.map fun (c, i) => s!"t{i}={fmtCalc c}"
  renderGraph g.constants g.rotations (lines ++ [s!"t{g.calcs.length}=horner(c0;{fmtParts parts};trash)"])

/-- `evaluation.rs: Evaluator::new`, the loop `for lookup in cs.lookups`: input expressions, their
Horner with `theta`, table expressions (same graph: constants, rotations and calculations of the
inputs are reused), their Horner (`add_calculation` reuses the first one when the parts are the
same), `table + gamma`, `input + beta`, product. -/
def renderLookup (ins tabs : List (Expr Fr)) : String :=
  let (g1, p1) := compileInto G.init ins
  let k1 := g1.calcs.length
  let (g2, p2) := compileInto { g1 with calcs := g1.calcs ++ [hornerSlot] } tabs
  let k2 := g2.calcs.length
  let lines := g2.calcs.zipIdx.map fun (c, i) =>
    if i = k1 then s!"t{i}=horner(c0;{fmtParts p1};theta)" else s!"t{i}={fmtCalc c}"
  let (h2, lines, nxt) :=
    if p2 = p1 then (k1, lines, k2) else (k2, lines ++ [s!"t{k2}=horner(c0;{fmtParts p2};theta)"], k2 + 1)
  renderGraph g2.constants g2.rotations
    (lines ++ [s!"t{nxt}=add(t{h2},gamma)", s!"t{nxt + 1}=add(t{k1},beta)", s!"t{nxt + 2}=mul(t{nxt + 1},t{nxt})"])

end MidnightZK.C01.Graph
