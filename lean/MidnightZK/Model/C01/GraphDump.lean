import MidnightZK.Model.Common
import MidnightZK.Model.C01.GraphEval
import MidnightZK.Model.C02.Parse
/-!
Executable instantiation of the graph compiler over the BLS12-381 scalar field (`Fin r`, whose
`Lean.Grind.CommRing` instance is provided by core) and canonical rendering of a compiled graph,
in the format of the hook `ProvingKey::verif_custom_gates_graph`.
-/
namespace MidnightZK.C01.Graph
open MidnightZK

def rMod : Nat := 0x73eda753299d7d483339d80809a1d80553bda402fffe5bfeffffffff00000001
instance : NeZero rMod := ⟨by decide⟩
abbrev Fr := Fin rMod

/-- The derived `PartialOrd` of `ValueSource`: variant order, then fields lexicographically. -/
def vsRank : VS → Nat × Nat × Nat
  | .const i => (0, i, 0)
  | .inter i => (1, i, 0)
  | .fixed c r => (2, c, r)
  | .advice c r => (3, c, r)
  | .inst c r => (4, c, r)
  | .chal i => (5, i, 0)

def vsLe (a b : VS) : Bool :=
  let (a0, a1, a2) := vsRank a
  let (b0, b1, b2) := vsRank b
  a0 < b0 || (a0 == b0 && (a1 < b1 || (a1 == b1 && a2 ≤ b2)))

def ofC02 : C02.Expr → Expr Fr
  | .const c => .const (Fin.ofNat rMod c)
  | .fixed c r => .fixed c r
  | .advice c r => .advice c r
  | .inst c r => .inst c r
  | .challenge i => .challenge i
  | .neg e => .neg (ofC02 e)
  | .sum a b => .sum (ofC02 a) (ofC02 b)
  | .prod a b => .prod (ofC02 a) (ofC02 b)
  | .scaled e c => .scaled (ofC02 e) (Fin.ofNat rMod c)

/-- `Evaluator::new`: all gate polynomials are added to one graph, in order. -/
def compileAll (es : List (Expr Fr)) : G Fr × List VS :=
  es.foldl (fun (acc : G Fr × List VS) e => let (g, v) := addExpr vsLe e acc.1; (g, acc.2 ++ [v])) (G.init, [])

def fmtVS : VS → String
  | .const i => s!"c{i}"
  | .inter i => s!"t{i}"
  | .fixed c r => s!"f{c}.{r}"
  | .advice c r => s!"a{c}.{r}"
  | .inst c r => s!"i{c}.{r}"
  | .chal i => s!"h{i}"

def fmtCalc : Calc → String
  | .add a b => s!"add({fmtVS a},{fmtVS b})"
  | .sub a b => s!"sub({fmtVS a},{fmtVS b})"
  | .mul a b => s!"mul({fmtVS a},{fmtVS b})"
  | .square a => s!"square({fmtVS a})"
  | .double a => s!"double({fmtVS a})"
  | .negate a => s!"negate({fmtVS a})"
  | .store a => s!"store({fmtVS a})"

/-- `consts=… rots=… calcs=… parts=…` -/
def render (es : List (Expr Fr)) : String :=
  let (g, parts) := compileAll es
  let consts := ",".intercalate (g.constants.map fun c => toHex c.val)
  let rots := if g.rotations.isEmpty then "-" else ",".intercalate (g.rotations.map toString)
  let calcs := if g.calcs.isEmpty then "-" else ";".intercalate (g.calcs.zipIdx.map fun (c, i) => s!"t{i}={fmtCalc c}")
  let ps := if parts.isEmpty then "-" else ",".intercalate (parts.map fmtVS)
  s!"consts={consts} rots={rots} calcs={calcs} parts={ps}"

end MidnightZK.C01.Graph
