/-!
# `get_rotation_idx` (model)

Mirrors `proofs/src/plonk/evaluation.rs: get_rotation_idx`: the index, in a polynomial of `isize`
evaluations on the (extended) domain, of the value a query at rotation `rot` reads when the row
being evaluated is `idx`: `((idx as i32) + rot * rot_scale).rem_euclid(isize) as usize` with
`rot_scale = 2^(extended_k − k)` on the extended domain (`1` on the un-extended one). The `i32`
arithmetic is modelled on unbounded integers (the harness profile has overflow checks on: an overflow
would be a panic, not a wrong index). Import-free.
-/
namespace MidnightZK.C01.Rot

/-- `evaluation.rs: get_rotation_idx`. `Int.emod` is the Euclidean remainder (`rem_euclid`). -/
def getRotationIdx (idx : Nat) (rot rotScale isize : Int) : Nat :=
  (((idx : Int) + rot * rotScale) % isize).toNat

end MidnightZK.C01.Rot
