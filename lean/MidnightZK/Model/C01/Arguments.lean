/-!
# Permutation, lookup and trash arguments as the PROVER computes them (row-level model)

Executable, import-free mirror of

* `proofs/src/plonk/permutation/prover.rs: Argument::commit` — `permProducts`;
* `proofs/src/plonk/lookup/prover.rs: permute_expression_pair` — `permuteExpressionPair`,
  `Permuted::commit_product` — `lookupProduct`;
* `proofs/src/plonk/trash/prover.rs: Argument::commit` — `trashValues`;

and of the verifier-side rules, read on one row `i` of the domain (a polynomial in Lagrange
form evaluated at `ω^i` is its `i`-th value, at `ω·ω^i` its `(i+1) mod n`-th value, `l_0(ω^i) =
[i = 0]`, `l_last(ω^i) = [i = u]`, `l_blind(ω^i) = [u < i]` with `u = n − (blinding_factors+1)`):

* `proofs/src/plonk/permutation.rs: expressions` — `permExpressionsRow`;
* `proofs/src/plonk/lookup.rs: Evaluated::expressions` — `lookupExpressionsRow`;
* `proofs/src/plonk/trash.rs: Evaluated::expressions` — `trashExpressionRow`.

Vectors are `List F` (a `Polynomial<F, LagrangeCoeff>` has `n` entries); `F` is any type with
ring operations, field inversion is a parameter `inv` (`batch_invert` leaves zeros untouched,
i.e. `inv 0 = 0`); indexing `v[i]` is `v.getD i 0` (the Rust code would panic out of bounds).
Random blinding values are inputs (`rnd`). `parallelize` chunks are modelled by the sequential
loop they are equivalent to (every chunk starts from `deltaomega * omega^start`).
-/
namespace MidnightZK.C01.Args

section Ring
variable {F : Type} [Zero F] [One F] [Add F] [Sub F] [Mul F]

/-- `pow_vartime` (library routine, specified as the plain power). -/
def powN (x : F) : Nat → F
  | 0 => 1
  | k + 1 => powN x k * x

/-! ## permutation argument -/

/-- First column loop of `permutation/prover.rs: commit`:
`for ((m, value), permuted_value) in modified_values.iter_mut().zip(values).zip(permuted) {
   *m *= beta * permuted_value + gamma + value }` (a `zip` stops at the shortest vector). -/
def denCol (beta gamma : F) : List F → List F → List F → List F
  | m :: ms, v :: vs, s :: ss => m * (beta * s + gamma + v) :: denCol beta gamma ms vs ss
  | ms, _, _ => ms

/-- Second column loop of `commit`: `*m *= deltaomega * beta + gamma + value; deltaomega *= omega`
row after row, `deltaomega` starting at `dw` (= `δ^j` for column `j`). -/
def numCol (beta gamma omega : F) : F → List F → List F → List F
  | dw, m :: ms, v :: vs => m * (dw * beta + gamma + v) :: numCol beta gamma omega (dw * omega) ms vs
  | _, ms, _ => ms

/-- `z.push(last_z); for row in 1.. { z.push(z[row-1] * mv[row-1]) }` over the given `mv`s. -/
def scanMul : F → List F → List F
  | z, [] => [z]
  | z, m :: ms => z :: scanMul (z * m) ms

/-- Body of the `for (columns, permutations) in chunks` loop of `commit` for one set of columns
(`cols` = the pairs (column values, σ-label values `pkey.permutations[j]`) of the set).
Returns the vector `z` (after the blinding rows were overwritten by `rnd`) and the updated
`deltaomega`. -/
def permSet (inv : F → F) (n bf : Nat) (beta gamma delta omega : F) (deltaomega lastZ : F)
    (rnd : List F) (cols : List (List F × List F)) : List F × F :=
  -- let mut modified_values = vec![F::ONE; n]; first loop over the columns
  let den := cols.foldl (fun mv c => denCol beta gamma mv c.1 c.2) (List.replicate n 1)
  -- modified_values.batch_invert()
  let inverted := den.map inv
  -- second loop over the columns; `deltaomega *= &F::DELTA` after every column
  let r := cols.foldl (fun (st : List F × F) c => (numCol beta gamma omega st.2 st.1 c.1, st.2 * delta))
    (inverted, deltaomega)
  -- z[0] = last_z, z[row] = z[row-1] * modified_values[row-1] for row in 1..n
  let z := scanMul lastZ (r.1.take (n - 1))
  -- for z in &mut z[n - blinding_factors..] { *z = F::random(rng) }
  (z.take (n - bf) ++ rnd, r.2)

/-- The chunk loop of `commit`: `self.columns.chunks(chunk_len).zip(pkey.permutations.chunks(chunk_len))`
with the state `deltaomega`, `last_z` carried from one set to the next
(`last_z = z[n - (blinding_factors + 1)]`). `fuel` = number of columns. -/
def permLoop (inv : F → F) (chunkLen n bf : Nat) (beta gamma delta omega : F) (rnd : Nat → Nat → F) :
    Nat → F → F → Nat → List (List F × List F) → List (List F)
  | 0, _, _, _, _ => []
  | fuel + 1, dw, lastZ, k, cols =>
    if cols.isEmpty then [] else
    let r := permSet inv n bf beta gamma delta omega dw lastZ ((List.range bf).map (rnd k)) (cols.take chunkLen)
    r.1 :: permLoop inv chunkLen n bf beta gamma delta omega rnd fuel r.2 (r.1.getD (n - (bf + 1)) 0) (k + 1)
      (cols.drop chunkLen)

/-- `permutation/prover.rs: Argument::commit`: the running-product vectors `z_0, z_1, …` of all
column sets (`chunkLen = cs_degree − 2 ≥ 1`, `bf = blinding_factors`, `cols` = for every
permutation column, in order, its values and its σ-label values; `rnd k t` = `t`-th random
blinding value of set `k`). `deltaomega` and `last_z` start at `1`. -/
def permProducts (inv : F → F) (chunkLen n bf : Nat) (beta gamma delta omega : F) (rnd : Nat → Nat → F)
    (cols : List (List F × List F)) : List (List F) :=
  permLoop inv chunkLen n bf beta gamma delta omega rnd cols.length 1 1 0 cols

/-- `slice.chunks(m)` (the last chunk may be shorter); `fuel` = length. -/
def chunks {α : Type} (m : Nat) : Nat → List α → List (List α)
  | 0, _ => []
  | fuel + 1, l => if l.isEmpty then [] else l.take m :: chunks m fuel (l.drop m)

/-- The `left`/`right` products of the last rule of `permutation.rs: expressions` for one set on
row `i`: `left = z(ωx)·∏(eval + β·σ_eval + γ)`, `right = z(x)·∏(eval + current_delta + γ)` with
`current_delta = β·x·δ^(first column of the set)`, multiplied by `δ` after every column. -/
def permLeftRight (beta gamma delta : F) (x : F) (firstCol : Nat) (zNext zCur : F)
    (colsAtRow : List (F × F)) : F × F :=
  let left := colsAtRow.foldl (fun acc c => acc * (c.1 + beta * c.2 + gamma)) zNext
  let r := colsAtRow.foldl (fun (st : F × F) c => (st.1 * (c.1 + st.2 + gamma), st.2 * delta))
    (zCur, (beta * x) * powN delta firstCol)
  (left, r.1)

/-- `permutation.rs: expressions` read on row `i` (`x = ω^i`), for the product vectors `zs`:
`l_0·(1 − z_0)`, `(z_last² − z_last)·l_last`, `(z_s − z_{s−1}(ω^{−(bf+1)}x))·l_0` for `s ≥ 1`,
`(left_s − right_s)·(1 − (l_last + l_blind))` for every set. -/
def permExpressionsRow (chunkLen n bf : Nat) (beta gamma delta omega : F)
    (cols : List (List F × List F)) (zs : List (List F)) (i : Nat) : List F :=
  let u := n - (bf + 1)
  let l0 : F := if i = 0 then 1 else 0
  let lLast : F := if i = u then 1 else 0
  let lBlind : F := if u < i then 1 else 0
  let x := powN omega i
  let at' (z : List F) (r : Nat) : F := z.getD r 0
  (zs.head?.map (fun z => l0 * (1 - at' z i))).toList ++
  (zs.getLast?.map (fun z => (at' z i * at' z i - at' z i) * lLast)).toList ++
  ((zs.drop 1).zip zs).map (fun p => (at' p.1 i - at' p.2 ((i + u) % n)) * l0) ++
  ((zs.zip (chunks chunkLen cols.length cols)).zipIdx).map (fun p =>
    let z := p.1.1
    let lr := permLeftRight beta gamma delta x (p.2 * chunkLen) (at' z ((i + 1) % n)) (at' z i)
      (p.1.2.map (fun c => (c.1.getD i 0, c.2.getD i 0)))
    (lr.1 - lr.2) * (1 - (lLast + lBlind)))

/-! ## lookup argument: the grand product -/

/-- `iter::once(ONE).chain(lookup_product).scan(ONE, |state, cur| { *state *= cur; Some(*state) })` -/
def scanFrom : F → List F → List F
  | _, [] => []
  | st, c :: cs => (st * c) :: scanFrom (st * c) cs

/-- `lookup/prover.rs: Permuted::commit_product`: row `i` of `lookup_product` is
`inv((β + A'ᵢ)(γ + S'ᵢ)) · (Aᵢ + β) · (Sᵢ + γ)`; `z = scan(1 :: lookup_product)` cut after
`n − blinding_factors` rows, followed by the random blinding values `rnd`.
(`A`, `S` = compressed input/table expressions, `A'`, `S'` = permuted ones, all of length `n`.) -/
def lookupProduct (inv : F → F) (n bf : Nat) (beta gamma : F) (A S A' S' : List F) (rnd : List F) : List F :=
  let lp := (List.range n).map (fun i =>
    inv ((beta + A'.getD i 0) * (gamma + S'.getD i 0)) * (A.getD i 0 + beta) * (S.getD i 0 + gamma))
  (scanFrom 1 (1 :: lp)).take (n - bf) ++ rnd

/-- `lookup.rs: Evaluated::expressions` read on row `i`: `l_0·(1 − z)`, `l_last·(z² − z)`,
`(z(ωx)(a'+β)(s'+γ) − z(x)(a+β)(s+γ))·active`, `l_0·(a' − s')`,
`(a' − s')·(a' − a'(ω⁻¹x))·active` with `active = 1 − (l_last + l_blind)`. -/
def lookupExpressionsRow (n bf : Nat) (beta gamma : F) (A S A' S' z : List F) (i : Nat) : List F :=
  let u := n - (bf + 1)
  let l0 : F := if i = 0 then 1 else 0
  let lLast : F := if i = u then 1 else 0
  let lBlind : F := if u < i then 1 else 0
  let active := 1 - (lLast + lBlind)
  let zc := z.getD i 0
  let zn := z.getD ((i + 1) % n) 0
  let a' := A'.getD i 0
  let aInv := A'.getD ((i + (n - 1)) % n) 0
  let s' := S'.getD i 0
  let left := zn * (a' + beta) * (s' + gamma)
  let right := zc * (A.getD i 0 + beta) * (S.getD i 0 + gamma)
  [l0 * (1 - zc), lLast * (zc * zc - zc), (left - right) * active, l0 * (a' - s'),
   (a' - s') * (a' - aInv) * active]

/-- `lookup.rs: Evaluated::expressions` as a function of the EVALUATIONS the verifier holds
(`l_0`, `l_last`, `l_blind`, `β`, `γ`, compressed input/table `a`, `s`, `permuted_input_eval`,
`permuted_input_inv_eval`, `permuted_table_eval`, `product_eval`, `product_next_eval`) — the literal
mirror of the Rust closure chain; `lookupExpressionsRow` is this function on the values of row `i`
(`lookupExpressionsRow_eq_at`). -/
def lookupExprsAt (l0 lLast lBlind beta gamma a s a' aInv s' zc zn : F) : List F :=
  let active := 1 - (lLast + lBlind)
  let left := zn * (a' + beta) * (s' + gamma)
  let right := zc * (a + beta) * (s + gamma)
  [l0 * (1 - zc), lLast * (zc * zc - zc), (left - right) * active, l0 * (a' - s'),
   (a' - s') * (a' - aInv) * active]

theorem lookupExpressionsRow_eq_at (n bf : Nat) (beta gamma : F) (A S A' S' z : List F) (i : Nat) :
    lookupExpressionsRow n bf beta gamma A S A' S' z i =
      lookupExprsAt (if i = 0 then 1 else 0) (if i = n - (bf + 1) then 1 else 0)
        (if n - (bf + 1) < i then 1 else 0) beta gamma (A.getD i 0) (S.getD i 0) (A'.getD i 0)
        (A'.getD ((i + (n - 1)) % n) 0) (S'.getD i 0) (z.getD i 0) (z.getD ((i + 1) % n) 0) := rfl

/-! ## trash argument -/

/-- `acc + &expression` on Lagrange polynomials (`zip` of the value vectors). -/
def addInto : List F → List F → List F
  | a :: as, e :: es => (a + e) :: addInto as es
  | as, _ => as

/-- `trash/prover.rs: Argument::commit`: the trash column is the compression of the constraint
expressions, `fold(empty_lagrange, |acc, e| acc * trash_challenge + e)`, on ALL `n` rows
(`exprs` = value vectors of `constraint_expressions`). -/
def trashValues (n : Nat) (challenge : F) (exprs : List (List F)) : List F :=
  exprs.foldl (fun acc e => addInto (acc.map (· * challenge)) e) (List.replicate n 0)

/-- `lookup/prover.rs: commit_permuted: compress_expressions`: value vector of the compressed
input (or table) expressions, `fold(empty_lagrange, |acc, e| acc * theta + e)` — the same fold as
in `trash/prover.rs: commit`, with `theta` in place of the trash challenge. -/
def compressExpressions (n : Nat) (theta : F) (exprs : List (List F)) : List F :=
  trashValues n theta exprs

/-- The compressed expression the verifier computes from the evaluations
(`fold(ZERO, |acc, eval| acc * trash_challenge + eval)`), on row `i`. -/
def compressRow (challenge : F) (exprs : List (List F)) (i : Nat) : F :=
  exprs.foldl (fun acc e => acc * challenge + e.getD i 0) 0

/-- `trash.rs: Evaluated::expressions` on row `i`: `compressed − (1 − q)·trash`. -/
def trashExpressionRow (challenge : F) (q : List F) (exprs : List (List F)) (trash : List F) (i : Nat) : F :=
  compressRow challenge exprs i - (1 - q.getD i 0) * trash.getD i 0

/-- `trash.rs: Evaluated::expressions` as a function of the evaluations: `compressed − (1 − q)·trash`
with `compressed = fold(ZERO, |acc, eval| acc * trash_challenge + eval)`. -/
def trashExprAt (challenge q : F) (exprEvals : List F) (trash : F) : F :=
  exprEvals.foldl (fun acc e => acc * challenge + e) 0 - (1 - q) * trash

theorem trashExpressionRow_eq_at (challenge : F) (q : List F) (exprs : List (List F)) (trash : List F) (i : Nat) :
    trashExpressionRow challenge q exprs trash i =
      trashExprAt challenge (q.getD i 0) (exprs.map (fun e => e.getD i 0)) (trash.getD i 0) := by
  unfold trashExpressionRow trashExprAt compressRow
  rw [List.foldl_map]

end Ring

/-! ## lookup argument: `permute_expression_pair` -/

section Permute
variable {α : Type} [DecidableEq α]

/-- Outcome of `permute_expression_pair`: the pair `(A', S')`, `Err(ConstraintSystemFailure)`,
or a panic (`assert!(*count > 0)`, `pop().unwrap()`, `assert!(repeated_input_rows.is_empty())`). -/
inductive PermuteResult (α : Type) where
  | ok (permutedInput permutedTable : List α)
  | constraintSystemFailure
  | panic
  deriving DecidableEq, Repr

/-- Insertion into a sorted list. -/
def insertSorted (le : α → α → Bool) (x : α) : List α → List α
  | [] => [x]
  | y :: ys => if le x y then x :: y :: ys else y :: insertSorted le x ys

/-- `permuted_input_expression.sort()`. On a total order whose equal elements are identical
(`Ord` of field elements) every sorting algorithm returns the same vector; structural insertion
sort is used so that the kernel can evaluate the model. -/
def sortList (le : α → α → Bool) (l : List α) : List α := l.foldr (insertSorted le) []

/-- `*leftover_table_map.entry(c).or_insert(0) += 1` on an association list. -/
def mapIncr : List (α × Nat) → α → List (α × Nat)
  | [], c => [(c, 1)]
  | (k, v) :: t, c => if k = c then (k, v + 1) :: t else (k, v) :: mapIncr t c

/-- `leftover_table_map.get(c)`. -/
def mapGet : List (α × Nat) → α → Option Nat
  | [], _ => none
  | (k, v) :: t, c => if k = c then some v else mapGet t c

/-- `*count -= 1` for key `c` (the key stays in the map, possibly with count `0`). -/
def mapDecr : List (α × Nat) → α → List (α × Nat)
  | [], _ => []
  | (k, v) :: t, c => if k = c then (k, v - 1) :: t else (k, v) :: mapDecr t c

/-- Result of the `filter_map` pass over the sorted input: table vector (first occurrences
filled, `zero` elsewhere), `repeated_input_rows` (ascending), updated map. -/
inductive AssignResult (α : Type) where
  | ok (table : List α) (repeated : List Nat) (map : List (α × Nat))
  | constraintSystemFailure
  | panic

/-- The `filter_map` closure of `permute_expression_pair`, row by row over the sorted input
(`prev` = `permuted_input_expression[row − 1]`, `none` on row 0): a first occurrence
(`row == 0 || input_value != prev`) is copied into the table and removed once from the map
(`Err` when the key is absent, `assert!(*count > 0)`); a repeated value records its row. -/
def assignRows (zero : α) : Option α → Nat → List α → List (α × Nat) → AssignResult α
  | _, _, [], m => .ok [] [] m
  | prev, row, x :: xs, m =>
    if prev = some x then
      match assignRows zero (some x) (row + 1) xs m with
      | .ok tab rep m' => .ok (zero :: tab) (row :: rep) m'
      | e => e
    else
      match mapGet m x with
      | none => .constraintSystemFailure
      | some cnt =>
        if cnt = 0 then .panic else
        match assignRows zero (some x) (row + 1) xs (mapDecr m x) with
        | .ok tab rep m' => .ok (x :: tab) rep m'
        | e => e

/-- `for (coeff, count) in map { for _ in 0..count { table[rows.pop().unwrap()] = coeff } }`
with the leftovers flattened into `lo` and `stack` = `repeated_input_rows` read from its end.
`none` = the `unwrap` panics. -/
def fillLeftovers : List α → List Nat → List α → Option (List α × List Nat)
  | tab, st, [] => some (tab, st)
  | _, [], _ :: _ => none
  | tab, r :: st, c :: lo => fillLeftovers (tab.set r c) st lo

/-- `lookup/prover.rs: permute_expression_pair` on the first `u = usable_rows` entries of the
compressed input `A` and table `S`. `le` = the order `Ord` of the field, `zero = F::ZERO`,
`order` = the (unspecified) iteration order of the `HashMap` `leftover_table_map`, `blindA`,
`blindS` = the `blinding_factors + 1` random values appended to each vector. -/
def permuteExpressionPair (le : α → α → Bool) (zero : α) (order : List (α × Nat) → List (α × Nat))
    (u : Nat) (A S : List α) (blindA blindS : List α) : PermuteResult α :=
  -- permuted_input_expression.truncate(usable_rows); sort()
  let a := sortList le (A.take u)
  -- table_expression.iter().take(usable_rows).for_each(|c| *map.entry(c).or_insert(0) += 1)
  let m := (S.take u).foldl mapIncr []
  match assignRows zero none 0 a m with
  | .constraintSystemFailure => .constraintSystemFailure
  | .panic => .panic
  | .ok tab rep m' =>
    let lo := (order m').flatMap (fun kc => List.replicate kc.2 kc.1)
    match fillLeftovers tab rep.reverse lo with
    | none => .panic
    | some (tab', st) =>
      -- assert!(repeated_input_rows.is_empty())
      if st.isEmpty then .ok (a ++ blindA) (tab' ++ blindS) else .panic

end Permute

end MidnightZK.C01.Args
