import MidnightZK.Model.C01.GraphEval
/-!
# Gate expressions on the rows of an assignment table (model)

`rowEnv n t i` is the environment in which `GraphEvaluator::evaluate` (through
`evaluation.rs: get_rotation_idx` on the un-extended domain) and the row-by-row evaluation of
`lookup/prover.rs: compress_expressions` read the queried cells on row `i`: the query `(col, rot)`
reads the cell `(i + rot) mod n` of the column. `Proofs/C01/GateLift.lean` proves that the gate
polynomial takes the value `Expr.eval (rowEnv n t i)` at the node `ω^i`. Import-free.
-/
namespace MidnightZK.C01.Rows
open MidnightZK.C01.Graph

/-- The assignment table: value vectors (Lagrange form, length `n`) of the fixed, advice and
instance columns, and the challenge values. -/
structure Tbl (F : Type) where
  fixed : List (List F)
  advice : List (List F)
  inst : List (List F)
  challenges : List F

/-- The row a query at rotation `r` reads from row `i`: `(i + r) mod n` (Euclidean). -/
def rowAt (n : Nat) (i : Nat) (r : Int) : Nat := (((i : Int) + r) % (n : Int)).toNat

variable {F : Type} [Zero F]

/-- The environment of row `i`. Missing columns / rows read `0`. -/
def rowEnv (n : Nat) (t : Tbl F) (i : Nat) : Env F where
  fixed c r := (t.fixed.getD c []).getD (rowAt n i r) 0
  advice c r := (t.advice.getD c []).getD (rowAt n i r) 0
  inst c r := (t.inst.getD c []).getD (rowAt n i r) 0
  challenge k := t.challenges.getD k 0

/-- The (gate, row) pairs on which a gate expression is non-zero, gates in order, rows `0 … n−1`. -/
def gateViolations {F : Type} [Lean.Grind.CommRing F] [DecidableEq F] (n : Nat) (t : Tbl F)
    (gates : List (Expr F)) : List (Nat × Nat) :=
  gates.zipIdx.flatMap fun (g, gi) =>
    (List.range n).filterMap fun i => if g.eval (rowEnv n t i) = 0 then none else some (gi, i)

end MidnightZK.C01.Rows
