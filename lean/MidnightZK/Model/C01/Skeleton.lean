import MidnightZK.Model.C01.Schedule
/-!
# The schedule as a list of SEGMENTS, and the transcript call sites that produce them

`proverSchedule` / `verifierSchedule` (`Schedule.lean`) are concatenations of 22 segments in a fixed
order (`skeleton`). Each segment is produced by one or several consecutive transcript call sites of
`prover.rs: compute_trace` + `finalise_proof` (resp. `verifier.rs: parse_trace` +
`verify_algebraic_constraints`); `proverSites` / `verifierSites` list the call-site tokens — in the
format of `translators/c01_transcript.py`, which regenerates them from the sources on every run —
with the segment each belongs to. Import-free.
-/
namespace MidnightZK.C01.Skel
open MidnightZK.C01

/-- The segments of a proof transcript, in protocol order. -/
inductive Seg
  | vk | instances | advice | theta | lookupsPermuted | beta | gamma | permCommit | lookupsProduct
  | trashCh | trash | randomCom | y | hPieces | x | evals | randomEval | permCommonEvals | permEvals
  | lookupEvals | trashEvals | multiOpen
deriving DecidableEq, Repr

/-- The order of the segments (the same for prover and verifier). -/
def skeleton : List Seg :=
  [.vk, .instances, .advice, .theta, .lookupsPermuted, .beta, .gamma, .permCommit, .lookupsProduct,
   .trashCh, .trash, .randomCom, .y, .hPieces, .x, .evals, .randomEval, .permCommonEvals, .permEvals,
   .lookupEvals, .trashEvals, .multiOpen]

/-- The events of a segment on the prover's side. -/
def proverSeg (sh : Shape) (cfg : Cfg) : Seg → List Ev
  | .vk => [absorbF .vk]
  | .instances => proverInstances cfg
  | .advice => proverAdvice sh cfg
  | .theta => [squeeze .theta]
  | .lookupsPermuted => proverLookupsPermuted sh cfg
  | .beta => [squeeze .beta]
  | .gamma => [squeeze .gamma]
  | .permCommit => proverPermCommit sh cfg
  | .lookupsProduct => proverLookupsProduct sh cfg
  | .trashCh => [squeeze .trashCh]
  | .trash => proverTrash sh cfg
  | .randomCom => [elemG .randomCom]
  | .y => [squeeze .y]
  | .hPieces => proverHPieces sh
  | .x => [squeeze .x]
  | .evals => proverEvals sh cfg
  | .randomEval => [elemF .randomEval]
  | .permCommonEvals => (List.range sh.permCols).map (fun k => elemF (.permCommonEval k))
  | .permEvals => proverPermEvals sh cfg
  | .lookupEvals => proverLookupEvals sh cfg
  | .trashEvals => proverTrashEvals sh cfg
  | .multiOpen => proverMultiOpen (proverQueries sh cfg)

/-- The events of a segment on the verifier's side. -/
def verifierSeg (sh : Shape) (cfg : Cfg) : Seg → List Ev
  | .vk => [absorbF .vk]
  | .instances => verifierInstances cfg
  | .advice => verifierAdvice sh cfg
  | .theta => [squeeze .theta]
  | .lookupsPermuted => verifierLookupsPermuted sh cfg
  | .beta => [squeeze .beta]
  | .gamma => [squeeze .gamma]
  | .permCommit => verifierPermCommit sh cfg
  | .lookupsProduct => verifierLookupsProduct sh cfg
  | .trashCh => [squeeze .trashCh]
  | .trash => verifierTrash sh cfg
  | .randomCom => [elemG .randomCom]
  | .y => [squeeze .y]
  | .hPieces => verifierHPieces sh
  | .x => [squeeze .x]
  | .evals => verifierEvals sh cfg
  | .randomEval => [elemF .randomEval]
  | .permCommonEvals => (List.range sh.permCols).map (fun k => elemF (.permCommonEval k))
  | .permEvals => verifierPermEvals sh cfg
  | .lookupEvals => verifierLookupEvals sh cfg
  | .trashEvals => verifierTrashEvals sh cfg
  | .multiOpen => verifierMultiOpen (verifierQueries sh cfg)

/-- `prover.rs: compute_trace` then `finalise_proof`: every transcript call site, in textual order,
with the segment it writes. -/
def proverSites : List (String × Seg) :=
  [("call:pk.vk.hash_into", .vk), ("call:compute_instances", .instances), ("call:parse_advices", .advice),
   ("squeeze:theta", .theta), ("call:lookup.commit_permuted", .lookupsPermuted), ("squeeze:beta", .beta),
   ("squeeze:gamma", .gamma), ("call:pk.vk.cs.permutation.commit", .permCommit),
   ("call:lookup.commit_product", .lookupsProduct), ("squeeze:trash_challenge", .trashCh),
   ("call:trash.commit", .trash), ("call:vanishing::Argument::commit", .randomCom), ("squeeze:y", .y),
   -- finalise_proof
   ("call:vanishing.construct", .hPieces), ("squeeze:x", .x), ("call:write_evals_to_transcript", .evals),
   ("call:vanishing.evaluate", .randomEval), ("call:pk.permutation.evaluate", .permCommonEvals),
   ("call:permutation.evaluate", .permEvals), ("call:p.evaluate/3", .lookupEvals),
   ("call:p.evaluate/2", .trashEvals), ("call:CS::multi_open", .multiOpen)]

/-- `verifier.rs: parse_trace` then `verify_algebraic_constraints`. The instances are absorbed by
three `common` sites (commitment; length; value), the advice segment is the `read` of a commitment
and the `squeeze` of a phase challenge, the evaluations are one `read` and two `read_n`. -/
def verifierSites : List (String × Seg) :=
  [("call:vk.hash_into", .vk), ("common", .instances), ("common", .instances), ("common", .instances),
   ("read", .advice), ("squeeze:challenge", .advice), ("squeeze:theta", .theta),
   ("call:argument.read_permuted_commitments", .lookupsPermuted), ("squeeze:beta", .beta),
   ("squeeze:gamma", .gamma), ("call:vk.cs.permutation.read_product_commitments", .permCommit),
   ("call:lookup.read_product_commitment", .lookupsProduct), ("squeeze:trash_challenge", .trashCh),
   ("call:argument.read_committed", .trash),
   ("call:vanishing::Argument::read_commitments_before_y", .randomCom), ("squeeze:y", .y),
   -- verify_algebraic_constraints
   ("call:vanishing.read_commitments_after_y", .hPieces), ("squeeze:x", .x), ("read", .evals),
   ("call:read_n/2", .evals), ("call:read_n/2", .evals), ("call:vanishing.evaluate_after_x", .randomEval),
   ("call:vk.permutation.evaluate", .permCommonEvals), ("call:permutation.evaluate", .permEvals),
   ("call:lookup.evaluate", .lookupEvals), ("call:trash.evaluate", .trashEvals),
   ("call:CS::multi_prepare", .multiOpen)]

/-- Collapse runs of equal neighbours (several call sites feeding one segment). -/
def dedupAdj : List Seg → List Seg
  | a :: b :: t => if a = b then dedupAdj (b :: t) else a :: dedupAdj (b :: t)
  | l => l

/-- The token list of a function in a generated table (`[]` when absent). -/
def fnTokens (tbl : List (String × List String)) (name : String) : List String :=
  match tbl.find? (fun e => e.1 = name) with
  | some e => e.2
  | none => []

/-! ### the argument files -/

/-- The names carried by the call sites of one function of an argument file (`[]` when absent). -/
def argNames (tbl : List (String × String × List (String × List String))) (file fn : String) : List String :=
  match tbl.find? (fun e => e.1 = file ∧ e.2.1 = fn) with
  | some e => e.2.2.flatMap (·.2)
  | none => []

/-- The operations of every function of the argument files that touches the transcript, in textual
order — the model's reading: `commit_permuted` writes `lookupIn`, `lookupTab`; `commit_product`
`lookupProd`; `lookup evaluate` one write site inside the loop over the five evaluations
(`lookupEval p l 0..4`); `permutation commit` one `permProd` per column set (loop);
`permutation::ProvingKey::evaluate` the common evaluations (loop); `permutation evaluate#2`
`permEval p s 0`, `1` (loop over the two) and `permEval p s 2` (all sets but the last);
`trash commit` / `evaluate`; `vanishing commit` (`randomCom`), `construct` (`hPiece j`, loop),
`evaluate` (`randomEval`); the verifier's functions read the same elements. -/
def argOps : List (String × String × List String) :=
  [("lookup/prover.rs", "commit_permuted", ["write", "write"]),
   ("lookup/prover.rs", "commit_product", ["write"]),
   ("lookup/prover.rs", "evaluate", ["write"]),
   ("lookup/verifier.rs", "read_permuted_commitments", ["read", "read"]),
   ("lookup/verifier.rs", "read_product_commitment", ["read"]),
   ("lookup/verifier.rs", "evaluate", ["read", "read", "read", "read", "read"]),
   ("permutation/prover.rs", "commit", ["write"]),
   ("permutation/prover.rs", "evaluate", ["write"]),
   ("permutation/prover.rs", "evaluate#2", ["write", "write"]),
   ("permutation/verifier.rs", "read_product_commitments", ["read"]),
   ("permutation/verifier.rs", "evaluate", ["read"]),
   ("permutation/verifier.rs", "evaluate#2", ["read", "read", "read"]),
   ("trash/prover.rs", "commit", ["write"]),
   ("trash/prover.rs", "evaluate", ["write"]),
   ("trash/verifier.rs", "read_committed", ["read"]),
   ("trash/verifier.rs", "evaluate", ["read"]),
   ("vanishing/prover.rs", "commit", ["write"]),
   ("vanishing/prover.rs", "construct", ["write"]),
   ("vanishing/prover.rs", "evaluate", ["write"]),
   ("vanishing/verifier.rs", "read_commitments_before_y", ["read"]),
   ("vanishing/verifier.rs", "read_commitments_after_y", ["call:read_n"]),
   ("vanishing/verifier.rs", "evaluate_after_x", ["read"])]

/-- The five evaluations of a lookup argument in proof order (`lookupEval p l j`, `j = 0..4`); the
opening queries of `proverQueries` / `verifierQueries` name the same polynomials and points. -/
def lookupEvalNames : List String :=
  ["product_eval", "product_next_eval", "permuted_input_eval", "permuted_input_inv_eval", "permuted_table_eval"]

end MidnightZK.C01.Skel
