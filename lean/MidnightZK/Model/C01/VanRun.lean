import MidnightZK.Model.Common
import MidnightZK.Model.ModArith
import MidnightZK.Model.C01.ArgsRun
import MidnightZK.Model.C01.Vanishing
/-!
# Running the model of the verifier's last algebraic step (`Vanishing.lean`) on real data

Requests written by `harness/c01/src/van.rs` (prime field `Fp p` of `ArgsRun.lean`):
`hfold`, `lirange`, `levals`, `insteval`.
-/
namespace MidnightZK.C01.Van
open MidnightZK MidnightZK.C01.Args

def hexCol (s : String) : Option (List Nat) :=
  if s = "-" then some [] else (s.splitOn ",").mapM parseHex?

def intCol (s : String) : Option (List Int) :=
  if s = "-" then some [] else (s.splitOn ",").mapM parseInt?

/-- Domain data every Lagrange request carries: modulus, `omega`, `k`, `x`. -/
structure Dom where
  p : Nat
  omega : Nat
  k : Nat
  x : Nat

def parseDom (ws : List String) : Option Dom := do
  let kv := C02.Parse.kv ws
  pure { p := (← parseHex? (← kv "p")), omega := (← parseHex? (← kv "omega")),
         k := (← (← kv "k").toNat?), x := (← parseHex? (← kv "x")) }

/-- `omega_inv`, `barycentric_weight = 1/n`, `xn = x^n` as `EvaluationDomain::new` / the verifier
derive them. -/
def Dom.omegaInv (d : Dom) : Fp d.p := Fp.inv ⟨d.omega⟩
def Dom.nInv (d : Dom) : Fp d.p := Fp.inv ⟨(2 ^ d.k) % d.p⟩
def Dom.xn (d : Dom) : Fp d.p := powN (⟨d.x⟩ : Fp d.p) (2 ^ d.k)

def answerVan (op : String) (ws : List String) : String :=
  let kv := C02.Parse.kv ws
  match op with
  | "hfold" =>
    match (kv "p").bind parseHex?, (kv "y").bind parseHex?, (kv "xn").bind parseHex?, (kv "vals").bind hexCol with
    | some p, some y, some xn, some vals =>
      hexS (expectedHEval Fp.inv (ofNats p vals) (⟨y⟩ : Fp p) ⟨xn⟩).v
    | _, _, _, _ => "bad-op"
  | "lirange" =>
    match parseDom ws, (kv "rots").bind intCol with
    | some d, some rots =>
      let l := lIRange Fp.inv (⟨d.omega⟩ : Fp d.p) d.omegaInv d.nInv ⟨d.x⟩ d.xn rots
      if l.isEmpty then "-" else ",".intercalate (l.map (fun v => hexS v.v))
    | _, _ => "bad-op"
  | "levals" =>
    match parseDom ws, (kv "bf").bind String.toNat? with
    | some d, some bf =>
      let (l0, lLast, lBlind) := lEvals Fp.inv (⟨d.omega⟩ : Fp d.p) d.omegaInv d.nInv ⟨d.x⟩ d.xn bf
      s!"l0={hexS l0.v} llast={hexS lLast.v} lblind={hexS lBlind.v}"
    | _, _ => "bad-op"
  | "insteval" =>
    match parseDom ws, (kv "maxrot").bind String.toNat?, (kv "minabs").bind String.toNat?,
      (kv "maxlen").bind String.toNat?, (kv "rot").bind parseInt?, (kv "inst").bind hexCol with
    | some d, some maxRot, some minAbs, some maxLen, some rot, some inst =>
      hexS (instanceEval Fp.inv (⟨d.omega⟩ : Fp d.p) d.omegaInv d.nInv ⟨d.x⟩ d.xn maxRot minAbs maxLen
        (ofNats d.p inst) rot).v
    | _, _, _, _, _, _ => "bad-op"
  | _ => "bad-op"

end MidnightZK.C01.Van
