import MidnightZK.Model.Common
import MidnightZK.Model.C01.Schedule
/-! Parsing of the `key=value` rendering of a constraint-system shape and proving configuration
(`harness/common/src/shape.rs`). Used by the drivers of C01, C03, C17. -/
namespace MidnightZK.C01.Parse
open MidnightZK MidnightZK.C01

def parseQueries? (s : String) : Option (List (Nat × Int)) :=
  if s = "-" ∨ s.isEmpty then some [] else
  (s.splitOn ",").mapM fun t =>
    match t.splitOn ":" with
    | [c, r] => do
      let c ← parseNat? c
      let r ← parseInt? r
      pure (c, r)
    | _ => none

def kv (ws : List String) (key : String) : Option String :=
  ws.findSome? fun w => if w.startsWith (key ++ "=") then some (w.drop (key.length + 1)).toString else none

def parseShape? (ws : List String) : Option Shape := do
  let ap ← parseNatList? (← kv ws "ap")
  let cp ← parseNatList? (← kv ws "cp")
  let aq ← parseQueries? (← kv ws "aq")
  let iq ← parseQueries? (← kv ws "iq")
  let fq ← parseQueries? (← kv ws "fq")
  let nl ← parseNat? (← kv ws "nl")
  let nt ← parseNat? (← kv ws "nt")
  let pc ← parseNat? (← kv ws "pc")
  let deg ← parseNat? (← kv ws "deg")
  let bl ← parseNat? (← kv ws "bl")
  let k ← parseNat? (← kv ws "k")
  pure { advicePhase := ap, challengePhase := cp, adviceQueries := aq, instanceQueries := iq,
         fixedQueries := fq, numLookups := nl, numTrash := nt, permCols := pc, degree := deg,
         blinding := bl, k := k }

def parseCfg? (ws : List String) : Option Cfg := do
  let np ← parseNat? (← kv ws "np")
  let nc ← parseNat? (← kv ws "nc")
  let lens ← ((← kv ws "lens").splitOn "|").mapM parseNatList?
  pure { nProofs := np, nCommitted := nc, lens := lens }


end MidnightZK.C01.Parse
