import MidnightZK.Model.C01.ArgsRun
import MidnightZK.Model.C01.GraphDump
import MidnightZK.Model.C01.GateRows
/-!
# `gaterows`: the gate expressions of a dumped constraint system on the rows of the real table

Runs `Rows.gateViolations` (the `Expr.eval (Rows.rowEnv n t i)` of `gate_polys_vanish_iff_rows` /
`honest_verifies_rows`) over the BLS12-381 scalar field on the table loaded by the last `argtable`
line, optionally with ONE advice cell replaced (`ac=<column> ar=<row> av=<hex value>`), and answers
the (gate, row) pairs on which a gate polynomial is non-zero — which rows a changed cell reaches
depends on the rotation convention `(i + rot) mod n`, wrap-around included.
-/
namespace MidnightZK.C01.Args
open MidnightZK MidnightZK.C01.Graph

def valFr : C02.Val → Fr
  | .real x => Fin.ofNat rMod x
  | .poison => 0

def toTbl (c : ArgCase) : Rows.Tbl Fr :=
  { fixed := c.t.fixed.map (·.map valFr), advice := c.t.advice.map (·.map valFr),
    inst := c.t.inst.map (·.map valFr), challenges := c.t.challenges.map (Fin.ofNat rMod) }

def setCell (cols : List (List Fr)) (col row : Nat) (v : Fr) : List (List Fr) :=
  cols.zipIdx.map fun (c, j) => if j = col then c.set row v else c

def runGateRows (c : ArgCase) (ws : List String) : String :=
  if c.p ≠ rMod then "bad-op" else
  let kv := C02.Parse.kv ws
  let t := toTbl c
  let t? : Option (Rows.Tbl Fr) :=
    match kv "ac", kv "ar", kv "av" with
    | none, none, none => some t
    | some ac, some ar, some av =>
      match ac.toNat?, ar.toNat?, parseHex? av with
      | some col, some row, some v => some { t with advice := setCell t.advice col row (Fin.ofNat rMod v) }
      | _, _, _ => none
    | _, _, _ => none
  match t? with
  | none => "bad-op"
  | some t =>
    let bad := Rows.gateViolations c.n t (c.cs.gates.map ofC02)
    if bad.isEmpty then "none" else ",".intercalate (bad.map fun (g, i) => s!"{g}@{i}")

end MidnightZK.C01.Args
