/-!
# Splitting, blinding and recombining the quotient polynomial (model)

Mirrors `proofs/src/plonk/vanishing/prover.rs`:
* `Committed::construct`: `h_poly.chunks_exact(n - 1)` then `blind_quotient_limbs`;
* `Constructed::evaluate`: `h_pieces.rev().reduce(|acc, piece| acc * x^(n-1) + piece)`;
and the verifier's chopped commitment `Σ_j x^((n-1) j) · [h_j]` (`poly/query.rs: as_terms`).
Polynomials are coefficient lists over any commutative ring. Import-free.
-/
namespace MidnightZK.C01
open Lean.Grind

variable {R : Type} [CommRing R]

/-- Horner evaluation, lowest coefficient first. -/
def evalPoly (p : List R) (x : R) : R := p.foldr (fun c acc => c + x * acc) 0

/-- `Σ_i x^(m·i) · L_i(x)`: the prover's Horner recombination of the pieces with splitting
factor `x^m` (`m = n − 1`). -/
def recombine (x : R) (m : Nat) : List (List R) → R
  | [] => 0
  | L :: t => evalPoly L x + x ^ m * recombine x m t

/-- `slice.chunks_exact(m)` (the remainder is dropped); fuel = length. -/
def chunksExact (m : Nat) : Nat → List R → List (List R)
  | 0, _ => []
  | fuel + 1, l => if m = 0 ∨ l.length < m then [] else l.take m :: chunksExact m fuel (l.drop m)

def subHead (t : R) : List R → List R
  | [] => []
  | a :: r => (a - t) :: r

/-- `blind_quotient_limbs`: limb `i−1` gets `tᵢ` appended (coefficient of `X^m`), limb `i` gets
`tᵢ` subtracted from its constant coefficient; the last limb gets `0` appended. -/
def blind : List R → List (List R) → List (List R)
  | _, [] => []
  | _, [L] => [L ++ [0]]
  | [], L :: M :: rest => (L ++ [0]) :: blind [] (M :: rest)
  | t :: ts, L :: M :: rest => (L ++ [t]) :: blind ts (subHead t M :: rest)

end MidnightZK.C01
