/-!
# Order in which prover and verifier combine the identities with `y`

Import-free mirror of

* `proofs/src/plonk/evaluation.rs: Evaluator::evaluate_numerator` — the prover's accumulation
  `value = value * y + identity` on one row of the extended domain (`proverFold`), with its loop
  structure: per proof the custom gates (one `Calculation::Horner(PreviousValue, parts, Y)` over
  all gate polynomials, started from the value accumulated so far), then — only when the
  permutation argument has at least one set — first rule, last rule, chain rules
  (`for set_idx in 0..sets.len() { if set_idx != 0 {…} }`), product rules, then five identities per
  lookup, then one per trash argument;
* `proofs/src/plonk/mod.rs: evaluate_identities` + `permutation.rs: expressions` +
  `lookup.rs` / `trash.rs: Evaluated::expressions` + `vanishing/verifier.rs: verify` — the
  verifier's flat iterator chain (`verifierIds`) folded by `fold(ZERO, |h, v| h * y + v)`
  (`verifierFold`).
-/
namespace MidnightZK.C01.Ids

/-- One identity of the quotient numerator (symbolic tag). -/
inductive IdTerm
  /-- `g`-th gate polynomial (gates flattened in order) of proof `p` -/
  | gate (p g : Nat)
  /-- `l_0·(1 − z_0)` -/
  | permFirst (p : Nat)
  /-- `l_last·(z_last² − z_last)` -/
  | permLast (p : Nat)
  /-- `l_0·(z_s − z_{s−1}(ω^{last}X))`, `s ≥ 1` -/
  | permChain (p s : Nat)
  /-- product rule of set `s` -/
  | permProd (p s : Nat)
  /-- `k`-th (0…4) identity of lookup `l` -/
  | lookup (p l k : Nat)
  /-- identity of trash argument `t` -/
  | trash (p t : Nat)
deriving DecidableEq, Repr

/-- What the order depends on. -/
structure IdShape where
  nProofs : Nat
  /-- total number of gate polynomials -/
  nGatePolys : Nat
  /-- number of permutation column sets (`columns.chunks(chunk_len)`) -/
  nSets : Nat
  nLookups : Nat
  nTrash : Nat
deriving Repr

/-! ### verifier -/

/-- `permutation.rs: expressions`: `sets.first().map(..)`, `sets.last().map(..)`,
`sets.iter().skip(1).zip(sets.iter())`, `sets.iter().zip(chunks).enumerate()`. -/
def verifierPermIds (p nSets : Nat) : List IdTerm :=
  ((List.range nSets).head?.map (fun _ => IdTerm.permFirst p)).toList ++
  ((List.range nSets).getLast?.map (fun _ => IdTerm.permLast p)).toList ++
  ((List.range nSets).drop 1).map (IdTerm.permChain p) ++
  (List.range nSets).map (IdTerm.permProd p)

/-- `lookup.rs: Evaluated::expressions`: five chained `Some(..)`. -/
def lookupIds (p l : Nat) : List IdTerm := (List.range 5).map (IdTerm.lookup p l)

/-- The `flat_map` of `evaluate_identities` for proof `p`. -/
def verifierProofIds (sh : IdShape) (p : Nat) : List IdTerm :=
  (List.range sh.nGatePolys).map (IdTerm.gate p) ++
  verifierPermIds p sh.nSets ++
  (List.range sh.nLookups).flatMap (lookupIds p) ++
  (List.range sh.nTrash).map (IdTerm.trash p)

def verifierIds (sh : IdShape) : List IdTerm := (List.range sh.nProofs).flatMap (verifierProofIds sh)

section Fold
variable {F : Type} [Zero F] [Add F] [Mul F]

/-- `vanishing/verifier.rs: verify`: `expressions.fold(ZERO, |h, v| h * y + v)`. -/
def verifierFold (sh : IdShape) (val : IdTerm → F) (y : F) : F :=
  (verifierIds sh).foldl (fun h t => h * y + val t) 0

/-! ### prover -/

/-- `value = value * y + identity` for a sequence of identities. -/
def accum (val : IdTerm → F) (y : F) (value : F) (ts : List IdTerm) : F :=
  ts.foldl (fun v t => v * y + val t) value

/-- The permutation block of `evaluate_numerator` (skipped when `sets.is_empty()`). -/
def proverPermIds (p nSets : Nat) : List IdTerm :=
  if nSets = 0 then [] else
    [IdTerm.permFirst p, IdTerm.permLast p] ++
    ((List.range nSets).filter (fun s => s != 0)).map (IdTerm.permChain p) ++
    (List.range nSets).map (IdTerm.permProd p)

/-- Body of the `for (((advice, instance), lookups), trashcans), permutation)` loop of
`evaluate_numerator` for proof `p`, on one row: the custom-gates graph ends in
`Horner(PreviousValue, parts, Y)` = `accum` over the gate polynomials from the incoming value;
then the permutation, lookup and trash blocks each continue `*value = *value * y + …`. -/
def proverProofStep (sh : IdShape) (val : IdTerm → F) (y : F) (value : F) (p : Nat) : F :=
  let v1 := accum val y value ((List.range sh.nGatePolys).map (IdTerm.gate p))
  let v2 := accum val y v1 (proverPermIds p sh.nSets)
  let v3 := (List.range sh.nLookups).foldl (fun v l => accum val y v (lookupIds p l)) v2
  (List.range sh.nTrash).foldl (fun v t => v * y + val (IdTerm.trash p t)) v3

/-- `evaluate_numerator` on one row: `values = B::empty(domain)` (zero), then the proofs in order. -/
def proverFold (sh : IdShape) (val : IdTerm → F) (y : F) : F :=
  (List.range sh.nProofs).foldl (proverProofStep sh val y) 0

end Fold

/-- The identities in the order the prover consumes them. -/
def proverProofIds (sh : IdShape) (p : Nat) : List IdTerm :=
  (List.range sh.nGatePolys).map (IdTerm.gate p) ++
  proverPermIds p sh.nSets ++
  (List.range sh.nLookups).flatMap (lookupIds p) ++
  (List.range sh.nTrash).map (IdTerm.trash p)

def proverIds (sh : IdShape) : List IdTerm := (List.range sh.nProofs).flatMap (proverProofIds sh)

end MidnightZK.C01.Ids
