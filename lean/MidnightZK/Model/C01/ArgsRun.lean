import MidnightZK.Model.Common
import MidnightZK.Model.ModArith
import MidnightZK.Model.C01.Arguments
import MidnightZK.Model.C02.RowSat
import MidnightZK.Model.C02.Parse
/-!
# Running the argument model (`Arguments.lean`) on a dumped real table

Concrete prime field `Fp p` (canonical representatives, `Nat` arithmetic modulo `p`) for the
ring-generic definitions of `Arguments.lean`, the parser of the `argtable` request line written by
`harness/c01` (real table of one proof: fixed / advice / instance columns with their blinding rows,
σ-label columns of the proving key, challenges recorded from the transcript, constraint system in
the `csdump` format) and the answers to the requests that refer to it.
Import-free apart from the shared parsers.
-/
namespace MidnightZK.C01.Args
open MidnightZK

/-- Element of the prime field of order `p`, held as its canonical representative. -/
structure Fp (p : Nat) where
  v : Nat
deriving DecidableEq, Repr

namespace Fp
variable {p : Nat}
instance : Zero (Fp p) := ⟨⟨0⟩⟩
instance : One (Fp p) := ⟨⟨1 % p⟩⟩
instance : Add (Fp p) := ⟨fun a b => ⟨addMod a.v b.v p⟩⟩
instance : Sub (Fp p) := ⟨fun a b => ⟨subMod a.v b.v p⟩⟩
instance : Mul (Fp p) := ⟨fun a b => ⟨mulMod a.v b.v p⟩⟩
/-- `Field::invert` with `0 ↦ 0` (what `batch_invert` leaves in place). -/
def inv (a : Fp p) : Fp p := ⟨invMod a.v p⟩
/-- `Ord for Fq`: comparison of the big-endian canonical bytes = order of the representatives. -/
def le (a b : Fp p) : Bool := decide (a.v ≤ b.v)
end Fp

/-- Everything one `argtable` line carries. -/
structure ArgCase where
  id : String
  p : Nat
  n : Nat
  bl : Nat
  /-- `chunk_len = cs_degree − 2` -/
  cl : Nat
  theta : Nat
  beta : Nat
  gamma : Nat
  /-- trash challenge -/
  tc : Nat
  delta : Nat
  omega : Nat
  cs : C02.CS
  t : C02.Table
  /-- σ-label vectors `pk.permutation.permutations`, one per permutation column -/
  sigma : List (List Nat)
deriving Inhabited

def parseHexCols (s : String) : Option (List (List Nat)) := do
  let cols ← C02.Parse.parseCols s
  cols.mapM fun c => c.mapM fun v => match v with | .real x => some x | .poison => none

def parseArgCase (ws : List String) : Option ArgCase := do
  let kv := C02.Parse.kv ws
  let (cs, t) ← C02.Parse.parseCase ws
  pure { id := (← kv "id"), p := t.p, n := t.n, bl := cs.blinding,
         cl := (← (← kv "cl").toNat?),
         theta := (← parseHex? (← kv "theta")), beta := (← parseHex? (← kv "beta")),
         gamma := (← parseHex? (← kv "gamma")), tc := (← parseHex? (← kv "tc")),
         delta := (← parseHex? (← kv "delta")), omega := (← parseHex? (← kv "omega")),
         cs := cs, t := t, sigma := (← parseHexCols (← kv "sigma")) }

/-! ### rendering (same format as `csdump.rs`: hex without prefix, run-length `v*k`, `-` = empty) -/

def hexS (n : Nat) : String := String.ofList (toHexAux n [])

def rleGo : List Nat → Nat → Nat → List String → List String
  | [], cur, k, acc => (if k > 1 then s!"{hexS cur}*{k}" else hexS cur) :: acc
  | x :: xs, cur, k, acc =>
    if x = cur then rleGo xs cur (k + 1) acc
    else rleGo xs x 1 ((if k > 1 then s!"{hexS cur}*{k}" else hexS cur) :: acc)

def fmtCol (l : List Nat) : String :=
  match l with
  | [] => "-"
  | x :: xs => ",".intercalate (rleGo xs x 1 []).reverse

def fmtCols (ls : List (List Nat)) : String :=
  if ls.isEmpty then "-" else "/".intercalate (ls.map fmtCol)

def vals {p : Nat} (l : List (Fp p)) : List Nat := l.map (·.v)
def ofNats (p : Nat) (l : List Nat) : List (Fp p) := l.map (fun x => ⟨x % p⟩)

/-! ### the requests -/

/-- Value vector of an expression on all `n` rows of the real table
(`evaluation.rs: evaluate(expression, n, 1, fixed, advice, instance, challenges)`). -/
def evalVec (c : ArgCase) (e : C02.Expr) : List (Fp c.p) :=
  (List.range c.n).map fun r => match e.eval c.t r with | .real x => ⟨x⟩ | .poison => ⟨0⟩

/-- Values of permutation column `pc` (index into `cs.permutation.columns`). -/
def permColumn (c : ArgCase) (pc : Nat) : List (Fp c.p) :=
  (List.range c.n).map fun r => match C02.permCell c.cs c.t pc r with | .real x => ⟨x⟩ | .poison => ⟨0⟩

/-- `(values, σ-labels)` of every permutation column, in order. -/
def permCols (c : ArgCase) : List (List (Fp c.p) × List (Fp c.p)) :=
  (List.range c.cs.permCols.length).map fun j => (permColumn c j, ofNats c.p (c.sigma.getD j []))

/-- `permz`: the product vectors of `permutation/prover.rs: commit`, rows `< n − bf`. -/
def runPermZ (c : ArgCase) : List (List Nat) :=
  (permProducts Fp.inv c.cl c.n c.bl (⟨c.beta⟩ : Fp c.p) ⟨c.gamma⟩ ⟨c.delta⟩ ⟨c.omega⟩ (fun _ _ => 0) (permCols c)).map
    fun z => vals (z.take (c.n - c.bl))

/-- Compressed input and table vectors of lookup `j` (`commit_permuted: compress_expressions`). -/
def lookupAS (c : ArgCase) (j : Nat) : List (Fp c.p) × List (Fp c.p) :=
  let l := c.cs.lookups.getD j ([], [])
  (compressExpressions c.n (⟨c.theta⟩ : Fp c.p) (l.1.map (evalVec c)),
   compressExpressions c.n (⟨c.theta⟩ : Fp c.p) (l.2.map (evalVec c)))

/-- Rows of `S'` the specification does not determine (a repeated input value) are masked. -/
def maskForced : Option Nat → List Nat → List Nat → List String
  | _, [], _ => []
  | _, _, [] => []
  | prev, a :: as, s :: ss => (if prev = some a then "*" else hexS s) :: maskForced (some a) as ss

def fmtPermuted (u : Nat) (a s : List Nat) : String :=
  let a := a.take u
  let s := s.take u
  let ms := sortList (fun x y => decide (x ≤ y)) s
  s!"A'={fmtCol a} S'={",".intercalate (maskForced none a s)} ms={fmtCol ms}"

/-- `lookupperm`: `permute_expression_pair` on the model's own compressed vectors (leftover map
iterated in insertion order — any order satisfies the specification, so only the sorted input,
the forced rows of the table and its multiset are printed). -/
def runLookupPerm (c : ArgCase) (j : Nat) : String :=
  let u := c.n - (c.bl + 1)
  let (A, S) := lookupAS c j
  match permuteExpressionPair Fp.le (0 : Fp c.p) id u A S [] [] with
  | .ok a s => fmtPermuted u (vals a) (vals s)
  | .constraintSystemFailure => "ConstraintSystemFailure"
  | .panic => "panic"

/-- `lookupz`: `commit_product` on the model's compressed vectors and the LOGGED permuted pair. -/
def runLookupZ (c : ArgCase) (j : Nat) (pa pt : List Nat) : List Nat :=
  let (A, S) := lookupAS c j
  vals ((lookupProduct Fp.inv c.n c.bl (⟨c.beta⟩ : Fp c.p) ⟨c.gamma⟩ A S (ofNats c.p pa) (ofNats c.p pt) []).take (c.n - c.bl))

/-- `trashvec`: the trash column of argument `j` on all rows. -/
def runTrash (c : ArgCase) (j : Nat) : List Nat :=
  let tr := c.cs.trash.getD j (.const 0, [])
  vals (trashValues c.n (⟨c.tc⟩ : Fp c.p) (tr.2.map (evalVec c)))

/-- Positions `row.rule` at which a rule list is non-zero. -/
def violations {p : Nat} (n : Nat) (rules : Nat → List (Fp p)) : String :=
  let bad := (List.range n).flatMap fun i =>
    ((rules i).zipIdx.filter (fun r => r.1.v % p ≠ 0)).map (fun r => s!"{i}.{r.2}")
  if bad.isEmpty then "none" else ",".intercalate bad

/-- `permrules`: the verifier's permutation rules read on every row, for given product vectors. -/
def runPermRules (c : ArgCase) (zs : List (List Nat)) : String :=
  let cols := permCols c
  let zs' := zs.map (ofNats c.p)
  violations c.n fun i => permExpressionsRow c.cl c.n c.bl (⟨c.beta⟩ : Fp c.p) ⟨c.gamma⟩ ⟨c.delta⟩ ⟨c.omega⟩
    cols zs' i

def runLookupRules (c : ArgCase) (j : Nat) (pa pt z : List Nat) : String :=
  let (A, S) := lookupAS c j
  let pa' := ofNats c.p pa
  let pt' := ofNats c.p pt
  let z' := ofNats c.p z
  violations c.n fun i => lookupExpressionsRow c.n c.bl (⟨c.beta⟩ : Fp c.p) ⟨c.gamma⟩ A S pa' pt' z' i

def runTrashRules (c : ArgCase) (j : Nat) (tr : List Nat) : String :=
  let a := c.cs.trash.getD j (.const 0, [])
  let q := evalVec c a.1
  let es := a.2.map (evalVec c)
  let tr' := ofNats c.p tr
  violations c.n fun i => [trashExpressionRow (⟨c.tc⟩ : Fp c.p) q es tr' i]

/-- One request referring to the current table. -/
def answerArg (c : ArgCase) (op : String) (ws : List String) : String :=
  let kv := C02.Parse.kv ws
  let col (k : String) : Option (List Nat) := do
    match ← parseHexCols (← kv k) with
    | [x] => some x
    | [] => some []
    | _ => none
  if kv "id" ≠ some c.id then "bad-op" else
  match op with
  | "permz" => fmtCols (runPermZ c)
  | "lookupcomp" =>
    match (kv "l").bind String.toNat? with
    | some j => let (A, S) := lookupAS c j; s!"A={fmtCol (vals A)} S={fmtCol (vals S)}"
    | none => "bad-op"
  | "lookupperm" =>
    match (kv "l").bind String.toNat? with
    | some j => runLookupPerm c j
    | none => "bad-op"
  | "lookupz" =>
    match (kv "l").bind String.toNat?, col "pa", col "pt" with
    | some j, some pa, some pt => fmtCol (runLookupZ c j pa pt)
    | _, _, _ => "bad-op"
  | "trashvec" =>
    match (kv "t").bind String.toNat? with
    | some j => fmtCol (runTrash c j)
    | none => "bad-op"
  | "permrules" =>
    match (kv "z").bind parseHexCols with
    | some zs => runPermRules c zs
    | none => "bad-op"
  | "lookuprules" =>
    match (kv "l").bind String.toNat?, col "pa", col "pt", col "z" with
    | some j, some pa, some pt, some z => runLookupRules c j pa pt z
    | _, _, _, _ => "bad-op"
  | "trashrules" =>
    match (kv "t").bind String.toNat?, col "tr" with
    | some j, some tr => runTrashRules c j tr
    | _, _ => "bad-op"
  | _ => "bad-op"

end MidnightZK.C01.Args
