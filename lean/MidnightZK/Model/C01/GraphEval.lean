/-!
# The expression-graph compiler of the prover (model)

Mirrors `proofs/src/plonk/evaluation.rs`: `ValueSource`, `Calculation`, `GraphEvaluator`
(`add_rotation`, `add_constant`, `add_calculation`, `add_expression`) and the evaluation loop of
`GraphEvaluator::evaluate` for one row. Import-free; generic over a commutative ring with
decidable equality.
-/
namespace MidnightZK.C01.Graph
open Lean.Grind

/-- `plonk::Expression` after selector replacement. -/
inductive Expr (F : Type)
  | const (c : F)
  | fixed (col : Nat) (rot : Int)
  | advice (col : Nat) (rot : Int)
  | inst (col : Nat) (rot : Int)
  | challenge (i : Nat)
  | neg (e : Expr F)
  | sum (a b : Expr F)
  | prod (a b : Expr F)
  | scaled (e : Expr F) (c : F)

/-- Values of the queried cells at the row being evaluated, and of the challenges. -/
structure Env (F : Type) where
  fixed : Nat → Int → F
  advice : Nat → Int → F
  inst : Nat → Int → F
  challenge : Nat → F

variable {F : Type} [CommRing F] [DecidableEq F]

def Expr.eval (env : Env F) : Expr F → F
  | .const c => c
  | .fixed c r => env.fixed c r
  | .advice c r => env.advice c r
  | .inst c r => env.inst c r
  | .challenge i => env.challenge i
  | .neg e => - e.eval env
  | .sum a b => a.eval env + b.eval env
  | .prod a b => a.eval env * b.eval env
  | .scaled e c => e.eval env * c

/-- `ValueSource` (the sources the expression compiler produces). -/
inductive VS
  | const (i : Nat)
  | inter (i : Nat)
  | fixed (col rotIdx : Nat)
  | advice (col rotIdx : Nat)
  | inst (col rotIdx : Nat)
  | chal (i : Nat)
deriving DecidableEq, Repr

/-- `Calculation` (without `Horner`, which `add_expression` never emits). -/
inductive Calc
  | add (a b : VS) | sub (a b : VS) | mul (a b : VS)
  | square (a : VS) | double (a : VS) | negate (a : VS) | store (a : VS)
deriving DecidableEq, Repr

/-- `GraphEvaluator`: the target of the `i`-th calculation is `i`. -/
structure G (F : Type) where
  constants : List F
  rotations : List Int
  calcs : List Calc

/-- `GraphEvaluator::default()`: constants `0, 1, 2` are pre-seeded. -/
def G.init : G F := { constants := [0, 1, 2], rotations := [], calcs := [] }

def indexOf? {α} [DecidableEq α] (a : α) : List α → Option Nat
  | [] => none
  | b :: t => if b = a then some 0 else (indexOf? a t).map (· + 1)

/-- `add_rotation`. -/
def addRotation (g : G F) (r : Int) : G F × Nat :=
  match indexOf? r g.rotations with
  | some i => (g, i)
  | none => ({ g with rotations := g.rotations ++ [r] }, g.rotations.length)

/-- `add_constant`. -/
def addConstant (g : G F) (c : F) : G F × VS :=
  match indexOf? c g.constants with
  | some i => (g, .const i)
  | none => ({ g with constants := g.constants ++ [c] }, .const g.constants.length)

/-- `add_calculation`: reuse an identical calculation, else append. -/
def addCalc (g : G F) (c : Calc) : G F × VS :=
  match indexOf? c g.calcs with
  | some i => (g, .inter i)
  | none => ({ g with calcs := g.calcs ++ [c] }, .inter g.calcs.length)

/-- `add_expression`. `le` stands for the derived `PartialOrd` on `ValueSource`
(only used to order commutative operands). -/
def addExpr (le : VS → VS → Bool) : Expr F → G F → G F × VS
  | .const c, g => addConstant g c
  | .fixed col rot, g => let (g, ri) := addRotation g rot; addCalc g (.store (.fixed col ri))
  | .advice col rot, g => let (g, ri) := addRotation g rot; addCalc g (.store (.advice col ri))
  | .inst col rot, g => let (g, ri) := addRotation g rot; addCalc g (.store (.inst col ri))
  | .challenge i, g => addCalc g (.store (.chal i))
  | .neg (.const c), g => addConstant g (-c)
  | .neg a, g =>
    let (g, ra) := addExpr le a g
    if ra = .const 0 then (g, ra) else addCalc g (.negate ra)
  | .sum a (.neg bi), g =>
    let (g, ra) := addExpr le a g
    let (g, rb) := addExpr le bi g
    if ra = .const 0 then addCalc g (.negate rb)
    else if rb = .const 0 then (g, ra)
    else addCalc g (.sub ra rb)
  | .sum a b, g =>
    let (g, ra) := addExpr le a g
    let (g, rb) := addExpr le b g
    if ra = .const 0 then (g, rb)
    else if rb = .const 0 then (g, ra)
    else if le ra rb then addCalc g (.add ra rb) else addCalc g (.add rb ra)
  | .prod a b, g =>
    let (g, ra) := addExpr le a g
    let (g, rb) := addExpr le b g
    if ra = .const 0 ∨ rb = .const 0 then (g, .const 0)
    else if ra = .const 1 then (g, rb)
    else if rb = .const 1 then (g, ra)
    else if ra = .const 2 then addCalc g (.double rb)
    else if rb = .const 2 then addCalc g (.double ra)
    else if ra = rb then addCalc g (.square ra)
    else if le ra rb then addCalc g (.mul ra rb) else addCalc g (.mul rb ra)
  | .scaled a f, g =>
    if f = 0 then (g, .const 0)
    else if f = 1 then addExpr le a g
    else
      let (g, cst) := addConstant g f
      let (g, ra) := addExpr le a g
      addCalc g (.mul ra cst)

/-- `ValueSource::get` for one row. Out-of-range indices read `0` (never happens for graphs
built by `addExpr`). -/
def VS.get (g : G F) (env : Env F) (inter : List F) : VS → F
  | .const i => g.constants.getD i 0
  | .inter i => inter.getD i 0
  | .fixed c ri => env.fixed c (g.rotations.getD ri 0)
  | .advice c ri => env.advice c (g.rotations.getD ri 0)
  | .inst c ri => env.inst c (g.rotations.getD ri 0)
  | .chal i => env.challenge i

/-- `Calculation::evaluate`. -/
def Calc.run (g : G F) (env : Env F) (inter : List F) : Calc → F
  | .add a b => a.get g env inter + b.get g env inter
  | .sub a b => a.get g env inter - b.get g env inter
  | .mul a b => a.get g env inter * b.get g env inter
  | .square a => a.get g env inter * a.get g env inter
  | .double a => a.get g env inter + a.get g env inter
  | .negate a => - a.get g env inter
  | .store a => a.get g env inter

/-- The loop of `GraphEvaluator::evaluate`: calculations in order, each writing the next
intermediate. -/
def runCalcs (g : G F) (env : Env F) : List Calc → List F → List F
  | [], inter => inter
  | c :: t, inter => runCalcs g env t (inter ++ [c.run g env inter])

def G.run (g : G F) (env : Env F) : List F := runCalcs g env g.calcs []

end MidnightZK.C01.Graph
