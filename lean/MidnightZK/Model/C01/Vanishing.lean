import MidnightZK.Model.C01.Arguments
/-!
# The verifier's final algebraic check (model)

Executable, import-free mirror of the part of the verifier that turns the evaluations read from the
proof into the value the quotient commitment must open to:

* `proofs/src/poly/domain.rs: rotate_omega`, `l_i_range` — `rotateOmega`, `lIRange`;
* `proofs/src/plonk/mod.rs: evaluate_identities` (the first lines: `l_last`, `l_blind`, `l_0` out of
  `l_i_range(x, xn, -(blinding_factors+1)..=0)`) — `lEvals`;
* `proofs/src/plonk/verifier.rs: verify_algebraic_constraints` (the block `instance_evals`:
  `compute_inner_product(instances, &l_i_s[offset..offset + instances.len()])` with
  `l_i_s = l_i_range(x, xn, -max_rotation..max_instance_len + |min_rotation|)`) — `instanceEval`;
* `proofs/src/plonk/vanishing/verifier.rs: PartiallyEvaluated::verify` — `expectedHEval`;
* `proofs/src/poly/query.rs: CommitmentReference::as_terms` (`Chopped`) — `choppedScalars`,
  `choppedEval`;
* `proofs/src/plonk/vanishing/prover.rs: Constructed::evaluate` (`h_pieces.rev().reduce(|acc, e|
  acc * splitting_factor + e)`) — `proverHReduce`.

`F` is any type with ring operations; inversion is a parameter `inv` (`Field::invert().unwrap()`,
`batch_invert`). `pow_vartime` is `Args.powN`.
-/
namespace MidnightZK.C01.Van
open MidnightZK.C01.Args (powN)

section Ring
variable {F : Type} [Zero F] [One F] [Add F] [Sub F] [Mul F]

/-- `domain.rs: rotate_omega`: `value * omega^rot` for `rot ≥ 0`, `value * omega_inv^|rot|`
otherwise. -/
def rotateOmega (omega omegaInv : F) (value : F) (rot : Int) : F :=
  if 0 ≤ rot then value * powN omega rot.toNat else value * powN omegaInv rot.natAbs

/-- `domain.rs: l_i_range(x, xn, rotations)`: first loop `results.push(x - rotate_omega(ONE, rot))`,
`batch_invert`, then `common = (xn - ONE) * barycentric_weight` (`barycentric_weight = 1/n`) and
`*result = rotate_omega(*result * common, rot)`. -/
def lIRange (inv : F → F) (omega omegaInv nInv : F) (x xn : F) (rots : List Int) : List F :=
  let results := rots.map (fun r => inv (x - rotateOmega omega omegaInv 1 r))
  let common := (xn - 1) * nInv
  (rots.zip results).map (fun p => rotateOmega omega omegaInv (p.2 * common) p.1)

/-- The range `-(blinding_factors + 1)..=0` of `evaluate_identities`. -/
def blindRots (bf : Nat) : List Int := (List.range (bf + 2)).map (fun (j : Nat) => (j : Int) - ((bf : Int) + 1))

/-- `plonk/mod.rs: evaluate_identities`: `l_evals = l_i_range(x, xn, -(bf+1)..=0)`;
`l_last = l_evals[0]`, `l_blind = l_evals[1..1+bf].fold(ZERO, +)`, `l_0 = l_evals[1+bf]`.
Returned as `(l_0, l_last, l_blind)`. -/
def lEvals (inv : F → F) (omega omegaInv nInv : F) (x xn : F) (bf : Nat) : F × F × F :=
  let l := lIRange inv omega omegaInv nInv x xn (blindRots bf)
  (l.getD (1 + bf) 0, l.getD 0 0, ((l.drop 1).take bf).foldl (fun acc e => acc + e) 0)

/-- `utils/arithmetic.rs: compute_inner_product`. -/
def innerProduct (a b : List F) : F := (a.zip b).foldl (fun acc p => acc + p.1 * p.2) 0

/-- The rotations `-max_rotation..max_instance_len + |min_rotation|` of
`verify_algebraic_constraints`. -/
def instRots (maxRot minRotAbs maxLen : Nat) : List Int :=
  (List.range (maxRot + maxLen + minRotAbs)).map (fun (j : Nat) => (j : Int) - (maxRot : Int))

/-- `verifier.rs: verify_algebraic_constraints`, evaluation of a plain instance column queried at
rotation `rot` (`-minRotAbs ≤ rot ≤ maxRot`): `offset = max_rotation - rot`,
`compute_inner_product(instances, &l_i_s[offset..offset + instances.len()])`. -/
def instanceEval (inv : F → F) (omega omegaInv nInv : F) (x xn : F) (maxRot minRotAbs maxLen : Nat)
    (inst : List F) (rot : Int) : F :=
  let lis := lIRange inv omega omegaInv nInv x xn (instRots maxRot minRotAbs maxLen)
  let offset := ((maxRot : Int) - rot).toNat
  innerProduct inst ((lis.drop offset).take inst.length)

/-- `vanishing/verifier.rs: PartiallyEvaluated::verify`:
`expressions.fold(ZERO, |h, v| h * y + v) * (xn - ONE).invert().unwrap()`. -/
def expectedHEval (inv : F → F) (vals : List F) (y xn : F) : F :=
  vals.foldl (fun h v => h * y + v) 0 * inv (xn - 1)

/-- `query.rs: as_terms` for `Chopped(parts, n)`: `splitting_factor = x.pow([n - 1])`;
`scalar = ONE; for part { terms.push((scalar, part)); scalar *= splitting_factor }`. -/
def choppedScalars (sf : F) : F → Nat → List F
  | _, 0 => []
  | scalar, k + 1 => scalar :: choppedScalars sf (scalar * sf) k

/-- Value at `x` of the linear combination `Σ scalarᵢ · h_i` the chopped commitment stands for,
given the values `h_i(x)` of the pieces. -/
def choppedEval (x : F) (n : Nat) (pieceEvals : List F) : F :=
  innerProduct (choppedScalars (powN x (n - 1)) 1 pieceEvals.length) pieceEvals

/-- `vanishing/prover.rs: Constructed::evaluate` read at a point: `h_pieces.rev().reduce(|acc, e|
acc * splitting_factor + e)` (Horner from the last piece; `none` = `expect("H pieces should not be
empty")`). -/
def proverHReduce (sf : F) (pieceEvals : List F) : Option F :=
  match pieceEvals.reverse with
  | [] => none
  | last :: rest => some (rest.foldl (fun acc e => acc * sf + e) last)

end Ring

/-- **The verifier's algebraic check** with commitments read as the polynomials they commit to
(KZG soundness/completeness is C14): the chopped quotient commitment, opened at `x`, must yield
`expected_h_eval`. `vals` = the identity values the verifier computed from the evaluations,
`pieceEvals` = the values at `x` of the committed quotient pieces. -/
def hCheck {F : Type} [Zero F] [One F] [Add F] [Sub F] [Mul F] [DecidableEq F]
    (inv : F → F) (vals : List F) (y x : F) (n : Nat) (pieceEvals : List F) : Bool :=
  decide (choppedEval x n pieceEvals = expectedHEval inv vals y (powN x n))

end MidnightZK.C01.Van
