import MidnightZK.Model.Common
/-!
# Fiat–Shamir schedules of the PLONK prover and verifier (executable model)

Mirrors the control flow of
* prover:   `proofs/src/plonk/prover.rs` (`compute_trace`, `compute_instances`, `parse_advices`,
  `finalise_proof`, `write_evals_to_transcript`, `compute_queries`), the argument provers in
  `lookup/prover.rs`, `permutation/prover.rs`, `trash/prover.rs`, `vanishing/prover.rs` and
  `poly/kzg/mod.rs: multi_open`;
* verifier: `proofs/src/plonk/verifier.rs` (`parse_trace`, `verify_algebraic_constraints`), the
  argument verifiers and `poly/kzg/mod.rs: multi_prepare`.

Every transcript operation is an event `(kind, type, tag)`: `absorb` for `Transcript::common`,
`elem` for a proof element (`write` on the prover side, `read` on the verifier side), `squeeze`
for a challenge. Import-free.
-/
namespace MidnightZK.C01

inductive Ty | G | F
deriving DecidableEq, Repr, Inhabited

inductive Kind | absorb | elem | squeeze
deriving DecidableEq, Repr, Inhabited

/-- Identity of a committed polynomial (for the opening queries). -/
inductive Com
  | inst (p c : Nat) | advice (p c : Nat) | permProd (p s : Nat)
  | lookupProd (p l : Nat) | lookupIn (p l : Nat) | lookupTab (p l : Nat)
  | trash (p t : Nat) | fixed (c : Nat) | permCommon (k : Nat) | h | random
deriving DecidableEq, Repr, Inhabited

/-- Semantic tag of a transcript event. -/
inductive Tag
  | vk
  | instCommit (p c : Nat) | instLen (p c : Nat) | instVal (p c i : Nat)
  | adviceCommit (p c : Nat) | challenge (i : Nat)
  | theta | lookupIn (p l : Nat) | lookupTab (p l : Nat)
  | beta | gamma | permProd (p s : Nat) | lookupProd (p l : Nat)
  | trashCh | trashCom (p t : Nat) | randomCom | y | hPiece (j : Nat) | x
  | instEval (p q : Nat) | adviceEval (p q : Nat) | fixedEval (q : Nat) | randomEval
  | permCommonEval (k : Nat) | permEval (p s j : Nat) | lookupEval (p l j : Nat) | trashEval (p t : Nat)
  | x1 | x2 | fCom | x3 | qEval (rots : List Int) | x4 | pi
deriving DecidableEq, Repr, Inhabited

structure Ev where
  kind : Kind
  ty : Ty
  tag : Tag
deriving DecidableEq, Repr, Inhabited

/-- The part of a `ConstraintSystem` (after selector conversion) and of the domain that the
schedules depend on. -/
structure Shape where
  advicePhase : List Nat
  challengePhase : List Nat
  adviceQueries : List (Nat × Int)
  instanceQueries : List (Nat × Int)
  fixedQueries : List (Nat × Int)
  numLookups : Nat
  numTrash : Nat
  permCols : Nat
  degree : Nat
  blinding : Nat
  k : Nat
deriving Repr, Inhabited

/-- Proving configuration: number of circuits proven together, number of committed instance
columns, and for each proof the lengths of its plain instance columns. -/
structure Cfg where
  nProofs : Nat
  nCommitted : Nat
  lens : List (List Nat)
deriving Repr, Inhabited

def absorbG (t : Tag) : Ev := ⟨.absorb, .G, t⟩
def absorbF (t : Tag) : Ev := ⟨.absorb, .F, t⟩
def elemG (t : Tag) : Ev := ⟨.elem, .G, t⟩
def elemF (t : Tag) : Ev := ⟨.elem, .F, t⟩
def squeeze (t : Tag) : Ev := ⟨.squeeze, .F, t⟩

/-- `ConstraintSystem::phases`: `0 ..= max advice phase`. -/
def phases (sh : Shape) : List Nat := List.range (sh.advicePhase.foldl max 0 + 1)

/-- `EvaluationDomain::new`: the `while (1 << extended_k) < n * quotient_poly_degree` loop. -/
def extendedK (k qpd : Nat) : Nat → Nat → Nat
  | 0, ek => ek
  | fuel + 1, ek => if 2 ^ ek < 2 ^ k * qpd then extendedK k qpd fuel (ek + 1) else ek

def quotientPolyDegree (sh : Shape) : Nat := sh.degree - 1
def n (sh : Shape) : Nat := 2 ^ sh.k
def extendedLen (sh : Shape) : Nat := 2 ^ extendedK sh.k (quotientPolyDegree sh) (quotientPolyDegree sh + 1) sh.k

/-- `slice.chunks(c).count()` for a slice of length `len`. -/
def numChunks (len c : Nat) : Nat := (len + c - 1) / c

/-- Number of permutation product polynomials: `columns.chunks(cs_degree - 2)`. -/
def permSets (sh : Shape) : Nat := numChunks sh.permCols (sh.degree - 2)

def lastRot (sh : Shape) : Int := - ((sh.blinding + 1 : Nat) : Int)

/-! ## Prover -/

/-- `compute_instances`: per proof, per instance column `i`; committed columns (`i <
nb_committed_instances`) absorb their commitment, plain ones their length and values. -/
def proverInstances (cfg : Cfg) : List Ev :=
  (List.range cfg.nProofs).flatMap fun p =>
    let lens := cfg.lens.getD p []
    (List.range (cfg.nCommitted + lens.length)).flatMap fun i =>
      if i < cfg.nCommitted then [absorbG (.instCommit p i)]
      else absorbF (.instLen p i) :: (List.range (lens.getD (i - cfg.nCommitted) 0)).map (fun j => absorbF (.instVal p i j))

/-- `parse_advices`: per phase, per circuit, the commitments of the columns of that phase
(`column_indices`, a `BTreeSet`, i.e. increasing order); then the challenges of the phase. -/
def proverAdvice (sh : Shape) (cfg : Cfg) : List Ev :=
  (phases sh).flatMap fun ph =>
    let columnIndices := (sh.advicePhase.zipIdx.filter (fun (q, _) => q = ph)).map (·.2)
    ((List.range cfg.nProofs).flatMap fun p => columnIndices.map (fun c => elemG (.adviceCommit p c))) ++
    (sh.challengePhase.zipIdx.filter (fun (q, _) => q = ph)).map (fun (_, i) => squeeze (.challenge i))

def proverLookupsPermuted (sh : Shape) (cfg : Cfg) : List Ev :=
  (List.range cfg.nProofs).flatMap fun p =>
    (List.range sh.numLookups).flatMap fun l => [elemG (.lookupIn p l), elemG (.lookupTab p l)]

/-- `permutation::Argument::commit`: one product commitment per chunk of columns. -/
def proverPermCommit (sh : Shape) (cfg : Cfg) : List Ev :=
  (List.range cfg.nProofs).flatMap fun p =>
    (List.range (permSets sh)).map fun s => elemG (.permProd p s)

def proverLookupsProduct (sh : Shape) (cfg : Cfg) : List Ev :=
  (List.range cfg.nProofs).flatMap fun p =>
    (List.range sh.numLookups).map fun l => elemG (.lookupProd p l)

def proverTrash (sh : Shape) (cfg : Cfg) : List Ev :=
  (List.range cfg.nProofs).flatMap fun p =>
    (List.range sh.numTrash).map fun t => elemG (.trashCom p t)

/-- `vanishing::Committed::construct`: `h_poly.truncate((n-1)*qpd)` then
`chunks_exact(n-1)`, one commitment per piece. -/
def proverHPieces (sh : Shape) : List Ev :=
  let len := min (extendedLen sh) ((n sh - 1) * quotientPolyDegree sh)
  (List.range (len / (n sh - 1))).map fun j => elemG (.hPiece j)

/-- `write_evals_to_transcript`. -/
def proverEvals (sh : Shape) (cfg : Cfg) : List Ev :=
  ((List.range cfg.nProofs).flatMap fun p =>
    (sh.instanceQueries.zipIdx.filter (fun (q, _) => q.1 < cfg.nCommitted)).map (fun (_, qi) => elemF (.instEval p qi))) ++
  ((List.range cfg.nProofs).flatMap fun p =>
    (List.range sh.adviceQueries.length).map (fun qi => elemF (.adviceEval p qi))) ++
  (List.range sh.fixedQueries.length).map (fun qi => elemF (.fixedEval qi))

/-- `permutation::prover::Committed::evaluate`: eval, next eval, and the last-row eval for every
set but the last (`sets.len() > 0` on the remaining iterator). -/
def proverPermEvals (sh : Shape) (cfg : Cfg) : List Ev :=
  (List.range cfg.nProofs).flatMap fun p =>
    (List.range (permSets sh)).flatMap fun s =>
      [elemF (.permEval p s 0), elemF (.permEval p s 1)] ++
      (if permSets sh - (s + 1) > 0 then [elemF (.permEval p s 2)] else [])

def proverLookupEvals (sh : Shape) (cfg : Cfg) : List Ev :=
  (List.range cfg.nProofs).flatMap fun p =>
    (List.range sh.numLookups).flatMap fun l => (List.range 5).map fun j => elemF (.lookupEval p l j)

def proverTrashEvals (sh : Shape) (cfg : Cfg) : List Ev :=
  (List.range cfg.nProofs).flatMap fun p =>
    (List.range sh.numTrash).map fun t => elemF (.trashEval p t)

/-- `compute_queries`: (commitment, rotation) pairs in the order the prover builds them. -/
def proverQueries (sh : Shape) (cfg : Cfg) : List (Com × Int) :=
  ((List.range cfg.nProofs).flatMap fun p =>
    (sh.instanceQueries.filter (fun q => q.1 < cfg.nCommitted)).map (fun q => (Com.inst p q.1, q.2)) ++
    sh.adviceQueries.map (fun q => (Com.advice p q.1, q.2)) ++
    -- permutation.open
    ((List.range (permSets sh)).flatMap fun s => [(Com.permProd p s, (0 : Int)), (Com.permProd p s, 1)]) ++
    (((List.range (permSets sh)).reverse.drop 1).map fun s => (Com.permProd p s, lastRot sh)) ++
    -- lookups open
    ((List.range sh.numLookups).flatMap fun l =>
      [(Com.lookupProd p l, (0 : Int)), (Com.lookupIn p l, 0), (Com.lookupTab p l, 0),
       (Com.lookupIn p l, -1), (Com.lookupProd p l, 1)]) ++
    (List.range sh.numTrash).map (fun t => (Com.trash p t, (0 : Int)))) ++
  sh.fixedQueries.map (fun q => (Com.fixed q.1, q.2)) ++
  (List.range sh.permCols).map (fun k => (Com.permCommon k, (0 : Int))) ++
  [(Com.h, 0), (Com.random, 0)]

/-! ## Multi-opening: grouping of queries into point sets
(`poly/kzg/utils.rs: construct_intermediate_sets`, specialised to points `x·ω^rot`, which are
pairwise distinct for distinct rotations as long as the rotation spread is below `n`). -/

/-- Insert into a sorted duplicate-free list (a `BTreeSet<usize>`). -/
def insertSorted (a : Nat) : List Nat → List Nat
  | [] => [a]
  | b :: t => if a < b then a :: b :: t else if a = b then b :: t else b :: insertSorted a t

def indexOf? {α} [DecidableEq α] (a : α) : List α → Option Nat
  | [] => none
  | b :: t => if a = b then some 0 else (indexOf? a t).map (· + 1)

/-- Point indices in order of first appearance (`point_index_map`). -/
def pointIndex (pts : List Int) (r : Int) : List Int × Nat :=
  match indexOf? r pts with
  | some i => (pts, i)
  | none => (pts ++ [r], pts.length)

/-- First loop of `construct_intermediate_sets`: commitments in order of first appearance with
their point-index lists; `none` on a duplicated (commitment, point) pair. -/
def groupQueries {γ} [DecidableEq γ] : List (γ × Int) → List Int → List (γ × List Nat) → Option (List Int × List (γ × List Nat))
  | [], pts, acc => some (pts, acc)
  | (c, r) :: t, pts, acc =>
    let (pts', pi) := pointIndex pts r
    match acc.find? (fun e => e.1 = c) with
    | some e =>
      if e.2.contains pi then none
      else groupQueries t pts' (acc.map fun e' => if e'.1 = c then (e'.1, e'.2 ++ [pi]) else e')
    | none => groupQueries t pts' (acc ++ [(c, [pi])])

/-- Point-index sets in order of first appearance (`point_idx_sets` insertion indices). -/
def distinctSets : List (List Nat) → List (List Nat) → List (List Nat)
  | [], acc => acc
  | s :: t, acc => if acc.contains s then distinctSets t acc else distinctSets t (acc ++ [s])

/-- The rotation sets of the opening, in set-index order, each listed in increasing point
index (the order in which `q_evals` are produced and consumed). -/
def pointSets {γ} [DecidableEq γ] (qs : List (γ × Int)) : Option (List (List Int)) :=
  match groupQueries qs [] [] with
  | none => none
  | some (pts, acc) =>
    let sets := distinctSets (acc.map fun e => e.2.foldl (fun s i => insertSorted i s) []) []
    some (sets.map fun s => s.map fun i => pts.getD i 0)

/-- `multi_open`. -/
def proverMultiOpen (qs : List (Com × Int)) : List Ev :=
  [squeeze .x1, squeeze .x2, elemG .fCom, squeeze .x3] ++
  ((pointSets qs).getD []).map (fun s => elemF (.qEval s)) ++
  [squeeze .x4, elemG .pi]

/-- `create_proof` = `compute_trace` followed by `finalise_proof`. -/
def proverSchedule (sh : Shape) (cfg : Cfg) : List Ev :=
  [absorbF .vk] ++ proverInstances cfg ++ proverAdvice sh cfg ++ [squeeze .theta] ++
  proverLookupsPermuted sh cfg ++ [squeeze .beta, squeeze .gamma] ++
  proverPermCommit sh cfg ++ proverLookupsProduct sh cfg ++ [squeeze .trashCh] ++
  proverTrash sh cfg ++ [elemG .randomCom, squeeze .y] ++
  proverHPieces sh ++ [squeeze .x] ++ proverEvals sh cfg ++ [elemF .randomEval] ++
  (List.range sh.permCols).map (fun k => elemF (.permCommonEval k)) ++
  proverPermEvals sh cfg ++ proverLookupEvals sh cfg ++ proverTrashEvals sh cfg ++
  proverMultiOpen (proverQueries sh cfg)

/-! ## Verifier -/

/-- `parse_trace` (after the fix of the instance-absorption order): proof by proof, the
commitments of the committed columns, then length and values of every plain column. -/
def verifierInstances (cfg : Cfg) : List Ev :=
  (List.range cfg.nProofs).flatMap fun p =>
    (List.range cfg.nCommitted).map (fun c => absorbG (.instCommit p c)) ++
    ((cfg.lens.getD p []).zipIdx.flatMap fun (len, c) =>
      absorbF (.instLen p (cfg.nCommitted + c)) :: (List.range len).map (fun j => absorbF (.instVal p (cfg.nCommitted + c) j)))

/-- `parse_trace`: per phase, per proof, per advice column whose phase matches. -/
def verifierAdvice (sh : Shape) (cfg : Cfg) : List Ev :=
  (phases sh).flatMap fun ph =>
    ((List.range cfg.nProofs).flatMap fun p =>
      sh.advicePhase.zipIdx.flatMap (fun (q, c) => if ph = q then [elemG (.adviceCommit p c)] else [])) ++
    (sh.challengePhase.zipIdx.flatMap (fun (q, i) => if ph = q then [squeeze (.challenge i)] else []))

def verifierLookupsPermuted (sh : Shape) (cfg : Cfg) : List Ev :=
  (List.range cfg.nProofs).flatMap fun p =>
    (List.range sh.numLookups).flatMap fun l => [elemG (.lookupIn p l), elemG (.lookupTab p l)]

def verifierPermCommit (sh : Shape) (cfg : Cfg) : List Ev :=
  (List.range cfg.nProofs).flatMap fun p =>
    (List.range (numChunks sh.permCols (sh.degree - 2))).map fun s => elemG (.permProd p s)

def verifierLookupsProduct (sh : Shape) (cfg : Cfg) : List Ev :=
  (List.range cfg.nProofs).flatMap fun p =>
    (List.range sh.numLookups).map fun l => elemG (.lookupProd p l)

def verifierTrash (sh : Shape) (cfg : Cfg) : List Ev :=
  (List.range cfg.nProofs).flatMap fun p =>
    (List.range sh.numTrash).map fun t => elemG (.trashCom p t)

/-- `read_commitments_after_y`: `get_quotient_poly_degree()` pieces. -/
def verifierHPieces (sh : Shape) : List Ev :=
  (List.range (quotientPolyDegree sh)).map fun j => elemG (.hPiece j)

def verifierEvals (sh : Shape) (cfg : Cfg) : List Ev :=
  ((List.range cfg.nProofs).flatMap fun p =>
    sh.instanceQueries.zipIdx.flatMap (fun (q, qi) => if q.1 < cfg.nCommitted then [elemF (.instEval p qi)] else [])) ++
  ((List.range cfg.nProofs).flatMap fun p =>
    (List.range sh.adviceQueries.length).map (fun qi => elemF (.adviceEval p qi))) ++
  (List.range sh.fixedQueries.length).map (fun qi => elemF (.fixedEval qi))

/-- `permutation::verifier::Committed::evaluate`: `iter.len() > 0` after `next()`. -/
def verifierPermEvals (sh : Shape) (cfg : Cfg) : List Ev :=
  let sets := numChunks sh.permCols (sh.degree - 2)
  (List.range cfg.nProofs).flatMap fun p =>
    (List.range sets).flatMap fun s =>
      [elemF (.permEval p s 0), elemF (.permEval p s 1)] ++
      (if sets - (s + 1) > 0 then [elemF (.permEval p s 2)] else [])

def verifierLookupEvals (sh : Shape) (cfg : Cfg) : List Ev :=
  (List.range cfg.nProofs).flatMap fun p =>
    (List.range sh.numLookups).flatMap fun l => (List.range 5).map fun j => elemF (.lookupEval p l j)

def verifierTrashEvals (sh : Shape) (cfg : Cfg) : List Ev :=
  (List.range cfg.nProofs).flatMap fun p =>
    (List.range sh.numTrash).map fun t => elemF (.trashEval p t)

/-- Queries built at the end of `verify_algebraic_constraints`. -/
def verifierQueries (sh : Shape) (cfg : Cfg) : List (Com × Int) :=
  let sets := numChunks sh.permCols (sh.degree - 2)
  ((List.range cfg.nProofs).flatMap fun p =>
    (sh.instanceQueries.flatMap (fun q => if q.1 < cfg.nCommitted then [(Com.inst p q.1, q.2)] else [])) ++
    sh.adviceQueries.map (fun q => (Com.advice p q.1, q.2)) ++
    ((List.range sets).flatMap fun s => [(Com.permProd p s, (0 : Int)), (Com.permProd p s, 1)]) ++
    (((List.range sets).reverse.drop 1).map fun s => (Com.permProd p s, lastRot sh)) ++
    ((List.range sh.numLookups).flatMap fun l =>
      [(Com.lookupProd p l, (0 : Int)), (Com.lookupIn p l, 0), (Com.lookupTab p l, 0),
       (Com.lookupIn p l, -1), (Com.lookupProd p l, 1)]) ++
    (List.range sh.numTrash).map (fun t => (Com.trash p t, (0 : Int)))) ++
  sh.fixedQueries.map (fun q => (Com.fixed q.1, q.2)) ++
  (List.range sh.permCols).map (fun k => (Com.permCommon k, (0 : Int))) ++
  [(Com.h, 0), (Com.random, 0)]

/-- `multi_prepare`. -/
def verifierMultiOpen (qs : List (Com × Int)) : List Ev :=
  [squeeze .x1, squeeze .x2, elemG .fCom, squeeze .x3] ++
  ((pointSets qs).getD []).map (fun s => elemF (.qEval s)) ++
  [squeeze .x4, elemG .pi]

/-- `prepare` = `parse_trace` followed by `verify_algebraic_constraints`. -/
def verifierSchedule (sh : Shape) (cfg : Cfg) : List Ev :=
  [absorbF .vk] ++ verifierInstances cfg ++ verifierAdvice sh cfg ++ [squeeze .theta] ++
  verifierLookupsPermuted sh cfg ++ [squeeze .beta, squeeze .gamma] ++
  verifierPermCommit sh cfg ++ verifierLookupsProduct sh cfg ++ [squeeze .trashCh] ++
  verifierTrash sh cfg ++ [elemG .randomCom, squeeze .y] ++
  verifierHPieces sh ++ [squeeze .x] ++ verifierEvals sh cfg ++ [elemF .randomEval] ++
  (List.range sh.permCols).map (fun k => elemF (.permCommonEval k)) ++
  verifierPermEvals sh cfg ++ verifierLookupEvals sh cfg ++ verifierTrashEvals sh cfg ++
  verifierMultiOpen (verifierQueries sh cfg)

/-- Shapes the constraint system can produce and configurations `create_proof` accepts. -/
structure WF (sh : Shape) (cfg : Cfg) : Prop where
  degree_ge : 3 ≤ sh.degree
  k_pos : 1 ≤ sh.k
  lens_len : cfg.lens.length = cfg.nProofs

/-- Encoded size of a proof element (compressed G1 = 48 bytes, scalar = 32 bytes). -/
def elemBytes : Ty → Nat
  | .G => 48
  | .F => 32

/-- Proof length in bytes. -/
def proofLen (sh : Shape) (cfg : Cfg) : Nat :=
  ((verifierSchedule sh cfg).filter (fun e => e.kind = .elem)).foldl
    (fun acc e => acc + elemBytes e.ty) 0

end MidnightZK.C01
