/-!
Modular arithmetic on `Nat` used by every executable field/curve model.
Import-free. `powMod` is fuel-recursive (structural), so `decide +kernel` can evaluate it.
-/
namespace MidnightZK

def addMod (a b m : Nat) : Nat := (a + b) % m
def subMod (a b m : Nat) : Nat := (a + (m - b % m)) % m
def negMod (a m : Nat) : Nat := (m - a % m) % m
def mulMod (a b m : Nat) : Nat := (a * b) % m

/-- Square-and-multiply, least significant bit first; `fuel` ≥ number of bits of `e`. -/
def powModFuel : Nat → Nat → Nat → Nat → Nat → Nat
  | 0, _, _, _, acc => acc
  | fuel + 1, b, e, m, acc =>
    if e = 0 then acc
    else powModFuel fuel (b * b % m) (e / 2) m (if e % 2 = 1 then acc * b % m else acc)

def powMod (b e m : Nat) : Nat := powModFuel (e.log2 + 1) (b % m) e m (1 % m)

/-- Inverse modulo a prime `m` by Fermat; `0` maps to `0` (callers guard). -/
def invMod (a m : Nat) : Nat := powMod a (m - 2) m

/-- Little-endian bytes to a natural number. -/
def leBytesToNat : List Nat → Nat
  | [] => 0
  | b :: t => b + 256 * leBytesToNat t

/-- `n` little-endian bytes of a natural number (truncating). -/
def natToLeBytes : Nat → Nat → List Nat
  | 0, _ => []
  | n + 1, v => (v % 256) :: natToLeBytes n (v / 256)

theorem powModFuel_spec (fuel b e m acc : Nat) (hf : e < 2 ^ fuel) :
    powModFuel fuel b e m acc % m = (acc * b ^ e) % m := by
  induction fuel generalizing b e acc with
  | zero =>
    have : e = 0 := by simp at hf; omega
    subst this; simp [powModFuel]
  | succ n ih =>
    unfold powModFuel
    split
    · next h => subst h; simp
    · next h =>
      have hlt : e / 2 < 2 ^ n := by
        have : 2 ^ (n + 1) = 2 * 2 ^ n := by rw [Nat.pow_succ]; omega
        omega
      rw [ih _ _ _ hlt]
      have he : e = 2 * (e / 2) + e % 2 := by omega
      have hsq : (b * b % m) ^ (e / 2) % m = (b ^ (2 * (e / 2))) % m := by
        rw [Nat.pow_mul, ← Nat.pow_two, Nat.pow_mod (b ^ 2 % m), Nat.mod_mod, ← Nat.pow_mod]
      split
      · next h1 =>
        have hb : b ^ e = b ^ (2 * (e / 2)) * b := by
          conv => lhs; rw [he, h1, Nat.pow_succ]
        rw [Nat.mul_mod, Nat.mod_mod, hsq, ← Nat.mul_mod, hb]
        congr 1
        ac_rfl
      · next h1 =>
        have h0 : e % 2 = 0 := by omega
        have hb : b ^ e = b ^ (2 * (e / 2)) := by
          conv => lhs; rw [he, h0, Nat.add_zero]
        rw [Nat.mul_mod, hsq, ← Nat.mul_mod, hb]

theorem powMod_spec (b e m : Nat) (hm : 0 < m) : powMod b e m = b ^ e % m := by
  have hlt : e < 2 ^ (e.log2 + 1) := Nat.lt_log2_self
  have h := powModFuel_spec (e.log2 + 1) (b % m) e m (1 % m) hlt
  have hr : powModFuel (e.log2 + 1) (b % m) e m (1 % m) < m := by
    clear h hlt
    generalize e.log2 + 1 = f
    have : ∀ f b e acc, acc < m → powModFuel f b e m acc < m := by
      intro f
      induction f with
      | zero => intro b e acc h; simpa [powModFuel]
      | succ n ih =>
        intro b e acc h
        unfold powModFuel
        split
        · exact h
        · apply ih; split
          · exact Nat.mod_lt _ hm
          · exact h
    exact this f _ _ _ (Nat.mod_lt _ hm)
  unfold powMod
  rw [← Nat.mod_eq_of_lt hr, h, Nat.mul_mod, Nat.mod_mod, ← Nat.mul_mod, Nat.one_mul, ← Nat.pow_mod]

end MidnightZK
