import MidnightZK.Model.Common
import MidnightZK.Model.ModArith
/-!
Model of the window-size choice and of the Booth-window slicing of
`curves/src/msm.rs` (`get_booth_index`, the `c = if len < 4 {1} else if len < 32 {3} else
ceil(ln len)` prologue of `msm_serial` / `msm_best`). Import-free.
-/
namespace MidnightZK.C12

/-- `⌊e^c⌋` for `c = 0 … 22` (`e^22 < 2^32 < e^23`). `e^c` is irrational, so for an integer `n`
`⌈ln n⌉ = c` iff `⌊e^(c-1)⌋ < n ≤ ⌊e^c⌋`. -/
def expFloors : List Nat :=
  [1, 2, 7, 20, 54, 148, 403, 1096, 2980, 8103, 22026, 59874, 162754, 442413, 1202604, 3269017,
   8886110, 24154952, 65659969, 178482300, 485165195, 1318815734, 3584912846]

/-- `(f64::from(n as u32)).ln().ceil() as usize` for `n < 2^32` (`ln 0 = -∞` casts to `0`). -/
def ceilLn (n : Nat) : Nat := (expFloors.filter (· < n)).length

/-- `msm.rs: msm_serial / msm_best` — the window size `c` chosen for `len` bases
(`bases.len() as u32` truncates). -/
def chooseWindow (len : Nat) : Nat :=
  if len < 4 then 1 else if len < 32 then 3 else ceilLn (len % 2 ^ 32)

/-- `msm.rs: fn get_booth_index(window_index, window_size, el)` with `el` the little-endian bytes
of the scalar; every `u32` operation is spelled out on `Nat` (`<<` wraps modulo `2^32`). -/
def boothIndex (i w : Nat) (el : List Nat) : Int :=
  let skipBits := i * w - 1                       -- saturating_sub(1)
  let skipBytes := skipBits / 8
  -- `v[..4]` filled from `el.iter().skip(skip_bytes)`, missing bytes stay 0
  let tmp0 := leBytesToNat ((el.drop skipBytes).take 4)
  let tmp1 := if i = 0 then (tmp0 * 2) % 2 ^ 32 else tmp0
  let tmp2 := tmp1 / 2 ^ (skipBits - skipBytes * 8)
  let tmp3 := tmp2 % 2 ^ (w + 1)
  let sign := (tmp3 / 2 ^ w) % 2 = 0
  let tmp4 := (tmp3 + 1) / 2
  if sign then (tmp4 : Int)
  else - (((2 ^ w - 1 - (tmp4 - 1) % 2 ^ w : Nat)) : Int)

/-- The clean signed-digit definition the slicing is meant to compute: the `w+1` bits of `2·v`
starting at bit `w·i`, read as `⌈s/2⌉` or `⌈s/2⌉ − 2^w`. -/
def boothDigit (i w v : Nat) : Int :=
  let s := (2 * v / 2 ^ (w * i)) % 2 ^ (w + 1)
  if s < 2 ^ w then (((s + 1) / 2 : Nat) : Int) else (((s + 1) / 2 : Nat) : Int) - (2 ^ w : Nat)

/-- All Booth digits of one scalar, windows `0 … n-1`. -/
def boothRow (n w : Nat) (el : List Nat) : List Int :=
  (List.range n).map (fun i => boothIndex i w el)

end MidnightZK.C12
