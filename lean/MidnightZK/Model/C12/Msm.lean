import MidnightZK.Model.C12.Booth
/-!
Model of the bucket MSM of `curves/src/msm.rs` (`msm_serial`, `msm_parallel`, `msm_best` with
its batch-affine `Schedule`) and of the zero-scalar filter of
`proofs/src/poly/kzg/msm.rs: msm_specific`, over an abstract additive group `G`
(`Bucket::None` / the point at infinity is `0`). Import-free.
-/
namespace MidnightZK.C12

section
variable {G : Type} [Zero G] [Add G] [Neg G]

/-- `for _ in 0..n { acc = acc.double() }` -/
def dblN : Nat → G → G
  | 0, x => x
  | n + 1, x => dblN n (x + x)

/-- `msm_serial`, inner loop body: a Booth digit `d` sends `P` (or `-P`) to bucket `|d| - 1`. -/
def bucketAdd (buckets : List G) (d : Int) (P : G) : List G :=
  if 0 < d then buckets.modify (d.toNat - 1) (· + P)
  else if d < 0 then buckets.modify ((-d).toNat - 1) (· + (-P))
  else buckets

/-- "Summation by parts": `for b in buckets.rev() { running += b; acc += running }`. -/
def sumByParts (buckets : List G) (acc : G) : G :=
  (buckets.reverse.foldl (fun (st : G × G) b => let r := st.1 + b; (r, st.2 + r)) (0, acc)).2

/-- Number of bytes needed by the OR of all coefficient byte strings
(`field_byte_size - acc_or.iter().rev().position(|v| *v != 0)`, `0` if all are zero). -/
def maxByteSize (coeffs : List (List Nat)) : Nat :=
  coeffs.foldl (fun m co => max m (co.length - (co.reverse.takeWhile (· = 0)).length)) 0

/-- The buckets of one window of `msm_serial`. -/
def windowBuckets (w c : Nat) (coeffs : List (List Nat)) (bases : List G) : List G :=
  (coeffs.zip bases).foldl (fun bk cb => bucketAdd bk (boothIndex w c cb.1) cb.2)
    (List.replicate (2 ^ (c - 1)) 0)

/-- `msm.rs: pub fn msm_serial(coeffs, bases, acc)`; `coeffs` are the `to_repr()` byte strings. -/
def msmSerial (coeffs : List (List Nat)) (bases : List G) (acc : G) : G :=
  let c := chooseWindow bases.length
  let mbs := maxByteSize coeffs
  if mbs = 0 then acc else
  let nw := mbs * 8 / c + 1
  (List.range nw).reverse.foldl
    (fun acc w => sumByParts (windowBuckets w c coeffs bases) (dblN c acc)) acc

/-- `slice.chunks(k)` (fuel-recursive; `k = 0` panics in Rust, here it yields `[]`). -/
def chunksOfFuel {α : Type} : Nat → Nat → List α → List (List α)
  | 0, _, _ => []
  | fuel + 1, k, l => if l.isEmpty ∨ k = 0 then [] else l.take k :: chunksOfFuel fuel k (l.drop k)

def chunksOf {α : Type} (k : Nat) (l : List α) : List (List α) := chunksOfFuel l.length k l

/-- `msm.rs: pub fn msm_parallel` on a pool of `t` threads. -/
def msmParallel (t : Nat) (coeffs : List (List Nat)) (bases : List G) : G :=
  if coeffs.length > t then
    let chunk := coeffs.length / t
    ((chunksOf chunk coeffs).zip (chunksOf chunk bases)).foldl
      (fun a cb => a + msmSerial cb.1 cb.2 0) 0
  else msmSerial coeffs bases 0

/-! ### `msm_best`: batch-affine schedule -/

/-- `Schedule`: affine buckets (`None` = `BucketAffine::None`) and the pending batch
(`set[..ptr]`, each entry with the base point itself instead of its index). -/
structure Sched (G : Type) where
  buckets : List (Option G)
  pending : List (Nat × G × Bool)

def signed (P : G) (sign : Bool) : G := if sign then P else -P

variable [DecidableEq G]

/-- `batch_add`: every pending entry adds `±base` into its (distinct, non-empty) bucket; the
chord, tangent (`x` equal, `y` equal up to sign) and cancellation (`set_inf`) cases are the group
law, with `None` exactly when the sum is the identity. -/
def Sched.execute (s : Sched G) : Sched G :=
  { buckets := s.pending.foldl (fun bk e =>
      bk.modify e.1 (fun b => match b with
        | none => none           -- `if buckets[idx].is_inf() { continue }`
        | some a => let r := a + signed e.2.1 e.2.2; if r = 0 then none else some r)) s.buckets,
    pending := [] }

/-- `Schedule::contains`: scans all `BATCH_SIZE` slots, unused ones hold `buck_idx = 0`. -/
def Sched.contains (s : Sched G) (b : Nat) : Bool :=
  s.pending.any (fun e => e.1 == b) || (b == 0 && s.pending.length < 64)

/-- `Schedule::add` -/
def Sched.add (s : Sched G) (P : G) (b : Nat) (sign : Bool) : Sched G :=
  let s1 : Sched G :=
    match s.buckets[b]? with
    | some none => { s with buckets := s.buckets.set b (some (signed P sign)) }
    | _ => { s with pending := s.pending ++ [(b, P, sign)] }
  if s1.pending.length = 64 then s1.execute else s1

/-- `Bucket::add(&self, other: &BucketAffine)`: Jacobian bucket plus affine bucket. -/
def mergeBucket (j : G) (a : Option G) : G :=
  match a with
  | none => j
  | some p => j + p

/-- One window of `msm_best`: Jacobian buckets (greedy) + scheduled affine buckets, summation by
parts, shift to the window position. -/
def windowBest (w c : Nat) (coeffs : List (List Nat)) (bases : List G) : G :=
  let init : List G × Sched G :=
    (List.replicate (2 ^ (c - 1)) 0, { buckets := List.replicate (2 ^ (c - 1)) none, pending := [] })
  let st := (coeffs.zip bases).foldl (fun (st : List G × Sched G) cb =>
      let d := boothIndex w c cb.1
      -- `if buck_idx != 0 && !bases[base_idx].is_identity()`
      if d = 0 ∨ cb.2 = 0 then st else
      let sign := decide (0 < d)
      let b := d.natAbs - 1
      if st.2.contains b then (st.1.modify b (· + signed cb.2 sign), st.2)
      else (st.1, st.2.add cb.2 b sign)) init
  let sched := st.2.execute
  let merged := List.zipWith mergeBucket st.1 sched.buckets
  dblN (c * w) (sumByParts merged 0)

/-- `msm.rs: pub fn msm_best` on a pool of `t` threads, for a scalar field of `numBits` bits. -/
def msmBest (t numBits : Nat) (coeffs : List (List Nat)) (bases : List G) : G :=
  let c := chooseWindow bases.length
  if c < 10 then msmParallel t coeffs bases else
  let nw := numBits / c + 1
  (List.range nw).foldl (fun a w => a + windowBest w c coeffs bases) 0

/-- `kzg/msm.rs: msm_specific` — drop the terms with a zero scalar, then hand over to `inner`
(blst's Pippenger for BLS12-381 G1, `msm_best` otherwise). -/
def msmSpecific (inner : List (List Nat) → List G → G) (coeffs : List (List Nat)) (bases : List G) : G :=
  let kept := (coeffs.zip bases).filter (fun cb => leBytesToNat cb.1 ≠ 0)
  if kept.isEmpty then 0 else inner (kept.map (·.1)) (kept.map (·.2))

end

end MidnightZK.C12
