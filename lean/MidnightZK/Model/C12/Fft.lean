import MidnightZK.Model.C12.Msm
/-!
Model of `curves/src/fft.rs`: `best_fft` (bit-reversal permutation, twiddle table, iterative
butterflies when `log_n ≤ log2(threads)`, otherwise `recursive_butterfly_arithmetic`).
The group elements and the scalars are one ring-like type `F` (for the group instance used by
`g_to_lagrange` the points are represented by their discrete logarithms). Import-free.
-/
namespace MidnightZK.C12

/-- `fn bitreverse(n, l)`: `l` iterations of `r = (r << 1) | (n & 1); n >>= 1`. -/
def bitreverseLoop : Nat → Nat → Nat → Nat
  | 0, _, r => r
  | l + 1, n, r => bitreverseLoop l (n / 2) (2 * r + n % 2)

def bitreverse (n l : Nat) : Nat := bitreverseLoop l n 0

section
variable {F : Type} [Add F] [Sub F] [Mul F] [One F]

/-- `for k in 0..n { let rk = bitreverse(k, log_n); if k < rk { a.swap(rk, k) } }` -/
def bitrevPermute (logn : Nat) (a : Array F) : Array F :=
  (List.range a.size).foldl (fun a k =>
    let rk := bitreverse k logn
    if k < rk then a.swapIfInBounds k rk else a) a

/-- `twiddles = (0..n/2).scan(ONE, |w| w *= omega)`: `[1, ω, …, ω^(m-1)]`. -/
def twiddles (omega : F) : Nat → F → List F
  | 0, _ => []
  | m + 1, w => w :: twiddles omega m (w * omega)

/-- One butterfly layer between two halves: index 0 without multiplication ("case when twiddle
factor is one"), index `i ≥ 1` with `twiddles[i * twiddle_chunk]`. -/
def butterflies (tc : Nat) (tw : Array F) (l r : List F) : List F × List F :=
  let ts := List.zipWith (fun b i => if i = 0 then b else b * tw.getD (i * tc) 1) r (List.range r.length)
  (List.zipWith (· + ·) l ts, List.zipWith (· - ·) l ts)

/-- `recursive_butterfly_arithmetic(a, n = 2^k, twiddle_chunk, twiddles)`; the Rust base case
`n == 2` is the `k = 1` step over two one-element halves. -/
def fftRec (tw : Array F) : Nat → Nat → List F → List F
  | 0, _, a => a
  | k + 1, tc, a =>
    let h := a.length / 2
    let l := fftRec tw k (2 * tc) (a.take h)
    let r := fftRec tw k (2 * tc) (a.drop h)
    let xy := butterflies tc tw l r
    xy.1 ++ xy.2

/-- One stage of the iterative path: `a.chunks_mut(chunk).for_each(butterflies)`. -/
def fftIterStage (tw : Array F) (chunk tc : Nat) (a : List F) : List F :=
  (chunksOf chunk a).flatMap (fun blk =>
    let xy := butterflies tc tw (blk.take (chunk / 2)) (blk.drop (chunk / 2))
    xy.1 ++ xy.2)

/-- The `log_n` stages: `chunk = 2, 4, …`, `twiddle_chunk = n/2, n/4, …`. -/
def fftIterLoop (tw : Array F) : Nat → Nat → Nat → List F → List F
  | 0, _, _, a => a
  | s + 1, chunk, tc, a => fftIterLoop tw s (chunk * 2) (tc / 2) (fftIterStage tw chunk tc a)

/-- `fft.rs: pub fn best_fft(a, omega, log_n)` under `threads` rayon threads
(`none` = `assert_eq!(n, 1 << log_n)` fails). -/
def bestFft (threads : Nat) (a : List F) (omega : F) (logn : Nat) : Option (List F) :=
  let n := a.length
  if n ≠ 2 ^ logn then none else
  let a' := (bitrevPermute logn a.toArray).toList
  let tw := (twiddles omega (n / 2) 1).toArray
  if logn ≤ threads.log2 then some (fftIterLoop tw logn 2 (n / 2) a')
  else some (fftRec tw logn 1 a')

end

end MidnightZK.C12
