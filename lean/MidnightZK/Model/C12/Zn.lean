/-!
Integers modulo `m` as a plain structure with the operations the executable C12 models need
(instantiates the abstract group / ring of the MSM, FFT and polynomial models in the driver).
Values are kept canonical (`val < m`) by every operation. Import-free.
-/
namespace MidnightZK.C12

structure Zn (m : Nat) where
  val : Nat
deriving DecidableEq, Repr

namespace Zn
variable {m : Nat}
def ofNat (m n : Nat) : Zn m := ⟨n % m⟩
instance : Zero (Zn m) := ⟨⟨0⟩⟩
instance : One (Zn m) := ⟨⟨1 % m⟩⟩
instance : Add (Zn m) := ⟨fun a b => ⟨(a.val + b.val) % m⟩⟩
instance : Neg (Zn m) := ⟨fun a => ⟨(m - a.val % m) % m⟩⟩
instance : Sub (Zn m) := ⟨fun a b => ⟨(a.val + (m - b.val % m)) % m⟩⟩
instance : Mul (Zn m) := ⟨fun a b => ⟨(a.val * b.val) % m⟩⟩
instance : Inhabited (Zn m) := ⟨⟨0⟩⟩
end Zn

end MidnightZK.C12
