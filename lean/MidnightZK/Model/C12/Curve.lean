import MidnightZK.Model.Common
import MidnightZK.Model.ModArith
/-!
Self-contained short-Weierstrass arithmetic (`y² = x³ + b`, `a = 0`) over `Nat` modulo `p`, used
by the C12 driver to turn the model's answer `k = Σ sᵢ·bᵢ mod r` into the affine point `[k]·G`
that the implementation prints. Jacobian coordinates, `Z = 0` is the point at infinity.
This is reference arithmetic of the *driver* (the curve routines of blst / the derive macros are
the subject of C11, not of C12). Import-free.
-/
namespace MidnightZK.C12

structure CurveP where
  p : Nat
  b : Nat
  gx : Nat
  gy : Nat
  r : Nat

/-- BLS12-381 G1 (`curves/src/bls12_381`). -/
def bls12381G1 : CurveP where
  p := 0x1a0111ea397fe69a4b1ba7b6434bacd764774b84f38512bf6730d2a0f6b0f6241eabfffeb153ffffb9feffffffffaaab
  b := 4
  gx := 0x17f1d3a73197d7942695638c4fa9ac0fc3688c4f9774b905a14e3a3f171bac586c55e83ff97a1aeffb3af00adb22c6bb
  gy := 0x08b3f481e3aaa0f1a09e30ed741d8ae4fcf5e095d5d00af600db18cb2c04b3edd03cc744a2888ae40caa232946c5e7e1
  r := 0x73eda753299d7d483339d80809a1d80553bda402fffe5bfeffffffff00000001

/-- BN254 G1 (`curves/src/bn256`, feature `dev-curves`). -/
def bn256G1 : CurveP where
  p := 0x30644e72e131a029b85045b68181585d97816a916871ca8d3c208c16d87cfd47
  b := 3
  gx := 1
  gy := 2
  r := 0x30644e72e131a029b85045b68181585d2833e84879b9709143e1f593f0000001

structure Jac where
  x : Nat
  y : Nat
  z : Nat
deriving Repr, DecidableEq

def Jac.inf : Jac := ⟨0, 1, 0⟩

def jdouble (p : Nat) (P : Jac) : Jac :=
  if P.z % p = 0 ∨ P.y % p = 0 then Jac.inf else
  let a := mulMod P.x P.x p
  let b := mulMod P.y P.y p
  let c := mulMod b b p
  let xb := addMod P.x b p
  let d := mulMod 2 (subMod (subMod (mulMod xb xb p) a p) c p) p
  let e := mulMod 3 a p
  let f := mulMod e e p
  let x3 := subMod f (mulMod 2 d p) p
  let y3 := subMod (mulMod e (subMod d x3 p) p) (mulMod 8 c p) p
  let z3 := mulMod 2 (mulMod P.y P.z p) p
  ⟨x3, y3, z3⟩

def jadd (p : Nat) (P Q : Jac) : Jac :=
  if P.z % p = 0 then Q else if Q.z % p = 0 then P else
  let z1z1 := mulMod P.z P.z p
  let z2z2 := mulMod Q.z Q.z p
  let u1 := mulMod P.x z2z2 p
  let u2 := mulMod Q.x z1z1 p
  let s1 := mulMod P.y (mulMod Q.z z2z2 p) p
  let s2 := mulMod Q.y (mulMod P.z z1z1 p) p
  if u1 = u2 then (if s1 = s2 then jdouble p P else Jac.inf) else
  let h := subMod u2 u1 p
  let r := subMod s2 s1 p
  let hh := mulMod h h p
  let hhh := mulMod h hh p
  let v := mulMod u1 hh p
  let x3 := subMod (subMod (mulMod r r p) hhh p) (mulMod 2 v p) p
  let y3 := subMod (mulMod r (subMod v x3 p) p) (mulMod s1 hhh p) p
  let z3 := mulMod h (mulMod P.z Q.z p) p
  ⟨x3, y3, z3⟩

/-- Double-and-add, least significant bit first; `fuel` ≥ number of bits of `k`. -/
def smulFuel (p : Nat) : Nat → Nat → Jac → Jac → Jac
  | 0, _, _, acc => acc
  | fuel + 1, k, P, acc =>
    if k = 0 then acc
    else smulFuel p fuel (k / 2) (jdouble p P) (if k % 2 = 1 then jadd p acc P else acc)

def CurveP.gen (c : CurveP) : Jac := ⟨c.gx, c.gy, 1⟩

/-- `[k]·G` in Jacobian coordinates. -/
def CurveP.mulGen (c : CurveP) (k : Nat) : Jac := smulFuel c.p (k.log2 + 1) k c.gen Jac.inf

/-- `[G, 2G, 4G, …, 2^(n-1) G]`. -/
def doublings (p : Nat) : Nat → Jac → List Jac
  | 0, _ => []
  | n + 1, P => P :: doublings p n (jdouble p P)

/-- Sum of the table entries selected by the bits of `k` (least significant first). -/
def sumBits (p : Nat) : List Jac → Nat → Jac → Jac
  | [], _, acc => acc
  | P :: t, k, acc => if k = 0 then acc else sumBits p t (k / 2) (if k % 2 = 1 then jadd p acc P else acc)

/-- `[k]·G` from a precomputed table of doublings (same value as `mulGen`, faster in the driver). -/
def CurveP.mulGenTable (c : CurveP) (table : List Jac) (k : Nat) : Jac := sumBits c.p table (k % c.r) Jac.inf

/-- Modular inverse by the extended Euclidean algorithm (`0` for `0`). -/
def invEuclid (a m : Nat) : Nat :=
  go (2 * m.log2 + 4) (m : Int) ((a % m : Nat) : Int) 0 1
where
  go : Nat → Int → Int → Int → Int → Nat
    | 0, _, _, _, _ => 0
    | fuel + 1, r0, r1, t0, t1 =>
      if r1 = 0 then (if r0 = 1 then (t0 % m).toNat else 0)
      else let q := r0 / r1; go fuel r1 (r0 - q * r1) t1 (t0 - q * t1)

/-- Affine coordinates, `none` for the point at infinity. -/
def toAffine (p : Nat) (P : Jac) : Option (Nat × Nat) :=
  if P.z % p = 0 then none else
  let zi := invEuclid P.z p
  let zi2 := mulMod zi zi p
  some (mulMod P.x zi2 p, mulMod P.y (mulMod zi2 zi p) p)

def onCurve (c : CurveP) (x y : Nat) : Bool :=
  mulMod y y c.p == addMod (mulMod x (mulMod x x c.p) c.p) c.b c.p

def fmtAffine (a : Option (Nat × Nat)) : String :=
  match a with
  | none => "inf"
  | some (x, y) => s!"{toHex x},{toHex y}"

end MidnightZK.C12
