import MidnightZK.Model.C12.Par
import MidnightZK.Model.C12.Fft
/-!
Model of the polynomial helpers of `proofs/src/utils/arithmetic.rs` (`eval_polynomial`,
`kate_division`, `lagrange_interpolate`, `g_to_lagrange`), of `proofs/src/poly/domain.rs`
(`EvaluationDomain`) and of `Polynomial::rotate` (`proofs/src/poly/mod.rs`).
`F` is any type with ring operations; field inversion is a parameter `inv` (`batch_invert`
leaves zeros untouched, i.e. `inv 0 = 0`). Import-free.
-/
namespace MidnightZK.C12

section
variable {F : Type} [Zero F] [One F] [Add F] [Sub F] [Neg F] [Mul F]

/-- `pow_vartime` (library routine, specified as the plain power). -/
def powN (x : F) : Nat → F
  | 0 => 1
  | n + 1 => powN x n * x

/-- Fast exponentiation with the same value (used by the driver for large exponents). -/
def powFast (x : F) (e : Nat) : F :=
  go (e.log2 + 1) x e 1
where
  go : Nat → F → Nat → F → F
    | 0, _, _, acc => acc
    | fuel + 1, b, e, acc => if e = 0 then acc else go fuel (b * b) (e / 2) (if e % 2 = 1 then acc * b else acc)

/-- `fn evaluate(poly, point) = poly.iter().rev().fold(0, |acc, c| acc * point + c)` -/
def horner (poly : List F) (x : F) : F :=
  poly.reverse.foldl (fun acc c => acc * x + c) 0

/-- `arithmetic.rs: pub fn eval_polynomial(poly, point)` under `t` rayon threads. -/
def evalPolynomial (t : Nat) (poly : List F) (x : F) : F :=
  let n := poly.length
  if n * 2 < t then horner poly x else
  let chunkSize := (n + t - 1) / t
  let parts := (chunksOf chunkSize poly).zipIdx.map (fun ci => horner ci.1 x * powN x (ci.2 * chunkSize))
  -- `parts` has `t` slots, the unused ones stay zero
  (parts ++ List.replicate (t - parts.length) 0).foldl (· + ·) 0

/-- `arithmetic.rs: pub fn kate_division(a, b)` (`q` has `a.len().saturating_sub(1)` entries). -/
def kateDivision (a : List F) (b : F) : List F :=
  let nb := -b
  -- highest coefficients first, the constant coefficient is never visited
  let st := (a.reverse.take (a.length - 1)).foldl (fun (st : List F × F) r =>
      let lead := r - st.2
      (lead :: st.1, lead * nb)) ([], 0)
  st.1

variable [DecidableEq F]

/-- `arithmetic.rs: pub fn lagrange_interpolate(points, evals)`;
`none` = an assertion fails (length mismatch, repeated point). -/
def lagrangeInterpolate (inv : F → F) (points evals : List F) : Option (List F) :=
  if points.length ≠ evals.length then none else
  if ¬ points.Nodup then none else
  if points.length = 1 then some [evals.headD 0] else
  let n := points.length
  let idx := List.range n
  let final := (idx.zip (points.zip evals)).foldl (fun (final : List F) jxe =>
      let j := jxe.1
      let xj := jxe.2.1
      let ev := jxe.2.2
      let others := (idx.zip points).filter (fun kx => kx.1 ≠ j) |>.map (·.2)
      let tmp := others.foldl (fun (tmp : List F) xk =>
          let denom := inv (xj - xk)
          -- product[i] = tmp[i] * (-denom * x_k) + tmp[i-1] * denom
          List.zipWith (fun a b => a * (-denom * xk) + b * denom) (tmp ++ [0]) (0 :: tmp)) [1]
      List.zipWith (fun f c => f + c * ev) final tmp) (List.replicate n 0)
  some final

/-- `Polynomial<F, LagrangeCoeff>::rotate(Rotation(r))`: `rotate_left(r mod len)` /
`rotate_right(|r| mod len)`. -/
def polyRotate (values : List F) (r : Int) : List F :=
  let len := values.length
  if len = 0 then values else
  let k := r.natAbs % len
  if r < 0 then values.drop (len - k) ++ values.take (len - k)
  else values.drop k ++ values.take k

/-- Field constants `EvaluationDomain::new` reads from `ff::PrimeField` /
`WithSmallOrderMulGroup<3>`. -/
structure FieldConsts (F : Type) where
  S : Nat
  rootOfUnity : F
  zeta : F

/-- `domain.rs: struct EvaluationDomain`. -/
structure Domain (F : Type) where
  n : Nat
  k : Nat
  extendedK : Nat
  omega : F
  omegaInv : F
  extendedOmega : F
  extendedOmegaInv : F
  gCoset : F
  gCosetInv : F
  quotientPolyDegree : Nat
  ifftDivisor : F
  extendedIfftDivisor : F
  tEvaluations : List F
  barycentricWeight : F

def squareN (x : F) : Nat → F
  | 0 => x
  | n + 1 => squareN (x * x) n

/-- `while (1 << extended_k) < n * quotient_poly_degree { extended_k += 1 }` -/
def extendK (n q : Nat) : Nat → Nat → Nat
  | 0, ek => ek
  | fuel + 1, ek => if 2 ^ ek < n * q then extendK n q fuel (ek + 1) else ek

/-- `loop { t.push(cur); cur *= step; if cur == orig { break } }` -/
def tEvalLoop (orig step : F) : Nat → F → List F → List F
  | 0, _, acc => acc.reverse
  | fuel + 1, cur, acc =>
    let acc := cur :: acc
    let cur := cur * step
    if cur = orig then acc.reverse else tEvalLoop orig step fuel cur acc

/-- `EvaluationDomain::new(j, k)`; `none` = `j - 1` underflows or an assertion fails.
`ofNat` is `F::from(u64)`, `inv` field inversion, `pw` exponentiation. -/
def Domain.new (fc : FieldConsts F) (inv : F → F) (ofNat : Nat → F) (pw : F → Nat → F)
    (j k : Nat) : Option (Domain F) :=
  if j = 0 then none else
  let q := j - 1
  let n := 2 ^ k
  let ek := extendK n q 64 k
  if ek > fc.S then none else
  let extendedOmega := squareN fc.rootOfUnity (fc.S - ek)
  let omega := squareN extendedOmega (ek - k)
  let gCoset := fc.zeta
  let gCosetInv := gCoset * gCoset
  let orig := pw gCoset n
  let step := pw extendedOmega n
  let ts := tEvalLoop orig step (2 ^ (ek - k + 1)) orig []
  if ts.length ≠ 2 ^ (ek - k) then none else
  some {
    n := n, k := k, extendedK := ek, omega := omega, omegaInv := inv omega,
    extendedOmega := extendedOmega, extendedOmegaInv := inv extendedOmega,
    gCoset := gCoset, gCosetInv := gCosetInv, quotientPolyDegree := q,
    ifftDivisor := inv (ofNat (2 ^ k)), extendedIfftDivisor := inv (ofNat (2 ^ ek)),
    tEvaluations := ts.map (fun c => inv (c - 1)), barycentricWeight := inv (ofNat n) }

/-- `distribute_powers_zeta(a, into_coset)`: `a[i] *= [1, c₀, c₁][i % 3]` (index-wise map through
`parallelize`, hence schedule-independent by `parallelize_partition`). -/
def distributePowersZeta (d : Domain F) (a : List F) (intoCoset : Bool) : List F :=
  let c0 := if intoCoset then d.gCoset else d.gCosetInv
  let c1 := if intoCoset then d.gCosetInv else d.gCoset
  List.zipWith (fun x i => if i % 3 = 0 then x else if i % 3 = 1 then x * c0 else x * c1) a (List.range a.length)

/-- `fn ifft(a, omega_inv, log_n, divisor)` -/
def ifft (t : Nat) (a : List F) (omegaInv : F) (logn : Nat) (divisor : F) : Option (List F) :=
  (bestFft t a omegaInv logn).map (fun l => l.map (· * divisor))

def Domain.lagrangeToCoeff (d : Domain F) (t : Nat) (a : List F) : Option (List F) :=
  ifft t a d.omegaInv d.k d.ifftDivisor

def Domain.coeffToLagrange (d : Domain F) (t : Nat) (a : List F) : Option (List F) :=
  bestFft t a d.omega d.k

def Domain.coeffToExtended (d : Domain F) (t : Nat) (a : List F) : Option (List F) :=
  if a.length ≠ 2 ^ d.k then none else
  let a1 := distributePowersZeta d a true
  let a2 := a1 ++ List.replicate (2 ^ d.extendedK - a1.length) 0
  bestFft t a2 d.extendedOmega d.extendedK

def Domain.extendedToCoeff (d : Domain F) (t : Nat) (a : List F) : Option (List F) :=
  (ifft t a d.extendedOmegaInv d.extendedK d.extendedIfftDivisor).map
    (fun l => distributePowersZeta d l false)

def Domain.extendedToLagrange (d : Domain F) (t : Nat) (a : List F) : Option (List F) :=
  match ifft t a d.extendedOmegaInv d.extendedK d.extendedIfftDivisor with
  | none => none
  | some l => bestFft t (distributePowersZeta d (l.take d.n) false) d.omega d.k

/-- `divide_by_vanishing_poly`: `h[i] *= t_evaluations[i % len]`. -/
def Domain.divideByVanishingPoly (d : Domain F) (a : List F) : Option (List F) :=
  if a.length ≠ 2 ^ d.extendedK then none else
  some (List.zipWith (fun h i => h * d.tEvaluations.getD (i % d.tEvaluations.length) 0) a (List.range a.length))

/-- `rotate_omega(value, Rotation(r))` -/
def Domain.rotateOmega (d : Domain F) (pw : F → Nat → F) (value : F) (r : Int) : F :=
  if 0 ≤ r then value * pw d.omega r.toNat else value * pw d.omegaInv r.natAbs

/-- `l_i_range(x, xn, rotations)` -/
def Domain.lIRange (d : Domain F) (inv : F → F) (pw : F → Nat → F) (x xn : F) (rots : List Int) : List F :=
  let results := rots.map (fun r => inv (x - d.rotateOmega pw 1 r))
  let common := (xn - 1) * d.barycentricWeight
  List.zipWith (fun r res => d.rotateOmega pw (res * common) r) rots results


/-- `arithmetic.rs: pub fn compute_inner_product(a, b)` (`none` = `assert_eq!(a.len(), b.len())`). -/
def computeInnerProduct (a b : List F) : Option F :=
  if a.length ≠ b.length then none
  else some ((a.zip b).foldl (fun acc ab => acc + ab.1 * ab.2) 0)

/-- `domain.rs: constant_lagrange(scalar)` (`empty_lagrange` / `empty_coeff` are `scalar = 0`). -/
def Domain.constantLagrange (d : Domain F) (scalar : F) : List F := List.replicate d.n scalar

/-- `domain.rs: constant_extended(scalar)` (`empty_extended` is `scalar = 0`). -/
def Domain.constantExtended (d : Domain F) (scalar : F) : List F :=
  List.replicate (2 ^ d.extendedK) scalar

/-- `domain.rs: lagrange_from_vec` / `coeff_from_vec` (`none` = the length assertion fails). -/
def Domain.fromVec (d : Domain F) (values : List F) : Option (List F) :=
  if values.length ≠ d.n then none else some values

/-- `g_to_lagrange(g, k)` on discrete logarithms. -/
def gToLagrange (fc : FieldConsts F) (t : Nat) (twoInv rootInv : F) (pw : F → Nat → F) (g : List F) (k : Nat) :
    Option (List F) :=
  let nInv := pw twoInv k
  let omegaInv := squareN rootInv (fc.S - k)
  (bestFft t g omegaInv k).map (fun l => l.map (· * nInv))

end

end MidnightZK.C12
