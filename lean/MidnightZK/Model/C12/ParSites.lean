import MidnightZK.Model.C12.Poly
/-!
Mirrors of every *parallel / chunked site* of the anchored sources (the inventory is regenerated
on every run by `translators/c12_parsites.py` into `Gen/C12ParSites.lean` and compared with the
reviewed list in `Props/C12.lean: par_sites_all_reviewed`).

`parallelizeWith t w v` is `parallelize(v, w)` on a pool of `t` rayon threads: the slice is cut as
`chunks v.length t` says and the worker closure `w offset chunk` rewrites its chunk. Each site is
mirrored with the worker closure *as written in the source* (a running `index += 1`, an
`enumerate()` added to `start`, a running product started at `s^start`, a `zip` with
`rhs[start..]`), so that the thread count is a parameter of every definition here; the theorems of
`Props/C12.lean` (`*_par_indep`) prove that it does not matter. Import-free.
-/
namespace MidnightZK.C12

section
variable {α : Type}

/-- `arithmetic.rs: parallelize(v, f)` on `t` threads with the worker `w offset chunk ↦ chunk'`
(`f(chunk, offset)` mutates its chunk in place; every chunk is spawned once — rayon's contract). -/
def parallelizeWith (t : Nat) (w : Nat → List α → List α) (v : List α) : List α :=
  (chunks v.length t).flatMap (fun c => w c.1 ((v.drop c.1).take c.2))

/-- Worker shape `|chunk, start| for (i, x) in chunk.iter_mut().enumerate() { *x = f(start + i, *x) }`
(`params.rs: unsafe_setup` second loop, `read_custom`). -/
def wEnum (f : Nat → α → α) (start : Nat) (chunk : List α) : List α :=
  (chunk.zipIdx start).map (fun p => f p.2 p.1)

/-- Worker shape `|chunk, mut index| for x in chunk { *x = f(index, *x); index += 1 }`
(`domain.rs: divide_by_vanishing_poly`, `distribute_powers_zeta`). -/
def wRunning (f : Nat → α → α) : Nat → List α → List α
  | _, [] => []
  | index, x :: rest => f index x :: wRunning f (index + 1) rest

/-- Worker shape `|chunk, _| for x in chunk { *x = g(*x) }` (`g_to_lagrange`, `ifft`,
`Polynomial::mul_assign`). -/
def wMap (g : α → α) (_start : Nat) (chunk : List α) : List α := chunk.map g

/-- Worker of `Polynomial::{add_assign, add, sub}` (`poly/mod.rs`):
`|lhs, start| for (l, r) in lhs.iter_mut().zip(rhs.values[start..].iter()) { *l = op(*l, *r) }`;
`none` = the slice `rhs.values[start..]` panics (`start > rhs.len()`); positions of `lhs` beyond the
end of `rhs` keep their value (`zip` stops). -/
def wZipFrom (op : α → α → α) (rhs : List α) (start : Nat) (chunk : List α) : Option (List α) :=
  if start > rhs.length then none else
  some (List.zipWith op chunk (rhs.drop start) ++ chunk.drop (rhs.length - start))

/-- `parallelize` with a worker that may panic: the scope re-raises a worker's panic. -/
def parallelizeWithOpt (t : Nat) (w : Nat → List α → Option (List α)) (v : List α) : Option (List α) :=
  ((chunks v.length t).mapM (fun c => w c.1 ((v.drop c.1).take c.2))).map List.flatten

/-- `poly/mod.rs: impl Add / AddAssign / Sub for Polynomial` on `t` threads. -/
def polyZipPar (t : Nat) (op : α → α → α) (lhs rhs : List α) : Option (List α) :=
  parallelizeWithOpt t (wZipFrom op rhs) lhs

end

section
variable {F : Type} [Zero F] [One F] [Add F] [Sub F] [Neg F] [Mul F] [DecidableEq F]

/-- `poly/mod.rs: impl MulAssign<F> for Polynomial` on `t` threads: `rhs == 0` zeroes every entry,
`rhs == 1` does nothing, otherwise every entry is multiplied (three `parallelize` index-free maps). -/
def polyScalePar (t : Nat) (lhs : List F) (rhs : F) : List F :=
  if rhs = 0 then parallelizeWith t (wMap (fun _ => 0)) lhs
  else if rhs ≠ 1 then parallelizeWith t (wMap (· * rhs)) lhs
  else lhs

/-- `kzg/msm.rs: MSMKZG::scale` (`par_iter_mut().for_each(|s| *s *= factor)`): rayon's own
splitting of an index-free map; every element is visited once (rayon's contract), so the mirror has
no thread parameter. -/
def msmScale (scalars : List F) (factor : F) : List F := scalars.map (· * factor)

/-- `domain.rs: fn ifft` on `t` threads (`best_fft`, then `parallelize(a, |a, _| *a *= divisor)`). -/
def ifftPar (t : Nat) (a : List F) (omegaInv : F) (logn : Nat) (divisor : F) : Option (List F) :=
  (bestFft t a omegaInv logn).map (parallelizeWith t (wMap (· * divisor)))

/-- `domain.rs: fn distribute_powers_zeta` on `t` threads: the worker keeps a running `index`. -/
def distributePowersZetaPar (d : Domain F) (t : Nat) (a : List F) (intoCoset : Bool) : List F :=
  let c0 := if intoCoset then d.gCoset else d.gCosetInv
  let c1 := if intoCoset then d.gCosetInv else d.gCoset
  parallelizeWith t
    (wRunning (fun i x => if i % 3 = 0 then x else if i % 3 = 1 then x * c0 else x * c1)) a

def Domain.lagrangeToCoeffPar (d : Domain F) (t : Nat) (a : List F) : Option (List F) :=
  ifftPar t a d.omegaInv d.k d.ifftDivisor

def Domain.coeffToExtendedPar (d : Domain F) (t : Nat) (a : List F) : Option (List F) :=
  if a.length ≠ 2 ^ d.k then none else
  let a1 := distributePowersZetaPar d t a true
  let a2 := a1 ++ List.replicate (2 ^ d.extendedK - a1.length) 0
  bestFft t a2 d.extendedOmega d.extendedK

def Domain.extendedToCoeffPar (d : Domain F) (t : Nat) (a : List F) : Option (List F) :=
  (ifftPar t a d.extendedOmegaInv d.extendedK d.extendedIfftDivisor).map
    (fun l => distributePowersZetaPar d t l false)

def Domain.extendedToLagrangePar (d : Domain F) (t : Nat) (a : List F) : Option (List F) :=
  match ifftPar t a d.extendedOmegaInv d.extendedK d.extendedIfftDivisor with
  | none => none
  | some l => bestFft t (distributePowersZetaPar d t (l.take d.n) false) d.omega d.k

/-- `domain.rs: divide_by_vanishing_poly` on `t` threads (running `index`, table indexed modulo its
length). -/
def Domain.divideByVanishingPolyPar (d : Domain F) (t : Nat) (a : List F) : Option (List F) :=
  if a.length ≠ 2 ^ d.extendedK then none else
  some (parallelizeWith t
    (wRunning (fun i h => h * d.tEvaluations.getD (i % d.tEvaluations.length) 0)) a)

/-- `arithmetic.rs: g_to_lagrange` on `t` threads, on discrete logarithms. -/
def gToLagrangePar (fc : FieldConsts F) (t : Nat) (twoInv rootInv : F) (pw : F → Nat → F)
    (g : List F) (k : Nat) : Option (List F) :=
  let nInv := pw twoInv k
  let omegaInv := squareN rootInv (fc.S - k)
  (bestFft t g omegaInv k).map (parallelizeWith t (wMap (· * nInv)))

/-- Worker of the first loop of `params.rs: unsafe_setup`:
`|g, start| { let mut cur = g1 * s^start; for g in g { *g = cur; cur *= s } }`
(on discrete logarithms: `g1` is the logarithm of the generator). -/
def wSetupG (pw : F → Nat → F) (g1 s : F) (start : Nat) (chunk : List F) : List F :=
  (chunk.foldl (fun (st : List F × F) _ => (st.2 :: st.1, st.2 * s)) ([], g1 * pw s start)).1.reverse

/-- `params.rs: unsafe_setup`, the vector `g = [G, [s]G, …, [s^(n-1)]G]` on `t` threads. -/
def setupG (t : Nat) (pw : F → Nat → F) (g1 s : F) (n : Nat) : List F :=
  parallelizeWith t (wSetupG pw g1 s) (List.replicate n 0)

/-- `params.rs: unsafe_setup`, the vector `g_lagrange` on `t` threads:
`scalar_i = multiplier · root^i · (s − root^i)⁻¹` with `multiplier = (sⁿ − 1)/n`
(`inv` returns `none` for zero: `.invert().unwrap()` panics when `s` is a domain point). -/
def setupGLagrange (t : Nat) (pw : F → Nat → F) (inv : F → Option F) (g1 s root nInv : F) (n : Nat) :
    Option (List F) :=
  let multiplier := (pw s n - 1) * nInv
  parallelizeWithOpt t (fun start chunk =>
    (chunk.zipIdx start).mapM (fun p =>
      let rootPow := pw root p.2
      (inv (s - rootPow)).map (fun iv => g1 * (multiplier * rootPow * iv)))) (List.replicate n 0)

end

section
variable {α β : Type}

/-- `params.rs: read_custom` (`SerdeFormat::Processed`): the compressed points are decoded in
parallel, `points[i] = from_bytes(compressed[start + i])` (`none` = invalid encoding). -/
def readPointsPar (t : Nat) (dec : α → Option β) (compressed : List α) : List (Option β) :=
  parallelizeWith t (wEnum (fun i _ => (compressed[i]?).bind dec))
    (List.replicate compressed.length none)

end

section
variable {F : Type} [Zero F] [One F] [Add F] [Mul F]

/-- `arithmetic.rs: pub(crate) fn powers(base)` (first `n` items of the `successors` iterator:
`1, base·1, base·(base·1), …`). -/
def powersTake (base : F) : Nat → List F
  | 0 => []
  | n + 1 => go n 1
where
  go : Nat → F → List F
    | 0, cur => [cur]
    | m + 1, cur => cur :: go m (base * cur)

/-- `arithmetic.rs: pub(crate) fn inner_product(polys, scalars)`:
`polys.iter().zip(scalars).map(|(p, s)| p * s).reduce(|acc, p| acc + p).unwrap()`
(`none` = the `unwrap` of an empty reduction panics; `zip` stops at the shorter side). The items
are of any type `T` with `T * F` (`smul`) and `T + T` (`add`): field elements, polynomials,
commitments. -/
def innerProduct {T : Type} (smul : T → F → T) (add : T → T → T) (polys : List T) (scalars : List F) :
    Option T :=
  match (polys.zip scalars).map (fun ps => smul ps.1 ps.2) with
  | [] => none
  | first :: rest => some (rest.foldl add first)

/-- `arithmetic.rs: pub(crate) fn evals_inner_product(evals_set, scalars)`:
`res = vec![0; evals_set[0].len()]; for (evals, s) in zip { for i in 0..res.len() { res[i] +=
evals[i] * s } }` (`none` = `evals_set[0]` / `evals[i]` out of bounds). -/
def evalsInnerProduct (evalsSet : List (List F)) (scalars : List F) : Option (List F) :=
  match evalsSet with
  | [] => none
  | first :: _ =>
    (evalsSet.zip scalars).foldlM (fun (res : List F) es =>
      if es.1.length < res.length then none
      else some (List.zipWith (fun r e => r + e * es.2) res es.1)) (List.replicate first.length 0)

end

/-- `arithmetic.rs: pub(crate) fn truncate(scalar)` (feature `truncated-challenges`): keep the low
`⌈⌈NUM_BITS/8⌉/2⌉` bytes of the little-endian representation, as a number. -/
def truncateScalar (numBits v : Nat) : Nat := v % 256 ^ (((numBits + 7) / 8 + 1) / 2)

end MidnightZK.C12
