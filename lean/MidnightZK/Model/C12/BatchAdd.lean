import MidnightZK.Model.C12.Msm
/-!
Model of `curves/src/msm.rs: fn batch_add` — the batch-affine bucket addition of `msm_best`:
affine chord / tangent formulas whose denominators are inverted together (Montgomery's trick: one
field inversion per batch), with the `P + P` (doubling), `P + (−P)` (`set_inf`) and empty-bucket
(`continue`) cases. `F` is the base field of the curve (any type with the ring operations and a
partial inverse); `none` results are the panics of the Rust code (index out of bounds,
`acc.invert().expect("Some edge case has not been handled properly")`). Import-free.
-/
namespace MidnightZK.C12

/-- `msm.rs: struct Affine<C> { x, y }` (also the payload of `BucketAffine::Point`). -/
structure Aff (F : Type) where
  x : F
  y : F
deriving DecidableEq, Repr

/-- `msm.rs: struct SchedulePoint { base_idx, buck_idx, sign }`. -/
structure SchedPt where
  baseIdx : Nat
  buckIdx : Nat
  sign : Bool
deriving DecidableEq, Repr

section
variable {F : Type} [Zero F] [One F] [Add F] [Sub F] [Neg F] [Mul F] [DecidableEq F]

/-- One iteration of the first loop of `batch_add`: returns `((t, z), buckets', acc')`
(`t`/`z` stay `ZERO` on the `continue` branches). -/
def baFwdStep (bases : List (Aff F)) (bk : List (Option (Aff F))) (acc : F) (e : SchedPt) :
    Option ((F × F) × List (Option (Aff F)) × F) :=
  match bk[e.buckIdx]? with
  | none => none                                   -- `buckets[*buck_idx]` out of bounds
  | some none => some ((0, 0), bk, acc)            -- `if buckets[*buck_idx].is_inf() { continue }`
  | some (some B) =>
    match bases[e.baseIdx]? with
    | none => none                                 -- `bases[*base_idx]` out of bounds
    | some P =>
      if B.x = P.x then
        -- `(buckets[..].y() == bases[..].y) ^ !*sign`
        if (decide (B.y = P.y)) != (!e.sign) then
          let xsq := P.x * P.x
          let z := B.y + B.y
          let t := acc * (xsq + xsq + xsq)
          some ((t, z), bk, acc * z)
        else some ((0, 0), bk.set e.buckIdx none, acc)   -- `set_inf()`
      else
        let z := B.x - P.x
        let t := if e.sign then acc * (B.y - P.y) else acc * (B.y + P.y)
        some ((t, z), bk, acc * z)

/-- The first loop (`for ((point, t), z) in points.iter().zip(..).zip(..)`). -/
def baFwd (bases : List (Aff F)) :
    List SchedPt → List (Option (Aff F)) → F → Option (List (F × F) × List (Option (Aff F)) × F)
  | [], bk, acc => some ([], bk, acc)
  | e :: es, bk, acc =>
    match baFwdStep bases bk acc e with
    | none => none
    | some (tz, bk', acc') =>
      match baFwd bases es bk' acc' with
      | none => none
      | some (tzs, bk'', acc'') => some (tz :: tzs, bk'', acc'')

/-- One iteration of the second loop. -/
def baBwdStep (bases : List (Aff F)) (bk : List (Option (Aff F))) (acc : F) (e : SchedPt)
    (tz : F × F) : Option (List (Option (Aff F)) × F) :=
  match bk[e.buckIdx]? with
  | none => none
  | some none => some (bk, acc)                    -- `is_inf() → continue`
  | some (some B) =>
    match bases[e.baseIdx]? with
    | none => none
    | some P =>
      let lambda := acc * tz.1
      let acc' := acc * tz.2
      let x := lambda * lambda - (B.x + P.x)
      let y := if e.sign then lambda * (P.x - x) - P.y else lambda * (P.x - x) + P.y
      some (bk.set e.buckIdx (some ⟨x, y⟩), acc')

/-- The second loop runs over the same triples in reverse (`.rev()`): last entry first. -/
def baBwd (bases : List (Aff F)) :
    List (SchedPt × (F × F)) → List (Option (Aff F)) → F → Option (List (Option (Aff F)) × F)
  | [], bk, acc => some (bk, acc)
  | (e, tz) :: rest, bk, acc =>
    match baBwd bases rest bk acc with
    | none => none
    | some (bk', acc') => baBwdStep bases bk' acc' e tz

/-- `msm.rs: fn batch_add(size, buckets, points, bases)` with `points = set[..size]`;
`inv` is `Field::invert` (`none` for zero: the `expect` panics). -/
def batchAdd (inv : F → Option F) (bases : List (Aff F)) (bk : List (Option (Aff F)))
    (points : List SchedPt) : Option (List (Option (Aff F))) :=
  match baFwd bases points bk 1 with
  | none => none
  | some (tzs, bk1, acc) =>
    match inv acc with
    | none => none
    | some ai => (baBwd bases (points.zip tzs) bk1 ai).map (·.1)

end

section
variable {G : Type} [Zero G] [Add G] [Neg G] [DecidableEq G]

/-- The scheduling part of one window of `msm_best` (`if sched.contains(b) { jacobian } else {
sched.add(..) }` … `sched.execute()`), driven by explicit `(base_idx, buck_idx, sign)` requests
as the hook `verif_schedule_run` does: per request `0` (diverted) or `1 + ptr` after `add`;
then the affine buckets after the final flush. -/
def schedRun (c : Nat) (bases : List G) (reqs : List (Nat × Nat × Bool)) :
    List Nat × List (Option G) :=
  let init : Sched G := { buckets := List.replicate (2 ^ (c - 1)) none, pending := [] }
  let st := reqs.foldl (fun (st : Sched G × List Nat) r =>
      if st.1.contains r.2.1 then (st.1, 0 :: st.2) else
        let s' := st.1.add (bases.getD r.1 0) r.2.1 r.2.2
        (s', (1 + s'.pending.length) :: st.2)) (init, [])
  (st.2.reverse, st.1.execute.buckets)

end

end MidnightZK.C12
