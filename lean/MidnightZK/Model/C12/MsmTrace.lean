import MidnightZK.Model.C12.Msm
/-!
The driving loop of `curves/src/msm.rs: msm_best` after the `c < 10` test, with the window size as
a parameter (the hook `verif_trace::force_window` lets the harness run the real loop with small
windows), and the per-coefficient decisions the hook `verif_trace` records. Import-free.
-/
namespace MidnightZK.C12

section
variable {G : Type} [Zero G] [Add G] [Neg G] [DecidableEq G]

/-- `msm_best` from `let number_of_windows = NUM_BITS / c + 1` on, for a given window size `c`
(`acc.par_iter_mut()…for_each(window)`, then `acc.into_iter().sum()`). -/
def msmBestWindows (c numBits : Nat) (coeffs : List (List Nat)) (bases : List G) : G :=
  let nw := numBits / c + 1
  (List.range nw).foldl (fun a w => a + windowBest w c coeffs bases) 0

/-- What the hook records for window `w`: per coefficient the Booth digit and the decision
`0` = zero digit, `1` = identity base, `2` = bucket already in the pending batch (Jacobian side),
`3` = handed to `Schedule::add`. Same state machine as `windowBest`. -/
def windowBestTrace (w c : Nat) (coeffs : List (List Nat)) (bases : List G) : List (Int × Nat) :=
  let init : Sched G × List (Int × Nat) :=
    ({ buckets := List.replicate (2 ^ (c - 1)) none, pending := [] }, [])
  ((coeffs.zip bases).foldl (fun (st : Sched G × List (Int × Nat)) cb =>
      let d := boothIndex w c cb.1
      if d = 0 then (st.1, (d, 0) :: st.2) else
      if cb.2 = 0 then (st.1, (d, 1) :: st.2) else
      let sign := decide (0 < d)
      let b := d.natAbs - 1
      if st.1.contains b then (st.1, (d, 2) :: st.2)
      else (st.1.add cb.2 b sign, (d, 3) :: st.2)) init).2.reverse

end

/-- Rolling digest of one window's trace (the same on the Rust side): a trace of 8104 entries per
window is compared through it. -/
def traceDigest (tr : List (Int × Nat)) : Nat :=
  tr.foldl (fun h e => (h * 1000003 + ((e.1 + 2 ^ 24).toNat * 4 + e.2)) % (2 ^ 61 - 1)) 0

end MidnightZK.C12
