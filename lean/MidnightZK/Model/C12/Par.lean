import MidnightZK.Model.Common
/-!
Model of `midnight_proofs::utils::arithmetic::parallelize` (chunk layout) and of the
chunked Horner evaluation `eval_polynomial`. Import-free.
-/
namespace MidnightZK.C12

/-- The `(offset, length)` pairs handed to the worker closure by `parallelize`
for a slice of `len` elements and `t` rayon threads, in spawn order. -/
def chunks (len t : Nat) : List (Nat × Nat) :=
  let base := len / t
  let cutoff := len % t
  let split := cutoff * (base + 1)
  (if cutoff ≠ 0 then (List.range cutoff).map (fun id => (id * (base + 1), base + 1)) else []) ++
  (if base ≠ 0 then (List.range ((len - split) / base)).map (fun id => (split + id * base, base)) else [])

/-- Indices visited by the workers, in spawn order. -/
def visited (len t : Nat) : List Nat :=
  (chunks len t).flatMap (fun c => List.range' c.1 c.2)

end MidnightZK.C12
