import MidnightZK.Model.Common
import MidnightZK.Model.ModArith
import MidnightZK.Model.C10.Field
import MidnightZK.Gen.C10Constants
/-!
Extension-field towers: the formulas of `ff_ext/quadratic.rs`, `ff_ext/cubic.rs`,
`bn256/fq2.rs`, `bn256/fq6.rs`, `bls12_381/fp2.rs`, `bls12_381/fp6.rs`, written once over an
arbitrary carrier with `+ - * -x` (so that the theorems can quantify over every commutative ring
and the driver can run them over `Z/p`). Import-free.
-/
namespace MidnightZK.C10

/-- `c0 + c1·X` (`QuadExtField`, `Fp2`, `Fp12`). -/
structure Quad (F : Type) where
  c0 : F
  c1 : F
  deriving DecidableEq, Repr

/-- `c0 + c1·X + c2·X²` (`CubicExtField`, `Fp6`). -/
structure Cubic (F : Type) where
  c0 : F
  c1 : F
  c2 : F
  deriving DecidableEq, Repr

section Formulas
variable {F : Type} [Add F] [Sub F] [Mul F] [Neg F]

instance : Add (Quad F) := ⟨fun a b => ⟨a.c0 + b.c0, a.c1 + b.c1⟩⟩
instance : Sub (Quad F) := ⟨fun a b => ⟨a.c0 - b.c0, a.c1 - b.c1⟩⟩
instance : Neg (Quad F) := ⟨fun a => ⟨-a.c0, -a.c1⟩⟩
instance : Add (Cubic F) := ⟨fun a b => ⟨a.c0 + b.c0, a.c1 + b.c1, a.c2 + b.c2⟩⟩
instance : Sub (Cubic F) := ⟨fun a b => ⟨a.c0 - b.c0, a.c1 - b.c1, a.c2 - b.c2⟩⟩
instance : Neg (Cubic F) := ⟨fun a => ⟨-a.c0, -a.c1, -a.c2⟩⟩

/-- `ff_ext/quadratic.rs: QuadExtFieldArith::mul_assign` (Karatsuba; `nr = mul_by_nonresidue`). -/
def quadMul (nr : F → F) (a b : Quad F) : Quad F :=
  let v0 := a.c0 * b.c0
  let v1 := a.c1 * b.c1
  ⟨v0 + nr v1, (a.c0 + a.c1) * (b.c0 + b.c1) - (v0 + v1)⟩

/-- `QuadExtFieldArith::square_assign` (default). -/
def quadSquare (nr : F → F) (a : Quad F) : Quad F :=
  let ab := a.c0 * a.c1
  let c0c1 := a.c0 + a.c1
  let c0 := (nr a.c1 + a.c0) * c0c1 - ab
  ⟨c0 - nr ab, ab + ab⟩

/-- `bn256/fq2.rs: square_assign` (override, `u² = -1`). -/
def fq2Square (a : Quad F) : Quad F :=
  let s := a.c0 + a.c1
  let d := a.c0 - a.c1
  let c := a.c0 + a.c0
  ⟨s * d, c * a.c1⟩

/-- `QuadExtField::norm`: `c0² - nr(c1²)`. -/
def quadNorm (nr : F → F) (a : Quad F) : F := a.c0 * a.c0 - nr (a.c1 * a.c1)

/-- `Field::invert` of `QuadExtField`: with `t = norm⁻¹`, `(c0·t, c1·(-t))`. -/
def quadInvWith (t : F) (a : Quad F) : Quad F := ⟨a.c0 * t, a.c1 * -t⟩

/-- `bls12_381/fp2.rs: fn mul_by_nonresidue` (times `1 + u`). -/
def blsFp2MulNr (a : Quad F) : Quad F := ⟨a.c0 - a.c1, a.c1 + a.c0⟩

/-- `bn256/fq2.rs: fn mul_by_nonresidue` (times `9 + u`): `t = 8·a` by three doublings. -/
def bnFq2MulNr (a : Quad F) : Quad F :=
  let d1 : Quad F := a + a
  let d2 := d1 + d1
  let t := d2 + d2
  ⟨t.c0 + a.c0 - a.c1, t.c1 + a.c0 + a.c1⟩

/-- `ff_ext/cubic.rs: CubicExtFieldArith::mul_assign`. -/
def cubicMul (nr : F → F) (a b : Cubic F) : Cubic F :=
  let aa := a.c0 * b.c0
  let bb := a.c1 * b.c1
  let cc := a.c2 * b.c2
  let t1 := (b.c1 + b.c2) * (a.c1 + a.c2) - (cc + bb)
  let t1 := aa + nr t1
  let t3 := (b.c0 + b.c2) * (a.c0 + a.c2) - (aa - bb + cc)
  let t2 := (b.c0 + b.c1) * (a.c0 + a.c1) - (aa + bb)
  let t2 := t2 + nr cc
  ⟨t1, t2, t3⟩

/-- `CubicExtFieldArith::square_assign`. -/
def cubicSquare (nr : F → F) (a : Cubic F) : Cubic F :=
  let s0 := a.c0 * a.c0
  let ab := a.c0 * a.c1
  let s1 := ab + ab
  let m := a.c0 - a.c1 + a.c2
  let s2 := m * m
  let bc := a.c1 * a.c2
  let s3 := bc + bc
  let s4 := a.c2 * a.c2
  ⟨nr s3 + s0, nr s4 + s1, s1 + s2 + s3 - s0 - s4⟩

/-- The cofactors `(c0, c1, c2)` and the norm-like value `t` of `Field::invert` of
`CubicExtField` (`ff_ext/cubic.rs`). -/
def cubicInvParts (nr : F → F) (a : Cubic F) : Cubic F × F :=
  let c0 := nr a.c2 * -a.c1 + a.c0 * a.c0
  let c1 := nr (a.c2 * a.c2) - a.c0 * a.c1
  let c2 := a.c1 * a.c1 - a.c0 * a.c2
  let t := a.c2 * c1 + a.c1 * c2
  let t := nr t + a.c0 * c0
  (⟨c0, c1, c2⟩, t)

/-- `… t.invert().map(|t| (t·c0, t·c1, t·c2))`. -/
def cubicInvWith (nr : F → F) (tinv : F) (a : Cubic F) : Cubic F :=
  let c := (cubicInvParts nr a).1
  ⟨tinv * c.c0, tinv * c.c1, tinv * c.c2⟩

/-- `bn256/fq6.rs: fn mul_by_nonresidue`, `bls12_381/fp6.rs: fn mul_by_nonresidue` (times `v`). -/
def cubicMulNr (nr : F → F) (a : Cubic F) : Cubic F := ⟨nr a.c2, a.c0, a.c1⟩

/-- `bls12_381/fp6.rs: MulAssign`. -/
def blsFp6Mul (nr : F → F) (a b : Cubic F) : Cubic F :=
  let aa := a.c0 * b.c0
  let bb := a.c1 * b.c1
  let cc := a.c2 * b.c2
  let t1 := nr ((b.c1 + b.c2) * (a.c1 + a.c2) - bb - cc) + aa
  let t3 := (b.c0 + b.c2) * (a.c0 + a.c2) - aa + bb - cc
  let t2 := (b.c0 + b.c1) * (a.c0 + a.c1) - aa - bb + nr cc
  ⟨t1, t2, t3⟩

/-- `bls12_381/fp6.rs: fn square`. -/
def blsFp6Square (nr : F → F) (a : Cubic F) : Cubic F :=
  let s0 := a.c0 * a.c0
  let ab := a.c0 * a.c1
  let s1 := ab + ab
  let m := a.c0 - a.c1 + a.c2
  let s2 := m * m
  let bc := a.c1 * a.c2
  let s3 := bc + bc
  let s4 := a.c2 * a.c2
  ⟨nr s3 + s0, nr s4 + s1, s1 + s2 + s3 - s0 - s4⟩

/-- `bls12_381/fp6.rs: fn invert`: cofactors and `t`. -/
def blsFp6InvParts (nr : F → F) (a : Cubic F) : Cubic F × F :=
  let c0 := -(nr a.c2 * a.c1) + a.c0 * a.c0
  let c1 := nr (a.c2 * a.c2) - a.c0 * a.c1
  let c2 := a.c1 * a.c1 - a.c0 * a.c2
  let t := nr (a.c2 * c1 + a.c1 * c2) + a.c0 * c0
  (⟨c0, c1, c2⟩, t)

/-- `ff_ext/cubic.rs: CubicSparseMul::mul_by_1`. -/
def mulBy1 (nr : F → F) (a : Cubic F) (c1 : F) : Cubic F :=
  let bb := a.c1 * c1
  let t1 := nr ((a.c1 + a.c2) * c1 - bb)
  let t2 := (a.c0 + a.c1) * c1 - bb
  ⟨t1, t2, bb⟩

/-- `CubicSparseMul::mul_by_01`. -/
def mulBy01 (nr : F → F) (a : Cubic F) (c0 c1 : F) : Cubic F :=
  let aa := a.c0 * c0
  let bb := a.c1 * c1
  let t1 := aa + nr (c1 * (a.c1 + a.c2) - bb)
  let t3 := c0 * (a.c0 + a.c2) - aa + bb
  let t2 := (c0 + c1) * (a.c0 + a.c1) - aa - bb
  ⟨t1, t2, t3⟩

/-- `ff_ext/quadratic.rs: QuadSparseMul::mul_by_014`. -/
def mulBy014 (nr : F → F) (a : Quad (Cubic F)) (c0 c1 c4 : F) : Quad (Cubic F) :=
  let aa := mulBy01 nr a.c0 c0 c1
  let bb := mulBy1 nr a.c1 c4
  let t0 := a.c1 + a.c0
  let t1 := c1 + c4
  ⟨cubicMulNr nr bb + aa, mulBy01 nr t0 c0 t1 - (aa + bb)⟩

/-- `QuadSparseMul::mul_by_034`. -/
def mulBy034 (nr : F → F) (a : Quad (Cubic F)) (c0 c3 c4 : F) : Quad (Cubic F) :=
  let t0 : Cubic F := ⟨a.c0.c0 * c0, a.c0.c1 * c0, a.c0.c2 * c0⟩
  let t1 := mulBy01 nr a.c1 c3 c4
  let t2 := a.c0 + a.c1
  let t3 := c0 + c3
  ⟨t0 + cubicMulNr nr t1, mulBy01 nr t2 t3 c4 - t0 - t1⟩

/-! ### Reference products in the quotient rings -/

/-- Product in `F[X]/(X² - β)`. -/
def quadMulSpec (β : F) (a b : Quad F) : Quad F :=
  ⟨a.c0 * b.c0 + β * (a.c1 * b.c1), a.c0 * b.c1 + a.c1 * b.c0⟩

/-- Product in `F[X]/(X³ - ξ)`. -/
def cubicMulSpec (ξ : F) (a b : Cubic F) : Cubic F :=
  ⟨a.c0 * b.c0 + ξ * (a.c1 * b.c2 + a.c2 * b.c1),
   a.c0 * b.c1 + a.c1 * b.c0 + ξ * (a.c2 * b.c2),
   a.c0 * b.c2 + a.c1 * b.c1 + a.c2 * b.c0⟩

end Formulas

/-! ### Executable instance: `Z/p` -/

/-- Integers modulo `p` (value kept reduced). -/
structure ZP (p : Nat) where
  v : Nat
  deriving DecidableEq, Repr

instance (p : Nat) : Add (ZP p) := ⟨fun a b => ⟨(a.v + b.v) % p⟩⟩
instance (p : Nat) : Sub (ZP p) := ⟨fun a b => ⟨(a.v + (p - b.v % p)) % p⟩⟩
instance (p : Nat) : Mul (ZP p) := ⟨fun a b => ⟨a.v * b.v % p⟩⟩
instance (p : Nat) : Neg (ZP p) := ⟨fun a => ⟨(p - a.v % p) % p⟩⟩

abbrev E2 (p : Nat) := Quad (ZP p)
abbrev E6 (p : Nat) := Cubic (E2 p)
abbrev E12 (p : Nat) := Quad (E6 p)

/-- A tower: prime `p`, `Fp2 = Fp[u]/(u²+1)`, `Fp6 = Fp2[v]/(v³-ξ)`, `Fp12 = Fp6[w]/(w²-v)`. -/
structure TowerInfo where
  name : String
  p : Nat
  /-- `ξ = xi0 + u` -/
  xi0 : Nat
  /-- BLS12-381 formulas (`bls12_381/fp6.rs`) vs the generic `ff_ext` ones (BN254) -/
  bls : Bool

def towers : List TowerInfo :=
  [⟨"Bls", limbsVal Gen.BlsFp.MODULUS, 1, true⟩, ⟨"Bn256", Gen.Bn256Fq.MODULUS, 9, false⟩]

variable (T : TowerInfo)

def nr1 (a : ZP T.p) : ZP T.p := -a
def e2Mul (a b : E2 T.p) : E2 T.p := quadMul (nr1 T) a b
def nr2 (a : E2 T.p) : E2 T.p := if T.bls then blsFp2MulNr a else bnFq2MulNr a
def e2Square (a : E2 T.p) : E2 T.p := if T.bls then e2Mul T a a else fq2Square a
def zpInv (a : ZP T.p) : ZP T.p := ⟨invMod a.v T.p⟩
def e2Norm (a : E2 T.p) : ZP T.p := if T.bls then a.c0 * a.c0 + a.c1 * a.c1 else quadNorm (nr1 T) a
def e2IsZero (a : E2 T.p) : Bool := a.c0.v = 0 ∧ a.c1.v = 0
def e2Inv (a : E2 T.p) : Option (E2 T.p) :=
  if e2IsZero T a then none else some (quadInvWith (zpInv T (e2Norm T a)) a)
instance : Mul (E2 T.p) := ⟨e2Mul T⟩
def e6Mul (a b : E6 T.p) : E6 T.p := if T.bls then blsFp6Mul (nr2 T) a b else cubicMul (nr2 T) a b
def e6Square (a : E6 T.p) : E6 T.p := if T.bls then blsFp6Square (nr2 T) a else cubicSquare (nr2 T) a
def e6IsZero (a : E6 T.p) : Bool := e2IsZero T a.c0 ∧ e2IsZero T a.c1 ∧ e2IsZero T a.c2
def e6Inv (a : E6 T.p) : Option (E6 T.p) :=
  let parts := if T.bls then blsFp6InvParts (nr2 T) a else cubicInvParts (nr2 T) a
  match e2Inv T parts.2 with
  | none => none
  | some ti => some ⟨ti * parts.1.c0, ti * parts.1.c1, ti * parts.1.c2⟩
def nr6 (a : E6 T.p) : E6 T.p := cubicMulNr (nr2 T) a
instance : Mul (E6 T.p) := ⟨e6Mul T⟩
def e12Mul (a b : E12 T.p) : E12 T.p := quadMul (nr6 T) a b
def e12Square (a : E12 T.p) : E12 T.p := quadSquare (nr6 T) a
def e12IsZero (a : E12 T.p) : Bool := e6IsZero T a.c0 ∧ e6IsZero T a.c1
def e12Inv (a : E12 T.p) : Option (E12 T.p) :=
  match e6Inv T (quadNorm (nr6 T) a) with
  | none => none
  | some t => some (quadInvWith t a)

def e2One : E2 T.p := ⟨⟨1 % T.p⟩, ⟨0⟩⟩
def e6One : E6 T.p := ⟨e2One T, ⟨⟨0⟩, ⟨0⟩⟩, ⟨⟨0⟩, ⟨0⟩⟩⟩
def e12One : E12 T.p := ⟨e6One T, ⟨⟨⟨0⟩, ⟨0⟩⟩, ⟨⟨0⟩, ⟨0⟩⟩, ⟨⟨0⟩, ⟨0⟩⟩⟩⟩

/-- Square-and-multiply with an explicit fuel (bits of the exponent). -/
def powFuel {α : Type} (mul : α → α → α) : Nat → α → Nat → α → α
  | 0, _, _, acc => acc
  | f + 1, b, e, acc =>
    if e = 0 then acc else powFuel mul f (mul b b) (e / 2) (if e % 2 = 1 then mul acc b else acc)

def e2Pow (a : E2 T.p) (e : Nat) : E2 T.p := powFuel (e2Mul T) (e.log2 + 1) a e (e2One T)
def e6Pow (a : E6 T.p) (e : Nat) : E6 T.p := powFuel (e6Mul T) (e.log2 + 1) a e (e6One T)
def e12Pow (a : E12 T.p) (e : Nat) : E12 T.p := powFuel (e12Mul T) (e.log2 + 1) a e (e12One T)

/-! ### Line protocol -/

def e2OfList : List Nat → Option (E2 T.p)
  | [a, b] => some ⟨⟨a % T.p⟩, ⟨b % T.p⟩⟩
  | _ => none
def e6OfList : List Nat → Option (E6 T.p)
  | [a, b, c, d, e, f] => some ⟨⟨⟨a % T.p⟩, ⟨b % T.p⟩⟩, ⟨⟨c % T.p⟩, ⟨d % T.p⟩⟩, ⟨⟨e % T.p⟩, ⟨f % T.p⟩⟩⟩
  | _ => none
def e12OfList (l : List Nat) : Option (E12 T.p) :=
  match e6OfList T (l.take 6), e6OfList T (l.drop 6) with
  | some a, some b => if l.length = 12 then some ⟨a, b⟩ else none
  | _, _ => none
def e2ToList (a : E2 T.p) : List Nat := [a.c0.v, a.c1.v]
def e6ToList (a : E6 T.p) : List Nat := e2ToList T a.c0 ++ e2ToList T a.c1 ++ e2ToList T a.c2
def e12ToList (a : E12 T.p) : List Nat := e6ToList T a.c0 ++ e6ToList T a.c1

def fmtE (l : List Nat) : String := fmtHexList l
def fmtOptE : Option (List Nat) → String
  | some l => fmtHexList l
  | none => "none"

def parseCoeffs (s : String) : Option (List Nat) := (s.splitOn ",").mapM parseNat?

def answerE2 (op : String) (args : List (List Nat)) (extra : List Nat) : String :=
  match op, args.mapM (e2OfList T), extra with
  | "add", some [a, b], [] => fmtE (e2ToList T (a + b))
  | "sub", some [a, b], [] => fmtE (e2ToList T (a - b))
  | "mul", some [a, b], [] => fmtE (e2ToList T (e2Mul T a b))
  | "neg", some [a], [] => fmtE (e2ToList T (-a))
  | "square", some [a], [] => fmtE (e2ToList T (e2Square T a))
  | "double", some [a], [] => fmtE (e2ToList T (a + a))
  | "inv", some [a], [] => fmtOptE ((e2Inv T a).map (e2ToList T))
  | "mul_nr", some [a], [] => fmtE (e2ToList T (nr2 T a))
  | "norm", some [a], [] => toHex (e2Norm T a).v
  | "is_zero", some [a], [] => fmtBool (e2IsZero T a)
  | "frobenius", some [a], [k] => fmtE (e2ToList T (e2Pow T a (T.p ^ k)))
  | "is_square", some [a], [] =>
    fmtBool (e2IsZero T a || legendre T.p (e2Norm T a).v = 1)
  | "legendre", some [a], [] => toString (legendre T.p (e2Norm T a).v)
  | "pow", some [a], [e] => fmtE (e2ToList T (e2Pow T a e))
  | _, _, _ => "bad-op"

def answerE6 (op : String) (args : List (List Nat)) (extra : List Nat) : String :=
  match op, args.mapM (e6OfList T), extra with
  | "add", some [a, b], [] => fmtE (e6ToList T (a + b))
  | "sub", some [a, b], [] => fmtE (e6ToList T (a - b))
  | "mul", some [a, b], [] => fmtE (e6ToList T (e6Mul T a b))
  | "neg", some [a], [] => fmtE (e6ToList T (-a))
  | "square", some [a], [] => fmtE (e6ToList T (e6Square T a))
  | "double", some [a], [] => fmtE (e6ToList T (a + a))
  | "inv", some [a], [] => fmtOptE ((e6Inv T a).map (e6ToList T))
  | "mul_nr", some [a], [] => fmtE (e6ToList T (nr6 T a))
  | "is_zero", some [a], [] => fmtBool (e6IsZero T a)
  | "frobenius", some [a], [k] => fmtE (e6ToList T (e6Pow T a (T.p ^ k)))
  | "mul_by_1", some [a], [c10, c11] =>
    fmtE (e6ToList T (mulBy1 (nr2 T) a ⟨⟨c10 % T.p⟩, ⟨c11 % T.p⟩⟩))
  | "mul_by_01", some [a], [c00, c01, c10, c11] =>
    fmtE (e6ToList T (mulBy01 (nr2 T) a ⟨⟨c00 % T.p⟩, ⟨c01 % T.p⟩⟩ ⟨⟨c10 % T.p⟩, ⟨c11 % T.p⟩⟩))
  | _, _, _ => "bad-op"

def answerE12 (op : String) (args : List (List Nat)) (extra : List Nat) : String :=
  match op, args.mapM (e12OfList T), extra with
  | "add", some [a, b], [] => fmtE (e12ToList T (a + b))
  | "sub", some [a, b], [] => fmtE (e12ToList T (a - b))
  | "mul", some [a, b], [] => fmtE (e12ToList T (e12Mul T a b))
  | "neg", some [a], [] => fmtE (e12ToList T (-a))
  | "square", some [a], [] => fmtE (e12ToList T (e12Square T a))
  | "double", some [a], [] => fmtE (e12ToList T (a + a))
  | "inv", some [a], [] => fmtOptE ((e12Inv T a).map (e12ToList T))
  | "is_zero", some [a], [] => fmtBool (e12IsZero T a)
  | "conjugate", some [a], [] => fmtE (e12ToList T ⟨a.c0, -a.c1⟩)
  | "frobenius", some [a], [k] => fmtE (e12ToList T (e12Pow T a (T.p ^ k)))
  | "mul_by_014", some [a], [x0, x1, y0, y1, z0, z1] =>
    fmtE (e12ToList T (mulBy014 (nr2 T) a ⟨⟨x0 % T.p⟩, ⟨x1 % T.p⟩⟩ ⟨⟨y0 % T.p⟩, ⟨y1 % T.p⟩⟩ ⟨⟨z0 % T.p⟩, ⟨z1 % T.p⟩⟩))
  | "mul_by_034", some [a], [x0, x1, y0, y1, z0, z1] =>
    fmtE (e12ToList T (mulBy034 (nr2 T) a ⟨⟨x0 % T.p⟩, ⟨x1 % T.p⟩⟩ ⟨⟨y0 % T.p⟩, ⟨y1 % T.p⟩⟩ ⟨⟨z0 % T.p⟩, ⟨z1 % T.p⟩⟩))
  | _, _, _ => "bad-op"

/-- `tw <Tower><deg> <op> <coeff-vectors…> [| scalars]`, e.g. `tw Bls2 mul a0,a1 b0,b1`,
`tw Bn25612 frobenius c0,…,c11 | 3`. -/
def answerTower (tname op : String) (args : List String) : String :=
  let (vecs, extra) := match args.span (· ≠ "|") with
    | (v, _ :: e) => (v, e)
    | (v, []) => (v, [])
  match vecs.mapM parseCoeffs, extra.mapM parseNat? with
  | some vs, some ex =>
    let go (T : TowerInfo) (deg : String) : String :=
      match deg with
      | "2" => answerE2 T op vs ex
      | "6" => answerE6 T op vs ex
      | "12" => answerE12 T op vs ex
      | _ => "bad-op"
    if tname.startsWith "Bls" then
      match towers.find? (·.name = "Bls") with
      | some T => go T (tname.drop 3).toString
      | none => "bad-op"
    else if tname.startsWith "Bn256" then
      match towers.find? (·.name = "Bn256") with
      | some T => go T (tname.drop 5).toString
      | none => "bad-op"
    else "bad-op"
  | _, _ => "bad-op"

end MidnightZK.C10
