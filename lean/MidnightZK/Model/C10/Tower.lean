import MidnightZK.Model.Common
import MidnightZK.Model.ModArith
import MidnightZK.Model.C10.Field
/-! Extension-field towers (stub, filled in below). -/
namespace MidnightZK.C10
def answerTower (_t _op : String) (_args : List String) : String := "bad-op"
end MidnightZK.C10
