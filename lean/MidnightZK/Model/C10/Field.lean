import MidnightZK.Model.Common
import MidnightZK.Model.ModArith
import MidnightZK.Model.C10.Limbs
import MidnightZK.Gen.C10Constants
/-!
Specification side of C10: every exported prime field as integer arithmetic modulo its modulus,
its canonical / Montgomery codecs, square roots, Legendre symbol, wide reduction. Import-free
(core + the generated constants).
-/
namespace MidnightZK.C10

/-- Description of one exported prime field. `p` comes from the generated constants for the
fields whose modulus is written in the repository; for the two third-party backed curves
(secp256k1 via `k256`, Curve25519 scalar via `curve25519-dalek`) it is the standard constant. -/
structure FieldInfo where
  name : String
  p : Nat
  /-- number of 64-bit limbs of the Montgomery representation (`R = 2^(64·limbs)`) -/
  limbs : Nat
  /-- bytes of `PrimeField::Repr` -/
  nbytes : Nat
  /-- `Repr` is big-endian (k256) -/
  reprBE : Bool
  /-- `PrimeField::S` as published -/
  s : Nat
  deriving Repr

def secp256k1P : Nat := 2 ^ 256 - 2 ^ 32 - 977
def secp256k1N : Nat := 0xfffffffffffffffffffffffffffffffebaaedce6af48a03bbfd25e8cd0364141
def ed25519L : Nat := 2 ^ 252 + 27742317777372353535851937790883648493

def fields : List FieldInfo :=
  [ ⟨"BlsFq", limbsVal Gen.BlsFq.MODULUS, 4, 32, false, Gen.BlsFq.S⟩,
    ⟨"BlsFp", limbsVal Gen.BlsFp.MODULUS, 6, 48, false, Gen.BlsFp.S⟩,
    ⟨"JubjubFr", limbsVal Gen.JubjubFr.MODULUS, 4, 32, false, Gen.JubjubFr.S⟩,
    ⟨"C25519Fp", limbsVal Gen.C25519Fp.MODULUS, 4, 32, false, Gen.C25519Fp.S⟩,
    ⟨"Bn256Fq", Gen.Bn256Fq.MODULUS, 4, 32, false, 1⟩,
    ⟨"Bn256Fr", Gen.Bn256Fr.MODULUS, 4, 32, false, 28⟩,
    ⟨"K256Fp", secp256k1P, 4, 32, true, 1⟩,
    ⟨"K256Fq", secp256k1N, 4, 32, true, 6⟩,
    ⟨"C25519Scalar", ed25519L, 4, 32, false, 2⟩ ]

def fieldOf (name : String) : Option FieldInfo := fields.find? (·.name = name)

/-- `R = 2^(64·limbs) mod p`. -/
def FieldInfo.R (f : FieldInfo) : Nat := 2 ^ (64 * f.limbs) % f.p

/-- Inverse in the field, `none` for zero (`Field::invert`). -/
def finv (p a : Nat) : Option Nat := if a % p = 0 then none else some (invMod a p)

/-- Legendre symbol by Euler's criterion: `0`, `1` or `-1`. -/
def legendre (p a : Nat) : Int :=
  if a % p = 0 then 0 else if powMod a ((p - 1) / 2) p = 1 then 1 else -1

/-- `(q, s)` with `n = q · 2^s`, `q` odd (fuel = bit length). -/
def twoAdicFuel : Nat → Nat → Nat → Nat × Nat
  | 0, q, s => (q, s)
  | f + 1, q, s => if q ≠ 0 ∧ q % 2 = 0 then twoAdicFuel f (q / 2) (s + 1) else (q, s)

def twoAdic (n : Nat) : Nat × Nat := twoAdicFuel (n.log2 + 1) n 0

/-- Smallest quadratic non-residue ≥ 2 (bounded search). -/
def nonResidueFuel (p : Nat) : Nat → Nat → Nat
  | 0, z => z
  | f + 1, z => if legendre p z = -1 then z else nonResidueFuel p f (z + 1)

/-- least `i` with `t^(2^i) = 1`, searching `i < m`. -/
def orderExpFuel (p : Nat) : Nat → Nat → Nat → Nat
  | 0, _, i => i
  | f + 1, t, i => if t = 1 then i else orderExpFuel p f (t * t % p) (i + 1)

def tsLoop (p : Nat) : Nat → Nat → Nat → Nat → Nat → Nat
  | 0, _, _, _, r => r
  | f + 1, m, c, t, r =>
    if t = 1 then r else
    let i := orderExpFuel p m t 0
    let b := powMod c (2 ^ (m - i - 1)) p
    tsLoop p f i (b * b % p) (t * (b * b % p) % p) (r * b % p)

/-- Textbook Tonelli–Shanks: some square root of `a` modulo the prime `p`, or `none`. -/
def sqrtMod (p a : Nat) : Option Nat :=
  let a := a % p
  if a = 0 then some 0 else
  if legendre p a ≠ 1 then none else
  let (q, s) := twoAdic (p - 1)
  let z := nonResidueFuel p 1000 2
  let c := powMod z q p
  let t := powMod a q p
  let r := powMod a ((q + 1) / 2) p
  some (tsLoop p (s + 1) s c t r)

/-- The smaller of the two roots (canonical answer when the implementation's choice of root is
not part of the model). -/
def sqrtMin (p a : Nat) : Option Nat := (sqrtMod p a).map (fun r => min r ((p - r) % p))

/-- `ff::BatchInvert`: every non-zero entry is inverted, zeros stay; returns also the product of
the inverses of the non-zero entries. -/
def batchInvert (p : Nat) (l : List Nat) : List Nat × Nat :=
  let out := l.map (fun a => if a % p = 0 then 0 else invMod a p)
  let nz := l.filter (fun a => a % p ≠ 0)
  (out, invMod (nz.foldl (fun acc a => acc * a % p) (1 % p)) p)

/-- Number of significant bits. -/
def numBits (n : Nat) : Nat := if n = 0 then 0 else n.log2 + 1

/-- `lexicographically_largest`: strictly larger than its negation. -/
def lexLargest (p a : Nat) : Bool := a % p > (p - 1) / 2

/-- Checked canonical decoder: the integer read from the bytes must be `< p`. -/
def decodeCanonical (p n : Nat) : Option Nat := if n < p then some n else none

/-- Checked raw (Montgomery) decoder after the D3 fix: limbs as an integer must be `< p`; the
element denoted is `limbs · R⁻¹`. -/
def decodeRaw (f : FieldInfo) (n : Nat) : Option Nat :=
  if n < f.p then some (n * invMod f.R f.p % f.p) else none

/-- Montgomery limbs (as an integer) of the element `a`. -/
def encodeRaw (f : FieldInfo) (a : Nat) : Nat := a % f.p * f.R % f.p

/-- Interpret Montgomery limbs (possibly unreduced) as the element `limbs · R⁻¹ mod p`. -/
def ofMont (f : FieldInfo) (n : Nat) : Nat := n % f.p * invMod f.R f.p % f.p

end MidnightZK.C10
