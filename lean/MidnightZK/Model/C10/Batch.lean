import MidnightZK.Model.Common
import MidnightZK.Model.ModArith
/-!
Batched and in-place entry points of the exported field types (C10): `Sum` / `Sum<&T>` /
`Product` / `Product<&T>` (every wrapper implements them as `iter.fold(ZERO|ONE, |acc, x| acc op x)`),
`ff::BatchInvert` / `ff::BatchInverter` (Montgomery's trick), and chains of in-place operations.
Lists are given by compact descriptors that the harness (`harness/c10/src/batch.rs`) expands
with `BigUint` and this file expands with `Nat`. Import-free.
-/
namespace MidnightZK.C10

/-- A list of field elements, compactly: `n` copies of `v`; `a, b, a, b, …` (`n` terms); the
linear congruential sequence `x₀, a·x₀ + c, …` (`n` terms, modulo the field's modulus). -/
inductive ListDesc where
  | rep (v n : Nat)
  | alt (a b n : Nat)
  | lcg (x0 a c n : Nat)
  deriving Repr

def altList (a b : Nat) : Nat → List Nat
  | 0 => []
  | n + 1 => a :: altList b a n

def lcgList (p a c : Nat) : Nat → Nat → List Nat
  | 0, _ => []
  | n + 1, x => x :: lcgList p a c n ((a * x + c) % p)

def ListDesc.expand (p : Nat) : ListDesc → List Nat
  | .rep v n => List.replicate n v
  | .alt a b n => altList a b n
  | .lcg x0 a c n => lcgList p a c n x0

def ListDesc.parse? (s : String) : Option ListDesc :=
  match s.splitOn ":" with
  | ["rep", v, n] => do some (.rep (← parseNat? v) (← n.toNat?))
  | ["alt", a, b, n] => do some (.alt (← parseNat? a) (← parseNat? b) (← n.toNat?))
  | ["lcg", x, a, c, n] => do some (.lcg (← parseNat? x) (← parseNat? a) (← parseNat? c) (← n.toNat?))
  | _ => none

/-- `impl Sum for T` / `impl Sum<&T> for T` of every wrapper (`k256/base_field.rs`,
`curve25519/fp.rs`, `impl_sum!`, derive macros): `iter.fold(ZERO, |acc, x| acc + x)` with the
wrapper's own (normalising) `+`. -/
def sumFold (p : Nat) (l : List Nat) : Nat := l.foldl (fun acc a => addMod acc a p) 0

/-- `impl Product for T` / `impl Product<&T> for T`: `iter.fold(ONE, |acc, x| acc * x)`. -/
def productFold (p : Nat) (l : List Nat) : Nat := l.foldl (fun acc a => mulMod acc a p) (1 % p)

/-- `ff-0.13: BatchInvert::batch_invert`, `BatchInverter::invert_with_external_scratch`
(Montgomery's trick), generic in the carrier. The forward loop (running product `acc` that skips
zeros, saved in the scratch space before each element) is the descent of the recursion, the
`.rev()` loop is its unwinding. Returns `(outputs, running inverse, allinv)`. -/
def batchInvGen {α : Type} (mul : α → α → α) (inv : α → α) (isZero : α → Bool) : α → List α → List α × α × α
  | acc, [] => let ai := inv acc; ([], ai, ai)
  | acc, x :: t =>
    -- *scratch = acc; acc = select(acc * p, acc, p.is_zero())
    let acc' := if isZero x then acc else mul acc x
    let r := batchInvGen mul inv isZero acc' t
    -- tmp = *scratch * acc; acc = select(acc * p, acc, skip); *p = select(tmp, p, skip)
    let tmp := mul acc r.2.1
    let back := if isZero x then r.2.1 else mul r.2.1 x
    ((if isZero x then x else tmp) :: r.1, back, r.2.2)

/-- The trick over integers modulo `p`: `(outputs, allinv)`. -/
def batchInvertTrick (p : Nat) (l : List Nat) : List Nat × Nat :=
  let r := batchInvGen (fun a b => mulMod a b p) (fun a => invMod a p) (fun a => a % p = 0) (1 % p)
    (l.map (· % p))
  (r.1, r.2.2)

/-- Positional digest of a list: `Σ (i+1)·xᵢ mod p` (how the harness reports 10 000 outputs). -/
def digestFrom (p : Nat) : Nat → List Nat → Nat → Nat
  | _, [], acc => acc
  | i, x :: t, acc => digestFrom p (i + 1) t ((acc + (i + 1) * x) % p)

def digest (p : Nat) (l : List Nat) : Nat := digestFrom p 0 l 0

/-- One step of an in-place chain (`harness/c10/src/batch.rs: chain_impl`): the operator the
letter names, applied to `x` with the fixed right operand `y`. -/
def chainStep (p y : Nat) (c : Char) (x : Nat) : Option Nat :=
  if c = 'a' ∨ c = 'A' then some (addMod x y p)
  else if c = 's' ∨ c = 'S' then some (subMod x y p)
  else if c = 'm' ∨ c = 'M' then some (mulMod x y p)
  else if c = 'd' then some (addMod x x p)
  else if c = 'q' then some (mulMod x x p)
  else if c = 'n' then some (negMod x p)
  else if c = 'i' then some (if x % p = 0 then x else invMod x p)
  else none

/-- `steps` operations of the program, cyclically, starting at program position `k`. -/
def runChainProg (p y : Nat) (prog : List Char) : Nat → Nat → Nat → Option Nat
  | 0, _, x => some x
  | s + 1, k, x =>
    match prog[k % prog.length]? with
    | none => none
    | some c =>
      match chainStep p y c x with
      | none => none
      | some x' => runChainProg p y prog s (k + 1) x'

/-! ## The magnitude discipline of `k256::FieldElement` (debug layer `field_impl.rs`) and of the
wrapper `k256/base_field.rs`

`k256` keeps a `magnitude` (bound on the limbs in units of the modulus) and a `normalized` flag
next to the value; `add` adds magnitudes, `negate(m)` needs `magnitude ≤ m` and yields `m + 1`,
`mul`/`square` need `magnitude ≤ 8` and yield a weakly normalised element (magnitude 1),
`normalize` yields a normalised one, every magnitude must stay `≤ 2047`, and `is_zero`/`is_odd`
need a normalised operand. A violated requirement is a panic in debug builds and a silently wrong
value in release builds. -/

structure KMag where
  mag : Nat
  normalized : Bool
  deriving Repr, DecidableEq

def kMaxMagnitude : Nat := 2047

/-- Operations on the lazy inner type; `none` = a `debug_assert!` of `field_impl.rs` fails. -/
def KMag.add (a b : KMag) : Option KMag :=
  if a.mag + b.mag ≤ kMaxMagnitude then some ⟨a.mag + b.mag, false⟩ else none
def KMag.negate (a : KMag) (m : Nat) : Option KMag :=
  if a.mag ≤ m ∧ m + 1 ≤ kMaxMagnitude then some ⟨m + 1, false⟩ else none
def KMag.mul (a b : KMag) : Option KMag :=
  if a.mag ≤ 8 ∧ b.mag ≤ 8 then some ⟨1, false⟩ else none
def KMag.normalize (_ : KMag) : KMag := ⟨1, true⟩
def KMag.pred (a : KMag) : Option Unit := if a.normalized then some () else none

/-- Expression shapes of the method bodies of `k256/base_field.rs` (what the translator
`c10_k256_wrapper.py` recognises). `a` = `self.0`, `b` = `rhs.0` / `other.0`. -/
inductive KBody where
  /-- `Self((self.0 ⊕ rhs.0).normalize())`, `⊕ ∈ {+, -, *}` -/
  | normBin (op : String)
  /-- `Self((-self.0).normalize())`, `Self(self.0.square().normalize())`, `….double()…` -/
  | normUn (op : String)
  /-- the same with `.normalize_weak()` (magnitude 1, not canonical) -/
  | normBinWeak (op : String)
  | normUnWeak (op : String)
  /-- `self.0.normalize().is_zero()` etc.: predicate on the normalised value -/
  | normPred (op : String)
  /-- `self.0.normalize().ct_eq(&other.0.normalize())` -/
  | normEq
  /-- `iter.fold(Self::ZERO|ONE, |acc, x| acc ⊕ x)` with the wrapper's operator -/
  | foldOp (op : String)
  /-- `self.0.invert().map(Self)`, `sqrt`, `sqrt_ratio`: k256 returns magnitude 1, not normalised -/
  | rawUn (op : String)
  /-- `self.0.to_repr()` / `to_bytes()`: k256 normalises internally -/
  | rawEnc
  /-- decoders / constants / conversions that do no arithmetic -/
  | passThrough
  /-- delegates to another method of the wrapper -/
  | delegate (to : String)
  /-- `Self(k256::FieldElement::conditional_select(&a.0, &b.0, choice))` -/
  | select
  /-- `Self(fe)` for a caller-supplied `k256::FieldElement` (any magnitude) stored as is: the body
  of `From<k256::FieldElement>` before the repair (finding `k256.Fp:from-unnormalized`) -/
  | foreign
  /-- `Self(fe.normalize())`: the repaired body — any magnitude in, normalised out -/
  | foreignNorm
  /-- anything else: not understood, fails `k256_wrapper_bodies_normalise` -/
  | unknown (text : String)
  deriving Repr, DecidableEq

/-- Result of running a body on operands whose magnitudes are `a`, `b`: the magnitude state of
the stored result (`none` = an assertion of k256 can fail). -/
def KMag.weaken (a : KMag) : KMag := ⟨a.mag, false⟩

/-- `(self.0 ⊕ rhs.0).normalize()` on the magnitude state. -/
def kRunBin (op : String) (a b : KMag) : Option KMag :=
  if op = "+" then (a.add b).map KMag.normalize
  else if op = "-" then ((b.negate 1).bind a.add).map KMag.normalize
  else if op = "*" then (a.mul b).map KMag.normalize
  else none

/-- `(-self.0).normalize()`, `self.0.square().normalize()`, `self.0.double().normalize()`,
`self.0.normalize()`. -/
def kRunUn (op : String) (a : KMag) : Option KMag :=
  if op = "neg" then (a.negate 1).map KMag.normalize
  else if op = "square" then (a.mul a).map KMag.normalize
  else if op = "double" then (a.add a).map KMag.normalize
  else if op = "id" then some a.normalize
  else none

def KBody.run (a b : KMag) : KBody → Option KMag
  | .normBinWeak op => (kRunBin op a b).map KMag.weaken
  | .normUnWeak op => (kRunUn op a).map KMag.weaken
  | .normBin op => kRunBin op a b
  | .normUn op => kRunUn op a
  | .normPred _ => (a.normalize.pred).map (fun _ => a)
  | .normEq => (a.normalize.pred).bind (fun _ => (b.normalize.pred).map (fun _ => a))
  | .foldOp _ => some ⟨1, true⟩   -- see `kFold`: each step is a `normBin`
  | .rawUn _ => if a.mag ≤ 8 then some ⟨1, false⟩ else none
  | .rawEnc => some a
  | .passThrough => some ⟨1, true⟩
  | .delegate _ => some a
  | .select => some ⟨max a.mag b.mag, a.normalized && b.normalized⟩
  | .foreign => some a
  | .foreignNorm => some a.normalize
  | .unknown _ => none

/-- Reading a row of the generated table `Gen.K256Wrapper.bodies`. -/
def KBody.ofGen (row : String × String × String) : KBody :=
  let (_, kind, arg) := row
  if kind = "normBin" then .normBin arg
  else if kind = "normUn" then .normUn arg
  else if kind = "normBinWeak" then .normBinWeak arg
  else if kind = "normUnWeak" then .normUnWeak arg
  else if kind = "normPred" then .normPred arg
  else if kind = "normEq" then .normEq
  else if kind = "foldOp" then .foldOp arg
  else if kind = "rawUn" then .rawUn arg
  else if kind = "rawEnc" then .rawEnc
  else if kind = "passThrough" then .passThrough
  else if kind = "delegate" then .delegate arg
  else if kind = "select" then .select
  else if kind = "foreign" then .foreign
  else if kind = "foreignNorm" then .foreignNorm
  else .unknown arg

/-- A body is *safe* if on weakly normalised operands (magnitude ≤ 1 — everything the wrapper
itself stores) no k256 assertion can fail and the stored result has magnitude ≤ 1 again. -/
def KBody.safe (b : KBody) : Bool :=
  -- a caller-supplied lazy element has no magnitude bound at all
  b != .foreign &&
  [KMag.mk 1 true, KMag.mk 1 false, KMag.mk 0 true].all fun x =>
    [KMag.mk 1 true, KMag.mk 1 false, KMag.mk 0 true].all fun y =>
      match b.run x y with
      | some r => r.mag ≤ 1
      | none => false

/-- The wrapper's `Sum`: fold with the normalising `+` — magnitude state after `n` terms. -/
def kFoldNormalising : Nat → KMag → Option KMag
  | 0, acc => some acc
  | n + 1, acc => ((KBody.normBin "+").run acc ⟨1, false⟩).bind (kFoldNormalising n)

/-- The lazy alternative (`k256::FieldElement::sum`, normalise once at the end; seeded defect
C10-2): magnitude state after `n` terms. -/
def kFoldLazy : Nat → KMag → Option KMag
  | 0, acc => some acc.normalize
  | n + 1, acc => (acc.add ⟨1, false⟩).bind (kFoldLazy n)

end MidnightZK.C10
