import MidnightZK.Model.Common
import MidnightZK.Model.C10.BY
/-!
Executable mirror of `curves/src/ff_ext/jacobi.rs` (Jacobi symbol by the modified Pornin method,
used by `legendre` of `curve25519::Fp` (`L = 5`), `bls12_381::Fq` (`L = 5`) and `bls12_381::Fp`
(`L = 7`)). `u64` values are `Nat`s, `i64` values exact `Int`s; an `LInt<L>` (two's complement,
`L` chunks of 64 bits) is carried as its signed integer value together with `L`, its chunks being
recomputed where the code looks at them (`approximate`, `t ^= d.0[0]`). Import-free.
-/
namespace MidnightZK.C10.Jac
open MidnightZK.C10.BY (chunksOf tzNat U64)

/-- The signed value of the `64·l`-bit two's-complement pattern of `v` (what `LInt<L>` arithmetic,
which wraps, leaves of an exact integer `v`). -/
def wrapL (l : Nat) (v : Int) : Int :=
  let m : Int := 2 ^ (64 * l)
  let r := v % m
  if r < m / 2 then r else r - m

/-- The chunks of an `LInt<L>` holding `v`. -/
def limbsL (l : Nat) (v : Int) : List Nat := chunksOf 64 l (v % 2 ^ (64 * l)).toNat

/-- `u64::leading_zeros`. -/
def lz64 (x : Nat) : Nat := if x = 0 then 64 else 63 - x.log2

/-- `jacobi.rs: fn approximate` on the chunk lists of `x` and `y` (both non-negative, not both
zero): the index `i` of the highest chunk where one of them is non-zero; for `i = 0` the exact
low chunks; otherwise the high 32 bits of the pair `(x[i], y[i])` shifted left by the common
number `z` of leading zeros, or-ed with the low 32 bits of the lowest chunks. The Rust code or-s
`x[i-1] >> z` into the shifted high chunk when `z > 32`; those bits lie below bit `64 - z < 32`
and are removed by the mask `u64::MAX << 32`, so they never reach the result — mirrored as is. -/
def approximate (x y : List Nat) : Nat × Nat × Bool :=
  let l := x.length
  -- highest index with a non-zero chunk (0 when none above 0)
  let i := ((List.range l).reverse.find? (fun j => x.getD j 0 ≠ 0 ∨ y.getD j 0 ≠ 0)).getD 0
  if i = 0 then (x.getD 0 0, y.getD 0 0, true) else
  let h0 := x.getD i 0
  let h1 := y.getD i 0
  let z := min (lz64 h0) (lz64 h1)
  let h0 := h0 * 2 ^ z % U64
  let h1 := h1 * 2 ^ z % U64
  let h0 := if z > 32 then h0 ||| (x.getD (i - 1) 0 >>> z) else h0
  let h1 := if z > 32 then h1 ||| (y.getD (i - 1) 0 >>> z) else h1
  let hm := U64 - 2 ^ 32
  let h0 := h0 &&& hm
  let h1 := h1 &&& hm
  (h0 ||| (x.getD 0 0 % 2 ^ 32), h1 ||| (y.getD 0 0 % 2 ^ 32), false)

/-- The sign word `d ^ (d >> 1)`: its second-lowest bit says whether `(2 / |d|) = -1`. -/
def twoWord (d : Nat) : Nat := d ^^^ (d >>> 1)

/-- The loop of `jacobi.rs: fn jacobinary`, with fuel. -/
def jacobinaryLoop : Nat → Nat → Nat → Nat → Option (Nat × Nat × Nat)
  | 0, _, _, _ => none
  | fuel + 1, n, d, t =>
    if n = 0 then some (n, d, t) else
    if n % 2 = 1 then
      let sw := decide (n < d)
      let n' := if sw then d else n
      let d' := if sw then n else d
      let t := if sw then t ^^^ (n' &&& d') else t
      jacobinaryLoop fuel ((n' - d') / 2) d' (t ^^^ twoWord d')
    else
      let z := tzNat 64 n
      jacobinaryLoop fuel (n / 2 ^ z) d (t ^^^ (twoWord d &&& (z * 2)))

/-- The value returned from the sign accumulator: `(d == 1) · (1 - (t & 2))`. -/
def signOut (d t : Nat) : Int := if d = 1 then 1 - ((t &&& 2 : Nat) : Int) else 0

/-- `jacobi.rs: fn jacobinary`. -/
def jacobinary (n d t : Nat) : Option Int :=
  (jacobinaryLoop 400 n d t).map (fun (_, d, t) => signOut d t)

/-- The state of the inner loop of `jacobi`: `i`, the approximations, `u`, `v`, `t`. -/
structure Inner where
  a : Nat
  b : Nat
  u0 : Int
  u1 : Int
  v0 : Int
  v1 : Int
  t : Nat
  deriving DecidableEq, Repr

/-- The inner loop of `jacobi.rs: fn jacobi` (`while i > 0`), with fuel. -/
def innerLoop : Nat → Nat → Inner → Inner
  | 0, _, s => s
  | fuel + 1, i, s =>
    if i = 0 then s else
    if s.a % 2 = 1 then
      let s : Inner := if s.a < s.b then ⟨s.b, s.a, s.v0, s.v1, s.u0, s.u1, s.t ^^^ (s.b &&& s.a)⟩ else s
      innerLoop fuel (i - 1)
        ⟨(s.a - s.b) / 2, s.b, s.u0 - s.v0, s.u1 - s.v1, s.v0 * 2, s.v1 * 2, s.t ^^^ twoWord s.b⟩
    else
      let z := min i (tzNat 64 s.a)
      innerLoop fuel (i - z)
        ⟨s.a / 2 ^ z, s.b, s.u0, s.u1, s.v0 * 2 ^ z, s.v1 * 2 ^ z, s.t ^^^ (twoWord s.b &&& (z * 2))⟩

/-- One logged outer iteration: `n`, `d` at its top and the inner-loop result. -/
structure OStep where
  n : List Nat
  d : List Nat
  s : Inner

/-- The outer loop of `jacobi.rs: fn jacobi`, with fuel, logging every iteration (`n`, `d` as
signed values of `LInt<l>`). -/
def outerLoop (l : Nat) : Nat → Int → Int → Nat → List OStep → Option (Int × List OStep)
  | 0, _, _, _, _ => none
  | fuel + 1, n, d, t, acc =>
    let nl := limbsL l n
    let dl := limbsL l d
    let (a, b, precise) := approximate nl dl
    if precise then
      (jacobinary a b t).map (fun r => (r, (⟨nl, dl, ⟨a, b, 1, 0, 0, 1, t⟩⟩ :: acc).reverse))
    else
      let s := innerLoop 64 30 ⟨a, b, 1, 0, 0, 1, t⟩
      let acc := ⟨nl, dl, s⟩ :: acc
      let n' := wrapL l (wrapL l (wrapL l (n * s.u0) + wrapL l (d * s.u1)) / 2 ^ 30)
      let d' := wrapL l (wrapL l (wrapL l (n * s.v0) + wrapL l (d * s.v1)) / 2 ^ 30)
      let t := s.t
      if n' = 0 then some (signOut (if d' = 1 then 1 else 0) t, acc.reverse) else
      if n' < 0 then outerLoop l fuel (wrapL l (-n')) d' (t ^^^ (d' % 2 ^ 64).toNat) acc
      else if d' < 0 then outerLoop l fuel n' (wrapL l (-d')) t acc
      else outerLoop l fuel n' d' t acc

/-- `jacobi.rs: fn jacobi::<L>` with its trace (`none` = out of fuel). -/
def jacobi (l : Nat) (n d : List Nat) : Option (Int × List OStep) :=
  let val (x : List Nat) : Int := wrapL l (x.foldr (fun a acc => a + 2 ^ 64 * acc) 0 : Nat)
  outerLoop l 200 (val n) (val d) 0 []

end MidnightZK.C10.Jac
