import MidnightZK.Model.ModArith
import MidnightZK.Model.C10.Limbs
import MidnightZK.Model.C10.Field
import MidnightZK.Gen.C10Constants
/-!
The defining equations of the constants an `ff::PrimeField` implementation publishes, as a
decidable predicate over canonical values; and the canonical values of the generated
(Montgomery-form) constants of each field. Import-free.
-/
namespace MidnightZK.C10

/-- Canonical values of the constants published through `ff::PrimeField`
(`MODULUS`, `MULTIPLICATIVE_GENERATOR`, `S`, `ROOT_OF_UNITY`, `ROOT_OF_UNITY_INV`, `DELTA`,
`TWO_INV`). -/
structure PFConsts where
  p : Nat
  g : Nat
  s : Nat
  rou : Nat
  rouInv : Nat
  delta : Nat
  twoInv : Nat
  deriving Repr

/-- `p - 1 = 2^S · t` with `t` odd. -/
def PFConsts.TwoAdicity (c : PFConsts) : Prop :=
  2 ^ c.s ∣ c.p - 1 ∧ ((c.p - 1) / 2 ^ c.s) % 2 = 1

/-- `ROOT_OF_UNITY = g^t` is a primitive `2^S`-th root of unity and `ROOT_OF_UNITY_INV` its inverse. -/
def PFConsts.RootOfUnity (c : PFConsts) : Prop :=
  c.rou = powMod c.g ((c.p - 1) / 2 ^ c.s) c.p ∧ powMod c.rou (2 ^ c.s) c.p = 1 ∧
  (c.s = 0 ∨ powMod c.rou (2 ^ (c.s - 1)) c.p ≠ 1) ∧ c.rou * c.rouInv % c.p = 1

/-- `DELTA = g^(2^S)`. -/
def PFConsts.Delta (c : PFConsts) : Prop := c.delta = powMod c.g (2 ^ c.s) c.p

/-- The generator is a quadratic non-residue (Euler), all values are reduced, `2·TWO_INV = 1`. -/
def PFConsts.Basic (c : PFConsts) : Prop :=
  2 < c.p ∧ c.p % 2 = 1 ∧ c.g < c.p ∧ c.rou < c.p ∧ c.rouInv < c.p ∧ c.delta < c.p ∧ c.twoInv < c.p ∧
  powMod c.g ((c.p - 1) / 2) c.p = c.p - 1 ∧ 2 * c.twoInv % c.p = 1

/-- All defining equations. -/
def PFConsts.Valid (c : PFConsts) : Prop := c.Basic ∧ c.TwoAdicity ∧ c.RootOfUnity ∧ c.Delta

instance (c : PFConsts) : Decidable c.TwoAdicity := by unfold PFConsts.TwoAdicity; infer_instance
instance (c : PFConsts) : Decidable c.RootOfUnity := by unfold PFConsts.RootOfUnity; infer_instance
instance (c : PFConsts) : Decidable c.Delta := by unfold PFConsts.Delta; infer_instance
instance (c : PFConsts) : Decidable c.Basic := by unfold PFConsts.Basic; infer_instance
instance (c : PFConsts) : Decidable c.Valid := by unfold PFConsts.Valid; infer_instance

/-- Canonical value of Montgomery limbs for modulus `p` and `n` limbs: `limbs · (2^(64n))⁻¹ mod p`. -/
def canonOf (p n : Nat) (l : List Nat) : Nat := limbsVal l % p * invMod (2 ^ (64 * n) % p) p % p

/-- Montgomery-form constants of one field: the Montgomery constants satisfy their definitions. -/
structure MontConsts where
  p : Nat
  nlimbs : Nat
  inv : Nat
  r : Nat
  r2 : Nat
  r3 : Nat

/-- `R = 2^(64n) mod p`, `R2 = R² mod p`, `R3 = R³ mod p`, `INV·p ≡ -1 (mod 2^64)`. -/
def MontConsts.Valid (c : MontConsts) : Prop :=
  c.r = 2 ^ (64 * c.nlimbs) % c.p ∧ c.r2 = 2 ^ (2 * 64 * c.nlimbs) % c.p ∧ c.r3 = 2 ^ (3 * 64 * c.nlimbs) % c.p ∧
  c.inv * c.p % 2 ^ 64 = 2 ^ 64 - 1 ∧ c.inv < 2 ^ 64

instance (c : MontConsts) : Decidable c.Valid := by unfold MontConsts.Valid; infer_instance

def blsFqP : Nat := limbsVal Gen.BlsFq.MODULUS
def blsFpP : Nat := limbsVal Gen.BlsFp.MODULUS
def jubjubFrP : Nat := limbsVal Gen.JubjubFr.MODULUS
def c25519FpP : Nat := limbsVal Gen.C25519Fp.MODULUS

def blsFqConsts : PFConsts :=
  let c := canonOf blsFqP 4
  ⟨blsFqP, c Gen.BlsFq.GENERATOR, Gen.BlsFq.S, c Gen.BlsFq.ROOT_OF_UNITY, c Gen.BlsFq.ROOT_OF_UNITY_INV,
    c Gen.BlsFq.DELTA, c Gen.BlsFq.TWO_INV⟩

def blsFpConsts : PFConsts :=
  let c := canonOf blsFpP 6
  ⟨blsFpP, c Gen.BlsFp.GENERATOR, Gen.BlsFp.S, c Gen.BlsFp.ROOT_OF_UNITY, c Gen.BlsFp.ROOT_OF_UNITY_INV,
    c Gen.BlsFp.DELTA, c Gen.BlsFp.TWO_INV⟩

def jubjubFrConsts : PFConsts :=
  let c := canonOf jubjubFrP 4
  ⟨jubjubFrP, c Gen.JubjubFr.GENERATOR, Gen.JubjubFr.S, c Gen.JubjubFr.ROOT_OF_UNITY,
    c Gen.JubjubFr.ROOT_OF_UNITY_INV, c Gen.JubjubFr.DELTA, c Gen.JubjubFr.TWO_INV⟩

def c25519FpConsts : PFConsts :=
  let c := canonOf c25519FpP 4
  ⟨c25519FpP, c Gen.C25519Fp.MULTIPLICATIVE_GENERATOR, Gen.C25519Fp.S, c Gen.C25519Fp.ROOT_OF_UNITY,
    c Gen.C25519Fp.ROOT_OF_UNITY_INV, c Gen.C25519Fp.DELTA, c Gen.C25519Fp.TWO_INV⟩

def blsFqMont : MontConsts :=
  ⟨blsFqP, 4, Gen.BlsFq.INV, limbsVal Gen.BlsFq.R, limbsVal Gen.BlsFq.R2, limbsVal Gen.BlsFq.R3⟩
def jubjubFrMont : MontConsts :=
  ⟨jubjubFrP, 4, Gen.JubjubFr.INV, limbsVal Gen.JubjubFr.R, limbsVal Gen.JubjubFr.R2, limbsVal Gen.JubjubFr.R3⟩
def c25519FpMont : MontConsts :=
  ⟨c25519FpP, 4, Gen.C25519Fp.INV, limbsVal Gen.C25519Fp.R, limbsVal Gen.C25519Fp.R2, limbsVal Gen.C25519Fp.R3⟩

/-- Parameters of `jubjub::Fr` as read from the source. -/
def jubjubParams : MontParams := ⟨(L4.ofList Gen.JubjubFr.MODULUS).getD L4.zero, Gen.JubjubFr.INV⟩
/-- Parameters of the `const fn` path of `bls12_381::Fq`. -/
def blsFqParams : MontParams := ⟨(L4.ofList Gen.BlsFq.MODULUS).getD L4.zero, Gen.BlsFq.INV⟩
/-- Parameters of `curve25519::Fp`. -/
def c25519Params : MontParams := ⟨(L4.ofList Gen.C25519Fp.MODULUS).getD L4.zero, Gen.C25519Fp.INV⟩
def jubjubR2 : L4 := (L4.ofList Gen.JubjubFr.R2).getD L4.zero
def jubjubR3 : L4 := (L4.ofList Gen.JubjubFr.R3).getD L4.zero
def blsFqR2 : L4 := (L4.ofList Gen.BlsFq.R2).getD L4.zero

/-- `ZETA` is a primitive cube root of unity. -/
def CubeRoot (p z : Nat) : Prop := z < p ∧ z ≠ 1 ∧ z * z % p * z % p = 1
instance (p z : Nat) : Decidable (CubeRoot p z) := by unfold CubeRoot; infer_instance

/-! ### `Fp2 = Fp[u]/(u² + 1)` on pairs, for the Frobenius coefficient tables -/

def fp2Mul (p : Nat) (a b : Nat × Nat) : Nat × Nat :=
  ((a.1 * b.1 + (p - a.2 * b.2 % p)) % p, (a.1 * b.2 + a.2 * b.1) % p)

def fp2PowFuel (p : Nat) : Nat → Nat × Nat → Nat → Nat × Nat → Nat × Nat
  | 0, _, _, acc => acc
  | fuel + 1, b, e, acc =>
    if e = 0 then acc
    else fp2PowFuel p fuel (fp2Mul p b b) (e / 2) (if e % 2 = 1 then fp2Mul p acc b else acc)

def fp2Pow (p : Nat) (b : Nat × Nat) (e : Nat) : Nat × Nat := fp2PowFuel p (e.log2 + 1) b e (1 % p, 0)

/-- Pairs `(c0, c1)` of a flattened table of `Fp2` elements given as Montgomery limb vectors. -/
def fp2Table (p n : Nat) : List (List Nat) → List (Nat × Nat)
  | a :: b :: t => (canonOf p n a, canonOf p n b) :: fp2Table p n t
  | _ => []

/-- `[ξ^((num·p^i - num)/den) | i < count]`. -/
def frobTable (p : Nat) (xi : Nat × Nat) (num den count : Nat) : List (Nat × Nat) :=
  (List.range count).map (fun i => fp2Pow p xi ((num * p ^ i - num) / den))

end MidnightZK.C10
