import MidnightZK.Model.Common
/-!
Executable mirror of `curves/src/ff_ext/inverse.rs` (Bernstein–Yang modular inversion, used by
`curve25519::Fp::invert` through `BYInverter<6>`), at two levels:

* the **chunk level** (`c…` functions): `CInt<62, L>` is a list of `L` 62-bit chunks in two's
  complement, little-endian; every operator of the Rust type (`Add`, `Sub`, `Neg`, `Mul<i64>`,
  `shift`, `lowest`, `is_negative`) is mirrored chunk by chunk with its carry chain;
* the **value level** (`…V` functions): the same control flow on mathematical integers
  (`fgV`, `deV`, `normV`, `invertV`), about which the theorems of `Proofs/C10/BY.lean` speak.

`jump` works on machine words only and is shared by both levels. Machine integers: an `i64`/`i128`
is an `Int` (casts that truncate are written `wrapI64`), a `u64` is a `Nat`. Import-free.
-/
namespace MidnightZK.C10.BY

/-- `CInt::<62, L>::MASK`. -/
def MASK : Nat := 2 ^ 62 - 1

def U64 : Nat := 2 ^ 64

/-- `x as i64` for an integer `x` (truncation to 64 bits, two's complement). -/
def wrapI64 (x : Int) : Int := (x + 2 ^ 63) % 2 ^ 64 - 2 ^ 63

/-- The `u64` bit pattern of a machine integer (`x as u64`). -/
def toU64 (x : Int) : Nat := (x % 2 ^ 64).toNat

/-! ## `CInt<62, L>` -/

/-- `inverse.rs: CInt::is_negative` — the top chunk exceeds `MASK >> 1`. -/
def cIsNeg (x : List Nat) : Bool := decide (x.getLastD 0 > MASK / 2)

/-- `inverse.rs: CInt::lowest`. -/
def cLowest (x : List Nat) : Nat := x.headD 0

/-- `inverse.rs: CInt::shift` — arithmetic right shift by one chunk (62 bits). -/
def cShift (x : List Nat) : List Nat := x.drop 1 ++ [if cIsNeg x then MASK else 0]

/-- The carry chain shared by `Add`, `Sub`, `Neg` of `CInt`: `sum = a + b + carry`,
`chunk = sum & MASK`, `carry = sum >> 62`; the last carry is dropped. -/
def cAddAux : List Nat → List Nat → Nat → List Nat
  | a :: as, b :: bs, c => let s := a + b + c; (s % 2 ^ 62) :: cAddAux as bs (s / 2 ^ 62)
  | _, _, _ => []

/-- `inverse.rs: impl Add for &CInt`. -/
def cAdd (a b : List Nat) : List Nat := cAddAux a b 0

/-- `inverse.rs: impl Sub for &CInt` — `x + !y + 1`. -/
def cSub (a b : List Nat) : List Nat := cAddAux a (b.map (· ^^^ MASK)) 1

/-- `inverse.rs: impl Neg for &CInt` — `!x + 1`. -/
def cNeg (a : List Nat) : List Nat := cAddAux (a.map (· ^^^ MASK)) (a.map (fun _ => 0)) 1

/-- The loop of `impl Mul<i64> for &CInt`: `sum = carry + (chunk ^ mask) * other` in `u128`,
`chunk' = sum as u64 & MASK`, `carry = (sum >> 62) as u64`. -/
def cMulAux (o mask : Nat) : List Nat → Nat → List Nat
  | a :: as, c => let s := c + (a ^^^ mask) * o; (s % 2 ^ 62) :: cMulAux o mask as (s / 2 ^ 62 % U64)
  | [], _ => []

/-- `inverse.rs: impl Mul<i64> for &CInt` — for a negative short factor the long one is
bitwise inverted and the carry starts at `-other`. -/
def cMulI64 (x : List Nat) (k : Int) : List Nat :=
  if k < 0 then cMulAux k.natAbs MASK x (k.natAbs % U64) else cMulAux k.natAbs 0 x 0

def cZero (x : List Nat) : Bool := x.all (· = 0)
def cIsOne (x : List Nat) : Bool := x.headD 0 = 1 ∧ (x.drop 1).all (· = 0)
def cIsMinusOne (x : List Nat) : Bool := x.all (· = MASK)

/-- Unsigned value of a chunk list in radix `2^62`. -/
def cUVal : List Nat → Nat
  | [] => 0
  | a :: as => a + 2 ^ 62 * cUVal as

/-- Two's-complement value of a `CInt<62, L>`. -/
def cVal (x : List Nat) : Int :=
  if cIsNeg x then (cUVal x : Int) - 2 ^ (62 * x.length) else cUVal x

/-- The `L` chunks (radix `2^b`) of `v mod 2^(b·L)`. -/
def chunksOf (b : Nat) : Nat → Nat → List Nat
  | 0, _ => []
  | l + 1, v => v % 2 ^ b :: chunksOf b l (v / 2 ^ b)

/-- The `CInt<62, L>` holding the integer `v` (two's complement, wrapping). -/
def cOfInt (l : Nat) (v : Int) : List Nat := chunksOf 62 l (v % 2 ^ (62 * l)).toNat

/-! ## The transition matrix and `jump` -/

/-- `inverse.rs: type Matrix = [[i64; 2]; 2]` — `a = t[0][0]`, `b = t[0][1]`, `c = t[1][0]`,
`d = t[1][1]` (entries as exact integers: the Rust code computes them with checked `i64`
arithmetic, `t[0] << zeros` apart, and they stay within `±2^62`). -/
structure Mat where
  a : Int
  b : Int
  c : Int
  d : Int
  deriving DecidableEq, Repr

/-- Trailing zeros of the bit pattern `n` with `fuel` bits (`fuel` for `n = 0`). -/
def tzNat : Nat → Nat → Nat
  | 0, _ => 0
  | fuel + 1, n => if n % 2 = 1 then 0 else 1 + tzNat fuel (n / 2)

/-- `i128::trailing_zeros`. -/
def tz128 (g : Int) : Nat := tzNat 128 (g % 2 ^ 128).toNat

/-- The loop of `inverse.rs: fn jump` (`steps`, `delta`, `f : i64`, `g : i128`, `t`), with fuel
(every pass with `f` odd consumes at least one step after the first, so 64 passes suffice; the
driver gives 200). `w` is computed on the `u64` bit patterns, as the wrapping operations do. -/
def jumpLoop : Nat → Nat → Int → Int → Int → Mat → Option (Int × Mat)
  | 0, _, _, _, _, _ => none
  | fuel + 1, steps, delta, f, g, t =>
    let zeros := min steps (tz128 g)
    let steps := steps - zeros
    let delta := delta + zeros
    let g := g / 2 ^ zeros
    let t : Mat := ⟨t.a * 2 ^ zeros, t.b * 2 ^ zeros, t.c, t.d⟩
    if steps = 0 then some (delta, t) else
    let sw := decide (delta > 0)
    let delta' := if sw then -delta else delta
    let f' := if sw then wrapI64 g else f
    let g' := if sw then -f else g
    let t' : Mat := if sw then ⟨t.c, t.d, -t.a, -t.b⟩ else t
    let k := min (min steps (1 - delta').toNat) 5
    let w : Nat := (toU64 g' * ((toU64 f' * 3 % U64) ^^^ 28) % U64) % 2 ^ k
    jumpLoop fuel steps delta' f' (g' + w * f') ⟨t'.a, t'.b, t'.a * w + t'.c, t'.b * w + t'.d⟩

/-- `inverse.rs: fn jump` on the lowest chunks of `f` and `g`. -/
def jump (flo glo : Nat) (delta : Int) : Option (Int × Mat) :=
  jumpLoop 200 62 delta flo glo ⟨1, 0, 0, 1⟩

/-! ## `fg`, `de`, `norm`, `convert`, `inv`, `invert` at the chunk level -/

/-- `inverse.rs: fn fg`. -/
def cFG (f g : List Nat) (t : Mat) : List Nat × List Nat :=
  (cShift (cAdd (cMulI64 f t.a) (cMulI64 g t.b)), cShift (cAdd (cMulI64 f t.c) (cMulI64 g t.d)))

/-- The correction factor of `inverse.rs: fn de`: from `md` (the sign part), the low chunks and
`inverse`, the multiple of the modulus that makes the low chunk of the combination vanish. -/
def deFactor (inverse ta tb md : Int) (dlo elo : Nat) : Int :=
  let cd := (ta * dlo + tb * elo) % 2 ^ 62
  md - (inverse * cd + md) % 2 ^ 62

/-- `inverse.rs: fn de`. -/
def cDE (modulus : List Nat) (inverse : Int) (d e : List Nat) (t : Mat) : List Nat × List Nat :=
  let dn : Int := if cIsNeg d then 1 else 0
  let en : Int := if cIsNeg e then 1 else 0
  let md := deFactor inverse t.a t.b (t.a * dn + t.b * en) (cLowest d) (cLowest e)
  let me := deFactor inverse t.c t.d (t.c * dn + t.d * en) (cLowest d) (cLowest e)
  let cd := cAdd (cAdd (cMulI64 d t.a) (cMulI64 e t.b)) (cMulI64 modulus md)
  let ce := cAdd (cAdd (cMulI64 d t.c) (cMulI64 e t.d)) (cMulI64 modulus me)
  (cShift cd, cShift ce)

/-- `inverse.rs: fn norm`. -/
def cNorm (modulus value : List Nat) (negate : Bool) : List Nat :=
  let value := if cIsNeg value then cAdd value modulus else value
  let value := if negate then cNeg value else value
  if cIsNeg value then cAdd value modulus else value

/-- `inverse.rs: fn convert::<I, O, S>` — the bits of the input chunk array (radix `2^I`)
regrouped into `S` chunks of `O` bits, truncated to `min(len·I, S·O)` bits. (Stated by value: the
Rust loop copies bit ranges and masks the filled chunks; compared on every call below.) -/
def convert (i o s : Nat) (input : List Nat) : List Nat :=
  let v := input.foldr (fun a acc => a % 2 ^ i + 2 ^ i * acc) 0
  chunksOf o s (v % 2 ^ (min (input.length * i) (s * o)))

/-- `inverse.rs: fn inv` — Hurchalla's inverse modulo `2^64`, masked to 62 bits. -/
def byInv (value : Nat) : Int :=
  let wm (a b : Nat) : Nat := a * b % U64
  let x := wm value 3 ^^^ 2
  let y := (1 + U64 - wm x value) % U64
  let (x, y) := (wm x ((y + 1) % U64), wm y y)
  let (x, y) := (wm x ((y + 1) % U64), wm y y)
  let (x, y) := (wm x ((y + 1) % U64), wm y y)
  ((wm x ((y + 1) % U64) % 2 ^ 62 : Nat) : Int)

/-- `BYInverter<L>`: modulus and adjuster as 62-bit chunks, `inverse`. -/
structure Inverter where
  modulus : List Nat
  adjuster : List Nat
  inverse : Int
  deriving Repr

/-- `inverse.rs: BYInverter::new`. -/
def Inverter.new (l : Nat) (modulus adjuster : List Nat) : Inverter :=
  ⟨convert 64 62 l modulus, convert 64 62 l adjuster, byInv (modulus.headD 0)⟩

/-- One logged loop state of `invert`: `delta`, the matrix, `f`, `g`, `d`, `e`. -/
structure Step where
  delta : Int
  t : Mat
  f : List Nat
  g : List Nat
  d : List Nat
  e : List Nat

/-- The main loop of `inverse.rs: fn invert` (`while g != 0`), with fuel, logging every pass. -/
def invertLoop (inv : Inverter) : Nat → Int → List Nat → List Nat → List Nat → List Nat → List Step →
    Option (List Nat × List Nat × List Step)
  | 0, _, _, _, _, _, _ => none
  | fuel + 1, delta, f, g, d, e, acc =>
    if cZero g then some (f, d, acc.reverse) else
    match jump (cLowest f) (cLowest g) delta with
    | none => none
    | some (delta, t) =>
      let (f, g) := cFG f g t
      let (d, e) := cDE inv.modulus inv.inverse d e t
      invertLoop inv fuel delta f g d e (⟨delta, t, f, g, d, e⟩ :: acc)

/-- `inverse.rs: fn invert::<S>` with its trace: `none` = out of fuel (never on the inputs of the
check), `some (none, _)` = not invertible, `some (some limbs, _)` = the `S` 64-bit limbs. -/
def invert (inv : Inverter) (l s : Nat) (value : List Nat) : Option (Option (List Nat) × List Step) :=
  match invertLoop inv 64 1 inv.modulus (convert 64 62 l value) (chunksOf 62 l 0) inv.adjuster [] with
  | none => none
  | some (f, d, tr) =>
    let antiunit := cIsMinusOne f
    if !cIsOne f && !antiunit then some (none, tr)
    else some (some (convert 62 64 s (cNorm inv.modulus d antiunit)), tr)

/-! ## The value level -/

/-- `fn fg` on integers: `matrix · (f, g)ᵀ / 2^62` (floor division = arithmetic shift). -/
def fgV (t : Mat) (f g : Int) : Int × Int := ((t.a * f + t.b * g) / 2 ^ 62, (t.c * f + t.d * g) / 2 ^ 62)

/-- `fn de` on integers. -/
def deV (m inverse : Int) (t : Mat) (d e : Int) : Int × Int :=
  let dn : Int := if d < 0 then 1 else 0
  let en : Int := if e < 0 then 1 else 0
  let md := deFactor inverse t.a t.b (t.a * dn + t.b * en) (d % 2 ^ 62).toNat (e % 2 ^ 62).toNat
  let me := deFactor inverse t.c t.d (t.c * dn + t.d * en) (d % 2 ^ 62).toNat (e % 2 ^ 62).toNat
  ((t.a * d + t.b * e + md * m) / 2 ^ 62, (t.c * d + t.d * e + me * m) / 2 ^ 62)

/-- `fn norm` on integers. -/
def normV (m value : Int) (negate : Bool) : Int :=
  let value := if value < 0 then value + m else value
  let value := if negate then -value else value
  if value < 0 then value + m else value

/-- One pass of the main loop on integers: `jump` on the low 62 bits, then `fg` and `de`. -/
def batchV (m inverse : Int) (delta f g d e : Int) : Option (Int × Mat × Int × Int × Int × Int) :=
  match jump (f % 2 ^ 62).toNat (g % 2 ^ 62).toNat delta with
  | none => none
  | some (delta, t) =>
    let (f', g') := fgV t f g
    let (d', e') := deV m inverse t d e
    some (delta, t, f', g', d', e')

/-- The main loop on integers, with its trace. -/
def invertVLoop (m inverse : Int) : Nat → Int → Int → Int → Int → Int → List (Int × Mat × Int × Int × Int × Int) →
    Option (Int × Int × List (Int × Mat × Int × Int × Int × Int))
  | 0, _, _, _, _, _, _ => none
  | fuel + 1, delta, f, g, d, e, acc =>
    if g = 0 then some (f, d, acc.reverse) else
    match batchV m inverse delta f g d e with
    | none => none
    | some (delta, t, f, g, d, e) => invertVLoop m inverse fuel delta f g d e ((delta, t, f, g, d, e) :: acc)

/-- `fn invert` on integers (`m` the modulus, `a` the adjuster, `x` the value, all non-negative;
`inverse = byInv (m mod 2^64)`): the adjusted inverse, `none` inside for a non-invertible `x`. -/
def invertV (m a x : Nat) (fuel : Nat := 64) :
    Option (Option Int × List (Int × Mat × Int × Int × Int × Int)) :=
  match invertVLoop m (byInv (m % U64)) fuel 1 m x 0 a [] with
  | none => none
  | some (f, d, tr) =>
    if f ≠ 1 ∧ f ≠ -1 then some (none, tr) else some (some (normV m d (decide (f = -1))), tr)

end MidnightZK.C10.BY
