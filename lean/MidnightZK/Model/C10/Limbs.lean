import MidnightZK.Model.Common
import MidnightZK.Model.ModArith
/-!
Limb-level model of the pure-Rust Montgomery arithmetic of `midnight-curves`
(`curves/src/arithmetic.rs`, `jubjub/fr.rs`, the `const fn` paths of `bls12_381/fq.rs`,
`curve25519/fp.rs`). A `u64` is a `Nat`; every helper returns exactly what the Rust helper
returns (low word, high word / borrow mask). Import-free (core only).
-/
namespace MidnightZK.C10

/-- `2^64`, the limb radix. -/
def W : Nat := 2 ^ 64

/-- `arithmetic.rs: fn adc` — `a + b + carry` as (low 64 bits, high 64 bits of the u128). -/
def adc (a b carry : Nat) : Nat × Nat :=
  let t := a + b + carry
  (t % W, t / W)

/-- `arithmetic.rs: fn sbb` — `a - (b + (borrow >> 63))` computed with wrapping u128 arithmetic;
returns (low 64 bits, high 64 bits): the new borrow is `0` or the all-ones mask `2^64-1`. -/
def sbb (a b borrow : Nat) : Nat × Nat :=
  let t := (a + 2 ^ 128 - (b + borrow / 2 ^ 63)) % 2 ^ 128
  (t % W, t / W)

/-- `arithmetic.rs: fn mac` — `a + b*c + carry` as (low, high). -/
def mac (a b c carry : Nat) : Nat × Nat :=
  let t := a + b * c + carry
  (t % W, t / W)

/-- `u64::wrapping_mul`. -/
def wmul (a b : Nat) : Nat := (a * b) % W

/-- Four little-endian `u64` limbs (`[u64; 4]`). -/
structure L4 where
  l0 : Nat
  l1 : Nat
  l2 : Nat
  l3 : Nat
  deriving DecidableEq, Repr

/-- Integer value of a limb vector. -/
def L4.val (a : L4) : Nat := a.l0 + a.l1 * W + a.l2 * W ^ 2 + a.l3 * W ^ 3

/-- Every limb is a `u64`. -/
def L4.wf (a : L4) : Prop := a.l0 < W ∧ a.l1 < W ∧ a.l2 < W ∧ a.l3 < W

instance (a : L4) : Decidable a.wf := by unfold L4.wf; infer_instance

def L4.zero : L4 := ⟨0, 0, 0, 0⟩

def L4.ofList : List Nat → Option L4
  | [a, b, c, d] => some ⟨a, b, c, d⟩
  | _ => none

def L4.toList (a : L4) : List Nat := [a.l0, a.l1, a.l2, a.l3]

/-- Limbs of a natural number (truncating to 256 bits). -/
def L4.ofNat (n : Nat) : L4 := ⟨n % W, n / W % W, n / W ^ 2 % W, n / W ^ 3 % W⟩

/-- Parameters of a 4-limb Montgomery field: the modulus limbs and `INV`. -/
structure MontParams where
  m : L4
  inv : Nat
  deriving Repr

/-- `jubjub/fr.rs: fn sub_ref`, `bls12_381/fq.rs: fn sub`, `curve25519/fp.rs: fn sub` —
limb-wise subtraction with borrow, then the modulus is added back under the borrow mask. -/
def subL (m a b : L4) : L4 :=
  let (d0, borrow) := sbb a.l0 b.l0 0
  let (d1, borrow) := sbb a.l1 b.l1 borrow
  let (d2, borrow) := sbb a.l2 b.l2 borrow
  let (d3, borrow) := sbb a.l3 b.l3 borrow
  let (d0, carry) := adc d0 (m.l0 &&& borrow) 0
  let (d1, carry) := adc d1 (m.l1 &&& borrow) carry
  let (d2, carry) := adc d2 (m.l2 &&& borrow) carry
  let (d3, _) := adc d3 (m.l3 &&& borrow) carry
  ⟨d0, d1, d2, d3⟩

/-- `jubjub/fr.rs: fn add` — limb-wise addition (the carry out of the top limb is dropped), then
`sub(&MODULUS)`. -/
def addL (m a b : L4) : L4 :=
  let (d0, carry) := adc a.l0 b.l0 0
  let (d1, carry) := adc a.l1 b.l1 carry
  let (d2, carry) := adc a.l2 b.l2 carry
  let (d3, _) := adc a.l3 b.l3 carry
  subL m ⟨d0, d1, d2, d3⟩ m

/-- `curve25519/fp.rs: fn add` — the carry of the top limb takes part in the trial subtraction. -/
def addC (m a b : L4) : L4 :=
  let (d0, carry) := adc a.l0 b.l0 0
  let (d1, carry) := adc a.l1 b.l1 carry
  let (d2, carry) := adc a.l2 b.l2 carry
  let (d3, carry) := adc a.l3 b.l3 carry
  let (d0, borrow) := sbb d0 m.l0 0
  let (d1, borrow) := sbb d1 m.l1 borrow
  let (d2, borrow) := sbb d2 m.l2 borrow
  let (d3, borrow) := sbb d3 m.l3 borrow
  let (_, borrow) := sbb carry 0 borrow
  let (d0, carry) := adc d0 (m.l0 &&& borrow) 0
  let (d1, carry) := adc d1 (m.l1 &&& borrow) carry
  let (d2, carry) := adc d2 (m.l2 &&& borrow) carry
  let (d3, _) := adc d3 (m.l3 &&& borrow) carry
  ⟨d0, d1, d2, d3⟩

/-- `jubjub/fr.rs: fn neg`, `curve25519/fp.rs: fn neg` — `MODULUS - self` masked to zero when
`self` is zero. -/
def negL (m a : L4) : L4 :=
  let (d0, borrow) := sbb m.l0 a.l0 0
  let (d1, borrow) := sbb m.l1 a.l1 borrow
  let (d2, borrow) := sbb m.l2 a.l2 borrow
  let (d3, _) := sbb m.l3 a.l3 borrow
  -- mask = ((l0|l1|l2|l3) == 0) as u64).wrapping_sub(1)
  let mask := if (a.l0 ||| a.l1 ||| a.l2 ||| a.l3) = 0 then 0 else W - 1
  ⟨d0 &&& mask, d1 &&& mask, d2 &&& mask, d3 &&& mask⟩

/-- One round of `montgomery_reduce`: `k = r0 * INV`, add `k * m` to the running five limbs
`(r0..r4)`, return the four surviving limbs and the new `carry2`. -/
def redStep (p : MontParams) (r0 r1 r2 r3 r4 carry2 : Nat) : Nat × Nat × Nat × Nat × Nat :=
  let k := wmul r0 p.inv
  let (_, carry) := mac r0 k p.m.l0 0
  let (r1, carry) := mac r1 k p.m.l1 carry
  let (r2, carry) := mac r2 k p.m.l2 carry
  let (r3, carry) := mac r3 k p.m.l3 carry
  let (r4, carry2) := adc r4 carry2 carry
  (r1, r2, r3, r4, carry2)

/-- The four rounds of `montgomery_reduce` before the final subtraction: returns
`(r4, r5, r6, r7, carry2)`; the last `carry2` is dropped by `jubjub/fr.rs` and
`bls12_381/fq.rs` (`let (r7, _) = adc(..)`) and kept by `curve25519/fp.rs`. -/
def redRounds (p : MontParams) (r0 r1 r2 r3 r4 r5 r6 r7 : Nat) : Nat × Nat × Nat × Nat × Nat :=
  let (r1, r2, r3, r4, c2) := redStep p r0 r1 r2 r3 r4 0
  let (r2, r3, r4, r5, c2) := redStep p r1 r2 r3 r4 r5 c2
  let (r3, r4, r5, r6, c2) := redStep p r2 r3 r4 r5 r6 c2
  let (r4, r5, r6, r7, c2) := redStep p r3 r4 r5 r6 r7 c2
  (r4, r5, r6, r7, c2)

/-- `jubjub/fr.rs: fn montgomery_reduce`, `bls12_381/fq.rs: fn montgomery_reduce`. -/
def montReduce (p : MontParams) (r0 r1 r2 r3 r4 r5 r6 r7 : Nat) : L4 :=
  let (r4, r5, r6, r7, _) := redRounds p r0 r1 r2 r3 r4 r5 r6 r7
  subL p.m ⟨r4, r5, r6, r7⟩ p.m

/-- `curve25519/fp.rs: fn montgomery_reduce` — the last carry enters the trial subtraction. -/
def montReduceC (p : MontParams) (r0 r1 r2 r3 r4 r5 r6 r7 : Nat) : L4 :=
  let (r4, r5, r6, r7, carry2) := redRounds p r0 r1 r2 r3 r4 r5 r6 r7
  let m := p.m
  let (d0, borrow) := sbb r4 m.l0 0
  let (d1, borrow) := sbb r5 m.l1 borrow
  let (d2, borrow) := sbb r6 m.l2 borrow
  let (d3, borrow) := sbb r7 m.l3 borrow
  let (_, borrow) := sbb carry2 0 borrow
  let (d0, carry) := adc d0 (m.l0 &&& borrow) 0
  let (d1, carry) := adc d1 (m.l1 &&& borrow) carry
  let (d2, carry) := adc d2 (m.l2 &&& borrow) carry
  let (d3, _) := adc d3 (m.l3 &&& borrow) carry
  ⟨d0, d1, d2, d3⟩

/-- The 4×4 schoolbook product of `mul_ref` / `mul_const` / `mul`: eight limbs. -/
def schoolbook (a b : L4) : Nat × Nat × Nat × Nat × Nat × Nat × Nat × Nat :=
  let (r0, carry) := mac 0 a.l0 b.l0 0
  let (r1, carry) := mac 0 a.l0 b.l1 carry
  let (r2, carry) := mac 0 a.l0 b.l2 carry
  let (r3, r4) := mac 0 a.l0 b.l3 carry
  let (r1, carry) := mac r1 a.l1 b.l0 0
  let (r2, carry) := mac r2 a.l1 b.l1 carry
  let (r3, carry) := mac r3 a.l1 b.l2 carry
  let (r4, r5) := mac r4 a.l1 b.l3 carry
  let (r2, carry) := mac r2 a.l2 b.l0 0
  let (r3, carry) := mac r3 a.l2 b.l1 carry
  let (r4, carry) := mac r4 a.l2 b.l2 carry
  let (r5, r6) := mac r5 a.l2 b.l3 carry
  let (r3, carry) := mac r3 a.l3 b.l0 0
  let (r4, carry) := mac r4 a.l3 b.l1 carry
  let (r5, carry) := mac r5 a.l3 b.l2 carry
  let (r6, r7) := mac r6 a.l3 b.l3 carry
  (r0, r1, r2, r3, r4, r5, r6, r7)

/-- `jubjub/fr.rs: fn mul_ref`, `bls12_381/fq.rs: fn mul_const`. -/
def mulL (p : MontParams) (a b : L4) : L4 :=
  let (r0, r1, r2, r3, r4, r5, r6, r7) := schoolbook a b
  montReduce p r0 r1 r2 r3 r4 r5 r6 r7

/-- `curve25519/fp.rs: fn mul`. -/
def mulC (p : MontParams) (a b : L4) : L4 :=
  let (r0, r1, r2, r3, r4, r5, r6, r7) := schoolbook a b
  montReduceC p r0 r1 r2 r3 r4 r5 r6 r7

/-- `(hi << 1) | (lo >> 63)` on `u64`s (the two operands of `|` have disjoint bits). -/
def shl1or (hi lo : Nat) : Nat := (hi * 2) % W ||| lo / 2 ^ 63

/-- The eight limbs computed by `square` (`jubjub/fr.rs`, `curve25519/fp.rs`): off-diagonal
products once, doubled by a one-bit shift across limbs, then the diagonal is added. -/
def squareLimbs (a : L4) : Nat × Nat × Nat × Nat × Nat × Nat × Nat × Nat :=
  let (r1, carry) := mac 0 a.l0 a.l1 0
  let (r2, carry) := mac 0 a.l0 a.l2 carry
  let (r3, r4) := mac 0 a.l0 a.l3 carry
  let (r3, carry) := mac r3 a.l1 a.l2 0
  let (r4, r5) := mac r4 a.l1 a.l3 carry
  let (r5, r6) := mac r5 a.l2 a.l3 0
  let r7 := r6 / 2 ^ 63
  let r6 := shl1or r6 r5
  let r5 := shl1or r5 r4
  let r4 := shl1or r4 r3
  let r3 := shl1or r3 r2
  let r2 := shl1or r2 r1
  let r1 := (r1 * 2) % W
  let (r0, carry) := mac 0 a.l0 a.l0 0
  let (r1, carry) := adc 0 r1 carry
  let (r2, carry) := mac r2 a.l1 a.l1 carry
  let (r3, carry) := adc 0 r3 carry
  let (r4, carry) := mac r4 a.l2 a.l2 carry
  let (r5, carry) := adc 0 r5 carry
  let (r6, carry) := mac r6 a.l3 a.l3 carry
  let (r7, _) := adc 0 r7 carry
  (r0, r1, r2, r3, r4, r5, r6, r7)

/-- `jubjub/fr.rs: fn square`. -/
def squareL (p : MontParams) (a : L4) : L4 :=
  let (r0, r1, r2, r3, r4, r5, r6, r7) := squareLimbs a
  montReduce p r0 r1 r2 r3 r4 r5 r6 r7

/-- `curve25519/fp.rs: fn square`. -/
def squareC (p : MontParams) (a : L4) : L4 :=
  let (r0, r1, r2, r3, r4, r5, r6, r7) := squareLimbs a
  montReduceC p r0 r1 r2 r3 r4 r5 r6 r7

/-- `curve25519/fp.rs: fn from_mont` — four reduction rounds on `(self, 0, 0, 0, 0)` written with
rotating registers, then `sub(&MODULUS)`. -/
def fromMontC (p : MontParams) (a : L4) : L4 :=
  let m := p.m
  let k := wmul a.l0 p.inv
  let (_, r0) := mac a.l0 k m.l0 0
  let (r1, r0) := mac a.l1 k m.l1 r0
  let (r2, r0) := mac a.l2 k m.l2 r0
  let (r3, r0) := mac a.l3 k m.l3 r0
  let k := wmul r1 p.inv
  let (_, r1') := mac r1 k m.l0 0
  let (r2, r1') := mac r2 k m.l1 r1'
  let (r3, r1') := mac r3 k m.l2 r1'
  let (r0, r1) := mac r0 k m.l3 r1'
  let k := wmul r2 p.inv
  let (_, r2') := mac r2 k m.l0 0
  let (r3, r2') := mac r3 k m.l1 r2'
  let (r0, r2') := mac r0 k m.l2 r2'
  let (r1, r2) := mac r1 k m.l3 r2'
  let k := wmul r3 p.inv
  let (_, r3') := mac r3 k m.l0 0
  let (r0, r3') := mac r0 k m.l1 r3'
  let (r1, r3') := mac r1 k m.l2 r3'
  let (r2, r3) := mac r2 k m.l3 r3'
  subL m ⟨r0, r1, r2, r3⟩ m

/-- `jubjub/fr.rs: fn to_bytes` (the limb part): `montgomery_reduce(l0, l1, l2, l3, 0, 0, 0, 0)`. -/
def toCanonL (p : MontParams) (a : L4) : L4 := montReduce p a.l0 a.l1 a.l2 a.l3 0 0 0 0

/-- `jubjub/fr.rs: fn from_u512` — `d0 * R2 + d1 * R3`. -/
def fromU512L (p : MontParams) (r2 r3 : L4) (d0 d1 : L4) : L4 :=
  addL p.m (mulL p d0 r2) (mulL p d1 r3)

/-- `curve25519/fp.rs: fn from_uniform_bytes_inner` (the limb part). -/
def fromU512C (p : MontParams) (r2 r3 : L4) (d0 d1 : L4) : L4 :=
  addC p.m (mulC p d0 r2) (mulC p d1 r3)

/-- The borrow left by the four-limb trial subtraction `limbs - MODULUS`
(`jubjub/fr.rs: fn from_bytes`, `curve25519/fp.rs: fn is_less_than_modulus`): `1` iff smaller. -/
def ltModBorrow (m a : L4) : Nat :=
  let (_, borrow) := sbb a.l0 m.l0 0
  let (_, borrow) := sbb a.l1 m.l1 borrow
  let (_, borrow) := sbb a.l2 m.l2 borrow
  let (_, borrow) := sbb a.l3 m.l3 borrow
  (borrow % 256) &&& 1

/-- `curve25519/fp.rs: fn lexicographically_largest` — `from_mont`, then the trial subtraction of
`HALF_MODULUS`; the answer is "no borrow". -/
def lexLargestC (p : MontParams) (half a : L4) : Bool := ltModBorrow half (fromMontC p a) = 0

/-- `bls12_381/fq.rs: fn is_valid`, `fp.rs: fn is_valid_u64` / `is_valid` — scan from the most
significant limb (byte): first difference decides; equal to the modulus is invalid. The lists
are given most-significant first. -/
def isValidMsf : List Nat → List Nat → Bool
  | a :: as, b :: bs => if a > b then false else if a < b then true else isValidMsf as bs
  | _, _ => false

/-- `is_valid(a)` with little-endian limbs as in the Rust call. -/
def isValid (a m : List Nat) : Bool := isValidMsf a.reverse m.reverse

/-- `u64s_from_bytes` / `Endian::LE.from_bytes`: 8·n little-endian bytes to n limbs. -/
def limbsOfBytes : Nat → List Nat → List Nat
  | 0, _ => []
  | n + 1, bs => leBytesToNat (bs.take 8) :: limbsOfBytes n (bs.drop 8)

/-- Little-endian bytes of limbs. -/
def bytesOfLimbs (ls : List Nat) : List Nat := ls.flatMap (natToLeBytes 8)

/-- Value of a little-endian limb list. -/
def limbsVal : List Nat → Nat
  | [] => 0
  | l :: t => l + W * limbsVal t

end MidnightZK.C10
