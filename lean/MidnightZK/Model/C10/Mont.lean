import MidnightZK.Model.C10.Limbs
import MidnightZK.Model.C10.Field
import MidnightZK.Gen.C10Constants
/-!
Functions of the pure-Rust Montgomery fields built on the limb primitives: exponentiation,
square roots (`jubjub/fr.rs: fn sqrt`, `curve25519/fp.rs: fn sqrt`), the addition chain of
`jubjub/fr.rs: fn invert` (read from the generated straight-line program). Import-free.
-/
namespace MidnightZK.C10

/-- Bits of a `u64`, most significant first. -/
def bitsMsf64 (e : Nat) : List Bool := (List.range 64).reverse.map (fun i => e / 2 ^ i % 2 = 1)

/-- `pow_vartime(by: &[u64; n])` (`jubjub/fr.rs`, and `ff::Field::pow_vartime` used by
`curve25519/fp.rs`): limbs from the most significant, bits from the most significant;
square, then multiply when the bit is set. Generic in the carrier. -/
def powGen {α : Type} (sq : α → α) (mul : α → α → α) (one a : α) (by_ : List Nat) : α :=
  (by_.reverse.flatMap bitsMsf64).foldl (fun res bit => let r := sq res; if bit then mul r a else r) one

def powLimbs (p : MontParams) (carryAware : Bool) (one a : L4) (by_ : List Nat) : L4 :=
  if carryAware then powGen (squareC p) (mulC p) one a by_
  else powGen (squareL p) (mulL p) one a by_

/-- `jubjub/fr.rs: fn sqrt` — `s = self^((r+1)/4)`, `Some(s)` iff `s * s == self`. -/
def jubjubSqrt (p : MontParams) (one a : L4) : Option L4 :=
  let s := powGen (squareL p) (mulL p) one a Gen.JubjubFr.SQRT_EXP
  if mulL p s s = a then some s else none

/-- `curve25519/fp.rs: fn sqrt` (Algorithm 3 of eprint 2012/685, `p ≡ 5 (mod 8)`) after
`a1 = self.pow_vartime(EXP)`, generic in the carrier: `a0 = (a1²·self)²`, `invalid = (a0 == -1)`,
`b = T_SQRT·a1`, `ab = b·self`, `i = (ab·b).double()`, `x = ab·(i - 1)`. -/
def c25519SqrtGen {α : Type} [DecidableEq α] (mul : α → α → α) (sq : α → α) (add sub : α → α → α)
    (neg : α → α) (one tSqrt a a1 : α) : Option α :=
  let a0 := sq (mul (sq a1) a)
  let invalid := a0 = neg one
  let b := mul tSqrt a1
  let ab := mul b a
  let i := add (mul ab b) (mul ab b)
  let x := mul ab (sub i one)
  if invalid then none else some x

/-- `curve25519/fp.rs: fn sqrt` on Montgomery limbs. -/
def c25519Sqrt (p : MontParams) (one a : L4) : Option L4 :=
  let r2 := (L4.ofList Gen.C25519Fp.R2).getD L4.zero
  let tSqrt := mulC p ((L4.ofList Gen.C25519Fp.T_SQRT_RAW).getD L4.zero) r2
  let a1 := powGen (squareC p) (mulC p) one a Gen.C25519Fp.SQRT_EXP
  c25519SqrtGen (mulC p) (squareC p) (addC p.m) (subL p.m) (negL p.m) one tSqrt a a1

open Gen.JubjubFr in
/-- Interpreter of the generated addition chain: registers, `sq`/`mul` supplied by the caller. -/
def runChain {α : Type} (sq : α → α) (mul : α → α → α) (x : α) (prog : List ChainInstr) (nregs : Nat) :
    Array α :=
  prog.foldl (fun regs ins =>
    match ins with
    | .sq d a => regs.setIfInBounds d (sq (regs.getD a x))
    | .mul d a b => regs.setIfInBounds d (mul (regs.getD a x) (regs.getD b x))
    | .sqn d n => regs.setIfInBounds d (Nat.repeat sq n (regs.getD d x)))
    (Array.replicate nregs x)

/-- `jubjub/fr.rs: fn invert` — the addition chain, `None` for zero. -/
def jubjubInvert (p : MontParams) (a : L4) : Option L4 :=
  let regs := runChain (squareL p) (mulL p) a Gen.JubjubFr.INVERT_CHAIN Gen.JubjubFr.INVERT_NREGS
  if a = L4.zero then none else some (regs.getD Gen.JubjubFr.INVERT_RET a)

/-- The exponent computed by the addition chain (registers hold exponents of `self`). -/
def jubjubInvertExponent : Nat :=
  (runChain (fun e => 2 * e) (fun a b => a + b) 1 Gen.JubjubFr.INVERT_CHAIN Gen.JubjubFr.INVERT_NREGS).getD
    Gen.JubjubFr.INVERT_RET 0

end MidnightZK.C10
