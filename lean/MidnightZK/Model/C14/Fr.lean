import MidnightZK.Model.Common
import MidnightZK.Model.ModArith
import MidnightZK.Gen.C14Consts
/-!
Driver-side arithmetic of property C14: the BLS12-381 scalar field as `Nat` modulo the generated
modulus (instantiates the abstract `F` of `Model/C14/Open.lean`), and reference arithmetic of G1
(`y² = x³ + 4`, Jacobian coordinates) used only to print the point `[d]·G` for a discrete
logarithm `d` computed by the model. Import-free (core only).
-/
namespace MidnightZK.C14

/-- An element of the scalar field, kept canonical (`val < r`) by every operation. -/
structure Fr where
  val : Nat
deriving DecidableEq, Repr

namespace Fr
def r : Nat := Gen.frModulus
def ofNat (n : Nat) : Fr := ⟨n % r⟩
instance : Zero Fr := ⟨⟨0⟩⟩
instance : One Fr := ⟨⟨1⟩⟩
instance : Add Fr := ⟨fun a b => ⟨(a.val + b.val) % r⟩⟩
instance : Neg Fr := ⟨fun a => ⟨(r - a.val % r) % r⟩⟩
instance : Sub Fr := ⟨fun a b => ⟨(a.val + (r - b.val % r)) % r⟩⟩
instance : Mul Fr := ⟨fun a b => ⟨(a.val * b.val) % r⟩⟩
instance : Inhabited Fr := ⟨⟨0⟩⟩
/-- `Field::invert` by Fermat (`0 ↦ 0`; callers test for zero first). -/
def inv (a : Fr) : Fr := ⟨invMod a.val r⟩
end Fr

/-- BLS12-381 G1: base-field modulus from the generated file, `b = 4`, the standard generator
(the harness prints the implementation's generator; request `gen`). -/
def g1P : Nat := Gen.fpModulus
def g1Gx : Nat := 0x17f1d3a73197d7942695638c4fa9ac0fc3688c4f9774b905a14e3a3f171bac586c55e83ff97a1aeffb3af00adb22c6bb
def g1Gy : Nat := 0x08b3f481e3aaa0f1a09e30ed741d8ae4fcf5e095d5d00af600db18cb2c04b3edd03cc744a2888ae40caa232946c5e7e1

structure Jac where
  x : Nat
  y : Nat
  z : Nat
deriving Repr, DecidableEq

def Jac.inf : Jac := ⟨0, 1, 0⟩

def jdouble (p : Nat) (P : Jac) : Jac :=
  if P.z % p = 0 ∨ P.y % p = 0 then Jac.inf else
  let a := mulMod P.x P.x p
  let b := mulMod P.y P.y p
  let c := mulMod b b p
  let xb := addMod P.x b p
  let d := mulMod 2 (subMod (subMod (mulMod xb xb p) a p) c p) p
  let e := mulMod 3 a p
  let f := mulMod e e p
  let x3 := subMod f (mulMod 2 d p) p
  let y3 := subMod (mulMod e (subMod d x3 p) p) (mulMod 8 c p) p
  let z3 := mulMod 2 (mulMod P.y P.z p) p
  ⟨x3, y3, z3⟩

def jadd (p : Nat) (P Q : Jac) : Jac :=
  if P.z % p = 0 then Q else if Q.z % p = 0 then P else
  let z1z1 := mulMod P.z P.z p
  let z2z2 := mulMod Q.z Q.z p
  let u1 := mulMod P.x z2z2 p
  let u2 := mulMod Q.x z1z1 p
  let s1 := mulMod P.y (mulMod Q.z z2z2 p) p
  let s2 := mulMod Q.y (mulMod P.z z1z1 p) p
  if u1 = u2 then (if s1 = s2 then jdouble p P else Jac.inf) else
  let h := subMod u2 u1 p
  let r := subMod s2 s1 p
  let hh := mulMod h h p
  let hhh := mulMod h hh p
  let v := mulMod u1 hh p
  let x3 := subMod (subMod (mulMod r r p) hhh p) (mulMod 2 v p) p
  let y3 := subMod (mulMod r (subMod v x3 p) p) (mulMod s1 hhh p) p
  let z3 := mulMod h (mulMod P.z Q.z p) p
  ⟨x3, y3, z3⟩

/-- Double-and-add, least significant bit first; `fuel` ≥ number of bits of `k`. -/
def smulFuel (p : Nat) : Nat → Nat → Jac → Jac → Jac
  | 0, _, _, acc => acc
  | fuel + 1, k, P, acc =>
    if k = 0 then acc
    else smulFuel p fuel (k / 2) (jdouble p P) (if k % 2 = 1 then jadd p acc P else acc)

/-- `[k]·G` as `x,y` in hexadecimal, `inf` for the point at infinity. -/
def mulGenStr (k : Nat) : String :=
  let P := smulFuel g1P (k.log2 + 1) k ⟨g1Gx, g1Gy, 1⟩ Jac.inf
  if P.z % g1P = 0 then "inf" else
  let zi := invMod P.z g1P
  let zi2 := mulMod zi zi g1P
  s!"{toHex (mulMod P.x zi2 g1P)},{toHex (mulMod P.y (mulMod zi2 zi g1P) g1P)}"

end MidnightZK.C14
