/-!
# Query grouping of the KZG multi-opening (executable model)

Mirrors `proofs/src/poly/kzg/utils.rs: fn construct_intermediate_sets` over abstract queries
`(commitment, point, eval)`:

* commitments are compared with `==` (`PolynomialPointer` / `CommitmentReference`: identity of the
  reference), points by value (`HashMap` key);
* `point_index_map` is modelled by the insertion-ordered list of distinct points (the index of a
  point is its position: `entry(p).or_insert(len)`);
* `BTreeSet<usize>` is modelled by a strictly increasing list, `BTreeMap<BTreeSet, usize>` by the
  insertion-ordered list of distinct sets (the stored value of a key is its insertion rank, and
  the point sets are written at that rank, so the iteration order of the map is irrelevant).

Import-free.
-/
namespace MidnightZK.C14

/-- `poly/query.rs: trait Query` seen as data (`get_commitment`, `get_point`, `get_eval`; the
label of `get_commitment_label` is irrelevant to the grouping and to the verdict). -/
structure Query (C P E : Type) where
  com : C
  point : P
  eval : E
deriving Repr, DecidableEq

/-- `kzg/utils.rs: struct CommitmentData` (the label is irrelevant to the grouping). -/
structure CommitmentData (C E : Type) where
  com : C
  setIndex : Nat
  pointIndices : List Nat
  evals : List E
deriving Repr, DecidableEq

section
variable {C P E : Type} [DecidableEq C] [DecidableEq P]

/-- `map.entry(x).or_insert(map.len())` on an insertion-ordered map: the keys afterwards. -/
def insertNew {α : Type} [DecidableEq α] (l : List α) (x : α) : List α :=
  if x ∈ l then l else l ++ [x]

/-- First loop, one query: `commitment_map.iter().position(..)`; `none` = `Err(DuplicatedQuery)`. -/
def addPoint : List (C × List Nat) → C → Nat → Option (List (C × List Nat))
  | [], c, i => some [(c, [i])]
  | e :: es, c, i =>
    if e.1 = c then (if i ∈ e.2 then none else some ((e.1, e.2 ++ [i]) :: es))
    else (addPoint es c i).map (e :: ·)

/-- First loop of `construct_intermediate_sets`: the distinct points in insertion order and the
commitment map `(commitment, point_indices)`. -/
def phase1 : List (Query C P E) → List P → List (C × List Nat) → Option (List P × List (C × List Nat))
  | [], pts, cm => some (pts, cm)
  | q :: qs, pts, cm =>
    let pts' := insertNew pts q.point
    match addPoint cm q.com (pts'.idxOf q.point) with
    | none => none
    | some cm' => phase1 qs pts' cm'

/-- Insertion into a strictly increasing list. -/
def insertSorted (x : Nat) : List Nat → List Nat
  | [] => [x]
  | y :: ys => if x < y then x :: y :: ys else if x = y then y :: ys else y :: insertSorted x ys

/-- `point_indices.iter().cloned().collect::<BTreeSet<_>>()` as a strictly increasing list. -/
def btreeSet (l : List Nat) : List Nat := l.foldr insertSorted []

/-- Second loop: the distinct point-index sets in order of first appearance
(`point_idx_sets.entry(set).or_insert(num_sets)`). -/
def phase2 (cm : List (C × List Nat)) : List (List Nat) :=
  cm.foldl (fun sets e => insertNew sets (btreeSet e.2)) []

/-- Fourth loop, one query: `set_index` and `evals[point_index_in_set]` of every commitment data
whose commitment equals the query's. -/
def placeEval (pts : List P) (cm : List (C × List Nat)) (sets : List (List Nat))
    (st : List (CommitmentData C E)) (q : Query C P E) : List (CommitmentData C E) :=
  let pointIndex := pts.idxOf q.point
  let set := match cm.find? (fun e => e.1 = q.com) with
    | some e => btreeSet e.2
    | none => []
  let setIndex := sets.idxOf set
  let pos := set.idxOf pointIndex
  st.map (fun d => if q.com = d.com then { d with setIndex := setIndex, evals := d.evals.set pos q.eval } else d)

/-- `kzg/utils.rs: construct_intermediate_sets`; `none` = `Err(Error::DuplicatedQuery)`.
`dflt` is `Q::Eval::default()`. -/
def constructIntermediateSets (dflt : E) (qs : List (Query C P E)) :
    Option (List (CommitmentData C E) × List (List P)) :=
  match phase1 qs [] [] with
  | none => none
  | some (pts, cm) =>
    let sets := phase2 cm
    let st0 : List (CommitmentData C E) :=
      cm.map (fun e => { com := e.1, setIndex := 0, pointIndices := e.2, evals := List.replicate e.2.length dflt })
    let st := qs.foldl (placeEval pts cm sets) st0
    some (st, sets.map (fun s => s.filterMap (fun i => pts[i]?)))

end

end MidnightZK.C14
