import MidnightZK.Model.C14.Sets
/-!
# KZG multi-opening: prover and verifier (executable model)

Mirrors `proofs/src/poly/kzg/mod.rs: multi_open / multi_prepare`, the helpers they call in
`proofs/src/utils/arithmetic.rs` (`eval_polynomial`, `kate_division`, `lagrange_interpolate`,
`powers`, `inner_product`, `msm_inner_product`, `evals_inner_product`), `Polynomial`'s `Add`,
`Mul<F>`, `Sub<F>` (`proofs/src/poly/mod.rs`), `CommitmentReference::as_terms`
(`proofs/src/poly/query.rs`) and the final check of `kzg/msm.rs: DualMSM::check`.

Polynomials are coefficient lists (constant coefficient first) over any type `F` with ring
operations; inversion is a parameter `inv`. Group elements never appear: the verifier's deferred
dual MSM is a list of `(scalar, base name)` terms, and the pairing check
`e(L, [s]₂) = e(R, [1]₂)` is modelled on discrete logarithms (`s · log L = log R`), which is
exact for a non-degenerate pairing on a group of prime order. The Fiat–Shamir challenges
`x₁ … x₄` are inputs. Import-free.
-/
namespace MidnightZK.C14

section
variable {F : Type} [Zero F] [One F] [Add F] [Sub F] [Neg F] [Mul F]

/-- `arithmetic.rs: eval_polynomial` (Horner; the chunked evaluation equals it, property C12). -/
def evalPoly (p : List F) (x : F) : F := p.foldr (fun c acc => c + x * acc) 0

/-- `impl Mul<F> for Polynomial` (value; the `0`/`1` shortcuts give the same coefficients). -/
def polyScale (p : List F) (s : F) : List F := p.map (· * s)

/-- `impl Add<Polynomial> for Polynomial`: `lhs[i] += rhs[i]` over `lhs.zip(rhs)`; the result has
the length of `lhs` (the operands of `multi_open` all have the same length). -/
def polyAdd : List F → List F → List F
  | a :: as, b :: bs => (a + b) :: polyAdd as bs
  | as, [] => as
  | [], _ :: _ => []

/-- `arithmetic.rs: inner_product(polys, powers(x))` continued from power `cur`:
`acc + Σ pᵢ · cur·xⁱ`. -/
def innerProductFrom (x : F) : F → List (List F) → List F → List F
  | _, [], acc => acc
  | cur, p :: ps, acc => innerProductFrom x (x * cur) ps (polyAdd acc (polyScale p cur))

/-- `inner_product(polys, powers(x))`: `Σ pᵢ·xⁱ`; `none` = `reduce(..).unwrap()` on no terms. -/
def innerProduct (polys : List (List F)) (x : F) : Option (List F) :=
  match polys with
  | [] => none
  | p :: ps => some (innerProductFrom x (x * 1) ps (polyScale p 1))

/-- The same on scalars (`inner_product(&evals, powers(x4))`). -/
def innerProductScalars (vals : List F) (x : F) : Option F :=
  match vals with
  | [] => none
  | v :: vs => some ((vs.foldl (fun (st : F × F) w => (st.1 + w * st.2, x * st.2)) (v * 1, x * 1)).1)

/-- Quotient and remainder of `a` by `X - b` (synthetic division, highest coefficient first:
`q[i-1] = a[i] + b·q[i]`). -/
def kateAux (b : F) : List F → List F × F
  | [] => ([], 0)
  | [a0] => ([], a0)
  | a0 :: a1 :: t =>
    let qr := kateAux b (a1 :: t)
    (qr.2 :: qr.1, a0 + b * qr.2)

/-- `arithmetic.rs: kate_division(a, b)`: the quotient, remainder dropped; it has
`a.len().saturating_sub(1)` coefficients (the quotient of the empty vector is empty). -/
def kateDivision (a : List F) (b : F) : List F := (kateAux b a).1

/-- `points.iter().fold(q, |poly, point| kate_division(&poly, *point))` -/
def kateFold : List F → List F → List F
  | a, [] => a
  | a, p :: ps => kateFold (kateDivision a p) ps

/-- `Vec::resize(n, 0)` -/
def resize (l : List F) (n : Nat) : List F := (l ++ List.replicate (n - l.length) 0).take n

/-- `powers(x).take(n)` -/
def powersN (x : F) : Nat → F → List F
  | 0, _ => []
  | n + 1, cur => cur :: powersN x n (x * cur)

/-- `x.pow([e])` -/
def powNat (x : F) : Nat → F
  | 0 => 1
  | n + 1 => powNat x n * x

/-- `slice.chunks(cs)` (`cs > 0`): consecutive pieces of `cs` elements, the last one possibly shorter;
`fuel` bounds the number of pieces (the length of the slice is always enough). -/
def chunksOf (cs : Nat) : Nat → List F → List (List F)
  | 0, _ => []
  | fuel + 1, l => if l.isEmpty then [] else l.take cs :: chunksOf cs fuel (l.drop cs)

/-- `arithmetic.rs: eval_polynomial` as written, for a rayon pool of `t` threads: serial Horner when
`n·2 < t`; otherwise the coefficients are cut into chunks of `⌈n/t⌉`, `parts` has `t` slots and is
`zip`ped with the chunks (surplus chunks would be dropped), slot `i` receives
`evaluate(chunkᵢ)·x^(i·chunk_size)`, and the slots are summed. -/
def evalPolyThreads (t : Nat) (p : List F) (x : F) : F :=
  let n := p.length
  if n * 2 < t then evalPoly p x else
  let cs := (n + t - 1) / t
  let parts := ((chunksOf cs n p).take t).zipIdx.map (fun ci => evalPoly ci.1 x * powNat x (ci.2 * cs))
  parts.foldl (fun acc c => acc + c) 0

/-- What `multi_open` computes (the proof is `commit fPoly`, `qEvals`, `commit piPoly`). -/
structure ProverOut (F : Type) where
  qPolys : List (List F)
  fPoly : List F
  qEvals : List F
  finalPoly : List F
  v : F
  piPoly : List F

inductive ProverErr
  | dup      -- `Err(DuplicatedQuery)`
  | panic    -- an `unwrap`, index or subtraction panics
deriving DecidableEq, Repr

variable [DecidableEq F]

/-- The polynomials of the commitments of set `i`, in commitment-map order
(`q_polys[com_data.set_index].push(..)`). -/
def bySet {α β : Type} (cm : List (CommitmentData α β)) (f : CommitmentData α β → γ) (i : Nat) : List γ :=
  (cm.filter (fun d => d.setIndex = i)).map f

/-- The body of `multi_open` after the grouping: `groups[i]` = the points of set `i` and the
polynomials opened at exactly these points (in commitment-map order). `none` = a panic. -/
def openGroups (nMax : Nat) (groups : List (List F × List (List F))) (x1 x2 x3 x4 : F) :
    Option (ProverOut F) :=
  match groups.mapM (fun g => innerProduct g.2 x1) with
  | none => none
  | some qPolys =>
    let fPolys := (groups.zip qPolys).map (fun gq => resize (kateFold gq.2 gq.1.1) nMax)
    match innerProduct fPolys x2 with
    | none => none
    | some fPoly =>
      let qEvals := qPolys.map (fun q => evalPoly q x3)
      match innerProduct (qPolys ++ [fPoly]) x4 with
      | none => none
      | some finalPoly =>
        let v := evalPoly finalPoly x3
        match finalPoly with
        | [] => none            -- `res.values[0] -= rhs`
        | c0 :: rest =>
          some { qPolys, fPoly, qEvals, finalPoly, v, piPoly := kateDivision ((c0 - v) :: rest) x3 }

/-- `kzg/mod.rs: multi_open`. Commitments of the prover queries are indices into `polys`
(`PolynomialPointer`: identity of the reference); `nMax = 1 << params.max_k()`. -/
def multiOpen (nMax : Nat) (polys : List (List F)) (queries : List (Query Nat F F))
    (x1 x2 x3 x4 : F) : Except ProverErr (ProverOut F) :=
  match constructIntermediateSets (0 : F) queries with
  | none => .error .dup
  | some (cm, pointSets) =>
    let groups := pointSets.zipIdx.map (fun pi => (pi.1, bySet cm (fun d => polys.getD d.com []) pi.2))
    match openGroups nMax groups x1 x2 x3 x4 with
    | none => .error .panic
    | some out => .ok out

/-- `KZGCommitmentScheme::commit` with `g = [sⁱ]G`, on discrete logarithms: `p ↦ p(s)`. -/
def commitLog (s : F) (p : List F) : F := evalPoly p s

-- ---------------------------------------------------------------------------------------------
-- verifier

/-- `query.rs: enum CommitmentReference`; commitments are indices into the verifier's table of
commitment objects (`==` is identity of the references, for `Chopped` of every part and `n`). -/
inductive ComRef
  | one (i : Nat)
  | chopped (parts : List Nat) (n : Nat)
deriving DecidableEq, Repr

/-- The bases of the verifier's MSM. -/
inductive Base
  | com (i : Nat)   -- an entry of the commitment table
  | f               -- `f_com` read from the proof
  | pi              -- `π` read from the proof
  | negG            -- `-G`
deriving DecidableEq, Repr

/-- `CommitmentReference::as_terms(eval_point_opt)`; `none` = an assertion / `expect` / `n - 1` fails. -/
def asTerms (c : ComRef) (pt : Option F) : Option (List (F × Base)) :=
  match c, pt with
  | .one i, none => some [(1, .com i)]
  | .one _, some _ => none
  | .chopped _ _, none => none
  | .chopped parts n, some x =>
    if n = 0 then none else
    let sf := powNat x (n - 1)
    some ((parts.foldl (fun (st : List (F × Base) × F) p => (st.1 ++ [(st.2, Base.com p)], st.2 * sf)) ([], 1)).1)

/-- `arithmetic.rs: lagrange_interpolate(points, evals)`; `none` = an assertion fails. -/
def lagrangeInterpolate (inv : F → F) (points evals : List F) : Option (List F) :=
  if points.length ≠ evals.length then none else
  if ¬ points.Nodup then none else
  if points.length = 1 then some [evals.headD 0] else
  let n := points.length
  let idx := List.range n
  let final := (idx.zip (points.zip evals)).foldl (fun (final : List F) jxe =>
      let j := jxe.1
      let xj := jxe.2.1
      let ev := jxe.2.2
      let others := (idx.zip points).filter (fun kx => kx.1 ≠ j) |>.map (·.2)
      let tmp := others.foldl (fun (tmp : List F) xk =>
          let denom := inv (xj - xk)
          -- product[i] = tmp[i] * (-denom * x_k) + tmp[i-1] * denom
          List.zipWith (fun a b => a * (-denom * xk) + b * denom) (tmp ++ [0]) (0 :: tmp)) [1]
      List.zipWith (fun f c => f + c * ev) final tmp) (List.replicate n 0)
  some final

/-- `arithmetic.rs: evals_inner_product(evals_set, scalars)`; `none` = an index panics. -/
def evalsInnerProduct (evalsSet : List (List F)) (scalars : List F) : Option (List F) :=
  match evalsSet with
  | [] => none
  | e0 :: _ =>
    (evalsSet.zip scalars).foldlM (fun (res : List F) es =>
      if es.1.length < res.length then none
      else some (List.zipWith (fun r e => r + e * es.2) res es.1)) (List.replicate e0.length 0)

/-- `arithmetic.rs: msm_inner_product(msms, scalars)`: every MSM scaled (`kzg/msm.rs:
MSMKZG::scale` multiplies every scalar by the factor), all concatenated in order (scalars, bases
and `labels` extended alike; MSMs beyond the scalars are dropped by the `zip`). -/
def msmInnerProduct (msms : List (List (F × Base))) (scalars : List F) : List (F × Base) :=
  ((msms.zip scalars).map (fun ms => ms.1.map (fun t => (t.1 * ms.2, t.2)))).flatten

/-- What the verifier reads from the proof: whether `f_com` is there, the `q` evaluations that are
there, whether `π` is there (a missing or undecodable element is `Err(SamplingError)`). -/
structure ProofView (F : Type) where
  hasF : Bool
  qEvals : List F
  hasPi : Bool

inductive VerifierErr
  | dup        -- `Err(DuplicatedQuery)`
  | sampling   -- `Err(SamplingError)`
  | panic
deriving DecidableEq, Repr

/-- The deferred dual MSM `(left, right)` of `multi_prepare`. -/
structure DualMSM (F : Type) where
  left : List (F × Base)
  right : List (F × Base)

/-- One step of the `f_eval` fold of `multi_prepare`, for one set: the points and commitments of
the set, its `x₁`-combined evaluations, the `q` evaluation read from the proof:
`acc·x₂ + (proof_eval − r(x₃)) / ∏(x₃ − pointᵢ)`; `none` = an assertion of
`lagrange_interpolate` fails or `den.invert().unwrap()` panics. -/
def fEvalStep (inv : F → F) (x2 x3 : F)
    (pe : ((List F × List (List (F × Base) × List F)) × List F) × F) (acc : Option F) : Option F :=
  match acc with
  | none => none
  | some accEval =>
    match lagrangeInterpolate inv pe.1.1.1 pe.1.2 with
    | none => none
    | some rPoly =>
      let rEval := evalPoly rPoly x3
      let den := pe.1.1.1.foldl (fun a p => a * (x3 - p)) 1
      if den = 0 then none else
      some (accEval * x2 + (pe.2 - rEval) * inv den)

/-- The body of `multi_prepare` after the grouping: `groups[i]` = the points of set `i` and, for
every commitment opened at exactly these points, its MSM terms and its evaluations (in the order
of the points). The result is `DualMSM { left: π, right: final_com }` after
`right.add_msm(&scaled_pi)` (`MSMKZG::add_msm` appends `[x₃·π, v·(−G)]`). -/
def prepareGroups (inv : F → F) (groups : List (List F × List (List (F × Base) × List F)))
    (proof : ProofView F) (x1 x2 x3 x4 : F) : Except VerifierErr (DualMSM F) :=
  let nsets := groups.length
  let nb := (groups.map (fun g => g.2.length)).foldl max 0
  let powersX1 := powersN x1 nb 1
  let qComs := groups.map (fun g => msmInnerProduct (g.2.map (·.1)) powersX1)
  match groups.mapM (fun g => evalsInnerProduct (g.2.map (·.2)) powersX1) with
  | none => .error .panic
  | some qEvalSets =>
    if ¬ proof.hasF then .error .sampling else
    if proof.qEvals.length < nsets then .error .sampling else
    let qEvalsOnX3 := proof.qEvals.take nsets
    -- f_eval, folded from the last set to the first (`foldr` visits the last set first, as
    -- `.rev().fold(..)` does)
    let stepOpt := ((groups.zip qEvalSets).zip qEvalsOnX3).foldr (fEvalStep inv x2 x3) (some 0)
    match stepOpt with
    | none => .error .panic
    | some fEval =>
      let size := nsets + 1
      let finalCom := msmInnerProduct (qComs ++ [[((1 : F), Base.f)]]) (powersN x4 size 1)
      match innerProductScalars (qEvalsOnX3 ++ [fEval]) x4 with
      | none => .error .panic
      | some v =>
        if ¬ proof.hasPi then .error .sampling else
        .ok { left := [((1 : F), Base.pi)], right := finalCom ++ [(x3, Base.pi), (v, Base.negG)] }

/-- The MSM of one commitment in `multi_prepare` (`MSMKZG::init()`, then `append_term` for every
term of `com_data.commitment.as_terms(eval_point_opt)`; the branch is `query.rs: is_chopped`),
with its set index and evaluations; `none` = an assertion or index panics. A chopped commitment is
evaluated at the single point of its point set. -/
def comMsm (debugAssertions : Bool) (pointSets : List (List F)) (d : CommitmentData ComRef F) :
    Option (Nat × List (F × Base) × List F) :=
  match d.com with
  | .chopped _ _ =>
    if debugAssertions && d.pointIndices.length != 1 then none else
    match (pointSets.getD d.setIndex [])[0]? with      -- `point_sets[set_index][0]`
    | none => none
    | some x => (asTerms d.com (some x)).map (fun m => (d.setIndex, m, d.evals))
  | .one _ => (asTerms d.com none).map (fun m => (d.setIndex, m, d.evals))

/-- `kzg/mod.rs: multi_prepare`. `debugAssertions` = whether `debug_assert!` is compiled in. -/
def multiPrepare (inv : F → F) (debugAssertions : Bool) (queries : List (Query ComRef F F))
    (proof : ProofView F) (x1 x2 x3 x4 : F) : Except VerifierErr (DualMSM F) :=
  match constructIntermediateSets (0 : F) queries with
  | none => .error .dup
  | some (cm, pointSets) =>
    match cm.mapM (comMsm debugAssertions pointSets) with
    | none => .error .panic
    | some msms =>
      let groups := pointSets.zipIdx.map (fun pi => (pi.1, (msms.filter (fun t => t.1 = pi.2)).map (fun t => t.2)))
      prepareGroups inv groups proof x1 x2 x3 x4

/-- The intermediate scalars of `multi_prepare` (what the add-only trace hook
`kzg/verif_hooks.rs: VerifPrepareTrace` records): `powers_x1`, the `x₁`-combined `q_eval_sets`,
every `r_eval` in the order of the `f_eval` fold (last point set first), `f_eval`, `v`. -/
structure PrepTrace (F : Type) where
  powersX1 : List F
  qEvalSets : List (List F)
  rEvals : List F
  fEval : F
  v : F

/-- The same computation as `prepareGroups`, returning the intermediate scalars instead of the
dual MSM (`none` where `prepareGroups` does not reach `v`). -/
def prepareTrace (inv : F → F) (groups : List (List F × List (List (F × Base) × List F)))
    (proof : ProofView F) (x1 x2 x3 x4 : F) : Option (PrepTrace F) :=
  let nsets := groups.length
  let nb := (groups.map (fun g => g.2.length)).foldl max 0
  let powersX1 := powersN x1 nb 1
  match groups.mapM (fun g => evalsInnerProduct (g.2.map (·.2)) powersX1) with
  | none => none
  | some qEvalSets =>
    if ¬ proof.hasF then none else
    if proof.qEvals.length < nsets then none else
    let qEvalsOnX3 := proof.qEvals.take nsets
    match ((groups.zip qEvalSets).zip qEvalsOnX3).foldr (fEvalStep inv x2 x3) (some 0) with
    | none => none
    | some fEval =>
      match innerProductScalars (qEvalsOnX3 ++ [fEval]) x4 with
      | none => none
      | some v =>
        let rEvals := (groups.zip qEvalSets).reverse.filterMap (fun gq =>
          (lagrangeInterpolate inv gq.1.1 gq.2).map (fun r => evalPoly r x3))
        some { powersX1, qEvalSets, rEvals, fEval, v }

/-- `multi_prepare` up to `v`, returning the trace (grouping and `as_terms` as in `multiPrepare`). -/
def multiPrepareTrace (inv : F → F) (debugAssertions : Bool) (queries : List (Query ComRef F F))
    (proof : ProofView F) (x1 x2 x3 x4 : F) : Option (PrepTrace F) :=
  match constructIntermediateSets (0 : F) queries with
  | none => none
  | some (cm, pointSets) =>
    match cm.mapM (comMsm debugAssertions pointSets) with
    | none => none
    | some msms =>
      let groups := pointSets.zipIdx.map (fun pi => (pi.1, (msms.filter (fun t => t.1 = pi.2)).map (fun t => t.2)))
      prepareTrace inv groups proof x1 x2 x3 x4

/-- Value of an MSM on discrete logarithms. -/
def msmLog (dlog : Base → F) (m : List (F × Base)) : F :=
  m.foldr (fun t acc => t.1 * dlog t.2 + acc) 0

/-- `DualMSM::check`: `e(left, [s]₂) · e(right, -[1]₂) = 1`, on discrete logarithms. -/
def checkLog (s : F) (dlog : Base → F) (d : DualMSM F) : Bool :=
  decide (s * msmLog dlog d.left = msmLog dlog d.right)

end

end MidnightZK.C14
