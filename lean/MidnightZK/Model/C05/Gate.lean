import MidnightZK.Model.C05.Bounds
/-!
# C05 — the two custom gates of the foreign-field chip and their witness generation

Executable model (core Lean only) of
* `circuits/src/field/foreign/gates/mul.rs`: the identities of gate "Foreign-field
  multiplication" (`MulConfig::configure`) and the witness of `assert_mul`;
* `circuits/src/field/foreign/gates/norm.rs`: the identities of gate "Foreign-field
  normalization" (`NormConfig::configure`) and the witness of `normalize`;
* `circuits/src/field/foreign/util.rs`: `bi_to_limbs`, `bi_from_limbs`.

Cells hold elements of the native field; a limb `x_i` of an un-normalised element may stand for a
negative integer (stored as `x_i mod p`). Every constant of the gates is `bigint_to_fe` of an
integer, so a gate identity holds on the cells iff the corresponding integer expression, evaluated
at the integers the cells stand for, is divisible by the native modulus `p`. That integer form is
what is modelled here.
-/
namespace MidnightZK.C05

/-- `util.rs: fn bi_from_limbs` with `base = 2^L`: `Σ 2^(L·i)·x_i` (the represented integer is
this `+ 1`). -/
def limbsValue (L : Nat) : List Int → Int
  | [] => 0
  | x :: xs => x + (2 : Int) ^ L * limbsValue L xs

/-- `util.rs: fn bi_to_limbs` for a non-negative value: `n` little-endian digits in base `2^L`
and the remaining quotient (the Rust function panics when it is non-zero). -/
def toLimbs (L : Nat) : Nat → Int → List Int × Int
  | 0, v => ([], v)
  | n + 1, v =>
    let r := toLimbs L n (v / (2 : Int) ^ L)
    (v % (2 : Int) ^ L :: r.1, r.2)

/-- The expression of the multiplication gate: `sum_xy + sum_x + sum_y - sum_z` for coefficient
vectors `bp` (`base_powers`) and `dbp` (`double_base_powers`), possibly reduced modulo `mj`. -/
def mulExpr (bp dbp xs ys zs : List Int) : Int :=
  sumProd dbp (pairwiseProd xs ys) + sumProd bp xs + sumProd bp ys - sumProd bp zs

/-- The expression of the normalization gate: `sum_shifted_x - sum_z - shiftTerm`, with
`shifted_x_i = x_i + L`. -/
def normExpr (bp : List Int) (lim : Int) (xs zs : List Int) (shiftTerm : Int) : Int :=
  sumProd bp (xs.map (· + lim)) - sumProd bp zs - shiftTerm

/-- Left-hand side of the identity of one auxiliary modulus:
`expr_mj - u·(m % mj) - (k_min·m) % mj - (vj + lj_min)·mj`. -/
def modId (m kMin mj ljMin exprMj u vj : Int) : Int :=
  exprMj - u * urem m mj - urem (kMin * m) mj - (vj + ljMin) * mj

/-- Left-hand side of the native identity: `expr - (u + k_min)·m`. -/
def nativeId (m kMin expr u : Int) : Int := expr - (u + kMin) * m

/-- All auxiliary-modulus identities vanish modulo `p`: the `moduli.zip(vs).zip(vs_bounds)` of
`configure` (`vs` has exactly `vs_bounds.len()` cells). `exprOf mj` is the gate expression with
coefficients reduced modulo `mj`. -/
def modIdsHold (p m kMin u : Int) (exprOf : Int → Int) :
    List Int → List (Int × Int) → List Int → Bool
  | mj :: ms, vb :: vsb, vj :: vjs =>
    decide (modId m kMin mj vb.1 (exprOf mj) u vj % p = 0) && modIdsHold p m kMin u exprOf ms vsb vjs
  | _, [], _ => true
  | _, _ :: _, _ => false

/-- `compute_vj` for every auxiliary modulus in use. -/
def computeVjs (m kMin u : Int) (exprOf : Int → Int) : List Int → List (Int × Int) → List Int
  | mj :: ms, vb :: vsb => computeVj m mj (exprOf mj) u kMin vb.1 :: computeVjs m kMin u exprOf ms vsb
  | _, _ => []

/-- Range checks on the auxiliary cells: `vj ∈ [0, vj_max)`. -/
def vjsInRange : List (Int × Int) → List Int → Bool
  | vb :: vsb, vj :: vjs => decide (0 ≤ vj) && decide (vj < vb.2) && vjsInRange vsb vjs
  | [], _ => true
  | _ :: _, [] => false

namespace Params

/-- Gate expression of the multiplication gate reduced modulo `mj`. -/
def mulExprMod (P : Params) (xs ys zs : List Int) (mj : Int) : Int :=
  mulExpr (P.basePowers.map (· % mj)) (P.doubleBasePowers.map (· % mj)) xs ys zs

/-- Gate "Foreign-field multiplication" (`MulConfig::configure`): every identity vanishes in
the native field, on the row `| xs | zs |` / `| ys | u vs |`. -/
def mulGateHolds (P : Params) (b : AuxBounds) (xs ys zs : List Int) (u : Int) (vjs : List Int) : Bool :=
  decide (nativeId P.m b.kMin (mulExpr P.basePowers P.doubleBasePowers xs ys zs) u % P.p = 0)
    && modIdsHold P.p P.m b.kMin u (P.mulExprMod xs ys zs) P.moduli b.vs vjs

/-- The witness of `assert_mul`: `(u, vs)`. -/
def mulWitness (P : Params) (b : AuxBounds) (xs ys zs : List Int) : Int × List Int :=
  let u := computeU P.m (mulExpr P.basePowers P.doubleBasePowers xs ys zs) b.kMin
  (u, computeVjs P.m b.kMin u (P.mulExprMod xs ys zs) P.moduli b.vs)

/-- Gate expression of the normalization gate reduced modulo `mj`. -/
def normExprMod (P : Params) (xs zs : List Int) (mj : Int) : Int :=
  normExpr (P.basePowers.map (· % mj)) P.maxLimbBound xs zs (urem P.normSumShifts mj)

/-- Gate "Foreign-field normalization" (`NormConfig::configure`) on the row `| xs | zs |` /
`| | u vs |`. -/
def normGateHolds (P : Params) (b : AuxBounds) (xs zs : List Int) (u : Int) (vjs : List Int) : Bool :=
  decide (nativeId P.m b.kMin (normExpr P.basePowers P.maxLimbBound xs zs P.normSumShifts) u % P.p = 0)
    && modIdsHold P.p P.m b.kMin u (P.normExprMod xs zs) P.moduli b.vs vjs

/-- The witness of `norm::normalize`: the output limbs `zs` (canonical: the residue in
`[0, m)` of `Σ bp_i·x_i`, i.e. of the represented integer minus one), `u` and `vs`. -/
def normWitness (P : Params) (b : AuxBounds) (xs : List Int) : List Int × Int × List Int :=
  let lim := P.maxLimbBound
  let sumShiftedX := sumProd P.basePowers (xs.map (· + lim))
  let zv := urem (sumShiftedX - P.normSumShifts) P.m
  let zs := (toLimbs P.log2Base P.nbLimbs zv).1
  let u := computeU P.m (normExpr P.basePowers lim xs zs P.normSumShifts) b.kMin
  (zs, u, computeVjs P.m b.kMin u (P.normExprMod xs zs) P.moduli b.vs)

/-- Upper bounds `2^k` of well-formed limbs. -/
def wellFormedOk (P : Params) (zs : List Int) : Bool :=
  match P.wellFormedLog2Bounds with
  | none => false
  | some bs => zs.length == bs.length &&
      (zs.zip bs).all (fun zb => decide (0 ≤ zb.1) && decide (zb.1 < (2 : Int) ^ zb.2))

end Params

end MidnightZK.C05
