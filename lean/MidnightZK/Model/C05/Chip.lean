import MidnightZK.Model.ModArith
import MidnightZK.Model.C05.Gate
/-!
# C05 — the operations of the foreign-field chip at the level of limb vectors

Executable model (core Lean only) of `circuits/src/field/foreign/field_chip.rs`: every public
operation of `FieldChip` as a function on limb vectors (integers the cells stand for) with the
tracked limb bounds, including the lazy-normalisation decisions, plus an interpreter of small
programs (the same text the harness runs through the real chip).

A value of type `FVar` is an `AssignedField`: `limbs` (what `bigint_limbs()` returns for the honest
witness), `bounds` (`limb_bounds`), and `fixedOf = some k` when the limb cells are exactly those
created by `assign_fixed(k)` (the chip's shortcuts `x == &zero`, `x == &one` compare cells).
-/
namespace MidnightZK.C05

/-- Name of a cell as far as the foreign chip's own regions are concerned: `a r i` limb `i` of the
`r`-th group of freshly assigned range-checked limbs (`assign`, `assign_mul`), `n r i` output limb
`i` of the `r`-th "Foreign norm" region, `k v` a fixed cell holding `v`, `l terms c` the result
cell of a single-row native `linear_combination(terms, c)` (the lazy `add` / `sub` / `neg` /
`mul_by_constant` and `assigned_field_from_limb` compute every limb that way): the coefficient and
the name (at depth 0: creation-site names, `o` for anything computed) of the cell wired into every
term slot, and the constant — read back from the defining row of the real synthesis; `o` any other
cell (computed by another native instruction). -/
inductive CellName where
  | a (r i : Nat)
  | n (r i : Nat)
  | k (v : Int)
  | l (terms : List (Int × String)) (c : Int)
  | o
  deriving Repr, DecidableEq

def CellName.fmt : CellName → String
  | .a r i => s!"a{r}.{i}"
  | .n r i => s!"n{r}.{i}"
  | .k v => s!"K{v}"
  | .l ts c =>
    -- the order of the terms of a linear combination is immaterial: printed sorted
    "L(" ++ "+".intercalate ((ts.map (fun t => s!"{t.1}*{t.2}")).mergeSort (fun a b => a ≤ b)) ++ s!";{c})"
  | .o => "o"

/-- Name of a cell when it appears as an operand of a native row (depth 0). -/
def CellName.inner : CellName → String
  | .l _ _ => "o"
  | c => c.fmt

/-- The result cell of `native_gadget.linear_combination(terms, c)` (all coefficients non-zero,
at most 4 terms: one row of the arithmetic chip). -/
def CellName.lc (terms : List (Int × CellName)) (c : Int) : CellName :=
  .l (terms.map (fun t => (t.1, t.2.inner))) c

/-- Cells whose equality / exposure / decomposition events are reported: creation-site names. -/
def CellName.isSite : CellName → Bool
  | .a _ _ => true
  | .n _ _ => true
  | .k _ => true
  | _ => false

/-- What the foreign chip emits besides native arithmetic (the trace the harness reads back from
the real synthesis: regions by name, copy constraints, and the bit length of every range check as
logged at the real decomposition chip). -/
inductive Ev where
  /-- `n` fresh limbs, limb `i` range-checked `< 2^bits[i]` (`assign_lower_than_fixed`) -/
  | asg (r : Nat) (bits : List Nat)
  /-- region "Foreign norm": copied-in input limbs, range checks of the output limbs, of `u`, of
  every `vj` (`assert_lower_than_fixed` after the region) -/
  | norm (r : Nat) (x : List CellName) (zBits : List Nat) (uBits : Nat) (vBits : List Nat)
  /-- region "Foreign multiplication": copied-in `x`, `y`, `z`, range checks of `u`, `vj` -/
  | mul (r : Nat) (x y z : List CellName) (uBits : Nat) (vBits : List Nat)
  /-- native equality constraints between named cells (`assert_equal`, `assert_equal_to_fixed`) -/
  | eq (pairs : List (CellName × CellName))
  /-- named cells bound to the instance column -/
  | pub (cells : List CellName)
  /-- native decompositions `(cell, bit length, limb size)` of named cells -/
  | dec (items : List (CellName × Nat × Nat))
  deriving Repr

def fmtNames (l : List CellName) : String := ",".intercalate (l.map CellName.fmt)
def fmtNats (l : List Nat) : String := if l.isEmpty then "-" else ",".intercalate (l.map toString)

def Ev.fmt : Ev → String
  | .asg r bits => s!"A{r}[{fmtNats bits}]"
  | .norm r x z u v => s!"N{r}[x:{fmtNames x};z:{fmtNats z};u:{u};v:{fmtNats v}]"
  | .mul r x y z u v => s!"M{r}[x:{fmtNames x};y:{fmtNames y};z:{fmtNames z};u:{u};v:{fmtNats v}]"
  | .eq ps =>
    let one (p : CellName × CellName) : String :=
      let a := p.1.fmt
      let b := p.2.fmt
      if a ≤ b then s!"{a}={b}" else s!"{b}={a}"
    "E[" ++ ",".intercalate ((ps.filter (fun p => p.1.isSite && p.2.isSite)).map one) ++ "]"
  | .pub cs => s!"P[{fmtNames cs}]"
  | .dec items => "D[" ++ ",".intercalate (items.map (fun t => s!"{t.1.fmt}:{t.2.1}/{t.2.2}")) ++ "]"

structure FVar where
  limbs : List Int
  bounds : List (Int × Int)
  fixedOf : Option Int
  /-- names of the limb cells -/
  src : List CellName := []
  deriving Repr

/-- Counters of assign groups / norm regions / mul regions, and the events of the current
operation. -/
structure TSt where
  nA : Nat := 0
  nN : Nat := 0
  nM : Nat := 0
  ev : Array Ev := #[]

inductive Val where
  | fe (x : FVar)
  | bit (b : Bool)
  | bits (l : List Bool)
  | bytes (l : List Nat)
  | nats (l : List Int)
  | unit
  deriving Repr

/-- Why a synthesis stops: an `Err` returned by an instruction (`E`), or a panic (`P`). -/
inductive Stop where
  | err
  | panic
  deriving Repr

/-- Synthesis monad of the model: the trace state over "stops". -/
abbrev M := StateT TSt (Except Stop)

def emit (e : Ev) : M Unit := modify (fun s => { s with ev := s.ev.push e })

/-- Configuration of the chip for one parameter set (what `FieldChip::configure` computes). -/
structure ChipCfg where
  P : Params
  /-- `MulConfig::bounds` -/
  mulB : AuxBounds
  /-- `NormConfig::bounds` -/
  normB : AuxBounds
  /-- `well_formed_log2_bounds` -/
  wfLog2 : List Nat

def ChipCfg.ofParams (P : Params) : Option ChipCfg :=
  match P.mulBounds, P.normBounds, P.wellFormedLog2Bounds with
  | .ok mb, .ok nb, some wf => some ⟨P, mb, nb, wf⟩
  | _, _, _ => none

namespace ChipCfg

def L (c : ChipCfg) : Nat := c.P.log2Base
def n (c : ChipCfg) : Nat := c.P.nbLimbs
def m (c : ChipCfg) : Int := c.P.m
/-- `K::NUM_BITS`. -/
def numBits (c : ChipCfg) : Nat := bitsNat c.P.m.natAbs

/-- `well_formed_bounds`. -/
def wfBounds (c : ChipCfg) : List (Int × Int) := c.wfLog2.map (fun k => (0, (2 : Int) ^ k - 1))

/-- Limbs of the emulated value `v` (canonical): `bi_to_limbs(NB_LIMBS, base, (v - 1) mod m)`. -/
def limbsOf (c : ChipCfg) (v : Int) : List Int := (toLimbs c.L c.n ((v - 1) % c.m)).1

/-- `InnerValue::value`: `1 + Σ baseⁱ·xᵢ` reduced modulo `m`. -/
def value (c : ChipCfg) (x : FVar) : Int := (1 + limbsValue c.L x.limbs) % c.m

/-- Bit length enforced on the quotient cell `u`: `assert_lower_than_fixed(u, u_max)` with
`u_max` a power of two ends in `assert_less_than_pow2(u, log2 u_max)`. -/
def uBits (b : AuxBounds) : Nat := Nat.log2 b.uMax.toNat

/-- Bit lengths enforced on the cells `vj`. -/
def vBits (b : AuxBounds) : List Nat := b.vs.map (fun vb => Nat.log2 vb.2.toNat)

/-- A fresh group of `n` limbs, limb `i` assigned by `assign_lower_than_fixed(·, 2^wf[i])`
(`assign`, and the result of `assign_mul`). -/
def freshLimbs (c : ChipCfg) (v : Int) : M FVar := do
  let st ← get
  let r := st.nA
  set { st with nA := r + 1, ev := st.ev.push (.asg r c.wfLog2) }
  pure ⟨c.limbsOf v, c.wfBounds, none, (List.range c.n).map (CellName.a r)⟩

/-- `AssignmentInstructions::assign`. -/
def assign (c : ChipCfg) (v : Int) : M FVar := c.freshLimbs v

/-- `AssignmentInstructions::assign_fixed`: cached fixed cells, no range check. -/
def assignFixed (c : ChipCfg) (v : Int) : FVar :=
  ⟨c.limbsOf v, c.wfBounds, some (v % c.m), (c.limbsOf v).map CellName.k⟩

/-- `assign_as_public_input`: `assign_many` (no range checks) then exposure. -/
def assignPublic (c : ChipCfg) (v : Int) : M FVar := do
  let x : FVar := ⟨c.limbsOf v, c.wfBounds, none, List.replicate c.n .o⟩
  emit (.pub x.src)
  pure x

/-- `AssignedField::is_well_formed`. -/
def isWellFormed (c : ChipCfg) (x : FVar) : Bool :=
  (x.bounds.zip c.wfLog2).all (fun bk => decide (0 ≤ bk.1.1) && decide (bitsNat bk.1.2.natAbs ≤ bk.2))

/-- `make_canonical`: panics when a tracked bound exceeds `max_limb_bound`; otherwise the
normalization gate's witness (`norm::normalize`). -/
def canonGuard (c : ChipCfg) (x : FVar) : Bool :=
  let lim := c.P.maxLimbBound
  !(x.bounds.any (fun b => decide (b.1 < -lim) || decide (b.2 > lim)))

/-- The event of `norm::normalize` on input `x` as the `r`-th norm region: input limbs copied in,
output limbs range-checked against the well-formed widths, `u < u_max`, `vj < vj_max`. -/
def normEvent (c : ChipCfg) (r : Nat) (x : FVar) : Ev :=
  .norm r x.src c.wfLog2 (uBits c.normB) (vBits c.normB)

def makeCanonical (c : ChipCfg) (x : FVar) : M FVar := do
  if !c.canonGuard x then throw .panic
  let st ← get
  let r := st.nN
  set { st with nN := r + 1, ev := st.ev.push (c.normEvent r x) }
  pure ⟨(c.P.normWitness c.normB x.limbs).1, c.wfBounds, none, (List.range c.n).map (CellName.n r)⟩

/-- `normalize`. -/
def normalize (c : ChipCfg) (x : FVar) : M FVar :=
  if c.isWellFormed x then pure x else c.makeCanonical x

/-- `normalize_if_approaching_limit` (threshold `max_limb_bound / 10`). -/
def normalizeIfApproaching (c : ChipCfg) (x : FVar) : M FVar :=
  let thr := c.P.maxLimbBound / 10
  if x.bounds.any (fun b => decide (b.1 < -thr) || decide (b.2 > thr)) then c.makeCanonical x
  else pure x

/-- Cells computed by a native instruction. -/
def others (c : ChipCfg) : List CellName := List.replicate c.n .o

/-- The per-limb constants `[k, 0, …, 0]`. -/
def lsConst (c : ChipCfg) (k : Int) : List Int := k :: List.replicate (c.n - 1) 0

def zip3 (xs ys cs : List Int) (f : Int → Int → Int → Int) : List Int :=
  ((xs.zip ys).zip cs).map (fun t => f t.1.1 t.1.2 t.2)

def zipB3 (xs ys : List (Int × Int)) (cs : List Int)
    (f : Int × Int → Int × Int → Int → Int × Int) : List (Int × Int) :=
  ((xs.zip ys).zip cs).map (fun t => f t.1.1 t.1.2 t.2)

/-- `ArithInstructions::add`. -/
def add (c : ChipCfg) (x y : FVar) : M FVar :=
  if x.fixedOf = some 0 then pure y
  else if y.fixedOf = some 0 then pure x
  else
    let cs := c.lsConst 1
    -- limb i: native `linear_combination([(1, xᵢ), (1, yᵢ)], cᵢ)`
    c.normalizeIfApproaching
      ⟨zip3 x.limbs y.limbs cs (fun a b k => a + b + k),
       zipB3 x.bounds y.bounds cs (fun a b k => (a.1 + b.1 + k, a.2 + b.2 + k)), none,
       ((x.src.zip y.src).zip cs).map (fun t => CellName.lc [(1, t.1.1), (1, t.1.2)] t.2)⟩

/-- `ArithInstructions::sub`. -/
def sub (c : ChipCfg) (x y : FVar) : M FVar :=
  if y.fixedOf = some 0 then pure x
  else
    let cs := c.lsConst (-1)
    -- limb i: native `linear_combination([(1, xᵢ), (-1, yᵢ)], cᵢ)`
    c.normalizeIfApproaching
      ⟨zip3 x.limbs y.limbs cs (fun a b k => a - b + k),
       zipB3 x.bounds y.bounds cs (fun a b k => (a.1 - b.2 + k, a.2 - b.1 + k)), none,
       ((x.src.zip y.src).zip cs).map (fun t => CellName.lc [(1, t.1.1), (-1, t.1.2)] t.2)⟩

/-- `ArithInstructions::neg`. -/
def neg (c : ChipCfg) (x : FVar) : M FVar :=
  if x.fixedOf = some 0 then pure (c.assignFixed 0)
  else
    let cs := c.lsConst (-2)
    -- limb i: native `linear_combination([(-1, xᵢ)], cᵢ)`
    c.normalizeIfApproaching
      ⟨(x.limbs.zip cs).map (fun t => -t.1 + t.2),
       (x.bounds.zip cs).map (fun t => (-t.1.2 + t.2, -t.1.1 + t.2)), none,
       (x.src.zip cs).map (fun t => CellName.lc [(-1, t.1)] t.2)⟩

/-- `native_chip.rs: const NB_PARALLEL_ADD_COLS` (a wrong value changes `fpt` lines of `addc` /
bit conversions with three or more non-zero constant limbs). -/
def nbParallelAddCols : Nat := 3

/-- `add_constant`. -/
def addConstant (c : ChipCfg) (x : FVar) (k : Int) : M FVar :=
  let k := k % c.m
  if k = 0 then pure x
  else
    let ks := (toLimbs c.L c.n k).1
    -- native `add_constants`: the input cell itself where the constant limb is zero; the limbs
    -- with a non-zero constant are processed in order, in chunks of `NB_PARALLEL_ADD_COLS = 3` by
    -- one "add_constants" row each (cells `o`), the remaining (< 3) ones by `add_constant` =
    -- `linear_combination([(1, xᵢ)], kᵢ)`
    let nz := (ks.filter (· ≠ 0)).length
    let inRows := nz / nbParallelAddCols * nbParallelAddCols
    let names := Id.run do
      let mut out : List CellName := []
      let mut j := 0
      for t in x.src.zip ks do
        if t.2 = 0 then out := out ++ [t.1]
        else
          out := out ++ [if j < inRows then CellName.o else CellName.lc [(1, t.1)] t.2]
          j := j + 1
      return out
    c.normalizeIfApproaching
      ⟨(x.limbs.zip ks).map (fun t => t.1 + t.2),
       (x.bounds.zip ks).map (fun t => (t.1.1 + t.2, t.1.2 + t.2)), none, names⟩

/-- Modular inverse in the emulated (prime) field. -/
def inv (c : ChipCfg) (v : Int) : Int := (invMod (v % c.m).toNat c.m.toNat : Nat)

/-- The event of `mul::assert_mul(l, y, rr)` (`l·y = rr`) as the `r`-th multiplication region. -/
def mulEvent (c : ChipCfg) (r : Nat) (l y rr : FVar) : Ev :=
  .mul r l.src y.src rr.src (uBits c.mulB) (vBits c.mulB)

/-- `assign_mul`: the product (or quotient) as a fresh well-formed element; `Err` on a division
by zero (`error_if_known_and`). -/
def assignMul (c : ChipCfg) (x y : FVar) (division : Bool) : M FVar := do
  let x ← c.normalize x
  let y ← c.normalize y
  let xv := c.value x
  let yv := c.value y
  if division && yv == 0 then throw .err
  else
    let zv := if division then (xv * c.inv yv) % c.m else (xv * yv) % c.m
    let z ← c.freshLimbs zv
    let st ← get
    let r := st.nM
    let e := if division then c.mulEvent r z y x else c.mulEvent r x y z
    set { st with nM := r + 1, ev := st.ev.push e }
    pure z

/-- `mul_by_constant`. -/
def mulByConstant (c : ChipCfg) (x : FVar) (k : Int) : M FVar :=
  let k := k % c.m
  if k = 0 then pure (c.assignFixed 0)
  else if k = 1 then pure x
  else
    let lim := c.P.maxLimbBound
    let thr := lim / (1000 * c.P.base)
    if k > thr then c.assignMul x (c.assignFixed k) false
    else do
      let x ← if x.bounds.any (fun b => decide (b.1 * k < -lim) || decide (b.2 * k + k > lim))
        then c.normalize x else pure x
      let cs := c.lsConst (k - 1)
      -- limb i: native `linear_combination([(k, xᵢ)], cᵢ)`
      c.normalizeIfApproaching
        ⟨(x.limbs.zip cs).map (fun t => k * t.1 + t.2),
         (x.bounds.zip cs).map (fun t => (t.1.1 * k + t.2, t.1.2 * k + t.2)), none,
         (x.src.zip cs).map (fun t => CellName.lc [(k, t.1)] t.2)⟩

/-- `ArithInstructions::mul`. -/
def mul (c : ChipCfg) (x y : FVar) (k : Option Int) : M FVar :=
  if x.fixedOf = some 0 ∨ y.fixedOf = some 0 then pure (c.assignFixed 0)
  else if x.fixedOf = some 1 then
    match k with
    | none => pure y
    | some k => c.mulByConstant y k
  else if y.fixedOf = some 1 then
    match k with
    | none => pure x
    | some k => c.mulByConstant x k
  else do
    let y ← match k with
      | none => pure y
      | some k => c.mulByConstant y k
    c.assignMul x y false

/-- `limbs_of_zero`. -/
def limbsOfZero (c : ChipCfg) : List Int := (toLimbs c.L c.n (c.m - 1)).1

/-- `ZeroInstructions::is_zero`: normalise, compare with the limbs of zero. -/
def isZero (c : ChipCfg) (x : FVar) : M Bool := do
  let x ← c.normalize x
  pure (x.limbs == c.limbsOfZero)

/-- `ControlFlowInstructions::select`. -/
def select (b : Bool) (x y : FVar) : FVar :=
  ⟨if b then x.limbs else y.limbs,
   (x.bounds.zip y.bounds).map (fun t => (min t.1.1 t.2.1, max t.1.2 t.2.2)), none,
   x.src.map (fun _ => .o)⟩

/-- `assigned_field_from_limb`. -/
def fromLimb (c : ChipCfg) (v : Int) : FVar :=
  let wf := c.wfBounds
  let b0 := match wf with
    | b :: _ => (b.1 - 1, b.2 - 1)
    | [] => (0, 0)
  -- least significant limb: native `add_constant(limb, -1)` = `linear_combination([(1, limb)], -1)`
  ⟨(v - 1) :: List.replicate (c.n - 1) 0, b0 :: wf.drop 1, none,
   CellName.lc [(1, .o)] (-1) :: List.replicate (c.n - 1) (.k 0)⟩

/-- `linear_combination`. -/
def linearCombination (c : ChipCfg) (terms : List (Int × FVar)) (k : Int) : M FVar := do
  let mut acc := c.assignFixed k
  for t in terms do
    let prod ← c.mulByConstant t.2 t.1
    acc ← c.add acc prod
  c.normalizeIfApproaching acc

/-- `n` little-endian bits of a non-negative integer, and whether it fits. -/
def toBits : Nat → Int → List Bool × Bool
  | 0, v => ([], v == 0)
  | k + 1, v =>
    let r := toBits k (v / 2)
    ((v % 2 == 1) :: r.1, r.2)

def bitsValue : List Bool → Int
  | [] => 0
  | b :: t => (if b then 1 else 0) + 2 * bitsValue t

/-- `assigned_to_le_bits`: the bits, whether the honest witness satisfies the constraints, or a
stop. -/
def toLeBits (c : ChipCfg) (x : FVar) (nbBits : Option Nat) (canonical : Bool) :
    M (List Bool × Bool) := do
  let x1 ← c.addConstant x 1
  let x2 ← if canonical then c.makeCanonical x1 else c.normalize x1
  -- native `assigned_to_le_bits(limb, Some(wf), true)` = `decompose_fixed_limb_size(limb, wf, 1)`
  let items := ((x2.src.zip c.wfLog2).filter (fun t => t.1 ≠ .o)).map (fun t => (t.1, t.2, 1))
  if !items.isEmpty then emit (.dec items)
  -- each limb is decomposed against its well-formed width (a limb that does not fit makes the
  -- native decomposition panic during witness generation)
  let parts := (x2.limbs.zip c.wfLog2).map (fun t => toBits t.2 t.1)
  if parts.any (fun p => !p.2) then throw .panic
  else
    let bits := parts.flatMap (·.1)
    let nb := nbBits.getD c.numBits
    let bits := if nb > bits.length then bits ++ List.replicate (nb - bits.length) false else bits
    let dropped := bits.drop nb
    let kept := bits.take nb
    let ok1 := dropped.all (fun b => !b)
    let ok2 := if canonical && decide (nb ≥ c.numBits) then decide (bitsValue (kept.take c.numBits) < c.m) else true
    pure (kept, ok1 && ok2)

def bitsToByte (l : List Bool) : Nat := (bitsValue l).toNat

def chunksOf {α : Type} : Nat → Nat → List α → List (List α)
  | 0, _, _ => []
  | fuel + 1, k, l => if l.isEmpty ∨ k = 0 then [] else l.take k :: chunksOf fuel k (l.drop k)

/-- `assigned_to_le_chunks`. -/
def toLeChunks (c : ChipCfg) (x : FVar) (w : Nat) (nbChunks : Option Nat) :
    M (List Int × Bool) := do
  if w = 0 then throw .panic
  else if c.L % w = 0 then
    let perLimb := c.L / w
    let x1 ← c.addConstant x 1
    let x2 ← c.normalize x1
    let mut missing := nbChunks.getD (perLimb * c.n)
    let mut out : List Int := []
    let mut items : List (CellName × Nat × Nat) := []
    for (limb, nm) in x2.limbs.zip x2.src do
      let cnt := min missing perLimb
      missing := missing - cnt
      if nm ≠ .o then items := items ++ [(nm, w * cnt, w)]
      -- native `assigned_to_le_chunks(limb, w, Some(cnt))`
      let mut v := limb
      let mut cs : List Int := []
      for _ in [0:cnt] do
        cs := cs ++ [v % (2 : Int) ^ w]
        v := v / (2 : Int) ^ w
      if v ≠ 0 then
        if !items.isEmpty then emit (.dec items)
        throw .panic
      out := out ++ cs
    if !items.isEmpty then emit (.dec items)
    -- more chunks requested than the limbs hold: padded with (constant) zeros
    pure (out ++ List.replicate missing 0, true)
  else
    let (bits, ok) ← c.toLeBits x (nbChunks.map (· * w)) false
    pure ((chunksOf (bits.length + 1) w bits).map bitsValue, ok)

end ChipCfg

/-! ## Programs -/

structure PSt where
  vals : Array Val := #[]
  /-- the honest witness satisfies every constraint emitted so far -/
  sat : Bool := true
  outs : Array String := #[]

def fmtFVar (x : FVar) : String :=
  let ls := ",".intercalate (x.limbs.map toString)
  let bs := ",".intercalate (x.bounds.map (fun b => s!"{b.1}:{b.2}"))
  s!"F<{if x.limbs.isEmpty then "-" else ls};{bs}>"

def fmtVal : Val → String
  | .fe x => fmtFVar x
  | .bit b => if b then "b1" else "b0"
  | .bits l => "B<" ++ String.ofList (l.map (fun b => if b then '1' else '0')) ++ ">"
  | .bytes l => "Y<" ++ (if l.isEmpty then "-" else ",".intercalate (l.map toString)) ++ ">"
  | .nats l => "N<" ++ (if l.isEmpty then "-" else ",".intercalate (l.map toString)) ++ ">"
  | .unit => "U"

end MidnightZK.C05
