import MidnightZK.Model.ModArith
import MidnightZK.Model.C05.Gate
/-!
# C05 — the operations of the foreign-field chip at the level of limb vectors

Executable model (core Lean only) of `circuits/src/field/foreign/field_chip.rs`: every public
operation of `FieldChip` as a function on limb vectors (integers the cells stand for) with the
tracked limb bounds, including the lazy-normalisation decisions, plus an interpreter of small
programs (the same text the harness runs through the real chip).

A value of type `FVar` is an `AssignedField`: `limbs` (what `bigint_limbs()` returns for the honest
witness), `bounds` (`limb_bounds`), and `fixedOf = some k` when the limb cells are exactly those
created by `assign_fixed(k)` (the chip's shortcuts `x == &zero`, `x == &one` compare cells).
-/
namespace MidnightZK.C05

structure FVar where
  limbs : List Int
  bounds : List (Int × Int)
  fixedOf : Option Int
  deriving Repr

inductive Val where
  | fe (x : FVar)
  | bit (b : Bool)
  | bits (l : List Bool)
  | bytes (l : List Nat)
  | nats (l : List Int)
  | unit
  deriving Repr

/-- Why a synthesis stops: an `Err` returned by an instruction (`E`), or a panic (`P`). -/
inductive Stop where
  | err
  | panic
  deriving Repr

/-- Configuration of the chip for one parameter set (what `FieldChip::configure` computes). -/
structure ChipCfg where
  P : Params
  normB : AuxBounds
  wfLog2 : List Nat

def ChipCfg.ofParams (P : Params) : Option ChipCfg :=
  match P.normBounds, P.wellFormedLog2Bounds with
  | .ok nb, some wf => some ⟨P, nb, wf⟩
  | _, _ => none

namespace ChipCfg

def L (c : ChipCfg) : Nat := c.P.log2Base
def n (c : ChipCfg) : Nat := c.P.nbLimbs
def m (c : ChipCfg) : Int := c.P.m
/-- `K::NUM_BITS`. -/
def numBits (c : ChipCfg) : Nat := bitsNat c.P.m.natAbs

/-- `well_formed_bounds`. -/
def wfBounds (c : ChipCfg) : List (Int × Int) := c.wfLog2.map (fun k => (0, (2 : Int) ^ k - 1))

/-- Limbs of the emulated value `v` (canonical): `bi_to_limbs(NB_LIMBS, base, (v - 1) mod m)`. -/
def limbsOf (c : ChipCfg) (v : Int) : List Int := (toLimbs c.L c.n ((v - 1) % c.m)).1

/-- `InnerValue::value`: `1 + Σ baseⁱ·xᵢ` reduced modulo `m`. -/
def value (c : ChipCfg) (x : FVar) : Int := (1 + limbsValue c.L x.limbs) % c.m

/-- `AssignmentInstructions::assign`. -/
def assign (c : ChipCfg) (v : Int) : FVar := ⟨c.limbsOf v, c.wfBounds, none⟩

/-- `AssignmentInstructions::assign_fixed`. -/
def assignFixed (c : ChipCfg) (v : Int) : FVar := ⟨c.limbsOf v, c.wfBounds, some (v % c.m)⟩

/-- `AssignedField::is_well_formed`. -/
def isWellFormed (c : ChipCfg) (x : FVar) : Bool :=
  (x.bounds.zip c.wfLog2).all (fun bk => decide (0 ≤ bk.1.1) && decide (bitsNat bk.1.2.natAbs ≤ bk.2))

/-- `make_canonical`: panics when a tracked bound exceeds `max_limb_bound`; otherwise the
normalization gate's witness (`norm::normalize`). -/
def makeCanonical (c : ChipCfg) (x : FVar) : Except Stop FVar :=
  let lim := c.P.maxLimbBound
  if x.bounds.any (fun b => decide (b.1 < -lim) || decide (b.2 > lim)) then .error .panic
  else .ok ⟨(c.P.normWitness c.normB x.limbs).1, c.wfBounds, none⟩

/-- `normalize`. -/
def normalize (c : ChipCfg) (x : FVar) : Except Stop FVar :=
  if c.isWellFormed x then .ok x else c.makeCanonical x

/-- `normalize_if_approaching_limit` (threshold `max_limb_bound / 10`). -/
def normalizeIfApproaching (c : ChipCfg) (x : FVar) : Except Stop FVar :=
  let thr := c.P.maxLimbBound / 10
  if x.bounds.any (fun b => decide (b.1 < -thr) || decide (b.2 > thr)) then c.makeCanonical x
  else .ok x

/-- The per-limb constants `[k, 0, …, 0]`. -/
def lsConst (c : ChipCfg) (k : Int) : List Int := k :: List.replicate (c.n - 1) 0

def zip3 (xs ys cs : List Int) (f : Int → Int → Int → Int) : List Int :=
  ((xs.zip ys).zip cs).map (fun t => f t.1.1 t.1.2 t.2)

def zipB3 (xs ys : List (Int × Int)) (cs : List Int)
    (f : Int × Int → Int × Int → Int → Int × Int) : List (Int × Int) :=
  ((xs.zip ys).zip cs).map (fun t => f t.1.1 t.1.2 t.2)

/-- `ArithInstructions::add`. -/
def add (c : ChipCfg) (x y : FVar) : Except Stop FVar :=
  if x.fixedOf = some 0 then .ok y
  else if y.fixedOf = some 0 then .ok x
  else
    let cs := c.lsConst 1
    c.normalizeIfApproaching
      ⟨zip3 x.limbs y.limbs cs (fun a b k => a + b + k),
       zipB3 x.bounds y.bounds cs (fun a b k => (a.1 + b.1 + k, a.2 + b.2 + k)), none⟩

/-- `ArithInstructions::sub`. -/
def sub (c : ChipCfg) (x y : FVar) : Except Stop FVar :=
  if y.fixedOf = some 0 then .ok x
  else
    let cs := c.lsConst (-1)
    c.normalizeIfApproaching
      ⟨zip3 x.limbs y.limbs cs (fun a b k => a - b + k),
       zipB3 x.bounds y.bounds cs (fun a b k => (a.1 - b.2 + k, a.2 - b.1 + k)), none⟩

/-- `ArithInstructions::neg`. -/
def neg (c : ChipCfg) (x : FVar) : Except Stop FVar :=
  if x.fixedOf = some 0 then .ok (c.assignFixed 0)
  else
    let cs := c.lsConst (-2)
    c.normalizeIfApproaching
      ⟨(x.limbs.zip cs).map (fun t => -t.1 + t.2),
       (x.bounds.zip cs).map (fun t => (-t.1.2 + t.2, -t.1.1 + t.2)), none⟩

/-- `add_constant`. -/
def addConstant (c : ChipCfg) (x : FVar) (k : Int) : Except Stop FVar :=
  let k := k % c.m
  if k = 0 then .ok x
  else
    let ks := (toLimbs c.L c.n k).1
    c.normalizeIfApproaching
      ⟨(x.limbs.zip ks).map (fun t => t.1 + t.2),
       (x.bounds.zip ks).map (fun t => (t.1.1 + t.2, t.1.2 + t.2)), none⟩

/-- Modular inverse in the emulated (prime) field. -/
def inv (c : ChipCfg) (v : Int) : Int := (invMod (v % c.m).toNat c.m.toNat : Nat)

/-- `assign_mul`: the product (or quotient) as a fresh well-formed element; `Err` on a division
by zero (`error_if_known_and`). -/
def assignMul (c : ChipCfg) (x y : FVar) (division : Bool) : Except Stop FVar := do
  let x ← c.normalize x
  let y ← c.normalize y
  let xv := c.value x
  let yv := c.value y
  if division && yv == 0 then .error .err
  else
    let zv := if division then (xv * c.inv yv) % c.m else (xv * yv) % c.m
    .ok ⟨c.limbsOf zv, c.wfBounds, none⟩

/-- `mul_by_constant`. -/
def mulByConstant (c : ChipCfg) (x : FVar) (k : Int) : Except Stop FVar :=
  let k := k % c.m
  if k = 0 then .ok (c.assignFixed 0)
  else if k = 1 then .ok x
  else
    let lim := c.P.maxLimbBound
    let thr := lim / (1000 * c.P.base)
    if k > thr then c.assignMul x (c.assignFixed k) false
    else do
      let x ← if x.bounds.any (fun b => decide (b.1 * k < -lim) || decide (b.2 * k + k > lim))
        then c.normalize x else .ok x
      let cs := c.lsConst (k - 1)
      c.normalizeIfApproaching
        ⟨(x.limbs.zip cs).map (fun t => k * t.1 + t.2),
         (x.bounds.zip cs).map (fun t => (t.1.1 * k + t.2, t.1.2 * k + t.2)), none⟩

/-- `ArithInstructions::mul`. -/
def mul (c : ChipCfg) (x y : FVar) (k : Option Int) : Except Stop FVar :=
  if x.fixedOf = some 0 ∨ y.fixedOf = some 0 then .ok (c.assignFixed 0)
  else if x.fixedOf = some 1 then
    match k with
    | none => .ok y
    | some k => c.mulByConstant y k
  else if y.fixedOf = some 1 then
    match k with
    | none => .ok x
    | some k => c.mulByConstant x k
  else do
    let y ← match k with
      | none => pure y
      | some k => c.mulByConstant y k
    c.assignMul x y false

/-- `limbs_of_zero`. -/
def limbsOfZero (c : ChipCfg) : List Int := (toLimbs c.L c.n (c.m - 1)).1

/-- `ZeroInstructions::is_zero`: normalise, compare with the limbs of zero. -/
def isZero (c : ChipCfg) (x : FVar) : Except Stop Bool := do
  let x ← c.normalize x
  pure (x.limbs == c.limbsOfZero)

/-- `ControlFlowInstructions::select`. -/
def select (b : Bool) (x y : FVar) : FVar :=
  ⟨if b then x.limbs else y.limbs,
   (x.bounds.zip y.bounds).map (fun t => (min t.1.1 t.2.1, max t.1.2 t.2.2)), none⟩

/-- `assigned_field_from_limb`. -/
def fromLimb (c : ChipCfg) (v : Int) : FVar :=
  let wf := c.wfBounds
  let b0 := match wf with
    | b :: _ => (b.1 - 1, b.2 - 1)
    | [] => (0, 0)
  ⟨(v - 1) :: List.replicate (c.n - 1) 0, b0 :: wf.drop 1, none⟩

/-- `linear_combination`. -/
def linearCombination (c : ChipCfg) (terms : List (Int × FVar)) (k : Int) : Except Stop FVar := do
  let mut acc := c.assignFixed k
  for t in terms do
    let prod ← c.mulByConstant t.2 t.1
    acc ← c.add acc prod
  c.normalizeIfApproaching acc

/-- `n` little-endian bits of a non-negative integer, and whether it fits. -/
def toBits : Nat → Int → List Bool × Bool
  | 0, v => ([], v == 0)
  | k + 1, v =>
    let r := toBits k (v / 2)
    ((v % 2 == 1) :: r.1, r.2)

def bitsValue : List Bool → Int
  | [] => 0
  | b :: t => (if b then 1 else 0) + 2 * bitsValue t

/-- `assigned_to_le_bits`: the bits, whether the honest witness satisfies the constraints, or a
stop. -/
def toLeBits (c : ChipCfg) (x : FVar) (nbBits : Option Nat) (canonical : Bool) :
    Except Stop (List Bool × Bool) := do
  let x1 ← c.addConstant x 1
  let x2 ← if canonical then c.makeCanonical x1 else c.normalize x1
  -- each limb is decomposed against its well-formed width (a limb that does not fit makes the
  -- native decomposition panic during witness generation)
  let parts := (x2.limbs.zip c.wfLog2).map (fun t => toBits t.2 t.1)
  if parts.any (fun p => !p.2) then .error .panic
  else
    let bits := parts.flatMap (·.1)
    let nb := nbBits.getD c.numBits
    let bits := if nb > bits.length then bits ++ List.replicate (nb - bits.length) false else bits
    let dropped := bits.drop nb
    let kept := bits.take nb
    let ok1 := dropped.all (fun b => !b)
    let ok2 := if canonical && decide (nb ≥ c.numBits) then decide (bitsValue (kept.take c.numBits) < c.m) else true
    pure (kept, ok1 && ok2)

def bitsToByte (l : List Bool) : Nat := (bitsValue l).toNat

def chunksOf {α : Type} : Nat → Nat → List α → List (List α)
  | 0, _, _ => []
  | fuel + 1, k, l => if l.isEmpty ∨ k = 0 then [] else l.take k :: chunksOf fuel k (l.drop k)

/-- `assigned_to_le_chunks`. -/
def toLeChunks (c : ChipCfg) (x : FVar) (w : Nat) (nbChunks : Option Nat) :
    Except Stop (List Int × Bool) := do
  if w = 0 then .error .panic
  else if c.L % w = 0 then
    let perLimb := c.L / w
    let x1 ← c.addConstant x 1
    let x2 ← c.normalize x1
    let mut missing := nbChunks.getD (perLimb * c.n)
    let mut out : List Int := []
    for limb in x2.limbs do
      let cnt := min missing perLimb
      missing := missing - cnt
      -- native `assigned_to_le_chunks(limb, w, Some(cnt))`
      let mut v := limb
      let mut cs : List Int := []
      for _ in [0:cnt] do
        cs := cs ++ [v % (2 : Int) ^ w]
        v := v / (2 : Int) ^ w
      if v ≠ 0 then throw .panic
      out := out ++ cs
    -- more chunks requested than the limbs hold: padded with (constant) zeros
    pure (out ++ List.replicate missing 0, true)
  else
    let (bits, ok) ← c.toLeBits x (nbChunks.map (· * w)) false
    pure ((chunksOf (bits.length + 1) w bits).map bitsValue, ok)

end ChipCfg

/-! ## Programs -/

structure PSt where
  vals : Array Val := #[]
  /-- the honest witness satisfies every constraint emitted so far -/
  sat : Bool := true
  outs : Array String := #[]

def fmtFVar (x : FVar) : String :=
  let ls := ",".intercalate (x.limbs.map toString)
  let bs := ",".intercalate (x.bounds.map (fun b => s!"{b.1}:{b.2}"))
  s!"F<{if x.limbs.isEmpty then "-" else ls};{bs}>"

def fmtVal : Val → String
  | .fe x => fmtFVar x
  | .bit b => if b then "b1" else "b0"
  | .bits l => "B<" ++ String.ofList (l.map (fun b => if b then '1' else '0')) ++ ">"
  | .bytes l => "Y<" ++ (if l.isEmpty then "-" else ",".intercalate (l.map toString)) ++ ">"
  | .nats l => "N<" ++ (if l.isEmpty then "-" else ",".intercalate (l.map toString)) ++ ">"
  | .unit => "U"

end MidnightZK.C05
