/-!
# C05 — big unsigned integers emulated over the native field

Executable model (core Lean only) of `circuits/src/biguint/types.rs` (`AssignedBigUint`,
`nb_bits`, `is_normalized`, `bound_of_addition`, `biguint_to_limbs`) and
`circuits/src/biguint/biguint_gadget.rs` (`assign_bounded`, `assign_fixed_biguint`, `add`, `sub`,
`mul`, `div_rem`, `mod_exp`, `mod_mul`, `normalize`, `div_rem_native_by_base`, `resize`, `geq`,
`lower_than`, `is_equal`, `select`, bit/byte conversions, `constrain_as_public_input`).

Limbs are natural numbers (the integers the native cells stand for; every limb is bounded by
`2^bound` with `bound < F::NUM_BITS`, so no wrap-around occurs — `normalize` panics otherwise).
`lb` is `LOG2_BASE` (96 in the repository; generated constant `Gen.bigLog2Base`).
-/
namespace MidnightZK.C05

/-- An `AssignedBigUint`: little-endian limbs and their size bounds (`limb < 2^bound`). -/
structure BVar where
  limbs : List Nat
  sb : List Nat
  deriving Repr, DecidableEq

/-- Why a BigUint synthesis stops. -/
inductive BStop where
  | err
  | panic
  deriving Repr

/-- `big_from_limbs`: `Σ limbᵢ·2^(lb·i)`. -/
def bigValue (lb : Nat) : List Nat → Nat
  | [] => 0
  | x :: xs => x + 2 ^ lb * bigValue lb xs

/-- `big_to_limbs`: `n` little-endian digits in base `2^lb` and the remaining quotient. -/
def bigToLimbs (lb : Nat) : Nat → Nat → List Nat × Nat
  | 0, v => ([], v)
  | n + 1, v =>
    let r := bigToLimbs lb n (v / 2 ^ lb)
    (v % 2 ^ lb :: r.1, r.2)

/-- `BigUint::bits`. -/
def natBits (n : Nat) : Nat := if n = 0 then 0 else n.log2 + 1

/-- `types.rs: fn bound_of_addition`. -/
def boundOfAddition (b1 b2 : Nat) : Nat :=
  if b1 = 0 then b2 else if b2 = 0 then b1 else 1 + max b1 b2

/-- The maximal value compatible with the bounds: `fold (acc << lb) + 2^bound - 1`. -/
def maxValue (lb : Nat) : List Nat → Nat
  | [] => 0
  | b :: bs => (2 ^ b - 1) + 2 ^ lb * maxValue lb bs

/-- `AssignedBigUint::nb_bits`. -/
def nbBits (lb : Nat) (sb : List Nat) : Nat := natBits (maxValue lb sb)

/-- `AssignedBigUint::is_normalized`. -/
def isNormalized (lb : Nat) (sb : List Nat) : Bool := sb.all (· ≤ lb)

namespace Big

/-- The bounds `[lb, …, lb, msl]` of `assign_bounded` / `assign_fixed_biguint`
(`(nb_bits - 1).rem(LOG2_BASE) + 1` for the most significant limb; `nb_bits - 1` underflows for
`nb_bits = 0`: a panic in the checked-arithmetic profile). -/
def boundedSb (lb nbBits : Nat) : List Nat :=
  let n := (max nbBits 1 + lb - 1) / lb
  List.replicate (n - 1) lb ++ [(nbBits - 1) % lb + 1]

/-- `assign_bounded`: a panic when the value does not fit the limbs (`big_to_limbs` panics), a
limb exceeds its bound (the range check's witness generation panics) or `nb_bits = 0`. -/
def assignBounded (lb : Nat) (v nbBits : Nat) : Except BStop (BVar × Bool) :=
  if nbBits = 0 ∨ lb = 0 then .error .panic
  else
    let sb := boundedSb lb nbBits
    let r := bigToLimbs lb sb.length v
    -- a limb beyond its bound: the witness generation of the range check panics
    if r.2 ≠ 0 ∨ !((r.1.zip sb).all (fun t => decide (t.1 < 2 ^ t.2))) then .error .panic
    else .ok (⟨r.1, sb⟩, true)

/-- `assign_fixed_biguint`. -/
def assignFixed (lb : Nat) (v : Nat) : BVar :=
  let nb := max (natBits v) 1
  let sb := boundedSb lb nb
  ⟨(bigToLimbs lb sb.length v).1, sb⟩

/-- `resize`: pad with zero limbs (bound 0); `none` when there are more limbs than `n`. -/
def resize (n : Nat) (x : BVar) : Option BVar :=
  if x.limbs.length > n then none
  else some ⟨x.limbs ++ List.replicate (n - x.limbs.length) 0, x.sb ++ List.replicate (n - x.sb.length) 0⟩

/-- The carry chain of `normalize`: `(carry, carry_bound)` through the limbs; each step is
`div_rem_native_by_base` of `payload = carry + limb`. Stops with a panic when a payload bound
reaches the native field's bit length. -/
def normChain (lb numBits : Nat) : Nat → Nat → List Nat → List Nat → Except BStop (List Nat × Nat)
  | carry, _, [], _ => .ok ([], carry)
  | carry, cb, x :: xs, sbs =>
    let b := sbs.headD 0
    let payload := carry + x
    let pb := boundOfAddition cb b
    if pb ≥ numBits then .error .panic
    else
      match normChain lb numBits (payload / 2 ^ lb) (max pb lb - lb) xs (sbs.drop 1) with
      | .error e => .error e
      | .ok (ls, c) => .ok (payload % 2 ^ lb :: ls, c)

/-- `normalize`: the normalised number and whether the final carry is zero (asserted). -/
def normalize (lb numBits : Nat) (x : BVar) : Except BStop (BVar × Bool) :=
  if isNormalized lb x.sb then .ok (x, true)
  else
    let nOut := (nbBits lb x.sb + lb - 1) / lb
    match resize nOut x with
    | none => .error .panic
    | some x =>
      match normChain lb numBits 0 0 x.limbs x.sb with
      | .error e => .error e
      | .ok (ls, c) => .ok (⟨ls, List.replicate nOut lb⟩, c == 0)

def zipAddLimbs : List Nat → List Nat → List Nat
  | x :: xs, y :: ys => (x + y) :: zipAddLimbs xs ys
  | [], ys => ys
  | xs, [] => xs

def zipAddBounds : List Nat → List Nat → List Nat
  | x :: xs, y :: ys => boundOfAddition x y :: zipAddBounds xs ys
  | [], ys => ys
  | xs, [] => xs

/-- `add`. -/
def add (lb numBits : Nat) (x y : BVar) : Except BStop (BVar × Bool) :=
  normalize lb numBits ⟨zipAddLimbs x.limbs y.limbs, zipAddBounds x.sb y.sb⟩

/-- Add `v` (with bound `b`) at position `k` of a limb/bound vector pair. -/
def addAt (k : Nat) (v b : Nat) (ls sbs : List Nat) : List Nat × List Nat :=
  (ls.set k (ls.getD k 0 + v), sbs.set k (boundOfAddition (sbs.getD k 0) b))

/-- The schoolbook products of `mul` before normalisation, limb values: limb `k` is
`Σ_{i+j=k} xᵢ·yⱼ` (row `i` is `xᵢ·y` shifted by `i` limbs). -/
def mulLimbs : List Nat → List Nat → List Nat
  | [], _ => []
  | x :: xs, ys => zipAddLimbs (ys.map (fun y => x * y)) (0 :: mulLimbs xs ys)

/-- The size bounds `mul` tracks for those products (same accumulation order as the code:
`for i { for j { bound[i+j] = bound_of_addition(bound[i+j], bx[i] + by[j]) } }`). -/
def mulBoundsLoop (xsb ysb : List Nat) : List Nat := Id.run do
  let n := xsb.length + ysb.length - 1
  let mut sbs := List.replicate n 0
  for (bx, i) in xsb.zipIdx do
    for (by', j) in ysb.zipIdx do
      sbs := sbs.set (i + j) (boundOfAddition (sbs.getD (i + j) 0) (bx + by'))
  return sbs

def mulRaw (x y : BVar) : BVar := ⟨mulLimbs x.limbs y.limbs, mulBoundsLoop x.sb y.sb⟩

/-- `mul`. -/
def mul (lb numBits : Nat) (x y : BVar) : Except BStop (BVar × Bool) := do
  let (x, ok1) ← normalize lb numBits x
  let (y, ok2) ← normalize lb numBits y
  if x.limbs.isEmpty ∨ y.limbs.isEmpty then throw .panic
  let (z, ok3) ← normalize lb numBits (mulRaw x y)
  pure (z, ok1 && ok2 && ok3)

/-- Limb-wise equality after resizing (`assert_equal` / `is_equal`); `none` = the Rust
`assert!(is_normalized())` fails. -/
def limbsEqual (lb : Nat) (x y : BVar) : Option Bool :=
  if !(isNormalized lb x.sb) ∨ !(isNormalized lb y.sb) then none
  else
    let n := max x.limbs.length y.limbs.length
    match resize n x, resize n y with
    | some x, some y => some (x.limbs == y.limbs)
    | _, _ => none

/-- `geq`: the fold from the least significant limb, `acc := xᵢ > yᵢ ∨ (xᵢ = yᵢ ∧ acc)`. -/
def geqFold : List Nat → List Nat → Bool → Bool
  | x :: xs, y :: ys, acc => geqFold xs ys (decide (x > y) || (decide (x = y) && acc))
  | _, _, acc => acc

def geq (lb : Nat) (x y : BVar) : Option Bool :=
  if !(isNormalized lb x.sb) ∨ !(isNormalized lb y.sb) then none
  else
    let n := max x.limbs.length y.limbs.length
    match resize n x, resize n y with
    | some x, some y => some (geqFold x.limbs y.limbs true)
    | _, _ => none

/-- `sub`: `res = x - y` (0 when `x < y`), `res + y` asserted equal to `x`. -/
def sub (lb numBits : Nat) (x y : BVar) : Except BStop (BVar × Bool) := do
  let xv := bigValue lb x.limbs
  let yv := bigValue lb y.limbs
  let (res, ok1) ← assignBounded lb (if xv ≥ yv then xv - yv else 0) (nbBits lb x.sb)
  let (z, ok2) ← add lb numBits res y
  match limbsEqual lb x z with
  | none => throw .panic
  | some e => pure (res, ok1 && ok2 && e)

/-- `div_rem`. -/
def divRem (lb numBits : Nat) (x y : BVar) : Except BStop (BVar × BVar × Bool) := do
  let xv := bigValue lb x.limbs
  let yv := bigValue lb y.limbs
  let (q, ok1) ← assignBounded lb (if yv = 0 then 0 else xv / yv) (nbBits lb x.sb)
  let (r, ok2) ← assignBounded lb (if yv = 0 then 0 else xv % yv) (nbBits lb y.sb)
  let (qy, ok3) ← mul lb numBits q y
  let (qyr, ok4) ← add lb numBits qy r
  let e ← match limbsEqual lb x qyr with
    | none => throw .panic
    | some e => pure e
  let lt ← match geq lb r y with
    | none => throw .panic
    | some g => pure (!g)
  pure (q, r, ok1 && ok2 && ok3 && ok4 && e && lt)

/-- `mod_mul`. -/
def modMul (lb numBits : Nat) (x y m : BVar) : Except BStop (BVar × Bool) := do
  let (p, ok1) ← mul lb numBits x y
  let (_, r, ok2) ← divRem lb numBits p m
  pure (r, ok1 && ok2)

/-- The square-and-multiply loop of `mod_exp` (fuel = number of bits of the exponent). -/
def modExpLoop (lb numBits : Nat) (m : BVar) :
    Nat → Nat → BVar → Option BVar → Bool → Except BStop (Option BVar × Bool)
  | 0, _, _, res, ok => .ok (res, ok)
  | fuel + 1, n, tmp, res, ok =>
    if n = 0 then .ok (res, ok)
    else do
      let (res, ok) ← if n % 2 = 1 then
          match res with
          | none => pure (some tmp, ok)
          | some acc => do
            let (r, o) ← modMul lb numBits acc tmp m
            pure (some r, ok && o)
        else pure (res, ok)
      let n := n / 2
      if n > 0 then do
        let (t, o) ← modMul lb numBits tmp tmp m
        modExpLoop lb numBits m fuel n t res (ok && o)
      else .ok (res, ok)

/-- `mod_exp` (after the repair of exponents 0 and 1). -/
def modExp (lb numBits : Nat) (x : BVar) (n : Nat) (m : BVar) : Except BStop (BVar × Bool) := do
  if n = 0 then
    let (_, r, ok) ← divRem lb numBits (assignFixed lb 1) m
    pure (r, ok)
  else if n = 1 then
    let (_, r, ok) ← divRem lb numBits x m
    pure (r, ok)
  else
    let (res, ok) ← modExpLoop lb numBits m (natBits n + 1) n x none true
    match res with
    | some r => pure (r, ok)
    | none => throw .panic

/-- `select`. -/
def select (b : Bool) (x y : BVar) : Option BVar :=
  let n := max x.limbs.length y.limbs.length
  match resize n x, resize n y with
  | some x', some y' =>
    some ⟨if b then x'.limbs else y'.limbs, (x'.sb.zip y'.sb).map (fun t => max t.1 t.2)⟩
  | _, _ => none

/-- `n` little-endian bits of a natural number. -/
def natBitsLE : Nat → Nat → List Bool
  | 0, _ => []
  | k + 1, v => (v % 2 == 1) :: natBitsLE k (v / 2)

def bitsToNat : List Bool → Nat
  | [] => 0
  | b :: t => (if b then 1 else 0) + 2 * bitsToNat t

def chunksOf {α : Type} : Nat → Nat → List α → List (List α)
  | 0, _, _ => []
  | fuel + 1, k, l => if l.isEmpty ∨ k = 0 then [] else l.take k :: chunksOf fuel k (l.drop k)

/-- `from_le_bits`. -/
def fromBits (lb : Nat) (bits : List Bool) : BVar :=
  let cs := chunksOf (bits.length + 1) lb bits
  ⟨cs.map bitsToNat, cs.map List.length⟩

/-- `from_le_bytes`. -/
def fromBytes (lb : Nat) (bytes : List Nat) : BVar :=
  let cs := chunksOf (bytes.length + 1) (lb / 8) bytes
  ⟨cs.map (fun ch => (ch.zipIdx.map (fun (b, k) => b * 256 ^ k)).foldl (· + ·) 0),
   cs.map (fun ch => 8 * ch.length)⟩

end Big

end MidnightZK.C05
