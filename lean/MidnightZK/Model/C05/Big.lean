/-!
# C05 — big unsigned integers emulated over the native field

Executable model (core Lean only) of `circuits/src/biguint/types.rs` (`AssignedBigUint`,
`nb_bits`, `is_normalized`, `bound_of_addition`, `biguint_to_limbs`) and
`circuits/src/biguint/biguint_gadget.rs` (`assign_bounded`, `assign_fixed_biguint`, `add`, `sub`,
`mul`, `div_rem`, `mod_exp`, `mod_mul`, `normalize`, `div_rem_native_by_base`, `resize`, `geq`,
`lower_than`, `is_equal`, `select`, bit/byte conversions, `constrain_as_public_input`).

Limbs are natural numbers (the integers the native cells stand for; every limb is bounded by
`2^bound` with `bound < F::NUM_BITS`, so no wrap-around occurs — `normalize` panics otherwise).
`lb` is `LOG2_BASE` (96 in the repository; generated constant `Gen.bigLog2Base`).
-/
namespace MidnightZK.C05

/-- An `AssignedBigUint`: little-endian limbs and their size bounds (`limb < 2^bound`). -/
structure BVar where
  limbs : List Nat
  sb : List Nat
  deriving Repr, DecidableEq

/-- Why a BigUint synthesis stops. -/
inductive BStop where
  | err
  | panic
  deriving Repr

/-- `big_from_limbs`: `Σ limbᵢ·2^(lb·i)`. -/
def bigValue (lb : Nat) : List Nat → Nat
  | [] => 0
  | x :: xs => x + 2 ^ lb * bigValue lb xs

/-- `big_to_limbs`: `n` little-endian digits in base `2^lb` and the remaining quotient. -/
def bigToLimbs (lb : Nat) : Nat → Nat → List Nat × Nat
  | 0, v => ([], v)
  | n + 1, v =>
    let r := bigToLimbs lb n (v / 2 ^ lb)
    (v % 2 ^ lb :: r.1, r.2)

/-- `BigUint::bits`. -/
def natBits (n : Nat) : Nat := if n = 0 then 0 else n.log2 + 1

/-- `types.rs: fn bound_of_addition`. -/
def boundOfAddition (b1 b2 : Nat) : Nat :=
  if b1 = 0 then b2 else if b2 = 0 then b1 else 1 + max b1 b2

/-- The maximal value compatible with the bounds: `fold (acc << lb) + 2^bound - 1`. -/
def maxValue (lb : Nat) : List Nat → Nat
  | [] => 0
  | b :: bs => (2 ^ b - 1) + 2 ^ lb * maxValue lb bs

/-- `AssignedBigUint::nb_bits`. -/
def nbBits (lb : Nat) (sb : List Nat) : Nat := natBits (maxValue lb sb)

/-- `AssignedBigUint::is_normalized`. -/
def isNormalized (lb : Nat) (sb : List Nat) : Bool := sb.all (· ≤ lb)

namespace Big

/-- One call of the core decomposition chip (what the harness's `LogDecomp` wrapper logs): `a k`
`assign_less_than_pow2(·, k)`, `c k` `assert_less_than_pow2(·, k)`, `d k s`
`decompose_fixed_limb_size(·, k, s)`. Every range check of the BigUint gadget
(`assign_lower_than_fixed(·, 2^k)` of the native gadget) ends in one of these. -/
inductive BEv where
  | a (k : Nat)
  | c (k : Nat)
  | d (k s : Nat)
  deriving Repr, DecidableEq

def BEv.fmt : BEv → String
  | .a k => s!"A{k}"
  | .c k => s!"C{k}"
  | .d k s => s!"D{k}/{s}"

/-- Synthesis monad of the BigUint model: the range-check events emitted so far, over "stops". -/
abbrev BM := StateT (Array BEv) (Except BStop)

def emitB (es : List BEv) : BM Unit := modify (fun a => a ++ es.toArray)

def stopB {α : Type} (e : BStop) : BM α := fun _ => .error e

/-- The bounds `[lb, …, lb, msl]` of `assign_bounded` / `assign_fixed_biguint`
(`(nb_bits - 1).rem(LOG2_BASE) + 1` for the most significant limb; `nb_bits - 1` underflows for
`nb_bits = 0`: a panic in the checked-arithmetic profile). -/
def boundedSb (lb nbBits : Nat) : List Nat :=
  let n := (max nbBits 1 + lb - 1) / lb
  List.replicate (n - 1) lb ++ [(nbBits - 1) % lb + 1]

/-- `assign_bounded`, value part: a panic when the value does not fit the limbs (`big_to_limbs`
panics), a limb exceeds its bound (the range check's witness generation panics) or `nb_bits = 0`. -/
def assignBoundedV (lb : Nat) (v nbBits : Nat) : Except BStop (BVar × Bool) :=
  if nbBits = 0 ∨ lb = 0 then .error .panic
  else
    let sb := boundedSb lb nbBits
    let r := bigToLimbs lb sb.length v
    -- a limb beyond its bound: the witness generation of the range check panics
    if r.2 ≠ 0 ∨ !((r.1.zip sb).all (fun t => decide (t.1 < 2 ^ t.2))) then .error .panic
    else .ok (⟨r.1, sb⟩, true)

/-- `assign_bounded`: limb `i` is assigned by `assign_lower_than_fixed(·, 2^sb[i])`, i.e. one
`assign_less_than_pow2(·, sb[i])` per limb (event `A`). -/
def assignBounded (lb : Nat) (v nbBits : Nat) : BM (BVar × Bool) := do
  match assignBoundedV lb v nbBits with
  | .error e => stopB e
  | .ok r =>
    emitB (r.1.sb.map BEv.a)
    pure r

/-- `assign_fixed_biguint`. -/
def assignFixed (lb : Nat) (v : Nat) : BVar :=
  let nb := max (natBits v) 1
  let sb := boundedSb lb nb
  ⟨(bigToLimbs lb sb.length v).1, sb⟩

/-- `resize`: pad with zero limbs (bound 0); `none` when there are more limbs than `n`. -/
def resize (n : Nat) (x : BVar) : Option BVar :=
  if x.limbs.length > n then none
  else some ⟨x.limbs ++ List.replicate (n - x.limbs.length) 0, x.sb ++ List.replicate (n - x.sb.length) 0⟩

/-- The carry chain of `normalize`: `(carry, carry_bound)` through the limbs; each step is
`div_rem_native_by_base` of `payload = carry + limb`. Stops with a panic when a payload bound
reaches the native field's bit length. -/
def normChain (lb numBits : Nat) : Nat → Nat → List Nat → List Nat → Except BStop (List Nat × Nat)
  | carry, _, [], _ => .ok ([], carry)
  | carry, cb, x :: xs, sbs =>
    let b := sbs.headD 0
    let payload := carry + x
    let pb := boundOfAddition cb b
    if pb ≥ numBits then .error .panic
    else
      match normChain lb numBits (payload / 2 ^ lb) (max pb lb - lb) xs (sbs.drop 1) with
      | .error e => .error e
      | .ok (ls, c) => .ok (payload % 2 ^ lb :: ls, c)

/-- The range checks of the carry chain of `normalize` (one `div_rem_native_by_base` per limb):
per step `(k_q, k_r)` with the quotient assigned by `assign_lower_than_fixed(q, 2^k_q)`,
`k_q = max(payload_bound, LOG2_BASE) - LOG2_BASE`, and the remainder by
`assign_lower_than_fixed(r, 2^LOG2_BASE)`; `none` = the overflow panic of `normalize`.
Only the size bounds enter (never the values). -/
def normRc (lb numBits : Nat) : Nat → List Nat → Option (List (Nat × Nat))
  | _, [] => some []
  | cb, b :: sbs =>
    let pb := boundOfAddition cb b
    if pb ≥ numBits then none
    else (normRc lb numBits (max pb lb - lb) sbs).map (fun t => (max pb lb - lb, lb) :: t)

/-- `normalize`: the normalised number and whether the final carry is zero (asserted). -/
def normalize (lb numBits : Nat) (x : BVar) : BM (BVar × Bool) :=
  if isNormalized lb x.sb then pure (x, true)
  else
    let nOut := (nbBits lb x.sb + lb - 1) / lb
    match resize nOut x with
    | none => stopB .panic
    | some x =>
      match normChain lb numBits 0 0 x.limbs x.sb, normRc lb numBits 0 x.sb with
      | .ok (ls, c), some rc => do
        emitB (rc.flatMap (fun t => [BEv.a t.1, BEv.a t.2]))
        pure (⟨ls, List.replicate nOut lb⟩, c == 0)
      | .error e, _ => stopB e
      | _, none => stopB .panic

def zipAddLimbs : List Nat → List Nat → List Nat
  | x :: xs, y :: ys => (x + y) :: zipAddLimbs xs ys
  | [], ys => ys
  | xs, [] => xs

def zipAddBounds : List Nat → List Nat → List Nat
  | x :: xs, y :: ys => boundOfAddition x y :: zipAddBounds xs ys
  | [], ys => ys
  | xs, [] => xs

/-- `add`: limb-wise native additions on the common prefix, then the remaining limbs of the
LONGER operand (two branches in the code: `x` longer, `y` longer), then `normalize`. -/
def add (lb numBits : Nat) (x y : BVar) : BM (BVar × Bool) :=
  normalize lb numBits ⟨zipAddLimbs x.limbs y.limbs, zipAddBounds x.sb y.sb⟩

/-- Add `v` (with bound `b`) at position `k` of a limb/bound vector pair. -/
def addAt (k : Nat) (v b : Nat) (ls sbs : List Nat) : List Nat × List Nat :=
  (ls.set k (ls.getD k 0 + v), sbs.set k (boundOfAddition (sbs.getD k 0) b))

/-- The schoolbook products of `mul` before normalisation, limb values: limb `k` is
`Σ_{i+j=k} xᵢ·yⱼ` (row `i` is `xᵢ·y` shifted by `i` limbs). -/
def mulLimbs : List Nat → List Nat → List Nat
  | [], _ => []
  | x :: xs, ys => zipAddLimbs (ys.map (fun y => x * y)) (0 :: mulLimbs xs ys)

/-- The size bounds `mul` tracks for those products (same accumulation order as the code:
`for i { for j { bound[i+j] = bound_of_addition(bound[i+j], bx[i] + by[j]) } }`). -/
def mulBoundsLoop (xsb ysb : List Nat) : List Nat := Id.run do
  let n := xsb.length + ysb.length - 1
  let mut sbs := List.replicate n 0
  for (bx, i) in xsb.zipIdx do
    for (by', j) in ysb.zipIdx do
      sbs := sbs.set (i + j) (boundOfAddition (sbs.getD (i + j) 0) (bx + by'))
  return sbs

/-- The accumulation loop of `mul` on limbs AND bounds together, in the order of the code
(`limbs[i+j] += x[i]·y[j]; bound[i+j] = bound_of_addition(bound[i+j], bx[i] + by[j])`), as a pure
fold (the object of `mul_accum_within_bounds`). -/
def mulAccumRow (x bx i : Nat) (ys : List (Nat × Nat)) (j : Nat) (acc : List Nat × List Nat) :
    List Nat × List Nat :=
  match ys with
  | [] => acc
  | (y, by') :: ys => mulAccumRow x bx i ys (j + 1) (addAt (i + j) (x * y) (bx + by') acc.1 acc.2)

def mulAccumRows (xs : List (Nat × Nat)) (ys : List (Nat × Nat)) (i : Nat)
    (acc : List Nat × List Nat) : List Nat × List Nat :=
  match xs with
  | [] => acc
  | (x, bx) :: xs => mulAccumRows xs ys (i + 1) (mulAccumRow x bx i ys 0 acc)

/-- Limbs and bounds of the product before normalisation, by the fold. -/
def mulAccum (x y : BVar) : List Nat × List Nat :=
  let n := x.limbs.length + y.limbs.length - 1
  mulAccumRows (x.limbs.zip x.sb) (y.limbs.zip y.sb) 0 (List.replicate n 0, List.replicate n 0)

/-- Limbs and tracked bounds of the product before normalisation: the accumulation fold
`mulAccum` (the object of `mul_accum_within_bounds`). `mulLimbs` / `mulBoundsLoop` are the same
computation written as the schoolbook recursion / the imperative loop; the driver stops with a
panic if they ever differ from the fold (so every `mul` of the correspondence re-checks it). -/
def mulRaw (x y : BVar) : BVar :=
  let r := mulAccum x y
  ⟨r.1, r.2⟩

/-- Agreement of the three formulations of the product accumulation on one operand pair. -/
def mulFormsAgree (x y : BVar) : Bool :=
  let r := mulAccum x y
  r.1 == mulLimbs x.limbs y.limbs && r.2 == mulBoundsLoop x.sb y.sb

/-- `mul`. -/
def mul (lb numBits : Nat) (x y : BVar) : BM (BVar × Bool) := do
  let (x, ok1) ← normalize lb numBits x
  let (y, ok2) ← normalize lb numBits y
  if x.limbs.isEmpty ∨ y.limbs.isEmpty ∨ !(mulFormsAgree x y) then stopB .panic
  else
    let (z, ok3) ← normalize lb numBits (mulRaw x y)
    pure (z, ok1 && ok2 && ok3)

/-- Limb-wise equality after resizing (`assert_equal` / `is_equal`); `none` = the Rust
`assert!(is_normalized())` fails. -/
def limbsEqual (lb : Nat) (x y : BVar) : Option Bool :=
  if !(isNormalized lb x.sb) ∨ !(isNormalized lb y.sb) then none
  else
    let n := max x.limbs.length y.limbs.length
    match resize n x, resize n y with
    | some x, some y => some (x.limbs == y.limbs)
    | _, _ => none

/-- `geq`: the fold from the least significant limb, `acc := xᵢ > yᵢ ∨ (xᵢ = yᵢ ∧ acc)`. -/
def geqFold : List Nat → List Nat → Bool → Bool
  | x :: xs, y :: ys, acc => geqFold xs ys (decide (x > y) || (decide (x = y) && acc))
  | _, _, acc => acc

def geqV (lb : Nat) (x y : BVar) : Option Bool :=
  if !(isNormalized lb x.sb) ∨ !(isNormalized lb y.sb) then none
  else
    let n := max x.limbs.length y.limbs.length
    match resize n x, resize n y with
    | some x, some y => some (geqFold x.limbs y.limbs true)
    | _, _ => none

/-- `geq`: per limb pair one `greater_than` of the native gadget on operands declared
`< 2^LOG2_BASE` (`to_assigned_bounded_unsafe`), i.e. one `assert_less_than_pow2(z, LOG2_BASE)` on
the native-computed difference cell (event `C`). -/
def geq (lb : Nat) (x y : BVar) : BM Bool :=
  match geqV lb x y with
  | none => stopB .panic
  | some g => do
    emitB (List.replicate (max x.limbs.length y.limbs.length) (BEv.c lb))
    pure g

/-- `sub`: `res = x - y` (0 when `x < y`), `res + y` asserted equal to `x`. -/
def sub (lb numBits : Nat) (x y : BVar) : BM (BVar × Bool) := do
  let xv := bigValue lb x.limbs
  let yv := bigValue lb y.limbs
  let (res, ok1) ← assignBounded lb (if xv ≥ yv then xv - yv else 0) (nbBits lb x.sb)
  let (z, ok2) ← add lb numBits res y
  match limbsEqual lb x z with
  | none => stopB .panic
  | some e => pure (res, ok1 && ok2 && e)

/-- `div_rem`. -/
def divRem (lb numBits : Nat) (x y : BVar) : BM (BVar × BVar × Bool) := do
  let xv := bigValue lb x.limbs
  let yv := bigValue lb y.limbs
  let (q, ok1) ← assignBounded lb (if yv = 0 then 0 else xv / yv) (nbBits lb x.sb)
  let (r, ok2) ← assignBounded lb (if yv = 0 then 0 else xv % yv) (nbBits lb y.sb)
  let (qy, ok3) ← mul lb numBits q y
  let (qyr, ok4) ← add lb numBits qy r
  let e ← match limbsEqual lb x qyr with
    | none => stopB .panic
    | some e => pure e
  let g ← geq lb r y
  pure (q, r, ok1 && ok2 && ok3 && ok4 && e && !g)

/-- `mod_mul`. -/
def modMul (lb numBits : Nat) (x y m : BVar) : BM (BVar × Bool) := do
  let (p, ok1) ← mul lb numBits x y
  let (_, r, ok2) ← divRem lb numBits p m
  pure (r, ok1 && ok2)

/-- The square-and-multiply loop of `mod_exp` (fuel = number of bits of the exponent). -/
def modExpLoop (lb numBits : Nat) (m : BVar) :
    Nat → Nat → BVar → Option BVar → Bool → BM (Option BVar × Bool)
  | 0, _, _, res, ok => pure (res, ok)
  | fuel + 1, n, tmp, res, ok =>
    if n = 0 then pure (res, ok)
    else do
      let (res, ok) ← if n % 2 = 1 then
          match res with
          | none => pure (some tmp, ok)
          | some acc => do
            let (r, o) ← modMul lb numBits acc tmp m
            pure (some r, ok && o)
        else pure (res, ok)
      let n := n / 2
      if n > 0 then do
        let (t, o) ← modMul lb numBits tmp tmp m
        modExpLoop lb numBits m fuel n t res (ok && o)
      else pure (res, ok)

/-- The conditional multiplication of one loop iteration on honest values. -/
def accStep (m n tmp : Nat) (res : Option Nat) : Option Nat :=
  if n % 2 = 1 then
    (match res with
      | none => some tmp
      | some acc => some (acc * tmp % m))
  else res

/-- The honest run of the loop (values), mirroring `modExpLoop` on the represented integers (`mod_mul` = `a·b mod m`); the
driver compares it with the result of `modExpLoop` on every `modexp` of the correspondence. -/
def modExpLoopVal (m : Nat) : Nat → Nat → Nat → Option Nat → Option Nat
  | 0, _, _, res => res
  | fuel + 1, n, tmp, res =>
    if n = 0 then res
    else if n / 2 > 0 then modExpLoopVal m fuel (n / 2) (tmp * tmp % m) (accStep m n tmp res)
    else accStep m n tmp res

/-- `mod_exp` (after the repair of exponents 0 and 1). -/
def modExp (lb numBits : Nat) (x : BVar) (n : Nat) (m : BVar) : BM (BVar × Bool) := do
  if n = 0 then
    let (_, r, ok) ← divRem lb numBits (assignFixed lb 1) m
    pure (r, ok)
  else if n = 1 then
    let (_, r, ok) ← divRem lb numBits x m
    pure (r, ok)
  else
    let (res, ok) ← modExpLoop lb numBits m (natBits n + 1) n x none true
    match res with
    | some r =>
      -- the value-level mirror of the loop (object of `mod_exp_complete`) must agree
      if ok && modExpLoopVal (bigValue lb m.limbs) (natBits n + 1) n (bigValue lb x.limbs) none
          != some (bigValue lb r.limbs) then stopB .panic
      else pure (r, ok)
    | none => stopB .panic

/-- `select`. -/
def select (b : Bool) (x y : BVar) : Option BVar :=
  let n := max x.limbs.length y.limbs.length
  match resize n x, resize n y with
  | some x', some y' =>
    some ⟨if b then x'.limbs else y'.limbs, (x'.sb.zip y'.sb).map (fun t => max t.1 t.2)⟩
  | _, _ => none

/-- `n` little-endian bits of a natural number. -/
def natBitsLE : Nat → Nat → List Bool
  | 0, _ => []
  | k + 1, v => (v % 2 == 1) :: natBitsLE k (v / 2)

def bitsToNat : List Bool → Nat
  | [] => 0
  | b :: t => (if b then 1 else 0) + 2 * bitsToNat t

def chunksOf {α : Type} : Nat → Nat → List α → List (List α)
  | 0, _, _ => []
  | fuel + 1, k, l => if l.isEmpty ∨ k = 0 then [] else l.take k :: chunksOf fuel k (l.drop k)

/-- `from_le_bits`. -/
def fromBits (lb : Nat) (bits : List Bool) : BVar :=
  let cs := chunksOf (bits.length + 1) lb bits
  ⟨cs.map bitsToNat, cs.map List.length⟩

/-- `from_le_bytes`. -/
def fromBytes (lb : Nat) (bytes : List Nat) : BVar :=
  let cs := chunksOf (bytes.length + 1) (lb / 8) bytes
  ⟨cs.map (fun ch => (ch.zipIdx.map (fun (b, k) => b * 256 ^ k)).foldl (· + ·) 0),
   cs.map (fun ch => 8 * ch.length)⟩

end Big

end MidnightZK.C05
