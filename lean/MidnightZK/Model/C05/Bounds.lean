/-!
# C05 — foreign-field emulation: parameter sets and the auxiliary-bounds function

Executable model (core Lean only, `Int` arithmetic) of
* `circuits/src/field/foreign/util.rs`: `urem`, `ceil_log2`, `next_power_of_two`, `sum_bigints`,
  `pair_wise_prod`, `get_identity_auxiliary_bounds`, `compute_u`, `compute_vj`;
* `circuits/src/field/foreign/params.rs`: `FieldEmulationParams` (`base_powers`,
  `double_base_powers`, `max_limb_bound` defaults) and `check_params`;
* `circuits/src/field/foreign/gates/mul.rs`: `MulConfig::bounds`;
* `circuits/src/field/foreign/gates/norm.rs`: `NormConfig::bounds`;
* `circuits/src/field/foreign/field_chip.rs`: `well_formed_log2_bounds`.

All divisors that occur (the emulated modulus `m`, the auxiliary moduli `mj`) are positive, so
`num_integer::Integer::div_floor` is `Int` Euclidean division `/` and `div_ceil a b` is
`-((-a) / b)`.
-/
namespace MidnightZK.C05

/-- `Integer::div_floor` for a positive divisor. -/
def divFloor (a b : Int) : Int := a / b

/-- `Integer::div_ceil` for a positive divisor. -/
def divCeil (a b : Int) : Int := -((-a) / b)

/-- `util.rs: fn urem` (`value.rem(modulus)` made non-negative); for a positive modulus this is
`Int` Euclidean remainder. -/
def urem (a b : Int) : Int := a % b

/-- `BigInt::bits`: number of bits of the magnitude. -/
def bitsNat (n : Nat) : Nat := if n = 0 then 0 else n.log2 + 1

/-- `util.rs: fn ceil_log2`: `BI::bits(&(value - 1))` (bits of the magnitude). -/
def ceilLog2 (v : Int) : Nat := bitsNat (v - 1).natAbs

/-- `util.rs: fn next_power_of_two`. -/
def nextPow2 (v : Int) : Int := (2 : Int) ^ ceilLog2 v

/-- `BigInt::lcm` (non-negative). -/
def lcmZ (a b : Int) : Int := ((Int.lcm a b : Nat) : Int)

/-- `util.rs: fn sum_bigints`: `Σ coeffs[i] * values[i]` over the zip. -/
def sumProd : List Int → List Int → Int
  | c :: cs, v :: vs => c * v + sumProd cs vs
  | _, _ => 0

/-- `util.rs: fn pair_wise_prod`: `[v_i * w_j]` in row-major order. -/
def pairwiseProd (v w : List Int) : List Int := v.flatMap (fun vi => w.map (fun wj => vi * wj))

/-- What `get_identity_auxiliary_bounds` returns: `(k_min, u_max)` and `[(lj_min, vj_max)]`. -/
structure AuxBounds where
  kMin : Int
  uMax : Int
  vs : List (Int × Int)
  deriving Repr, DecidableEq

/-- The loop "take moduli until the lcm threshold is exceeded" of
`get_identity_auxiliary_bounds`: returns the final lcm and the necessary moduli. -/
def takeModuli (lo hi : Int) : Int → List Int → Int × List Int
  | lcm, [] => (lcm, [])
  | lcm, mj :: rest =>
    if lcm > -lo ∧ lcm > hi then (lcm, [])
    else
      let r := takeModuli lo hi (lcmZ lcm mj) rest
      (r.1, mj :: r.2)

/-- `(lj_min, vj_max)` of one auxiliary modulus, and the no-wrap-around check against the native
modulus `p` (the closure mapped over `necessary_moduli.zip(expr_mj_bounds)`). -/
def vBound (p m kMin uMax mj eMin eMax : Int) : Except String (Int × Int) :=
  let c := urem (kMin * m) mj
  let ljMin := divCeil (eMin - uMax * urem m mj - c) mj
  let ljMax := divFloor (eMax - c) mj
  let vjMax := nextPow2 (ljMax - ljMin + 1)
  let lower := eMin - uMax * urem m mj - c - (vjMax + ljMin) * mj
  let upper := eMax - c - ljMin * mj
  if p ≤ -lower ∨ p ≤ upper then .error "panic:wrap" else .ok (ljMin, vjMax)

/-- The `zip … map … collect` over the necessary moduli (the first failing modulus panics). -/
def vBounds (p m kMin uMax : Int) : List Int → List (Int × Int) → Except String (List (Int × Int))
  | mj :: ms, (eMin, eMax) :: bs =>
    match vBound p m kMin uMax mj eMin eMax with
    | .error e => .error e
    | .ok b =>
      match vBounds p m kMin uMax ms bs with
      | .error e => .error e
      | .ok r => .ok (b :: r)
  | _, _ => .ok []

/-- `util.rs: fn get_identity_auxiliary_bounds::<F, K>` with `p = F::modulus()`,
`m = K::modulus()`. `.error "panic:lcm"` / `.error "panic:wrap"` are its two panics. -/
def identityAuxBounds (p m : Int) (moduli : List Int) (eb : Int × Int) (mjb : List (Int × Int)) :
    Except String AuxBounds :=
  let kMin := divCeil eb.1 m
  let kMax := divFloor eb.2 m
  let uMax := nextPow2 (kMax - kMin + 1)
  let lower := eb.1 - (uMax + kMin) * m
  let upper := eb.2 - kMin * m
  let r := takeModuli lower upper p moduli
  if r.1 ≤ -lower ∨ r.1 ≤ upper then .error "panic:lcm"
  else
    match vBounds p m kMin uMax r.2 mjb with
    | .error e => .error e
    | .ok vs => .ok ⟨kMin, uMax, vs⟩

/-- `compute_u`: `expr.div_rem(m).0 - k_min` (`div_rem` truncates towards zero). -/
def computeU (m expr kMin : Int) : Int := Int.tdiv expr m - kMin

/-- `compute_vj`. -/
def computeVj (m mj exprMj u kMin ljMin : Int) : Int :=
  Int.tdiv (exprMj - u * urem m mj - urem (kMin * m) mj) mj - ljMin

/-! ## Parameter sets -/

/-- One `impl FieldEmulationParams<F, K> for MultiEmulationParams` together with the two moduli.
`base_powers`, `double_base_powers` and `max_limb_bound` are the trait defaults (no compiled-in
set overrides them; the translator refuses a set that does). -/
structure Params where
  name : String
  /-- native modulus `F::modulus()` -/
  p : Int
  /-- emulated modulus `K::modulus()` -/
  m : Int
  log2Base : Nat
  nbLimbs : Nat
  moduli : List Int
  rcLimbSize : Nat
  deriving Repr, DecidableEq

namespace Params

def base (P : Params) : Int := (2 : Int) ^ P.log2Base

/-- `fn base_powers` (default): `2^(LOG2_BASE·i) rem m`, `i < NB_LIMBS`. -/
def basePowersFrom (P : Params) (start n : Nat) : List Int :=
  (List.range' start n).map (fun i => ((2 : Int) ^ (P.log2Base * i)) % P.m)

def basePowers (P : Params) : List Int := P.basePowersFrom 0 P.nbLimbs

/-- `fn double_base_powers` (default): entry `i·n + j` is `2^(LOG2_BASE·(i+j)) rem m`. -/
def doubleBasePowers (P : Params) : List Int :=
  (List.range' 0 P.nbLimbs).flatMap (fun i => P.basePowersFrom i P.nbLimbs)

/-- `fn max_limb_bound` (default): `base²`. -/
def maxLimbBound (P : Params) : Int := (2 : Int) ^ (2 * P.log2Base)

/-- `params.rs: fn check_params`: the assertions (with the default powers the congruence
assertions hold by construction; what remains is `m > 1`, `base > 1`, `base^n ≥ m`). -/
def checkParams (P : Params) : Bool :=
  decide (P.m > 1) && decide (P.base > 1) && decide (P.base ^ P.nbLimbs ≥ P.m)
    && P.basePowers.all (fun b => decide (0 ≤ b))
    && P.doubleBasePowers.all (fun b => decide (0 ≤ b))

/-- `field_chip.rs: fn well_formed_log2_bounds`: `LOG2_BASE` for every limb but the most
significant one, whose bound is `m.bits() - (n-1)·LOG2_BASE` (`u32` subtraction: the Rust code
overflows when that is negative; `none` here). -/
def wellFormedLog2Bounds (P : Params) : Option (List Nat) :=
  let mb := bitsNat P.m.natAbs
  if P.nbLimbs = 0 ∨ mb < (P.nbLimbs - 1) * P.log2Base then none
  else some (List.replicate (P.nbLimbs - 1) P.log2Base ++ [mb - (P.nbLimbs - 1) * P.log2Base])

/-- `MulConfig::bounds`: expression bounds of `sum_xy + sum_x + sum_y - sum_z` for limbs in
`[0, base)`, integer and per auxiliary modulus. -/
def mulExprBounds (bp dbp : List Int) (base : Int) (n : Nat) : Int × Int :=
  let limbsMax := List.replicate n (base - 1)
  let limbsMax2 := List.replicate (n * n) ((base - 1) ^ 2)
  let maxXY := sumProd dbp limbsMax2
  let maxZ := sumProd bp limbsMax
  (-maxZ, maxXY + maxZ + maxZ)

def mulBounds (P : Params) : Except String AuxBounds :=
  let bp := P.basePowers
  let dbp := P.doubleBasePowers
  let eb := mulExprBounds bp dbp P.base P.nbLimbs
  let mjb := P.moduli.map (fun mj =>
    mulExprBounds (bp.map (· % mj)) (dbp.map (· % mj)) P.base P.nbLimbs)
  identityAuxBounds P.p P.m P.moduli eb mjb

/-- `NormConfig::bounds`: expression bounds of `sum_shifted_x - sum_z - sum_shifts` for
`x_i ∈ [-L, L]` (`L = max_limb_bound`), `z_i ∈ [0, base)`. -/
def normExprBounds (bp : List Int) (base L : Int) (n : Nat) (shiftTerm : Int) : Int × Int :=
  let sumShifts := sumProd bp (List.replicate n L)
  let maxZ := sumProd bp (List.replicate n (base - 1))
  (-maxZ - shiftTerm, (sumShifts + sumShifts) - shiftTerm)

def normSumShifts (P : Params) : Int := sumProd P.basePowers (List.replicate P.nbLimbs P.maxLimbBound)

def normBounds (P : Params) : Except String AuxBounds :=
  let bp := P.basePowers
  let s := P.normSumShifts
  let eb := normExprBounds bp P.base P.maxLimbBound P.nbLimbs s
  let mjb := P.moduli.map (fun mj =>
    normExprBounds (bp.map (· % mj)) P.base P.maxLimbBound P.nbLimbs (urem s mj))
  identityAuxBounds P.p P.m P.moduli eb mjb

end Params

end MidnightZK.C05
