/-!
# C08 — fixed-base names of a verifying key and the `BTreeMap` of fixed-base scalars

`verifier/mod.rs: fixed_commitment_name / perm_commitment_name / fixed_base_names` and the
fixed-base part of `verifier/msm.rs: AssignedMsm::assign`. The off-circuit `Msm` keeps its
fixed-base scalars in a `BTreeMap<String, F>` (iteration = key order); `assign` takes the VALUES in
key order, sorts the caller's name list and zips. Import-free (core only).
-/
namespace MidnightZK.C08

/-- `verifier/mod.rs: fixed_commitment_name` — `format!("{prefix}_fixed_com_{i}")`. -/
def fixedCommitmentName (pfx : String) (i : Nat) : String := s!"{pfx}_fixed_com_{i}"

/-- `verifier/mod.rs: perm_commitment_name` — `format!("{prefix}_perm_com_{i}")`. -/
def permCommitmentName (pfx : String) (i : Nat) : String := s!"{pfx}_perm_com_{i}"

/-- `verifier/mod.rs: fixed_base_names` — `-G`, the fixed commitments, the permutation
commitments (NOT in lexicographic order as soon as there are more than 10 of a kind). -/
def fixedBaseNames (vk : String) (nbFixed nbPerm : Nat) : List String :=
  "-G" :: ((List.range nbFixed).map (fixedCommitmentName vk) ++ (List.range nbPerm).map (permCommitmentName vk))

/-- `BTreeMap::insert` on the key-sorted association list (an equal key is replaced). -/
def insertKV {κ α : Type} (lt : κ → κ → Bool) (k : κ) (v : α) : List (κ × α) → List (κ × α)
  | [] => [(k, v)]
  | (k', v') :: rest =>
    if lt k k' then (k, v) :: (k', v') :: rest
    else if lt k' k then (k', v') :: insertKV lt k v rest
    else (k, v) :: rest

/-- `iter.collect::<BTreeMap<_, _>>()`. -/
def btree {κ α : Type} (lt : κ → κ → Bool) (kvs : List (κ × α)) : List (κ × α) :=
  kvs.foldl (fun m kv => insertKV lt kv.1 kv.2 m) []

def insertK {κ : Type} (lt : κ → κ → Bool) (k : κ) : List κ → List κ
  | [] => [k]
  | k' :: rest => if lt k k' then k :: k' :: rest else k' :: insertK lt k rest

/-- `Vec::sort` (insertion sort; the result is the sorted list whatever the algorithm). -/
def isort {κ : Type} (lt : κ → κ → Bool) (ks : List κ) : List κ := ks.foldr (insertK lt) []

/-- `msm.rs: AssignedMsm::assign`, fixed-base part: `msm.fixed_base_scalars.iter().map(|s| *s.1)`
(values in key order), `fixed_base_names.sort()`, `names.zip(scalars).collect::<BTreeMap>()`. -/
def assignFixed {κ α : Type} (lt : κ → κ → Bool) (names : List κ) (off : List (κ × α)) : List (κ × α) :=
  btree lt ((isort lt names).zip (off.map (·.2)))

/-- The same WITHOUT the sort (seeded defect C08-3). NOT what the code does. -/
def assignFixedNoSort {κ α : Type} (lt : κ → κ → Bool) (names : List κ) (off : List (κ × α)) : List (κ × α) :=
  btree lt (names.zip (off.map (·.2)))

/-- Rust's `Ord for String` on ASCII names = lexicographic order on the characters. -/
def strLt (a b : String) : Bool := decide (a < b)

/-- Index of each sorted name in the caller's list (the permutation `assign` undoes). -/
def sortPerm (names : List String) : List Nat :=
  (isort strLt names).map (fun n => names.idxOf n)

end MidnightZK.C08
