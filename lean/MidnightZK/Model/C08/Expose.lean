import MidnightZK.Model.C08.PublicInput
import MidnightZK.Gen.C08Params
/-!
# C08 — typed values, the concrete parameter sets, and the exposure of a sequence of values

`Val` = the value types that can be exposed; `encode` = the off-circuit encoder of the type
(`Instantiable::as_public_input`, `AssignedBigUint::as_public_input`, `CircuitValue::as_public_input`);
`cells` = the values of the cells the in-circuit exposure binds, as a function of the entry
point (`Path`) that produced the in-circuit representation; `exposeAll` = the instance-row
counter machine of `NativeChip`.
-/
namespace MidnightZK.C08

/-- The native field of the circuits (`midnight_curves::Fq`). -/
def q : Nat := Gen.nativeModulus

/-! Moduli of fields defined outside /repo (crates `k256`, `halo2curves`); the harness prints the
moduli the running code uses (`mod <name>` requests) and they are compared on every run. -/
def secpBaseModulus : Nat := 2 ^ 256 - 2 ^ 32 - 977
def secpScalarModulus : Nat := 0xfffffffffffffffffffffffffffffffebaaedce6af48a03bbfd25e8cd0364141
def bnBaseModulus : Nat := 0x30644e72e131a029b85045b68181585d97816a916871ca8d3c208c16d87cfd47
def curve25519ScalarModulus : Nat := 2 ^ 252 + 27742317777372353535851937790883648493

/-- Name in the request language ↦ (emulated type of `params.rs`, modulus). -/
def fieldNames : List (String × String × Nat) := [
  ("secp_base", "k256::Fp", secpBaseModulus),
  ("secp_scalar", "k256::Fq", secpScalarModulus),
  ("bls_base", "midnight_curves::Fp", Gen.blsBaseModulus),
  ("bn_base", "bn256::Fq", bnBaseModulus),
  ("c25519_base", "midnight_curves::curve25519::Fp", Gen.curve25519BaseModulus),
  ("c25519_scalar", "midnight_curves::curve25519::Scalar", curve25519ScalarModulus)]

/-- `(LOG2_BASE, NB_LIMBS)` of the emulation of `emulated` over `midnight_curves::Fq`, read from
the generated table. -/
def lookupParams (emulated : String) : Option (Nat × Nat) :=
  (Gen.emulationParams.find? (fun e => e.1 == "midnight_curves::Fq" && e.2.1 == emulated)).map
    (fun e => (e.2.2.1, e.2.2.2))

def paramsOf (name : String) : Option FParams := do
  let e ← fieldNames.find? (fun e => e.1 == name)
  let wn ← lookupParams e.2.1
  pure { p := e.2.2, w := wn.1, n := wn.2 }

/-- Curve name ↦ base-field parameter set. -/
def curveParams (curve : String) : Option FParams :=
  if curve == "secp" then paramsOf "secp_base" else if curve == "bls" then paramsOf "bls_base" else none

inductive Val where
  | bit (b : Bool)
  | byte (b : Nat)
  | native (x : Nat)
  | ff (name : String) (x : Nat)
  | fpoint (curve : String) (p : Option (Nat × Nat))
  | jpoint (x y : Nat)
  | jscalar (s : Nat)
  | big (nb : Nat) (v : Nat)
  /-- `IrValue::Bytes`. -/
  | bytes (bs : List Nat)
  deriving Repr

/-- Batch size of the Jubjub-scalar encoders: `F::NUM_BITS - 1`. -/
def scalarBatch : Nat := Gen.nativeNumBits - 1

/-- The off-circuit encoder of each type; `none` = the Rust encoder panics / unknown parameters. -/
def encode : Val → Option (List Nat)
  | .bit b => some (encBit q b)
  | .byte b => some (encByte q b)
  | .native x => some (encNative q x)
  | .ff name x => (paramsOf name).map (fun P => encField q P x)
  | .fpoint c p => (curveParams c).map (fun P => encPoint q P p)
  | .jpoint x y => some (encJPoint q (x, y))
  | .jscalar s => some (encJScalar q Gen.jubjubNumBitsSubgroup Gen.nativeNumBits s)
  | .big nb v => encBig q Gen.bigLog2Base nb v
  | .bytes bs => some (bs.flatMap (encByte q))

/-- Number of raw public inputs of a value of each type (a function of the type only). -/
def encLen : Val → Option Nat
  | .bit _ => some 1
  | .byte _ => some 1
  | .native _ => some 1
  | .ff name _ => (paramsOf name).map (·.n)
  | .fpoint c _ => (curveParams c).map (fun P => 2 * P.n)
  | .jpoint _ _ => some 2
  | .jscalar _ => some (ceilDiv Gen.jubjubNumBitsSubgroup scalarBatch)
  | .big nb _ => some (ceilDiv nb Gen.bigLog2Base)
  | .bytes bs => some bs.length

/-- In-circuit entry points (see `harness/c08/src/rel.rs: Path`). -/
inductive Path where
  | constrain
  | assign
  | committed
  | fixed
  | derived (k : Nat)
  deriving Repr, DecidableEq

/-- `NUM_BITS` of the Jubjub scalar field (`EccChip::assign` witnesses that many bits). -/
def jubjubScalarNumBits : Nat := bitLen Gen.jubjubScalarModulus

/-- Length of the bit vector of an in-circuit Jubjub scalar, by constructor:
`assign` (`ScalarField::NUM_BITS` bits), `assign_fixed` (`to_bits_le(None)`), `convert` from a
native value (`F::NUM_BITS` bits), `scalar_from_le_bytes` (8 bits per byte). -/
def scalarBitLen (path : Path) (s : Nat) : Nat :=
  match path with
  | .fixed => minBits s
  | .derived 0 => Gen.nativeNumBits
  | .derived n => 8 * n
  | _ => jubjubScalarNumBits

/-- Limb bounds of an in-circuit BigUint, by constructor. -/
def bigBounds (path : Path) (nb v : Nat) : List Nat :=
  match path with
  | .fixed => assignBounds Gen.bigLog2Base (max (bitLen v) 1)
  | .derived 0 => bytesBounds Gen.bigLog2Base (nb / 8)
  | _ => assignBounds Gen.bigLog2Base nb

/-- The values of the cells that the in-circuit exposure of `v` binds to consecutive instance
rows, for an honestly assigned `v` whose in-circuit representation was produced through `path`. -/
def cells (path : Path) : Val → Option (List Nat)
  | .fpoint c p => (curveParams c).map (fun P =>
      let r := reprPoint q P p
      cellsPoint q P r.1 r.2.1 r.2.2)
  | .jscalar s => some (encBitVec q scalarBatch (bitsLE (scalarBitLen path s) s))
  | .big nb v =>
      let n := exposedLimbCount Gen.bigLog2Base (bigBounds path nb v)
      if fits Gen.bigLog2Base n v then some ((toLimbs Gen.bigLog2Base n v).map (· % q)) else none
  | v => encode v

/-- One exposure step on the chip state. -/
def exposeStep (c : Chip) (path : Path) (v : Val) : Option Chip :=
  (cells path v).map (fun cs =>
    if path = .committed then c.constrainAllCommitted cs else c.constrainAll cs)

/-- A circuit exposing a sequence of values (`Relation::circuit`). -/
def exposeAll : Chip → List (Path × Val) → Option Chip
  | c, [] => some c
  | c, (p, v) :: rest => (exposeStep c p v).bind (fun c' => exposeAll c' rest)

/-- The verifier-side formatter (`Relation::format_instance`): concatenated encoders of the
values exposed through the plain column / through the committed column. -/
def formatInstance : List (Path × Val) → Option (List Nat × List Nat)
  | [] => some ([], [])
  | (p, v) :: rest => do
    let e ← encode v
    let r ← formatInstance rest
    pure (if p = .committed then (r.1, e ++ r.2) else (e ++ r.1, r.2))

end MidnightZK.C08
