import MidnightZK.Model.C08.Expose
/-!
# C08 — the number of raw public inputs: recorded at key generation, insisted on by the verifier

Mirrors the length checks of `zk_stdlib/src/lib.rs` (`setup_vk`, `verify`, `batch_verify`) and
what the PLONK layer underneath does with a plain instance column (`proofs/src/plonk/verifier.rs:
parse_trace / verify_algebraic_constraints`): the transcript absorbs the length it is given and
then the values; the instance polynomial is the inner product of the values with the Lagrange
evaluations, so rows beyond the given vector are zero. Import-free (core only).
-/
namespace MidnightZK.C08

/-- `zk_stdlib/src/lib.rs: struct MidnightVK` — the field the verifier's length check reads
(the other fields — architecture, `max_bit_len`, the PLONK key — play no role here). -/
structure MidnightVK where
  nbPublicInputs : Nat
  deriving Repr, DecidableEq

/-- `zk_stdlib/src/lib.rs: setup_vk` — `MidnightCircuit::synthesize` stores
`native_chip.nb_public_inputs()` in the circuit's `RefCell` after the relation's `circuit` ran,
and `setup_vk` copies it into the key. `none` = synthesis fails. -/
def setupVk (steps : List (Path × Val)) : Option MidnightVK :=
  (exposeAll {} steps).map (fun c => { nbPublicInputs := c.nbPublicInputs })

/-- `zk_stdlib/src/lib.rs: verify` — `if pi.len() != vk.nb_public_inputs { return
Err(Error::InvalidInstances) }`, evaluated on `pi = R::format_instance(instance)` before the
PLONK verifier runs. `true` = the check lets the vector through. -/
def verifyGuard (vk : MidnightVK) (pi : List Nat) : Bool := !(pi.length != vk.nbPublicInputs)

/-- `zk_stdlib/src/lib.rs: batch_verify` — `if pis.len() != n || proofs.len() != n { Err }`, then
per proof `if pi.len() != vk.nb_public_inputs { return Err(Error::InvalidInstances) }`. -/
def batchVerifyGuard (vks : List MidnightVK) (pis : List (List Nat)) (nbProofs : Nat) : Bool :=
  let n := vks.length
  if pis.length != n || nbProofs != n then false
  else (vks.zip pis).all (fun vp => !(vp.2.length != vp.1.nbPublicInputs))

/-- The check the seeded defect C08-2 leaves in `verify` (`pi.len() > vk.nb_public_inputs`
rejects): NOT what the code does; used to state why the exact comparison is needed. -/
def weakGuard (vk : MidnightVK) (pi : List Nat) : Bool := !(pi.length > vk.nbPublicInputs)

/-- `plonk/verifier.rs: parse_trace` (and `prover.rs`, same order) — what the transcript absorbs
for one plain instance column: `F::from_u128(instance.len())`, then every value. -/
def absorbInstance (inst : List Nat) : List Nat := inst.length :: inst

/-- `plonk/verifier.rs: verify_algebraic_constraints` — evaluation of the instance polynomial at
the challenge: `compute_inner_product(instances, &l_i_s[offset..offset + instances.len()])`,
`ls` being the Lagrange evaluations `l_0(x), l_1(x), …` (at least as many as values). -/
def innerProduct : List Nat → List Nat → Nat
  | a :: as, l :: ls => a * l + innerProduct as ls
  | _, _ => 0

/-- The instance evaluation as a native field element. -/
def instanceEval (q : Nat) (inst ls : List Nat) : Nat := innerProduct inst ls % q

/-- Verdict classes of the two entry points. -/
inductive Verdict where
  | ok
  | invalidInstances
  | rejected
  deriving Repr, DecidableEq

def Verdict.str : Verdict → String
  | .ok => "ok"
  | .invalidInstances => "invalid-instances"
  | .rejected => "rejected"

/-- `zk_stdlib/src/lib.rs: verify` on the raw vector `pi`, given a proof that a prover generated
by running the protocol on the raw vector `proved` for a circuit with copy constraints `binds`:
the length check first; then the PLONK verifier, which accepts iff the transcripts agree
(`absorbInstance`) and the zero-padded instance satisfies the copy constraints (completeness is
observed on every run; the `rejected` direction is the soundness of the proof system,
properties C01–C03). -/
def verifyVerdict (vk : MidnightVK) (binds : List (Nat × Nat)) (proved pi : List Nat) : Verdict :=
  if !verifyGuard vk pi then .invalidInstances
  else if absorbInstance proved == absorbInstance pi && holdsB binds pi then .ok else .rejected

/-- `batch_verify` on a batch of one. -/
def batchVerdict (vk : MidnightVK) (binds : List (Nat × Nat)) (proved pi : List Nat) : Verdict :=
  if !batchVerifyGuard [vk] [pi] 1 then .invalidInstances
  else if absorbInstance proved == absorbInstance pi && holdsB binds pi then .ok else .rejected

/-- The PLONK verifier alone (`midnight_proofs::plonk::prepare` + `DualMSM::verify`, no
zk_stdlib length check) on the vector the proof was generated for. -/
def plonkAccepts (binds : List (Nat × Nat)) (pi : List Nat) : Bool := holdsB binds pi

/-- Number of raw public inputs a relation's plain steps produce, from the types only. -/
def plainLen : List (Path × Val) → Option Nat
  | [] => some 0
  | (p, v) :: rest => do
    let n ← encLen v
    let r ← plainLen rest
    pure (if p = .committed then r else n + r)

end MidnightZK.C08
