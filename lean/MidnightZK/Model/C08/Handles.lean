import MidnightZK.Model.C08.Verify
import MidnightZK.Gen.C08Chip
/-!
# C08 — several handles on the native chip; the committed instance

`native_chip.rs: struct NativeChip` is `#[derive(Clone)]`; its two instance-row counters are
`Rc<RefCell<usize>>`, so that every clone of the chip (one is stored in every gadget:
`NativeGadget::new`, `FieldChip::new`, `ForeignEccChip::new`, `VerifierGadget::new`, …) reads
and increments the SAME two cells. The model makes this explicit: a store of counter cells,
chip handles holding references into it. Import-free (core only).
-/
namespace MidnightZK.C08

/-- `native_chip.rs: struct NativeChip` — the two `Rc<RefCell<usize>>` fields, as references
(cell identities) into the store of the synthesis. -/
structure NChip where
  plainRef : Nat
  comRef : Nat
  deriving Repr, DecidableEq

/-- State of one synthesis: the contents of every `RefCell<usize>` and the copy constraints
`layouter.constrain_instance(cell, column, row)` made so far, per instance column. -/
structure Synth where
  store : Nat → Nat := fun _ => 0
  binds : List (Nat × Nat) := []
  comBinds : List (Nat × Nat) := []

/-- `native_chip.rs: NativeChip::new` — `instance_offset: Rc::new(RefCell::new(0))`,
`committed_instance_offset: Rc::new(RefCell::new(0))`: two distinct fresh cells. -/
def NChip.new : NChip := { plainRef := 0, comRef := 1 }

/-- `#[derive(Clone)]` on `Rc` fields: `Rc::clone`, the same cells. -/
def NChip.clone (h : NChip) : NChip := h

/-- `native_chip.rs: constrain_as_public_input` through handle `h`:
`let mut offset = self.instance_offset.borrow_mut(); constrain_instance(cell, col, *offset); *offset += 1`. -/
def Synth.constrain (s : Synth) (h : NChip) (cell : Nat) : Synth :=
  let off := s.store h.plainRef
  { s with binds := s.binds ++ [(off, cell)],
           store := fun i => if i = h.plainRef then off + 1 else s.store i }

/-- `native_chip.rs: constrain_as_committed_public_input` through handle `h`. -/
def Synth.constrainCommitted (s : Synth) (h : NChip) (cell : Nat) : Synth :=
  let off := s.store h.comRef
  { s with comBinds := s.comBinds ++ [(off, cell)],
           store := fun i => if i = h.comRef then off + 1 else s.store i }

def Synth.constrainAll (s : Synth) (h : NChip) (cells : List Nat) : Synth :=
  cells.foldl (fun s c => s.constrain h c) s

def Synth.constrainAllCommitted (s : Synth) (h : NChip) (cells : List Nat) : Synth :=
  cells.foldl (fun s c => s.constrainCommitted h c) s

/-- The handles of `harness/c08/src/handles.rs`. -/
inductive Handle where
  | chip | gadget | g2 | eccsc | ecc | ff | ver
  deriving Repr, DecidableEq

def Handle.toNat : Handle → Nat
  | .chip => 0 | .gadget => 1 | .g2 => 2 | .eccsc => 3 | .ecc => 4 | .ff => 5 | .ver => 6

/-- What is exposed in one step: a typed value through an entry point, or an accumulator
(`verifier_gadget.rs: constrain_as_public_input` / `constrain_acc_as_public_input_with_committed_scalars`). -/
inductive HItem where
  | val (p : Path) (v : Val)
  | acc (committed : Bool) (l r : Msm)
  deriving Repr

/-- Cells bound by one step: (plain column, committed column). -/
def hcells : HItem → Option (List Nat × List Nat)
  | .val p v => (cells p v).map (fun cs => if p = .committed then ([], cs) else (cs, []))
  | .acc false l r => (curveParams "bls").map (fun P => (cellsAcc q P l r, []))
  | .acc true l r => (curveParams "bls").map (fun P => cellsAccCommitted q P l r)

/-- Off-circuit encoders of one step: (plain vector, committed vector). -/
def henc : HItem → Option (List Nat × List Nat)
  | .val p v => (encode v).map (fun e => if p = .committed then ([], e) else (e, []))
  | .acc false l r => (curveParams "bls").map (fun P => (encAcc q P l r, []))
  | .acc true l r => (curveParams "bls").map (fun P => encAccCommitted q P l r)

/-- Concatenated off-circuit encoders of a sequence of steps. -/
def hencAll : List HItem → Option (List Nat × List Nat)
  | [] => some ([], [])
  | it :: rest => do
    let e ← henc it
    let r ← hencAll rest
    pure (e.1 ++ r.1, e.2 ++ r.2)

/-- Concatenated bound cells of a sequence of steps. -/
def hcellsAll : List HItem → Option (List Nat × List Nat)
  | [] => some ([], [])
  | it :: rest => do
    let e ← hcells it
    let r ← hcellsAll rest
    pure (e.1 ++ r.1, e.2 ++ r.2)

/-- A circuit exposing a sequence of values, each through the handle `env h` (a clone of the
native chip held by gadget `h`). -/
def exposeVia (env : Handle → NChip) : Synth → List (Handle × HItem) → Option Synth
  | s, [] => some s
  | s, (h, it) :: rest =>
    (hcells it).bind (fun pc =>
      exposeVia env ((s.constrainAll (env h) pc.1).constrainAllCommitted (env h) pc.2) rest)

/-- The same sequence on the two-counter machine `Chip` (no handles at all). -/
def exposeItems : Chip → List HItem → Option Chip
  | c, [] => some c
  | c, it :: rest =>
    (hcells it).bind (fun pc => exposeItems ((c.constrainAll pc.1).constrainAllCommitted pc.2) rest)

/-- What the code does: every gadget holds `native_chip.clone()`. -/
def sharedEnv : Handle → NChip := fun _ => NChip.new.clone

/-- What seeded defect C08-4 does (`committed_instance_offset: RefCell<usize>` by value): the
derived `Clone` copies the committed counter into a fresh cell per clone; the plain counter
is still shared. NOT what the code does; used for the witness lemma. -/
def perHandleEnv : Handle → NChip := fun h => { plainRef := 0, comRef := 1 + h.toNat }

/-- Do the clones of the chip share counter field `f`, as the CURRENT source has it
(`Gen/C08Chip.lean`, regenerated on every run)? Yes iff `Clone` is derived (no hand-written impl)
and the field is an `Rc<RefCell<usize>>` (`Rc::clone` = the same cell); a by-value
`RefCell<usize>` is copied into a fresh cell by the derived `Clone`. -/
def fieldShared (f : String) : Bool :=
  Gen.nativeChipDerives.contains "Clone" && !Gen.nativeChipManualClone &&
    ((Gen.nativeChipFields.find? (fun e => e.1 == f)).map (·.2) == some "Rc<RefCell<usize>>")

/-- Cell identity of counter field `f` as seen from handle `h`: one cell per field when shared,
one per (handle, field) otherwise. -/
def refOf (f : String) (h : Handle) : Nat :=
  let i := (Gen.nativeChipFields.map (·.1)).idxOf f
  if fieldShared f then i else 100 + 10 * h.toNat + i

/-- The handle environment the CURRENT source gives: `constrain_as_public_input` counts in the
field `Gen.plainExposure.1`, `constrain_as_committed_public_input` in `Gen.committedExposure.1`. -/
def codeEnv : Handle → NChip := fun h =>
  { plainRef := refOf Gen.plainExposure.1 h, comRef := refOf Gen.committedExposure.1 h }

/-- The two-counter view of a synthesis state through handle `h0`. -/
def Synth.view (h0 : NChip) (s : Synth) : Chip :=
  { offset := s.store h0.plainRef, comOffset := s.store h0.comRef, binds := s.binds, comBinds := s.comBinds }

/-! ## The committed instance at the verifier -/

/-- `plonk/prover.rs: commit_to_instances` — the vector is written into an all-zero Lagrange
polynomial of the domain size and committed; the commitment scheme being binding, the model
identifies a commitment with the zero-padded column, i.e. the vector without trailing zeros. -/
def commitKey (v : List Nat) : List Nat := (v.reverse.dropWhile (· == 0)).reverse

/-- `zk_stdlib/src/lib.rs: verify` with a committed instance: `committed_instance.unwrap_or(identity)`
(the commitment to the all-zero column), the length check on the plain vector, then the PLONK
verifier on (commitment, plain vector): accepts iff the plain transcript part agrees, the
commitment is the one of the proved committed column and both columns satisfy their copy
constraints (soundness direction = properties C01–C03, as for `verifyVerdict`). -/
def verifyCommittedVerdict (vk : MidnightVK) (binds comBinds : List (Nat × Nat))
    (provedPlain provedCom pi : List Nat) (commitment : Option (List Nat)) : Verdict :=
  if !verifyGuard vk pi then .invalidInstances
  else if absorbInstance provedPlain == absorbInstance pi
      && commitKey provedCom == commitment.getD (commitKey [])
      && holdsB binds pi && holdsB comBinds provedCom then .ok else .rejected

end MidnightZK.C08
