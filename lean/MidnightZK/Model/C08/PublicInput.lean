/-!
# C08 — executable model of the public-input encoders and of the in-circuit exposure

Field elements of the native field are naturals `< q` (the modulus is a parameter `q`); values of
emulated fields are naturals `< p`. Every definition names the Rust function it mirrors.
Import-free (core only).
-/
namespace MidnightZK.C08

/-! ## Limbs -/

/-- `field/foreign/util.rs: big_to_limbs / bi_to_limbs` — `n` little-endian limbs in base `2^w`
(the Rust function additionally panics when the value does not fit: see `fits`). -/
def toLimbs (w : Nat) : Nat → Nat → List Nat
  | 0, _ => []
  | n + 1, v => v % 2 ^ w :: toLimbs w n (v / 2 ^ w)

/-- `field/foreign/util.rs: big_from_limbs`. -/
def fromLimbs (w : Nat) : List Nat → Nat
  | [] => 0
  | l :: ls => l + 2 ^ w * fromLimbs w ls

/-- The panic condition of `big_to_limbs`, negated: the quotient left after `n` limbs is zero. -/
def fits (w n v : Nat) : Bool := v / 2 ^ (w * n) == 0

/-! ## Scalar types: bit, byte, native -/

/-- `native_chip.rs: impl Instantiable for AssignedBit` — `[if b {1} else {0}]`. -/
def encBit (q : Nat) (b : Bool) : List Nat := [(if b then 1 else 0) % q]

/-- `native_gadget.rs: impl Instantiable for AssignedByte` — `[F::from(b as u64)]`. -/
def encByte (q : Nat) (b : Nat) : List Nat := [b % q]

/-- `utils/types.rs: impl Instantiable for AssignedNative` — `[x]`. -/
def encNative (q : Nat) (x : Nat) : List Nat := [x % q]

/-! ## Emulated field elements -/

/-- A `FieldEmulationParams` instance: emulated modulus, `LOG2_BASE`, `NB_LIMBS`. -/
structure FParams where
  p : Nat
  w : Nat
  n : Nat
  deriving Repr, DecidableEq

/-- `field_chip.rs: impl Instantiable for AssignedField` — limbs of `x - 1` (in the emulated
field, i.e. `p - 1` for `x = 0`), each converted to the native field. -/
def encField (q : Nat) (P : FParams) (x : Nat) : List Nat :=
  (toLimbs P.w P.n ((x + P.p - 1) % P.p)).map (· % q)

/-- Left inverse of `encField` (what a verifier would do to read the value back). -/
def decField (P : FParams) (ls : List Nat) : Nat := (fromLimbs P.w ls + 1) % P.p

/-! ## Foreign (Weierstrass) points; `none` is the identity -/

/-- `pis[0] += a` in the native field (no-op on an empty vector; the Rust code would panic). -/
def addHead (q a : Nat) : List Nat → List Nat
  | [] => []
  | h :: t => (h + a) % q :: t

/-- `ecc/foreign/ecc_chip.rs: impl Instantiable for AssignedForeignPoint` — limbs of x, limbs of
y (coordinates `(0,0)` for the identity), and `2^LOG2_BASE` added to the first limb iff the
point is the identity. -/
def encPoint (q : Nat) (P : FParams) : Option (Nat × Nat) → List Nat
  | none => addHead q (2 ^ P.w % q) (encField q P 0 ++ encField q P 0)
  | some (x, y) => encField q P x ++ encField q P y

/-- `ecc_chip.rs: PublicInputInstructions::as_public_input` (in-circuit): the normalised limb
cells of `x` and `y`, and `pis[0] := linear_combination([(1, pis[0]), (2^LOG2_BASE, is_id)], 0)`.
`xl`, `yl` are the values of the limb cells, `isId` the value of the flag cell. -/
def cellsPoint (q : Nat) (P : FParams) (xl yl : List Nat) (isId : Nat) : List Nat :=
  match xl ++ yl with
  | [] => []
  | h :: t => ((1 % q) * h % q + (2 ^ P.w % q) * isId % q) % q :: t

/-- The in-circuit representation `assign` / `assign_point_unchecked` gives a point:
limbs of x-1 and y-1 (coordinates `(0,0)` for the identity) and the flag. -/
def reprPoint (q : Nat) (P : FParams) : Option (Nat × Nat) → List Nat × List Nat × Nat
  | none => (encField q P 0, encField q P 0, 1)
  | some (x, y) => (encField q P x, encField q P y, 0)

/-! ## Jubjub points and scalars -/

/-- `edwards_chip.rs: impl Instantiable for AssignedNativePoint` — affine `[x, y]`. -/
def encJPoint (q : Nat) (xy : Nat × Nat) : List Nat := [xy.1 % q, xy.2 % q]

/-- `circuit_field.rs: to_bits_le(Some n)` — the `n` low bits, little-endian. -/
def bitsLE : Nat → Nat → List Bool
  | 0, _ => []
  | n + 1, v => (v % 2 == 1) :: bitsLE n (v / 2)

/-- `circuit_field.rs: from_bits_le` / `assigned_from_le_bits` as an integer. -/
def fromBitsLE : List Bool → Nat
  | [] => 0
  | b :: bs => (if b then 1 else 0) + 2 * fromBitsLE bs

/-- Rust `slice::chunks(k)` (fuel = length; `k = 0` panics in Rust, here it yields `[]`s). -/
def chunksAux {α : Type} (k : Nat) : Nat → List α → List (List α)
  | 0, _ => []
  | _ + 1, [] => []
  | fuel + 1, x :: xs => (x :: xs).take k :: chunksAux k fuel ((x :: xs).drop k)

def chunks {α : Type} (k : Nat) (l : List α) : List (List α) := chunksAux k l.length l

/-- Both `edwards_chip.rs: impl Instantiable for AssignedScalarOfNativeCurve` (off-circuit, on
the `NUM_BITS_SUBGROUP` bits of the scalar) and `PublicInputInstructions::as_public_input`
(in-circuit, on the bit vector the assigned scalar happens to have): the bits are aggregated in
batches of `F::NUM_BITS - 1`. -/
def encBitVec (q batch : Nat) (bits : List Bool) : List Nat :=
  (chunks batch bits).map (fun c => fromBitsLE c % q)

/-- Off-circuit encoder of a Jubjub scalar: `nbits = NUM_BITS_SUBGROUP`, `numBitsF = F::NUM_BITS`. -/
def encJScalar (q nbits numBitsF : Nat) (s : Nat) : List Nat :=
  encBitVec q (numBitsF - 1) (bitsLE nbits s)

/-- `circuit_field.rs: to_bits_le(None)` — trailing zeros stripped, at least one bit. -/
def minBits (v : Nat) : Nat := if v = 0 then 1 else v.log2 + 1

/-! ## Big unsigned integers -/

def ceilDiv (a b : Nat) : Nat := (a + b - 1) / b

/-- `biguint/types.rs: AssignedBigUint::as_public_input(v, nb_bits)` —
`biguint_to_limbs(v, Some(nb_bits.div_ceil(LOG2_BASE)))`; `none` = the Rust code panics. -/
def encBig (q w : Nat) (nbBits v : Nat) : Option (List Nat) :=
  let n := ceilDiv nbBits w
  if fits w n v then some ((toLimbs w n v).map (· % q)) else none

/-- `biguint/types.rs: AssignedBigUint::nb_bits` — bit length of `Σ (2^bᵢ − 1)·2^(w·i)`. -/
def boundValue (w : Nat) : List Nat → Nat
  | [] => 0
  | b :: bs => (2 ^ b - 1) + 2 ^ w * boundValue w bs

def bitLen (v : Nat) : Nat := if v = 0 then 0 else v.log2 + 1

def nbBitsOf (w : Nat) (bounds : List Nat) : Nat := bitLen (boundValue w bounds)

/-- `biguint_gadget.rs: constrain_as_public_input` — the guard evaluated before anything is
exposed: `if nb_bits != assigned.nb_bits() { return Err(Error::Synthesis(..)) }`. `true` = the
exposure goes ahead. -/
def bigExposeGuard (w : Nat) (bounds : List Nat) (nbBits : Nat) : Bool :=
  !(nbBits != nbBitsOf w bounds)

/-- `biguint_gadget.rs: constrain_as_public_input` exposes the limbs of `normalize(x)`:
`x` itself when every bound is `≤ LOG2_BASE`, else `nb_bits.div_ceil(LOG2_BASE)` fresh limbs. -/
def exposedLimbCount (w : Nat) (bounds : List Nat) : Nat :=
  if bounds.all (· ≤ w) then bounds.length else ceilDiv (nbBitsOf w bounds) w

/-- Limb bounds given by `assign_bounded(nb_bits)` (and `assign_fixed_biguint`):
all `LOG2_BASE` except the most significant one, `(nb_bits − 1) % LOG2_BASE + 1`. -/
def assignBounds (w nbBits : Nat) : List Nat :=
  let n := ceilDiv (max nbBits 1) w
  List.replicate (n - 1) w ++ [(nbBits - 1) % w + 1]

/-- Limb bounds given by `from_le_bytes` on `nbytes` bytes. -/
def bytesBounds (w nbytes : Nat) : List Nat :=
  (chunks (w / 8) (List.replicate nbytes ())).map (fun c => 8 * c.length)

/-! ## Verifying keys, MSMs, accumulators -/

/-- `verifier/mod.rs: impl Instantiable for AssignedVk` — `[vk.transcript_repr()]`. -/
def encVk (q : Nat) (repr : Nat) : List Nat := [repr % q]

/-- `verifier/msm.rs: Msm` — bases, scalars, fixed-base scalars (in `BTreeMap` key order). -/
structure Msm where
  bases : List (Option (Nat × Nat))
  scalars : List Nat
  fixed : List Nat
  deriving Repr, DecidableEq

/-- `verifier/msm.rs: impl Instantiable for AssignedMsm`. -/
def encMsm (q : Nat) (P : FParams) (m : Msm) : List Nat :=
  m.bases.flatMap (encPoint q P) ++ m.scalars.map (· % q) ++ m.fixed.map (· % q)

/-- `verifier/msm.rs: as_public_input_with_committed_scalars` — (plain, committed). -/
def encMsmCommitted (q : Nat) (P : FParams) (m : Msm) : List Nat × List Nat :=
  (m.bases.flatMap (encPoint q P), m.scalars.map (· % q) ++ m.fixed.map (· % q))

/-- `verifier/accumulator.rs: impl Instantiable for AssignedAccumulator` — lhs then rhs. -/
def encAcc (q : Nat) (P : FParams) (lhs rhs : Msm) : List Nat :=
  encMsm q P lhs ++ encMsm q P rhs

/-- `verifier/accumulator.rs: as_public_input_with_committed_scalars`. -/
def encAccCommitted (q : Nat) (P : FParams) (lhs rhs : Msm) : List Nat × List Nat :=
  let r := encMsmCommitted q P rhs
  (encMsm q P lhs ++ r.1, r.2)

/-- `verifier/msm.rs: AssignedMsm::constrain_as_public_input` (in-circuit): each base through the
curve chip's exposure (limb cells and flag), then the scalar cells, then the fixed-base scalar
cells in `BTreeMap` order. -/
def cellsMsm (q : Nat) (P : FParams) (m : Msm) : List Nat :=
  m.bases.flatMap (fun b => let r := reprPoint q P b; cellsPoint q P r.1 r.2.1 r.2.2)
    ++ m.scalars.map (· % q) ++ m.fixed.map (· % q)

/-- `verifier_gadget.rs: constrain_as_public_input` for accumulators: lhs then rhs, all on the
plain instance column. -/
def cellsAcc (q : Nat) (P : FParams) (lhs rhs : Msm) : List Nat := cellsMsm q P lhs ++ cellsMsm q P rhs

/-- `verifier_gadget.rs: constrain_acc_as_public_input_with_committed_scalars`: lhs and the
rhs bases on the plain column, the rhs scalars (variable then fixed) on the committed column. -/
def cellsAccCommitted (q : Nat) (P : FParams) (lhs rhs : Msm) : List Nat × List Nat :=
  (cellsMsm q P lhs ++ rhs.bases.flatMap (fun b => let r := reprPoint q P b; cellsPoint q P r.1 r.2.1 r.2.2),
   rhs.scalars.map (· % q) ++ rhs.fixed.map (· % q))

/-! ## The instance-row counter and what an exposure binds -/

/-- `native_chip.rs: NativeChip` — the two instance offsets and (for the model) the copy
constraints `layouter.constrain_instance(cell, column, offset)` made so far, as
`(row, value of the cell)`. -/
structure Chip where
  offset : Nat := 0
  comOffset : Nat := 0
  binds : List (Nat × Nat) := []
  comBinds : List (Nat × Nat) := []
  deriving Repr

/-- `native_chip.rs: constrain_as_public_input` — bind the cell to row `offset`, then
`offset += 1`. -/
def Chip.constrain (c : Chip) (cell : Nat) : Chip :=
  { c with binds := c.binds ++ [(c.offset, cell)], offset := c.offset + 1 }

/-- `native_chip.rs: constrain_as_committed_public_input`. -/
def Chip.constrainCommitted (c : Chip) (cell : Nat) : Chip :=
  { c with comBinds := c.comBinds ++ [(c.comOffset, cell)], comOffset := c.comOffset + 1 }

/-- `….iter().try_for_each(|c| native_gadget.constrain_as_public_input(layouter, c))`. -/
def Chip.constrainAll (c : Chip) (cells : List Nat) : Chip := cells.foldl Chip.constrain c

def Chip.constrainAllCommitted (c : Chip) (cells : List Nat) : Chip :=
  cells.foldl Chip.constrainCommitted c

/-- `native_chip.rs: nb_public_inputs` (stored in `MidnightVK` by `setup_vk`). -/
def Chip.nbPublicInputs (c : Chip) : Nat := c.offset

/-- Copy constraints onto an instance column hold for the instance vector `inst`
(rows beyond its length are zero padding, as in `MockProver::run` and in the verifier's
Lagrange interpolation of the instance). -/
def holdsB (binds : List (Nat × Nat)) (inst : List Nat) : Bool :=
  binds.all (fun rv => inst.getD rv.1 0 == rv.2)

def Holds (binds : List (Nat × Nat)) (inst : List Nat) : Prop :=
  ∀ rv ∈ binds, inst.getD rv.1 0 = rv.2

/-- Replace position `i` of `l` by `l[i] + 1 (mod q)`. -/
def bump (q : Nat) (l : List Nat) (i : Nat) : List Nat :=
  l.modify i (fun x => (x + 1) % q)

/-- Number of single-position edits (+1) of `enc` that violate `binds`. -/
def rejectedEdits (q : Nat) (binds : List (Nat × Nat)) (enc : List Nat) : Nat :=
  ((List.range enc.length).filter (fun i => !holdsB binds (bump q enc i))).length

/-- Number of the listed single-position edits (+1) of `enc` that violate `binds`. -/
def rejectedEditsAt (q : Nat) (binds : List (Nat × Nat)) (enc : List Nat) (positions : List Nat) : Nat :=
  (positions.filter (fun i => !holdsB binds (bump q enc i))).length

/-- `zk_stdlib/src/lib.rs: verify / batch_verify` — the length check made before the PLONK
verifier runs: `if pi.len() != vk.nb_public_inputs { return Err(Error::InvalidInstances) }`. -/
def lengthCheck (nbPublicInputs : Nat) (pi : List Nat) : Bool := pi.length == nbPublicInputs

end MidnightZK.C08
