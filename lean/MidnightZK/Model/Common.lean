/-!
Shared helpers of the executable models and of the line-protocol driver.
Import-free (core only) so that `mzk` links without Mathlib.
-/
namespace MidnightZK

/-- Parse a hexadecimal string (no prefix, any case). -/
def parseHex? (s : String) : Option Nat :=
  if s.isEmpty then none else
  s.foldl (fun acc c =>
    match acc with
    | none => none
    | some n =>
      if '0' ≤ c ∧ c ≤ '9' then some (n * 16 + (c.toNat - '0'.toNat))
      else if 'a' ≤ c ∧ c ≤ 'f' then some (n * 16 + (c.toNat - 'a'.toNat + 10))
      else if 'A' ≤ c ∧ c ≤ 'F' then some (n * 16 + (c.toNat - 'A'.toNat + 10))
      else none) (some 0)

/-- Decimal, or hexadecimal with a `0x` prefix. -/
def parseNat? (s : String) : Option Nat :=
  if s.startsWith "0x" then parseHex? (s.drop 2).toString else s.toNat?

def parseInt? (s : String) : Option Int :=
  if s.startsWith "-" then (parseNat? (s.drop 1).toString).map (fun n => - (n : Int))
  else (parseNat? s).map (fun n => (n : Int))

/-- Comma-separated list of naturals; `-` or the empty string is the empty list. -/
def parseNatList? (s : String) : Option (List Nat) :=
  if s = "-" ∨ s.isEmpty then some [] else
  (s.splitOn ",").mapM parseNat?

def parseIntList? (s : String) : Option (List Int) :=
  if s = "-" ∨ s.isEmpty then some [] else
  (s.splitOn ",").mapM parseInt?

def hexDigit (n : Nat) : Char :=
  if n < 10 then Char.ofNat ('0'.toNat + n) else Char.ofNat ('a'.toNat + (n - 10))

partial def toHexAux (n : Nat) (acc : List Char) : List Char :=
  if n < 16 then hexDigit n :: acc else toHexAux (n / 16) (hexDigit (n % 16) :: acc)

def toHex (n : Nat) : String := "0x" ++ String.ofList (toHexAux n [])

def fmtNatList (l : List Nat) : String :=
  if l.isEmpty then "-" else ",".intercalate (l.map toString)

def fmtHexList (l : List Nat) : String :=
  if l.isEmpty then "-" else ",".intercalate (l.map toHex)

def fmtIntList (l : List Int) : String :=
  if l.isEmpty then "-" else ",".intercalate (l.map toString)

def fmtBool (b : Bool) : String := if b then "1" else "0"

/-- Split a request line into whitespace-separated words. -/
def words (line : String) : List String :=
  (line.trimAscii.toString.splitOn " ").filter (· ≠ "")

/-- Read lines from a stream, answer each with `f`, print the answers. -/
partial def lineLoop (h : IO.FS.Stream) (out : IO.FS.Stream) (f : String → String) : IO Unit := do
  let line ← h.getLine
  if line.isEmpty then return ()
  out.putStrLn (f line)
  lineLoop h out f

/-- Stateful variant. -/
partial def lineLoopSt {σ : Type} (h : IO.FS.Stream) (out : IO.FS.Stream)
    (f : σ → String → σ × String) (s : σ) : IO Unit := do
  let line ← h.getLine
  if line.isEmpty then return ()
  let (s', o) := f s line
  out.putStrLn o
  lineLoopSt h out f s'

end MidnightZK
