import MidnightZK.Model.C18.Types
/-!
# C18 model — binary serialisation of a program (`zkir.rs: write_relation / read_relation`)

`bincode` 2 with `config::standard()` (little endian, variable-length integers) applied to the
derived `Encode`/`Decode` of `Program { instructions: Vec<Instruction> }`,
`Instruction { operation, inputs, outputs }`, `Operation` and `IrType`. Names are written as
their UTF-8 bytes (`impl Encode for String`: `as_bytes().encode`). The decoder
(`read_relation`) is in `BinDec.lean`. Import-free.
-/
namespace MidnightZK.C18

/-- `n` little-endian bytes of `v`. -/
def leBytes : Nat → Nat → List Nat
  | 0, _ => []
  | n + 1, v => (v % 256) :: leBytes n (v / 256)

/-- bincode varint: one byte below 251, else a marker byte and 2 / 4 / 8 / 16 bytes. -/
def encVarint (v : Nat) : List Nat :=
  if v < 251 then [v]
  else if v < 2 ^ 16 then 251 :: leBytes 2 v
  else if v < 2 ^ 32 then 252 :: leBytes 4 v
  else if v < 2 ^ 64 then 253 :: leBytes 8 v
  else 254 :: leBytes 16 v

/-- `str::as_bytes`: the UTF-8 bytes of a name. -/
def strBytes (s : String) : List Nat := s.toByteArray.data.toList.map UInt8.toNat

/-- `String::from_utf8` on a byte string (`none` = not well-formed UTF-8). -/
def bytesStr? (bs : List Nat) : Option String :=
  String.fromUTF8? (ByteArray.mk (bs.map Nat.toUInt8).toArray)

def encString (s : String) : List Nat :=
  encVarint (strBytes s).length ++ strBytes s

def encStrings (l : List String) : List Nat :=
  encVarint l.length ++ l.flatMap encString

def encType : IrType → List Nat
  | .bool => [0]
  | .bytes n => 1 :: encVarint n
  | .native => [2]
  | .big n => 3 :: encVarint n
  | .point => [4]
  | .scalar => [5]

def encOp : Op → List Nat
  | .load t => 0 :: encType t
  | .publish => [1]
  | .assertEq => [2]
  | .assertNe => [3]
  | .isEq => [4]
  | .add => [5]
  | .sub => [6]
  | .mul => [7]
  | .neg => [8]
  | .modExp n => 9 :: encVarint n
  | .innerProduct => [10]
  | .affine => [11]
  | .intoBytes n => 12 :: encVarint n
  | .fromBytes t => 13 :: encType t
  | .poseidon => [14]
  | .sha256 => [15]
  | .sha512 => [16]

def encInstr (i : Instr) : List Nat := encOp i.op ++ encStrings i.ins ++ encStrings i.outs

/-- `write_relation`: the bytes of a program. -/
def encodeBin (p : Program) : List Nat := encVarint p.length ++ p.flatMap encInstr

end MidnightZK.C18
