import MidnightZK.Model.C18.Types
/-!
# C18 model — limb-size bookkeeping of the in-circuit BigUint gadget

Mirrors the *compile-time* part of `circuits/src/biguint/{types.rs, biguint_gadget.rs}`:
an `AssignedBigUint` carries `limb_size_bounds`, from which `nb_bits()` — the in-circuit
`IrType::BigUint(n)` recorded for public inputs — is derived. A shape is the list of limb
bounds (little-endian). Panics of the Rust code (`resize`, `normalize` overflow, `nb_bits - 1`)
are the `Err.panic` branches. Import-free.
-/
namespace MidnightZK.C18

/-- `biguint/types.rs: LOG2_BASE`. -/
def LOG2_BASE : Nat := 96

abbrev Shape := List Nat

/-- `types.rs: bound_of_addition`. -/
def boundOfAddition (b1 b2 : Nat) : Nat :=
  if b1 = 0 then b2 else if b2 = 0 then b1 else 1 + max b1 b2

/-- The largest value the limb bounds allow: `Σ (2^bᵢ − 1)·2^(96 i)`. -/
def shapeMax : Shape → Nat
  | [] => 0
  | b :: rest => shapeMax rest * 2 ^ LOG2_BASE + (2 ^ b - 1)

/-- `types.rs: AssignedBigUint::nb_bits`. -/
def nbBits (s : Shape) : Nat := bitLen (shapeMax s)

/-- `types.rs: is_normalized`. -/
def isNormalized (s : Shape) : Bool := s.all (· ≤ LOG2_BASE)

/-- Shape produced by `assign_bounded` / `assign_fixed_biguint` for a value of `nb ≥ 1` bits:
all limbs 96 bits except the most significant one. -/
def boundedShape (nb : Nat) : Shape :=
  List.replicate (divCeil nb LOG2_BASE - 1) LOG2_BASE ++ [(nb - 1) % LOG2_BASE + 1]

/-- `biguint_gadget.rs: assign_bounded` (shape part); `nb_bits = 0` underflows `nb_bits - 1`. -/
def assignBoundedShape (nb : Nat) : Except Err Shape :=
  if nb = 0 then .error (.panic "attempt to subtract with overflow") else .ok (boundedShape nb)

/-- `biguint_gadget.rs: assign_fixed_biguint` (shape part). -/
def fixedShape (c : Nat) : Shape := boundedShape (max (bitLen c) 1)

/-- `biguint_gadget.rs: resize` (shape part). -/
def resizeShape (n : Nat) (s : Shape) : Except Err Shape :=
  if s.length > n then .error (.panic "resize: the number of limbs is greater than the desired size")
  else .ok (s ++ List.replicate (n - s.length) 0)

/-- The carry loop of `normalize`: fails (panics) when a payload bound reaches `F::NUM_BITS`. -/
def normalizeLoop : Nat → Shape → Bool
  | _, [] => true
  | carry, b :: rest =>
    let payload := boundOfAddition carry b
    if payload ≥ FBits then false else normalizeLoop (max payload LOG2_BASE - LOG2_BASE) rest

/-- `biguint_gadget.rs: normalize` (shape part). -/
def normalizeShape (s : Shape) : Except Err Shape :=
  if isNormalized s then .ok s else
  let n := divCeil (nbBits s) LOG2_BASE
  match resizeShape n s with
  | .error e => .error e
  | .ok s' =>
    if normalizeLoop 0 s' then .ok (List.replicate n LOG2_BASE)
    else .error (.panic "normalize: overflow over native modulus")

/-- Limb-wise bounds of a sum before normalisation. -/
def addBounds : Shape → Shape → Shape
  | [], ys => ys
  | xs, [] => xs
  | x :: xs, y :: ys => boundOfAddition x y :: addBounds xs ys

/-- `biguint_gadget.rs: add` (shape part). -/
def addShape (x y : Shape) : Except Err Shape := normalizeShape (addBounds x y)

/-- Accumulates `bound_of_addition(acc[i+j], x[i] + y[j])` over one row `i` of the schoolbook
product (`acc` is indexed from position `i`). -/
def mulRow (xi : Nat) : Shape → Shape → Shape
  | acc, [] => acc
  | [], _ => []
  | a :: acc, yj :: ys => boundOfAddition a (xi + yj) :: mulRow xi acc ys

/-- All rows: row `i` acts on the accumulator shifted by `i`. -/
def mulRows : Shape → Shape → Shape → Shape
  | [], _, acc => acc
  | xi :: xs, ys, acc =>
    match mulRow xi acc ys with
    | [] => []
    | a :: acc' => a :: mulRows xs ys acc'

/-- `biguint_gadget.rs: mul` (shape part); two limbless operands underflow
`x.limbs.len() + y.limbs.len() - 1`. -/
def mulShape (x y : Shape) : Except Err Shape :=
  match normalizeShape x with
  | .error e => .error e
  | .ok x' => match normalizeShape y with
    | .error e => .error e
    | .ok y' =>
      if x'.length + y'.length = 0 then .error (.panic "attempt to subtract with overflow") else
      normalizeShape (mulRows x' y' (List.replicate (x'.length + y'.length - 1) 0))

/-- `assert_equal` / `is_equal` / `geq` assert that both operands are normalised. -/
def requireNormalized (x y : Shape) : Except Err Unit :=
  if isNormalized x && isNormalized y then .ok () else .error (.panic "assertion failed: is_normalized()")

/-- `biguint_gadget.rs: sub` (shape part): the result is `assign_bounded(x.nb_bits())`. -/
def subShape (x y : Shape) : Except Err Shape :=
  match assignBoundedShape (nbBits x) with
  | .error e => .error e
  | .ok res => match addShape res y with
    | .error e => .error e
    | .ok z => match requireNormalized x z with
      | .error e => .error e
      | .ok () => .ok res

/-- `biguint_gadget.rs: div_rem` (shape part): quotient and remainder shapes. -/
def divRemShape (x y : Shape) : Except Err (Shape × Shape) :=
  match assignBoundedShape (nbBits x) with
  | .error e => .error e
  | .ok q => match assignBoundedShape (nbBits y) with
    | .error e => .error e
    | .ok r => match mulShape q y with
      | .error e => .error e
      | .ok qy => match addShape qy r with
        | .error e => .error e
        | .ok s => match requireNormalized x s with
          | .error e => .error e
          | .ok () => match requireNormalized r y with
            | .error e => .error e
            | .ok () => .ok (q, r)

/-- `biguint_gadget.rs: mod_mul` (shape part). -/
def modMulShape (x y m : Shape) : Except Err Shape :=
  match mulShape x y with
  | .error e => .error e
  | .ok p => (divRemShape p m).map (·.2)

/-- The square-and-multiply loop of `mod_exp` (`n ≥ 2`), fuel = number of bits of a `u64`. -/
def modExpLoop (m : Shape) : Nat → Nat → Shape → Option Shape → Except Err (Option Shape)
  | 0, _, _, res => .ok res
  | fuel + 1, n, tmp, res =>
    if n = 0 then .ok res else
    let res' : Except Err (Option Shape) :=
      if n % 2 = 1 then
        match res with
        | none => .ok (some tmp)
        | some acc => (modMulShape acc tmp m).map some
      else .ok res
    match res' with
    | .error e => .error e
    | .ok res' =>
      if n / 2 > 0 then
        match modMulShape tmp tmp m with
        | .error e => .error e
        | .ok tmp' => modExpLoop m fuel (n / 2) tmp' res'
      else .ok res'

/-- `biguint_gadget.rs: mod_exp` (shape part). -/
def modExpShape (x : Shape) (n : Nat) (m : Shape) : Except Err Shape :=
  if n = 0 then (divRemShape (fixedShape 1) m).map (·.2)
  else if n = 1 then (divRemShape x m).map (·.2)
  else match modExpLoop m 64 n x none with
    | .error e => .error e
    | .ok (some r) => .ok r
    | .ok none => .error (.panic "called `Option::unwrap()` on a `None` value")

/-- `biguint_gadget.rs: from_le_bytes` (shape part): 12 bytes per limb, the last chunk may be
shorter. -/
def fromBytesShape (n : Nat) : Shape :=
  List.replicate (n / 12) LOG2_BASE ++ (if n % 12 = 0 then [] else [8 * (n % 12)])

end MidnightZK.C18
