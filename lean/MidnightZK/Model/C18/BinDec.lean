import MidnightZK.Model.C18.Bin
/-!
# C18 model — binary deserialisation of a program (`zkir.rs: read_relation`)

`bincode::decode_from_std_read::<Program, _>(reader, config::standard().with_limit::<LIMIT>())`
followed by `from_instructions` (arity check, `Types.lean: loadProgram`). Third-party code,
modelled from bincode 2.0.1:

* `varint/decode_unsigned.rs`: a first byte `≤ 250` is the value; `251/252/253` announce a
  little-endian `u16/u32/u64`; a marker wider than the target type, `254` (u128) and `255`
  (reserved) are `InvalidIntegerType` errors. **Non-minimal encodings are accepted** (the value
  5 may be written `fb 05 00`): the flag `strict` of this model rejects them and is *not* what
  the real decoder does — it exists to state exactly which non-canonical inputs are tolerated.
* derived `Decode` of enums: a `u32` variant index, then the payload; unknown index =
  `UnexpectedVariant`. `usize`/`u64` payloads claim 8 bytes, `u32` ones 4.
* `Vec<T>`: `u64` length, `claim_container_read::<T>(len)` (= `len * size_of::<T>()` against the
  limit), then per element `unclaim_bytes_read(size_of::<T>())` and the element.
  `String`: `Vec<u8>` (length, claim `len`, `len` bytes) then `String::from_utf8`.
* `de/decoder.rs: claim_bytes_read`: error `LimitExceeded` when the running total exceeds the limit.
* the reader is left after the last byte consumed: trailing bytes are *not* an error
  (`read_relation` is used inside `MidnightPK::read`, other data follows).

Import-free.
-/
namespace MidnightZK.C18

/-- Error classes of `bincode::error::DecodeError` that `read_relation` can produce. -/
inductive DErr
  /-- `Io { UnexpectedEof }` / `UnexpectedEnd`. -/
  | eof
  /-- `InvalidIntegerType`. -/
  | varint
  /-- `UnexpectedVariant`. -/
  | tag
  /-- `Utf8`. -/
  | utf8
  /-- `LimitExceeded`. -/
  | limit
  /-- only with `strict := true` (not a bincode error): a varint wider than necessary. -/
  | nonMinimal
  deriving DecidableEq, Repr, Inhabited

/-- What depends on the compiled code: `size_of::<Instruction>()`, `size_of::<String>()` and
`PROGRAM_DECODING_LIMIT`. -/
structure BParams where
  sizeInstr : Nat
  sizeString : Nat
  limit : Nat
  deriving Repr

/-- Decoder state: remaining input, bytes claimed against the limit. -/
structure DState where
  input : List Nat
  claimed : Nat
  deriving Repr, DecidableEq

/-- `claim_bytes_read`. -/
def claim (P : BParams) (n c : Nat) : Except DErr Nat :=
  if c + n > P.limit then .error .limit else .ok (c + n)

/-- `Reader::read` of exactly `n` bytes. -/
def takeN (n : Nat) (bs : List Nat) : Except DErr (List Nat × List Nat) :=
  if n ≤ bs.length then .ok (bs.take n, bs.drop n) else .error .eof

/-- Smallest value that needs the marker `m` (251: u16, 252: u32, 253: u64). -/
def markerMin (m : Nat) : Nat := if m = 251 then 251 else if m = 252 then 2 ^ 16 else 2 ^ 32

/-- `varint_decode_u32` (`mx = 252`) / `varint_decode_u64`, `_usize` (`mx = 253`). -/
def decVarint (strict : Bool) (mx : Nat) : List Nat → Except DErr (Nat × List Nat)
  | [] => .error .eof
  | b :: rest =>
    if b ≤ 250 then .ok (b, rest)
    else if b > mx ∨ b ≥ 254 then .error .varint
    else
      match takeN (if b = 251 then 2 else if b = 252 then 4 else 8) rest with
      | .error e => .error e
      | .ok (v, r) =>
        if strict && leBytesToNat v < markerMin b then .error .nonMinimal
        else .ok (leBytesToNat v, r)

/-- `<u32|u64|usize as Decode>::decode`: claim the width `w` of the type, then the varint. -/
def decU (strict : Bool) (P : BParams) (w mx : Nat) (s : DState) : Except DErr (Nat × DState) :=
  match claim P w s.claimed with
  | .error e => .error e
  | .ok c =>
    match decVarint strict mx s.input with
    | .error e => .error e
    | .ok (v, r) => .ok (v, ⟨r, c⟩)

def decU32 (strict : Bool) (P : BParams) := decU strict P 4 252
def decU64 (strict : Bool) (P : BParams) := decU strict P 8 253

/-- `<String as Decode>::decode`. -/
def decString (strict : Bool) (P : BParams) (s : DState) : Except DErr (String × DState) :=
  match decU64 strict P s with
  | .error e => .error e
  | .ok (len, s1) =>
    match claim P len s1.claimed with
    | .error e => .error e
    | .ok c =>
      match takeN len s1.input with
      | .error e => .error e
      | .ok (a, r) =>
        match bytesStr? a with
        | none => .error .utf8
        | some str => .ok (str, ⟨r, c⟩)

/-- The element loop of `<Vec<String> as Decode>::decode`. -/
def decStringsLoop (strict : Bool) (P : BParams) : Nat → DState → Except DErr (List String × DState)
  | 0, s => .ok ([], s)
  | n + 1, s =>
    match decString strict P ⟨s.input, s.claimed - P.sizeString⟩ with
    | .error e => .error e
    | .ok (x, s1) =>
      match decStringsLoop strict P n s1 with
      | .error e => .error e
      | .ok (xs, s2) => .ok (x :: xs, s2)

/-- `<Vec<String> as Decode>::decode`. -/
def decStrings (strict : Bool) (P : BParams) (s : DState) : Except DErr (List String × DState) :=
  match decU64 strict P s with
  | .error e => .error e
  | .ok (len, s1) =>
    match claim P (len * P.sizeString) s1.claimed with
    | .error e => .error e
    | .ok c => decStringsLoop strict P len ⟨s1.input, c⟩

/-- derived `Decode` of `IrType`. -/
def decType (strict : Bool) (P : BParams) (s : DState) : Except DErr (IrType × DState) :=
  match decU32 strict P s with
  | .error e => .error e
  | .ok (tag, s1) =>
    match tag with
    | 0 => .ok (.bool, s1)
    | 1 => match decU64 strict P s1 with
      | .error e => .error e
      | .ok (n, s2) => .ok (.bytes n, s2)
    | 2 => .ok (.native, s1)
    | 3 => match decU32 strict P s1 with
      | .error e => .error e
      | .ok (n, s2) => .ok (.big n, s2)
    | 4 => .ok (.point, s1)
    | 5 => .ok (.scalar, s1)
    | _ => .error .tag

/-- derived `Decode` of `Operation`. -/
def decOp (strict : Bool) (P : BParams) (s : DState) : Except DErr (Op × DState) :=
  match decU32 strict P s with
  | .error e => .error e
  | .ok (tag, s1) =>
    match tag with
    | 0 => match decType strict P s1 with
      | .error e => .error e
      | .ok (t, s2) => .ok (.load t, s2)
    | 1 => .ok (.publish, s1)
    | 2 => .ok (.assertEq, s1)
    | 3 => .ok (.assertNe, s1)
    | 4 => .ok (.isEq, s1)
    | 5 => .ok (.add, s1)
    | 6 => .ok (.sub, s1)
    | 7 => .ok (.mul, s1)
    | 8 => .ok (.neg, s1)
    | 9 => match decU64 strict P s1 with
      | .error e => .error e
      | .ok (n, s2) => .ok (.modExp n, s2)
    | 10 => .ok (.innerProduct, s1)
    | 11 => .ok (.affine, s1)
    | 12 => match decU64 strict P s1 with
      | .error e => .error e
      | .ok (n, s2) => .ok (.intoBytes n, s2)
    | 13 => match decType strict P s1 with
      | .error e => .error e
      | .ok (t, s2) => .ok (.fromBytes t, s2)
    | 14 => .ok (.poseidon, s1)
    | 15 => .ok (.sha256, s1)
    | 16 => .ok (.sha512, s1)
    | _ => .error .tag

/-- derived `Decode` of `Instruction` (fields in declaration order). -/
def decInstr (strict : Bool) (P : BParams) (s : DState) : Except DErr (Instr × DState) :=
  match decOp strict P s with
  | .error e => .error e
  | .ok (op, s1) =>
    match decStrings strict P s1 with
    | .error e => .error e
    | .ok (ins, s2) =>
      match decStrings strict P s2 with
      | .error e => .error e
      | .ok (outs, s3) => .ok (⟨op, ins, outs⟩, s3)

/-- The element loop of `<Vec<Instruction> as Decode>::decode`. -/
def decInstrsLoop (strict : Bool) (P : BParams) : Nat → DState → Except DErr (Program × DState)
  | 0, s => .ok ([], s)
  | n + 1, s =>
    match decInstr strict P ⟨s.input, s.claimed - P.sizeInstr⟩ with
    | .error e => .error e
    | .ok (x, s1) =>
      match decInstrsLoop strict P n s1 with
      | .error e => .error e
      | .ok (xs, s2) => .ok (x :: xs, s2)

/-- derived `Decode` of `Program { instructions: Vec<Instruction> }` from a fresh decoder:
the program and the unread rest of the input. -/
def decodeBinPrefix (strict : Bool) (P : BParams) (bs : List Nat) : Except DErr (Program × List Nat) :=
  match decU64 strict P ⟨bs, 0⟩ with
  | .error e => .error e
  | .ok (len, s1) =>
    match claim P (len * P.sizeInstr) s1.claimed with
    | .error e => .error e
    | .ok c =>
      match decInstrsLoop strict P len ⟨s1.input, c⟩ with
      | .error e => .error e
      | .ok (p, s2) => .ok (p, s2.input)

/-- The bincode part of `read_relation` as the real code runs it (`strict := false`); trailing
bytes are dropped (left in the reader). -/
def decodeBin (P : BParams) (bs : List Nat) : Except DErr Program :=
  match decodeBinPrefix false P bs with
  | .error e => .error e
  | .ok (p, _) => .ok p

/-- Outcome classes of `ZkirRelation::read_relation`. -/
inductive ReadErr
  | decode (e : DErr)
  | load (e : Err)
  deriving DecidableEq, Repr

/-- `zkir.rs: ZkirRelation::read_relation`: decode under the limit, then `from_instructions`. -/
def readRelation (P : BParams) (bs : List Nat) : Except ReadErr (Program × List Nat) :=
  match decodeBinPrefix false P bs with
  | .error e => .error (.decode e)
  | .ok (p, rest) =>
    match loadProgram p with
    | .error e => .error (.load e)
    | .ok () => .ok (p, rest)

end MidnightZK.C18
