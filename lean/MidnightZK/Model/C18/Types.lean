import MidnightZK.Model.C18.Jubjub
/-!
# C18 model — ZKIR types, values, operations, instructions, errors, arity table

Mirrors `zkir/src/types.rs` (`IrType`, `IrValue`, `get_type`, `check_type`),
`zkir/src/instructions/operations/mod.rs` (`Operation`, 17 variants),
`zkir/src/instructions/mod.rs` (`Instruction`), `zkir/src/error.rs` (`Error`) and
`zkir/src/instructions/arity.rs`. Import-free.
-/
namespace MidnightZK.C18

/-- `types.rs: enum IrType`. -/
inductive IrType
  | bool
  | bytes (n : Nat)
  | native
  | big (n : Nat)
  | point
  | scalar
  deriving DecidableEq, Repr, Inhabited

/-- `types.rs: enum IrValue`. Field elements, integers and scalars are canonical naturals,
bytes are naturals `< 256`, points are affine `(u, v)`. -/
inductive IrValue
  | bool (b : Bool)
  | bytes (bs : List Nat)
  | native (x : Nat)
  | big (x : Nat)
  | point (u v : Nat)
  | scalar (s : Nat)
  deriving DecidableEq, Repr, Inhabited

/-- `operations/mod.rs: enum Operation` (the 17 operations, in declaration order). -/
inductive Op
  | load (t : IrType)
  | publish
  | assertEq
  | assertNe
  | isEq
  | add
  | sub
  | mul
  | neg
  | modExp (n : Nat)
  | innerProduct
  | affine
  | intoBytes (n : Nat)
  | fromBytes (t : IrType)
  | poseidon
  | sha256
  | sha512
  deriving DecidableEq, Repr, Inhabited

/-- `instructions/mod.rs: struct Instruction`. -/
structure Instr where
  op : Op
  ins : List String
  outs : List String
  deriving DecidableEq, Repr, Inhabited

abbrev Program := List Instr

/-- `error.rs: enum Error`; the `Other(String)` variant is split into the message classes the
code produces; `panic` stands for a Rust panic (never an `Error` value). -/
inductive Err
  | arity (op : Op)
  | notFound (name : String)
  | dup (name : String)
  | expecting (want got : IrType)
  | unsupported (op : Op) (ts : List IrType)
  /-- "assertion violated: .." -/
  | assertion
  /-- "underflow subtracting .." -/
  | underflow
  /-- "cannot convert {value} to Bytes(n)" / "cannot convert {bytes} to JubjubPoint" -/
  | cannotConvert
  /-- "cannot reduce modulo zero" -/
  | zeroModulus
  /-- "cannot convert {type} to \"Variant\"" (`TryFrom<IrValue>` of the wrong variant) -/
  | typeConvert
  /-- "expecting Bytes(n), got .." -/
  | expectingBytes
  /-- "invalid length" -/
  | invalidLength
  | panic (what : String)
  deriving DecidableEq, Repr, Inhabited

/-- The failure classes of the property statement: assertion, range, underflow, encoding
conditions on the *witness* (as opposed to ill-typed or ill-formed programs). -/
def Err.isWitnessCondition : Err → Bool
  | .assertion | .underflow | .cannotConvert | .zeroModulus => true
  | _ => false

def Err.isPanic : Err → Bool
  | .panic _ => true
  | _ => false

/-- `IrValue::get_type`. -/
def IrValue.type : IrValue → IrType
  | .bool _ => .bool
  | .bytes bs => .bytes bs.length
  | .native _ => .native
  | .big x => .big (bitLen x)
  | .point _ _ => .point
  | .scalar _ => .scalar

/-- `IrValue::check_type`. -/
def IrValue.checkType (v : IrValue) (t : IrType) : Except Err Unit :=
  if v.type = t then .ok () else
  match v, t with
  | .big x, .big n => if bitLen x ≤ n then .ok () else .error (.expecting t v.type)
  | _, _ => .error (.expecting t v.type)

/-- `arity.rs: enum Arity`. -/
inductive Arity
  | fixed (n : Nat)
  | some
  | someEven
  deriving DecidableEq, Repr

/-- `arity.rs: Operation::input_arity`. -/
def Op.inputArity : Op → Arity
  | .load _ => .fixed 0
  | .publish => .some
  | .assertEq => .fixed 2
  | .assertNe => .fixed 2
  | .isEq => .fixed 2
  | .add => .fixed 2
  | .sub => .fixed 2
  | .mul => .fixed 2
  | .neg => .fixed 1
  | .modExp _ => .fixed 2
  | .innerProduct => .someEven
  | .affine => .fixed 1
  | .intoBytes _ => .fixed 1
  | .fromBytes _ => .fixed 1
  | .poseidon => .some
  | .sha256 => .fixed 1
  | .sha512 => .fixed 1

/-- `arity.rs: Operation::output_arity`. -/
def Op.outputArity : Op → Arity
  | .load _ => .some
  | .publish => .fixed 0
  | .assertEq => .fixed 0
  | .assertNe => .fixed 0
  | .isEq => .fixed 1
  | .add => .fixed 1
  | .sub => .fixed 1
  | .mul => .fixed 1
  | .neg => .fixed 1
  | .modExp _ => .fixed 1
  | .innerProduct => .fixed 1
  | .affine => .fixed 2
  | .intoBytes _ => .fixed 1
  | .fromBytes _ => .fixed 1
  | .poseidon => .fixed 1
  | .sha256 => .fixed 1
  | .sha512 => .fixed 1

/-- `arity.rs: Arity::check` (true = accepted). -/
def Arity.admits : Arity → Nat → Bool
  | .fixed n, len => n == len
  | .some, len => len != 0
  | .someEven, len => len % 2 == 0 && len != 0

/-- `arity.rs: Instruction::check_arity`. -/
def Instr.arityOk (i : Instr) : Bool :=
  i.op.inputArity.admits i.ins.length && i.op.outputArity.admits i.outs.length

/-- `zkir.rs: ZkirRelation::from_instructions`: the first instruction of wrong arity is
reported. -/
def loadProgram : Program → Except Err Unit
  | [] => .ok ()
  | i :: rest => if i.arityOk then loadProgram rest else .error (.arity i.op)

/-- The hash functions are parameters of the model (uninterpreted): SHA-256, SHA-512 on byte
strings, Poseidon on field elements. Both interpreters are given the same ones. -/
structure Hashes where
  sha256 : List Nat → List Nat
  sha512 : List Nat → List Nat
  poseidon : List Nat → Nat

abbrev Witness := List (String × IrValue)

/-- Association-list lookup (first binding). -/
def lookup {α : Type} (name : String) : List (String × α) → Option α
  | [] => none
  | (n, v) :: rest => if n = name then some v else lookup name rest

/-- `utils/mod.rs: get_t`. -/
def getT (w : Witness) (t : IrType) (name : String) : Except Err IrValue :=
  match lookup name w with
  | some v => match v.checkType t with
    | .ok () => .ok v
    | .error e => .error e
  | none => .error (.notFound name)

/-- `utils/mod.rs: insert` / `insert_many` on an association list (the memory). The Rust
`assert_eq!(names.len(), values.len())` is the `panic` branch. -/
def insertMany {α : Type} (mem : List (String × α)) : List String → List α → Except Err (List (String × α))
  | [], [] => .ok mem
  | n :: ns, v :: vs =>
    match lookup n mem with
    | some _ => .error (.dup n)
    | none => insertMany ((n, v) :: mem) ns vs
  | _, _ => .error (.panic "insert_many: names.len() != values.len()")

/-- `Except`-valued map over a list, left to right, stopping at the first error. -/
def mapE {α β : Type} (f : α → Except Err β) : List α → Except Err (List β)
  | [] => .ok []
  | a :: rest =>
    match f a with
    | .error e => .error e
    | .ok b => match mapE f rest with
      | .error e => .error e
      | .ok bs => .ok (b :: bs)

end MidnightZK.C18
