import MidnightZK.Model.C18.In
/-!
# C18 model — HOW the in-circuit comparisons are carried out

`comparableIn` (In.lean) gives the verdict of a comparison at gadget-specification level. This
file mirrors the *structure* of `zkir/src/instructions/operations/{is_equal, assert_equal,
assert_not_equal}.rs`: which native gadget calls each comparison lays out (observed by the
harness as region names of the real synthesis) and the value the per-component conjunction
computes. A comparison that packs a byte array into ONE field element (`assigned_from_le_bytes`)
is modelled next to it (`packedCompare`) to state what goes wrong from 32 bytes on.
Import-free.
-/
namespace MidnightZK.C18

/-- `is_equal.rs: is_equal_incircuit`, branch `(Bytes(v), Bytes(w)) if v.len() == w.len()`:
`v.iter().zip(w).map(|(vi, wi)| std_lib.is_equal(vi, wi))` followed by `std_lib.and`. -/
def bytesIsEqualIn : List Nat → List Nat → Bool
  | a :: v, b :: w => (a == b) && bytesIsEqualIn v w
  | _, _ => true

/-- Number of native `is_equal` calls of that branch: one per zipped pair. -/
def bytesIsEqualCalls : List Nat → List Nat → Nat
  | _ :: v, _ :: w => 1 + bytesIsEqualCalls v w
  | _, _ => 0

/-- `ZkStdLib::assigned_from_le_bytes` on the honest assignment: the linear combination
`Σ 256^i · byte_i` in the native field. -/
def packNative (bs : List Nat) : Nat := leBytesToNat bs % Q

/-- A comparison of two byte arrays through ONE native `is_equal` on their packings (what
`is_equal_incircuit` must NOT do; seeded change C18-4). -/
def packedCompare (v w : List Nat) : Bool := packNative v == packNative w

/-- Number of limbs `biguint_gadget.rs: is_equal` compares: `max(x.limbs.len(), y.limbs.len())`
(after `resize`). -/
def bigCompareLimbs (s t : Shape) : Nat := max s.length t.length

/-- Gadget calls laid out by ONE comparison instruction on the given in-circuit operands, as
(number of regions "is_equal (i)" = `native_chip.rs: is_equal` calls, number of regions
"Assert equal"). Mirrors the dispatch of
* `assert_equal.rs: assert_equal_incircuit` — component-wise `assert_equal`: no `is_equal`,
  one "Assert equal" per Boolean / byte / native / limb / coordinate;
* `is_equal.rs: is_equal_incircuit` — Boolean: one `add_and_double_mul` (no region of either
  kind); bytes: one native `is_equal` per byte; native: one; BigUint: one per limb
  (`biguint_gadget.rs: is_equal`); point: one per coordinate; every native `is_equal` ends
  with one `assert_zero` ("Assert equal");
* `assert_not_equal.rs: assert_not_equal_incircuit` — bytes: `is_equal_incircuit` followed by
  `assert_equal_to_fixed(b, false)`; BigUint / point: the gadget's `is_equal` + assertion on the
  bit; Boolean: one assertion on a linear combination; native: a dedicated "Assert not equal"
  region (neither kind).
Pairs that the dispatch rejects lay out nothing. -/
def cmpCalls (op : Op) (x y : CVal) : Nat × Nat :=
  match op, x, y with
  | .assertEq, .bool _, .bool _ => (0, 1)
  | .assertEq, .bytes v, .bytes w => (0, bytesIsEqualCalls v w)
  | .assertEq, .native _, .native _ => (0, 1)
  | .assertEq, .big s _, .big t _ => (0, bigCompareLimbs s t)
  | .assertEq, .point _ _, .point _ _ => (0, 2)
  | .isEq, .bool _, .bool _ => (0, 0)
  | .isEq, .bytes v, .bytes w => (bytesIsEqualCalls v w, bytesIsEqualCalls v w)
  | .isEq, .native _, .native _ => (1, 1)
  | .isEq, .big s _, .big t _ => (bigCompareLimbs s t, bigCompareLimbs s t)
  | .isEq, .point _ _, .point _ _ => (2, 2)
  | .assertNe, .bool _, .bool _ => (0, 1)
  | .assertNe, .bytes v, .bytes w => (bytesIsEqualCalls v w, bytesIsEqualCalls v w + 1)
  | .assertNe, .native _, .native _ => (0, 0)
  | .assertNe, .big s _, .big t _ => (bigCompareLimbs s t, bigCompareLimbs s t + 1)
  | .assertNe, .point _ _, .point _ _ => (2, 3)
  | _, _, _ => (0, 0)

def Op.isCompareOp : Op → Bool
  | .assertEq | .assertNe | .isEq => true
  | _ => false

/-- The `ieq:` section: for every comparison instruction (index `k` in the program) reached by
the witness-free pass, the gadget calls it lays out. Stops where the pass stops. -/
def cmpTrace (H : Hashes) : Nat → InState → Program → List (Nat × Nat × Nat)
  | _, _, [] => []
  | k, st, i :: rest =>
    match stepIn H none st i with
    | .error _ => []
    | .ok st' =>
      let here : List (Nat × Nat × Nat) :=
        if i.op.isCompareOp then
          match mapE (resolveIn st.mem) i.ins with
          | .ok (a :: b :: _) => [(k, cmpCalls i.op a.1 b.1)]
          | _ => []
        else []
      here ++ cmpTrace H (k + 1) st' rest

/-! ## Which chips the compiled circuit configures -/

/-- `zkir.rs: ZkirRelation::used_chips` (the four switches that depend on the program; the
others are constant `false`, `nr_pow2range_cols = 4`): (jubjub, poseidon, sha2_256, sha2_512).
Jubjub is switched on by a `Load` / `FromBytes` of a Jubjub type or by an input NAME starting
with "Jubjub" (constants `Jubjub:..` / `JubjubScalar:..`; also a variable so named). -/
def usedChips (p : Program) : Bool × Bool × Bool × Bool :=
  let involvesTypes : Bool := p.any (fun i => match i.op with
    | .load t | .fromBytes t => t == .point || t == .scalar
    | _ => false)
  let jubjubConstants : Bool := p.any (fun i => i.ins.any (fun n => "Jubjub".toList.isPrefixOf n.toList))
  (involvesTypes || jubjubConstants,
   p.any (fun i => i.op == .poseidon), p.any (fun i => i.op == .sha256), p.any (fun i => i.op == .sha512))

end MidnightZK.C18
