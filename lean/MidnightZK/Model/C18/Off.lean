import MidnightZK.Model.C18.Consts
/-!
# C18 model — the off-circuit interpreter (`zkir/src/parser/offcircuit.rs`)

`evalOff H p w` mirrors `Parser::process_instruction` folded over the program, with the
per-operation functions of `zkir/src/instructions/operations/*.rs` (`*_offcircuit`,
`IrValue::into_bytes`, `IrValue::from_bytes`). Import-free.
-/
namespace MidnightZK.C18

/-- `add.rs: add_offcircuit`. -/
def addOff (x y : IrValue) : Except Err IrValue :=
  match x, y with
  | .native a, .native b => .ok (.native (fadd a b))
  | .big a, .big b => .ok (.big (a + b))
  | .point u1 v1, .point u2 v2 => let r := padd (u1, v1) (u2, v2); .ok (.point r.1 r.2)
  | _, _ => .error (.unsupported .add [x.type, y.type])

/-- `sub.rs: sub_offcircuit`. -/
def subOff (x y : IrValue) : Except Err IrValue :=
  match x, y with
  | .native a, .native b => .ok (.native (fsub a b))
  | .big a, .big b => if a ≥ b then .ok (.big (a - b)) else .error .underflow
  | .point u1 v1, .point u2 v2 => let r := padd (u1, v1) (pneg (u2, v2)); .ok (.point r.1 r.2)
  | _, _ => .error (.unsupported .sub [x.type, y.type])

/-- `mul.rs: mul_offcircuit`. -/
def mulOff (x y : IrValue) : Except Err IrValue :=
  match x, y with
  | .native a, .native b => .ok (.native (fmul a b))
  | .big a, .big b => .ok (.big (a * b))
  | .scalar s, .point u v => let r := smul s (u, v); .ok (.point r.1 r.2)
  | _, _ => .error (.unsupported .mul [x.type, y.type])

/-- `neg.rs: neg_offcircuit`. -/
def negOff (x : IrValue) : Except Err IrValue :=
  match x with
  | .native a => .ok (.native (fneg a))
  | .point u v => let r := pneg (u, v); .ok (.point r.1 r.2)
  | _ => .error (.unsupported .neg [x.type])

/-- `mod_exp.rs: mod_exp_offcircuit` (`BigUint::modpow`; a zero modulus is an error). -/
def modExpOff (x : IrValue) (n : Nat) (m : IrValue) : Except Err IrValue :=
  match x, m with
  | .big a, .big b => if b = 0 then .error .zeroModulus else .ok (.big (powMod a n b))
  | _, _ => .error (.unsupported (.modExp n) [x.type, m.type])

/-- The fold of `inner_product.rs: inner_product_offcircuit` over the tails. -/
def ipFoldOff (acc : IrValue) : List IrValue → List IrValue → Except Err IrValue
  | v :: vs, w :: ws =>
    match mulOff v w with
    | .error e => .error e
    | .ok p => match addOff acc p with
      | .error e => .error e
      | .ok acc' => ipFoldOff acc' vs ws
  | _, _ => .ok acc

/-- `inner_product.rs: inner_product_offcircuit`. -/
def innerProductOff (v w : List IrValue) : Except Err IrValue :=
  if v.length ≠ w.length then .error .invalidLength else
  match v, w with
  | v0 :: vs, w0 :: ws =>
    match mulOff v0 w0 with
    | .error e => .error e
    | .ok acc => ipFoldOff acc vs ws
  | _, _ => .error .invalidLength

/-- `affine_coordinates.rs: affine_coordinates_offcircuit`. -/
def affineOff (p : IrValue) : Except Err (IrValue × IrValue) :=
  match p with
  | .point u v => .ok (.native u, .native v)
  | _ => .error (.unsupported .affine [p.type])

/-- Number of bytes of the minimal little-endian byte string of a natural (zero has none). -/
def byteLen (x : Nat) : Nat := divCeil (bitLen x) 8

/-- `into_bytes.rs: IrValue::into_bytes`. -/
def intoBytesOff (x : IrValue) (n : Nat) : Except Err IrValue :=
  match x with
  | .native a =>
    if n > divCeil FBits 8 ∨ a ≥ 2 ^ (8 * n) then .error .cannotConvert
    else .ok (.bytes (natToLeBytes n a))
  | .big a =>
    if byteLen a > n then .error .cannotConvert
    else .ok (.bytes (natToLeBytes n a))
  | .point u v =>
    if n = 32 then .ok (.bytes (pointToBytes (u, v)))
    else .error (.unsupported (.intoBytes n) [x.type])
  | _ => .error (.unsupported (.intoBytes n) [x.type])

/-- `from_bytes.rs: IrValue::from_bytes`. -/
def fromBytesOff (t : IrType) (bs : List Nat) : Except Err IrValue :=
  match t with
  | .native => .ok (.native (leBytesToNat bs % Q))
  | .big n =>
    if n ≥ 8 * bs.length ∧ bs.length ≠ 0 then .ok (.big (leBytesToNat bs))
    else .error (.unsupported (.fromBytes t) [.bytes bs.length])
  | .point =>
    if bs.length = 32 then
      match pointFromBytes bs with
      | some p => .ok (.point p.1 p.2)
      | none => .error .cannotConvert
    else .error (.unsupported (.fromBytes t) [.bytes bs.length])
  | .scalar => .ok (.scalar (leBytesToNat bs % RJ))
  | _ => .error (.unsupported (.fromBytes t) [.bytes bs.length])

/-- `TryFrom<IrValue> for F`. -/
def asNative : IrValue → Except Err Nat
  | .native x => .ok x
  | _ => .error .typeConvert

/-- `TryFrom<IrValue> for Vec<u8>`. -/
def asBytes : IrValue → Except Err (List Nat)
  | .bytes b => .ok b
  | _ => .error .typeConvert

/-- `load.rs: load_offcircuit` (the type `BigUint(0)` cannot be loaded). -/
def loadOff (t : IrType) (vs : List IrValue) : Except Err (List IrValue) :=
  if t = .big 0 then .error (.unsupported (.load t) []) else
  match mapE (fun v => v.checkType t) vs with
  | .error e => .error e
  | .ok _ => .ok vs

structure OffState where
  mem : List (String × IrValue) := []
  pis : List IrValue := []

/-- Name resolution of `offcircuit.rs: process_instruction`: memory first, then constants. -/
def resolveOff (mem : List (String × IrValue)) (name : String) : Except Err IrValue :=
  match lookup name mem with
  | some v => .ok v
  | none => match parseConst name with
    | some v => .ok v
    | none => .error (.notFound name)

/-- The operation dispatch of `process_instruction`: outputs and newly published values.
Index accesses `inps[0]`, `inps[1]` of the Rust code are the `panic` branches. -/
def opOff (H : Hashes) (w : Witness) (i : Instr) (inps : List IrValue) :
    Except Err (List IrValue × List IrValue) :=
  match i.op with
  | .load t =>
    match mapE (getT w t) i.outs with
    | .error e => .error e
    | .ok vs => match loadOff t vs with
      | .error e => .error e
      | .ok vs => .ok (vs, [])
  | .publish => .ok ([], inps)
  | .assertEq =>
    match inps with
    | a :: b :: _ => if a ≠ b then .error .assertion else .ok ([], [])
    | _ => .error (.panic "index out of bounds")
  | .assertNe =>
    match inps with
    | a :: b :: _ => if a = b then .error .assertion else .ok ([], [])
    | _ => .error (.panic "index out of bounds")
  | .isEq =>
    match inps with
    | a :: b :: _ => .ok ([.bool (a = b)], [])
    | _ => .error (.panic "index out of bounds")
  | .add =>
    match inps with
    | a :: b :: _ => (addOff a b).map (fun r => ([r], []))
    | _ => .error (.panic "index out of bounds")
  | .sub =>
    match inps with
    | a :: b :: _ => (subOff a b).map (fun r => ([r], []))
    | _ => .error (.panic "index out of bounds")
  | .mul =>
    match inps with
    | a :: b :: _ => (mulOff a b).map (fun r => ([r], []))
    | _ => .error (.panic "index out of bounds")
  | .neg =>
    match inps with
    | a :: _ => (negOff a).map (fun r => ([r], []))
    | _ => .error (.panic "index out of bounds")
  | .modExp n =>
    match inps with
    | a :: b :: _ => (modExpOff a n b).map (fun r => ([r], []))
    | _ => .error (.panic "index out of bounds")
  | .innerProduct =>
    (innerProductOff (inps.take (inps.length / 2)) (inps.drop (inps.length / 2))).map
      (fun r => ([r], []))
  | .affine =>
    match inps with
    | a :: _ => (affineOff a).map (fun r => ([r.1, r.2], []))
    | _ => .error (.panic "index out of bounds")
  | .intoBytes n =>
    match inps with
    | a :: _ => (intoBytesOff a n).map (fun r => ([r], []))
    | _ => .error (.panic "index out of bounds")
  | .fromBytes t =>
    match inps with
    | .bytes bs :: _ => (fromBytesOff t bs).map (fun r => ([r], []))
    | _ :: _ => .error .expectingBytes
    | _ => .error (.panic "index out of bounds")
  | .poseidon =>
    match mapE asNative inps with
    | .error e => .error e
    | .ok xs => .ok ([.native (H.poseidon xs)], [])
  | .sha256 =>
    match inps with
    | a :: _ => (asBytes a).map (fun b => ([.bytes (H.sha256 b)], []))
    | _ => .error (.panic "index out of bounds")
  | .sha512 =>
    match inps with
    | a :: _ => (asBytes a).map (fun b => ([.bytes (H.sha512 b)], []))
    | _ => .error (.panic "index out of bounds")

/-- `offcircuit.rs: Parser::process_instruction`. -/
def stepOff (H : Hashes) (w : Witness) (st : OffState) (i : Instr) : Except Err OffState :=
  match mapE (resolveOff st.mem) i.ins with
  | .error e => .error e
  | .ok inps =>
    match opOff H w i inps with
    | .error e => .error e
    | .ok (outs, pub) =>
      match insertMany st.mem i.outs outs with
      | .error e => .error e
      | .ok mem => .ok { mem := mem, pis := st.pis ++ pub }

def runOff (H : Hashes) (w : Witness) : OffState → Program → Except Err OffState
  | st, [] => .ok st
  | st, i :: rest =>
    match stepOff H w st i with
    | .error e => .error e
    | .ok st' => runOff H w st' rest

/-- `ZkirRelation::public_inputs`, off-circuit part: the published values, in order. -/
def evalOff (H : Hashes) (p : Program) (w : Witness) : Except Err (List IrValue) :=
  (runOff H w {} p).map (·.pis)

end MidnightZK.C18
