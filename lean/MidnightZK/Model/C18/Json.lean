import MidnightZK.Model.C18.Types
/-!
# C18 model — JSON form of a program (`zkir.rs: ZkirRelation::read`, serde)

The serde data model of the derived `Serialize` / `Deserialize` of `Program`, `Instruction`
(`#[serde(rename = "op")]`, `#[serde(default)]` on `inputs` / `outputs`), `Operation`
(`#[serde(rename_all = "snake_case")]`, externally tagged) and `IrType` (externally tagged), as
`serde_json` drives them on a JSON *tree*:

* a struct is read from an object (keys in document order: a known key seen twice is
  `duplicate field` before its value is looked at, unknown keys are skipped, a missing key
  without default is `missing field` at the end) or from an array (positional; missing trailing
  elements take their default when they have one, else `invalid length`; extra elements are an
  error);
* an enum is read from a string (unit variants only) or from an object with exactly one key
  (`{"variant": payload}`; a unit variant takes `null`); anything else is `expected value`;
* `usize` / `u64` / `u32` payloads are non-negative integer literals in range.

Text-level concerns (whitespace, escapes, number syntax, trailing characters) are serde_json's
and are not modelled: the tree is what the harness builds and renders. Import-free.
-/
namespace MidnightZK.C18

/-- JSON trees. `num` is an integer literal that serde_json reads as `u64`/`i64`; `float` any
other number. -/
inductive Json
  | null
  | bool (b : Bool)
  | num (n : Int)
  | float
  | str (s : String)
  | arr (l : List Json)
  | obj (kvs : List (String × Json))
  deriving Inhabited

/-- Error classes of `serde_json::Error` messages. -/
inductive JErr
  | missingField (f : String)
  | duplicateField (f : String)
  | unknownVariant (v : String)
  | invalidType
  | invalidValue
  | invalidLength
  /-- `expected value`, `trailing characters`, … (shape errors reported by the parser). -/
  | syntax
  deriving DecidableEq, Repr, Inhabited

/-! ## Serialisation -/

/-- serde name of a type variant (no renaming on `IrType`). -/
def IrType.serdeName : IrType → String
  | .bool => "Bool" | .bytes _ => "Bytes" | .native => "Native" | .big _ => "BigUint"
  | .point => "JubjubPoint" | .scalar => "JubjubScalar"

/-- serde name of an operation variant (`rename_all = "snake_case"`). -/
def Op.serdeName : Op → String
  | .load _ => "load" | .publish => "publish" | .assertEq => "assert_equal"
  | .assertNe => "assert_not_equal" | .isEq => "is_equal" | .add => "add" | .sub => "sub"
  | .mul => "mul" | .neg => "neg" | .modExp _ => "mod_exp" | .innerProduct => "inner_product"
  | .affine => "affine_coordinates" | .intoBytes _ => "into_bytes" | .fromBytes _ => "from_bytes"
  | .poseidon => "poseidon" | .sha256 => "sha256" | .sha512 => "sha512"

def typeToJson : IrType → Json
  | .bytes n => .obj [("Bytes", .num n)]
  | .big n => .obj [("BigUint", .num n)]
  | t => .str t.serdeName

def opToJson : Op → Json
  | .load t => .obj [("load", typeToJson t)]
  | .fromBytes t => .obj [("from_bytes", typeToJson t)]
  | .modExp n => .obj [("mod_exp", .num n)]
  | .intoBytes n => .obj [("into_bytes", .num n)]
  | o => .str o.serdeName

def namesToJson (l : List String) : Json := .arr (l.map .str)

def instrToJson (i : Instr) : Json :=
  .obj [("op", opToJson i.op), ("inputs", namesToJson i.ins), ("outputs", namesToJson i.outs)]

/-- `serde_json::to_value(&program)` (fields in declaration order). -/
def toJson (p : Program) : Json := .obj [("instructions", .arr (p.map instrToJson))]

/-! ## Deserialisation -/

/-- `u32` / `u64` / `usize` from a JSON number (`max` = largest value of the type). -/
def numFromJson (max : Nat) : Json → Except JErr Nat
  | .num n => if n < 0 then .error .invalidValue
    else if n.toNat ≤ max then .ok n.toNat else .error .invalidValue
  | .arr _ | .obj _ | .null | .bool _ | .float | .str _ => .error .invalidType

def U32MAX : Nat := 2 ^ 32 - 1
def U64MAX : Nat := 2 ^ 64 - 1

/-- A unit variant written `{"Variant": payload}`: the payload must be `null`. -/
def unitPayload : Json → Except JErr Unit
  | .null => .ok ()
  | _ => .error .invalidType

/-- The variant `name` of `IrType` with payload `v` (`none`: written as a bare string). -/
def typeVariant (name : String) (v : Option Json) : Except JErr IrType :=
  let unit (t : IrType) : Except JErr IrType :=
    match v with
    | none => .ok t
    | some j => match unitPayload j with | .ok () => .ok t | .error e => .error e
  if name = "Bool" then unit .bool
  else if name = "Bytes" then
    match v with
    | none => .error .invalidType
    | some j => match numFromJson U64MAX j with | .ok n => .ok (.bytes n) | .error e => .error e
  else if name = "Native" then unit .native
  else if name = "BigUint" then
    match v with
    | none => .error .invalidType
    | some j => match numFromJson U32MAX j with | .ok n => .ok (.big n) | .error e => .error e
  else if name = "JubjubPoint" then unit .point
  else if name = "JubjubScalar" then unit .scalar
  else .error (.unknownVariant name)

/-- Externally tagged enum: a string, or an object with exactly one key. -/
def enumFromJson {α : Type} (variant : String → Option Json → Except JErr α) : Json → Except JErr α
  | .str s => variant s none
  | .obj [] => .error .syntax
  | .obj [(k, v)] => variant k (some v)
  | .obj ((k, v) :: _ :: _) =>
    match variant k (some v) with
    | .error e => .error e
    | .ok _ => .error .syntax
  | _ => .error .syntax

/-- derived `Deserialize` of `IrType`. -/
def typeFromJson : Json → Except JErr IrType := enumFromJson typeVariant

/-- The variant `name` of `Operation` with payload `v`. -/
def opVariant (name : String) (v : Option Json) : Except JErr Op :=
  let unit (o : Op) : Except JErr Op :=
    match v with
    | none => .ok o
    | some j => match unitPayload j with | .ok () => .ok o | .error e => .error e
  let ty (f : IrType → Op) : Except JErr Op :=
    match v with
    | none => .error .invalidType
    | some j => match typeFromJson j with | .ok t => .ok (f t) | .error e => .error e
  let nat (f : Nat → Op) : Except JErr Op :=
    match v with
    | none => .error .invalidType
    | some j => match numFromJson U64MAX j with | .ok n => .ok (f n) | .error e => .error e
  if name = "load" then ty .load
  else if name = "publish" then unit .publish
  else if name = "assert_equal" then unit .assertEq
  else if name = "assert_not_equal" then unit .assertNe
  else if name = "is_equal" then unit .isEq
  else if name = "add" then unit .add
  else if name = "sub" then unit .sub
  else if name = "mul" then unit .mul
  else if name = "neg" then unit .neg
  else if name = "mod_exp" then nat .modExp
  else if name = "inner_product" then unit .innerProduct
  else if name = "affine_coordinates" then unit .affine
  else if name = "into_bytes" then nat .intoBytes
  else if name = "from_bytes" then ty .fromBytes
  else if name = "poseidon" then unit .poseidon
  else if name = "sha256" then unit .sha256
  else if name = "sha512" then unit .sha512
  else .error (.unknownVariant name)

/-- derived `Deserialize` of `Operation`. -/
def opFromJson : Json → Except JErr Op := enumFromJson opVariant

def strFromJson : Json → Except JErr String
  | .str s => .ok s
  | _ => .error .invalidType

def mapJ {α : Type} (f : Json → Except JErr α) : List Json → Except JErr (List α)
  | [] => .ok []
  | a :: rest =>
    match f a with
    | .error e => .error e
    | .ok b => match mapJ f rest with
      | .error e => .error e
      | .ok bs => .ok (b :: bs)

/-- `Vec<String>`. -/
def namesFromJson : Json → Except JErr (List String)
  | .arr l => mapJ strFromJson l
  | _ => .error .invalidType

/-- Fields of an `Instruction` seen so far while its object is read. -/
structure InstrAcc where
  op : Option Op := none
  ins : Option (List String) := none
  outs : Option (List String) := none

/-- `visit_map` of `Instruction`: keys in document order. -/
def instrFields : List (String × Json) → InstrAcc → Except JErr InstrAcc
  | [], acc => .ok acc
  | (k, v) :: rest, acc =>
    if k = "op" then
      if acc.op.isSome then .error (.duplicateField "op") else
      match opFromJson v with
      | .error e => .error e
      | .ok o => instrFields rest { acc with op := some o }
    else if k = "inputs" then
      if acc.ins.isSome then .error (.duplicateField "inputs") else
      match namesFromJson v with
      | .error e => .error e
      | .ok l => instrFields rest { acc with ins := some l }
    else if k = "outputs" then
      if acc.outs.isSome then .error (.duplicateField "outputs") else
      match namesFromJson v with
      | .error e => .error e
      | .ok l => instrFields rest { acc with outs := some l }
    else instrFields rest acc

/-- derived `Deserialize` of `Instruction`. -/
def instrFromJson : Json → Except JErr Instr
  | .obj kvs =>
    match instrFields kvs {} with
    | .error e => .error e
    | .ok acc =>
      match acc.op with
      | none => .error (.missingField "op")
      | some o => .ok ⟨o, acc.ins.getD [], acc.outs.getD []⟩
  | .arr [] => .error .invalidLength
  | .arr (o :: rest) =>
    match opFromJson o with
    | .error e => .error e
    | .ok op =>
      match rest with
      | [] => .ok ⟨op, [], []⟩
      | i :: rest2 =>
        match namesFromJson i with
        | .error e => .error e
        | .ok ins =>
          match rest2 with
          | [] => .ok ⟨op, ins, []⟩
          | o2 :: rest3 =>
            match namesFromJson o2 with
            | .error e => .error e
            | .ok outs => if rest3.isEmpty then .ok ⟨op, ins, outs⟩ else .error .syntax
  | _ => .error .invalidType

/-- `Vec<Instruction>`. -/
def instrsFromJson : Json → Except JErr Program
  | .arr l => mapJ instrFromJson l
  | _ => .error .invalidType

/-- `visit_map` of `Program`. -/
def progFields : List (String × Json) → Option Program → Except JErr (Option Program)
  | [], acc => .ok acc
  | (k, v) :: rest, acc =>
    if k = "instructions" then
      if acc.isSome then .error (.duplicateField "instructions") else
      match instrsFromJson v with
      | .error e => .error e
      | .ok p => progFields rest (some p)
    else progFields rest acc

/-- `serde_json::from_str::<Program>` on the tree of the text. -/
def fromJson : Json → Except JErr Program
  | .obj kvs =>
    match progFields kvs none with
    | .error e => .error e
    | .ok none => .error (.missingField "instructions")
    | .ok (some p) => .ok p
  | .arr [] => .error .invalidLength
  | .arr [x] => instrsFromJson x
  | .arr (x :: _ :: _) =>
    match instrsFromJson x with
    | .error e => .error e
    | .ok _ => .error .syntax
  | _ => .error .invalidType

end MidnightZK.C18
