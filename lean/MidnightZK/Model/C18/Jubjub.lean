import MidnightZK.Model.ModArith
/-!
# C18 model — the native field and the Jubjub curve, as far as ZKIR values need them

Executable `Nat`-level model of the field `F = midnight_curves::Fq` (BLS12-381 scalar field)
and of the Jubjub twisted Edwards curve `-u² + v² = 1 + d·u²·v²` over it: addition, negation,
scalar multiplication, the 32-byte encoding (`JubjubAffine::to_bytes`) and its decoding with the
prime-order-subgroup check (`JubjubSubgroup::from_bytes`). Import-free.

The group law itself is *not* proved here (properties C06/C11); ZKIR only needs both
interpreters to call the same functions.
-/
namespace MidnightZK.C18

/-- Modulus of `F` (`curves/src/bls12_381/fq.rs: MODULUS`). -/
def Q : Nat := 0x73eda753299d7d483339d80809a1d80553bda402fffe5bfeffffffff00000001

/-- Order of the Jubjub prime-order subgroup (`curves/src/jubjub/fr.rs: MODULUS`). -/
def RJ : Nat := 0x0e7db4ea6533afa906673b0101343b00a6682093ccc81082d0970e5ed6f72cb7

/-- `curves/src/jubjub/curve.rs: EDWARDS_D` (= -(10240/10241) mod Q). -/
def EdD : Nat := 0x2a9318e74bfa2b48f5fd9207e6bd7fd4292d7f6d37579d2601065fd6d6343eb1

/-- Affine coordinates of `JubjubSubgroup::generator()`. -/
def GenU : Nat := 0x3ea5c4673a121ca35ed37ee3b172f5ee04315c657fbe375f512dfea318d56fe5
def GenV : Nat := 0x57137b83ea6edb4f78f7d30d3f616cb3b9aa6e8e40808413c10cea38d50c55cb

/-- `F::NUM_BITS`. -/
def FBits : Nat := 255
/-- `JubjubFr::NUM_BITS` = `NUM_BITS_SUBGROUP`. -/
def RJBits : Nat := 252

def fadd (a b : Nat) : Nat := (a + b) % Q
def fsub (a b : Nat) : Nat := (a + (Q - b % Q)) % Q
def fmul (a b : Nat) : Nat := (a * b) % Q
def fneg (a : Nat) : Nat := (Q - a % Q) % Q
def finv (a : Nat) : Nat := powMod a (Q - 2) Q

/-- Number of bits of a natural number (`BigUint::bits`). -/
def bitLen (n : Nat) : Nat := if n = 0 then 0 else n.log2 + 1

/-- `a.div_ceil(b)`. -/
def divCeil (a b : Nat) : Nat := (a + b - 1) / b

/-- A point in homogeneous projective coordinates `(X : Y : Z)`, affine `(X/Z, Y/Z)`. -/
structure PPoint where
  x : Nat
  y : Nat
  z : Nat

/-- Complete projective addition on a twisted Edwards curve with `a = -1`
(add-2008-bbjlp); used for both addition and doubling. -/
def PPoint.add (p q : PPoint) : PPoint :=
  let a := fmul p.z q.z
  let b := fmul a a
  let c := fmul p.x q.x
  let d := fmul p.y q.y
  let e := fmul EdD (fmul c d)
  let f := fsub b e
  let g := fadd b e
  let x3 := fmul (fmul a f) (fsub (fsub (fmul (fadd p.x p.y) (fadd q.x q.y)) c) d)
  let y3 := fmul (fmul a g) (fadd d c)
  let z3 := fmul f g
  ⟨x3, y3, z3⟩

def PPoint.toAffine (p : PPoint) : Nat × Nat :=
  let zi := finv p.z
  (fmul p.x zi, fmul p.y zi)

/-- Affine addition `(u₁,v₁) + (u₂,v₂)` on Jubjub. -/
def padd (p q : Nat × Nat) : Nat × Nat :=
  (PPoint.add ⟨p.1, p.2, 1⟩ ⟨q.1, q.2, 1⟩).toAffine

def pneg (p : Nat × Nat) : Nat × Nat := (fneg p.1, p.2)

def pidentity : Nat × Nat := (0, 1)

/-- Double-and-add, most significant bit first, over `fuel` bits of `k`. -/
def smulAux (base : PPoint) : Nat → Nat → PPoint → PPoint
  | 0, _, acc => acc
  | fuel + 1, k, acc =>
    let acc := acc.add acc
    let acc := if k.testBit fuel then acc.add base else acc
    smulAux base fuel k acc

/-- `[k]P` in affine coordinates. -/
def smul (k : Nat) (p : Nat × Nat) : Nat × Nat :=
  (smulAux ⟨p.1, p.2, 1⟩ (bitLen k) k ⟨0, 1, 1⟩).toAffine

/-- The curve equation. -/
def onCurve (p : Nat × Nat) : Bool :=
  let u2 := fmul p.1 p.1
  let v2 := fmul p.2 p.2
  fsub v2 u2 == fadd 1 (fmul EdD (fmul u2 v2))

/-- `is_torsion_free`: `[r]P = O`. -/
def inSubgroup (p : Nat × Nat) : Bool := smul RJ p == pidentity

/-- `JubjubAffine::to_bytes`: the 32 little-endian bytes of `v`, sign of `u` in the top bit. -/
def pointToBytes (p : Nat × Nat) : List Nat :=
  natToLeBytes 32 (p.2 + (p.1 % 2) * 2 ^ 255)

/-- Tonelli–Shanks loop for `Q - 1 = 2^32 · T`. State `(m, c, t, r)`. -/
def sqrtLoop : Nat → Nat → Nat → Nat → Nat → Option Nat
  | 0, _, _, _, _ => none
  | fuel + 1, m, c, t, r =>
    if t == 1 then some r else
    -- least i with t^(2^i) = 1
    let i := (List.range m).find? (fun i => powMod t (2 ^ i) Q == 1)
    match i with
    | none => none
    | some i =>
      let b := powMod c (2 ^ (m - i - 1)) Q
      let b2 := fmul b b
      sqrtLoop fuel i b2 (fmul t b2) (fmul r b)

/-- Odd part of `Q - 1`. -/
def QT : Nat := (Q - 1) / 2 ^ 32

/-- A square root in `F` if there is one (`Fq::sqrt`; which of the two roots is returned does
not matter to the callers). -/
def fsqrt (a : Nat) : Option Nat :=
  let a := a % Q
  if a == 0 then some 0 else
  if powMod a ((Q - 1) / 2) Q != 1 then none else
  sqrtLoop 34 32 (powMod 7 QT Q) (powMod a QT Q) (powMod a ((QT + 1) / 2) Q)

/-- `JubjubAffine::from_bytes` (ZIP-216 rules) followed by the subgroup check of
`JubjubSubgroup::from_bytes`. Input: exactly 32 bytes. -/
def pointFromBytes (bs : List Nat) : Option (Nat × Nat) :=
  if bs.length != 32 then none else
  let n := leBytesToNat bs
  let sign := n / 2 ^ 255
  let v := n % 2 ^ 255
  if v ≥ Q then none else
  let v2 := fmul v v
  let u2 := fmul (fsub v2 1) (finv (fadd 1 (fmul EdD v2)))
  match fsqrt u2 with
  | none => none
  | some u =>
    let u := if u % 2 == sign then u else fneg u
    if u == 0 && sign == 1 then none else
    if inSubgroup (u, v) then some (u, v) else none

end MidnightZK.C18
