import MidnightZK.Model.C18.Off
import MidnightZK.Model.C18.BigShape
/-!
# C18 model — the in-circuit interpreter at gadget level (`zkir/src/parser/incircuit.rs`)

`evalIn H p w` follows `Parser::process_instruction` (in-circuit) with the per-operation
functions `*_incircuit` of `zkir/src/instructions/operations/*.rs`. A `CVal` is the
compile-time *shape* of a `CircuitValue` (byte length, limb bounds, scalar bit length) together
with the value the honest prover assigns. Each gadget of `midnight-circuits` / `zk_stdlib` is
taken at its specification (what it computes, what it constrains: properties C04–C07), which
is the stated assumption of this property. The state records:

* `sat`   — whether every constraint emitted so far holds for the honest assignment;
* `pis`   — the raw public inputs the circuit binds (`constrain_as_public_input`);
* `piTypes` — `public_input_types` (`CircuitValue::get_type` at each `Publish`);

Every value in memory also carries a flag `known`: whether the prover-side value is known
during this pass (constants always are; with a known witness everything is; in the
witness-free pass gadget outputs are not, except the coordinates of a known point). Two operations look at known values and return an error value:
`IntoBytes` on a native value that does not fit, `FromBytes(JubjubPoint)` on invalid bytes.

`w = none` is the witness-free compilation pass (`Value::unknown()`): shapes only.
Import-free.
-/
namespace MidnightZK.C18

/-- `types.rs: enum CircuitValue` (shape + honest value). -/
inductive CVal
  | bool (b : Bool)
  | bytes (bs : List Nat)
  | native (x : Nat)
  | big (shape : Shape) (x : Nat)
  /-- little-endian bit vector of length `nbits` with integer value `s` (not reduced) -/
  | scalar (nbits : Nat) (s : Nat)
  | point (u v : Nat)
  deriving DecidableEq, Repr, Inhabited

/-- `types.rs: CircuitValue::get_type`. -/
def CVal.type : CVal → IrType
  | .bool _ => .bool
  | .bytes bs => .bytes bs.length
  | .native _ => .native
  | .big s _ => .big (nbBits s)
  | .scalar _ _ => .scalar
  | .point _ _ => .point

structure InState where
  mem : List (String × (CVal × Bool)) := []
  pis : List Nat := []
  piTypes : List IrType := []
  sat : Bool := true

/-- Result of one gadget call: outputs and whether its constraints hold for the honest
assignment. -/
structure GOut where
  outs : List CVal
  sat : Bool := true

def gok (v : CVal) : Except Err GOut := .ok { outs := [v] }

/-- `constants.rs: assign_constant` (the value is fixed in the circuit). -/
def constCVal : IrValue → CVal
  | .bool b => .bool b
  | .bytes bs => .bytes bs
  | .native x => .native x
  | .big x => .big (fixedShape x) x
  | .point u v => .point u v
  | .scalar s => .scalar (max (bitLen s) 1) s

/-- `load.rs: load_incircuit` for one value of the declared type `t` (already type-checked by
`get_t`). -/
def loadCVal (t : IrType) (v : IrValue) : Except Err CVal :=
  match t, v with
  | .bool, .bool b => .ok (.bool b)
  | .bytes _, .bytes bs => .ok (.bytes bs)
  | .native, .native x => .ok (.native x)
  | .big n, .big x => (assignBoundedShape n).map (fun s => .big s x)
  | .point, .point u v => .ok (.point u v)
  | .scalar, .scalar s => .ok (.scalar RJBits s)
  | _, _ => .error .typeConvert

/-- A value of type `t` standing for an unknown witness (compilation pass). -/
def defaultValue : IrType → IrValue
  | .bool => .bool false
  | .bytes n => .bytes (List.replicate n 0)
  | .native => .native 0
  | .big _ => .big 0
  | .point => .point 0 1
  | .scalar => .scalar 0

/-- `add.rs: add_incircuit`. -/
def addIn (x y : CVal) : Except Err GOut :=
  match x, y with
  | .native a, .native b => gok (.native (fadd a b))
  | .big s a, .big t b => (addShape s t).bind (fun r => gok (.big r (a + b)))
  | .point u1 v1, .point u2 v2 => let r := padd (u1, v1) (u2, v2); gok (.point r.1 r.2)
  | _, _ => .error (.unsupported .add [x.type, y.type])

/-- `sub.rs: sub_incircuit`; BigUint: the difference is witnessed (`0` on underflow) and
`x = res + y` is enforced. -/
def subIn (x y : CVal) : Except Err GOut :=
  match x, y with
  | .native a, .native b => gok (.native (fsub a b))
  | .big s a, .big t b =>
    (subShape s t).bind (fun r => .ok { outs := [.big r (if a ≥ b then a - b else 0)], sat := a ≥ b })
  | .point u1 v1, .point u2 v2 => let r := padd (u1, v1) (pneg (u2, v2)); gok (.point r.1 r.2)
  | _, _ => .error (.unsupported .sub [x.type, y.type])

/-- `mul.rs: mul_incircuit`; the scalar is a bit vector, used unreduced. -/
def mulIn (x y : CVal) : Except Err GOut :=
  match x, y with
  | .native a, .native b => gok (.native (fmul a b))
  | .big s a, .big t b => (mulShape s t).bind (fun r => gok (.big r (a * b)))
  | .scalar _ k, .point u v => let r := smul k (u, v); gok (.point r.1 r.2)
  | _, _ => .error (.unsupported .mul [x.type, y.type])

/-- `neg.rs: neg_incircuit`. -/
def negIn (x : CVal) : Except Err GOut :=
  match x with
  | .native a => gok (.native (fneg a))
  | .point u v => let r := pneg (u, v); gok (.point r.1 r.2)
  | _ => .error (.unsupported .neg [x.type])

/-- `mod_exp.rs: mod_exp_incircuit` → `biguint_gadget.rs: mod_exp`: every exponent ends in a
`div_rem` by `m`, unsatisfiable for `m = 0` (witnessed quotient and remainder are then 0). -/
def modExpIn (x : CVal) (n : Nat) (m : CVal) : Except Err GOut :=
  match x, m with
  | .big s a, .big t b =>
    (modExpShape s n t).bind (fun r =>
      .ok { outs := [.big r (if b = 0 then 0 else powMod a n b)], sat := b ≠ 0 })
  | _, _ => .error (.unsupported (.modExp n) [x.type, m.type])

/-- Sequential composition of gadget results inside one operation. -/
def GOut.andThen (g : GOut) (f : CVal → Except Err GOut) : Except Err GOut :=
  match g.outs with
  | [v] => match f v with
    | .error e => .error e
    | .ok g' => .ok { outs := g'.outs, sat := g.sat && g'.sat }
  | _ => .error (.panic "gadget arity")

/-- The `try_fold` of `inner_product_incircuit` (Native / BigUint branch). -/
def ipFoldIn (acc : GOut) : List CVal → List CVal → Except Err GOut
  | v :: vs, w :: ws =>
    match mulIn v w with
    | .error e => .error e
    | .ok p =>
      match acc.andThen (fun a => p.andThen (fun pv => addIn a pv)) with
      | .error e => .error e
      | .ok acc' => ipFoldIn acc' vs ws
  | _, _ => .ok acc

def asScalarIn : CVal → Except Err (Nat × Nat)
  | .scalar n s => .ok (n, s)
  | _ => .error .typeConvert

def asPointIn : CVal → Except Err (Nat × Nat)
  | .point u v => .ok (u, v)
  | _ => .error .typeConvert

/-- `EccChip::msm`: `Σ [kᵢ]Pᵢ`, folded from the first product. -/
def msmFold (acc : Nat × Nat) : List (Nat × Nat) → List (Nat × Nat) → Nat × Nat
  | k :: ks, p :: ps => msmFold (padd acc (smul k.2 p)) ks ps
  | _, _ => acc

/-- `inner_product.rs: inner_product_incircuit`. -/
def innerProductIn (v w : List CVal) : Except Err GOut :=
  if v.length ≠ w.length then .error .invalidLength else
  match v, w with
  | v0 :: vs, w0 :: ws =>
    match v0.type, w0.type with
    | .native, .native | .big _, .big _ =>
      match mulIn v0 w0 with
      | .error e => .error e
      | .ok acc => ipFoldIn acc vs ws
    | .scalar, .point =>
      match mapE asScalarIn v with
      | .error e => .error e
      | .ok ks => match mapE asPointIn w with
        | .error e => .error e
        | .ok ps =>
          match ks, ps with
          | k0 :: ks', p0 :: ps' =>
            let r := msmFold (smul k0.2 p0) ks' ps'
            gok (.point r.1 r.2)
          | _, _ => .error .invalidLength
    | tv, tw => .error (.unsupported .innerProduct [tv, tw])
  | _, _ => .error .invalidLength

/-- `affine_coordinates.rs: affine_coordinates_incircuit`. -/
def affineIn (p : CVal) : Except Err GOut :=
  match p with
  | .point u v => .ok { outs := [.native u, .native v] }
  | _ => .error (.unsupported .affine [p.type])

/-- `into_bytes.rs: into_bytes_incircuit`. Native: the byte decomposition is range-checked; a
*known* value that does not fit is reported as the off-circuit error. BigUint: all limb bytes
beyond `n` are constrained to zero, the output is padded. Point: 32 bytes of `v`, sign of `u`
on top. -/
def intoBytesIn (known : Bool) (x : CVal) (n : Nat) : Except Err GOut :=
  match x with
  | .native a =>
    if n > divCeil FBits 8 then .error (.unsupported (.intoBytes n) [x.type])
    else if known ∧ ¬ a < 2 ^ (8 * n) then .error .cannotConvert
    else .ok { outs := [.bytes (natToLeBytes n a)], sat := a < 2 ^ (8 * n) }
  | .big s a =>
    match requireNormalized s s with
    | .error e => .error e
    | .ok () => .ok { outs := [.bytes (natToLeBytes n a)], sat := a < 2 ^ (8 * n) }
  | .point u v =>
    if n = 32 then gok (.bytes (pointToBytes (u, v)))
    else .error (.unsupported (.intoBytes n) [x.type])
  | _ => .error (.unsupported (.intoBytes n) [x.type])

/-- `from_bytes.rs: from_bytes_incircuit`; the Jubjub point is decoded from the byte values
when they are known, witnessed, re-encoded in-circuit and compared with the input bytes. -/
def fromBytesIn (known : Bool) (t : IrType) (x : CVal) : Except Err GOut :=
  match x with
  | .bytes bs =>
    match t with
    | .native => gok (.native (leBytesToNat bs % Q))
    | .big n =>
      if n ≥ 8 * bs.length ∧ bs.length ≠ 0 then gok (.big (fromBytesShape bs.length) (leBytesToNat bs))
      else .error (.unsupported (.fromBytes t) [x.type])
    | .point =>
      if bs.length = 32 then
        if known then
          match pointFromBytes bs with
          | some p => gok (.point p.1 p.2)
          | none => .error .cannotConvert
        else gok (.point 0 1)
      else .error (.unsupported (.fromBytes t) [x.type])
    | .scalar => gok (.scalar (8 * bs.length) (leBytesToNat bs))
    | _ => .error (.unsupported (.fromBytes t) [x.type])
  | _ => .error .expectingBytes

def asNativeIn : CVal → Except Err Nat
  | .native x => .ok x
  | _ => .error .typeConvert

def asBytesIn : CVal → Except Err (List Nat)
  | .bytes b => .ok b
  | _ => .error .typeConvert

/-- Which pairs `assert_equal_incircuit` / `assert_not_equal_incircuit` / `is_equal_incircuit`
accept, and whether the two honest values are equal. -/
def comparableIn (op : Op) (x y : CVal) : Except Err Bool :=
  match x, y with
  | .bool a, .bool b => .ok (a == b)
  | .bytes v, .bytes w =>
    if v.length = w.length then .ok (v == w) else .error (.unsupported op [x.type, y.type])
  | .native a, .native b => .ok (a == b)
  | .big s a, .big t b => (requireNormalized s t).map (fun _ => a == b)
  | .point u1 v1, .point u2 v2 => .ok (u1 == u2 && v1 == v2)
  | _, _ => .error (.unsupported op [x.type, y.type])

/-- Little-endian split of `v` into `⌈nbits / 254⌉` chunks of 254 bits
(`edwards_chip.rs: as_public_input` of an assigned scalar). -/
def scalarChunks : Nat → Nat → Nat → List Nat
  | 0, _, _ => []
  | fuel + 1, nbits, v =>
    if nbits = 0 then [] else
    (v % 2 ^ (FBits - 1)) :: scalarChunks fuel (nbits - (FBits - 1)) (v / 2 ^ (FBits - 1))

/-- Base-`2^96` limbs, little-endian, exactly `n` of them (`big_to_limbs`). -/
def toLimbs : Nat → Nat → List Nat
  | 0, _ => []
  | n + 1, v => (v % 2 ^ LOG2_BASE) :: toLimbs n (v / 2 ^ LOG2_BASE)

/-- `publish.rs: publish_incircuit`: the field elements constrained as public inputs. -/
def publishIn (x : CVal) : Except Err (List Nat) :=
  match x with
  | .bool b => .ok [if b then 1 else 0]
  | .bytes bs => .ok bs
  | .native a => .ok [a]
  | .big s a => (normalizeShape s).map (fun s' => toLimbs s'.length a)
  | .point u v => .ok [u, v]
  | .scalar n k => .ok (scalarChunks (n + 1) n k)

/-- Name resolution of `incircuit.rs: process_instruction`. -/
def resolveIn (mem : List (String × (CVal × Bool))) (name : String) : Except Err (CVal × Bool) :=
  match lookup name mem with
  | some v => .ok v
  | none => match parseConst name with
    | some v => .ok (constCVal v, true)
    | none => .error (.notFound name)

/-- The value loaded for an output name of `Load(t)`. -/
def loadValue (w : Option Witness) (t : IrType) (name : String) : Except Err IrValue :=
  match w with
  | none => .ok (defaultValue t)
  | some w => getT w t name

def publishAll : List CVal → Except Err (List Nat × List IrType)
  | [] => .ok ([], [])
  | v :: rest =>
    match publishIn v with
    | .error e => .error e
    | .ok f => match publishAll rest with
      | .error e => .error e
      | .ok (fs, ts) => .ok (f ++ fs, v.type :: ts)

/-- The operation dispatch of the in-circuit `process_instruction`: gadget result plus newly
bound public inputs and their types. -/
def opIn (H : Hashes) (w : Option Witness) (known : Bool) (i : Instr) (inps : List CVal) :
    Except Err (GOut × List Nat × List IrType) :=
  let pure (g : Except Err GOut) : Except Err (GOut × List Nat × List IrType) := g.map (fun g => (g, [], []))
  match i.op with
  | .load t =>
    match mapE (loadValue w t) i.outs with
    | .error e => .error e
    | .ok vs =>
      if t = .big 0 then .error (.unsupported (.load t) []) else
      match mapE (loadCVal t) vs with
      | .error e => .error e
      | .ok cs => .ok ({ outs := cs }, [], [])
  | .publish =>
    match publishAll inps with
    | .error e => .error e
    | .ok (fs, ts) => .ok ({ outs := [] }, fs, ts)
  | .assertEq =>
    match inps with
    | a :: b :: _ => pure ((comparableIn .assertEq a b).map (fun eq => { outs := [], sat := eq }))
    | _ => .error (.panic "index out of bounds")
  | .assertNe =>
    match inps with
    | a :: b :: _ => pure ((comparableIn .assertNe a b).map (fun eq => { outs := [], sat := !eq }))
    | _ => .error (.panic "index out of bounds")
  | .isEq =>
    match inps with
    | a :: b :: _ => pure ((comparableIn .isEq a b).map (fun eq => { outs := [.bool eq] }))
    | _ => .error (.panic "index out of bounds")
  | .add =>
    match inps with
    | a :: b :: _ => pure (addIn a b)
    | _ => .error (.panic "index out of bounds")
  | .sub =>
    match inps with
    | a :: b :: _ => pure (subIn a b)
    | _ => .error (.panic "index out of bounds")
  | .mul =>
    match inps with
    | a :: b :: _ => pure (mulIn a b)
    | _ => .error (.panic "index out of bounds")
  | .neg =>
    match inps with
    | a :: _ => pure (negIn a)
    | _ => .error (.panic "index out of bounds")
  | .modExp n =>
    match inps with
    | a :: b :: _ => pure (modExpIn a n b)
    | _ => .error (.panic "index out of bounds")
  | .innerProduct =>
    pure (innerProductIn (inps.take (inps.length / 2)) (inps.drop (inps.length / 2)))
  | .affine =>
    match inps with
    | a :: _ => pure (affineIn a)
    | _ => .error (.panic "index out of bounds")
  | .intoBytes n =>
    match inps with
    | a :: _ => pure (intoBytesIn known a n)
    | _ => .error (.panic "index out of bounds")
  | .fromBytes t =>
    match inps with
    | a :: _ => pure (fromBytesIn known t a)
    | _ => .error (.panic "index out of bounds")
  | .poseidon =>
    match mapE asNativeIn inps with
    | .error e => .error e
    | .ok xs => .ok ({ outs := [.native (H.poseidon xs)] }, [], [])
  | .sha256 =>
    match inps with
    | a :: _ => pure ((asBytesIn a).map (fun b => { outs := [.bytes (H.sha256 b)] }))
    | _ => .error (.panic "index out of bounds")
  | .sha512 =>
    match inps with
    | a :: _ => pure ((asBytesIn a).map (fun b => { outs := [.bytes (H.sha512 b)] }))
    | _ => .error (.panic "index out of bounds")

/-- `incircuit.rs: Parser::process_instruction`. -/
def stepIn (H : Hashes) (w : Option Witness) (st : InState) (i : Instr) : Except Err InState :=
  match mapE (resolveIn st.mem) i.ins with
  | .error e => .error e
  | .ok inps =>
    let known : Bool := inps.all (·.2)
    -- with an unknown witness, a cell assigned by a gadget carries no value; only
    -- `AffineCoordinates` hands out cells of its input
    let knownOut : Bool := w.isSome || (i.op == .affine && known)
    match opIn H w known i (inps.map (·.1)) with
    | .error e => .error e
    | .ok (g, fs, ts) =>
      match insertMany st.mem i.outs (g.outs.map (fun v => (v, knownOut))) with
      | .error e => .error e
      | .ok mem =>
        .ok { mem := mem, pis := st.pis ++ fs, piTypes := st.piTypes ++ ts,
              sat := st.sat && g.sat }

def runIn (H : Hashes) (w : Option Witness) : InState → Program → Except Err InState
  | st, [] => .ok st
  | st, i :: rest =>
    match stepIn H w st i with
    | .error e => .error e
    | .ok st' => runIn H w st' rest

/-- `ZkirRelation::circuit` on a known witness. Result: error value of the synthesis, or
`none` (the constraint system is not satisfied by the honest assignment = unsatisfiable for
this witness) or `some pis` (satisfied; `pis` are the raw public inputs it binds). -/
def evalIn (H : Hashes) (p : Program) (w : Witness) : Except Err (Option (List Nat)) :=
  (runIn H (some w) {} p).map (fun st => if st.sat then some st.pis else none)

/-- The witness-free pass (`dummy_synthesize_run`): the recorded public-input types. -/
def compile (H : Hashes) (p : Program) : Except Err (List IrType) :=
  (runIn H none {} p).map (·.piTypes)

/-- `publish.rs: CircuitValue::as_public_input`: off-circuit value and recorded type to raw
public inputs (`format_instance` concatenates them). -/
def encodeOne (v : IrValue) (t : IrType) : Except Err (List Nat) :=
  match v.checkType t with
  | .error e => .error e
  | .ok () =>
    match v, t with
    | .bool b, _ => .ok [if b then 1 else 0]
    | .bytes bs, _ => .ok bs
    | .native x, _ => .ok [x]
    | .big x, .big n => .ok (toLimbs (divCeil n LOG2_BASE) x)
    | .big _, _ => .error (.panic "unreachable")
    | .point u v, _ => .ok [u, v]
    | .scalar s, _ => .ok [s]

/-- `zkir.rs: format_instance`. -/
def encodePI : List IrValue → List IrType → Except Err (List Nat)
  | [], _ => .ok []
  | _, [] => .ok []
  | v :: vs, t :: ts =>
    match encodeOne v t with
    | .error e => .error e
    | .ok f => (encodePI vs ts).map (f ++ ·)

end MidnightZK.C18
