import MidnightZK.Model.C04.CS
/-!
# C04 — emitters of `NativeChip` (circuits/src/field/native/native_chip.rs)

One function per operation, in explicit state-passing style: given the synthesis state and the
input cells it returns the output cell(s) and the new state (regions, copy constraints, constant
cache). Each mirrors the control flow of the Rust function named in its doc comment, including
the shortcuts that depend on constants and on the constant cache. Default methods of the
instruction traits (circuits/src/instructions/*.rs) are mirrored where `NativeChip` inherits them.
-/
namespace MidnightZK.C04
open Lean.Grind
attribute [local instance] Semiring.natCast

variable {F : Type} [CommRing F] [DecidableEq F]

def advc (r off i : Nat) : Cell := ⟨r, off, .adv i⟩

def mkArith (c0 c1 c2 c3 c4 qNext mulAB mulAC const : F) : ArithRow F :=
  ⟨c0, c1, c2, c3, c4, qNext, mulAB, mulAC, const⟩

/-- native_chip.rs: `AssignmentInstructions<AssignedNative>::assign`. -/
def assign (s : St F) : Cell × St F :=
  let (s, r) := s.addRegion [{ adv := [0] }]
  (advc r 0 0, s)

/-- native_chip.rs: `assign_many` (rows of `NB_ARITH_COLS` values in one region). -/
def assignManyRows : Nat → List (Row F)
  | 0 => []
  | n + 1 => if n + 1 ≤ 5 then [{ adv := List.range (n + 1) }]
             else { adv := List.range 5 } :: assignManyRows (n + 1 - 5)

def assignMany (s : St F) (n : Nat) : List Cell × St F :=
  let (s, r) := s.addRegion (assignManyRows n)
  ((List.range n).map (fun i => advc r (i / 5) (i % 5)), s)

/-- native_chip.rs: `assign_fixed` with `cached_fixed`. -/
def assignFixed (s : St F) (c : F) : Cell × St F :=
  match s.cache.find? (fun p => p.1 = c) with
  | some p => (p.2, s)
  | none =>
    let (s, r) := s.addRegion [{ fixedVal := some c }]
    let cell : Cell := ⟨r, 0, .fix fixedValuesCol⟩
    (cell, { s with cache := (c, cell) :: s.cache })

/-- native_chip.rs: `AssignmentInstructions<AssignedBit>::assign` — `x*x - x = 0`. -/
def assignBit (s : St F) : Cell × St F :=
  let (s, r) := s.addRegion [{ arith := some (mkArith (-1) 0 0 0 0 0 1 0 0), adv := [0, 1] }]
  (advc r 0 0, s.copy (advc r 0 0) (advc r 0 1))

/-- native_chip.rs: `assert_equal` (an empty region holding one copy constraint). -/
def assertEqual (s : St F) (x y : Cell) : St F :=
  let (s, _) := s.addRegion []
  s.copy x y

/-- native_chip.rs: `assert_not_equal` — `r*x - r*y - 1 = 0`. -/
def assertNotEqual (s : St F) (x y : Cell) : St F :=
  let (s, r) := s.addRegion [{ arith := some (mkArith 0 0 0 0 0 0 1 (-1) (-1)), adv := [0, 1, 2] }]
  (s.copy x (advc r 0 1)).copy y (advc r 0 2)

/-- native_chip.rs: `assert_equal_to_fixed`. -/
def assertEqualToFixed (s : St F) (x : Cell) (c : F) : St F :=
  let (cc, s) := assignFixed s c
  assertEqual s x cc

/-- native_chip.rs: `assign_with_shifted_inverse` — `x*r - shift*r - 1 = 0`; returns `(x, r)`. -/
def assignWithShiftedInverse (s : St F) (shift : F) : (Cell × Cell) × St F :=
  let (s, r) := s.addRegion [{ arith := some (mkArith 0 (-shift) 0 0 0 0 1 0 (-1)), adv := [0, 1] }]
  ((advc r 0 0, advc r 0 1), s)

/-- native_chip.rs: `assert_not_equal_to_fixed`. -/
def assertNotEqualToFixed (s : St F) (x : Cell) (c : F) : St F :=
  let ((y, _), s) := assignWithShiftedInverse s c
  assertEqual s x y

/-- zero.rs: `assert_zero` / `assert_non_zero` (defaults). -/
def assertZero (s : St F) (x : Cell) : St F := assertEqualToFixed s x 0
def assertNonZero (s : St F) (x : Cell) : St F := assertNotEqualToFixed s x 0

/-- native_chip.rs: `add_and_double_mul` — `a*x + b*y + c*z + k + m1*x*y + m2*x*z - res = 0`. -/
def addAndDoubleMul (s : St F) (a : F) (x : Cell) (b : F) (y : Cell) (c : F) (z : Cell)
    (k m1 m2 : F) : Cell × St F :=
  let (s, r) := s.addRegion [{ arith := some (mkArith a b c 0 (-1) 0 m1 m2 k), adv := [0, 1, 2, 4] }]
  (advc r 0 4, ((s.copy x (advc r 0 0)).copy y (advc r 0 1)).copy z (advc r 0 2))

/-- native_chip.rs: `add_and_mul`. -/
def addAndMul (s : St F) (a : F) (x : Cell) (b : F) (y : Cell) (c : F) (z : Cell) (k m : F) :
    Cell × St F :=
  addAndDoubleMul s a x b y c z k m 0

/-- One row of `assign_linear_combination_aux`: result in column 0 (coefficient −1), up to
`cols_used` terms in columns 1.., `q_next` on when terms remain. -/
def lcRow (chunk : List F) (qNext const : F) : Row F :=
  { arith := some (mkArith (-1) (chunk.getD 0 0) (chunk.getD 1 0) (chunk.getD 2 0) (chunk.getD 3 0)
      qNext 0 0 const),
    adv := List.range (chunk.length + 1) }

/-- native_chip.rs: `assign_linear_combination_aux` (the rows it writes). -/
def lcRows (colsUsed : Nat) (terms : List F) (const : F) : List (Row F) :=
  if terms.length ≤ colsUsed ∨ colsUsed = 0 then [lcRow (terms.take colsUsed) 0 const]
  else lcRow (terms.take colsUsed) 1 const :: lcRows colsUsed (terms.drop colsUsed) 0
termination_by terms.length
decreasing_by simp only [List.length_drop]; omega

/-- The cell holding term `j` of a chain with `cols_used` terms per row. -/
def lcLimb (colsUsed r off j : Nat) : Cell := advc r (off + j / colsUsed) (j % colsUsed + 1)

/-- native_chip.rs: `linear_combination`. -/
def linearCombination (s : St F) (terms : List (F × Cell)) (const : F) : Cell × St F :=
  let terms := terms.filter (fun t => t.1 ≠ 0)
  if terms.isEmpty then assignFixed s const
  else
    let (s, r) := s.addRegion (lcRows 4 (terms.map (·.1)) const)
    let cps := terms.zipIdx.map (fun (t, j) => (lcLimb 4 r 0 j, t.2))
    (advc r 0 0, s.copies' cps)

/-- arithmetic.rs defaults. -/
def add (s : St F) (x y : Cell) : Cell × St F := linearCombination s [(1, x), (1, y)] 0
def sub (s : St F) (x y : Cell) : Cell × St F := linearCombination s [(1, x), (-1, y)] 0
def neg (s : St F) (x : Cell) : Cell × St F := linearCombination s [(-1, x)] 0
def addConstant (s : St F) (x : Cell) (c : F) : Cell × St F :=
  if c = 0 then (x, s) else linearCombination s [(1, x)] c
def mulByConstant (s : St F) (x : Cell) (c : F) : Cell × St F :=
  if c = 0 then assignFixed s 0 else if c = 1 then (x, s) else linearCombination s [(c, x)] 0

/-- native_chip.rs: `mul` (with its shortcuts through the constant cache). -/
def mul (s : St F) (x y : Cell) (k : Option F) : Cell × St F :=
  if k = some 0 then assignFixed s 0
  else
    let m := k.getD 1
    let (one, s) := assignFixed s 1
    if m = 1 ∧ x = one then (y, s)
    else if m = 1 ∧ y = one then (x, s)
    else addAndMul s 0 x 0 y 0 x 0 m

def square (s : St F) (x : Cell) : Cell × St F := mul s x x none

/-- arithmetic.rs: `pow` (square-and-multiply, least significant bit first). -/
def powLoop (fuel : Nat) (s : St F) (n : Nat) (tmp : Cell) (res : Option Cell) : Option Cell × St F :=
  match fuel with
  | 0 => (res, s)
  | fuel + 1 =>
    if n = 0 then (res, s) else
    let (res, s) :=
      if n % 2 = 1 then
        match res with
        | none => (some tmp, s)
        | some acc => let (r, s) := mul s acc tmp none; (some r, s)
      else (res, s)
    let n := n / 2
    if n > 0 then
      let (tmp, s) := square s tmp
      powLoop fuel s n tmp res
    else (res, s)

def pow (s : St F) (x : Cell) (n : Nat) : Cell × St F :=
  if n = 0 then assignFixed s 1
  else
    let (res, s) := powLoop 65 s n x none
    (res.getD x, s)

/-- native_chip.rs: `inv`. -/
def inv (s : St F) (x : Cell) : Cell × St F :=
  let ((y, r), s) := assignWithShiftedInverse s 0
  (r, assertEqual s x y)

/-- native_chip.rs: `div`. -/
def div (s : St F) (x y : Cell) : Cell × St F :=
  let (yi, s) := inv s y
  mul s x yi none

/-- native_chip.rs: `is_equal_to_fixed`. -/
def isEqualToFixed (s : St F) (x : Cell) (c : F) : Cell × St F :=
  let (s, r) := s.addRegion [{ arith := some (mkArith (-c) 0 0 0 1 0 1 0 (-1)), adv := [0, 1, 4] }]
  let s := s.copy x (advc r 0 1)
  let res := advc r 0 4
  let (mbz, s) := addAndMul s (-c) res 0 x 0 x 0 1
  (res, assertZero s mbz)

/-- native_chip.rs: `is_not_equal_to_fixed`. -/
def isNotEqualToFixed (s : St F) (x : Cell) (c : F) : Cell × St F :=
  let (s, r) := s.addRegion [{ arith := some (mkArith (-c) 0 0 0 (-1) 0 1 0 0), adv := [0, 1, 4] }]
  let s := s.copy x (advc r 0 1)
  let res := advc r 0 4
  let (mbz, s) := addAndMul s c res 1 x 0 x (-c) (-1)
  (res, assertZero s mbz)

/-- native_chip.rs: `is_equal`. -/
def isEqual (s : St F) (x y : Cell) : Cell × St F :=
  let (s, r) := s.addRegion [{ arith := some (mkArith 0 0 0 0 1 0 1 (-1) (-1)), adv := [0, 1, 2, 4] }]
  let s := (s.copy x (advc r 0 1)).copy y (advc r 0 2)
  let res := advc r 0 4
  let (mbz, s) := addAndDoubleMul s 0 res 0 x 0 y 0 1 (-1)
  (res, assertZero s mbz)

/-- native_chip.rs: `is_not_equal`. -/
def isNotEqual (s : St F) (x y : Cell) : Cell × St F :=
  let (s, r) := s.addRegion [{ arith := some (mkArith 0 0 0 0 (-1) 0 1 (-1) 0), adv := [0, 1, 2, 4] }]
  let s := (s.copy x (advc r 0 1)).copy y (advc r 0 2)
  let res := advc r 0 4
  let (mbz, s) := addAndDoubleMul s 0 res 1 x (-1) y 0 (-1) 1
  (res, assertZero s mbz)

/-- zero.rs: `is_zero`. -/
def isZero (s : St F) (x : Cell) : Cell × St F := isEqualToFixed s x 0

/-- native_chip.rs: `ControlFlowInstructions::select` — `bit*x + (1-bit)*y`. -/
def select (s : St F) (c x y : Cell) : Cell × St F :=
  addAndDoubleMul s 0 c 0 x 1 y 0 1 (-1)

/-- native_chip.rs: `cond_swap` (arith gate + 12−34 gate in one row); returns `(fst, snd)`. -/
def condSwap (s : St F) (c x y : Cell) : (Cell × Cell) × St F :=
  let (s, r) := s.addRegion [{ arith := some (mkArith 0 0 1 0 (-1) 0 1 (-1) 0), q1234 := true,
                                adv := [0, 1, 2, 3, 4] }]
  let s := ((s.copy c (advc r 0 0)).copy x (advc r 0 1)).copy y (advc r 0 2)
  ((advc r 0 3, advc r 0 4), s)

/-- native_chip.rs: `inv0`. -/
def inv0 (s : St F) (x : Cell) : Cell × St F :=
  let (isz, s) := isZero s x
  let (zero, s) := assignFixed s 0
  let (one, s) := assignFixed s 1
  let (invertible, s) := select s isz one x
  let (inverse, s) := inv s invertible
  select s isz zero inverse

/-- native_chip.rs: `add_constants_in_region` + `add_constants`. -/
def addConstants (s : St F) (xs : List Cell) (cs : List F) : List Cell × St F :=
  let pairs := (xs.zip cs).filter (fun p => p.2 ≠ 0)
  let rec chunks (s : St F) (ps : List (Cell × F)) (fuel : Nat) : List Cell × St F :=
    match fuel, ps with
    | fuel + 1, (x0, c0) :: (x1, c1) :: (x2, c2) :: rest =>
      let (s, r) := s.addRegion [{ parAdd := some (c0, c1, c2), adv := [0, 1, 2] }, { adv := [0, 1, 2] }]
      let s := ((s.copy x0 (advc r 0 0)).copy x1 (advc r 0 1)).copy x2 (advc r 0 2)
      let (outs, s) := chunks s rest fuel
      ([advc r 1 0, advc r 1 1, advc r 1 2] ++ outs, s)
    | _, rem =>
      rem.foldl (fun (acc : List Cell × St F) p =>
        let (o, s) := addConstant acc.2 p.1 p.2
        (acc.1 ++ [o], s)) ([], s)
  let (nontrivial, s) := chunks s pairs (pairs.length + 1)
  -- reinsert the inputs whose constant is zero
  let rec merge (xs : List Cell) (cs : List F) (nt : List Cell) : List Cell :=
    match xs, cs with
    | x :: xs, c :: cs =>
      if c ≠ 0 then
        match nt with
        | o :: nt => o :: merge xs cs nt
        | [] => []
      else x :: merge xs cs nt
    | _, _ => []
  (merge xs cs nontrivial, s)

/-! ### Bits -/

/-- native_chip.rs: `BinaryInstructions::{and, or, xor, not}`. -/
def and (s : St F) (bits : List Cell) : Cell × St F :=
  match bits with
  | [] => (advc 0 0 0, s)
  | b :: rest => rest.foldl (fun (acc : Cell × St F) b => mul acc.2 acc.1 b none) (b, s)

def or (s : St F) (bits : List Cell) : Cell × St F :=
  match bits with
  | [] => (advc 0 0 0, s)
  | b :: rest =>
    rest.foldl (fun (acc : Cell × St F) b => addAndMul acc.2 1 acc.1 1 b 0 acc.1 0 (-1)) (b, s)

def xor (s : St F) (bits : List Cell) : Cell × St F :=
  match bits with
  | [] => (advc 0 0 0, s)
  | b :: rest =>
    rest.foldl (fun (acc : Cell × St F) b => addAndMul acc.2 1 acc.1 1 b 0 acc.1 0 (-2)) (b, s)

def not (s : St F) (b : Cell) : Cell × St F := linearCombination s [(-1, b)] 1

/-- native_chip.rs: `EqualityInstructions<AssignedBit>`. -/
def bitIsEqual (s : St F) (a b : Cell) : Cell × St F := addAndMul s (-1) a (-1) b 0 a 1 2
def bitIsNotEqual (s : St F) (a b : Cell) : Cell × St F := addAndMul s 1 a 1 b 0 a 0 (-2)
def bitIsEqualToFixed (s : St F) (b : Cell) (c : Bool) : Cell × St F :=
  let (cc, s) := assignFixed s (if c then 1 else 0)
  bitIsEqual s b cc
def bitIsNotEqualToFixed (s : St F) (b : Cell) (c : Bool) : Cell × St F :=
  let (cc, s) := assignFixed s (if c then 1 else 0)
  bitIsNotEqual s b cc

/-- native_chip.rs: `AssertionInstructions<AssignedBit>`. -/
def bitAssertNotEqual (s : St F) (x y : Cell) : St F :=
  let (d, s) := sub s x y
  assertNonZero s d
def bitAssertEqualToFixed (s : St F) (x : Cell) (b : Bool) : St F :=
  assertEqualToFixed s x (if b then 1 else 0)
def bitAssertNotEqualToFixed (s : St F) (x : Cell) (b : Bool) : St F :=
  bitAssertEqualToFixed s x (!b)

/-- native_chip.rs: `ConversionInstructions<AssignedNative, AssignedBit>::convert`. -/
def convertToBit (s : St F) (x : Cell) : Cell × St F :=
  let (b, s) := assignBit s
  (b, assertEqual s x b)

/-- native_chip.rs: `le_bits_geq_than` (recursion on the most significant bit). -/
def leBitsGeqThan (s : St F) (bits : List Cell) (bound : Nat) : Cell × St F :=
  if bound = 0 then assignFixed s 1
  else if bits.length < bound.log2 + 1 then assignFixed s 0
  else
    match _h : bits.length with
    | 0 => assignFixed s 0
    | 1 => (bits.getD 0 (advc 0 0 0), s)
    | n + 2 =>
      let msbPos := n + 1
      let restBound := bound % 2 ^ msbPos + (bound / 2 ^ (msbPos + 1)) * 2 ^ (msbPos + 1)
      let (restGeq, s) := leBitsGeqThan s (bits.take msbPos) restBound
      let msb := bits.getD msbPos (advc 0 0 0)
      if bound / 2 ^ msbPos % 2 = 1 then and s [msb, restGeq] else or s [msb, restGeq]
termination_by bits.length
decreasing_by simp only [List.length_take]; omega

def leBitsLowerThan (s : St F) (bits : List Cell) (bound : Nat) : Cell × St F :=
  let (g, s) := leBitsGeqThan s bits bound
  not s g

end MidnightZK.C04
