import MidnightZK.Model.C04.Decomp
/-!
# C04 — emitters of `VectorGadget` (circuits/src/vec/vector_gadget.rs, circuits/src/vec/vector.rs)

An `AssignedVector<F, T, M, A>` is a buffer of `M` cells and a length cell. The payload (the
`len` effective elements) occupies the positions `get_lims::<M, A>(len)` of the buffer: it ends
`(A − len mod A) mod A` positions before the end of the buffer, so that it starts at a multiple of
`A` when `A` divides `M`; every other position is a filler whose value is unconstrained.

Every function below is the sequence of `NativeGadget` instructions the Rust function issues, in
the same order, on the C04 synthesis state (the emitters of `Native.lean` / `Decomp.lean`); the
recorded real synthesis is compared cell by cell with the result on every run, for every shape
`(M, A)` of the sweep and EVERY length `0..=M`.
-/
namespace MidnightZK.C04
open Lean.Grind
attribute [local instance] Semiring.natCast

variable {F : Type} [CommRing F] [DecidableEq F]

/-- vec/vector.rs: `get_lims::<M, A>(len)` — the range `[start, end)` of the payload. -/
def getLims (M A len : Nat) : Nat × Nat :=
  let finalPad := (A - len % A) % A
  (M - len - finalPad, M - finalPad)

/-- vec/vector.rs: `AssignedVector { buffer, len }`. -/
structure VecCells where
  buf : List Cell
  len : Cell

/-- assignments.rs: `assign_many_fixed` (default: one `assign_fixed` per value; after the first
one the constant comes from the cache of `NativeChip`). -/
def assignManyFixed (s : St F) : Nat → F → List Cell × St F
  | 0, _ => ([], s)
  | n + 1, c =>
    let (x, s) := assignFixed s c
    let (xs, s) := assignManyFixed s n c
    (x :: xs, s)

/-- vector_gadget.rs: `assign_with_filler` (hence `assign`): the `M` buffer cells in one
`assign_many`, then the length through `assign_lower_than_fixed(len, M + 1)`. Which value goes
where (`get_lims`) is witness generation; the cells are the same for every length. -/
def vecAssign (s : St F) (M : Nat) : VecCells × St F :=
  let (buf, s) := assignMany s M
  let (len, s) := assignLowerThanFixed s (M + 1)
  (⟨buf, len⟩, s)

/-- vector_gadget.rs: `resize::<L>` — `L − M` fresh filler cells in front of the buffer; the
length cell is shared. -/
def vecResize (s : St F) (v : VecCells) (M L : Nat) : VecCells × St F :=
  let (extra, s) := assignMany s (L - M)
  (⟨extra ++ v.buf, v.len⟩, s)

/-- vector_gadget.rs: `get_limits` — returns `(start, end)`. `pm1 = p − 1`. -/
def vecGetLimits (s : St F) (v : VecCells) (M A pm1 : Nat) : (Cell × Cell) × St F :=
  let ((_, offset), s) := divRem s v.len A (some M) pm1
  let (end1, s) := addConstant s offset (((M - A : Nat) : Nat) : F)
  let (end2, s) := addConstant s end1 ((A : Nat) : F)
  let (isz, s) := isEqualToFixed s offset 0
  let (end_, s) := select s isz end2 end1
  let (start, s) := sub s end_ v.len
  ((start, end_), s)

/-- One of the two loops of `padding_flag`: for every position `i` of the list, `hit =
is_equal_to_fixed(lim, i)`, `flag = xor [flag, hit]`; returns the flags, the last flag and the
state. -/
def flagScan (s : St F) (lim : Cell) (d : Cell) : List Nat → List Cell × Cell × St F
  | [] => ([], d, s)
  | i :: rest =>
    let (hit, s) := isEqualToFixed s lim ((i : Nat) : F)
    let (d, s) := xor s [d, hit]
    let (fl, dl, s) := flagScan s lim d rest
    (d :: fl, dl, s)

/-- vector_gadget.rs: `padding_flag` — `M` bits, 1 on fillers and 0 on the payload: the flag
starts at 1, flips at `start` (scanned over the positions `0..=M−A`) and flips back at `end`
(scanned over `M−A+1..M`). -/
def vecPaddingFlag (s : St F) (v : VecCells) (M A pm1 : Nat) : List Cell × St F :=
  let ((start, end_), s) := vecGetLimits s v M A pm1
  let (one, s) := assignFixed s 1
  let (fl1, d, s) := flagScan s start one (List.range (M - A + 1))
  let (fl2, _, s) := flagScan s end_ d (List.range' (M - A + 1) (A - 1))
  (fl1 ++ fl2, s)

/-- The `M` selects of `trim_beginning`: `select(needs_adjust, buffer[i], buffer[A + i])`. -/
def trimSelects (s : St F) (c : Cell) (buffer : List Cell) (A : Nat) : List Nat → List Cell × St F
  | [] => ([], s)
  | i :: rest =>
    let (x, s) := select s c (buffer.getD i (advc 0 0 0)) (buffer.getD (A + i) (advc 0 0 0))
    let (xs, s) := trimSelects s c buffer A rest
    (x :: xs, s)

/-- vector_gadget.rs: `trim_beginning(input, n_elems)`; `p` is the native modulus. -/
def vecTrimBeginning (s : St F) (v : VecCells) (M A n p : Nat) : VecCells × St F :=
  let aMaxBits := A.log2 + 1
  let (lenC, s) := linearCombination s [(-1, v.len)] ((M : Nat) : F)
  let s := assertLowerThanFixed s lenC (M + 1 - n)
  let lastTrim := n % A
  let ((_, lastLen), s) := divRem s v.len A (some M) (p - 1)
  let (leqShift, s) := leqFixed s lastLen aMaxBits lastTrim p
  let (fullLast, s) := isEqualToFixed s lastLen 0
  let (needsAdjust, s) := xor s [fullLast, leqShift]
  let (fillers, s) := assignManyFixed s (A + lastTrim) (0 : F)
  let buffer := fillers.take A ++ v.buf.drop lastTrim ++ fillers.drop A
  let (buf, s) := trimSelects s needsAdjust buffer A (List.range M)
  let (len, s) := addConstant s v.len (-((n : Nat) : F))
  (⟨buf, len⟩, s)

/-- The element checks of `is_equal`: `or [is_padding_i, is_equal(a_i, b_i)]` for every position. -/
def vecEqChecks (s : St F) : List Cell → List Cell → List Cell → List Cell × St F
  | fl :: fls, a :: as, b :: bs =>
    let (e, s) := isEqual s a b
    let (o, s) := or s [fl, e]
    let (os, s) := vecEqChecks s fls as bs
    (o :: os, s)
  | _, _, _ => ([], s)

/-- vector_gadget.rs: `EqualityInstructions<AssignedVector>::is_equal` — the padding flags of `x`,
the element checks, the length check, the conjunction. -/
def vecIsEqual (s : St F) (x y : VecCells) (M A pm1 : Nat) : Cell × St F :=
  let (flags, s) := vecPaddingFlag s x M A pm1
  let (checks, s) := vecEqChecks s flags x.buf y.buf
  let (lenCheck, s) := isEqual s x.len y.len
  and s (checks ++ [lenCheck])

/-- vector_gadget.rs: `is_not_equal`. -/
def vecIsNotEqual (s : St F) (x y : VecCells) (M A pm1 : Nat) : Cell × St F :=
  let (b, s) := vecIsEqual s x y M A pm1
  not s b

/-- The element checks of `is_equal_to_fixed`. -/
def vecEqFixedChecks (s : St F) : List Cell → List F → List Cell × St F
  | a :: as, c :: cs =>
    let (e, s) := isEqualToFixed s a c
    let (es, s) := vecEqFixedChecks s as cs
    (e :: es, s)
  | _, _ => ([], s)

/-- vector_gadget.rs: `is_equal_to_fixed(x, constant)` — the length against `constant.len()`, the
positions `get_lims(constant.len())` of the buffer against the constants, the conjunction. -/
def vecIsEqualToFixed (s : St F) (x : VecCells) (M A : Nat) (cs : List F) : Cell × St F :=
  let (eqLen, s) := isEqualToFixed s x.len ((cs.length : Nat) : F)
  let lims := getLims M A cs.length
  let (checks, s) := vecEqFixedChecks s ((x.buf.drop lims.1).take (lims.2 - lims.1)) cs
  and s (checks ++ [eqLen])

def vecIsNotEqualToFixed (s : St F) (x : VecCells) (M A : Nat) (cs : List F) : Cell × St F :=
  let (b, s) := vecIsEqualToFixed s x M A cs
  not s b

/-- vector_gadget.rs: `assert_equal` / `assert_not_equal` — `is_equal`, then the bit is
constrained to the constant. -/
def vecAssertEqual (s : St F) (x y : VecCells) (M A pm1 : Nat) : St F :=
  let (b, s) := vecIsEqual s x y M A pm1
  bitAssertEqualToFixed s b true

def vecAssertNotEqual (s : St F) (x y : VecCells) (M A pm1 : Nat) : St F :=
  let (b, s) := vecIsEqual s x y M A pm1
  bitAssertEqualToFixed s b false

/-- vector_gadget.rs: `assert_equal_to_fixed`. -/
def vecAssertEqualToFixed (s : St F) (x : VecCells) (M A : Nat) (cs : List F) : St F :=
  let s := assertEqualToFixed s x.len ((cs.length : Nat) : F)
  let lims := getLims M A cs.length
  (((x.buf.drop lims.1).take (lims.2 - lims.1)).zip cs).foldl
    (fun s p => assertEqualToFixed s p.1 p.2) s

def vecAssertNotEqualToFixed (s : St F) (x : VecCells) (M A : Nat) (cs : List F) : St F :=
  let (b, s) := vecIsEqualToFixed s x M A cs
  bitAssertEqualToFixed s b false

end MidnightZK.C04
