import MidnightZK.Model.C04.Native
/-!
# C04 — emitters of `Pow2RangeChip`, `P2RDecompositionChip` and `NativeGadget`

circuits/src/field/decomposition/{pow2range.rs, chip.rs, cpu_utils.rs} and
circuits/src/field/native/native_gadget.rs, plus the default methods of
circuits/src/instructions/{comparison, decomposition, division, range_check}.rs that the gadget
inherits.
-/
namespace MidnightZK.C04
open Lean.Grind
attribute [local instance] Semiring.natCast

variable {F : Type} [CommRing F] [DecidableEq F]

def St.queryTag (s : St F) (n : Nat) : St F :=
  if s.tags.contains n then s else { s with tags := n :: s.tags }

/-! ## cpu_utils.rs -/

/-- cpu_utils.rs: `process_limb_sizes` — pad with zero-sized limbs to a multiple of the number of
parallel lookups. -/
def processLimbSizes (nr : Nat) (l : List Nat) : List Nat :=
  if nr = 0 then l else l ++ List.replicate ((nr - l.length % nr) % nr) 0

/-- cpu_utils.rs: `variable_limbsize_coefficients` — `2^shift`, or 0 for a zero-sized limb. -/
def limbCoeffsAux : Nat → List Nat → List Nat
  | _, [] => []
  | shift, sz :: rest => (if sz = 0 then 0 else 2 ^ shift) :: limbCoeffsAux (shift + sz) rest

def limbCoeffs (sizes : List Nat) : List Nat := limbCoeffsAux 0 sizes

/-- cpu_utils.rs: `compute_optimal_limb_sizes`, bottom-up: the entry for `bound` given the table
of all smaller bounds. First strictly shorter candidate wins, candidates enumerated with
`parallel_lookups` ascending and `bit_length` descending. -/
def optStep (maxPar maxBl : Nat) (table : Array (List (List Nat))) (bound : Nat) : List (List Nat) :=
  if bound = 0 then [] else
  let cands : List (Nat × Nat) :=
    (List.range maxPar).flatMap (fun p => (List.range maxBl).map (fun b => (p + 1, maxBl - b)))
  let (best, _) := cands.foldl (fun (acc : List (List Nat) × Option Nat) (pb : Nat × Nat) =>
    let (par, bl) := pb
    if bl * par ≤ bound then
      let sol := (table.getD (bound - bl * par) []) ++ [List.replicate par bl]
      match acc.2 with
      | none => (sol, some sol.length)
      | some v => if sol.length < v then (sol, some sol.length) else acc
    else acc) ([], none)
  best

def optTable (maxPar maxBl n : Nat) : Array (List (List Nat)) :=
  (List.range (n + 1)).foldl (fun t b => t.push (optStep maxPar maxBl t b)) #[]

/-! ## pow2range.rs -/

def splitChunks (nr : Nat) : Nat → List Cell → List (List Cell)
  | 0, _ => []
  | _, [] => []
  | fuel + 1, l => if nr = 0 then [l] else l.take nr :: splitChunks nr fuel (l.drop nr)

/-- pow2range.rs: `assert_values_lower_than_2_pow_n`. -/
def assertValuesLowerThan2PowN (s : St F) (values : List Cell) (n : Nat) : St F :=
  (splitChunks s.nrCols values.length values).foldl (fun s chunk =>
    let (s, r) := s.addRegion [{ tag := some n, adv := (List.range s.nrCols).map (· + 1) }]
    let s := s.copies' (chunk.zipIdx.map (fun (v, i) => (advc r 0 (i + 1), v)))
    s.queryTag n) s

/-! ## decomposition/chip.rs -/

/-- Rows written by `decompose_core`: the chain of `assign_linear_combination_aux` with
`nr_pow2range_cols` limbs per row and coefficients `2^shift` (0 for zero-sized limbs), each row
tagged with the size of the first limb of its chunk (`tags = limb_sizes.chunks(nr).map(|x| x[0])`,
attached from the last row backwards in the Rust code). -/
def decompRows (nr : Nat) (sizes : List Nat) (shift : Nat) : List (Row F) :=
  let chunk := sizes.take nr
  let coeffs : List F := (limbCoeffsAux shift chunk).map (fun (n : Nat) => (n : F))
  if sizes.length ≤ nr ∨ nr = 0 then [{ lcRow coeffs 0 0 with tag := chunk.head? }]
  else { lcRow coeffs 1 0 with tag := chunk.head? } :: decompRows nr (sizes.drop nr) (shift + chunk.sum)
termination_by sizes.length
decreasing_by simp only [List.length_drop]; omega

/-- chip.rs: `decompose_core` — a linear-combination chain with `nr_pow2range_cols` terms per
row, every row range-checked with the limb size of its chunk. Returns the cell holding the
recomposed value and the limb cells of non-zero size. -/
def decomposeCore (s : St F) (sizes : List Nat) : (Cell × List Cell) × St F :=
  let nr := s.nrCols
  let rows : List (Row F) := decompRows nr sizes 0
  let (s, r) := s.addRegion rows
  let tags := rows.filterMap (·.tag)
  let s := tags.foldl (fun s t => s.queryTag t) s
  let limbs := (sizes.zipIdx.filter (fun p => p.1 ≠ 0)).map (fun p => lcLimb nr r 0 p.2)
  ((advc r 0 0, limbs), s)

/-- chip.rs: `assign_less_than_pow2`. -/
def assignLessThanPow2 (s : St F) (bitLength : Nat) : Cell × St F :=
  let opt := (optTable s.nrCols s.maxBitLen bitLength).getD bitLength []
  let sizes := (opt.map (processLimbSizes s.nrCols)).flatten
  let ((y, _), s) := decomposeCore s sizes
  (y, s)

/-- decomposition/instructions.rs: `assert_less_than_pow2` (default). -/
def assertLessThanPow2 (s : St F) (x : Cell) (bitLength : Nat) : St F :=
  let (y, s) := assignLessThanPow2 s bitLength
  let (s, _) := s.addRegion []
  s.copy x y

/-- chip.rs: `decompose_fixed_limb_size`. -/
def decomposeFixedLimbSize (s : St F) (x : Cell) (bitLength limbSize : Nat) : List Cell × St F :=
  let nLimbs := bitLength / limbSize
  let last := bitLength % limbSize
  let nr := s.nrCols
  if limbSize ≤ s.maxBitLen then
    let sizes := processLimbSizes nr (List.replicate nLimbs limbSize)
    let sizes := if last ≠ 0 then processLimbSizes nr (sizes ++ [last]) else sizes
    let ((y, limbs), s) := decomposeCore s sizes
    let (s, _) := s.addRegion []
    (limbs, s.copy x y)
  else
    let sizes := List.replicate nLimbs limbSize ++ (if last ≠ 0 then [last] else [])
    let coeffs : List F := (limbCoeffs sizes).map (fun (n : Nat) => (n : F))
    let (s, r) := s.addRegion (lcRows nr coeffs 0)
    let s := s.copy (advc r 0 0) x
    let limbs := (List.range sizes.length).map (fun j => lcLimb nr r 0 j)
    let s := (limbs.zip sizes).foldl (fun s p => assertLessThanPow2 s p.1 p.2) s
    (limbs, s)

/-- chip.rs: `assign_many_small`. -/
def assignManySmall (s : St F) (n bitLength : Nat) : List Cell × St F :=
  let nr := s.nrCols
  let nChunks := if nr = 0 then 0 else (n + nr - 1) / nr
  (List.range nChunks).foldl (fun (acc : List Cell × St F) j =>
    let (s, r) := acc.2.addRegion [{ tag := some bitLength, adv := (List.range nr).map (· + 1) }]
    let len := min nr (n - j * nr)
    (acc.1 ++ (List.range len).map (fun i => advc r 0 (i + 1)), s.queryTag bitLength)) ([], s)

/-! ## native_gadget.rs

### The bound cache (`constrained_cells`, strict upper bounds)

Every `update_bound` call site of circuits/src/field/native/native_gadget.rs (line numbers of the
pinned tree, for orientation) and its mirror here. The final content of the cache is compared with
`St.bounds` on every trace request (hook `NativeGadget::verif_constrained_cells`, section `B[…]`
of the trace line), and the program generator runs every reader right after every writer.

| native_gadget.rs                                                   | bound        | mirror                         |
|--------------------------------------------------------------------|--------------|--------------------------------|
| `update_bound` (l. 98): `min(old, new)` per cell                    |              | `St.updateBound`               |
| `assert_lower_than_fixed` (l. 289), after the early return          | `bound`      | `assertLowerThanFixed`         |
| `convert` native → byte (l. 799), after the early return            | 256          | `gConvertToByte`               |
| `convert` byte → native (l. 828)                                    | 256          | `convertByteToNative` (`y2n`)  |
| `assert_equal` on natives (l. 1177, 1182): both directions          | other's bound| `gAssertEqual` (`propBound`)   |
| `convert` native → bit (l. 1359), after the early return            | 2            | `gConvertToBit`                |
| `convert` bit → native (l. 1383)                                    | 2            | `convertBitToNative` (`b2n`)   |

Indirect writers (through the sites above): `assign_lower_than_fixed` with a bound that is not a
power of two, `bounded_of_element`, `bnot`, `div_rem` (`assert_lower_than_fixed`);
`lower_than` / `lower_than_fixed` (bit → native of the result bit); `assigned_from_le_bits` /
`assigned_from_le_bytes` (bit / byte → native of every input); the byte-typed assertions and
equality tests (byte → native of every operand); `sgn0`, `div_rem`, native → byte (`assert_equal`).

Readers (early returns): `assert_lower_than_fixed` (l. 284: `current ≤ bound` ⇒ no constraint),
`lower_than_fixed` (l. 369: `current ≤ y` ⇒ constant `true`), native → byte (l. 794: `current ≤
256`), native → bit (l. 1354: `current ≤ 2`), `assert_equal` (propagation). -/

def St.getBound (s : St F) (c : Cell) : Option Nat :=
  (s.bounds.find? (fun p => p.1 = c)).map (·.2)

/-- Is a strict upper bound `≤ b` already recorded for the cell? -/
def St.boundLe (s : St F) (c : Cell) (b : Nat) : Bool :=
  match s.getBound c with
  | some v => decide (v ≤ b)
  | none => false

/-- native_gadget.rs: `update_bound`. -/
def St.updateBound (s : St F) (c : Cell) (b : Nat) : St F :=
  match s.getBound c with
  | some v => { s with bounds := (c, min v b) :: s.bounds.filter (fun p => p.1 ≠ c) }
  | none => { s with bounds := (c, b) :: s.bounds }

/-- native_gadget.rs: `AssertionInstructions<AssignedNative>::assert_equal` for the gadget
(propagates known bounds, then the chip's copy constraint). -/
def gAssertEqual (s : St F) (x y : Cell) : St F :=
  let s := match s.getBound x with | some b => s.updateBound y b | none => s
  let s := match s.getBound y with | some b => s.updateBound x b | none => s
  assertEqual s x y

/-- native_gadget.rs: `assert_lower_than_fixed`. -/
def assertLowerThanFixed (s : St F) (x : Cell) (bound : Nat) : St F :=
  if s.boundLe x bound then s
  else
    let s := s.updateBound x bound
    let k := bound.log2
    if 2 ^ k = bound then assertLessThanPow2 s x k
    else
      let (b, s) := assignBit s
      let diff : F := ((bound - 2 ^ k : Nat) : F)
      let (shifted, s) := addConstant s x (-diff)
      let (y, s) := select s b x shifted
      assertLessThanPow2 s y k

/-- native_gadget.rs: `assign_lower_than_fixed`. -/
def assignLowerThanFixed (s : St F) (bound : Nat) : Cell × St F :=
  if bound = 0 then assignFixed s 0
  else
    let k := bound.log2
    if bound = 2 ^ k then assignLessThanPow2 s k
    else
      let (x, s) := assign s
      (x, assertLowerThanFixed s x bound)

/-- native_gadget.rs: `lower_than`. Inputs are bounded values `(cell, bound in bits)`. -/
def lowerThan (s : St F) (x : Cell) (bx : Nat) (y : Cell) (by_ : Nat) : Cell × St F :=
  let (b, s) := assignBit s
  let s := s.updateBound b 2
  let (bxc, s) := mul s x b none
  let (byc, s) := mul s y b none
  let (z, s) := linearCombination s [(2, byc), (-1, b), (1, x), (-2, bxc), (-1, y)] 0
  (b, assertLessThanPow2 s z (max bx by_))

/-- native_gadget.rs: `lower_than_fixed`; `y` is given by its canonical integer. -/
def lowerThanFixed (s : St F) (x : Cell) (bx : Nat) (y : Nat) : Cell × St F :=
  if s.boundLe x y then assignFixed s 1
  else if y ≥ 2 ^ bx then assignFixed s 1
  else
    let (b, s) := assignBit s
    let s := s.updateBound b 2
    let (bxc, s) := mul s x b none
    let yf : F := (y : F)
    let (z, s) := linearCombination s [(2 * yf - 1, b), (1, x), (-2, bxc)] (-yf)
    (b, assertLessThanPow2 s z bx)

/-- native_gadget.rs: `leq`, `geq`; comparison.rs: `greater_than` (default). -/
def leq (s : St F) (x : Cell) (bx : Nat) (y : Cell) (by_ : Nat) : Cell × St F :=
  let (b1, s) := lowerThan s x bx y by_
  let (b2, s) := isEqual s x y
  or s [b1, b2]

def geq (s : St F) (x : Cell) (bx : Nat) (y : Cell) (by_ : Nat) : Cell × St F :=
  let (b, s) := lowerThan s x bx y by_
  not s b

def greaterThan (s : St F) (x : Cell) (bx : Nat) (y : Cell) (by_ : Nat) : Cell × St F :=
  let (b, s) := leq s x bx y by_
  not s b

/-- comparison.rs defaults `leq_fixed`, `geq_fixed`, `greater_than_fixed`. The constant
`bound + 1` of `leq_fixed` is computed in the field: `p` is the native modulus. -/
def leqFixed (s : St F) (x : Cell) (bx : Nat) (c p : Nat) : Cell × St F :=
  lowerThanFixed s x bx ((c + 1) % p)

def geqFixed (s : St F) (x : Cell) (bx : Nat) (c : Nat) : Cell × St F :=
  let (o, s) := lowerThanFixed s x bx c
  not s o

def greaterThanFixed (s : St F) (x : Cell) (bx : Nat) (c p : Nat) : Cell × St F :=
  let (o, s) := leqFixed s x bx c p
  not s o

/-- native_gadget.rs: `ConversionInstructions<AssignedBit, AssignedNative>::convert` — the cell
itself, recorded as `< 2` (sound because an `AssignedBit` is constrained to be 0 or 1). -/
def convertBitToNative (s : St F) (b : Cell) : St F := s.updateBound b 2

/-- native_gadget.rs: `ConversionInstructions<AssignedByte, AssignedNative>::convert` — the cell
itself, recorded as `< 256` (sound because an `AssignedByte` went through an 8-bit range check).
A model that recorded 255 here (`u8::MAX`, reading the cache as inclusive) would make the step
`b2n/y2n` of `bounds_sound` (Props/C04.lean) unprovable: the type invariant only gives `< 256`. -/
def convertByteToNative (s : St F) (y : Cell) : St F := s.updateBound y 256

/-- native_gadget.rs: `ConversionInstructions<AssignedNative, AssignedBit>::convert`. -/
def gConvertToBit (s : St F) (x : Cell) : Cell × St F :=
  if s.boundLe x 2 then (x, s)
  else convertToBit (s.updateBound x 2) x

/-- native_gadget.rs: `ConversionInstructions<AssignedNative, AssignedByte>::convert`. -/
def gConvertToByte (s : St F) (x : Cell) : Cell × St F :=
  if s.boundLe x 256 then (x, s)
  else
    let s := s.updateBound x 256
    let (b, s) := assignLessThanPow2 s 8
    (b, gAssertEqual s x b)

/-- native_gadget.rs: `sgn0`; `halfP = (p+1)/2` for the native modulus `p`. -/
def sgn0 (s : St F) (x : Cell) (halfP : Nat) : Cell × St F :=
  let (e, s) := assignBit s
  let (w, s) := assignLowerThanFixed s halfP
  let (mbx, s) := linearCombination s [(1, e), (2, w)] 0
  let s := gAssertEqual s x mbx
  let (xz, s) := isZero s x
  let (xnz, s) := not s xz
  and s [xnz, e]

/-- native_gadget.rs: `assigned_to_le_bits`. -/
def assignedToLeBits (s : St F) (x : Cell) (nbBits : Option Nat) (canon : Bool) (numBits halfP : Nat) :
    List Cell × St F :=
  let nb := nbBits.getD numBits
  let (bits, s) := decomposeFixedLimbSize s x nb 1
  if canon ∧ nb = numBits then
    let (b0, s) := sgn0 s x halfP
    (bits, assertEqual s (bits.getD 0 (advc 0 0 0)) b0)
  else (bits, s)

def chunksOf (n : Nat) : Nat → List Cell → List (List Cell)
  | 0, _ => []
  | _, [] => []
  | fuel + 1, l => l.take n :: chunksOf n fuel (l.drop n)

/-- native_gadget.rs: `assigned_to_le_bytes`. -/
def assignedToLeBytes (s : St F) (x : Cell) (nbBytes : Option Nat) (numBits halfP : Nat) :
    List Cell × St F :=
  let fBytes := (numBits + 7) / 8
  let nb := nbBytes.getD fBytes
  if nb = fBytes then
    let (bits, s) := assignedToLeBits s x (some numBits) true numBits halfP
    (chunksOf 8 bits.length bits).foldl (fun (acc : List Cell × St F) chunk =>
      let terms : List (F × Cell) := chunk.zipIdx.map (fun (b, i) => (((2 ^ i : Nat) : F), b))
      let (byte, s) := linearCombination acc.2 terms 0
      (acc.1 ++ [byte], s)) ([], s)
  else decomposeFixedLimbSize s x (8 * nb) 8

/-- native_gadget.rs: `assigned_to_le_chunks`. -/
def assignedToLeChunks (s : St F) (x : Cell) (per : Nat) (nbChunks : Option Nat) (numBits : Nat) :
    List Cell × St F :=
  let n := nbChunks.getD ((numBits + per - 1) / per)
  decomposeFixedLimbSize s x (per * n) per

/-- decomposition.rs: `assigned_from_le_bits` / `assigned_from_le_bytes` (defaults). -/
def assignedFromLeBits (s : St F) (bits : List Cell) : Cell × St F :=
  let s := bits.foldl (fun s b => s.updateBound b 2) s
  let terms : List (F × Cell) := bits.zipIdx.map (fun (b, i) => (((2 ^ i : Nat) : F), b))
  linearCombination s terms 0

def assignedFromLeBytes (s : St F) (bytes : List Cell) : Cell × St F :=
  let s := bytes.foldl (fun s b => s.updateBound b 256) s
  let terms : List (F × Cell) := bytes.zipIdx.map (fun (b, i) => (((256 ^ i : Nat) : F), b))
  linearCombination s terms 0

/-! ## Byte-typed assertions and equality tests (native_gadget.rs: `AssertionInstructions` /
`EqualityInstructions` / `ControlFlowInstructions` for `AssignedByte`): every operand is converted
byte → native first (a bound-cache writer), then the native instruction is used. -/

def byteAssertEqual (s : St F) (x y : Cell) : St F :=
  gAssertEqual (convertByteToNative (convertByteToNative s x) y) x y

def byteAssertNotEqual (s : St F) (x y : Cell) : St F :=
  assertNotEqual (convertByteToNative (convertByteToNative s x) y) x y

def byteAssertEqualToFixed (s : St F) (x : Cell) (c : F) : St F :=
  assertEqualToFixed (convertByteToNative s x) x c

def byteAssertNotEqualToFixed (s : St F) (x : Cell) (c : F) : St F :=
  assertNotEqualToFixed (convertByteToNative s x) x c

def byteIsEqual (s : St F) (x y : Cell) : Cell × St F :=
  isEqual (convertByteToNative (convertByteToNative s x) y) x y

def byteIsNotEqual (s : St F) (x y : Cell) : Cell × St F :=
  isNotEqual (convertByteToNative (convertByteToNative s x) y) x y

def byteIsEqualToFixed (s : St F) (x : Cell) (c : F) : Cell × St F :=
  isEqualToFixed (convertByteToNative s x) x c

def byteIsNotEqualToFixed (s : St F) (x : Cell) (c : F) : Cell × St F :=
  isNotEqualToFixed (convertByteToNative s x) x c

/-! ## Bitwise word instructions (instructions/bitwise.rs defaults) -/

/-- bitwise.rs: `bnot` — `x < 2^n` (through the bound cache), then `2^n − 1 − x`. -/
def bnot (s : St F) (x : Cell) (n : Nat) : Cell × St F :=
  let s := assertLowerThanFixed s x (2 ^ n)
  linearCombination s [(-1, x)] (((2 ^ n : Nat) : F) - 1)

/-- bitwise.rs: `band` / `bor` / `bxor` — both operands to `n` bits (canonical flag set), the
binary connective `f` on every pair of bits, recomposition. -/
def bitwise (f : St F → List Cell → Cell × St F) (s : St F) (x y : Cell) (n numBits halfP : Nat) :
    Cell × St F :=
  let (xb, s) := assignedToLeBits s x (some n) true numBits halfP
  let (yb, s) := assignedToLeBits s y (some n) true numBits halfP
  let (rs, s) := (xb.zip yb).foldl (fun (acc : List Cell × St F) p =>
    let (r, s) := f acc.2 [p.1, p.2]
    (acc.1 ++ [r], s)) ([], s)
  assignedFromLeBits s rs

/-- division.rs: `div_rem` (default); `pm1 = p - 1`. -/
def divRem (s : St F) (x : Cell) (d : Nat) (bound : Option Nat) (pm1 : Nat) : (Cell × Cell) × St F :=
  if d = 1 then
    let (z, s) := assignFixed s 0
    ((x, z), s)
  else
    let bnd := bound.getD pm1
    let (r, s) := assignLowerThanFixed s d
    let (q, s) := assignLowerThanFixed s (bnd / d + 1)
    let (sum, s) := linearCombination s [((d : F), q), (1, r)] 0
    ((q, r), gAssertEqual s x sum)

end MidnightZK.C04
