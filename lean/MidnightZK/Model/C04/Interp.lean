import MidnightZK.Model.ModArith
import MidnightZK.Model.C04.Decomp
/-!
# C04 — interpreter of gadget programs

The request lines of the correspondence harness carry small programs (`op args ; op args ; …`)
over a growing list of variables. `runProg` executes a program with the emitters (structure),
`evalProg` computes the mathematical meaning of every variable from the witness inputs
(the *specification* of each operation over `Nat` modulo `p`).
-/
namespace MidnightZK.C04
open Lean.Grind
attribute [local instance] Semiring.natCast

/-- Kinds of variables: native, bit, byte, bounded (with its bound in bits). -/
inductive Ty where
  | N | B | Y | D (n : Nat)
deriving DecidableEq, Repr

def Ty.render : Ty → String
  | .N => "N" | .B => "B" | .Y => "Y" | .D n => s!"D{n}"

structure Var where
  ty : Ty
  cell : Cell

/-- Parameters of the native field needed by the emitters. -/
structure FieldInfo where
  p : Nat
  numBits : Nat

def FieldInfo.halfP (fi : FieldInfo) : Nat := (fi.p + 1) / 2

section run
variable {F : Type} [CommRing F] [DecidableEq F]

structure RunSt (F : Type) where
  st : St F
  vars : Array Var := #[]

def RunSt.push (r : RunSt F) (ty : Ty) (c : Cell) (s : St F) : RunSt F :=
  { st := s, vars := r.vars.push ⟨ty, c⟩ }

def RunSt.pushMany (r : RunSt F) (ty : Ty) (cs : List Cell) (s : St F) : RunSt F :=
  { st := s, vars := cs.foldl (fun a c => a.push ⟨ty, c⟩) r.vars }

def optNat? (s : String) : Option (Option Nat) :=
  if s = "-" then some none else (parseNat? s).map some

def parseTerms? (s : String) : Option (List (Nat × Nat)) :=
  if s = "-" ∨ s.isEmpty then some [] else
  (s.splitOn ",").mapM (fun t =>
    match t.splitOn ":" with
    | [c, v] => do let c ← parseNat? c; let v ← parseNat? v; pure (c, v)
    | _ => none)

/-- Execute one operation. `none` = malformed request. -/
def execOp (fi : FieldInfo) (ofNat : Nat → F) (r : RunSt F) (toks : List String) : Option (RunSt F) := do
  let cell (i : String) : Option Cell := do
    let i ← parseNat? i
    let v ← r.vars[i]?
    pure v.cell
  let var (i : String) : Option Var := do
    let i ← parseNat? i
    r.vars[i]?
  let cells (l : String) : Option (List Cell) := do
    let l ← parseNatList? l
    l.mapM (fun i => (r.vars[i]?).map (·.cell))
  let cst (c : String) : Option F := (parseNat? c).map ofNat
  let s := r.st
  match toks with
  | ["in"] => let (c, s) := assign s; pure (r.push .N c s)
  | ["inb"] => let (c, s) := assignBit s; pure (r.push .B c s)
  | ["iny"] => let (c, s) := assignLessThanPow2 s 8; pure (r.push .Y c s)
  | ["inmany", n] => do
    let n ← parseNat? n
    let (cs, s) := assignMany s n; pure (r.pushMany .N cs s)
  | ["inbmany", n] => do
    let n ← parseNat? n
    let (cs, s) := assignManySmall s n 1; pure (r.pushMany .B cs s)
  | ["inymany", n] => do
    let n ← parseNat? n
    let (cs, s) := assignManySmall s n 8; pure (r.pushMany .Y cs s)
  | ["fix", c] => do let (x, s) := assignFixed s (← cst c); pure (r.push .N x s)
  | ["fixb", b] => do
    let b ← parseNat? b
    let (x, s) := assignFixed s (if b ≠ 0 then (1 : F) else 0); pure (r.push .B x s)
  | ["fixy", b] => do
    let b ← parseNat? b
    let (x, s) := assignFixed s (ofNat b); pure (r.push .Y x s)
  | ["add", a, b] => do let (x, s) := add s (← cell a) (← cell b); pure (r.push .N x s)
  | ["sub", a, b] => do let (x, s) := sub s (← cell a) (← cell b); pure (r.push .N x s)
  | ["neg", a] => do let (x, s) := neg s (← cell a); pure (r.push .N x s)
  | ["mul", a, b] => do let (x, s) := mul s (← cell a) (← cell b) none; pure (r.push .N x s)
  | ["mulk", a, b, k] => do
    let (x, s) := mul s (← cell a) (← cell b) (some (← cst k)); pure (r.push .N x s)
  | ["addc", a, c] => do let (x, s) := addConstant s (← cell a) (← cst c); pure (r.push .N x s)
  | ["mulc", a, c] => do let (x, s) := mulByConstant s (← cell a) (← cst c); pure (r.push .N x s)
  | ["sq", a] => do let (x, s) := square s (← cell a); pure (r.push .N x s)
  | ["pow", a, n] => do let (x, s) := pow s (← cell a) (← parseNat? n); pure (r.push .N x s)
  | ["lc", terms, k] => do
    let ts ← parseTerms? terms
    let ts ← ts.mapM (fun (c, v) => (r.vars[v]?).map (fun x => (ofNat c, x.cell)))
    let (x, s) := linearCombination s ts (← cst k); pure (r.push .N x s)
  | ["aam", a, x, b, y, c, z, k, m] => do
    let (o, s) := addAndMul s (← cst a) (← cell x) (← cst b) (← cell y) (← cst c) (← cell z)
      (← cst k) (← cst m)
    pure (r.push .N o s)
  | ["inv", a] => do let (x, s) := inv s (← cell a); pure (r.push .N x s)
  | ["div", a, b] => do let (x, s) := div s (← cell a) (← cell b); pure (r.push .N x s)
  | ["inv0", a] => do let (x, s) := inv0 s (← cell a); pure (r.push .N x s)
  | ["addcs", xs, cs] => do
    let xs ← cells xs
    let cs ← parseNatList? cs
    if xs.length ≠ cs.length then none else
    let (os, s) := addConstants s xs (cs.map ofNat); pure (r.pushMany .N os s)
  | ["aeq", a, b] => do pure { r with st := gAssertEqual s (← cell a) (← cell b) }
  | ["aneq", a, b] => do pure { r with st := assertNotEqual s (← cell a) (← cell b) }
  | ["aeqf", a, c] => do pure { r with st := assertEqualToFixed s (← cell a) (← cst c) }
  | ["aneqf", a, c] => do pure { r with st := assertNotEqualToFixed s (← cell a) (← cst c) }
  | ["az", a] => do pure { r with st := assertZero s (← cell a) }
  | ["anz", a] => do pure { r with st := assertNonZero s (← cell a) }
  | ["iseq", a, b] => do let (x, s) := isEqual s (← cell a) (← cell b); pure (r.push .B x s)
  | ["isneq", a, b] => do let (x, s) := isNotEqual s (← cell a) (← cell b); pure (r.push .B x s)
  | ["iseqf", a, c] => do let (x, s) := isEqualToFixed s (← cell a) (← cst c); pure (r.push .B x s)
  | ["isneqf", a, c] => do
    let (x, s) := isNotEqualToFixed s (← cell a) (← cst c); pure (r.push .B x s)
  | ["isz", a] => do let (x, s) := isZero s (← cell a); pure (r.push .B x s)
  | ["and", l] => do
    let l ← cells l
    if l.isEmpty then none else let (x, s) := and s l; pure (r.push .B x s)
  | ["or", l] => do
    let l ← cells l
    if l.isEmpty then none else let (x, s) := or s l; pure (r.push .B x s)
  | ["xor", l] => do
    let l ← cells l
    if l.isEmpty then none else let (x, s) := xor s l; pure (r.push .B x s)
  | ["not", a] => do let (x, s) := not s (← cell a); pure (r.push .B x s)
  | ["biseq", a, b] => do let (x, s) := bitIsEqual s (← cell a) (← cell b); pure (r.push .B x s)
  | ["bisneq", a, b] => do let (x, s) := bitIsNotEqual s (← cell a) (← cell b); pure (r.push .B x s)
  | ["biseqf", a, c] => do
    let (x, s) := bitIsEqualToFixed s (← cell a) ((← parseNat? c) ≠ 0); pure (r.push .B x s)
  | ["bisneqf", a, c] => do
    let (x, s) := bitIsNotEqualToFixed s (← cell a) ((← parseNat? c) ≠ 0); pure (r.push .B x s)
  | ["baeq", a, b] => do pure { r with st := assertEqual s (← cell a) (← cell b) }
  | ["baneq", a, b] => do pure { r with st := bitAssertNotEqual s (← cell a) (← cell b) }
  | ["baeqf", a, c] => do
    pure { r with st := bitAssertEqualToFixed s (← cell a) ((← parseNat? c) ≠ 0) }
  | ["baneqf", a, c] => do
    pure { r with st := bitAssertNotEqualToFixed s (← cell a) ((← parseNat? c) ≠ 0) }
  | ["sel", c, a, b] => do
    let (x, s) := select s (← cell c) (← cell a) (← cell b); pure (r.push .N x s)
  | ["cswap", c, a, b] => do
    let ((x, y), s) := condSwap s (← cell c) (← cell a) (← cell b)
    pure ((r.push .N x s).push .N y s)
  | ["caeq", c, a, b] => do
    let y ← cell b
    let (x, s) := select s (← cell c) (← cell a) y
    pure { r with st := gAssertEqual s x y }
  | ["bsel", c, a, b] => do
    let (x, s) := select s (← cell c) (← cell a) (← cell b); pure (r.push .B x s)
  | ["bcswap", c, a, b] => do
    let ((x, y), s) := condSwap s (← cell c) (← cell a) (← cell b)
    pure ((r.push .B x s).push .B y s)
  | ["geqbits", l, bound] => do
    let (x, s) := leBitsGeqThan s (← cells l) (← parseNat? bound); pure (r.push .B x s)
  | ["ltbits", l, bound] => do
    let (x, s) := leBitsLowerThan s (← cells l) (← parseNat? bound); pure (r.push .B x s)
  | ["iscanon", l] => do
    let l ← cells l
    let (x, s) := if l.length > fi.numBits then assignFixed s (0 : F) else leBitsLowerThan s l fi.p
    pure (r.push .B x s)
  | ["b2n", a] => do let c ← cell a; pure (r.push .N c (s.updateBound c 2))
  | ["n2b", a] => do let (x, s) := gConvertToBit s (← cell a); pure (r.push .B x s)
  | ["n2y", a] => do let (x, s) := gConvertToByte s (← cell a); pure (r.push .Y x s)
  | ["y2n", a] => do let c ← cell a; pure (r.push .N c (s.updateBound c 256))
  | ["rc", l, n] => do
    pure { r with st := assertValuesLowerThan2PowN s (← cells l) (← parseNat? n) }
  | ["altp2", k] => do let (x, s) := assignLessThanPow2 s (← parseNat? k); pure (r.push .N x s)
  | ["asltp2", a, k] => do pure { r with st := assertLessThanPow2 s (← cell a) (← parseNat? k) }
  | ["dfl", a, bl, ls] => do
    let ls ← parseNat? ls
    if ls = 0 then none else
    let (xs, s) := decomposeFixedLimbSize s (← cell a) (← parseNat? bl) ls
    pure (r.pushMany .N xs s)
  | ["ams", n, k] => do
    let (xs, s) := assignManySmall s (← parseNat? n) (← parseNat? k); pure (r.pushMany .N xs s)
  | ["alf", a, bound] => do
    let b ← parseNat? bound
    if b = 0 then none else pure { r with st := assertLowerThanFixed s (← cell a) b }
  | ["inlf", bound] => do
    let (x, s) := assignLowerThanFixed s (← parseNat? bound); pure (r.push .N x s)
  | ["bnd", a, n] => do
    let n ← parseNat? n
    let c ← cell a
    pure (r.push (.D n) c (assertLowerThanFixed s c (2 ^ n)))
  | ["lt", a, b] => do
    let (x, y) := (← var a, ← var b)
    match x.ty, y.ty with
    | .D bx, .D by_ => let (o, s) := lowerThan s x.cell bx y.cell by_; pure (r.push .B o s)
    | _, _ => none
  | ["leq", a, b] => do
    let (x, y) := (← var a, ← var b)
    match x.ty, y.ty with
    | .D bx, .D by_ => let (o, s) := leq s x.cell bx y.cell by_; pure (r.push .B o s)
    | _, _ => none
  | ["geq", a, b] => do
    let (x, y) := (← var a, ← var b)
    match x.ty, y.ty with
    | .D bx, .D by_ => let (o, s) := geq s x.cell bx y.cell by_; pure (r.push .B o s)
    | _, _ => none
  | ["gt", a, b] => do
    let (x, y) := (← var a, ← var b)
    match x.ty, y.ty with
    | .D bx, .D by_ => let (o, s) := greaterThan s x.cell bx y.cell by_; pure (r.push .B o s)
    | _, _ => none
  | ["ltf", a, c] => do
    let x ← var a
    match x.ty with
    | .D bx => let (o, s) := lowerThanFixed s x.cell bx (← parseNat? c); pure (r.push .B o s)
    | _ => none
  | ["leqf", a, c] => do
    let x ← var a
    match x.ty with
    | .D bx =>
      let (o, s) := leqFixed s x.cell bx (← parseNat? c) fi.p; pure (r.push .B o s)
    | _ => none
  | ["geqf", a, c] => do
    let x ← var a
    match x.ty with
    | .D bx =>
      let (o, s) := geqFixed s x.cell bx (← parseNat? c); pure (r.push .B o s)
    | _ => none
  | ["gtf", a, c] => do
    let x ← var a
    match x.ty with
    | .D bx =>
      let (o, s) := greaterThanFixed s x.cell bx (← parseNat? c) fi.p; pure (r.push .B o s)
    | _ => none
  | ["bits", a, nb, canon] => do
    let (xs, s) := assignedToLeBits s (← cell a) (← optNat? nb) ((← parseNat? canon) ≠ 0)
      fi.numBits fi.halfP
    pure (r.pushMany .B xs s)
  | ["bytes", a, nb] => do
    let (xs, s) := assignedToLeBytes s (← cell a) (← optNat? nb) fi.numBits fi.halfP
    pure (r.pushMany .Y xs s)
  | ["chunks", a, per, nb] => do
    let per ← parseNat? per
    if per = 0 then none else
    let (xs, s) := assignedToLeChunks s (← cell a) per (← optNat? nb) fi.numBits
    pure (r.pushMany .N xs s)
  | ["sgn0", a] => do let (x, s) := sgn0 s (← cell a) fi.halfP; pure (r.push .B x s)
  | ["frombits", l] => do let (x, s) := assignedFromLeBits s (← cells l); pure (r.push .N x s)
  | ["frombytes", l] => do let (x, s) := assignedFromLeBytes s (← cells l); pure (r.push .N x s)
  | ["divrem", a, d, bound] => do
    let d ← parseNat? d
    if d = 0 then none else
    let ((q, rm), s) := divRem s (← cell a) d (← optNat? bound) (fi.p - 1)
    pure ((r.push .N q s).push .N rm s)
  | _ => none

/-- Split a token list at `;`. -/
def splitOps (toks : List String) : List (List String) :=
  let (cur, acc) := toks.foldl (fun (st : List String × List (List String)) t =>
    if t = ";" then ([], st.1.reverse :: st.2) else (t :: st.1, st.2)) ([], [])
  (cur.reverse :: acc).reverse

def runOps (fi : FieldInfo) (ofNat : Nat → F) (r : RunSt F) : List (List String) → Option (RunSt F)
  | [] => some r
  | o :: rest => do
    let r ← execOp fi ofNat r o
    runOps fi ofNat r rest

end run

/-! ## Mathematical meaning of every operation (values, over `Nat` modulo `p`) -/

def natBits (n : Nat) : Nat → List Nat
  | 0 => []
  | k + 1 => (n % 2) :: natBits (n / 2) k

def fromLimbs (base : Nat) : List Nat → Nat
  | [] => 0
  | a :: t => a + base * fromLimbs base t

/-- Little-endian limbs of `x` with the given sizes (cpu_utils.rs:
`decompose_in_variable_limbsizes`). -/
def limbsOf : Nat → List Nat → List Nat
  | _, [] => []
  | x, sz :: rest => (x % 2 ^ sz) :: limbsOf (x / 2 ^ sz) rest

def b2n (b : Bool) : Nat := if b then 1 else 0

/-- The specification: values of the variables produced by one operation, from the values of
the existing variables and the witness inputs. Returns the new values and the remaining inputs. -/
def evalOp (fi : FieldInfo) (vals : Array Nat) (inputs : List Nat) (toks : List String) :
    Option (List Nat × List Nat) := do
  let p := fi.p
  let v (i : String) : Option Nat := do vals[(← parseNat? i)]?
  let vs (l : String) : Option (List Nat) := do (← parseNatList? l).mapM (fun i => vals[i]?)
  let c (s : String) : Option Nat := (parseNat? s).map (· % p)
  let take (n : Nat) : Option (List Nat × List Nat) :=
    if inputs.length < n then none else some (inputs.take n, inputs.drop n)
  let out (l : List Nat) : Option (List Nat × List Nat) := some (l, inputs)
  match toks with
  | ["in"] | ["inb"] | ["iny"] | ["altp2", _] | ["inlf", _] => take 1
  | ["inmany", n] | ["inbmany", n] | ["inymany", n] | ["ams", n, _] => do take (← parseNat? n)
  | ["fix", k] => do out [← c k]
  | ["fixb", b] => do out [b2n ((← parseNat? b) ≠ 0)]
  | ["fixy", b] => do out [← parseNat? b]
  | ["add", a, b] => do out [addMod (← v a) (← v b) p]
  | ["sub", a, b] => do out [subMod (← v a) (← v b) p]
  | ["neg", a] => do out [negMod (← v a) p]
  | ["mul", a, b] => do out [mulMod (← v a) (← v b) p]
  | ["mulk", a, b, k] => do out [mulMod (← c k) (mulMod (← v a) (← v b) p) p]
  | ["addc", a, k] => do out [addMod (← v a) (← c k) p]
  | ["mulc", a, k] => do out [mulMod (← v a) (← c k) p]
  | ["sq", a] => do let x ← v a; out [mulMod x x p]
  | ["pow", a, n] => do out [powMod (← v a) (← parseNat? n) p]
  | ["lc", terms, k] => do
    let ts ← parseTerms? terms
    let xs ← ts.mapM (fun (co, i) => (vals[i]?).map (fun x => co % p * x))
    out [(xs.foldl (· + ·) (← c k)) % p]
  | ["aam", a, x, b, y, cc, z, k, m] => do
    let (x, y, z) := (← v x, ← v y, ← v z)
    out [((← c a) * x + (← c b) * y + (← c cc) * z + (← c k) + (← c m) * x * y) % p]
  | ["inv", a] => do out [invMod (← v a) p]
  | ["div", a, b] => do out [mulMod (← v a) (invMod (← v b) p) p]
  | ["inv0", a] => do out [invMod (← v a) p]
  | ["addcs", xs, cs] => do
    let xs ← vs xs
    let cs ← parseNatList? cs
    out ((xs.zip cs).map (fun (x, k) => (x + k) % p))
  | ["aeq", _, _] | ["aneq", _, _] | ["aeqf", _, _] | ["aneqf", _, _] | ["az", _] | ["anz", _]
  | ["baeq", _, _] | ["baneq", _, _] | ["baeqf", _, _] | ["baneqf", _, _] | ["caeq", _, _, _]
  | ["rc", _, _] | ["asltp2", _, _] | ["alf", _, _] => out []
  | ["iseq", a, b] | ["biseq", a, b] => do out [b2n ((← v a) = (← v b))]
  | ["isneq", a, b] | ["bisneq", a, b] => do out [b2n ((← v a) ≠ (← v b))]
  | ["iseqf", a, k] => do out [b2n ((← v a) = (← c k))]
  | ["isneqf", a, k] => do out [b2n ((← v a) ≠ (← c k))]
  | ["biseqf", a, k] => do out [b2n ((← v a) = b2n ((← parseNat? k) ≠ 0))]
  | ["bisneqf", a, k] => do out [b2n ((← v a) ≠ b2n ((← parseNat? k) ≠ 0))]
  | ["isz", a] => do out [b2n ((← v a) = 0)]
  | ["and", l] => do out [b2n ((← vs l).all (· = 1))]
  | ["or", l] => do out [b2n ((← vs l).any (· = 1))]
  | ["xor", l] => do out [((← vs l).foldl (· + ·) 0) % 2]
  | ["not", a] => do out [1 - (← v a)]
  | ["sel", cd, a, b] | ["bsel", cd, a, b] => do
    let (x, y) := (← v a, ← v b)
    out [if (← v cd) = 1 then x else y]
  | ["cswap", cd, a, b] | ["bcswap", cd, a, b] => do
    let (x, y) := (← v a, ← v b)
    out (if (← v cd) = 1 then [y, x] else [x, y])
  | ["geqbits", l, bound] => do out [b2n (fromLimbs 2 (← vs l) ≥ (← parseNat? bound))]
  | ["ltbits", l, bound] => do out [b2n (fromLimbs 2 (← vs l) < (← parseNat? bound))]
  | ["iscanon", l] => do out [b2n (fromLimbs 2 (← vs l) < p)]
  | ["b2n", a] | ["n2b", a] | ["n2y", a] | ["y2n", a] | ["bnd", a, _] => do out [← v a]
  | ["dfl", a, bl, ls] => do
    let (bl, ls) := (← parseNat? bl, ← parseNat? ls)
    if ls = 0 then none else
    let sizes := List.replicate (bl / ls) ls ++ (if bl % ls ≠ 0 then [bl % ls] else [])
    out (limbsOf (← v a) sizes)
  | ["lt", a, b] => do out [b2n ((← v a) < (← v b))]
  | ["leq", a, b] => do out [b2n ((← v a) ≤ (← v b))]
  | ["geq", a, b] => do out [b2n ((← v a) ≥ (← v b))]
  | ["gt", a, b] => do out [b2n ((← v a) > (← v b))]
  | ["ltf", a, k] => do out [b2n ((← v a) < (← c k))]
  | ["leqf", a, k] => do out [b2n ((← v a) ≤ (← c k))]
  | ["geqf", a, k] => do out [b2n ((← v a) ≥ (← c k))]
  | ["gtf", a, k] => do out [b2n ((← v a) > (← c k))]
  | ["bits", a, nb, _] => do out (natBits (← v a) ((← optNat? nb).getD fi.numBits))
  | ["bytes", a, nb] => do
    let nb := (← optNat? nb).getD ((fi.numBits + 7) / 8)
    out (limbsOf (← v a) (List.replicate nb 8))
  | ["chunks", a, per, nb] => do
    let per ← parseNat? per
    if per = 0 then none else
    let n := (← optNat? nb).getD ((fi.numBits + per - 1) / per)
    out (limbsOf (← v a) (List.replicate n per))
  | ["sgn0", a] => do out [(← v a) % 2]
  | ["frombits", l] => do out [fromLimbs 2 (← vs l) % p]
  | ["frombytes", l] => do out [fromLimbs 256 (← vs l) % p]
  | ["divrem", a, d, _] => do
    let d ← parseNat? d
    if d = 0 then none else
    let x ← v a
    out [x / d, x % d]
  | _ => none

def evalOps (fi : FieldInfo) (vals : Array Nat) (inputs : List Nat) :
    List (List String) → Option (Array Nat)
  | [] => if inputs.isEmpty then some vals else none
  | o :: rest => do
    let (news, inputs) ← evalOp fi vals inputs o
    evalOps fi (news.foldl (fun a x => a.push x) vals) inputs rest

end MidnightZK.C04
