import MidnightZK.Model.ModArith
import MidnightZK.Model.C04.Decomp
import MidnightZK.Model.C04.Vector
import MidnightZK.Model.C04.Map
/-!
# C04 — interpreter of gadget programs

The request lines of the correspondence harness carry small programs (`op args ; op args ; …`)
over a growing list of variables. `runProg` executes a program with the emitters (structure),
`evalProg` computes the mathematical meaning of every variable from the witness inputs
(the *specification* of each operation over `Nat` modulo `p`).
-/
namespace MidnightZK.C04
open Lean.Grind
attribute [local instance] Semiring.natCast

/-- Kinds of variables: native, bit, byte, bounded (with its bound in bits). -/
inductive Ty where
  | N | B | Y | D (n : Nat)
deriving DecidableEq, Repr

def Ty.render : Ty → String
  | .N => "N" | .B => "B" | .Y => "Y" | .D n => s!"D{n}"

structure Var where
  ty : Ty
  cell : Cell

/-- Parameters of the native field needed by the emitters. -/
structure FieldInfo where
  p : Nat
  numBits : Nat

def FieldInfo.halfP (fi : FieldInfo) : Nat := (fi.p + 1) / 2

section run
variable {F : Type} [CommRing F] [DecidableEq F]

structure RunSt (F : Type) where
  st : St F
  vars : Array Var := #[]

def RunSt.push (r : RunSt F) (ty : Ty) (c : Cell) (s : St F) : RunSt F :=
  { st := s, vars := r.vars.push ⟨ty, c⟩ }

def RunSt.pushMany (r : RunSt F) (ty : Ty) (cs : List Cell) (s : St F) : RunSt F :=
  { st := s, vars := cs.foldl (fun a c => a.push ⟨ty, c⟩) r.vars }

/-- A vector of shape `(M, _)` is flattened into `M + 1` variables: the buffer cells, then the
length cell (harness: `vecops.rs: push_vec`, through the hook `AssignedVector::verif_parts`). -/
def RunSt.vecAt (r : RunSt F) (i M : Nat) : Option VecCells := do
  let buf ← (List.range M).mapM (fun j => (r.vars[i + j]?).map (·.cell))
  let len ← (r.vars[i + M]?).map (·.cell)
  pure ⟨buf, len⟩

def RunSt.pushVec (r : RunSt F) (v : VecCells) (s : St F) : RunSt F :=
  (r.pushMany .N v.buf s).push .N v.len s

def optNat? (s : String) : Option (Option Nat) :=
  if s = "-" then some none else (parseNat? s).map some

def parseTerms? (s : String) : Option (List (Nat × Nat)) :=
  if s = "-" ∨ s.isEmpty then some [] else
  (s.splitOn ",").mapM (fun t =>
    match t.splitOn ":" with
    | [c, v] => do let c ← parseNat? c; let v ← parseNat? v; pure (c, v)
    | _ => none)


/-! ## The core language

Typed operations over variable indices: the assignments, the arithmetic / assertion / equality /
boolean building blocks, and EVERY reader and writer of the bound cache of `NativeGadget`
(conversions, range checks, comparisons, recompositions, `div_rem`, `bnot`, the byte-typed
assertions and equality tests). `execOp` parses a request into a `COp` and runs it with
`COp.run`; the invariant theorem `bounds_sound` (Props/C04.lean) is an induction over lists of
`COp`s. Operand types are checked where the Rust interface types them (`AssignedBit`,
`AssignedByte`, `AssignedBounded`). -/
inductive COp (F : Type) where
  | assign | assignBit | assignByte
  | fix (c : F) | fixBit (b : Bool) | fixByte (b : Nat)
  | add (a b : Nat) | sub (a b : Nat) | neg (a : Nat) | mul (a b : Nat) (k : Option F)
  | addc (a : Nat) (c : F) | mulc (a : Nat) (c : F) | lc (ts : List (F × Nat)) (k : F)
  | sel (c a b : Nat)
  | aeq (a b : Nat) | aneq (a b : Nat) | aeqf (a : Nat) (c : F) | aneqf (a : Nat) (c : F)
  | iseq (a b : Nat) | isneq (a b : Nat) | iseqf (a : Nat) (c : F) | isneqf (a : Nat) (c : F)
  | not (a : Nat) | and (l : List Nat) | or (l : List Nat) | xor (l : List Nat)
  | b2n (a : Nat) | n2b (a : Nat) | y2n (a : Nat) | n2y (a : Nat)
  | alf (a bound : Nat) | inlf (bound : Nat) | bnd (a n : Nat) | asltp2 (a k : Nat) | altp2 (k : Nat)
  | bnot (a n : Nat)
  | lt (a b : Nat) | leq (a b : Nat) | geq (a b : Nat) | gt (a b : Nat)
  | ltf (a c : Nat) | leqf (a c : Nat) | geqf (a c : Nat) | gtf (a c : Nat)
  | frombits (l : List Nat) | frombytes (l : List Nat)
  | divrem (a d : Nat) (bound : Option Nat)
  | yaeq (a b : Nat) | yaneq (a b : Nat) | yaeqf (a c : Nat) | yaneqf (a c : Nat)
  | yiseq (a b : Nat) | yisneq (a b : Nat) | yiseqf (a c : Nat) | yisneqf (a c : Nat)

def RunSt.cellOf (r : RunSt F) (i : Nat) : Option Cell := (r.vars[i]?).map (·.cell)

/-- The cell of variable `i`, provided it has type `ty`. -/
def RunSt.cellTy (r : RunSt F) (ty : Ty) (i : Nat) : Option Cell :=
  match r.vars[i]? with
  | some v => if v.ty = ty then some v.cell else none
  | none => none

def RunSt.cellsTy (r : RunSt F) (ty : Ty) (l : List Nat) : Option (List Cell) :=
  l.mapM (r.cellTy ty)

/-- The cell and bit bound of a variable of type `AssignedBounded`. -/
def RunSt.cellD (r : RunSt F) (i : Nat) : Option (Cell × Nat) :=
  match r.vars[i]? with
  | some ⟨.D n, c⟩ => some (c, n)
  | _ => none

/-- Execute one operation of the core language. `none` = ill-typed or dangling operand. -/
def COp.run (fi : FieldInfo) (r : RunSt F) : COp F → Option (RunSt F)
  | .assign => let (c, s) := MidnightZK.C04.assign r.st; some (r.push .N c s)
  | .assignBit => let (c, s) := MidnightZK.C04.assignBit r.st; some (r.push .B c s)
  | .assignByte => let (c, s) := assignLessThanPow2 r.st 8; some (r.push .Y c s)
  | .fix c => let (x, s) := assignFixed r.st c; some (r.push .N x s)
  | .fixBit b => let (x, s) := assignFixed r.st (if b then (1 : F) else 0); some (r.push .B x s)
  | .fixByte b =>
    if b < 256 then let (x, s) := assignFixed r.st ((b : Nat) : F); some (r.push .Y x s) else none
  | .add a b => do
    let (x, s) := MidnightZK.C04.add r.st (← r.cellOf a) (← r.cellOf b); pure (r.push .N x s)
  | .sub a b => do
    let (x, s) := MidnightZK.C04.sub r.st (← r.cellOf a) (← r.cellOf b); pure (r.push .N x s)
  | .neg a => do let (x, s) := MidnightZK.C04.neg r.st (← r.cellOf a); pure (r.push .N x s)
  | .mul a b k => do
    let (x, s) := MidnightZK.C04.mul r.st (← r.cellOf a) (← r.cellOf b) k; pure (r.push .N x s)
  | .addc a c => do let (x, s) := addConstant r.st (← r.cellOf a) c; pure (r.push .N x s)
  | .mulc a c => do let (x, s) := mulByConstant r.st (← r.cellOf a) c; pure (r.push .N x s)
  | .lc ts k => do
    let ts ← ts.mapM (fun (c, v) => (r.cellOf v).map (fun x => (c, x)))
    let (x, s) := linearCombination r.st ts k; pure (r.push .N x s)
  | .sel c a b => do
    let (x, s) := select r.st (← r.cellOf c) (← r.cellOf a) (← r.cellOf b); pure (r.push .N x s)
  | .aeq a b => do pure { r with st := gAssertEqual r.st (← r.cellOf a) (← r.cellOf b) }
  | .aneq a b => do pure { r with st := assertNotEqual r.st (← r.cellOf a) (← r.cellOf b) }
  | .aeqf a c => do pure { r with st := assertEqualToFixed r.st (← r.cellOf a) c }
  | .aneqf a c => do pure { r with st := assertNotEqualToFixed r.st (← r.cellOf a) c }
  | .iseq a b => do
    let (x, s) := isEqual r.st (← r.cellOf a) (← r.cellOf b); pure (r.push .B x s)
  | .isneq a b => do
    let (x, s) := isNotEqual r.st (← r.cellOf a) (← r.cellOf b); pure (r.push .B x s)
  | .iseqf a c => do let (x, s) := isEqualToFixed r.st (← r.cellOf a) c; pure (r.push .B x s)
  | .isneqf a c => do let (x, s) := isNotEqualToFixed r.st (← r.cellOf a) c; pure (r.push .B x s)
  | .not a => do let (x, s) := MidnightZK.C04.not r.st (← r.cellTy .B a); pure (r.push .B x s)
  | .and l => do
    match ← r.cellsTy .B l with
    | [] => none
    | b :: rest => let (x, s) := MidnightZK.C04.and r.st (b :: rest); pure (r.push .B x s)
  | .or l => do
    match ← r.cellsTy .B l with
    | [] => none
    | b :: rest => let (x, s) := MidnightZK.C04.or r.st (b :: rest); pure (r.push .B x s)
  | .xor l => do
    match ← r.cellsTy .B l with
    | [] => none
    | b :: rest => let (x, s) := MidnightZK.C04.xor r.st (b :: rest); pure (r.push .B x s)
  | .b2n a => do let c ← r.cellTy .B a; pure (r.push .N c (convertBitToNative r.st c))
  | .n2b a => do let (x, s) := gConvertToBit r.st (← r.cellOf a); pure (r.push .B x s)
  | .y2n a => do let c ← r.cellTy .Y a; pure (r.push .N c (convertByteToNative r.st c))
  | .n2y a => do let (x, s) := gConvertToByte r.st (← r.cellOf a); pure (r.push .Y x s)
  | .alf a bound => do
    if bound = 0 then none else pure { r with st := assertLowerThanFixed r.st (← r.cellOf a) bound }
  | .inlf bound =>
    if bound = 0 then none else
    let (x, s) := assignLowerThanFixed r.st bound; some (r.push .N x s)
  | .bnd a n => do
    let c ← r.cellOf a
    pure (r.push (.D n) c (assertLowerThanFixed r.st c (2 ^ n)))
  | .asltp2 a k => do pure { r with st := assertLessThanPow2 r.st (← r.cellOf a) k }
  | .altp2 k => let (x, s) := assignLessThanPow2 r.st k; some (r.push .N x s)
  | .bnot a n => do let (x, s) := MidnightZK.C04.bnot r.st (← r.cellOf a) n; pure (r.push .N x s)
  | .lt a b => do
    let (x, y) := (← r.cellD a, ← r.cellD b)
    let (o, s) := lowerThan r.st x.1 x.2 y.1 y.2; pure (r.push .B o s)
  | .leq a b => do
    let (x, y) := (← r.cellD a, ← r.cellD b)
    let (o, s) := MidnightZK.C04.leq r.st x.1 x.2 y.1 y.2; pure (r.push .B o s)
  | .geq a b => do
    let (x, y) := (← r.cellD a, ← r.cellD b)
    let (o, s) := MidnightZK.C04.geq r.st x.1 x.2 y.1 y.2; pure (r.push .B o s)
  | .gt a b => do
    let (x, y) := (← r.cellD a, ← r.cellD b)
    let (o, s) := greaterThan r.st x.1 x.2 y.1 y.2; pure (r.push .B o s)
  | .ltf a c => do
    let x ← r.cellD a
    let (o, s) := lowerThanFixed r.st x.1 x.2 c; pure (r.push .B o s)
  | .leqf a c => do
    let x ← r.cellD a
    let (o, s) := leqFixed r.st x.1 x.2 c fi.p; pure (r.push .B o s)
  | .geqf a c => do
    let x ← r.cellD a
    let (o, s) := geqFixed r.st x.1 x.2 c; pure (r.push .B o s)
  | .gtf a c => do
    let x ← r.cellD a
    let (o, s) := greaterThanFixed r.st x.1 x.2 c fi.p; pure (r.push .B o s)
  | .frombits l => do
    let (x, s) := assignedFromLeBits r.st (← r.cellsTy .B l); pure (r.push .N x s)
  | .frombytes l => do
    let (x, s) := assignedFromLeBytes r.st (← r.cellsTy .Y l); pure (r.push .N x s)
  | .divrem a d bound => do
    if d = 0 then none else
    let ((q, rm), s) := divRem r.st (← r.cellOf a) d bound (fi.p - 1)
    pure ((r.push .N q s).push .N rm s)
  | .yaeq a b => do pure { r with st := byteAssertEqual r.st (← r.cellTy .Y a) (← r.cellTy .Y b) }
  | .yaneq a b => do pure { r with st := byteAssertNotEqual r.st (← r.cellTy .Y a) (← r.cellTy .Y b) }
  | .yaeqf a c => do pure { r with st := byteAssertEqualToFixed r.st (← r.cellTy .Y a) ((c : Nat) : F) }
  | .yaneqf a c => do
    pure { r with st := byteAssertNotEqualToFixed r.st (← r.cellTy .Y a) ((c : Nat) : F) }
  | .yiseq a b => do
    let (x, s) := byteIsEqual r.st (← r.cellTy .Y a) (← r.cellTy .Y b); pure (r.push .B x s)
  | .yisneq a b => do
    let (x, s) := byteIsNotEqual r.st (← r.cellTy .Y a) (← r.cellTy .Y b); pure (r.push .B x s)
  | .yiseqf a c => do
    let (x, s) := byteIsEqualToFixed r.st (← r.cellTy .Y a) ((c : Nat) : F); pure (r.push .B x s)
  | .yisneqf a c => do
    let (x, s) := byteIsNotEqualToFixed r.st (← r.cellTy .Y a) ((c : Nat) : F); pure (r.push .B x s)

/-- Run a program of the core language. -/
def runCore (fi : FieldInfo) (r : RunSt F) : List (COp F) → Option (RunSt F)
  | [] => some r
  | o :: rest => do runCore fi (← o.run fi r) rest

/-- Request tokens of the core language. -/
def parseCore (ofNat : Nat → F) (toks : List String) : Option (COp F) :=
  let cst (c : String) : Option F := (parseNat? c).map ofNat
  match toks with
  | ["in"] => some .assign
  | ["inb"] => some .assignBit
  | ["iny"] => some .assignByte
  | ["fix", c] => do pure (.fix (← cst c))
  | ["fixb", b] => do pure (.fixBit ((← parseNat? b) ≠ 0))
  | ["fixy", b] => do pure (.fixByte (← parseNat? b))
  | ["add", a, b] => do pure (.add (← parseNat? a) (← parseNat? b))
  | ["sub", a, b] => do pure (.sub (← parseNat? a) (← parseNat? b))
  | ["neg", a] => do pure (.neg (← parseNat? a))
  | ["mul", a, b] => do pure (.mul (← parseNat? a) (← parseNat? b) none)
  | ["mulk", a, b, k] => do pure (.mul (← parseNat? a) (← parseNat? b) (some (← cst k)))
  | ["addc", a, c] => do pure (.addc (← parseNat? a) (← cst c))
  | ["mulc", a, c] => do pure (.mulc (← parseNat? a) (← cst c))
  | ["lc", terms, k] => do
    let ts ← parseTerms? terms
    pure (.lc (ts.map (fun (c, v) => (ofNat c, v))) (← cst k))
  | ["sel", c, a, b] => do pure (.sel (← parseNat? c) (← parseNat? a) (← parseNat? b))
  | ["aeq", a, b] => do pure (.aeq (← parseNat? a) (← parseNat? b))
  | ["aneq", a, b] => do pure (.aneq (← parseNat? a) (← parseNat? b))
  | ["aeqf", a, c] => do pure (.aeqf (← parseNat? a) (← cst c))
  | ["aneqf", a, c] => do pure (.aneqf (← parseNat? a) (← cst c))
  | ["az", a] => do pure (.aeqf (← parseNat? a) 0)
  | ["anz", a] => do pure (.aneqf (← parseNat? a) 0)
  | ["iseq", a, b] => do pure (.iseq (← parseNat? a) (← parseNat? b))
  | ["isneq", a, b] => do pure (.isneq (← parseNat? a) (← parseNat? b))
  | ["iseqf", a, c] => do pure (.iseqf (← parseNat? a) (← cst c))
  | ["isneqf", a, c] => do pure (.isneqf (← parseNat? a) (← cst c))
  | ["isz", a] => do pure (.iseqf (← parseNat? a) 0)
  | ["not", a] => do pure (.not (← parseNat? a))
  | ["and", l] => do pure (.and (← parseNatList? l))
  | ["or", l] => do pure (.or (← parseNatList? l))
  | ["xor", l] => do pure (.xor (← parseNatList? l))
  | ["b2n", a] => do pure (.b2n (← parseNat? a))
  | ["n2b", a] => do pure (.n2b (← parseNat? a))
  | ["y2n", a] => do pure (.y2n (← parseNat? a))
  | ["n2y", a] => do pure (.n2y (← parseNat? a))
  | ["alf", a, bound] => do pure (.alf (← parseNat? a) (← parseNat? bound))
  | ["inlf", bound] => do pure (.inlf (← parseNat? bound))
  | ["bnd", a, n] => do pure (.bnd (← parseNat? a) (← parseNat? n))
  | ["asltp2", a, k] => do pure (.asltp2 (← parseNat? a) (← parseNat? k))
  | ["altp2", k] => do pure (.altp2 (← parseNat? k))
  | ["bnot", a, n] => do pure (.bnot (← parseNat? a) (← parseNat? n))
  | ["lt", a, b] => do pure (.lt (← parseNat? a) (← parseNat? b))
  | ["leq", a, b] => do pure (.leq (← parseNat? a) (← parseNat? b))
  | ["geq", a, b] => do pure (.geq (← parseNat? a) (← parseNat? b))
  | ["gt", a, b] => do pure (.gt (← parseNat? a) (← parseNat? b))
  | ["ltf", a, c] => do pure (.ltf (← parseNat? a) (← parseNat? c))
  | ["leqf", a, c] => do pure (.leqf (← parseNat? a) (← parseNat? c))
  | ["geqf", a, c] => do pure (.geqf (← parseNat? a) (← parseNat? c))
  | ["gtf", a, c] => do pure (.gtf (← parseNat? a) (← parseNat? c))
  | ["frombits", l] => do pure (.frombits (← parseNatList? l))
  | ["frombytes", l] => do pure (.frombytes (← parseNatList? l))
  -- decomposition.rs: `assigned_from_be_bits` / `assigned_from_be_bytes` reverse, then little-endian
  | ["frombebits", l] => do pure (.frombits (← parseNatList? l).reverse)
  | ["frombebytes", l] => do pure (.frombytes (← parseNatList? l).reverse)
  | ["divrem", a, d, bound] => do pure (.divrem (← parseNat? a) (← parseNat? d) (← optNat? bound))
  | ["yaeq", a, b] => do pure (.yaeq (← parseNat? a) (← parseNat? b))
  | ["yaneq", a, b] => do pure (.yaneq (← parseNat? a) (← parseNat? b))
  | ["yaeqf", a, c] => do pure (.yaeqf (← parseNat? a) (← parseNat? c))
  | ["yaneqf", a, c] => do pure (.yaneqf (← parseNat? a) (← parseNat? c))
  | ["yiseq", a, b] => do pure (.yiseq (← parseNat? a) (← parseNat? b))
  | ["yisneq", a, b] => do pure (.yisneq (← parseNat? a) (← parseNat? b))
  | ["yiseqf", a, c] => do pure (.yiseqf (← parseNat? a) (← parseNat? c))
  | ["yisneqf", a, c] => do pure (.yisneqf (← parseNat? a) (← parseNat? c))
  | _ => none

/-- Does the request name an operation of the core language? -/
def isCoreName (name : String) : Bool :=
  ["in", "inb", "iny", "fix", "fixb", "fixy", "add", "sub", "neg", "mul", "mulk", "addc", "mulc",
   "lc", "sel", "aeq", "aneq", "aeqf", "aneqf", "az", "anz", "iseq", "isneq", "iseqf", "isneqf",
   "isz", "not", "and", "or", "xor", "b2n", "n2b", "y2n", "n2y", "alf", "inlf", "bnd", "asltp2",
   "altp2", "bnot", "lt", "leq", "geq", "gt", "ltf", "leqf", "geqf", "gtf", "frombits",
   "frombytes", "frombebits", "frombebytes", "divrem", "yaeq", "yaneq", "yaeqf", "yaneqf", "yiseq", "yisneq", "yiseqf",
   "yisneqf"].contains name

/-- Execute one operation: the core language through `COp.run`, the remaining operations
(decompositions, bulk assignments, bit-typed variants, `pow`, `inv`, …) directly. `none` =
malformed request. -/
def execOp (fi : FieldInfo) (ofNat : Nat → F) (r : RunSt F) (toks : List String) : Option (RunSt F) := do
  if isCoreName (toks.headD "") then (← parseCore ofNat toks).run fi r else
  let cell (i : String) : Option Cell := do
    let i ← parseNat? i
    let v ← r.vars[i]?
    pure v.cell
  let cells (l : String) : Option (List Cell) := do
    let l ← parseNatList? l
    l.mapM (fun i => (r.vars[i]?).map (·.cell))
  let cst (c : String) : Option F := (parseNat? c).map ofNat
  let s := r.st
  match toks with
  | ["inmany", n] => do
    let n ← parseNat? n
    let (cs, s) := assignMany s n; pure (r.pushMany .N cs s)
  | ["inbmany", n] => do
    let n ← parseNat? n
    let (cs, s) := assignManySmall s n 1; pure (r.pushMany .B cs s)
  | ["inymany", n] => do
    let n ← parseNat? n
    let (cs, s) := assignManySmall s n 8; pure (r.pushMany .Y cs s)
  | ["sq", a] => do let (x, s) := square s (← cell a); pure (r.push .N x s)
  | ["pow", a, n] => do let (x, s) := pow s (← cell a) (← parseNat? n); pure (r.push .N x s)
  | ["aam", a, x, b, y, c, z, k, m] => do
    let (o, s) := addAndMul s (← cst a) (← cell x) (← cst b) (← cell y) (← cst c) (← cell z)
      (← cst k) (← cst m)
    pure (r.push .N o s)
  | ["inv", a] => do let (x, s) := inv s (← cell a); pure (r.push .N x s)
  | ["div", a, b] => do let (x, s) := div s (← cell a) (← cell b); pure (r.push .N x s)
  | ["inv0", a] => do let (x, s) := inv0 s (← cell a); pure (r.push .N x s)
  | ["addcs", xs, cs] => do
    let xs ← cells xs
    let cs ← parseNatList? cs
    if xs.length ≠ cs.length then none else
    let (os, s) := addConstants s xs (cs.map ofNat); pure (r.pushMany .N os s)
  | ["biseq", a, b] => do let (x, s) := bitIsEqual s (← cell a) (← cell b); pure (r.push .B x s)
  | ["bisneq", a, b] => do let (x, s) := bitIsNotEqual s (← cell a) (← cell b); pure (r.push .B x s)
  | ["biseqf", a, c] => do
    let (x, s) := bitIsEqualToFixed s (← cell a) ((← parseNat? c) ≠ 0); pure (r.push .B x s)
  | ["bisneqf", a, c] => do
    let (x, s) := bitIsNotEqualToFixed s (← cell a) ((← parseNat? c) ≠ 0); pure (r.push .B x s)
  | ["baeq", a, b] => do pure { r with st := assertEqual s (← cell a) (← cell b) }
  | ["baneq", a, b] => do pure { r with st := bitAssertNotEqual s (← cell a) (← cell b) }
  | ["baeqf", a, c] => do
    pure { r with st := bitAssertEqualToFixed s (← cell a) ((← parseNat? c) ≠ 0) }
  | ["baneqf", a, c] => do
    pure { r with st := bitAssertNotEqualToFixed s (← cell a) ((← parseNat? c) ≠ 0) }
  | ["cswap", c, a, b] => do
    let ((x, y), s) := condSwap s (← cell c) (← cell a) (← cell b)
    pure ((r.push .N x s).push .N y s)
  | ["caeq", c, a, b] => do
    let y ← cell b
    let (x, s) := select s (← cell c) (← cell a) y
    pure { r with st := gAssertEqual s x y }
  | ["bsel", c, a, b] => do
    let (x, s) := select s (← cell c) (← cell a) (← cell b); pure (r.push .B x s)
  | ["bcswap", c, a, b] => do
    let ((x, y), s) := condSwap s (← cell c) (← cell a) (← cell b)
    pure ((r.push .B x s).push .B y s)
  | ["geqbits", l, bound] => do
    let (x, s) := leBitsGeqThan s (← cells l) (← parseNat? bound); pure (r.push .B x s)
  | ["ltbits", l, bound] => do
    let (x, s) := leBitsLowerThan s (← cells l) (← parseNat? bound); pure (r.push .B x s)
  | ["iscanon", l] => do
    let l ← cells l
    let (x, s) := if l.length > fi.numBits then assignFixed s (0 : F) else leBitsLowerThan s l fi.p
    pure (r.push .B x s)
  | ["rc", l, n] => do
    pure { r with st := assertValuesLowerThan2PowN s (← cells l) (← parseNat? n) }
  | ["dfl", a, bl, ls] => do
    let ls ← parseNat? ls
    if ls = 0 then none else
    let (xs, s) := decomposeFixedLimbSize s (← cell a) (← parseNat? bl) ls
    pure (r.pushMany .N xs s)
  | ["ams", n, k] => do
    let (xs, s) := assignManySmall s (← parseNat? n) (← parseNat? k); pure (r.pushMany .N xs s)
  | ["bits", a, nb, canon] => do
    let (xs, s) := assignedToLeBits s (← cell a) (← optNat? nb) ((← parseNat? canon) ≠ 0)
      fi.numBits fi.halfP
    pure (r.pushMany .B xs s)
  | ["bytes", a, nb] => do
    let (xs, s) := assignedToLeBytes s (← cell a) (← optNat? nb) fi.numBits fi.halfP
    pure (r.pushMany .Y xs s)
  | ["chunks", a, per, nb] => do
    let per ← parseNat? per
    if per = 0 then none else
    let (xs, s) := assignedToLeChunks s (← cell a) per (← optNat? nb) fi.numBits
    pure (r.pushMany .N xs s)
  -- decomposition.rs: `assigned_to_be_bits` / `assigned_to_be_bytes` = little-endian, reversed
  | ["bebits", a, nb, canon] => do
    let (xs, s) := assignedToLeBits s (← cell a) (← optNat? nb) ((← parseNat? canon) ≠ 0)
      fi.numBits fi.halfP
    pure (r.pushMany .B xs.reverse s)
  | ["bebytes", a, nb] => do
    let (xs, s) := assignedToLeBytes s (← cell a) (← optNat? nb) fi.numBits fi.halfP
    pure (r.pushMany .Y xs.reverse s)
  | ["sgn0", a] => do let (x, s) := sgn0 s (← cell a) fi.halfP; pure (r.push .B x s)
  | ["band", a, b, n] => do
    let (x, s) := bitwise MidnightZK.C04.and s (← cell a) (← cell b) (← parseNat? n) fi.numBits fi.halfP
    pure (r.push .N x s)
  | ["bor", a, b, n] => do
    let (x, s) := bitwise MidnightZK.C04.or s (← cell a) (← cell b) (← parseNat? n) fi.numBits fi.halfP
    pure (r.push .N x s)
  | ["bxor", a, b, n] => do
    let (x, s) := bitwise MidnightZK.C04.xor s (← cell a) (← cell b) (← parseNat? n) fi.numBits fi.halfP
    pure (r.push .N x s)
  | ["ysel", c, a, b] => do
    let (x, s) := select s (← cell c) (← cell a) (← cell b); pure (r.push .Y x s)
  | ["rem", a, d, bound] => do
    let d ← parseNat? d
    if d = 0 then none else
    let ((_, rm), s) := divRem s (← cell a) d (← optNat? bound) (fi.p - 1)
    pure (r.push .N rm s)
  -- ---- VectorGadget (vec/vector_gadget.rs); a vector is named by its first buffer variable
  | ["vassign", m, a, n] => do
    let (m, a, n) := (← parseNat? m, ← parseNat? a, ← parseNat? n)
    if a = 0 ∨ m < a ∨ m < n then none else
    let (v, s) := vecAssign s m; pure (r.pushVec v s)
  -- `assign_with_filler`: the filler is a witness value only (same cells, same constraints)
  | ["vassignf", m, a, n, _filler] => do
    let (m, a, n) := (← parseNat? m, ← parseNat? a, ← parseNat? n)
    if a = 0 ∨ m < a ∨ m < n then none else
    let (v, s) := vecAssign s m; pure (r.pushVec v s)
  | ["vresize", i, m, a, l] => do
    let (i, m, a, l) := (← parseNat? i, ← parseNat? m, ← parseNat? a, ← parseNat? l)
    if a = 0 ∨ l ≤ m ∨ l % a ≠ 0 then none else
    let (v, s) := vecResize s (← r.vecAt i m) m l; pure (r.pushVec v s)
  | ["vlimits", i, m, a] => do
    let (i, m, a) := (← parseNat? i, ← parseNat? m, ← parseNat? a)
    if a = 0 ∨ m < a then none else
    let ((st, en), s) := vecGetLimits s (← r.vecAt i m) m a (fi.p - 1)
    pure ((r.push .N st s).push .N en s)
  | ["vpad", i, m, a] => do
    let (i, m, a) := (← parseNat? i, ← parseNat? m, ← parseNat? a)
    if a = 0 ∨ m < a then none else
    let (fl, s) := vecPaddingFlag s (← r.vecAt i m) m a (fi.p - 1); pure (r.pushMany .B fl s)
  | ["vtrim", i, m, a, n] => do
    let (i, m, a, n) := (← parseNat? i, ← parseNat? m, ← parseNat? a, ← parseNat? n)
    if a = 0 ∨ m < a ∨ m < n then none else
    let (v, s) := vecTrimBeginning s (← r.vecAt i m) m a n fi.p; pure (r.pushVec v s)
  | ["viseq", i, j, m, a] => do
    let (i, j, m, a) := (← parseNat? i, ← parseNat? j, ← parseNat? m, ← parseNat? a)
    if a = 0 ∨ m < a then none else
    let (b, s) := vecIsEqual s (← r.vecAt i m) (← r.vecAt j m) m a (fi.p - 1); pure (r.push .B b s)
  | ["visneq", i, j, m, a] => do
    let (i, j, m, a) := (← parseNat? i, ← parseNat? j, ← parseNat? m, ← parseNat? a)
    if a = 0 ∨ m < a then none else
    let (b, s) := vecIsNotEqual s (← r.vecAt i m) (← r.vecAt j m) m a (fi.p - 1); pure (r.push .B b s)
  | ["vaeq", i, j, m, a] => do
    let (i, j, m, a) := (← parseNat? i, ← parseNat? j, ← parseNat? m, ← parseNat? a)
    if a = 0 ∨ m < a then none else
    pure { r with st := vecAssertEqual s (← r.vecAt i m) (← r.vecAt j m) m a (fi.p - 1) }
  | ["vaneq", i, j, m, a] => do
    let (i, j, m, a) := (← parseNat? i, ← parseNat? j, ← parseNat? m, ← parseNat? a)
    if a = 0 ∨ m < a then none else
    pure { r with st := vecAssertNotEqual s (← r.vecAt i m) (← r.vecAt j m) m a (fi.p - 1) }
  | ["viseqf", i, m, a, cs] => do
    let (i, m, a, cs) := (← parseNat? i, ← parseNat? m, ← parseNat? a, ← parseNatList? cs)
    if a = 0 ∨ m < a ∨ m < cs.length then none else
    let (b, s) := vecIsEqualToFixed s (← r.vecAt i m) m a (cs.map ofNat); pure (r.push .B b s)
  | ["visneqf", i, m, a, cs] => do
    let (i, m, a, cs) := (← parseNat? i, ← parseNat? m, ← parseNat? a, ← parseNatList? cs)
    if a = 0 ∨ m < a ∨ m < cs.length then none else
    let (b, s) := vecIsNotEqualToFixed s (← r.vecAt i m) m a (cs.map ofNat); pure (r.push .B b s)
  | ["vaeqf", i, m, a, cs] => do
    let (i, m, a, cs) := (← parseNat? i, ← parseNat? m, ← parseNat? a, ← parseNatList? cs)
    if a = 0 ∨ m < a ∨ m < cs.length then none else
    pure { r with st := vecAssertEqualToFixed s (← r.vecAt i m) m a (cs.map ofNat) }
  | ["vaneqf", i, m, a, cs] => do
    let (i, m, a, cs) := (← parseNat? i, ← parseNat? m, ← parseNat? a, ← parseNatList? cs)
    if a = 0 ∨ m < a ∨ m < cs.length then none else
    pure { r with st := vecAssertNotEqualToFixed s (← r.vecAt i m) m a (cs.map ofNat) }
  | _ => none

/-- Split a token list at `;`. -/
def splitOps (toks : List String) : List (List String) :=
  let (cur, acc) := toks.foldl (fun (st : List String × List (List String)) t =>
    if t = ";" then ([], st.1.reverse :: st.2) else (t :: st.1, st.2)) ([], [])
  (cur.reverse :: acc).reverse

def runOps (fi : FieldInfo) (ofNat : Nat → F) (r : RunSt F) : List (List String) → Option (RunSt F)
  | [] => some r
  | o :: rest => do
    let r ← execOp fi ofNat r o
    runOps fi ofNat r rest

/-- `MapGadget` operations (map/map_gadget.rs) with the harness's hash chip; the gadget's state
(the cell of the current `succinct_repr`) is threaded through the program. `minit <k:v,...>`
pushes the root cell, `mget <key var>` the value cell, `minsert <key var> <value var>` the new root
cell. -/
def execMapOp (fi : FieldInfo) (r : RunSt F) (root : Option Cell) (toks : List String) :
    Option (RunSt F × Option Cell) := do
  match toks with
  | ["minit", _pairs] =>
    let (c, s) := mapInit r.st
    pure (r.push .N c s, some c)
  | ["mget", k] =>
    let key ← r.cellOf (← parseNat? k)
    let (v, s) := mapGet toyHashE r.st key (← root) fi.numBits fi.halfP
    pure (r.push .N v s, root)
  | ["minsert", k, v] =>
    let key ← r.cellOf (← parseNat? k)
    let value ← r.cellOf (← parseNat? v)
    let (nr, s) := mapInsert toyHashE r.st key value (← root) fi.numBits fi.halfP
    pure (r.push .N nr s, some nr)
  | _ => none

def isMapName (name : String) : Bool := ["minit", "mget", "minsert"].contains name

/-- Run a program that may contain map operations. -/
def runOpsM (fi : FieldInfo) (ofNat : Nat → F) (r : RunSt F) (root : Option Cell) :
    List (List String) → Option (RunSt F)
  | [] => some r
  | o :: rest =>
    if isMapName (o.headD "") then do
      let (r, root) ← execMapOp fi r root o
      runOpsM fi ofNat r root rest
    else do
      let r ← execOp fi ofNat r o
      runOpsM fi ofNat r root rest

end run

/-! ## Mathematical meaning of every operation (values, over `Nat` modulo `p`) -/

def natBits (n : Nat) : Nat → List Nat
  | 0 => []
  | k + 1 => (n % 2) :: natBits (n / 2) k

def fromLimbs (base : Nat) : List Nat → Nat
  | [] => 0
  | a :: t => a + base * fromLimbs base t

/-- Little-endian limbs of `x` with the given sizes (cpu_utils.rs:
`decompose_in_variable_limbsizes`). -/
def limbsOf : Nat → List Nat → List Nat
  | _, [] => []
  | x, sz :: rest => (x % 2 ^ sz) :: limbsOf (x / 2 ^ sz) rest

def b2n (b : Bool) : Nat := if b then 1 else 0

/-- Buffer values and length of the vector whose first variable is `i`. -/
def vecVals (vals : Array Nat) (i M : Nat) : Option (List Nat × Nat) := do
  let buf ← (List.range M).mapM (fun j => vals[i + j]?)
  let len ← vals[i + M]?
  pure (buf, len)

/-- vec/vector.rs: `InnerValue::value` — the payload `buffer[get_lims(len)]`. -/
def vecPayload (M A : Nat) (v : List Nat × Nat) : List Nat :=
  let lims := getLims M A v.2
  (v.1.drop lims.1).take (lims.2 - lims.1)

/-- The specification: values of the variables produced by one operation, from the values of
the existing variables and the witness inputs. Returns the new values and the remaining inputs. -/
def evalOp (fi : FieldInfo) (vals : Array Nat) (inputs : List Nat) (toks : List String) :
    Option (List Nat × List Nat) := do
  let p := fi.p
  let v (i : String) : Option Nat := do vals[(← parseNat? i)]?
  let vs (l : String) : Option (List Nat) := do (← parseNatList? l).mapM (fun i => vals[i]?)
  let c (s : String) : Option Nat := (parseNat? s).map (· % p)
  let take (n : Nat) : Option (List Nat × List Nat) :=
    if inputs.length < n then none else some (inputs.take n, inputs.drop n)
  let out (l : List Nat) : Option (List Nat × List Nat) := some (l, inputs)
  match toks with
  | ["in"] | ["inb"] | ["iny"] | ["altp2", _] | ["inlf", _] => take 1
  | ["inmany", n] | ["inbmany", n] | ["inymany", n] | ["ams", n, _] => do take (← parseNat? n)
  | ["fix", k] => do out [← c k]
  | ["fixb", b] => do out [b2n ((← parseNat? b) ≠ 0)]
  | ["fixy", b] => do out [← parseNat? b]
  | ["add", a, b] => do out [addMod (← v a) (← v b) p]
  | ["sub", a, b] => do out [subMod (← v a) (← v b) p]
  | ["neg", a] => do out [negMod (← v a) p]
  | ["mul", a, b] => do out [mulMod (← v a) (← v b) p]
  | ["mulk", a, b, k] => do out [mulMod (← c k) (mulMod (← v a) (← v b) p) p]
  | ["addc", a, k] => do out [addMod (← v a) (← c k) p]
  | ["mulc", a, k] => do out [mulMod (← v a) (← c k) p]
  | ["sq", a] => do let x ← v a; out [mulMod x x p]
  | ["pow", a, n] => do out [powMod (← v a) (← parseNat? n) p]
  | ["lc", terms, k] => do
    let ts ← parseTerms? terms
    let xs ← ts.mapM (fun (co, i) => (vals[i]?).map (fun x => co % p * x))
    out [(xs.foldl (· + ·) (← c k)) % p]
  | ["aam", a, x, b, y, cc, z, k, m] => do
    let (x, y, z) := (← v x, ← v y, ← v z)
    out [((← c a) * x + (← c b) * y + (← c cc) * z + (← c k) + (← c m) * x * y) % p]
  | ["inv", a] => do out [invMod (← v a) p]
  | ["div", a, b] => do out [mulMod (← v a) (invMod (← v b) p) p]
  | ["inv0", a] => do out [invMod (← v a) p]
  | ["addcs", xs, cs] => do
    let xs ← vs xs
    let cs ← parseNatList? cs
    out ((xs.zip cs).map (fun (x, k) => (x + k) % p))
  | ["aeq", _, _] | ["aneq", _, _] | ["aeqf", _, _] | ["aneqf", _, _] | ["az", _] | ["anz", _]
  | ["baeq", _, _] | ["baneq", _, _] | ["baeqf", _, _] | ["baneqf", _, _] | ["caeq", _, _, _]
  | ["rc", _, _] | ["asltp2", _, _] | ["alf", _, _] => out []
  | ["iseq", a, b] | ["biseq", a, b] => do out [b2n ((← v a) = (← v b))]
  | ["isneq", a, b] | ["bisneq", a, b] => do out [b2n ((← v a) ≠ (← v b))]
  | ["iseqf", a, k] => do out [b2n ((← v a) = (← c k))]
  | ["isneqf", a, k] => do out [b2n ((← v a) ≠ (← c k))]
  | ["biseqf", a, k] => do out [b2n ((← v a) = b2n ((← parseNat? k) ≠ 0))]
  | ["bisneqf", a, k] => do out [b2n ((← v a) ≠ b2n ((← parseNat? k) ≠ 0))]
  | ["isz", a] => do out [b2n ((← v a) = 0)]
  | ["and", l] => do out [b2n ((← vs l).all (· = 1))]
  | ["or", l] => do out [b2n ((← vs l).any (· = 1))]
  | ["xor", l] => do out [((← vs l).foldl (· + ·) 0) % 2]
  | ["not", a] => do out [1 - (← v a)]
  | ["sel", cd, a, b] | ["bsel", cd, a, b] => do
    let (x, y) := (← v a, ← v b)
    out [if (← v cd) = 1 then x else y]
  | ["cswap", cd, a, b] | ["bcswap", cd, a, b] => do
    let (x, y) := (← v a, ← v b)
    out (if (← v cd) = 1 then [y, x] else [x, y])
  | ["geqbits", l, bound] => do out [b2n (fromLimbs 2 (← vs l) ≥ (← parseNat? bound))]
  | ["ltbits", l, bound] => do out [b2n (fromLimbs 2 (← vs l) < (← parseNat? bound))]
  | ["iscanon", l] => do out [b2n (fromLimbs 2 (← vs l) < p)]
  | ["b2n", a] | ["n2b", a] | ["n2y", a] | ["y2n", a] | ["bnd", a, _] => do out [← v a]
  | ["dfl", a, bl, ls] => do
    let (bl, ls) := (← parseNat? bl, ← parseNat? ls)
    if ls = 0 then none else
    let sizes := List.replicate (bl / ls) ls ++ (if bl % ls ≠ 0 then [bl % ls] else [])
    out (limbsOf (← v a) sizes)
  | ["lt", a, b] => do out [b2n ((← v a) < (← v b))]
  | ["leq", a, b] => do out [b2n ((← v a) ≤ (← v b))]
  | ["geq", a, b] => do out [b2n ((← v a) ≥ (← v b))]
  | ["gt", a, b] => do out [b2n ((← v a) > (← v b))]
  | ["ltf", a, k] => do out [b2n ((← v a) < (← c k))]
  | ["leqf", a, k] => do out [b2n ((← v a) ≤ (← c k))]
  | ["geqf", a, k] => do out [b2n ((← v a) ≥ (← c k))]
  | ["gtf", a, k] => do out [b2n ((← v a) > (← c k))]
  | ["bits", a, nb, _] => do out (natBits (← v a) ((← optNat? nb).getD fi.numBits))
  | ["bytes", a, nb] => do
    let nb := (← optNat? nb).getD ((fi.numBits + 7) / 8)
    out (limbsOf (← v a) (List.replicate nb 8))
  | ["chunks", a, per, nb] => do
    let per ← parseNat? per
    if per = 0 then none else
    let n := (← optNat? nb).getD ((fi.numBits + per - 1) / per)
    out (limbsOf (← v a) (List.replicate n per))
  | ["bebits", a, nb, _] => do out (natBits (← v a) ((← optNat? nb).getD fi.numBits)).reverse
  | ["bebytes", a, nb] => do
    let nb := (← optNat? nb).getD ((fi.numBits + 7) / 8)
    out (limbsOf (← v a) (List.replicate nb 8)).reverse
  | ["frombebits", l] => do out [fromLimbs 2 (← vs l).reverse % p]
  | ["frombebytes", l] => do out [fromLimbs 256 (← vs l).reverse % p]
  | ["sgn0", a] => do out [(← v a) % 2]
  | ["frombits", l] => do out [fromLimbs 2 (← vs l) % p]
  | ["frombytes", l] => do out [fromLimbs 256 (← vs l) % p]
  | ["divrem", a, d, _] => do
    let d ← parseNat? d
    if d = 0 then none else
    let x ← v a
    out [x / d, x % d]
  | ["rem", a, d, _] => do
    let d ← parseNat? d
    if d = 0 then none else
    out [(← v a) % d]
  | ["bnot", a, n] => do out [2 ^ (← parseNat? n) - 1 - (← v a)]
  | ["band", a, b, _] => do out [(← v a) &&& (← v b)]
  | ["bor", a, b, _] => do out [(← v a) ||| (← v b)]
  | ["bxor", a, b, _] => do out [(← v a) ^^^ (← v b)]
  | ["yaeq", _, _] | ["yaneq", _, _] | ["yaeqf", _, _] | ["yaneqf", _, _] => out []
  | ["yiseq", a, b] => do out [b2n ((← v a) = (← v b))]
  | ["yisneq", a, b] => do out [b2n ((← v a) ≠ (← v b))]
  | ["yiseqf", a, k] => do out [b2n ((← v a) = (← parseNat? k))]
  | ["yisneqf", a, k] => do out [b2n ((← v a) ≠ (← parseNat? k))]
  | ["ysel", cd, a, b] => do
    let (x, y) := (← v a, ← v b)
    out [if (← v cd) = 1 then x else y]
  -- ---- vectors: the DEFINITION of every operation on the payload `buffer[get_lims(len)]`
  | ["vassign", m, a, n] => do
    let (m, a, n) := (← parseNat? m, ← parseNat? a, ← parseNat? n)
    if inputs.length < n then none else
    let lims := getLims m a n
    some (List.replicate lims.1 0 ++ inputs.take n ++ List.replicate (m - lims.2) 0 ++ [n], inputs.drop n)
  | ["vassignf", m, a, n, f] => do
    let (m, a, n, f) := (← parseNat? m, ← parseNat? a, ← parseNat? n, ← c f)
    if inputs.length < n then none else
    let lims := getLims m a n
    some (List.replicate lims.1 f ++ inputs.take n ++ List.replicate (m - lims.2) f ++ [n], inputs.drop n)
  | ["vresize", i, m, _, l] => do
    let (i, m, l) := (← parseNat? i, ← parseNat? m, ← parseNat? l)
    let v ← vecVals vals i m
    out (List.replicate (l - m) 0 ++ v.1 ++ [v.2])
  | ["vlimits", i, m, a] => do
    let (i, m, a) := (← parseNat? i, ← parseNat? m, ← parseNat? a)
    let v ← vecVals vals i m
    let lims := getLims m a v.2
    out [lims.1, lims.2]
  | ["vpad", i, m, a] => do
    let (i, m, a) := (← parseNat? i, ← parseNat? m, ← parseNat? a)
    let v ← vecVals vals i m
    let lims := getLims m a v.2
    out ((List.range m).map (fun j => b2n (¬ (lims.1 ≤ j ∧ j < lims.2))))
  | ["vtrim", i, m, a, n] => do
    let (i, m, a, n) := (← parseNat? i, ← parseNat? m, ← parseNat? a, ← parseNat? n)
    let v ← vecVals vals i m
    if v.2 < n then none else
    -- values as the honest synthesis computes them (fillers included: the old buffer shifted by
    -- `n mod A`, re-aligned by `A` when the trailing padding would reach `A`); that the PAYLOAD of
    -- the result is the old payload without its first `n` elements is checked by the harness on
    -- `InnerValue::value` and proved in `trim_index_correct`
    let (r, t) := (v.2 % a, n % a)
    let adjust : Bool := r ≠ 0 ∧ r ≤ t
    let buffer := List.replicate a 0 ++ v.1.drop t ++ List.replicate t 0
    out ((List.range m).map (fun j => if adjust then buffer.getD j 0 else buffer.getD (a + j) 0)
      ++ [v.2 - n])
  | ["viseq", i, j, m, a] => do
    let (i, j, m, a) := (← parseNat? i, ← parseNat? j, ← parseNat? m, ← parseNat? a)
    out [b2n (vecPayload m a (← vecVals vals i m) = vecPayload m a (← vecVals vals j m))]
  | ["visneq", i, j, m, a] => do
    let (i, j, m, a) := (← parseNat? i, ← parseNat? j, ← parseNat? m, ← parseNat? a)
    out [b2n (vecPayload m a (← vecVals vals i m) ≠ vecPayload m a (← vecVals vals j m))]
  | ["viseqf", i, m, a, cs] => do
    let (i, m, a, cs) := (← parseNat? i, ← parseNat? m, ← parseNat? a, ← parseNatList? cs)
    out [b2n (vecPayload m a (← vecVals vals i m) = cs.map (· % p))]
  | ["visneqf", i, m, a, cs] => do
    let (i, m, a, cs) := (← parseNat? i, ← parseNat? m, ← parseNat? a, ← parseNatList? cs)
    out [b2n (vecPayload m a (← vecVals vals i m) ≠ cs.map (· % p))]
  | ["vaeq", _, _, _, _] | ["vaneq", _, _, _, _] | ["vaeqf", _, _, _, _] | ["vaneqf", _, _, _, _] => out []
  | _ => none

/-- The map operations against the CPU reference of the map (`mapRoot`, `mapLookup`): the state is
the list of entries inserted so far. -/
def evalMapOp (fi : FieldInfo) (vals : Array Nat) (entries : List (Nat × Nat)) (toks : List String) :
    Option (List Nat × List (Nat × Nat)) := do
  match toks with
  | ["minit", pairs] =>
    let es := (← parseTerms? pairs).map (fun e => (e.1 % fi.p, e.2 % fi.p))
    pure ([mapRoot fi.p es], es)
  | ["mget", k] =>
    let key ← vals[(← parseNat? k)]?
    pure ([mapLookup entries key], entries)
  | ["minsert", k, v] =>
    let key ← vals[(← parseNat? k)]?
    let value ← vals[(← parseNat? v)]?
    let es := entries ++ [(key, value)]
    pure ([mapRoot fi.p es], es)
  | _ => none

def evalOps (fi : FieldInfo) (vals : Array Nat) (inputs : List Nat) :
    List (List String) → Option (Array Nat)
  | [] => if inputs.isEmpty then some vals else none
  | o :: rest => do
    let (news, inputs) ← evalOp fi vals inputs o
    evalOps fi (news.foldl (fun a x => a.push x) vals) inputs rest

/-- `evalOps` for programs that may contain map operations. -/
def evalOpsM (fi : FieldInfo) (vals : Array Nat) (inputs : List Nat) (entries : List (Nat × Nat)) :
    List (List String) → Option (Array Nat)
  | [] => if inputs.isEmpty then some vals else none
  | o :: rest =>
    if isMapName (o.headD "") then do
      let (news, entries) ← evalMapOp fi vals entries o
      evalOpsM fi (news.foldl (fun a x => a.push x) vals) inputs entries rest
    else do
      let (news, inputs) ← evalOp fi vals inputs o
      evalOpsM fi (news.foldl (fun a x => a.push x) vals) inputs entries rest

end MidnightZK.C04
