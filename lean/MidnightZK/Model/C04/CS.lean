import MidnightZK.Model.Common
/-!
# C04 — constraint-system model of the native chip + pow2range chip

Import-free (core only). Everything is polymorphic in the field type `F`
(`[Lean.Grind.CommRing F]`): the driver runs it with `F = Fin p` (p = the native modulus dumped
from the running code), the theorems quantify over every field.

* `Expr` / `Expr.eval`: gate polynomials as dumped from the REAL `configure` functions
  (`Gen/C04Gates.lean` is rendered into this type by `translators/c04_gates.py`).
* `Row`, `St`: what a synthesis leaves behind — regions (lists of rows with their selectors and
  fixed cells), copy constraints, the constant cache of `NativeChip`, the bound cache of
  `NativeGadget`, the tags queried from the pow2range table.
* `Holds`: the assignment `asg : Cell → F` satisfies every gate on every row of every region,
  every copy constraint, every lookup.
* `render`: canonical text of the structure, compared line by line with the recorded real
  synthesis.
-/
namespace MidnightZK.C04
open Lean.Grind
attribute [local instance] Semiring.natCast

/-! ## Gate expressions -/

/-- `midnight_proofs::plonk::Expression` restricted to what the native chips use. -/
inductive Expr (F : Type) where
  | const (c : F)
  | sel (i : Nat)
  | fixed (col : Nat) (rot : Int)
  | adv (col : Nat) (rot : Int)
  | neg (a : Expr F)
  | sum (a b : Expr F)
  | prod (a b : Expr F)
  | scaled (a : Expr F) (c : F)

/-- Values a gate sees on one row. -/
structure Env (F : Type) where
  sel : Nat → F
  fixed : Nat → Int → F
  adv : Nat → Int → F

def Expr.eval {F : Type} [CommRing F] (env : Env F) : Expr F → F
  | .const c => c
  | .sel i => env.sel i
  | .fixed c r => env.fixed c r
  | .adv c r => env.adv c r
  | .neg a => - a.eval env
  | .sum a b => a.eval env + b.eval env
  | .prod a b => a.eval env * b.eval env
  | .scaled a c => a.eval env * c

/-- A lookup argument: input expressions and the fixed (table) columns they are looked up in. -/
structure Lookup (F : Type) where
  inputs : List (Expr F)
  table : List (Expr F)

/-! ## Cells, rows, state -/

inductive Col where
  | adv (i : Nat)
  | fix (i : Nat)
deriving DecidableEq, Repr

/-- A cell, region-relative: region index (order of `assign_region` calls), offset, column. -/
structure Cell where
  region : Nat
  off : Nat
  col : Col
deriving DecidableEq, Repr

/-- Column layout fixed by `NativeChip::configure` / `Pow2RangeChip::configure` as called by
`ZkStdLib::configure` and by the harness: fixed columns `[q_next, mul_ab, mul_ac, constant,
coeff0..coeff4]`, then `fixed_values_col` (9), then the pow2range `tag_col` (10); selectors
`q_arith` (0), `q_12_minus_34` (1), `q_par_add` (2), `q_pow2range` (3). -/
def fixedValuesCol : Nat := 9
def tagCol : Nat := 10

/-- The nine fixed cells written by `NativeChip::custom` (with `q_arith` enabled). -/
structure ArithRow (F : Type) where
  c0 : F
  c1 : F
  c2 : F
  c3 : F
  c4 : F
  qNext : F
  mulAB : F
  mulAC : F
  const : F

/-- One row of a region: which selectors are on, which fixed cells were written, which advice
cells were assigned. -/
structure Row (F : Type) where
  /-- `q_arith` enabled and the nine fixed cells of `custom`. -/
  arith : Option (ArithRow F) := none
  /-- `q_12_minus_34` enabled. -/
  q1234 : Bool := false
  /-- `q_par_add` enabled and the three constants written in `coeff_cols[0..3]`. -/
  parAdd : Option (F × F × F) := none
  /-- `q_pow2range` enabled and the tag written in `tag_col`. -/
  tag : Option Nat := none
  /-- advice columns assigned in this row -/
  adv : List Nat := []
  /-- value written in `fixed_values_col` -/
  fixedVal : Option F := none

structure St (F : Type) where
  nrCols : Nat
  maxBitLen : Nat
  /-- regions, most recent first (region index of an entry = length of its tail) -/
  regions : List (List (Row F)) := []
  /-- copy constraints, most recent first -/
  copies : List (Cell × Cell) := []
  /-- `NativeChip::cached_fixed` -/
  cache : List (F × Cell) := []
  /-- `NativeGadget::constrained_cells` (strict upper bounds) -/
  bounds : List (Cell × Nat) := []
  /-- `Pow2RangeChip::queried_tags` -/
  tags : List Nat := []

variable {F : Type}

def St.init (nrCols maxBitLen : Nat) : St F := { nrCols, maxBitLen }

/-- `layouter.assign_region`: a new region with the given rows; returns its index. -/
def St.addRegion (s : St F) (rows : List (Row F)) : St F × Nat :=
  ({ s with regions := rows :: s.regions }, s.regions.length)

/-- `region.constrain_equal`. -/
def St.copy (s : St F) (a b : Cell) : St F := { s with copies := (a, b) :: s.copies }

def St.copies' (s : St F) (l : List (Cell × Cell)) : St F :=
  { s with copies := l.reverse ++ s.copies }

/-! ## Semantics -/

section sem
variable [CommRing F]

/-- Value of fixed column `j` on a row, as the prover's fixed table holds it (unwritten = 0). -/
def Row.fixedAt (row : Row F) (j : Nat) : F :=
  match row.arith, row.parAdd with
  | some r, _ =>
    if j = 0 then r.qNext else if j = 1 then r.mulAB else if j = 2 then r.mulAC
    else if j = 3 then r.const else if j = 4 then r.c0 else if j = 5 then r.c1
    else if j = 6 then r.c2 else if j = 7 then r.c3 else if j = 8 then r.c4
    else if j = fixedValuesCol then row.fixedVal.getD 0
    else if j = tagCol then ((row.tag.getD 0 : Nat) : F) else 0
  | none, some (a, b, c) =>
    if j = 4 then a else if j = 5 then b else if j = 6 then c
    else if j = fixedValuesCol then row.fixedVal.getD 0
    else if j = tagCol then ((row.tag.getD 0 : Nat) : F) else 0
  | none, none =>
    if j = fixedValuesCol then row.fixedVal.getD 0
    else if j = tagCol then ((row.tag.getD 0 : Nat) : F) else 0

/-- Selector values on a row. -/
def Row.selAt (row : Row F) (i : Nat) : F :=
  if i = 0 then (if row.arith.isSome then 1 else 0)
  else if i = 1 then (if row.q1234 then 1 else 0)
  else if i = 2 then (if row.arith.isNone && row.parAdd.isSome then 1 else 0)
  else if i = 3 then (if row.tag.isSome then 1 else 0)
  else 0

/-- What the gates see on row `off` of region `k` (rotations 0 and +1 only; the fixed cells of
the next row are never queried by these gates). -/
def rowEnv (asg : Cell → F) (k off : Nat) (row : Row F) : Env F where
  sel := row.selAt
  fixed := fun j _ => row.fixedAt j
  adv := fun i r => asg ⟨k, off + r.toNat, .adv i⟩

/-- Closed form of the three gates of `NativeChip::configure` on one row. -/
def Row.gatesHold (asg : Cell → F) (k off : Nat) (row : Row F) : Prop :=
  let v := fun i => asg ⟨k, off, .adv i⟩
  let nx := fun i => asg ⟨k, off + 1, .adv i⟩
  (match row.arith with
    | none => True
    | some r => r.const + r.c0 * v 0 + r.c1 * v 1 + r.c2 * v 2 + r.c3 * v 3 + r.c4 * v 4
        + r.qNext * nx 0 + r.mulAB * v 0 * v 1 + r.mulAC * v 0 * v 2 = 0) ∧
  (row.q1234 = true → v 1 + v 2 - v 3 - v 4 = 0) ∧
  (match row.arith, row.parAdd with
    | none, some (a, b, c) => v 0 + a - nx 0 = 0 ∧ v 1 + b - nx 1 = 0 ∧ v 2 + c - nx 2 = 0
    | _, _ => True)

/-- The pow2range lookups on one row: with the selector on, every lookup column holds a value
in `[0, 2^tag)`. `inRange t v` is the table-membership predicate `(t, v) ∈ table`. -/
def Row.lookupsHold (inRange : Nat → F → Prop) (nrCols : Nat) (asg : Cell → F) (k off : Nat)
    (row : Row F) : Prop :=
  match row.tag with
  | none => True
  | some t => ∀ i, 1 ≤ i → i ≤ nrCols → inRange t (asg ⟨k, off, .adv i⟩)

/-- Fixed cells that take part in copy constraints (`fixed_values_col`). -/
def Row.fixedHold (asg : Cell → F) (k off : Nat) (row : Row F) : Prop :=
  match row.fixedVal with
  | none => True
  | some c => asg ⟨k, off, .fix fixedValuesCol⟩ = c

def rowsHold (inRange : Nat → F → Prop) (nrCols : Nat) (asg : Cell → F) (k : Nat) :
    Nat → List (Row F) → Prop
  | _, [] => True
  | off, row :: rest =>
    row.gatesHold asg k off ∧ row.lookupsHold inRange nrCols asg k off ∧ row.fixedHold asg k off ∧
    rowsHold inRange nrCols asg k (off + 1) rest

/-- Regions are stored most recent first. -/
def regionsHold (inRange : Nat → F → Prop) (nrCols : Nat) (asg : Cell → F) :
    List (List (Row F)) → Prop
  | [] => True
  | r :: rs => rowsHold inRange nrCols asg rs.length 0 r ∧ regionsHold inRange nrCols asg rs

def copiesHold (asg : Cell → F) : List (Cell × Cell) → Prop
  | [] => True
  | (a, b) :: rest => asg a = asg b ∧ copiesHold asg rest

/-- The assignment satisfies the circuit. -/
def St.Holds (inRange : Nat → F → Prop) (s : St F) (asg : Cell → F) : Prop :=
  regionsHold inRange s.nrCols asg s.regions ∧ copiesHold asg s.copies

/-- Every cached constant cell holds its constant. -/
def St.CacheOK (s : St F) (asg : Cell → F) : Prop :=
  ∀ p ∈ s.cache, asg p.2 = p.1

end sem

/-! ## Executable check of `Holds` (used by the `check` requests of the driver) -/

section exec
variable [CommRing F] [DecidableEq F]

def Row.gatesHoldB (asg : Cell → F) (k off : Nat) (row : Row F) : Bool :=
  let v := fun i => asg ⟨k, off, .adv i⟩
  let nx := fun i => asg ⟨k, off + 1, .adv i⟩
  (match row.arith with
    | none => true
    | some r => decide (r.const + r.c0 * v 0 + r.c1 * v 1 + r.c2 * v 2 + r.c3 * v 3 + r.c4 * v 4
        + r.qNext * nx 0 + r.mulAB * v 0 * v 1 + r.mulAC * v 0 * v 2 = 0)) &&
  (!row.q1234 || decide (v 1 + v 2 - v 3 - v 4 = 0)) &&
  (match row.arith, row.parAdd with
    | none, some (a, b, c) =>
      decide (v 0 + a - nx 0 = 0) && decide (v 1 + b - nx 1 = 0) && decide (v 2 + c - nx 2 = 0)
    | _, _ => true)

def rowsHoldB (inRangeB : Nat → F → Bool) (nrCols : Nat) (asg : Cell → F) (k : Nat) :
    Nat → List (Row F) → Bool
  | _, [] => true
  | off, row :: rest =>
    row.gatesHoldB asg k off &&
    (match row.tag with
      | none => true
      | some t => (List.range nrCols).all (fun i => inRangeB t (asg ⟨k, off, .adv (i + 1)⟩))) &&
    (match row.fixedVal with
      | none => true
      | some c => decide (asg ⟨k, off, .fix fixedValuesCol⟩ = c)) &&
    rowsHoldB inRangeB nrCols asg k (off + 1) rest

def regionsHoldB (inRangeB : Nat → F → Bool) (nrCols : Nat) (asg : Cell → F) :
    List (List (Row F)) → Bool
  | [] => true
  | r :: rs => rowsHoldB inRangeB nrCols asg rs.length 0 r && regionsHoldB inRangeB nrCols asg rs

def St.holdsB (inRangeB : Nat → F → Bool) (s : St F) (asg : Cell → F) : Bool :=
  regionsHoldB inRangeB s.nrCols asg s.regions &&
  s.copies.all (fun p => decide (asg p.1 = asg p.2))

end exec

/-! ## Canonical text -/

def Col.render : Col → String
  | .adv i => s!"a{i}"
  | .fix i => s!"f{i}"

def Cell.render (c : Cell) : String := s!"{c.region}.{c.off}.{c.col.render}"

/-- Sort key (region, offset, kind, column); fixed before advice. -/
def Cell.key (c : Cell) : Nat × Nat × Nat × Nat :=
  match c.col with
  | .fix i => (c.region, c.off, 1, i)
  | .adv i => (c.region, c.off, 2, i)

def keyLe (a b : Nat × Nat × Nat × Nat) : Bool :=
  a.1 < b.1 || (a.1 = b.1 && (a.2.1 < b.2.1 || (a.2.1 = b.2.1 &&
    (a.2.2.1 < b.2.2.1 || (a.2.2.1 = b.2.2.1 && a.2.2.2 ≤ b.2.2.2)))))

section render
variable (toNat : F → Nat)

/-- Events of one row in canonical order: selectors, fixed cells, advice cells. -/
def Row.render (row : Row F) (off : Nat) : List String :=
  let sels :=
    (if row.arith.isSome then [s!"s0@{off}"] else []) ++
    (if row.q1234 then [s!"s1@{off}"] else []) ++
    (if row.arith.isNone && row.parAdd.isSome then [s!"s2@{off}"] else []) ++
    (if row.tag.isSome then [s!"s3@{off}"] else [])
  let fx (j : Nat) (v : F) : String := s!"f{j}@{off}={toHex (toNat v)}"
  let fixeds :=
    (match row.arith, row.parAdd with
      | some r, _ => [fx 0 r.qNext, fx 1 r.mulAB, fx 2 r.mulAC, fx 3 r.const, fx 4 r.c0, fx 5 r.c1,
                      fx 6 r.c2, fx 7 r.c3, fx 8 r.c4]
      | none, some (a, b, c) => [fx 4 a, fx 5 b, fx 6 c]
      | none, none => []) ++
    (match row.fixedVal with | some v => [fx fixedValuesCol v] | none => []) ++
    (match row.tag with | some t => [s!"f{tagCol}@{off}={toHex t}"] | none => [])
  let advs := (row.adv.mergeSort (· ≤ ·)).map (fun i => s!"a{i}@{off}")
  sels ++ fixeds ++ advs

def renderRows : Nat → List (Row F) → List String
  | _, [] => []
  | off, row :: rest => row.render toNat off ++ renderRows (off + 1) rest

def renderRegions (regions : List (List (Row F))) : String :=
  let rs := regions.reverse
  let parts := rs.zipIdx.map (fun (rows, k) => s!"R{k}[{" ".intercalate (renderRows toNat 0 rows)}]")
  " ".intercalate parts

def renderCopies (copies : List (Cell × Cell)) : String :=
  let norm := copies.map (fun (a, b) => if keyLe a.key b.key then (a, b) else (b, a))
  let sorted := norm.mergeSort (fun x y =>
    if x.1.key = y.1.key then keyLe x.2.key y.2.key else keyLe x.1.key y.1.key)
  let dedup := sorted.foldr (fun x acc => match acc with
    | y :: _ => if x = y then acc else x :: acc
    | [] => [x]) []
  s!"C[{" ".intercalate (dedup.map (fun (a, b) => s!"{a.render}={b.render}"))}]"

/-- `Pow2RangeChip::load_table`: tags 0 and every queried tag ≤ max_bit_len, ascending,
`2^tag` rows each. -/
def tableTags (maxBitLen : Nat) (tags : List Nat) : List Nat :=
  (List.range (maxBitLen + 1)).filter (fun t => t = 0 || tags.contains t)

def renderTable (maxBitLen : Nat) (tags : List Nat) : String :=
  s!"T[{",".intercalate ((tableTags maxBitLen tags).map (fun t => s!"{toHex t}:{2 ^ t}"))}]"

/-- `NativeGadget::constrained_cells` (read through the hook `verif_constrained_cells`), sorted by
cell: `region.offset.col<bound`. -/
def renderBounds (bounds : List (Cell × Nat)) : String :=
  let sorted := bounds.mergeSort (fun x y => keyLe x.1.key y.1.key)
  s!"B[{" ".intercalate (sorted.map (fun (c, b) => s!"{c.render}<{toHex b}"))}]"

def St.render (s : St F) : String :=
  " ".intercalate (([renderRegions toNat s.regions, renderCopies s.copies,
    renderTable s.maxBitLen s.tags]).filter (· ≠ ""))

end render

end MidnightZK.C04
