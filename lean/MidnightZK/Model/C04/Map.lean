import MidnightZK.Model.C04.Decomp
/-!
# C04 — emitters of `MapGadget` (circuits/src/map/map_gadget.rs) and the CPU reference of the map
(circuits/src/map/cpu.rs)

The map is a Merkle tree of height `TREE_HEIGHT = 128`; the leaf of a key is addressed by the low
128 bits of `hash(key, 0)`, its value is stored at the leaf, the tree is committed to by its root
(`succinct_repr`). The gadget is generic in the hash chip: the emitters below take the emitter of
the hash chip as a parameter (`hashE`). The correspondence run instantiates the REAL `MapGadget`
with a hash chip defined in the harness from one `add_and_mul` of the native gadget
(`toyHashE`; it is only a vehicle for comparing the gadget's own constraints cell by cell — it is
not collision resistant); the MockProver oracle runs the real gadget with the real Poseidon chip.
-/
namespace MidnightZK.C04
open Lean.Grind
attribute [local instance] Semiring.natCast

variable {F : Type} [CommRing F] [DecidableEq F]

/-- map/cpu.rs: `TREE_HEIGHT`. -/
def treeHeight : Nat := 128

/-- The hash chip of the correspondence harness (harness/c04/src/mapops.rs: `ToyHash`):
`h(x, y) = x + 2y + 7 + 3xy`, one `add_and_mul` row. -/
def toyHashE (s : St F) (x y : Cell) : Cell × St F :=
  addAndMul s 1 x 2 y 0 x 7 3

/-- The loop of `verify_path`: `cond_swap(is_right, node, sibling)`, then the hash of the pair. -/
def mapClimb (hashE : St F → Cell → Cell → Cell × St F) (s : St F) (node : Cell) :
    List (Cell × Cell) → Cell × St F
  | [] => (node, s)
  | (bit, sib) :: rest =>
    let ((l, r), s) := condSwap s bit node sib
    let (node, s) := hashE s l r
    mapClimb hashE s node rest

/-- map_gadget.rs: `verify_path(key, value, proof)` against the current `succinct_repr`. -/
def mapVerifyPath (hashE : St F → Cell → Cell → Cell × St F) (s : St F) (key value : Cell)
    (proof : List Cell) (root : Cell) (numBits halfP : Nat) : St F :=
  let (zero, s) := assignFixed s 0
  let (path, s) := hashE s key zero
  let (bits, s) := assignedToLeBits s path none true numBits halfP
  let (node, s) := mapClimb hashE s value ((bits.take treeHeight).zip proof)
  gAssertEqual s node root

/-- map_gadget.rs: `init` — the root is a free witness cell. -/
def mapInit (s : St F) : Cell × St F := assign s

/-- map_gadget.rs: `get(key)` — the value and the 128 siblings are witnesses (`assign`,
`assign_many`), tied to the root by `verify_path`. Returns the value cell. -/
def mapGet (hashE : St F → Cell → Cell → Cell × St F) (s : St F) (key root : Cell)
    (numBits halfP : Nat) : Cell × St F :=
  let (value, s) := assign s
  let (proof, s) := assignMany s treeHeight
  (value, mapVerifyPath hashE s key value proof root numBits halfP)

/-- map_gadget.rs: `insert(key, value)` — the path is verified with the current value against the
old root, then with the new value against a fresh root cell (`update_state`). Returns the new root. -/
def mapInsert (hashE : St F → Cell → Cell → Cell × St F) (s : St F) (key value root : Cell)
    (numBits halfP : Nat) : Cell × St F :=
  let (cur, s) := assign s
  let (proof, s) := assignMany s treeHeight
  let s := mapVerifyPath hashE s key cur proof root numBits halfP
  let (newRoot, s) := assign s
  (newRoot, mapVerifyPath hashE s key value proof newRoot numBits halfP)

/-! ## The CPU reference (map/cpu.rs), over `Nat` modulo `p`, for the harness's hash -/

def toyHash (p x y : Nat) : Nat := (x + 2 * y + 7 + 3 * x * y) % p

/-- map/cpu.rs: `compute_node_index` — the first 16 little-endian bytes of `hash(key, 0)`. -/
def mapIndex (p key : Nat) : Nat := toyHash p key 0 % 2 ^ treeHeight

/-- map/cpu.rs: `MapMt::new` — `default_nodes[i+1] = hash(default_nodes[i], default_nodes[i])`. -/
def mapDefaults (p : Nat) : Nat → Nat → List Nat
  | 0, _ => []
  | n + 1, d => d :: mapDefaults p n (toyHash p d d)

/-- The node at `height`, index `idx` of the sparse tree holding `leaves = [(leaf index, value)]`
(later entries override earlier ones): the default node of that height if no leaf lies below it. -/
def mapNode (p : Nat) (defaults : List Nat) : Nat → Nat → List (Nat × Nat) → Nat
  | 0, idx, leaves =>
    match leaves.reverse.find? (fun l => l.1 = idx) with
    | some l => l.2
    | none => defaults.getD 0 0
  | h + 1, idx, leaves =>
    let ls := leaves.filter (fun l => l.1 / 2 ^ (h + 1) = idx)
    if ls.isEmpty then defaults.getD (h + 1) 0
    else toyHash p (mapNode p defaults h (2 * idx) ls) (mapNode p defaults h (2 * idx + 1) ls)

/-- map/cpu.rs: `succinct_repr` of the map with the given `(key, value)` insertions (default 0). -/
def mapRoot (p : Nat) (entries : List (Nat × Nat)) : Nat :=
  let defaults := mapDefaults p (treeHeight + 1) 0
  mapNode p defaults treeHeight 0 (entries.map (fun e => (mapIndex p e.1, e.2)))

/-- map/cpu.rs: `get` — the last value inserted for the key, else the default 0. -/
def mapLookup (entries : List (Nat × Nat)) (key : Nat) : Nat :=
  match entries.reverse.find? (fun e => e.1 = key) with
  | some e => e.2
  | none => 0

end MidnightZK.C04
