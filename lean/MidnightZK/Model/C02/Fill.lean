import MidnightZK.Model.Common
import MidnightZK.Model.C02.RowSat
/-!
# Fixed columns: `assign_fixed` / `fill_from_row`; advice columns of `MockProver::run` (executable model)

Mirrors

* `proofs/src/plonk/keygen.rs: impl Assignment for Assembly` — `assign_fixed`, `fill_from_row`
  (`keyAssign`, `keyFill`, `keyReplay`): the fixed columns prover and verifier use (`pk.fixed_values`,
  the fixed commitments of the verifying key): `vec![0; n]` per column, a write is refused outside
  the usable rows, `fill_from_row` runs `for row in usable_rows.clone().skip(from_row)`;
* `proofs/src/dev/mod.rs: impl Assignment for MockProver` — `assign_fixed`, `fill_from_row`
  (`mockAssign`, `mockFill`, `mockReplay`): `CellValue::Unassigned` initially, `fill_from_row` calls
  `assign_fixed` for every row of `usable_rows.clone().skip(from_row)`;
* `proofs/src/dev/mod.rs: MockProver::run` — the initial advice columns (`mockAdviceInit`):
  `vec![CellValue::Unassigned; n]` with `CellValue::Poison(i)` on every row `i` of
  `enumerate().skip(usable_rows)`, and `assign_advice`'s refusal of unusable rows
  (`mockAssignAdvice`).

The writes replayed are the ones the circuit REQUESTED (recorded by `harness/common/src/fixedrec.rs`
through the circuit's real floor planner). Import-free.
-/
namespace MidnightZK.C02.Fill
open MidnightZK MidnightZK.C02

/-- A write requested on a fixed column: `assign_fixed(col, row, v)` / `fill_from_row(col, from, v)`. -/
inductive FixedOp
  | assign (col row v : Nat)
  | fill (col fromRow v : Nat)
deriving Repr, DecidableEq, Inhabited

/-- The loop `for row in (row .. row + count) { col[row] = v }`. -/
def fillLoop {α : Type} (col : List α) (row : Nat) (v : α) : Nat → List α
  | 0 => col
  | count + 1 => fillLoop (col.set row v) (row + 1) v count

/-- `usable_rows.clone().skip(from_row)` of `usable_rows = 0..usable`: the rows
`from_row, …, usable − 1` (`usable − from_row` of them; none when `from_row ≥ usable`). -/
def fillCol {α : Type} (col : List α) (fromRow usable : Nat) (v : α) : List α :=
  fillLoop col fromRow v (usable - fromRow)

/-! ## key generation (`keygen.rs: Assembly`) -/

/-- `Assembly::assign_fixed`: `Err(NotEnoughRowsAvailable)` outside the usable rows,
`Err(BoundsFailure)` on a column that does not exist. -/
def keyAssign (usable : Nat) (cols : List (List Nat)) (c row v : Nat) : Option (List (List Nat)) :=
  if ¬ row < usable then none
  else match cols[c]? with
    | none => none
    | some col => if row < col.length then some (cols.set c (col.set row v)) else none

/-- `Assembly::fill_from_row`. -/
def keyFill (usable : Nat) (cols : List (List Nat)) (c fromRow v : Nat) : Option (List (List Nat)) :=
  if ¬ fromRow < usable then none
  else match cols[c]? with
    | none => none
    | some col => some (cols.set c (fillCol col fromRow usable v))

def keyStep (usable : Nat) (cols : List (List Nat)) : FixedOp → Option (List (List Nat))
  | .assign c r v => keyAssign usable cols c r v
  | .fill c r v => keyFill usable cols c r v

/-- The fixed columns after key generation's synthesis: `nf` columns of `n` zeros, then the writes. -/
def keyReplay (n usable nf : Nat) (ops : List FixedOp) : Option (List (List Nat)) :=
  ops.foldlM (keyStep usable) (List.replicate nf (List.replicate n 0))

/-! ## the mock checker (`dev/mod.rs: MockProver`) -/

/-- `dev::CellValue`. -/
inductive Cell
  | unassigned
  | assigned (v : Nat)
  | poison (row : Nat)
deriving Repr, DecidableEq, Inhabited

/-- What the dump (`csdump.rs: col_string`) and the row semantics read. -/
def Cell.toVal : Cell → Val
  | .unassigned => .real 0
  | .assigned v => .real v
  | .poison _ => .poison

/-- `MockProver::assign_fixed` (`assert!(usable_rows.contains(&row))`: `none` = panic). -/
def mockAssign (usable : Nat) (cols : List (List Cell)) (c row v : Nat) : Option (List (List Cell)) :=
  if ¬ row < usable then none
  else match cols[c]? with
    | none => none
    | some col => if row < col.length then some (cols.set c (col.set row (.assigned v))) else none

/-- `MockProver::fill_from_row`: `assign_fixed` on every row of `usable_rows.skip(from_row)`. -/
def mockFill (usable : Nat) (cols : List (List Cell)) (c fromRow v : Nat) : Option (List (List Cell)) :=
  if ¬ fromRow < usable then none
  else match cols[c]? with
    | none => none
    | some col => some (cols.set c (fillCol col fromRow usable (.assigned v)))

def mockStep (usable : Nat) (cols : List (List Cell)) : FixedOp → Option (List (List Cell))
  | .assign c r v => mockAssign usable cols c r v
  | .fill c r v => mockFill usable cols c r v

def mockReplay (n usable nf : Nat) (ops : List FixedOp) : Option (List (List Cell)) :=
  ops.foldlM (mockStep usable) (List.replicate nf (List.replicate n .unassigned))

/-- `MockProver::run`: an advice column right after construction — `Unassigned` on the usable rows,
`Poison(i)` on every row `i ≥ usable_rows` (`enumerate().skip(usable_rows)`). -/
def mockAdviceInit (n usable : Nat) : List Cell :=
  (List.range n).map fun i => if usable ≤ i then .poison i else .unassigned

/-- `MockProver::assign_advice`: `assert!(usable_rows.contains(&row))`, then the cell is written. -/
def mockAssignAdvice (usable : Nat) (col : List Cell) (row v : Nat) : Option (List Cell) :=
  if row < usable ∧ row < col.length then some (col.set row (.assigned v)) else none

/-- The advice column of the mock checker as the row semantics reads it, with the poison of
`MockProver::run` applied by the MODEL (not taken from the dump): rows `≥ usable` read poison whatever
the dump says, the others are the dumped cells. On the real `MockProver` this is the identity
(`mock_poisons_unusable_rows`, `mock_assign_preserves_poison`; `mockinit` lines). -/
def applyPoison (usable : Nat) (col : List Val) : List Val :=
  col.zipIdx.map fun (v, i) => if usable ≤ i then .poison else v

/-- The rows of a column that hold `Poison`, and whether each carries its own row number. -/
def poisonRows (col : List Cell) : List Nat × Bool :=
  (col.zipIdx.filterMap (fun (c, i) => match c with | .poison _ => some i | _ => none),
   col.zipIdx.all fun (c, i) => match c with | .poison j => i == j | _ => true)

/-! ## rendering (the format of the harness) -/

def rle (vals : List String) : String :=
  let rec go : List String → Option (String × Nat) → List String → List String
    | [], none, acc => acc.reverse
    | [], some (v, k), acc => ((if k > 1 then s!"{v}*{k}" else v) :: acc).reverse
    | x :: t, none, acc => go t (some (x, 1)) acc
    | x :: t, some (v, k), acc =>
      if x = v then go t (some (v, k + 1)) acc else go t (some (x, 1)) ((if k > 1 then s!"{v}*{k}" else v) :: acc)
  let out := go vals none []
  if out.isEmpty then "-" else ",".intercalate out

def hexBare (n : Nat) : String := String.ofList (toHexAux n [])

def renderCols (cols : List (List Nat)) : String :=
  if cols.isEmpty then "-" else "/".intercalate (cols.map fun c => rle (c.map hexBare))

def parseOp (s : String) : Option FixedOp :=
  match s.splitOn "." with
  | [k, c, r, v] => do
    let c ← c.toNat?
    let r ← r.toNat?
    let v ← parseHex? v
    if k = "A" then some (.assign c r v) else if k = "F" then some (.fill c r v) else none
  | _ => none

def parseOps (s : String) : Option (List FixedOp) :=
  if s = "-" then some [] else (s.splitOn ",").mapM parseOp

def cellNat : Cell → Nat
  | .assigned v => v
  | _ => 0

end MidnightZK.C02.Fill
