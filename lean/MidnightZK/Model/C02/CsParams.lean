import MidnightZK.Model.C02.Identities
/-!
# `ConstraintSystem::degree()` and `blinding_factors()` (executable model)

Mirror of `proofs/src/plonk/circuit.rs: Expression::degree`, `ConstraintSystem::degree`,
`ConstraintSystem::blinding_factors`, `lookup.rs: Argument::required_degree`,
`trash.rs: Argument::required_degree`, `permutation.rs: Argument::required_degree`, computed from
the dumped expressions and query lists only. Both numbers are shared by prover and verifier
(`chunk_len = degree − 2` of the permutation argument, the rows `l_last`/`l_blind` refer to), so a
consistent edit of either function leaves honest proofs verifying; the correspondence compares
them with this mirror. Import-free.
-/
namespace MidnightZK.C02.Ids
open MidnightZK.C02

/-- `circuit.rs: Expression::degree` (selectors are fixed columns after keygen: degree 1). -/
def exprDegree : Expr → Nat
  | .const _ => 0
  | .fixed _ _ => 1
  | .advice _ _ => 1
  | .inst _ _ => 1
  | .challenge _ => 0
  | .neg e => exprDegree e
  | .sum a b => max (exprDegree a) (exprDegree b)
  | .prod a b => exprDegree a + exprDegree b
  | .scaled e _ => exprDegree e

/-- `lookup.rs: Argument::required_degree`: `max(4, 2 + input_degree + table_degree)`, both degrees
initialised to `1`. -/
def lookupRequiredDegree (arg : List Expr × List Expr) : Nat :=
  let inputDeg := arg.1.foldl (fun d e => max d (exprDegree e)) 1
  let tableDeg := arg.2.foldl (fun d e => max d (exprDegree e)) 1
  max 4 (2 + inputDeg + tableDeg)

/-- `trash.rs: Argument::required_degree`: `max(2, degrees.max().unwrap_or(0))`. -/
def trashRequiredDegree (arg : Expr × List Expr) : Nat :=
  max 2 (arg.2.foldl (fun d e => max d (exprDegree e)) 0)

/-- `Iterator::max` of a list of naturals. -/
def maxOpt : List Nat → Option Nat
  | [] => none
  | a :: t => some (t.foldl max a)

/-- `ConstraintSystem::degree` (no `minimum_degree`): the maximum of
`permutation.required_degree() = 3`, the lookups', the trash arguments' and the gate polynomials'
degrees. -/
def csDegree (cs : VCS) : Nat :=
  (([some 3, maxOpt (cs.lookups.map lookupRequiredDegree), maxOpt (cs.trash.map trashRequiredDegree),
    maxOpt (cs.gates.flatten.map exprDegree)].filterMap id).foldl max 0)

/-- `num_advice_queries[column]`: number of distinct queries of the advice column. -/
def numAdviceQueries (cs : VCS) (col : Nat) : Nat := (cs.adviceQueries.filter fun q => q.1 == col).length

/-- `ConstraintSystem::blinding_factors`: `max(3, max_col num_advice_queries[col] (1 without advice
columns)) + #trashcans + 1 + 1`. -/
def blindingFactors (nAdvice : Nat) (cs : VCS) : Nat :=
  let factors := (maxOpt ((List.range nAdvice).map (numAdviceQueries cs))).getD 1
  max 3 factors + cs.trash.length + 1 + 1

/-- `columns.chunks(degree − 2).count()` with the mirrored degree. -/
def csNumSets (cs : VCS) : Nat := (chunks (csDegree cs - 2) cs.permCols).length

end MidnightZK.C02.Ids
