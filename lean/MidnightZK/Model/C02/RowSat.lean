import MidnightZK.Model.Common
/-!
# Row-level satisfaction of a PLONK constraint system (executable model)

`rowSat` is the plain meaning of a constraint system on an assignment table: every gate
polynomial vanishes on every row, every additive-selector (trash) constraint vanishes where its
selector is non-zero, every lookup input row is a row of its table, every copy constraint holds.
`mockOK` mirrors what `MockProver::verify_at_rows` (`proofs/src/dev/mod.rs`) computes, including
its poison arithmetic on blinding rows and its fill-row shortcut for lookups.
Import-free.
-/
namespace MidnightZK.C02

/-- `plonk::Expression` after selector replacement. -/
inductive Expr
  | const (c : Nat)
  | fixed (col : Nat) (rot : Int)
  | advice (col : Nat) (rot : Int)
  | inst (col : Nat) (rot : Int)
  | challenge (i : Nat)
  | neg (e : Expr)
  | sum (a b : Expr)
  | prod (a b : Expr)
  | scaled (e : Expr) (c : Nat)
deriving Repr, Inhabited

/-- `dev::Value`: a field element or a poisoned (blinding) cell. -/
inductive Val
  | real (x : Nat)
  | poison
deriving DecidableEq, Repr, Inhabited

/-- Assignment table (column-major) over the prime field of order `p`. -/
structure Table where
  p : Nat
  n : Nat
  fixed : List (List Val)
  advice : List (List Val)
  inst : List (List Val)
  challenges : List Nat
deriving Repr, Inhabited

def Val.neg (p : Nat) : Val → Val
  | .real a => .real ((p - a % p) % p)
  | .poison => .poison

def Val.add (p : Nat) : Val → Val → Val
  | .real a, .real b => .real ((a + b) % p)
  | _, _ => .poison

/-- `impl Mul for Value`: zero annihilates poison. -/
def Val.mul (p : Nat) : Val → Val → Val
  | .real a, .real b => .real ((a * b) % p)
  | .real x, .poison => if x % p = 0 then .real 0 else .poison
  | .poison, .real x => if x % p = 0 then .real 0 else .poison
  | .poison, .poison => .poison

/-- Cell at `(row + rot) mod n` (`util::load`). -/
def cell (cols : List (List Val)) (n col row : Nat) (rot : Int) : Val :=
  (cols.getD col []).getD ((((row : Int) + (n : Int) + rot) % (n : Int)).toNat) (.real 0)

def Expr.eval (t : Table) (row : Nat) : Expr → Val
  | .const c => .real (c % t.p)
  | .fixed col rot => cell t.fixed t.n col row rot
  | .advice col rot => cell t.advice t.n col row rot
  | .inst col rot => cell t.inst t.n col row rot
  | .challenge i => .real (t.challenges.getD i 0 % t.p)
  | .neg e => Val.neg t.p (e.eval t row)
  | .sum a b => Val.add t.p (a.eval t row) (b.eval t row)
  | .prod a b => Val.mul t.p (a.eval t row) (b.eval t row)
  | .scaled e c => Val.mul t.p (e.eval t row) (.real (c % t.p))

/-- Column kind of a permutation column. -/
inductive ColKind | advice | fixed | inst
deriving DecidableEq, Repr, Inhabited

structure CS where
  gates : List Expr
  lookups : List (List Expr × List Expr)
  trash : List (Expr × List Expr)
  permCols : List (ColKind × Nat)
  /-- non-identity entries of the copy mapping: `((permcol, row), (permcol', row'))` -/
  copies : List ((Nat × Nat) × (Nat × Nat))
  blinding : Nat
deriving Repr, Inhabited

def usableRows (cs : CS) (t : Table) : List Nat := List.range (t.n - (cs.blinding + 1))
def blindingRows (cs : CS) (t : Table) : List Nat := List.range' (t.n - (cs.blinding + 1)) (cs.blinding + 1)

def isZero (v : Val) : Bool := v == .real 0

/-- Gates are checked on the usable rows and on the blinding rows (poison semantics). -/
def gatesOK (cs : CS) (t : Table) : Bool :=
  cs.gates.all fun g => (usableRows cs t ++ blindingRows cs t).all fun r => isZero (g.eval t r)

/-- Additive-selector constraints: `q · constraint = 0` on every checked row. -/
def trashOK (cs : CS) (t : Table) : Bool :=
  cs.trash.all fun (q, cons) => cons.all fun c =>
    (usableRows cs t ++ blindingRows cs t).all fun r => isZero (Val.mul t.p (q.eval t r) (c.eval t r))

def tuple (es : List Expr) (t : Table) (r : Nat) : List Val := es.map (·.eval t r)

/-- Plain lookup semantics: every input row (usable rows) occurs among the table rows. -/
def lookupsOK (cs : CS) (t : Table) : Bool :=
  cs.lookups.all fun (inp, tab) =>
    (usableRows cs t).all fun r => ((usableRows cs t).map (tuple tab t)).contains (tuple inp t r)

/-- `MockProver`: rows equal to the fill row (table at the last usable row) are dropped from
both sides before the membership test. -/
def lookupsOKMock (cs : CS) (t : Table) : Bool :=
  cs.lookups.all fun (inp, tab) =>
    let fill := tuple tab t ((t.n - (cs.blinding + 1)) - 1)
    let table := ((usableRows cs t).map (tuple tab t)).filter (· != fill)
    let inputs := ((usableRows cs t).map (tuple inp t)).filter (· != fill)
    inputs.all fun i => table.contains i

def permCell (cs : CS) (t : Table) (pc row : Nat) : Val :=
  match cs.permCols.getD pc (.advice, 0) with
  | (.advice, c) => (t.advice.getD c []).getD row (.real 0)
  | (.fixed, c) => (t.fixed.getD c []).getD row (.real 0)
  | (.inst, c) => (t.inst.getD c []).getD row (.real 0)

/-- Copy constraints: a cell equals the cell it is mapped to. -/
def copiesOK (cs : CS) (t : Table) : Bool :=
  cs.copies.all fun (a, b) => permCell cs t a.1 a.2 == permCell cs t b.1 b.2

def rowSat (cs : CS) (t : Table) : Bool :=
  gatesOK cs t && trashOK cs t && lookupsOK cs t && copiesOK cs t

def mockOK (cs : CS) (t : Table) : Bool :=
  gatesOK cs t && trashOK cs t && lookupsOKMock cs t && copiesOK cs t

/-- The checker of the pinned tree (before the fix of defect D2) skipped trash arguments. -/
def mockOKPinned (cs : CS) (t : Table) : Bool :=
  gatesOK cs t && lookupsOKMock cs t && copiesOK cs t

/-! ## `MockProver::verify_at_rows` on caller-chosen rows -/

/-- Gates as `verify_at_rows` checks them: on `gate_row_ids` and on the blinding rows. -/
def gatesOKAt (cs : CS) (t : Table) (gateRows : List Nat) : Bool :=
  cs.gates.all fun g => (gateRows ++ blindingRows cs t).all fun r => isZero (g.eval t r)

/-- Additive-selector constraints on `gate_row_ids` and on the blinding rows. -/
def trashOKAt (cs : CS) (t : Table) (gateRows : List Nat) : Bool :=
  cs.trash.all fun (q, cons) => cons.all fun c =>
    (gateRows ++ blindingRows cs t).all fun r => isZero (Val.mul t.p (q.eval t r) (c.eval t r))

/-- Lookups as `verify_at_rows` checks them: inputs only on `lookup_input_row_ids`, the table on
ALL usable rows, fill-row shortcut on both. -/
def lookupsOKMockAt (cs : CS) (t : Table) (lookupRows : List Nat) : Bool :=
  cs.lookups.all fun (inp, tab) =>
    let fill := tuple tab t ((t.n - (cs.blinding + 1)) - 1)
    let table := ((usableRows cs t).map (tuple tab t)).filter (· != fill)
    let inputs := (lookupRows.map (tuple inp t)).filter (· != fill)
    inputs.all fun i => table.contains i

/-- `MockProver::verify_at_rows(gate_row_ids, lookup_input_row_ids)` (cell-assignment checks
excluded): the copy constraints are always checked on the whole mapping. `verify()` is
`verify_at_rows(usable_rows, usable_rows)`; `assert_satisfied[_at_rows]` panics iff the result is
`Err`. -/
def mockOKAt (cs : CS) (t : Table) (gateRows lookupRows : List Nat) : Bool :=
  gatesOKAt cs t gateRows && trashOKAt cs t gateRows && lookupsOKMockAt cs t lookupRows && copiesOK cs t

end MidnightZK.C02
