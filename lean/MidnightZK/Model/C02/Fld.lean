import MidnightZK.Model.C02.Identities
import MidnightZK.Gen.C02Consts
/-!
# The field of the proof system (BLS12-381 scalar field) as the identity model reads it

`Ids.Fld` filled with the constants the translator `c02_consts.py` regenerates from
`curves/src/bls12_381/fq.rs` on every run. Import-free (Model + Gen only).
-/
namespace MidnightZK.C02

/-- `Fq::MODULUS`, `Fq::DELTA`, `Fq::ROOT_OF_UNITY`, `Fq::S` (canonical integers). -/
def blsFld : Ids.Fld :=
  { p := Consts.modulus, delta := Consts.delta, root := Consts.rootOfUnity, s := Consts.twoAdicity }

end MidnightZK.C02
