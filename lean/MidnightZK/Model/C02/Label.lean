import MidnightZK.Model.C01.Schedule
import MidnightZK.Model.C02.Identities
/-!
# Labelling the verifier's transcript scalars with the schedule model

The harness records, in order, every scalar the real verifier READS from the proof and every
challenge it SQUEEZES. The model labels that stream itself: `MidnightZK.C01.verifierSchedule`
(the model of `verifier.rs: parse_trace` + `verify_algebraic_constraints` + `multi_prepare`) says
which proof element / challenge each position is. From the labelled stream the inputs of
`Ids.verifyIds` are rebuilt exactly as `verify_algebraic_constraints` and the `evaluate`
functions of the argument verifiers build them. Import-free (Model files only).
-/
namespace MidnightZK.C02.Label
open MidnightZK MidnightZK.C01 MidnightZK.C02 MidnightZK.C02.Ids

/-- The scalar events of the verifier schedule: `(isSqueeze, tag)` for every field element read
from the proof (`elem F`) and every squeezed challenge. Group elements and absorbed (`common`)
values are not part of the stream. -/
def scalarEvents (sh : Shape) (cfg : Cfg) : List (Bool × Tag) :=
  (verifierSchedule sh cfg).filterMap fun e =>
    match e.kind, e.ty with
    | .squeeze, _ => some (true, e.tag)
    | .elem, .F => some (false, e.tag)
    | _, _ => none

/-- Zip the recorded stream with the schedule; `none` when the number of events or the kind of
some event (read vs squeeze) differs. -/
def label : List (Bool × Tag) → List (Bool × Nat) → Option (List (Tag × Nat))
  | [], [] => some []
  | (k, t) :: es, (k', v) :: vs =>
    if k = k' then (label es vs).map fun r => (t, v) :: r else none
  | _, _ => none

/-- Value of a tag (`0` if the schedule has no such event). -/
def getTag (m : List (Tag × Nat)) (t : Tag) : Nat := (m.lookup t).getD 0

/-- Number of permutation column sets: `columns.chunks(cs_degree − 2).count()`. -/
def numSets (cs : VCS) : Nat := numChunks cs.permCols.length (cs.degree - 2)

/-- `permutation::verifier::Committed::evaluate` (eval, next eval, and the last-row eval for all
sets but the last), `lookup::verifier::Committed::evaluate` (five evaluations),
`trash::verifier::Committed::evaluate`, `read_n(advice_queries.len())` and the `instance_evals`
block of `verify_algebraic_constraints`, for proof number `pi`. -/
def proofEvalsOfTags (f : Fld) (cs : VCS) (nCommitted : Nat) (get : Tag → Nat) (x xn maxLen : Nat)
    (plain : List (List Nat)) (pi : Nat) : ProofEvals :=
  let sets := numSets cs
  { advice := (List.range cs.adviceQueries.length).map fun q => get (.adviceEval pi q),
    inst := instanceEvals f cs nCommitted x xn maxLen plain (fun qi => get (.instEval pi qi)),
    permSets := (List.range sets).map fun s =>
      { eval := get (.permEval pi s 0), next := get (.permEval pi s 1),
        last := if sets - (s + 1) > 0 then some (get (.permEval pi s 2)) else none },
    lookups := (List.range cs.lookups.length).map fun l =>
      { product := get (.lookupEval pi l 0), productNext := get (.lookupEval pi l 1),
        permutedInput := get (.lookupEval pi l 2), permutedInputInv := get (.lookupEval pi l 3),
        permutedTable := get (.lookupEval pi l 4) },
    trash := (List.range cs.trash.length).map fun t => get (.trashEval pi t) }

/-- `read_n(fixed_queries.len())` and `vk.permutation.evaluate` (one evaluation per σ column). -/
def commonEvalsOfTags (cs : VCS) (get : Tag → Nat) : CommonEvals :=
  { fixed := (List.range cs.fixedQueries.length).map fun q => get (.fixedEval q),
    permCommon := (List.range cs.permCols.length).map fun k => get (.permCommonEval k) }

/-- Challenges of `parse_trace` (`theta`, `beta`, `gamma`, `trash_challenge`, `y`, the user
challenges) and `x`. -/
def challengesOfTags (nUser : Nat) (get : Tag → Nat) : Challenges :=
  { theta := get .theta, beta := get .beta, gamma := get .gamma, trash := get .trashCh,
    y := get .y, x := get .x, user := (List.range nUser).map fun i => get (.challenge i) }

/-- The shape the schedule model needs, read off the verifier's view of the constraint system. -/
def shapeOfVCS (cs : VCS) (advicePhase challengePhase : List Nat) : Shape :=
  { advicePhase := advicePhase, challengePhase := challengePhase,
    adviceQueries := cs.adviceQueries, instanceQueries := cs.instanceQueries,
    fixedQueries := cs.fixedQueries, numLookups := cs.lookups.length, numTrash := cs.trash.length,
    permCols := cs.permCols.length, degree := cs.degree, blinding := cs.blinding, k := cs.k }

/-- The model of one verifier run: label the recorded stream with `verifierSchedule`, rebuild
what the verifier read, compute every identity value and `expected_h_eval`.
`plain[pi]` = the plain instance columns of proof `pi`. -/
def run (f : Fld) (cs : VCS) (advicePhase challengePhase : List Nat) (nCommitted : Nat)
    (plain : List (List (List Nat))) (stream : List (Bool × Nat)) : Option (Challenges × Folded) :=
  let sh := shapeOfVCS cs advicePhase challengePhase
  let cfg : Cfg := { nProofs := plain.length, nCommitted := nCommitted, lens := plain.map (·.map List.length) }
  match label (scalarEvents sh cfg) stream with
  | none => none
  | some m =>
    let get := getTag m
    let ch := challengesOfTags challengePhase.length get
    let xn := xnOf f.p cs.k ch.x
    let maxLen := (plain.flatMap (·.map List.length)).foldl max 0
    let proofs := plain.zipIdx.map fun (pl, pi) => proofEvalsOfTags f cs nCommitted get ch.x xn maxLen pl pi
    some (ch, verifyIds f cs (commonEvalsOfTags cs get) ch proofs)

end MidnightZK.C02.Label
