import MidnightZK.Model.Common
import MidnightZK.Model.C02.RowSat
/-! Parser of the one-line constraint-system / table dump written by `harness/common/src/csdump.rs`. -/
namespace MidnightZK.C02.Parse
open MidnightZK MidnightZK.C02

def takeWhileC (p : Char → Bool) : List Char → List Char × List Char
  | [] => ([], [])
  | c :: t => if p c then let (a, b) := takeWhileC p t; (c :: a, b) else ([], c :: t)

def isHexC (c : Char) : Bool := c.isDigit || ('a' ≤ c && c ≤ 'f')

def parseColRot (cs : List Char) : Option (Nat × Int × List Char) :=
  let (d, r) := takeWhileC Char.isDigit cs
  match r with
  | '@' :: r' =>
    let (neg, r'') := match r' with | '-' :: x => (true, x) | x => (false, x)
    let (d2, rest) := takeWhileC Char.isDigit r''
    match (String.ofList d).toNat?, (String.ofList d2).toNat? with
    | some c, some k => some (c, if neg then -(k : Int) else (k : Int), rest)
    | _, _ => none
  | _ => none

/-- Recursive descent over the prefix rendering produced by `csdump::expr_string`. -/
partial def parseExpr (cs : List Char) : Option (Expr × List Char) :=
  match cs with
  | 'C' :: t =>
    let (h, r) := takeWhileC isHexC t
    (parseHex? (String.ofList h)).map fun n => (.const n, r)
  | 'F' :: t => (parseColRot t).map fun (c, k, r) => (.fixed c k, r)
  | 'A' :: t => (parseColRot t).map fun (c, k, r) => (.advice c k, r)
  | 'I' :: t => (parseColRot t).map fun (c, k, r) => (.inst c k, r)
  | 'H' :: t =>
    let (d, r) := takeWhileC Char.isDigit t
    ((String.ofList d).toNat?).map fun n => (.challenge n, r)
  | 'N' :: '(' :: t =>
    match parseExpr t with
    | some (e, ')' :: r) => some (.neg e, r)
    | _ => none
  | 'S' :: '(' :: t =>
    match parseExpr t with
    | some (a, ',' :: r) =>
      match parseExpr r with
      | some (b, ')' :: r') => some (.sum a b, r')
      | _ => none
    | _ => none
  | 'P' :: '(' :: t =>
    match parseExpr t with
    | some (a, ',' :: r) =>
      match parseExpr r with
      | some (b, ')' :: r') => some (.prod a b, r')
      | _ => none
    | _ => none
  | 'X' :: '(' :: t =>
    match parseExpr t with
    | some (a, ',' :: r) =>
      let (h, r') := takeWhileC isHexC r
      match parseHex? (String.ofList h), r' with
      | some n, ')' :: r'' => some (.scaled a n, r'')
      | _, _ => none
    | _ => none
  | _ => none

def parseExprFull (s : String) : Option Expr :=
  match parseExpr s.toList with
  | some (e, []) => some e
  | _ => none

def parseExprList (s : String) (sep : String) : Option (List Expr) :=
  if s = "-" then some [] else (s.splitOn sep).mapM parseExprFull

def parsePairs (s : String) : Option (List (List Expr × List Expr)) :=
  if s = "-" then some [] else
  (s.splitOn ";").mapM fun item =>
    match item.splitOn ">" with
    | [a, b] => do pure ((← parseExprList a "|"), (← parseExprList b "|"))
    | _ => none

def parseVal (s : String) : Option Val :=
  if s = "P" then some .poison else (parseHex? s).map .real

def parseCol (s : String) : Option (List Val) :=
  if s = "-" then some [] else
  (s.splitOn ",").foldlM (fun acc item =>
    match item.splitOn "*" with
    | [v] => (parseVal v).map fun x => acc ++ [x]
    | [v, k] => do
      let x ← parseVal v
      let k ← k.toNat?
      pure (acc ++ List.replicate k x)
    | _ => none) []

def parseCols (s : String) : Option (List (List Val)) :=
  if s = "-" then some [] else (s.splitOn "/").mapM parseCol

def parsePermCols (s : String) : Option (List (ColKind × Nat)) :=
  if s = "-" then some [] else
  (s.splitOn ",").mapM fun item =>
    match item.toList with
    | 'a' :: d => ((String.ofList d).toNat?).map fun n => (ColKind.advice, n)
    | 'f' :: d => ((String.ofList d).toNat?).map fun n => (ColKind.fixed, n)
    | 'i' :: d => ((String.ofList d).toNat?).map fun n => (ColKind.inst, n)
    | _ => none

def parseCopies (s : String) : Option (List ((Nat × Nat) × (Nat × Nat))) :=
  if s = "-" then some [] else
  (s.splitOn ",").mapM fun item =>
    match (item.splitOn ".").mapM String.toNat? with
    | some [a, b, c, d] => some ((a, b), (c, d))
    | _ => none

def kv (ws : List String) (key : String) : Option String :=
  ws.findSome? fun w => if w.startsWith (key ++ "=") then some (w.drop (key.length + 1)).toString else none

def parseCase (ws : List String) : Option (CS × Table) := do
  let p ← parseHex? (← kv ws "p")
  let n ← (← kv ws "n").toNat?
  let bl ← (← kv ws "bl").toNat?
  let ch ← (let s := (← kv ws "ch"); if s = "-" then some [] else (s.splitOn ",").mapM parseHex?)
  let gates ← parseExprList (← kv ws "gates") ";"
  let lookups ← parsePairs (← kv ws "lookups")
  let trash ← (do
    let l ← parsePairs (← kv ws "trash")
    l.mapM fun (a, b) => match a with | [q] => some (q, b) | _ => none)
  let pc ← parsePermCols (← kv ws "pc")
  let cp ← parseCopies (← kv ws "cp")
  let fixed ← parseCols (← kv ws "fixed")
  let advice ← parseCols (← kv ws "advice")
  let inst ← parseCols (← kv ws "inst")
  pure ({ gates := gates, lookups := lookups, trash := trash, permCols := pc, copies := cp, blinding := bl },
        { p := p, n := n, fixed := fixed, advice := advice, inst := inst, challenges := ch })


end MidnightZK.C02.Parse
