import MidnightZK.Model.ModArith
import MidnightZK.Model.C02.RowSat
/-!
# The identities the REAL verifier folds, in the REAL order (executable model)

Mirror of what `proofs/src/plonk/verifier.rs: verify_algebraic_constraints` computes between
reading the evaluations and `vanishing::verifier::PartiallyEvaluated::verify`:

* `plonk/mod.rs: evaluate_identities` — `lagrange`, `proofIds`, `allIds`;
* `poly/domain.rs: EvaluationDomain::new` (`omega`, `barycentric_weight`), `rotate_omega`,
  `l_i_range` — `omegaOf`, `rotateOmega`, `lIRange`;
* `verifier.rs: verify_algebraic_constraints` (`instance_evals` of plain instance columns) —
  `instanceEvals`;
* `plonk/circuit.rs: Expression::evaluate` with the closures of `evaluate_identities`
  (`fixed_evals[query.index]`, …) — `evalQ`;
* `plonk/permutation.rs: expressions` — `permIds`;
* `plonk/lookup.rs: Evaluated::expressions` — `lookupIds`;
* `plonk/trash.rs: Evaluated::expressions` — `trashIds`;
* `plonk/vanishing/verifier.rs: PartiallyEvaluated::verify` — `foldH`, `expectedH`.

Field elements are naturals below the modulus `p` (all inputs are canonical), the operations are
`(a+b) % p` etc. Every identity value carries a class tag (`IdClass`) naming the rule it is.
Indexing `v[i]` is `v.getD i 0` (the Rust code would panic out of bounds). Import-free.
-/
namespace MidnightZK.C02.Ids
open MidnightZK MidnightZK.C02

/-- Which rule of which argument an identity value is. -/
inductive IdClass
  /-- polynomial `j` of gate `g` (`vk.cs.gates[g].polynomials()[j]`) -/
  | gate (g j : Nat)
  /-- `l_0(X) * (1 - z_0(X))` -/
  | permFirst
  /-- `l_last(X) * (z_l(X)^2 - z_l(X))` -/
  | permLast
  /-- `l_0(X) * (z_s(X) - z_{s-1}(ω^last X))`, `1 ≤ s` -/
  | permChain (s : Nat)
  /-- `(1 - (l_last + l_blind)) * (z_s(ωX) ∏(p + β s_i + γ) - z_s(X) ∏(p + δ^i β X + γ))` -/
  | permProduct (s : Nat)
  /-- rule `r ∈ 1…5` of lookup `l`, in the order of `lookup.rs: Evaluated::expressions` -/
  | lookup (l r : Nat)
  /-- the rule of trash argument `t` -/
  | trash (t : Nat)
deriving DecidableEq, Repr, Inhabited

/-- Field constants: modulus, `F::DELTA`, `F::ROOT_OF_UNITY`, `F::S`. -/
structure Fld where
  p : Nat
  delta : Nat
  root : Nat
  s : Nat
deriving Repr, Inhabited

/-- The part of `vk.cs` (`ConstraintSystem`, after selector replacement) and of `vk` the
identity evaluation reads. -/
structure VCS where
  /-- polynomials of every gate -/
  gates : List (List Expr)
  lookups : List (List Expr × List Expr)
  trash : List (Expr × List Expr)
  permCols : List (ColKind × Nat)
  adviceQueries : List (Nat × Int)
  fixedQueries : List (Nat × Int)
  instanceQueries : List (Nat × Int)
  /-- `vk.cs_degree = cs.degree()` -/
  degree : Nat
  /-- `cs.blinding_factors()` -/
  blinding : Nat
  /-- `vk.domain.k` -/
  k : Nat
deriving Repr, Inhabited

/-- Challenges of the trace (`VerifierTrace`) plus `x`. -/
structure Challenges where
  theta : Nat
  beta : Nat
  gamma : Nat
  trash : Nat
  y : Nat
  x : Nat
  /-- `challenges` (user challenges of the phases) -/
  user : List Nat
deriving Repr, Inhabited

/-- `permutation::Evaluated` of one column set. -/
structure PermSet where
  eval : Nat
  next : Nat
  last : Option Nat
deriving Repr, Inhabited

/-- `lookup::Evaluated`, fields in the order they are read. -/
structure LookupEvals where
  product : Nat
  productNext : Nat
  permutedInput : Nat
  permutedInputInv : Nat
  permutedTable : Nat
deriving Repr, Inhabited

/-- Everything read (or, for plain instance columns, computed) per proof. -/
structure ProofEvals where
  advice : List Nat
  inst : List Nat
  permSets : List PermSet
  lookups : List LookupEvals
  trash : List Nat
deriving Repr, Inhabited

/-- Evaluations shared by all proofs: fixed queries and the permutation (σ) polynomials. -/
structure CommonEvals where
  fixed : List Nat
  permCommon : List Nat
deriving Repr, Inhabited

/-- `l_0(x)`, `l_last(x)`, `l_blind(x)`. -/
structure Lagrange where
  l0 : Nat
  lLast : Nat
  lBlind : Nat
deriving Repr, Inhabited, DecidableEq

/-! ## field operations (canonical representatives) -/

def fadd (p a b : Nat) : Nat := (a + b) % p
def fsub (p a b : Nat) : Nat := (a + (p - b % p)) % p
def fmul (p a b : Nat) : Nat := (a * b) % p
def fneg (p a : Nat) : Nat := (p - a % p) % p

/-! ## evaluation domain -/

/-- `EvaluationDomain::new`: `omega = ROOT_OF_UNITY` squared `S − k` times (the two loops
`for _ in extended_k..F::S` and `for _ in k..extended_k` together). -/
def squareN (p : Nat) : Nat → Nat → Nat
  | 0, w => w
  | t + 1, w => squareN p t (fmul p w w)

def omegaOf (f : Fld) (k : Nat) : Nat := squareN f.p (f.s - k) (f.root % f.p)

/-- `EvaluationDomain::rotate_omega`: `value · omega^rot`, with `omega_inv^{|rot|}` for negative
rotations. -/
def rotateOmega (f : Fld) (k : Nat) (value : Nat) (rot : Int) : Nat :=
  let w := omegaOf f k
  if 0 ≤ rot then fmul f.p value (powMod w rot.toNat f.p)
  else fmul f.p value (powMod (invMod w f.p) (-rot).toNat f.p)

/-- `EvaluationDomain::l_i_range(x, xn, rotations)`: `(x − ω^rot)⁻¹` (batch inversion leaves
zero untouched), times `common = (xn − 1)·barycentric_weight` (`barycentric_weight = 1/n`),
rotated by `ω^rot`. -/
def lIRange (f : Fld) (k : Nat) (x xn : Nat) (rots : List Int) : List Nat :=
  let results := rots.map fun r => invMod (fsub f.p x (rotateOmega f k 1 r)) f.p
  let common := fmul f.p (fsub f.p xn 1) (invMod ((2 ^ k) % f.p) f.p)
  (rots.zip results).map fun rr => rotateOmega f k (fmul f.p rr.2 common) rr.1

/-- Consecutive integers `lo, lo+1, …` (`count` of them): a Rust range of `i32`. -/
def intRange (lo : Int) (count : Nat) : List Int := (List.range count).map fun (i : Nat) => lo + (i : Int)

/-- `evaluate_identities`: `l_evals = l_i_range(x, xn, −(bf+1)..=0)`, `l_last = l_evals[0]`,
`l_blind = Σ l_evals[1..1+bf]`, `l_0 = l_evals[1+bf]`. -/
def lagrange (f : Fld) (cs : VCS) (x xn : Nat) : Lagrange :=
  let bf := cs.blinding
  let lEvals := lIRange f cs.k x xn (intRange (-((bf + 1 : Nat) : Int)) (bf + 2))
  { lLast := lEvals.getD 0 0,
    lBlind := ((lEvals.drop 1).take bf).foldl (fun acc e => fadd f.p acc e) 0,
    l0 := lEvals.getD (1 + bf) 0 }

/-! ## instance evaluations of plain (non-committed) instance columns -/

/-- The `fold` computing `(min_rotation, max_rotation)` over `vk.cs.instance_queries`. -/
def minMaxRot (qs : List (Nat × Int)) : Int × Int :=
  qs.foldl (fun (mm : Int × Int) q =>
    if q.2 < mm.1 then (q.2, mm.2) else if q.2 > mm.2 then (mm.1, q.2) else mm) (0, 0)

/-- `compute_inner_product`. -/
def innerProduct (p : Nat) : List Nat → List Nat → Nat
  | a :: as, b :: bs => fadd p (fmul p a b) (innerProduct p as bs)
  | _, _ => 0

/-- `instance_evals` of `verify_algebraic_constraints` for one proof: a committed column's
evaluation is read from the transcript (`committedEval queryIndex`), a plain column's is the
inner product of its values with `l_i_s[offset..offset+len]`, `offset = max_rotation − rotation`.
`maxLen` = the longest plain instance column over all proofs. -/
def instanceEvals (f : Fld) (cs : VCS) (nCommitted : Nat) (x xn : Nat) (maxLen : Nat)
    (plain : List (List Nat)) (committedEval : Nat → Nat) : List Nat :=
  let mm := minMaxRot cs.instanceQueries
  let lis := lIRange f cs.k x xn (intRange (-mm.2) (maxLen + mm.1.natAbs + mm.2.toNat))
  cs.instanceQueries.zipIdx.map fun (q, qi) =>
    if q.1 < nCommitted then committedEval qi
    else
      let inst := plain.getD (q.1 - nCommitted) []
      let offset := (mm.2 - q.2).toNat
      innerProduct f.p inst ((lis.drop offset).take inst.length)

/-! ## expressions -/

/-- Index of the query `(column, rotation)` in a query list (`query.index`, assigned by
`ConstraintSystem::query_*_index` = position in the list; `get_any_query_index`). -/
def queryIndex (qs : List (Nat × Int)) (c : Nat) (r : Int) : Nat :=
  qs.findIdx fun q => q.1 == c && q.2 == r

/-- The evaluation environment of one proof. -/
structure Env where
  p : Nat
  cs : VCS
  fixed : List Nat
  advice : List Nat
  inst : List Nat
  user : List Nat

/-- `Expression::evaluate` with the closures used by `evaluate_identities`, `lookup.rs` and
`trash.rs`: `fixed_evals[query.index]`, `advice_evals[query.index]`, `instance_evals[query.index]`,
`challenges[challenge.index()]`, `-a`, `a + b`, `a * b`, `a * scalar`. -/
def evalQ (e : Env) : Expr → Nat
  | .const c => c % e.p
  | .fixed col rot => e.fixed.getD (queryIndex e.cs.fixedQueries col rot) 0
  | .advice col rot => e.advice.getD (queryIndex e.cs.adviceQueries col rot) 0
  | .inst col rot => e.inst.getD (queryIndex e.cs.instanceQueries col rot) 0
  | .challenge i => e.user.getD i 0 % e.p
  | .neg a => fneg e.p (evalQ e a)
  | .sum a b => fadd e.p (evalQ e a) (evalQ e b)
  | .prod a b => fmul e.p (evalQ e a) (evalQ e b)
  | .scaled a c => fmul e.p (evalQ e a) (c % e.p)

/-- `.fold(F::ZERO, |acc, eval| acc * challenge + eval)` over evaluated expressions
(`compress_expressions` of `lookup.rs`, `compressed_expressions` of `trash.rs`). -/
def compress (e : Env) (challenge : Nat) (es : List Expr) : Nat :=
  es.foldl (fun acc ex => fadd e.p (fmul e.p acc challenge) (evalQ e ex)) 0

/-! ## identities -/

/-- `vk.cs.gates.iter().flat_map(|gate| gate.polynomials().iter().map(|poly| poly.evaluate(..)))`. -/
def gateIds (e : Env) : List (IdClass × Nat) :=
  e.cs.gates.zipIdx.flatMap fun (g, gi) => g.zipIdx.map fun (poly, j) => (IdClass.gate gi j, evalQ e poly)

/-- `slice.chunks(m)`; `fuel` = length of the slice. -/
def chunksFuel {α : Type} (m : Nat) : Nat → List α → List (List α)
  | 0, _ => []
  | fuel + 1, l => if l.isEmpty then [] else l.take m :: chunksFuel m fuel (l.drop m)

def chunks {α : Type} (m : Nat) (l : List α) : List (List α) := chunksFuel m l.length l

/-- The `match column.column_type()` of `permutation.rs: expressions`:
`advice_evals[vk.cs.get_any_query_index(column, Rotation::cur())]` etc. -/
def colEval (e : Env) (c : ColKind × Nat) : Nat :=
  match c.1 with
  | .advice => e.advice.getD (queryIndex e.cs.adviceQueries c.2 0) 0
  | .fixed => e.fixed.getD (queryIndex e.cs.fixedQueries c.2 0) 0
  | .inst => e.inst.getD (queryIndex e.cs.instanceQueries c.2 0) 0

/-- `left` of the product rule: `z(ωx)·∏ (eval + β·permutation_eval + γ)` over
`columns.zip(permutation_evals)`. -/
def permLeft (e : Env) (beta gamma : Nat) (next : Nat) (cols : List (ColKind × Nat)) (pevals : List Nat) : Nat :=
  (cols.zip pevals).foldl (fun left cp =>
    fmul e.p left (fadd e.p (fadd e.p (colEval e cp.1) (fmul e.p beta cp.2)) gamma)) next

/-- `right` of the product rule: `z(x)·∏ (eval + current_delta + γ)`, `current_delta` starting at
`β·x·δ^(chunk_index·chunk_len)` and multiplied by `δ` after every column. -/
def permRight (f : Fld) (e : Env) (beta gamma x : Nat) (chunkIndex chunkLen : Nat) (cur : Nat)
    (cols : List (ColKind × Nat)) : Nat :=
  (cols.foldl (fun (st : Nat × Nat) c =>
    (fmul e.p st.1 (fadd e.p (fadd e.p (colEval e c) st.2) gamma), fmul e.p st.2 (f.delta % e.p)))
    (cur, fmul e.p (fmul e.p beta x) (powMod f.delta (chunkIndex * chunkLen) e.p))).1

/-- `permutation.rs: expressions`. -/
def permIds (f : Fld) (e : Env) (permCommon : List Nat) (sets : List PermSet) (L : Lagrange)
    (ch : Challenges) : List (IdClass × Nat) :=
  let p := e.p
  let chunkLen := e.cs.degree - 2
  -- sets.first(): l_0 * (1 - z_0)
  (sets.head?.map fun s => (IdClass.permFirst, fmul p L.l0 (fsub p 1 s.eval))).toList ++
  -- sets.last(): (z_l^2 - z_l) * l_last
  (sets.getLast?.map fun s => (IdClass.permLast, fmul p (fsub p (fmul p s.eval s.eval) s.eval) L.lLast)).toList ++
  -- sets.iter().skip(1).zip(sets.iter()): (z_s - z_{s-1}(ω^last x)) * l_0
  (((sets.drop 1).zip sets).zipIdx.map fun (sp, i) =>
    (IdClass.permChain (i + 1), fmul p (fsub p sp.1.eval (sp.2.last.getD 0)) L.l0)) ++
  -- sets.iter().zip(p.columns.chunks(chunk_len)).zip(common.permutation_evals.chunks(chunk_len)).enumerate()
  (((sets.zip (chunks chunkLen e.cs.permCols)).zip (chunks chunkLen permCommon)).zipIdx.map fun (scp, ci) =>
    let left := permLeft e ch.beta ch.gamma scp.1.1.next scp.1.2 scp.2
    let right := permRight f e ch.beta ch.gamma ch.x ci chunkLen scp.1.1.eval scp.1.2
    (IdClass.permProduct ci, fmul p (fsub p left right) (fsub p 1 (fadd p L.lLast L.lBlind))))

/-- `lookup.rs: Evaluated::expressions` for lookup number `li`. -/
def lookupIdsOne (e : Env) (L : Lagrange) (ch : Challenges) (li : Nat) (ev : LookupEvals)
    (arg : List Expr × List Expr) : List (IdClass × Nat) :=
  let p := e.p
  let active := fsub p 1 (fadd p L.lLast L.lBlind)
  let left := fmul p (fmul p ev.productNext (fadd p ev.permutedInput ch.beta)) (fadd p ev.permutedTable ch.gamma)
  let right := fmul p (fmul p ev.product (fadd p (compress e ch.theta arg.1) ch.beta))
    (fadd p (compress e ch.theta arg.2) ch.gamma)
  [ (IdClass.lookup li 1, fmul p L.l0 (fsub p 1 ev.product)),
    (IdClass.lookup li 2, fmul p L.lLast (fsub p (fmul p ev.product ev.product) ev.product)),
    (IdClass.lookup li 3, fmul p (fsub p left right) active),
    (IdClass.lookup li 4, fmul p L.l0 (fsub p ev.permutedInput ev.permutedTable)),
    (IdClass.lookup li 5, fmul p (fmul p (fsub p ev.permutedInput ev.permutedTable)
        (fsub p ev.permutedInput ev.permutedInputInv)) active) ]

/-- `lookups.iter().zip(vk.cs.lookups.iter()).flat_map(..)`. -/
def lookupIds (e : Env) (L : Lagrange) (ch : Challenges) (evs : List LookupEvals) : List (IdClass × Nat) :=
  (evs.zip e.cs.lookups).zipIdx.flatMap fun (ea, li) => lookupIdsOne e L ch li ea.1 ea.2

/-- `trash.rs: Evaluated::expressions`: `compressed − (1 − q)·trash_eval`. -/
def trashIdOne (e : Env) (ch : Challenges) (trashEval : Nat) (arg : Expr × List Expr) : Nat :=
  fsub e.p (compress e ch.trash arg.2) (fmul e.p (fsub e.p 1 (evalQ e arg.1)) trashEval)

/-- `trash.iter().zip(vk.cs.trashcans.iter()).flat_map(..)`. -/
def trashIds (e : Env) (ch : Challenges) (evs : List Nat) : List (IdClass × Nat) :=
  (evs.zip e.cs.trash).zipIdx.map fun (ea, ti) => (IdClass.trash ti, trashIdOne e ch ea.1 ea.2)

/-- The body of the `flat_map` over the proofs in `evaluate_identities`: custom gates, then the
permutation rules, then the lookups, then the trash arguments. -/
def proofIds (f : Fld) (cs : VCS) (com : CommonEvals) (L : Lagrange) (ch : Challenges)
    (ev : ProofEvals) : List (IdClass × Nat) :=
  let e : Env := { p := f.p, cs := cs, fixed := com.fixed, advice := ev.advice, inst := ev.inst, user := ch.user }
  gateIds e ++ permIds f e com.permCommon ev.permSets L ch ++ lookupIds e L ch ev.lookups ++
    trashIds e ch ev.trash

/-- All identity values, proof after proof. -/
def allIds (f : Fld) (cs : VCS) (com : CommonEvals) (L : Lagrange) (ch : Challenges)
    (proofs : List ProofEvals) : List (IdClass × Nat) :=
  proofs.flatMap (proofIds f cs com L ch)

/-- `expressions.fold(F::ZERO, |h_eval, v| h_eval * &y + &v)`. -/
def foldH (p y : Nat) (vs : List Nat) : Nat := vs.foldl (fun h v => fadd p (fmul p h y) v) 0

/-- `expected_h_eval = fold * (xn − 1)⁻¹`. -/
def expectedH (p y xn : Nat) (vs : List Nat) : Nat := fmul p (foldH p y vs) (invMod (fsub p xn 1) p)

/-- `x.pow_vartime([vk.n()])`. -/
def xnOf (p k x : Nat) : Nat := powMod x (2 ^ k) p

/-- Result of the model of `verify_algebraic_constraints` up to `expected_h_eval`. -/
structure Folded where
  ids : List (IdClass × Nat)
  xn : Nat
  lag : Lagrange
  h : Nat
deriving Repr, Inhabited

/-- The whole computation from challenges and read evaluations: `xn`, Lagrange values,
identity list, `expected_h_eval`. `proofs` must already contain the instance evaluations
(`instanceEvals`). -/
def verifyIds (f : Fld) (cs : VCS) (com : CommonEvals) (ch : Challenges) (proofs : List ProofEvals) : Folded :=
  let xn := xnOf f.p cs.k ch.x
  let L := lagrange f cs ch.x xn
  let ids := allIds f cs com L ch proofs
  { ids := ids, xn := xn, lag := L, h := expectedH f.p ch.y xn (ids.map (·.2)) }

end MidnightZK.C02.Ids
