import MidnightZK.Proofs.C15.Tree
import Mathlib.Data.String.Basic
/-!
Helper lemmas of C15 about
* the fixed-base scalar maps (`BTreeMap<String, F>` as a key-sorted association list): per-key
  specification of `entry().and_modify().or_insert()` and of `Msm::accumulate_with_r` for
  arbitrary key sets;
* the in-circuit `AssignedMsm` / `AssignedAccumulator` operations: equal to the off-circuit ones;
* the global schedule of `batch_verify`.
-/
namespace MidnightZK.C15
set_option linter.unusedSectionVars false

/-! ### Key-sorted association lists -/

section
variable {V : Type}

/-- The invariant of a `BTreeMap`: keys strictly increasing. -/
def KeySorted (l : List (String × V)) : Prop := l.Pairwise (fun a b => a.1 < b.1)

theorem bmGet_none_of_forall_lt (l : List (String × V)) (k : String) (h : ∀ kv ∈ l, k < kv.1) :
    bmGet l k = none := by
  induction l with
  | nil => rfl
  | cons kv t ih =>
    obtain ⟨k', v'⟩ := kv
    have hlt : k < k' := h (k', v') (by simp)
    unfold bmGet
    rw [if_neg (ne_of_lt hlt)]
    exact ih (fun x hx => h x (by simp [hx]))

theorem KeySorted.tail_lt {kv : String × V} {t : List (String × V)} (h : KeySorted (kv :: t)) :
    ∀ x ∈ t, kv.1 < x.1 := (List.pairwise_cons.mp h).1

theorem KeySorted.tail {kv : String × V} {t : List (String × V)} (h : KeySorted (kv :: t)) :
    KeySorted t := (List.pairwise_cons.mp h).2

theorem bmUpsert_key_mem (k : String) (v : V) (f : V → V) (l : List (String × V)) :
    ∀ kv ∈ bmUpsert k v f l, kv.1 = k ∨ kv.1 ∈ l.map (·.1) := by
  induction l with
  | nil => intro kv h; simp [bmUpsert] at h; simp [h]
  | cons hd t ih =>
    obtain ⟨k', v'⟩ := hd
    intro kv h
    unfold bmUpsert at h
    split at h
    · rcases List.mem_cons.mp h with h1 | h1
      · left; rw [h1]
      · right; exact List.mem_map_of_mem (f := (·.1)) h1
    · split at h
      · next heq =>
        rcases List.mem_cons.mp h with h1 | h1
        · left; rw [h1]
        · right; simp only [List.map_cons, List.mem_cons]; right
          exact List.mem_map_of_mem (f := (·.1)) h1
      · rcases List.mem_cons.mp h with h1 | h1
        · right; rw [h1]; simp
        · rcases ih kv h1 with h2 | h2
          · left; exact h2
          · right; simp only [List.map_cons, List.mem_cons]; right; exact h2

/-- `entry().and_modify().or_insert()` keeps the keys strictly increasing. -/
theorem KeySorted.upsert (k : String) (v : V) (f : V → V) (l : List (String × V))
    (h : KeySorted l) : KeySorted (bmUpsert k v f l) := by
  induction l with
  | nil => simp [bmUpsert, KeySorted]
  | cons hd t ih =>
    obtain ⟨k', v'⟩ := hd
    unfold bmUpsert
    split
    · next hlt =>
      refine List.pairwise_cons.mpr ⟨?_, h⟩
      intro x hx
      rcases List.mem_cons.mp hx with h1 | h1
      · rw [h1]; exact hlt
      · exact lt_trans hlt (h.tail_lt x h1)
    · split
      · next hnlt heq =>
        refine List.pairwise_cons.mpr ⟨?_, h.tail⟩
        intro x hx
        have := h.tail_lt x hx
        simpa [heq] using this
      · next hnlt hne =>
        have hgt : k' < k := lt_of_le_of_ne (not_lt.mp hnlt) (Ne.symm hne)
        refine List.pairwise_cons.mpr ⟨?_, ih h.tail⟩
        intro x hx
        rcases bmUpsert_key_mem k v f t x hx with h1 | h1
        · rw [h1]; exact hgt
        · obtain ⟨y, hy, hy1⟩ := List.mem_map.mp h1
          rw [← hy1]; exact h.tail_lt y hy

/-- Looking up the key just written. -/
theorem bmGet_upsert_self (k : String) (v : V) (f : V → V) (l : List (String × V))
    (h : KeySorted l) :
    bmGet (bmUpsert k v f l) k = some (match bmGet l k with | some x => f x | none => v) := by
  induction l with
  | nil => simp [bmUpsert, bmGet]
  | cons hd t ih =>
    obtain ⟨k', v'⟩ := hd
    unfold bmUpsert
    split
    · next hlt =>
      have hnone : bmGet ((k', v') :: t) k = none :=
        bmGet_none_of_forall_lt _ k (by
          intro x hx
          rcases List.mem_cons.mp hx with h1 | h1
          · rw [h1]; exact hlt
          · exact lt_trans hlt (h.tail_lt x h1))
      rw [hnone]
      simp [bmGet]
    · split
      · next hnlt heq => subst heq; simp [bmGet]
      · next hnlt hne =>
        show bmGet ((k', v') :: bmUpsert k v f t) k = _
        rw [bmGet, if_neg hne, ih h.tail, bmGet, if_neg hne]

/-- Looking up any other key. -/
theorem bmGet_upsert_other (k k2 : String) (v : V) (f : V → V) (l : List (String × V))
    (hne : k2 ≠ k) : bmGet (bmUpsert k v f l) k2 = bmGet l k2 := by
  induction l with
  | nil => simp [bmUpsert, bmGet, hne]
  | cons hd t ih =>
    obtain ⟨k', v'⟩ := hd
    unfold bmUpsert
    split
    · rw [bmGet, if_neg hne]
    · split
      · next hnlt heq => subst heq; simp [bmGet, hne]
      · next hnlt hne' =>
        show bmGet ((k', v') :: bmUpsert k v f t) k2 = _
        by_cases h2 : k2 = k'
        · simp [bmGet, h2]
        · rw [bmGet, if_neg h2, ih, bmGet, if_neg h2]

end

/-- What `accumulate_with_r` must leave under one name: `x + r·y`, `x`, `r·y`, or nothing. -/
def mergeVal {F : Type} [Add F] [Mul F] (r : F) : Option F → Option F → Option F
  | some x, some y => some (x + r * y)
  | some x, none => some x
  | none, some y => some (r * y)
  | none, none => none

section
variable {F G : Type} [Field F] [DecidableEq F] [AddCommGroup G] [Module F G]


theorem foldl_upsert_spec (r : F) (other : List (String × F)) (ho : KeySorted other) :
    ∀ (acc : List (String × F)), KeySorted acc →
      KeySorted (other.foldl (fun acc kv => bmUpsert kv.1 (r * kv.2) (· + r * kv.2) acc) acc) ∧
      ∀ k, bmGet (other.foldl (fun acc kv => bmUpsert kv.1 (r * kv.2) (· + r * kv.2) acc) acc) k
        = mergeVal r (bmGet acc k) (bmGet other k) := by
  induction other with
  | nil =>
    intro acc ha
    refine ⟨ha, fun k => ?_⟩
    cases h : bmGet acc k <;> simp [bmGet, mergeVal, h]
  | cons kv t ih =>
    obtain ⟨kb, vb⟩ := kv
    intro acc ha
    rw [List.foldl_cons]
    obtain ⟨h1, h2⟩ := ih ho.tail (bmUpsert kb (r * vb) (· + r * vb) acc) (ha.upsert _ _ _ _)
    refine ⟨h1, fun k => ?_⟩
    rw [h2 k]
    by_cases hk : k = kb
    · subst hk
      have hnone : bmGet t k = none := bmGet_none_of_forall_lt t k (ho.tail_lt)
      rw [bmGet_upsert_self _ _ _ _ ha, hnone]
      cases h : bmGet acc k <;> simp [bmGet, mergeVal, h]
    · rw [bmGet_upsert_other _ _ _ _ _ hk]
      simp only [bmGet, if_neg hk]

/-! ### In-circuit operations equal the off-circuit ones -/

/-- `AssignedMsm::accumulate_with_r` (scale `other`, then `add_msm`) produces, value for value,
what the off-circuit `Msm::accumulate_with_r` produces. -/
theorem Msm.aAccumulateWithR_eq (a b : Msm F G) (r : F) :
    a.aAccumulateWithR b r = a.accumulateWithR b r := by
  unfold Msm.aAccumulateWithR Msm.aAddMsm Msm.aScale Msm.accumulateWithR
  simp only [List.foldl_map]
  congr 1
  congr 1
  funext acc kv
  rw [mul_comm]

theorem aAccumulateLoop_eq (r : F) (rest : List (Accumulator F G)) :
    ∀ (i : Nat) (acc : Accumulator F G),
      aAccumulateLoop acc (rest.zip (aPowers.go r (fpow r i) rest.length))
        = accumulateLoop r i acc rest := by
  induction rest with
  | nil => intro i acc; rfl
  | cons o t ih =>
    intro i acc
    simp only [List.length_cons, aPowers.go, List.zip_cons_cons, aAccumulateLoop, accumulateLoop,
      Msm.aAccumulateWithR_eq]
    exact ih (i + 1) _

/-- `AssignedAccumulator::accumulate` computes the same accumulator as the off-circuit
`Accumulator::accumulate` (same sponge input, same powers `1, r, r², …`, same order). -/
theorem Accumulator.aAccumulate_eq (hash : List F → F) (enc : G → List F)
    (accs : List (Accumulator F G)) :
    Accumulator.aAccumulate hash enc accs = Accumulator.accumulate hash enc accs := by
  cases accs with
  | nil => rfl
  | cons a rest =>
    simp only [Accumulator.aAccumulate, Accumulator.accumulate, aPowers, List.length_cons,
      Nat.add_sub_cancel, List.drop_succ_cons, List.drop_zero]
    have h := aAccumulateLoop_eq (hash (accumulateHashInput enc (a :: rest))) rest 1 a
    have h1 : fpow (hash (accumulateHashInput enc (a :: rest))) 1
        = hash (accumulateHashInput enc (a :: rest)) := by simp [fpow]
    rw [h1] at h
    rw [h]

/-- `powers(x, n)` is `[x⁰, …, x^{n−1}]` (one entry for `n = 0`). -/
theorem aPowers_go_eq (x : F) (k i : Nat) :
    aPowers.go x (x ^ i) k = (List.range k).map (fun j => x ^ (i + j)) := by
  induction k generalizing i with
  | zero => rfl
  | succ k ih =>
    rw [aPowers.go, ← pow_succ, ih (i + 1), List.range_succ_eq_map, List.map_cons, List.map_map]
    simp only [Nat.add_zero, List.cons.injEq, true_and]
    apply List.map_congr_left
    intro j _
    simp only [Function.comp]
    congr 1
    omega

end

/-! ### `from_dual_msm`: what is filed under each name -/

/-- The name `process_msm` files a term under (`none`: the term stays a variable term). -/
def labelName (pfx : String) : Label → Option String
  | .fixed i => some (fixedCommitmentName pfx i)
  | .perm i => some (permCommitmentName pfx i)
  | .custom s => if s = minusGName then some minusGName else none
  | _ => none

section
variable {F G : Type} [Field F] [DecidableEq F] [AddCommGroup G] [Module F G]

/-- The scalars of the terms filed under `name`, in order. -/
def nameScalars (pfx : String) (m : MsmKzg F G) (name : String) : List F :=
  (m.filter (fun t => labelName pfx t.label = some name)).map (·.scalar)

/-- The variable terms that remain. -/
def varTerms (pfx : String) (m : MsmKzg F G) : List (F × G) :=
  (m.filter (fun t => labelName pfx t.label = none)).map (fun t => (t.scalar, t.base))

/-- `*entry(name).or_insert(ZERO) += s` for each scalar in turn. -/
def addScalars (x : Option F) (ss : List F) : Option F :=
  ss.foldl (fun acc s => some (acc.getD 0 + s)) x

theorem addScalars_some (y : F) (ss : List F) : addScalars (some y) ss = some (y + ss.sum) := by
  induction ss generalizing y with
  | nil => simp [addScalars]
  | cons s t ih =>
    have : addScalars (some y) (s :: t) = addScalars (some (y + s)) t := by simp [addScalars]
    rw [this, ih, List.sum_cons, add_assoc]

theorem addScalars_none (ss : List F) :
    addScalars none ss = if ss = [] then none else some ss.sum := by
  cases ss with
  | nil => simp [addScalars]
  | cons s t =>
    have : addScalars none (s :: t) = addScalars (some (0 + s)) t := by simp [addScalars]
    rw [this, addScalars_some]
    simp

theorem processTerm_cases [DecidableEq G] (pfx : String) (fb : List (String × G)) (st st1 : ProcSt F G)
    (t : Term F G) (hp : processTerm pfx fb st t = some st1) :
    (labelName pfx t.label = none ∧ st1.fixed = st.fixed ∧
        st1.terms = st.terms ++ [(t.scalar, t.base)]) ∨
    (∃ name, labelName pfx t.label = some name ∧ st1.terms = st.terms ∧
        st1.fixed = bmUpsert name (0 + t.scalar) (· + t.scalar) st.fixed) := by
  unfold processTerm at hp
  cases hl : t.label with
  | fixed i =>
    simp only [hl] at hp
    right
    split at hp
    · exact ⟨_, rfl, by rw [← Option.some.inj hp], by rw [← Option.some.inj hp]⟩
    · simp at hp
  | perm i =>
    simp only [hl] at hp
    right
    split at hp
    · exact ⟨_, rfl, by rw [← Option.some.inj hp], by rw [← Option.some.inj hp]⟩
    · simp at hp
  | custom s =>
    simp only [hl] at hp
    by_cases hs : s = minusGName
    · simp only [hs, if_true] at hp
      right
      split at hp
      · exact ⟨minusGName, by simp [labelName, hs], by rw [← Option.some.inj hp],
          by rw [← Option.some.inj hp]⟩
      · simp at hp
    · simp only [hs, if_false] at hp
      left
      exact ⟨by simp [labelName, hs], by rw [← Option.some.inj hp], by rw [← Option.some.inj hp]⟩
  | advice i =>
    simp only [hl] at hp; left
    exact ⟨rfl, by rw [← Option.some.inj hp], by rw [← Option.some.inj hp]⟩
  | inst i =>
    simp only [hl] at hp; left
    exact ⟨rfl, by rw [← Option.some.inj hp], by rw [← Option.some.inj hp]⟩
  | noLabel =>
    simp only [hl] at hp; left
    exact ⟨rfl, by rw [← Option.some.inj hp], by rw [← Option.some.inj hp]⟩

/-- Per-name specification of `process_msm`. -/
theorem processMsm_names [DecidableEq G] (pfx : String) (fb : List (String × G)) (m : MsmKzg F G) :
    ∀ (st st' : ProcSt F G), processMsm pfx fb m st = some st' → KeySorted st.fixed →
      KeySorted st'.fixed ∧ st'.terms = st.terms ++ varTerms pfx m ∧
      ∀ name, bmGet st'.fixed name = addScalars (bmGet st.fixed name) (nameScalars pfx m name) := by
  induction m with
  | nil =>
    intro st st' h hs
    simp only [processMsm] at h
    cases h
    exact ⟨hs, by simp [varTerms], fun _ => by simp [nameScalars, addScalars]⟩
  | cons t rest ih =>
    intro st st' h hs
    simp only [processMsm] at h
    cases hp : processTerm pfx fb st t with
    | none => simp [hp] at h
    | some st1 =>
      rw [hp] at h
      rcases processTerm_cases pfx fb st st1 t hp with ⟨hn, hf, ht⟩ | ⟨name, hn, ht, hf⟩
      · obtain ⟨h1, h2, h3⟩ := ih st1 st' h (by rw [hf]; exact hs)
        refine ⟨h1, ?_, fun k => ?_⟩
        · rw [h2, ht]; simp [varTerms, List.filter_cons, hn]
        · rw [h3 k, hf]; simp [nameScalars, List.filter_cons, hn]
      · obtain ⟨h1, h2, h3⟩ := ih st1 st' h (by rw [hf]; exact hs.upsert _ _ _ _)
        refine ⟨h1, ?_, fun k => ?_⟩
        · rw [h2, ht]; simp [varTerms, List.filter_cons, hn]
        · rw [h3 k, hf]
          by_cases hk : k = name
          · subst hk
            rw [bmGet_upsert_self _ _ _ _ hs]
            have : nameScalars pfx (t :: rest) k = t.scalar :: nameScalars pfx rest k := by
              simp [nameScalars, List.filter_cons, hn]
            rw [this]
            cases hg : bmGet st.fixed k <;> simp [addScalars]
          · rw [bmGet_upsert_other _ _ _ _ _ hk]
            have : nameScalars pfx (t :: rest) k = nameScalars pfx rest k := by
              have : ¬ (some name = some k) := by
                intro he; exact hk (Option.some.inj he).symm
              simp [nameScalars, List.filter_cons, hn, this]
            rw [this]

end

/-! ### Global schedule of `batch_verify` -/

/-- Everything member `i` causes, in order: `init` of its transcript, the operations of
`prepare` (key representation, instances, proof elements, challenges), the squeeze of its summary
challenge, and the absorption of that summary into the batching transcript. -/
def memberBlock (i : Nat) (m : MemberTrace) : List GEvent :=
  (⟨i, 0, 0⟩ :: m.trace.map (fun kl => (⟨i, kl.1, kl.2⟩ : GEvent)))
    ++ [⟨i, 2, 0⟩, ⟨0, 1, summaryBytes⟩]

theorem globalSchedule_go_through (ms : List MemberTrace) (h : ∀ m ∈ ms, 3 ≤ m.stage) :
    ∀ i, ∃ l, globalSchedule.go i ms = l ++ [⟨0, 2, 0⟩] ∧
      (∀ j (hj : j < ms.length), memberBlock (i + j) ms[j] <:+: l) ∧
      (1 ≤ i → l.filter (fun e => e.who = 0) = List.replicate ms.length ⟨0, 1, summaryBytes⟩) := by
  induction ms with
  | nil => intro i; exact ⟨[], rfl, fun j hj => by simp at hj, fun _ => rfl⟩
  | cons m rest ih =>
    intro i
    obtain ⟨l', hl', hblocks, hfilter⟩ := ih (fun x hx => h x (by simp [hx])) (i + 1)
    have hs := h m (by simp)
    refine ⟨memberBlock i m ++ l', ?_, ?_, ?_⟩
    · unfold globalSchedule.go
      have h0 : ¬ m.stage = 0 := by omega
      have h1 : ¬ m.stage = 1 := by omega
      have h2 : ¬ m.stage = 2 := by omega
      simp only [h0, h1, h2, if_false, hl', memberBlock, List.append_assoc, List.cons_append]
    · intro j hj
      cases j with
      | zero => exact ⟨[], l', by simp⟩
      | succ j =>
        have hj' : j < rest.length := by simpa using hj
        obtain ⟨u, v, huv⟩ := hblocks j hj'
        refine ⟨memberBlock i m ++ u, v, ?_⟩
        have : i + (j + 1) = i + 1 + j := by omega
        simp only [List.getElem_cons_succ, this, List.append_assoc] at huv ⊢
        rw [huv]
    · intro hi
      have hne : ¬ i = 0 := by omega
      rw [List.filter_append, hfilter (by omega)]
      have hown : (memberBlock i m).filter (fun e => e.who = 0) = [⟨0, 1, summaryBytes⟩] := by
        simp only [memberBlock, List.filter_append, List.filter_cons, List.filter_nil]
        have : (m.trace.map (fun kl => (⟨i, kl.1, kl.2⟩ : GEvent))).filter (fun e => e.who = 0)
            = [] := by
          rw [List.filter_eq_nil_iff]
          intro e he
          obtain ⟨kl, _, rfl⟩ := List.mem_map.mp he
          simp [hne]
        simp [this, hne]
      rw [hown, List.length_cons, List.replicate_succ]
      rfl

end MidnightZK.C15
