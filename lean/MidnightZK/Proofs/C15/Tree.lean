import MidnightZK.Proofs.C15.Accumulator
import MidnightZK.Model.C15.Tree
/-!
Helper lemmas for the operation-tree theorems of C15: a tree of `DualMSM::scale` / `add_msm`
calls has the defect `Σ cᵢ • δᵢ` (leaf defects weighted by the product of the scale factors above
each leaf); when every factor is one challenge `r` this is `Σ r^{kᵢ} • δᵢ`, which — for pairwise
distinct exponents — vanishes at no more than `max kᵢ` challenges unless every `δᵢ` is zero.
-/
namespace MidnightZK.C15
set_option linter.unusedSectionVars false

section
variable {F G : Type} [Field F] [DecidableEq F] [AddCommGroup G] [Module F G]

/-- `Σ cᵢ • δ(leafᵢ)`. -/
def leafSum (τ : F) (l : List (F × DualMsm F G)) : G :=
  (l.map (fun cd => cd.1 • defect τ cd.2)).sum

theorem leafSum_append (τ : F) (l l' : List (F × DualMsm F G)) :
    leafSum τ (l ++ l') = leafSum τ l + leafSum τ l' := by
  simp [leafSum, List.sum_append]

theorem leafSum_scale (τ e : F) (l : List (F × DualMsm F G)) :
    leafSum τ (l.map (fun cd => (cd.1 * e, cd.2))) = e • leafSum τ l := by
  induction l with
  | nil => simp [leafSum]
  | cons cd t ih =>
    simp only [leafSum, List.map_cons, List.sum_cons, smul_add] at ih ⊢
    rw [ih, mul_comm, mul_smul]

/-- The defect of the guard a tree of calls produces. -/
theorem guardTree_defect (τ : F) (t : GuardTree F G) : defect τ t.run = leafSum τ t.leaves := by
  induction t with
  | leaf d => simp [GuardTree.run, GuardTree.leaves, leafSum]
  | scale t e ih => rw [GuardTree.run, GuardTree.leaves, defect_scale, ih, leafSum_scale]
  | add t o ih1 ih2 => rw [GuardTree.run, GuardTree.leaves, defect_addMsm, ih1, ih2, leafSum_append]

theorem MsmKzg.scale_one (m : MsmKzg F G) : m.scale 1 = m := by
  induction m with
  | nil => rfl
  | cons t m ih =>
    have : MsmKzg.scale (t :: m) 1 = { t with scalar := t.scalar * 1 } :: MsmKzg.scale m 1 := rfl
    rw [this, ih, mul_one]

theorem MsmKzg.scale_scale (m : MsmKzg F G) (a b : F) : (m.scale a).scale b = m.scale (a * b) := by
  induction m with
  | nil => rfl
  | cons t m ih =>
    have h1 : MsmKzg.scale (t :: m) a = { t with scalar := t.scalar * a } :: MsmKzg.scale m a := rfl
    have h2 : MsmKzg.scale (t :: m) (a * b)
        = { t with scalar := t.scalar * (a * b) } :: MsmKzg.scale m (a * b) := rfl
    rw [h1, h2, ← ih]
    show { t with scalar := t.scalar * a * b } :: (MsmKzg.scale m a).scale b = _
    rw [mul_assoc]

theorem MsmKzg.scale_append (m o : MsmKzg F G) (e : F) :
    MsmKzg.scale (m ++ o) e = m.scale e ++ o.scale e := by
  simp [MsmKzg.scale]

/-- The terms of one channel of the guard a tree produces: the leaves' channels, each scaled by
its coefficient, in leaf order. -/
def chanOf (side : DualMsm F G → MsmKzg F G) (l : List (F × DualMsm F G)) : MsmKzg F G :=
  l.flatMap (fun cd => (side cd.2).scale cd.1)

theorem chanOf_scale (side : DualMsm F G → MsmKzg F G) (e : F) (l : List (F × DualMsm F G)) :
    chanOf side (l.map (fun cd => (cd.1 * e, cd.2))) = MsmKzg.scale (chanOf side l) e := by
  induction l with
  | nil => rfl
  | cons cd t ih =>
    simp only [chanOf, List.map_cons, List.flatMap_cons] at ih ⊢
    rw [ih, MsmKzg.scale_append, MsmKzg.scale_scale]

theorem guardTree_struct (t : GuardTree F G) :
    t.run.left = chanOf (·.left) t.leaves ∧ t.run.right = chanOf (·.right) t.leaves := by
  induction t with
  | leaf d => simp [GuardTree.run, GuardTree.leaves, chanOf, MsmKzg.scale_one]
  | scale t e ih =>
    simp only [GuardTree.run, GuardTree.leaves, DualMsm.scale, chanOf_scale, ih.1, ih.2, and_self]
  | add t o ih1 ih2 =>
    simp only [GuardTree.run, GuardTree.leaves, DualMsm.addMsm, MsmKzg.addMsm, ih1.1, ih1.2,
      ih2.1, ih2.2, chanOf, List.flatMap_append, and_self]

/-! ### One challenge: `Σ r^k • δ` -/

/-- `Σ r^{kᵢ} • dᵢ`. -/
def powCombo (r : F) (l : List (Nat × G)) : G := (l.map (fun kd => r ^ kd.1 • kd.2)).sum

theorem powCombo_append (r : F) (l l' : List (Nat × G)) :
    powCombo r (l ++ l') = powCombo r l + powCombo r l' := by
  simp [powCombo, List.sum_append]

theorem powCombo_succ (r : F) (l : List (Nat × G)) :
    powCombo r (l.map (fun kd => (kd.1 + 1, kd.2))) = r • powCombo r l := by
  induction l with
  | nil => simp [powCombo]
  | cons kd t ih =>
    simp only [powCombo, List.map_cons, List.sum_cons, smul_add] at ih ⊢
    rw [ih, pow_succ, mul_comm, mul_smul]

/-- The exponent/defect pairs of a tree. -/
def expDefects (τ : F) (t : GuardTree F G) : List (Nat × G) :=
  t.expLeaves.map (fun kd => (kd.1, defect τ kd.2))

theorem guardTree_defect_uniform (τ r : F) (t : GuardTree F G) (h : t.AllScales r) :
    defect τ t.run = powCombo r (expDefects τ t) := by
  induction t with
  | leaf d => simp [GuardTree.run, expDefects, GuardTree.expLeaves, powCombo]
  | scale t e ih =>
    obtain ⟨he, ht⟩ := h
    rw [GuardTree.run, defect_scale, ih ht, he]
    simp only [expDefects, GuardTree.expLeaves, List.map_map]
    rw [← powCombo_succ, List.map_map]
    rfl
  | add t o ih1 ih2 =>
    rw [GuardTree.run, defect_addMsm, ih1 h.1, ih2 h.2]
    simp only [expDefects, GuardTree.expLeaves, List.map_append, powCombo_append]

theorem withScale_allScales (r : F) (t : GuardTree F G) : (t.withScale r).AllScales r := by
  induction t with
  | leaf d => trivial
  | scale t e ih => exact ⟨rfl, ih⟩
  | add t o ih1 ih2 => exact ⟨ih1, ih2⟩

theorem withScale_expLeaves (r : F) (t : GuardTree F G) :
    (t.withScale r).expLeaves = t.expLeaves := by
  induction t with
  | leaf d => rfl
  | scale t e ih => simp [GuardTree.withScale, GuardTree.expLeaves, ih]
  | add t o ih1 ih2 => simp [GuardTree.withScale, GuardTree.expLeaves, ih1, ih2]

open Polynomial in
/-- `Σ ψ(dᵢ) X^{kᵢ}`. -/
noncomputable def expPoly (ψ : G →ₗ[F] F) (l : List (Nat × G)) : F[X] :=
  (l.map (fun kd => monomial kd.1 (ψ kd.2))).sum

open Polynomial in
theorem expPoly_eval (ψ : G →ₗ[F] F) (l : List (Nat × G)) (r : F) :
    (expPoly ψ l).eval r = ψ (powCombo r l) := by
  induction l with
  | nil => simp [expPoly, powCombo]
  | cons kd t ih =>
    simp only [expPoly, powCombo, List.map_cons, List.sum_cons, eval_add, eval_monomial, map_add,
      map_smul, smul_eq_mul] at ih ⊢
    rw [ih, mul_comm]

open Polynomial in
theorem expPoly_coeff_notin (ψ : G →ₗ[F] F) (l : List (Nat × G)) (N : Nat)
    (h : N ∉ l.map (·.1)) : (expPoly ψ l).coeff N = 0 := by
  induction l with
  | nil => simp [expPoly]
  | cons kd t ih =>
    simp only [List.map_cons, List.mem_cons, not_or] at h
    simp only [expPoly, List.map_cons, List.sum_cons, coeff_add, coeff_monomial] at ih ⊢
    rw [ih h.2, if_neg (Ne.symm h.1), add_zero]

open Polynomial in
theorem expPoly_coeff_mem (ψ : G →ₗ[F] F) (l : List (Nat × G)) (hnd : (l.map (·.1)).Nodup)
    (k : Nat) (d : G) (hm : (k, d) ∈ l) : (expPoly ψ l).coeff k = ψ d := by
  induction l with
  | nil => simp at hm
  | cons kd t ih =>
    simp only [List.map_cons, List.nodup_cons] at hnd
    have hsplit : expPoly ψ (kd :: t) = monomial kd.1 (ψ kd.2) + expPoly ψ t := by
      simp [expPoly]
    rw [hsplit, coeff_add, coeff_monomial]
    rcases List.mem_cons.mp hm with h1 | h1
    · rw [← h1]
      simp only [if_true]
      rw [expPoly_coeff_notin ψ t k (by rw [← h1] at hnd; exact hnd.1), add_zero]
    · have hne : kd.1 ≠ k := by
        intro he
        apply hnd.1
        rw [he]
        exact List.mem_map.mpr ⟨(k, d), h1, rfl⟩
      rw [if_neg hne, zero_add, ih hnd.2 h1]

open Polynomial in
/-- **Distinct powers suffice**: if the exponents are pairwise distinct, all `≤ D`, and some
`dᵢ ≠ 0`, then `Σ r^{kᵢ} • dᵢ` vanishes for at most `D` values of `r`. -/
theorem powCombo_bad_set (l : List (Nat × G)) (hnd : (l.map (·.1)).Nodup) (D : Nat)
    (hD : ∀ kd ∈ l, kd.1 ≤ D) (h : ∃ kd ∈ l, kd.2 ≠ 0) :
    ∃ bad : Finset F, bad.card ≤ D ∧ ∀ r, powCombo r l = 0 → r ∈ bad := by
  classical
  obtain ⟨⟨k, d⟩, hm, hne⟩ := h
  obtain ⟨ψ, hψ⟩ := exists_functional_ne_zero (F := F) d hne
  have hp : expPoly ψ l ≠ 0 := by
    intro hz
    have := expPoly_coeff_mem ψ l hnd k d hm
    rw [hz, coeff_zero] at this
    exact hψ this.symm
  have hdeg : (expPoly ψ l).natDegree ≤ D := by
    rw [natDegree_le_iff_coeff_eq_zero]
    intro N hN
    apply expPoly_coeff_notin
    intro hmem
    obtain ⟨kd, hkd, hk⟩ := List.mem_map.mp hmem
    have := hD kd hkd
    omega
  refine ⟨(expPoly ψ l).roots.toFinset, ?_, ?_⟩
  · calc (expPoly ψ l).roots.toFinset.card ≤ Multiset.card (expPoly ψ l).roots :=
          Multiset.toFinset_card_le _
      _ ≤ (expPoly ψ l).natDegree := card_roots' _
      _ ≤ D := hdeg
  · intro r hr
    rw [Multiset.mem_toFinset, mem_roots hp, IsRoot.def, expPoly_eval, hr, map_zero]

theorem powCombo_zero_of_all_zero (r : F) (l : List (Nat × G)) (h : ∀ kd ∈ l, kd.2 = 0) :
    powCombo r l = 0 := by
  induction l with
  | nil => rfl
  | cons kd t ih =>
    simp only [powCombo, List.map_cons, List.sum_cons] at ih ⊢
    rw [h kd (by simp), smul_zero, zero_add]
    exact ih (fun x hx => h x (by simp [hx]))

/-- **Distinct powers are necessary**: two positions with the SAME exponent carrying opposite
defects cancel at every challenge. -/
theorem powCombo_repeated_cancels (r : F) (k : Nat) (d : G) (l1 l2 l3 : List (Nat × G))
    (h1 : ∀ kd ∈ l1, kd.2 = 0) (h2 : ∀ kd ∈ l2, kd.2 = 0) (h3 : ∀ kd ∈ l3, kd.2 = 0) :
    powCombo r (l1 ++ (k, d) :: l2 ++ (k, -d) :: l3) = 0 := by
  rw [powCombo_append, powCombo_append]
  have e1 : powCombo r ((k, d) :: l2) = r ^ k • d + powCombo r l2 := by simp [powCombo]
  have e2 : powCombo r ((k, -d) :: l3) = r ^ k • (-d) + powCombo r l3 := by simp [powCombo]
  rw [e1, e2, powCombo_zero_of_all_zero r l1 h1, powCombo_zero_of_all_zero r l2 h2,
    powCombo_zero_of_all_zero r l3 h3, smul_neg]
  abel

/-! ### The loop of `batch_verify` as a tree -/

theorem foldl_tree_run (r : F) (gs : List (DualMsm F G)) (t0 : GuardTree F G) :
    (gs.foldl (fun t g => GuardTree.add (.scale t r) (.leaf g)) t0).run
      = gs.foldl (fun acc g => (acc.scale r).addMsm g) t0.run := by
  induction gs generalizing t0 with
  | nil => rfl
  | cons g t ih => rw [List.foldl_cons, List.foldl_cons, ih]; rfl

theorem foldl_tree_allScales (r : F) (gs : List (DualMsm F G)) (t0 : GuardTree F G)
    (h : t0.AllScales r) :
    (gs.foldl (fun t g => GuardTree.add (.scale t r) (.leaf g)) t0).AllScales r := by
  induction gs generalizing t0 with
  | nil => exact h
  | cons g t ih => rw [List.foldl_cons]; exact ih _ ⟨⟨rfl, h⟩, trivial⟩

theorem foldl_tree_expLeaves (r : F) (gs : List (DualMsm F G)) (t0 : GuardTree F G) :
    (gs.foldl (fun t g => GuardTree.add (.scale t r) (.leaf g)) t0).expLeaves
      = t0.expLeaves.map (fun kd => (kd.1 + gs.length, kd.2))
        ++ (List.range gs.length).reverse.zip gs := by
  induction gs generalizing t0 with
  | nil => simp
  | cons g t ih =>
    rw [List.foldl_cons, ih]
    simp only [GuardTree.expLeaves, List.map_append, List.map_map, List.map_cons, List.map_nil,
      List.length_cons, List.append_assoc]
    congr 1
    · apply List.map_congr_left
      intro kd _
      simp only [Function.comp]
      congr 1
      omega
    · rw [List.range_succ, List.reverse_append]
      simp

end

end MidnightZK.C15
