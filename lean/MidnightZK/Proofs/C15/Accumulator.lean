import MidnightZK.Proofs.C15.Batch
import MidnightZK.Model.C15.Accumulator
/-!
Helper lemmas for the accumulator theorems of C15: the value of an off-circuit `Msm` under a
map of fixed bases, its behaviour under `accumulate_with_r`, `collapse`, `from_dual_msm`, and the
polynomial form of `Accumulator::accumulate`.
-/
namespace MidnightZK.C15
set_option linter.unusedSectionVars false

section
variable {F G : Type} [Field F] [DecidableEq F] [AddCommGroup G] [Module F G]

/-- The base a name stands for (`0` if absent; absence is tracked separately by `Defined`). -/
def fbVal (fb : List (String × G)) (k : String) : G := (bmGet fb k).getD 0

/-- `Σ s • fixed_bases[k]` over a map of fixed-base scalars. -/
def fixedSum (fb : List (String × G)) (l : List (String × F)) : G :=
  (l.map (fun kv => kv.2 • fbVal fb kv.1)).sum

/-- Every name of the map of scalars is present in the map of bases. -/
def Defined (fb : List (String × G)) (l : List (String × F)) : Prop :=
  ∀ kv ∈ l, (bmGet fb kv.1).isSome = true

/-- The point an `Msm` stands for under the fixed bases `fb`. -/
def Msm.value (fb : List (String × G)) (m : Msm F G) : G := msmSum m.terms + fixedSum fb m.fixed

theorem fixedTerms_some (fb : List (String × G)) (l : List (String × F)) (h : Defined fb l) :
    ∃ ft, fixedTerms fb l = some ft ∧ msmSum ft = fixedSum fb l := by
  induction l with
  | nil => exact ⟨[], rfl, rfl⟩
  | cons kv t ih =>
    obtain ⟨k, s⟩ := kv
    have hk : (bmGet fb k).isSome = true := h (k, s) (by simp)
    obtain ⟨b, hb⟩ := Option.isSome_iff_exists.mp hk
    obtain ⟨ft, hft, hsum⟩ := ih (fun kv hkv => h kv (by simp [hkv]))
    refine ⟨(s, b) :: ft, ?_, ?_⟩
    · simp [fixedTerms, hb, hft]
    · simp [msmSum_cons, hsum, fixedSum, fbVal, hb]

theorem fixedTerms_none (fb : List (String × G)) (l : List (String × F)) (h : ¬ Defined fb l) :
    fixedTerms fb l = none := by
  induction l with
  | nil => exact absurd (fun _ h => by simp at h) h
  | cons kv t ih =>
    obtain ⟨k, s⟩ := kv
    unfold fixedTerms
    cases hb : bmGet fb k with
    | none => simp
    | some b =>
      have : ¬ Defined fb t := by
        intro ht
        apply h
        intro kv hkv
        rcases List.mem_cons.mp hkv with h1 | h1
        · subst h1; simp [hb]
        · exact ht kv h1
      simp [ih this]

/-- `Msm::eval` returns the value when every name is provided, and panics otherwise. -/
theorem Msm.eval_of_defined (fb : List (String × G)) (m : Msm F G) (h : Defined fb m.fixed) :
    m.eval fb = some (m.value fb) := by
  obtain ⟨ft, hft, hsum⟩ := fixedTerms_some fb m.fixed h
  simp [Msm.eval, hft, msmSum_append, hsum, Msm.value]

theorem Msm.eval_of_not_defined (fb : List (String × G)) (m : Msm F G)
    (h : ¬ Defined fb m.fixed) : m.eval fb = none := by
  simp [Msm.eval, fixedTerms_none fb m.fixed h]

theorem Msm.eval_eq_some (fb : List (String × G)) (m : Msm F G) (g : G)
    (h : m.eval fb = some g) : Defined fb m.fixed ∧ g = m.value fb := by
  by_cases hd : Defined fb m.fixed
  · rw [Msm.eval_of_defined fb m hd] at h
    exact ⟨hd, (Option.some.inj h).symm⟩
  · rw [Msm.eval_of_not_defined fb m hd] at h
    exact absurd h (by simp)

/-- `Msm::collapse` does not change what `eval` returns, for any map of fixed bases. -/
theorem Msm.collapse_eval (fb : List (String × G)) (m : Msm F G) :
    m.collapse.eval fb = m.eval fb := by
  unfold Msm.eval Msm.collapse
  simp only []
  cases fixedTerms fb m.fixed with
  | none => rfl
  | some ft => simp [msmSum_append, msmSum_cons, msmSum_nil]

/-! ### `entry().and_modify().or_insert()` and `insert` on the sorted association list -/

theorem bmUpsert_keys (k : String) (v : F) (f : F → F) (l : List (String × F)) :
    ∀ kv ∈ bmUpsert k v f l, kv.1 = k ∨ kv.1 ∈ l.map (·.1) := by
  induction l with
  | nil => intro kv h; simp [bmUpsert] at h; simp [h]
  | cons hd t ih =>
    obtain ⟨k', v'⟩ := hd
    intro kv h
    unfold bmUpsert at h
    split at h
    · rcases List.mem_cons.mp h with h1 | h1
      · left; rw [h1]
      · right; exact List.mem_map_of_mem (f := (·.1)) h1
    · split at h
      · next heq =>
        rcases List.mem_cons.mp h with h1 | h1
        · left; rw [h1]
        · right; simp only [List.map_cons, List.mem_cons]; right; exact List.mem_map_of_mem (f := (·.1)) h1
      · rcases List.mem_cons.mp h with h1 | h1
        · right; rw [h1]; simp
        · rcases ih kv h1 with h2 | h2
          · left; exact h2
          · right; simp only [List.map_cons, List.mem_cons]; right; exact h2

theorem fixedSum_bmUpsert (fb : List (String × G)) (k : String) (v : F) (l : List (String × F)) :
    fixedSum fb (bmUpsert k v (· + v) l) = fixedSum fb l + v • fbVal fb k := by
  induction l with
  | nil => simp [bmUpsert, fixedSum]
  | cons hd t ih =>
    obtain ⟨k', v'⟩ := hd
    unfold bmUpsert
    split
    · simp [fixedSum]; abel
    · split
      · next heq => subst heq; simp [fixedSum, add_smul]; abel
      · have := ih
        simp only [fixedSum, List.map_cons, List.sum_cons] at this ⊢
        rw [this]; abel

theorem fixedSum_foldl_upsert (fb : List (String × G)) (r : F) (other acc : List (String × F)) :
    fixedSum fb (other.foldl (fun acc kv => bmUpsert kv.1 (r * kv.2) (· + r * kv.2) acc) acc)
      = fixedSum fb acc + r • fixedSum fb other := by
  induction other generalizing acc with
  | nil => simp [fixedSum]
  | cons kv t ih =>
    rw [List.foldl_cons, ih, fixedSum_bmUpsert]
    simp only [fixedSum, List.map_cons, List.sum_cons, smul_add, mul_smul]
    abel

theorem defined_foldl_upsert (fb : List (String × G)) (r : F) (other acc : List (String × F))
    (ha : Defined fb acc) (ho : Defined fb other) :
    Defined fb (other.foldl (fun acc kv => bmUpsert kv.1 (r * kv.2) (· + r * kv.2) acc) acc) := by
  induction other generalizing acc with
  | nil => simpa using ha
  | cons kv t ih =>
    rw [List.foldl_cons]
    apply ih
    · intro x hx
      rcases bmUpsert_keys _ _ _ _ x hx with h1 | h1
      · rw [h1]; exact ho kv (by simp)
      · obtain ⟨y, hy, hy1⟩ := List.mem_map.mp h1
        rw [← hy1]; exact ha y hy
    · intro x hx; exact ho x (by simp [hx])

/-- `Msm::accumulate_with_r`: the value is `self + r • other`. -/
theorem Msm.value_accumulateWithR (fb : List (String × G)) (a b : Msm F G) (r : F) :
    (a.accumulateWithR b r).value fb = a.value fb + r • b.value fb := by
  unfold Msm.value Msm.accumulateWithR
  simp only [msmSum_append, fixedSum_foldl_upsert, smul_add]
  have : msmSum (b.terms.map (fun t => (t.1 * r, t.2))) = r • msmSum b.terms := by
    induction b.terms with
    | nil => simp [msmSum]
    | cons t l ih => rw [List.map_cons, msmSum_cons, msmSum_cons, ih, smul_add, mul_comm, mul_smul]
  rw [this]; abel

theorem Msm.defined_accumulateWithR (fb : List (String × G)) (a b : Msm F G) (r : F)
    (ha : Defined fb a.fixed) (hb : Defined fb b.fixed) :
    Defined fb (a.accumulateWithR b r).fixed :=
  defined_foldl_upsert fb r b.fixed a.fixed ha hb

/-! ### `Accumulator` -/

/-- Both sides can be evaluated with the fixed bases `fb`. -/
def Accumulator.Defined (fb : List (String × G)) (a : Accumulator F G) : Prop :=
  MidnightZK.C15.Defined fb a.lhs.fixed ∧ MidnightZK.C15.Defined fb a.rhs.fixed

/-- The defect `τ • lhs − rhs` of an accumulator. -/
def accDefect (τ : F) (fb : List (String × G)) (a : Accumulator F G) : G :=
  τ • a.lhs.value fb - a.rhs.value fb

theorem Accumulator.check_of_defined [DecidableEq G] (τ : F) (fb : List (String × G))
    (a : Accumulator F G) (h : a.Defined fb) :
    a.check τ fb = some (decide (accDefect τ fb a = 0)) := by
  unfold Accumulator.check accDefect
  rw [Msm.eval_of_defined fb _ h.1, Msm.eval_of_defined fb _ h.2]
  simp [sub_eq_zero]

theorem Accumulator.check_eq_some [DecidableEq G] (τ : F) (fb : List (String × G))
    (a : Accumulator F G) (b : Bool) (h : a.check τ fb = some b) :
    a.Defined fb ∧ (b = true ↔ accDefect τ fb a = 0) := by
  by_cases h1 : MidnightZK.C15.Defined fb a.lhs.fixed
  · by_cases h2 : MidnightZK.C15.Defined fb a.rhs.fixed
    · rw [Accumulator.check_of_defined τ fb a ⟨h1, h2⟩] at h
      refine ⟨⟨h1, h2⟩, ?_⟩
      rw [← Option.some.inj h]; simp
    · unfold Accumulator.check at h
      rw [Msm.eval_of_not_defined fb _ h2] at h
      cases hh : a.lhs.eval fb <;> simp [hh] at h
  · unfold Accumulator.check at h
    rw [Msm.eval_of_not_defined fb _ h1] at h
    simp at h

theorem fpow_eq (r : F) (n : Nat) : fpow r n = r ^ n := by
  induction n with
  | zero => simp [fpow]
  | succ n ih => rw [fpow, ih, pow_succ]

/-- `Σⱼ r^(i+j) • dⱼ`. -/
def powSum (r : F) : Nat → List G → G
  | _, [] => 0
  | i, d :: t => r ^ i • d + powSum r (i + 1) t

theorem powSum_succ (r : F) (i : Nat) (ds : List G) : powSum r (i + 1) ds = r • powSum r i ds := by
  induction ds generalizing i with
  | nil => simp [powSum]
  | cons d t ih => simp only [powSum]; rw [ih (i + 1), smul_add, pow_succ, mul_comm, mul_smul]

/-- `Σᵢ rⁱ • dᵢ` is the Horner combination of the reversed list. -/
theorem combo_reverse (r : F) (ds : List G) : combo r ds.reverse = powSum r 0 ds := by
  induction ds with
  | nil => rfl
  | cons d t ih =>
    rw [List.reverse_cons, combo_snoc, ih]
    simp only [powSum, pow_zero, one_smul, zero_add]
    rw [powSum_succ, add_comm]

theorem accumulateLoop_spec (τ r : F) (fb : List (String × G)) (rest : List (Accumulator F G)) :
    ∀ (i : Nat) (acc : Accumulator F G), acc.Defined fb → (∀ a ∈ rest, a.Defined fb) →
      (accumulateLoop r i acc rest).Defined fb ∧
      accDefect τ fb (accumulateLoop r i acc rest)
        = accDefect τ fb acc + powSum r i (rest.map (accDefect τ fb)) := by
  induction rest with
  | nil => intro i acc h _; exact ⟨h, by simp [accumulateLoop, powSum]⟩
  | cons o t ih =>
    intro i acc hacc hrest
    have ho := hrest o (by simp)
    unfold accumulateLoop
    have hd : Accumulator.Defined fb
        (⟨acc.lhs.accumulateWithR o.lhs (fpow r i), acc.rhs.accumulateWithR o.rhs (fpow r i)⟩ :
          Accumulator F G) :=
      ⟨Msm.defined_accumulateWithR fb _ _ _ hacc.1 ho.1, Msm.defined_accumulateWithR fb _ _ _ hacc.2 ho.2⟩
    obtain ⟨h1, h2⟩ := ih (i + 1) _ hd (fun a ha => hrest a (by simp [ha]))
    refine ⟨h1, ?_⟩
    rw [h2]
    simp only [accDefect, Msm.value_accumulateWithR, fpow_eq, List.map_cons, powSum]
    simp only [smul_add, smul_sub]
    rw [smul_comm τ (r ^ i)]
    abel

/-! ### `from_dual_msm` -/

/-- Invariant of `process_msm`: the value filed so far (variable terms plus fixed-base scalars
under `fb`) grows by the value of the terms processed, and stays evaluable. -/
theorem processMsm_spec [DecidableEq G] (pfx : String) (fb : List (String × G)) (m : MsmKzg F G) :
    ∀ (st st' : ProcSt F G), processMsm pfx fb m st = some st' →
      Defined fb st.fixed →
      Defined fb st'.fixed ∧
      msmSum st'.terms + fixedSum fb st'.fixed = msmSum st.terms + fixedSum fb st.fixed + m.value := by
  induction m with
  | nil =>
    intro st st' h hd
    simp only [processMsm] at h
    cases h
    exact ⟨hd, by simp⟩
  | cons t rest ih =>
    intro st st' h hd
    simp only [processMsm] at h
    cases hp : processTerm pfx fb st t with
    | none => simp [hp] at h
    | some st1 =>
      rw [hp] at h
      -- what one step does
      have step : (st1 = { st with terms := st.terms ++ [(t.scalar, t.base)] }) ∨
          (∃ name, bmGet fb name = some t.base ∧
            st1 = { st with fixed := bmUpsert name (0 + t.scalar) (· + t.scalar) st.fixed }) := by
        unfold processTerm at hp
        cases hl : t.label with
        | fixed i =>
          simp only [hl] at hp
          right
          split at hp
          · next hg => exact ⟨_, hg, (Option.some.inj hp).symm⟩
          · simp at hp
        | perm i =>
          simp only [hl] at hp
          right
          split at hp
          · next hg => exact ⟨_, hg, (Option.some.inj hp).symm⟩
          · simp at hp
        | custom s =>
          simp only [hl] at hp
          by_cases hs : s = minusGName
          · simp only [hs, if_true] at hp
            right
            split at hp
            · next hg => exact ⟨_, hg, (Option.some.inj hp).symm⟩
            · simp at hp
          · simp only [hs, if_false] at hp
            left; exact (Option.some.inj hp).symm
        | advice i => simp only [hl] at hp; left; exact (Option.some.inj hp).symm
        | inst i => simp only [hl] at hp; left; exact (Option.some.inj hp).symm
        | noLabel => simp only [hl] at hp; left; exact (Option.some.inj hp).symm
      rcases step with hst1 | ⟨name, hg, hst1⟩
      · -- variable term
        obtain ⟨h1, h2⟩ := ih st1 st' h (by subst hst1; exact hd)
        refine ⟨h1, ?_⟩
        rw [h2]; subst hst1
        simp only [msmSum_append, msmSum_cons, msmSum_nil, MsmKzg.value_cons]
        abel
      · -- fixed-base term: the scalar is added to the entry of its name
        have hd1 : Defined fb st1.fixed := by
          subst hst1
          intro kv hkv
          rcases bmUpsert_keys _ _ _ _ kv hkv with h1 | h1
          · rw [h1, hg]; rfl
          · obtain ⟨y, hy, hy1⟩ := List.mem_map.mp h1
            rw [← hy1]; exact hd y hy
        obtain ⟨h1, h2⟩ := ih st1 st' h hd1
        refine ⟨h1, ?_⟩
        rw [h2]; subst hst1
        simp only [zero_add, fixedSum_bmUpsert, MsmKzg.value_cons]
        have : fbVal fb name = t.base := by simp [fbVal, hg]
        rw [this]; abel

end

end MidnightZK.C15
