import Mathlib.Algebra.Module.Basic
import Mathlib.Algebra.BigOperators.Group.List.Basic
import Mathlib.Algebra.Polynomial.Roots
import Mathlib.Algebra.Polynomial.Degree.Lemmas
import Mathlib.LinearAlgebra.Dual.Lemmas
import Mathlib.Tactic.Ring
import Mathlib.Tactic.Abel
import MidnightZK.Model.C15.Batch
/-!
Helper lemmas for the batching theorems of C15: over a field `F` and an `F`-module `G`
(the scalar field and the commitment group), every operation of `MSMKZG` / `DualMSM` is linear in
the value `Σ sᵢ • bᵢ`, the Horner loop of `batch_verify` evaluates the polynomial
`Σ r^(n-1-i) • δᵢ` of the members' defects, and a non-zero polynomial of degree `≤ n-1` has at most
`n-1` roots.
-/
namespace MidnightZK.C15
set_option linter.unusedSectionVars false

section
variable {F G : Type} [Field F] [DecidableEq F] [AddCommGroup G] [Module F G]

/-- The value `Σ sᵢ • bᵢ` an `MSMKZG` stands for. -/
def MsmKzg.value (m : MsmKzg F G) : G := (m.map (fun t => t.scalar • t.base)).sum

@[simp] theorem MsmKzg.value_nil : MsmKzg.value ([] : MsmKzg F G) = 0 := rfl

@[simp] theorem MsmKzg.value_cons (t : Term F G) (m : MsmKzg F G) :
    MsmKzg.value (t :: m) = t.scalar • t.base + MsmKzg.value m := by
  simp [MsmKzg.value]

theorem MsmKzg.value_append (m o : MsmKzg F G) :
    MsmKzg.value (m ++ o) = MsmKzg.value m + MsmKzg.value o := by
  simp [MsmKzg.value, List.sum_append]

theorem msmSum_eq (l : List (F × G)) : msmSum l = (l.map (fun t => t.1 • t.2)).sum := rfl

theorem msmSum_append (l l' : List (F × G)) : msmSum (l ++ l') = msmSum l + msmSum l' := by
  simp [msmSum, List.sum_append]

theorem msmSum_nil : msmSum ([] : List (F × G)) = 0 := rfl

theorem msmSum_cons (t : F × G) (l : List (F × G)) : msmSum (t :: l) = t.1 • t.2 + msmSum l := by
  simp [msmSum]

/-- The zero filter of `msm_specific` does not change the value. -/
theorem msmSpecific_eq (m : MsmKzg F G) : msmSpecific m = m.value := by
  unfold msmSpecific
  have hfilter : ∀ m : MsmKzg F G,
      msmSum ((m.filter (fun t => t.scalar ≠ 0)).map (fun t => (t.scalar, t.base))) = m.value := by
    intro m
    induction m with
    | nil => simp [msmSum]
    | cons t m ih =>
      rw [List.filter_cons]
      by_cases h : t.scalar = 0
      · rw [if_neg (by simp [h]), ih]; simp [h]
      · rw [if_pos (by simp [h]), List.map_cons, msmSum_cons, ih]; simp
  simp only []
  split
  · next h =>
    rw [← hfilter m]
    rw [List.isEmpty_iff] at h
    rw [h]; rfl
  · exact hfilter m

/-- `MSMKZG::eval` (with its `[ONE]` shortcut and the zero filter) returns `Σ sᵢ • bᵢ`. -/
theorem MsmKzg.eval_eq (m : MsmKzg F G) : m.eval = m.value := by
  unfold MsmKzg.eval
  split
  · next t =>
    split
    · next h => simp [h]
    · exact msmSpecific_eq _
  · exact msmSpecific_eq _

theorem MsmKzg.value_scale (m : MsmKzg F G) (f : F) : (m.scale f).value = f • m.value := by
  induction m with
  | nil => simp [MsmKzg.scale]
  | cons t m ih =>
    have : MsmKzg.scale (t :: m) f = { t with scalar := t.scalar * f } :: MsmKzg.scale m f := rfl
    rw [this, MsmKzg.value_cons, ih, MsmKzg.value_cons, smul_add, mul_comm, mul_smul]

theorem MsmKzg.value_addMsm (m o : MsmKzg F G) : (m.addMsm o).value = m.value + o.value :=
  MsmKzg.value_append m o

theorem DualMsm.leftPoint_eq (d : DualMsm F G) : d.leftPoint = d.left.value := by
  unfold DualMsm.leftPoint
  split
  · next t heq =>
    split
    · next h => rw [heq]; simp [h]
    · exact MsmKzg.eval_eq _
  · exact MsmKzg.eval_eq _

/-- The defect `τ • L − R` of a guard: zero iff the pairing equation holds. -/
def defect (τ : F) (d : DualMsm F G) : G := τ • d.left.value - d.right.value

theorem DualMsm.check_iff [DecidableEq G] (τ : F) (d : DualMsm F G) :
    d.check τ = true ↔ defect τ d = 0 := by
  unfold DualMsm.check pairingCheck defect
  rw [DualMsm.leftPoint_eq, MsmKzg.eval_eq, decide_eq_true_iff, sub_eq_zero]

theorem defect_scale (τ e : F) (d : DualMsm F G) : defect τ (d.scale e) = e • defect τ d := by
  unfold defect DualMsm.scale
  simp only [MsmKzg.value_scale]
  rw [smul_sub, smul_comm]

theorem defect_addMsm (τ : F) (d o : DualMsm F G) :
    defect τ (d.addMsm o) = defect τ d + defect τ o := by
  unfold defect DualMsm.addMsm
  simp only [MsmKzg.value_addMsm, smul_add]
  abel

theorem defect_init (τ : F) : defect τ (DualMsm.init : DualMsm F G) = 0 := by
  simp [defect, DualMsm.init]

/-- Horner evaluation `((δ₀·r + δ₁)·r + …) + δₙ₋₁ = Σ r^(n-1-i) • δᵢ`. -/
def combo (r : F) (ds : List G) : G := ds.foldl (fun acc d => r • acc + d) 0

theorem combo_snoc (r : F) (ds : List G) (d : G) : combo r (ds ++ [d]) = r • combo r ds + d := by
  simp [combo, List.foldl_append]

/-- The defect of the guard built by the loop of `batch_verify` is the Horner combination of
the members' defects. -/
theorem hornerFold_defect (τ r : F) (g : DualMsm F G) (gs : List (DualMsm F G)) :
    defect τ (gs.foldl (fun acc g => (acc.scale r).addMsm g) g)
      = combo r ((g :: gs).map (defect τ)) := by
  have gen : ∀ (gs : List (DualMsm F G)) (a : DualMsm F G) (x : G), defect τ a = x →
      defect τ (gs.foldl (fun acc g => (acc.scale r).addMsm g) a)
        = (gs.map (defect τ)).foldl (fun acc d => r • acc + d) x := by
    intro gs
    induction gs with
    | nil => intro a x h; simpa using h
    | cons h t ih =>
      intro a x hx
      simp only [List.foldl_cons, List.map_cons]
      apply ih
      rw [defect_addMsm, defect_scale, hx]
  rw [gen gs g (defect τ g) rfl]
  simp [combo]

theorem combo_all_zero (r : F) (ds : List G) (h : ∀ d ∈ ds, d = 0) : combo r ds = 0 := by
  induction ds using List.reverseRecOn with
  | nil => rfl
  | append_singleton ds d ih =>
    rw [combo_snoc, ih (fun x hx => h x (by simp [hx])), h d (by simp)]
    simp

/-- A linear functional commutes with the Horner combination. -/
theorem map_combo (ψ : G →ₗ[F] F) (r : F) (ds : List G) :
    ψ (combo r ds) = (ds.map ψ).foldl (fun acc c => r * acc + c) 0 := by
  induction ds using List.reverseRecOn with
  | nil => simp [combo]
  | append_singleton ds d ih =>
    rw [combo_snoc, map_add, map_smul, ih]
    simp [List.foldl_append]

open Polynomial in
/-- The polynomial `Σ cᵢ X^(n-1-i)`. -/
noncomputable def hornerPoly (cs : List F) : F[X] :=
  cs.foldl (fun p c => X * p + C c) 0

open Polynomial in
theorem hornerPoly_snoc (cs : List F) (c : F) :
    hornerPoly (cs ++ [c]) = X * hornerPoly cs + C c := by
  simp [hornerPoly, List.foldl_append]

open Polynomial in
theorem hornerPoly_eval (cs : List F) (r : F) :
    (hornerPoly cs).eval r = cs.foldl (fun acc c => r * acc + c) 0 := by
  induction cs using List.reverseRecOn with
  | nil => simp [hornerPoly]
  | append_singleton cs c ih =>
    rw [hornerPoly_snoc]
    simp [List.foldl_append, ih]

open Polynomial in
theorem hornerPoly_coeff_ge (cs : List F) : ∀ N, cs.length ≤ N → (hornerPoly cs).coeff N = 0 := by
  induction cs using List.reverseRecOn with
  | nil => intro N _; simp [hornerPoly]
  | append_singleton cs c ih =>
    intro N hN
    rw [hornerPoly_snoc]
    simp only [List.length_append, List.length_singleton] at hN
    obtain ⟨N', rfl⟩ : ∃ N', N = N' + 1 := ⟨N - 1, by omega⟩
    rw [coeff_add, coeff_X_mul, coeff_C_succ, ih N' (by omega)]
    simp

open Polynomial in
theorem hornerPoly_natDegree (cs : List F) : (hornerPoly cs).natDegree ≤ cs.length - 1 := by
  rw [natDegree_le_iff_coeff_eq_zero]
  intro N hN
  by_cases h0 : cs.length = 0
  · have : cs = [] := List.length_eq_zero_iff.mp h0
    subst this; simp [hornerPoly]
  · exact hornerPoly_coeff_ge cs N (by omega)

open Polynomial in
theorem hornerPoly_ne_zero (cs : List F) (h : ∃ c ∈ cs, c ≠ 0) : hornerPoly cs ≠ 0 := by
  induction cs using List.reverseRecOn with
  | nil => simp at h
  | append_singleton cs c ih =>
    rw [hornerPoly_snoc]
    intro hz
    have hc : c = 0 := by
      have := congrArg (fun p => coeff p 0) hz
      simpa using this
    subst hc
    have hp : hornerPoly cs = 0 := by
      simp only [map_zero, add_zero] at hz
      rcases mul_eq_zero.mp hz with h1 | h1
      · exact absurd h1 X_ne_zero
      · exact h1
    obtain ⟨c', hc', hne⟩ := h
    rcases List.mem_append.mp hc' with h1 | h1
    · exact ih ⟨c', h1, hne⟩ hp
    · simp at h1; exact hne h1

/-- A non-zero vector of an `F`-vector space is seen by some linear functional. -/
theorem exists_functional_ne_zero (v : G) (hv : v ≠ 0) : ∃ ψ : G →ₗ[F] F, ψ v ≠ 0 := by
  by_contra hcon
  push Not at hcon
  exact hv ((Module.forall_dual_apply_eq_zero_iff F v).mp hcon)

open Polynomial in
/-- The heart of batching soundness: if some `δᵢ ≠ 0`, the Horner combination vanishes for at
most `n − 1` values of `r`. -/
theorem combo_roots_card (ds : List G) (h : ∃ d ∈ ds, d ≠ 0) (S : Finset F)
    (hS : ∀ r ∈ S, combo r ds = 0) : S.card ≤ ds.length - 1 := by
  obtain ⟨d, hd, hne⟩ := h
  obtain ⟨ψ, hψ⟩ := exists_functional_ne_zero (F := F) d hne
  let p := hornerPoly (ds.map ψ)
  have hp : p ≠ 0 := hornerPoly_ne_zero _ ⟨ψ d, List.mem_map.mpr ⟨d, hd, rfl⟩, hψ⟩
  have hroots : S.val ⊆ p.roots := by
    intro r hr
    rw [mem_roots hp, IsRoot.def, hornerPoly_eval, ← map_combo, hS r (by simpa using hr), map_zero]
  calc S.card ≤ p.natDegree := card_le_degree_of_subset_roots hroots
    _ ≤ (ds.map ψ).length - 1 := hornerPoly_natDegree _
    _ = ds.length - 1 := by simp

open Polynomial in
/-- The same bound as a set: the challenges at which the combination vanishes although some
`δᵢ ≠ 0` all lie in one finite set of at most `n − 1` elements (the roots of a non-zero
polynomial of degree `≤ n − 1`). -/
theorem combo_bad_set (ds : List G) (h : ∃ d ∈ ds, d ≠ 0) :
    ∃ bad : Finset F, bad.card ≤ ds.length - 1 ∧ ∀ r, combo r ds = 0 → r ∈ bad := by
  classical
  obtain ⟨d, hd, hne⟩ := h
  obtain ⟨ψ, hψ⟩ := exists_functional_ne_zero (F := F) d hne
  have hp : hornerPoly (ds.map ψ) ≠ 0 :=
    hornerPoly_ne_zero _ ⟨ψ d, List.mem_map.mpr ⟨d, hd, rfl⟩, hψ⟩
  refine ⟨(hornerPoly (ds.map ψ)).roots.toFinset, ?_, ?_⟩
  · calc (hornerPoly (ds.map ψ)).roots.toFinset.card
        ≤ Multiset.card (hornerPoly (ds.map ψ)).roots := Multiset.toFinset_card_le _
      _ ≤ (hornerPoly (ds.map ψ)).natDegree := card_roots' _
      _ ≤ (ds.map ψ).length - 1 := hornerPoly_natDegree _
      _ = ds.length - 1 := by simp
  · intro r hr
    rw [Multiset.mem_toFinset, mem_roots hp, IsRoot.def, hornerPoly_eval, ← map_combo, hr, map_zero]

end

end MidnightZK.C15
