/-!
# C06 — algebra of the foreign Weierstrass chip (`y² = x³ + b`, `a = 0`), core Lean only

The four EC custom gates of `circuits/src/ecc/foreign/gates/*.rs` assert (after the CRT lift of
property C05) one identity of the emulated base field each:

* `on_curve`:        `y² = x·z + b`            (with `z = x²` from a multiplication gate)
* `slope`:           `sign·qy − py = λ·(qx − px)`  (`sign = ±1`)
* `tangent`:         `3·px² = 2·py·λ`
* `lambda_squared`:  `px + qx + rx = λ²`

This file proves that the identities `assert_add` / `assert_double` combine imply the chord and
tangent formulas and that the result is again a curve point, and then that the flag logic of
`add` / `double` implements the complete group law.
-/
namespace MidnightZK.C06
open Lean.Grind

variable {F : Type} [Field F]

/-- Curve equation `y² = x³ + b`. -/
def WOn (b x y : F) : Prop := y * y = x * x * x + b

/-- Identity asserted by the `slope` gate. -/
def SlopeId (sign px py qx qy lam : F) : Prop := sign * qy - py = lam * (qx - px)
/-- Identity asserted by the `tangent` gate (`a = 0`). -/
def TangentId (px py lam : F) : Prop := 3 * (px * px) = 2 * py * lam
/-- Identity asserted by the `lambda_squared` gate. -/
def LamSqId (px qx rx lam : F) : Prop := px + qx + rx = lam * lam
/-- Identity asserted by the `on_curve` gate. -/
def OnCurveId (b x y z : F) : Prop := y * y = x * z + b

/-- `on_curve` with `z = x²` is the curve equation. -/
theorem onCurveId_iff (b x y : F) : OnCurveId b x y (x * x) ↔ WOn b x y := by
  unfold OnCurveId WOn; constructor <;> intro h <;> grind

/-- The three identities of `assert_add(p, q, r)` with `cond = 1`. -/
def AddIds (px py qx qy rx ry lam : F) : Prop :=
  SlopeId 1 px py qx qy lam ∧ LamSqId px qx rx lam ∧ SlopeId (-1) px py rx ry lam

/-- The three identities of `assert_double(p, r)` with `cond = 1`. -/
def DoubleIds (px py rx ry lam : F) : Prop :=
  TangentId px py lam ∧ LamSqId px px rx lam ∧ SlopeId (-1) px py rx ry lam

/-- **Chord law from the gates** (no division): `assert_add` with `px ≠ qx` forces
`λ·(qx − px) = qy − py`, `rx = λ² − px − qx`, `ry = λ(px − rx) − py`, for every prover-chosen `λ`,
`rx`, `ry`. -/
theorem addIds_formulas {px py qx qy rx ry lam : F} (h : AddIds px py qx qy rx ry lam) :
    lam * (qx - px) = qy - py ∧ rx = lam * lam - px - qx ∧ ry = lam * (px - rx) - py := by
  obtain ⟨h1, h2, h3⟩ := h
  unfold SlopeId LamSqId at *
  refine ⟨?_, ?_, ?_⟩ <;> grind

/-- The slope is unique when `px ≠ qx`: the prover has no freedom. -/
theorem addIds_lambda_unique {px py qx qy rx ry lam rx' ry' lam' : F} (hne : px ≠ qx)
    (h : AddIds px py qx qy rx ry lam) (h' : AddIds px py qx qy rx' ry' lam') :
    lam = lam' ∧ rx = rx' ∧ ry = ry' := by
  obtain ⟨a, b, c⟩ := addIds_formulas h
  obtain ⟨a', b', c'⟩ := addIds_formulas h'
  have hd : qx - px ≠ 0 := by grind
  have e : (lam - lam') * (qx - px) = 0 := by grind
  have hl : lam = lam' := by grind
  subst hl
  refine ⟨rfl, ?_, ?_⟩ <;> grind

/-- **The chord result is a curve point**: the line through two distinct-`x` curve points meets
the cubic in a third point whose mirror image is `(rx, ry)`. -/
theorem addIds_on_curve {b px py qx qy rx ry lam : F} (hP : WOn b px py) (hQ : WOn b qx qy)
    (hne : px ≠ qx) (h : AddIds px py qx qy rx ry lam) : WOn b rx ry := by
  obtain ⟨a, hrx, hry⟩ := addIds_formulas h
  unfold WOn at *
  -- g(x) = x³ + b − (λ(x−px)+py)² = (x−px)(x−qx)(x−rx): compare the linear parts
  have hd : qx - px ≠ 0 := by grind
  have hqy : qy = lam * (qx - px) + py := by grind
  -- coefficient of x in g(x) − (x−px)(x−qx)(x−rx)
  have hA : (2 * (lam * lam) * px - 2 * lam * py - (px * qx + px * rx + qx * rx)) * (qx - px) = 0 := by
    subst hqy; subst hrx; grind
  have hA0 : 2 * (lam * lam) * px - 2 * lam * py - (px * qx + px * rx + qx * rx) = 0 := by grind
  subst hry
  grind

/-- **Tangent law from the gates**: `assert_double` forces `2·py·λ = 3·px²`,
`rx = λ² − 2px`, `ry = λ(px − rx) − py`. -/
theorem doubleIds_formulas {px py rx ry lam : F} (h : DoubleIds px py rx ry lam) :
    2 * py * lam = 3 * (px * px) ∧ rx = lam * lam - px - px ∧ ry = lam * (px - rx) - py := by
  obtain ⟨h1, h2, h3⟩ := h
  unfold TangentId SlopeId LamSqId at *
  refine ⟨?_, ?_, ?_⟩ <;> grind

/-- The tangent slope is unique when `2·py ≠ 0` (no point of order 2, odd characteristic). -/
theorem doubleIds_unique {px py rx ry lam rx' ry' lam' : F} (hy : 2 * py ≠ 0)
    (h : DoubleIds px py rx ry lam) (h' : DoubleIds px py rx' ry' lam') :
    lam = lam' ∧ rx = rx' ∧ ry = ry' := by
  obtain ⟨a, b, c⟩ := doubleIds_formulas h
  obtain ⟨a', b', c'⟩ := doubleIds_formulas h'
  have e : (lam - lam') * (2 * py) = 0 := by grind
  have hl : lam = lam' := by grind
  subst hl
  refine ⟨rfl, ?_, ?_⟩ <;> grind

/-- **The tangent result is a curve point.** -/
theorem doubleIds_on_curve {b px py rx ry lam : F} (hP : WOn b px py) (hy : 2 * py ≠ 0)
    (h : DoubleIds px py rx ry lam) : WOn b rx ry := by
  obtain ⟨a, hrx, hry⟩ := doubleIds_formulas h
  unfold WOn at *
  subst hry; subst hrx
  have hl : lam * (2 * py) = 3 * (px * px) := by grind
  -- multiply the goal by (2py)², a non-zero factor
  have key : (2 * py) * (2 * py) *
      ((lam * (px - (lam * lam - px - px)) - py) * (lam * (px - (lam * lam - px - px)) - py)
        - ((lam * lam - px - px) * (lam * lam - px - px) * (lam * lam - px - px) + b)) = 0 := by
    grind
  have hne : (2 * py) * (2 * py) ≠ 0 := by grind
  grind

/-! ## Identity flags: the complete law implemented by `add` and `double` -/

/-- `AssignedForeignPoint` as field values: flag and coordinates. -/
structure WP (F : Type) where
  isId : Bool
  x : F
  y : F

/-- Type invariant of an assigned point: a non-identity point satisfies the curve equation
(`assign` / `point_from_coordinates` enforce it with the `on_curve` gate). -/
def WP.wf (b : F) (P : WP F) : Prop := P.isId = false → WOn b P.x P.y

/-- Equality as group elements: the coordinates of an identity are irrelevant. -/
def WP.same (P Q : WP F) : Prop := P.isId = Q.isId ∧ (P.isId = false → P.x = Q.x ∧ P.y = Q.y)

variable [DecidableEq F]

/-- Tangent formula with an inverse (the value `assert_double` witnesses). -/
def wDouble (P : WP F) : WP F :=
  if P.isId then ⟨true, 0, 0⟩ else
  let lam := 3 * (P.x * P.x) * (2 * P.y)⁻¹
  let rx := lam * lam - P.x - P.x
  ⟨false, rx, lam * (P.x - rx) - P.y⟩

/-- The complete affine addition (what `p + q` of the curve library computes). -/
def wAdd (P Q : WP F) : WP F :=
  if P.isId then Q else if Q.isId then P
  else if P.x = Q.x then (if P.y + Q.y = 0 then ⟨true, 0, 0⟩ else wDouble P)
  else
    let lam := (Q.y - P.y) * (Q.x - P.x)⁻¹
    let rx := lam * lam - P.x - Q.x
    ⟨false, rx, lam * (P.x - rx) - P.y⟩

/-- What `ForeignEccChip::add(p, q)` constrains about the freshly witnessed `r` (flags are
bits of the native gadget; the equality bits are the outputs of `is_equal` / `is_zero`):
* `cond_assert_equal(p.is_id, r, q)`, `cond_assert_equal(q.is_id, r, p)`;
* `r.is_id = (p.x = q.x) ∧ (p.y + q.y = 0)`;
* `assert_double(p, r)` under `p.x = q.x ∧ p.y = q.y ∧ none is the identity`;
* `assert_add(p, q, r)` under `p.x ≠ q.x ∧ none is the identity`. -/
structure AddHolds (p q r : WP F) (lamD lamA : F) : Prop where
  p_id : p.isId = true → (r.isId = q.isId ∧ r.x = q.x ∧ r.y = q.y)
  q_id : q.isId = true → (r.isId = p.isId ∧ r.x = p.x ∧ r.y = p.y)
  r_flag : r.isId = (decide (p.x = q.x) && decide (p.y + q.y = 0))
  dbl : (decide (p.x = q.x) && decide (p.y = q.y) && !(p.isId || q.isId || r.isId)) = true →
    DoubleIds p.x p.y r.x r.y lamD
  add : (!decide (p.x = q.x) && !(p.isId || q.isId || r.isId)) = true →
    AddIds p.x p.y q.x q.y r.x r.y lamA

/-- What `ForeignEccChip::double(p)` constrains about `r`: equal flags, and `assert_double`
when `p` is not the identity. -/
structure DoubleHoldsW (p r : WP F) (lam : F) : Prop where
  flag : p.isId = r.isId
  dbl : p.isId = false → DoubleIds p.x p.y r.x r.y lam

/-- Curves without a point of order 2 (odd group order): no curve point has `y = 0`. -/
def NoTwoTorsion (b : F) : Prop := ∀ x y : F, WOn b x y → y ≠ 0

omit [DecidableEq F] in
private theorem inv_of_mul_eq {a c v : F} (hv : v ≠ 0) (h : a * v = c) : a = c * v⁻¹ := by
  have hw := Field.mul_inv_cancel hv
  generalize v⁻¹ = w at hw ⊢
  have : a * (v * w) = c * w := by grind
  rw [hw] at this; grind

/-- **`double` is sound**: for a well-formed `p`, any `r` (and any `λ`) accepted by the
constraints of `double` is `2p` as a group element, and is well-formed. -/
theorem foreign_double_sound {b : F} (h2 : (2 : F) ≠ 0) (hno2 : NoTwoTorsion b)
    {p r : WP F} {lam : F} (hp : p.wf b) (h : DoubleHoldsW p r lam) :
    r.same (wDouble p) ∧ r.wf b := by
  cases hpi : p.isId
  · have hon := hp hpi
    have hy : p.y ≠ 0 := hno2 _ _ hon
    have hy2 : 2 * p.y ≠ 0 := by grind
    have ids := h.dbl hpi
    obtain ⟨a, b1, c⟩ := doubleIds_formulas ids
    have hl : lam = 3 * (p.x * p.x) * (2 * p.y)⁻¹ := inv_of_mul_eq hy2 (by grind)
    have hri : r.isId = false := by rw [← h.flag, hpi]
    refine ⟨⟨?_, ?_⟩, ?_⟩
    · simp [wDouble, hpi, hri]
    · intro _
      simp only [wDouble, hpi, Bool.false_eq_true, if_false]
      rw [← hl]
      constructor <;> grind
    · intro _; exact doubleIds_on_curve hon hy2 ids
  · have hri : r.isId = true := by rw [← h.flag, hpi]
    refine ⟨⟨?_, ?_⟩, ?_⟩
    · simp [wDouble, hpi, hri]
    · intro hf; rw [hri] at hf; cases hf
    · intro hf; rw [hri] at hf; cases hf

/-- **`add` is sound, in every case** (identity operands, `p = q`, `p = −q`, generic): for
well-formed `p`, `q`, any `r` (and any `λ`s) accepted by the constraints of `add` is `p + q` as a
group element, and is well-formed. -/
theorem foreign_add_sound {b : F} (h2 : (2 : F) ≠ 0) (hno2 : NoTwoTorsion b)
    {p q r : WP F} {lamD lamA : F} (hp : p.wf b) (hq : q.wf b) (h : AddHolds p q r lamD lamA) :
    r.same (wAdd p q) ∧ r.wf b := by
  cases hpi : p.isId
  case true =>
    obtain ⟨a, b1, c⟩ := h.p_id hpi
    refine ⟨⟨?_, ?_⟩, ?_⟩
    · simp [wAdd, hpi, a]
    · intro _; simp [wAdd, hpi, b1, c]
    · intro hr; rw [a] at hr; have := hq hr; rw [b1, c]; exact this
  case false =>
  cases hqi : q.isId
  case true =>
    obtain ⟨a, b1, c⟩ := h.q_id hqi
    refine ⟨⟨?_, ?_⟩, ?_⟩
    · simp [wAdd, hpi, hqi, a]
    · intro _; simp [wAdd, hpi, hqi, b1, c]
    · intro hr; rw [a] at hr; have := hp hr; rw [b1, c]; exact this
  case false =>
  have hP := hp hpi
  have hQ := hq hqi
  by_cases hx : p.x = q.x
  · by_cases hyn : p.y + q.y = 0
    · -- p = −q: the flag of r is forced to 1
      have hri : r.isId = true := by rw [h.r_flag]; simp [hx, hyn]
      refine ⟨⟨?_, ?_⟩, ?_⟩
      · simp [wAdd, hpi, hqi, hx, hyn, hri]
      · intro hf; rw [hri] at hf; cases hf
      · intro hf; rw [hri] at hf; cases hf
    · -- same x, not opposite: p = q, doubling
      have hri : r.isId = false := by rw [h.r_flag]; simp [hx, hyn]
      have hyy : p.y = q.y := by
        unfold WOn at hP hQ
        have e : (p.y - q.y) * (p.y + q.y) = 0 := by rw [hx] at hP; grind
        grind
      have ids := h.dbl (by simp [hx, hyy, hpi, hqi, hri])
      have hd : DoubleHoldsW p r lamD := ⟨by rw [hpi, hri], fun _ => ids⟩
      obtain ⟨s, w⟩ := foreign_double_sound h2 hno2 hp hd
      refine ⟨?_, w⟩
      have hw : wAdd p q = wDouble p := by
        simp only [wAdd, hpi, hqi, hx, hyn, Bool.false_eq_true, if_false, if_true]
      rw [hw]; exact s
  · -- generic chord
    have hri : r.isId = false := by rw [h.r_flag]; simp [hx]
    have ids := h.add (by simp [hx, hpi, hqi, hri])
    obtain ⟨a, b1, c⟩ := addIds_formulas ids
    have hd : q.x - p.x ≠ 0 := by grind
    have hl : lamA = (q.y - p.y) * (q.x - p.x)⁻¹ := inv_of_mul_eq hd a
    refine ⟨⟨?_, ?_⟩, ?_⟩
    · simp [wAdd, hpi, hqi, hx, hri]
    · intro _
      simp only [wAdd, hpi, hqi, hx, Bool.false_eq_true, if_false]
      rw [← hl]
      constructor <;> grind
    · intro _; exact addIds_on_curve hP hQ hx ids

end MidnightZK.C06
