import MidnightZK.Proofs.C06.EdwardsChip
/-!
# C06 — associativity of the twisted-Edwards addition law (`a = -1`), core Lean only

The two polynomial identities `assoc_x_key` / `assoc_y_key` (cofactors computed once with a
computer-algebra system, re-checked here by the kernel through `grind`'s ring normaliser) say that
the cross-multiplied difference of the two bracketings lies in the ideal of the three curve
equations. Together with `ed_denominators_ne_zero` (all eight denominators are non-zero for curve
points when `d` is a non-square and `-1` a square) this gives `edwards_assoc : EdAssoc d`.
-/
namespace MidnightZK.C06
open Lean.Grind

variable {F : Type} [Field F]

theorem assoc_x_key (d x1 y1 x2 y2 x3 y3 : F) :
    ((x1*y2+y1*x2)*(1-d*x1*x2*y1*y2)*y3+(y1*y2+x1*x2)*(1+d*x1*x2*y1*y2)*x3)*((1+d*x2*x3*y2*y3)*(1-d*x2*x3*y2*y3)+d*x1*y1*(x2*y3+y2*x3)*(y2*y3+x2*x3)) - (x1*(y2*y3+x2*x3)*(1+d*x2*x3*y2*y3)+y1*(x2*y3+y2*x3)*(1-d*x2*x3*y2*y3))*((1+d*x1*x2*y1*y2)*(1-d*x1*x2*y1*y2)+d*(x1*y2+y1*x2)*(y1*y2+x1*x2)*x3*y3)
      = (-(d*d)*x1*(x2*x2*x2*x2)*(x3*x3)*(y2*y2*y2)*y3 - (d*d)*x1*(x2*x2*x2)*x3*(y2*y2*y2*y2)*(y3*y3) + (d*d)*(x2*x2*x2*x2)*x3*y1*(y2*y2*y2)*(y3*y3) + (d*d)*(x2*x2*x2)*(x3*x3)*y1*(y2*y2*y2*y2)*y3 - d*x1*(x2*x2*x2*x2)*(x3*x3)*y2*y3 - d*x1*(x2*x2*x2)*(x3*x3*x3)*(y2*y2) - d*x1*(x2*x2*x2)*x3*(y2*y2) + d*x1*(x2*x2)*(y2*y2*y2)*(y3*y3*y3) - d*x1*(x2*x2)*(y2*y2*y2)*y3 + d*x1*x2*x3*(y2*y2*y2*y2)*(y3*y3) + d*(x2*x2*x2*x2)*x3*y1*y2*(y3*y3) + d*(x2*x2*x2)*y1*(y2*y2)*(y3*y3*y3) - d*(x2*x2*x2)*y1*(y2*y2)*y3 - d*(x2*x2)*(x3*x3*x3)*y1*(y2*y2*y2) - d*(x2*x2)*x3*y1*(y2*y2*y2) - d*x2*(x3*x3)*y1*(y2*y2*y2*y2)*y3)*(-((x1*x1))+(y1*y1)-1-d*(x1*x1)*(y1*y1))
      + ((d*d)*(x1*x1)*(x2*x2)*(x3*x3*x3)*y1*y2*(y3*y3) - (d*d)*(x1*x1)*x2*(x3*x3)*y1*(y2*y2)*(y3*y3*y3) - (d*d)*x1*(x2*x2)*(x3*x3)*(y1*y1)*y2*(y3*y3*y3) + (d*d)*x1*x2*(x3*x3*x3)*(y1*y1)*(y2*y2)*(y3*y3) + d*(x1*x1*x1)*(x2*x2)*(x3*x3)*y2*y3 + d*(x1*x1*x1)*x2*(x3*x3*x3)*(y3*y3) + d*(x1*x1*x1)*x2*x3*(y2*y2)*(y3*y3) + d*(x1*x1*x1)*(x3*x3)*y2*(y3*y3*y3) - d*(x1*x1)*(x2*x2)*x3*y1*y2*(y3*y3) - d*(x1*x1)*x2*(x3*x3)*y1*(y2*y2)*y3 + d*(x1*x1)*x2*(x3*x3)*y1*(y3*y3*y3) + d*(x1*x1)*(x3*x3*x3)*y1*y2*(y3*y3) - d*x1*(x2*x2)*(x3*x3)*(y1*y1)*y2*y3 + d*x1*(x2*x2)*(x3*x3)*y2*y3 - d*x1*x2*(x3*x3*x3)*(y1*y1)*(y3*y3) + d*x1*x2*(x3*x3*x3)*(y3*y3) - d*x1*x2*x3*(y1*y1)*(y2*y2)*(y3*y3) + d*x1*x2*x3*(y2*y2)*(y3*y3) - d*x1*(x3*x3)*(y1*y1)*y2*(y3*y3*y3) + d*x1*(x3*x3)*y2*(y3*y3*y3) + d*(x2*x2)*x3*(y1*y1*y1)*y2*(y3*y3) - d*(x2*x2)*x3*y1*y2*(y3*y3) + d*x2*(x3*x3)*(y1*y1*y1)*(y2*y2)*y3 - d*x2*(x3*x3)*(y1*y1*y1)*(y3*y3*y3) - d*x2*(x3*x3)*y1*(y2*y2)*y3 + d*x2*(x3*x3)*y1*(y3*y3*y3) - d*(x3*x3*x3)*(y1*y1*y1)*y2*(y3*y3) + d*(x3*x3*x3)*y1*y2*(y3*y3) + (x1*x1*x1)*x2*(x3*x3*x3) - (x1*x1*x1)*x2*x3*(y3*y3) + (x1*x1*x1)*x2*x3 + (x1*x1*x1)*(x3*x3)*y2*y3 - (x1*x1*x1)*y2*(y3*y3*y3) + (x1*x1*x1)*y2*y3 + (x1*x1)*x2*(x3*x3)*y1*y3 - (x1*x1)*x2*y1*(y3*y3*y3) + (x1*x1)*x2*y1*y3 + (x1*x1)*(x3*x3*x3)*y1*y2 - (x1*x1)*x3*y1*y2*(y3*y3) + (x1*x1)*x3*y1*y2 - x1*x2*(x3*x3*x3)*(y1*y1) + x1*x2*(x3*x3*x3) + x1*x2*x3*(y1*y1)*(y3*y3) - x1*x2*x3*(y1*y1) - x1*x2*x3*(y3*y3) + x1*x2*x3 - x1*(x3*x3)*(y1*y1)*y2*y3 + x1*(x3*x3)*y2*y3 + x1*(y1*y1)*y2*(y3*y3*y3) - x1*(y1*y1)*y2*y3 - x1*y2*(y3*y3*y3) + x1*y2*y3 - x2*(x3*x3)*(y1*y1*y1)*y3 + x2*(x3*x3)*y1*y3 + x2*(y1*y1*y1)*(y3*y3*y3) - x2*(y1*y1*y1)*y3 - x2*y1*(y3*y3*y3) + x2*y1*y3 - (x3*x3*x3)*(y1*y1*y1)*y2 + (x3*x3*x3)*y1*y2 + x3*(y1*y1*y1)*y2*(y3*y3) - x3*(y1*y1*y1)*y2 - x3*y1*y2*(y3*y3) + x3*y1*y2)*(-((x2*x2))+(y2*y2)-1-d*(x2*x2)*(y2*y2))
      + (-d*(x1*x1)*(x2*x2)*x3*y1*y2 + d*(x1*x1)*x2*y1*(y2*y2)*y3 + d*x1*(x2*x2)*(y1*y1)*y2*y3 - d*x1*x2*x3*(y1*y1)*(y2*y2) - (x1*x1*x1)*(x2*x2*x2)*x3 - (x1*x1*x1)*(x2*x2)*y2*y3 + (x1*x1*x1)*x2*x3*(y2*y2) - (x1*x1*x1)*x2*x3 + (x1*x1*x1)*(y2*y2*y2)*y3 - (x1*x1*x1)*y2*y3 - (x1*x1)*(x2*x2*x2)*y1*y3 - (x1*x1)*(x2*x2)*x3*y1*y2 + (x1*x1)*x2*y1*(y2*y2)*y3 - (x1*x1)*x2*y1*y3 + (x1*x1)*x3*y1*(y2*y2*y2) - (x1*x1)*x3*y1*y2 + x1*(x2*x2*x2)*x3*(y1*y1) - x1*(x2*x2*x2)*x3 + x1*(x2*x2)*(y1*y1)*y2*y3 - x1*(x2*x2)*y2*y3 - x1*x2*x3*(y1*y1)*(y2*y2) + x1*x2*x3*(y1*y1) + x1*x2*x3*(y2*y2) - x1*x2*x3 - x1*(y1*y1)*(y2*y2*y2)*y3 + x1*(y1*y1)*y2*y3 + x1*(y2*y2*y2)*y3 - x1*y2*y3 + (x2*x2*x2)*(y1*y1*y1)*y3 - (x2*x2*x2)*y1*y3 + (x2*x2)*x3*(y1*y1*y1)*y2 - (x2*x2)*x3*y1*y2 - x2*(y1*y1*y1)*(y2*y2)*y3 + x2*(y1*y1*y1)*y3 + x2*y1*(y2*y2)*y3 - x2*y1*y3 - x3*(y1*y1*y1)*(y2*y2*y2) + x3*(y1*y1*y1)*y2 + x3*y1*(y2*y2*y2) - x3*y1*y2)*(-((x3*x3))+(y3*y3)-1-d*(x3*x3)*(y3*y3)) := by
  grind

theorem assoc_y_key (d x1 y1 x2 y2 x3 y3 : F) :
    ((y1*y2+x1*x2)*(1+d*x1*x2*y1*y2)*y3+(x1*y2+y1*x2)*(1-d*x1*x2*y1*y2)*x3)*((1+d*x2*x3*y2*y3)*(1-d*x2*x3*y2*y3)-d*x1*y1*(x2*y3+y2*x3)*(y2*y3+x2*x3)) - (y1*(y2*y3+x2*x3)*(1+d*x2*x3*y2*y3)+x1*(x2*y3+y2*x3)*(1-d*x2*x3*y2*y3))*((1+d*x1*x2*y1*y2)*(1-d*x1*x2*y1*y2)-d*(x1*y2+y1*x2)*(y1*y2+x1*x2)*x3*y3)
      = ((d*d)*x1*(x2*x2*x2*x2)*x3*(y2*y2*y2)*(y3*y3) + (d*d)*x1*(x2*x2*x2)*(x3*x3)*(y2*y2*y2*y2)*y3 - (d*d)*(x2*x2*x2*x2)*(x3*x3)*y1*(y2*y2*y2)*y3 - (d*d)*(x2*x2*x2)*x3*y1*(y2*y2*y2*y2)*(y3*y3) + d*x1*(x2*x2*x2*x2)*x3*y2*(y3*y3) + d*x1*(x2*x2*x2)*(y2*y2)*(y3*y3*y3) - d*x1*(x2*x2*x2)*(y2*y2)*y3 - d*x1*(x2*x2)*(x3*x3*x3)*(y2*y2*y2) - d*x1*(x2*x2)*x3*(y2*y2*y2) - d*x1*x2*(x3*x3)*(y2*y2*y2*y2)*y3 - d*(x2*x2*x2*x2)*(x3*x3)*y1*y2*y3 - d*(x2*x2*x2)*(x3*x3*x3)*y1*(y2*y2) - d*(x2*x2*x2)*x3*y1*(y2*y2) + d*(x2*x2)*y1*(y2*y2*y2)*(y3*y3*y3) - d*(x2*x2)*y1*(y2*y2*y2)*y3 + d*x2*x3*y1*(y2*y2*y2*y2)*(y3*y3))*(-((x1*x1))+(y1*y1)-1-d*(x1*x1)*(y1*y1))
      + ((d*d)*(x1*x1)*(x2*x2)*(x3*x3)*y1*y2*(y3*y3*y3) - (d*d)*(x1*x1)*x2*(x3*x3*x3)*y1*(y2*y2)*(y3*y3) - (d*d)*x1*(x2*x2)*(x3*x3*x3)*(y1*y1)*y2*(y3*y3) + (d*d)*x1*x2*(x3*x3)*(y1*y1)*(y2*y2)*(y3*y3*y3) - d*(x1*x1*x1)*(x2*x2)*x3*y2*(y3*y3) - d*(x1*x1*x1)*x2*(x3*x3)*(y2*y2)*y3 + d*(x1*x1*x1)*x2*(x3*x3)*(y3*y3*y3) + d*(x1*x1*x1)*(x3*x3*x3)*y2*(y3*y3) + d*(x1*x1)*(x2*x2)*(x3*x3)*y1*y2*y3 + d*(x1*x1)*x2*(x3*x3*x3)*y1*(y3*y3) + d*(x1*x1)*x2*x3*y1*(y2*y2)*(y3*y3) + d*(x1*x1)*(x3*x3)*y1*y2*(y3*y3*y3) + d*x1*(x2*x2)*x3*(y1*y1)*y2*(y3*y3) - d*x1*(x2*x2)*x3*y2*(y3*y3) + d*x1*x2*(x3*x3)*(y1*y1)*(y2*y2)*y3 - d*x1*x2*(x3*x3)*(y1*y1)*(y3*y3*y3) - d*x1*x2*(x3*x3)*(y2*y2)*y3 + d*x1*x2*(x3*x3)*(y3*y3*y3) - d*x1*(x3*x3*x3)*(y1*y1)*y2*(y3*y3) + d*x1*(x3*x3*x3)*y2*(y3*y3) - d*(x2*x2)*(x3*x3)*(y1*y1*y1)*y2*y3 + d*(x2*x2)*(x3*x3)*y1*y2*y3 - d*x2*(x3*x3*x3)*(y1*y1*y1)*(y3*y3) + d*x2*(x3*x3*x3)*y1*(y3*y3) - d*x2*x3*(y1*y1*y1)*(y2*y2)*(y3*y3) + d*x2*x3*y1*(y2*y2)*(y3*y3) - d*(x3*x3)*(y1*y1*y1)*y2*(y3*y3*y3) + d*(x3*x3)*y1*y2*(y3*y3*y3) + (x1*x1*x1)*x2*(x3*x3)*y3 - (x1*x1*x1)*x2*(y3*y3*y3) + (x1*x1*x1)*x2*y3 + (x1*x1*x1)*(x3*x3*x3)*y2 - (x1*x1*x1)*x3*y2*(y3*y3) + (x1*x1*x1)*x3*y2 + (x1*x1)*x2*(x3*x3*x3)*y1 - (x1*x1)*x2*x3*y1*(y3*y3) + (x1*x1)*x2*x3*y1 + (x1*x1)*(x3*x3)*y1*y2*y3 - (x1*x1)*y1*y2*(y3*y3*y3) + (x1*x1)*y1*y2*y3 - x1*x2*(x3*x3)*(y1*y1)*y3 + x1*x2*(x3*x3)*y3 + x1*x2*(y1*y1)*(y3*y3*y3) - x1*x2*(y1*y1)*y3 - x1*x2*(y3*y3*y3) + x1*x2*y3 - x1*(x3*x3*x3)*(y1*y1)*y2 + x1*(x3*x3*x3)*y2 + x1*x3*(y1*y1)*y2*(y3*y3) - x1*x3*(y1*y1)*y2 - x1*x3*y2*(y3*y3) + x1*x3*y2 - x2*(x3*x3*x3)*(y1*y1*y1) + x2*(x3*x3*x3)*y1 + x2*x3*(y1*y1*y1)*(y3*y3) - x2*x3*(y1*y1*y1) - x2*x3*y1*(y3*y3) + x2*x3*y1 - (x3*x3)*(y1*y1*y1)*y2*y3 + (x3*x3)*y1*y2*y3 + (y1*y1*y1)*y2*(y3*y3*y3) - (y1*y1*y1)*y2*y3 - y1*y2*(y3*y3*y3) + y1*y2*y3)*(-((x2*x2))+(y2*y2)-1-d*(x2*x2)*(y2*y2))
      + (-d*(x1*x1)*(x2*x2)*y1*y2*y3 + d*(x1*x1)*x2*x3*y1*(y2*y2) + d*x1*(x2*x2)*x3*(y1*y1)*y2 - d*x1*x2*(y1*y1)*(y2*y2)*y3 - (x1*x1*x1)*(x2*x2*x2)*y3 - (x1*x1*x1)*(x2*x2)*x3*y2 + (x1*x1*x1)*x2*(y2*y2)*y3 - (x1*x1*x1)*x2*y3 + (x1*x1*x1)*x3*(y2*y2*y2) - (x1*x1*x1)*x3*y2 - (x1*x1)*(x2*x2*x2)*x3*y1 - (x1*x1)*(x2*x2)*y1*y2*y3 + (x1*x1)*x2*x3*y1*(y2*y2) - (x1*x1)*x2*x3*y1 + (x1*x1)*y1*(y2*y2*y2)*y3 - (x1*x1)*y1*y2*y3 + x1*(x2*x2*x2)*(y1*y1)*y3 - x1*(x2*x2*x2)*y3 + x1*(x2*x2)*x3*(y1*y1)*y2 - x1*(x2*x2)*x3*y2 - x1*x2*(y1*y1)*(y2*y2)*y3 + x1*x2*(y1*y1)*y3 + x1*x2*(y2*y2)*y3 - x1*x2*y3 - x1*x3*(y1*y1)*(y2*y2*y2) + x1*x3*(y1*y1)*y2 + x1*x3*(y2*y2*y2) - x1*x3*y2 + (x2*x2*x2)*x3*(y1*y1*y1) - (x2*x2*x2)*x3*y1 + (x2*x2)*(y1*y1*y1)*y2*y3 - (x2*x2)*y1*y2*y3 - x2*x3*(y1*y1*y1)*(y2*y2) + x2*x3*(y1*y1*y1) + x2*x3*y1*(y2*y2) - x2*x3*y1 - (y1*y1*y1)*(y2*y2*y2)*y3 + (y1*y1*y1)*y2*y3 + y1*(y2*y2*y2)*y3 - y1*y2*y3)*(-((x3*x3))+(y3*y3)-1-d*(x3*x3)*(y3*y3)) := by
  grind

private theorem cross_cancel {a b A B A' B' : F} (ha : a * B = A) (hb : b * B' = A')
    (hB : B ≠ 0) (hB' : B' ≠ 0) (hk : A * B' - A' * B = 0) : a = b := by
  have h : (a - b) * (B * B') = 0 := by grind
  have hne : B * B' ≠ 0 := by grind
  grind

private theorem frac_L {x6 E D1 D2 x4 y4 x3 y3 : F} (a6 : x6 * E = x4 * y3 + y4 * x3) :
    x6 * (D1 * D2 * E) = x4 * D1 * D2 * y3 + y4 * D2 * D1 * x3 := by
  have h : x6 * (D1 * D2 * E) = D1 * D2 * (x6 * E) := by grind
  rw [h, a6]; grind

private theorem frac_L' {y6 E D1 D2 x4 y4 x3 y3 : F} (b6 : y6 * E = y4 * y3 + x4 * x3) :
    y6 * (D1 * D2 * E) = y4 * D2 * D1 * y3 + x4 * D1 * D2 * x3 := by
  have h : y6 * (D1 * D2 * E) = D1 * D2 * (y6 * E) := by grind
  rw [h, b6]; grind

private theorem frac_R {x7 E D1 D2 x1 y1 x5 y5 : F} (a7 : x7 * E = x1 * y5 + y1 * x5) :
    x7 * (D1 * D2 * E) = x1 * (y5 * D2) * D1 + y1 * (x5 * D1) * D2 := by
  have h : x7 * (D1 * D2 * E) = D1 * D2 * (x7 * E) := by grind
  rw [h, a7]; grind

private theorem frac_R' {y7 E D1 D2 x1 y1 x5 y5 : F} (b7 : y7 * E = y1 * y5 + x1 * x5) :
    y7 * (D1 * D2 * E) = y1 * (y5 * D2) * D1 + x1 * (x5 * D1) * D2 := by
  have h : y7 * (D1 * D2 * E) = D1 * D2 * (y7 * E) := by grind
  rw [h, b7]; grind

private theorem den_L {D1 D2 x4 y4 N M x3 y3 d : F} (a4 : x4 * D1 = N) (b4 : y4 * D2 = M) :
    D1 * D2 + d * N * M * x3 * y3 = D1 * D2 * (1 + d * x4 * x3 * y4 * y3) := by
  rw [← a4, ← b4]; grind

private theorem den_L' {D1 D2 x4 y4 N M x3 y3 d : F} (a4 : x4 * D1 = N) (b4 : y4 * D2 = M) :
    D1 * D2 - d * N * M * x3 * y3 = D1 * D2 * (1 - d * x4 * x3 * y4 * y3) := by
  rw [← a4, ← b4]; grind

private theorem den_R {D1 D2 x5 y5 N M x1 y1 d : F} (a5 : x5 * D1 = N) (b5 : y5 * D2 = M) :
    D1 * D2 + d * x1 * y1 * N * M = D1 * D2 * (1 + d * x1 * x5 * y1 * y5) := by
  rw [← a5, ← b5]; grind

private theorem den_R' {D1 D2 x5 y5 N M x1 y1 d : F} (a5 : x5 * D1 = N) (b5 : y5 * D2 = M) :
    D1 * D2 - d * x1 * y1 * N * M = D1 * D2 * (1 - d * x1 * x5 * y1 * y5) := by
  rw [← a5, ← b5]; grind

private theorem mul3_ne {a b c : F} (ha : a ≠ 0) (hb : b ≠ 0) (hc : c ≠ 0) : a * b * c ≠ 0 := by
  grind

/-- **Associativity, relational form** (no division): if `(x₄,y₄) = P₁ + P₂`, `(x₅,y₅) = P₂ + P₃`,
`(x₆,y₆) = (x₄,y₄) + P₃` and `(x₇,y₇) = P₁ + (x₅,y₅)` in the sense of `EdSum`, then
`(x₆,y₆) = (x₇,y₇)`. -/
theorem edSum_assoc {d : F} (hc : EdComplete d) {x1 y1 x2 y2 x3 y3 x4 y4 x5 y5 x6 y6 x7 y7 : F}
    (h1 : EdOn d x1 y1) (h2 : EdOn d x2 y2) (h3 : EdOn d x3 y3)
    (s4 : EdSum d x1 y1 x2 y2 x4 y4) (s5 : EdSum d x2 y2 x3 y3 x5 y5)
    (s6 : EdSum d x4 y4 x3 y3 x6 y6) (s7 : EdSum d x1 y1 x5 y5 x7 y7) : x6 = x7 ∧ y6 = y7 := by
  have h4 : EdOn d x4 y4 := edSum_closed hc h1 h2 s4
  have h5 : EdOn d x5 y5 := edSum_closed hc h2 h3 s5
  obtain ⟨n4p, n4m⟩ := ed_denominators_ne_zero hc h1 h2
  obtain ⟨n5p, n5m⟩ := ed_denominators_ne_zero hc h2 h3
  obtain ⟨n6p, n6m⟩ := ed_denominators_ne_zero hc h4 h3
  obtain ⟨n7p, n7m⟩ := ed_denominators_ne_zero hc h1 h5
  obtain ⟨a4, b4⟩ := s4
  obtain ⟨a5, b5⟩ := s5
  obtain ⟨a6, b6⟩ := s6
  obtain ⟨a7, b7⟩ := s7
  have g1 : (-(x1*x1)+y1*y1-1-d*(x1*x1)*(y1*y1)) = 0 := by unfold EdOn at h1; grind
  have g2 : (-(x2*x2)+y2*y2-1-d*(x2*x2)*(y2*y2)) = 0 := by unfold EdOn at h2; grind
  have g3 : (-(x3*x3)+y3*y3-1-d*(x3*x3)*(y3*y3)) = 0 := by unfold EdOn at h3; grind
  -- the two bracketings as fractions of polynomials in the inputs
  have fBL : (1+d*x1*x2*y1*y2)*(1-d*x1*x2*y1*y2)+d*(x1*y2+y1*x2)*(y1*y2+x1*x2)*x3*y3 = (1+d*x1*x2*y1*y2)*(1-d*x1*x2*y1*y2)*(1 + d*x4*x3*y4*y3) := den_L a4 b4
  have fCL : (1+d*x1*x2*y1*y2)*(1-d*x1*x2*y1*y2)-d*(x1*y2+y1*x2)*(y1*y2+x1*x2)*x3*y3 = (1+d*x1*x2*y1*y2)*(1-d*x1*x2*y1*y2)*(1 - d*x4*x3*y4*y3) := den_L' a4 b4
  have fBR : (1+d*x2*x3*y2*y3)*(1-d*x2*x3*y2*y3)+d*x1*y1*(x2*y3+y2*x3)*(y2*y3+x2*x3) = (1+d*x2*x3*y2*y3)*(1-d*x2*x3*y2*y3)*(1 + d*x1*x5*y1*y5) := den_R a5 b5
  have fCR : (1+d*x2*x3*y2*y3)*(1-d*x2*x3*y2*y3)-d*x1*y1*(x2*y3+y2*x3)*(y2*y3+x2*x3) = (1+d*x2*x3*y2*y3)*(1-d*x2*x3*y2*y3)*(1 - d*x1*x5*y1*y5) := den_R' a5 b5
  have eL : x6 * ((1+d*x1*x2*y1*y2)*(1-d*x1*x2*y1*y2)+d*(x1*y2+y1*x2)*(y1*y2+x1*x2)*x3*y3) = (x1*y2+y1*x2)*(1-d*x1*x2*y1*y2)*y3+(y1*y2+x1*x2)*(1+d*x1*x2*y1*y2)*x3 := by
    rw [fBL, ← a4, ← b4]; exact frac_L a6
  have eR : x7 * ((1+d*x2*x3*y2*y3)*(1-d*x2*x3*y2*y3)+d*x1*y1*(x2*y3+y2*x3)*(y2*y3+x2*x3)) = x1*(y2*y3+x2*x3)*(1+d*x2*x3*y2*y3)+y1*(x2*y3+y2*x3)*(1-d*x2*x3*y2*y3) := by
    rw [fBR, ← a5, ← b5]; exact frac_R a7
  have eL' : y6 * ((1+d*x1*x2*y1*y2)*(1-d*x1*x2*y1*y2)-d*(x1*y2+y1*x2)*(y1*y2+x1*x2)*x3*y3) = (y1*y2+x1*x2)*(1+d*x1*x2*y1*y2)*y3+(x1*y2+y1*x2)*(1-d*x1*x2*y1*y2)*x3 := by
    rw [fCL, ← a4, ← b4]; exact frac_L' b6
  have eR' : y7 * ((1+d*x2*x3*y2*y3)*(1-d*x2*x3*y2*y3)-d*x1*y1*(x2*y3+y2*x3)*(y2*y3+x2*x3)) = y1*(y2*y3+x2*x3)*(1+d*x2*x3*y2*y3)+x1*(x2*y3+y2*x3)*(1-d*x2*x3*y2*y3) := by
    rw [fCR, ← a5, ← b5]; exact frac_R' b7
  have nBL : (1+d*x1*x2*y1*y2)*(1-d*x1*x2*y1*y2)+d*(x1*y2+y1*x2)*(y1*y2+x1*x2)*x3*y3 ≠ 0 := by rw [fBL]; exact mul3_ne n4p n4m n6p
  have nBR : (1+d*x2*x3*y2*y3)*(1-d*x2*x3*y2*y3)+d*x1*y1*(x2*y3+y2*x3)*(y2*y3+x2*x3) ≠ 0 := by rw [fBR]; exact mul3_ne n5p n5m n7p
  have nCL : (1+d*x1*x2*y1*y2)*(1-d*x1*x2*y1*y2)-d*(x1*y2+y1*x2)*(y1*y2+x1*x2)*x3*y3 ≠ 0 := by rw [fCL]; exact mul3_ne n4p n4m n6m
  have nCR : (1+d*x2*x3*y2*y3)*(1-d*x2*x3*y2*y3)-d*x1*y1*(x2*y3+y2*x3)*(y2*y3+x2*x3) ≠ 0 := by rw [fCR]; exact mul3_ne n5p n5m n7m
  have kx := assoc_x_key d x1 y1 x2 y2 x3 y3
  have ky := assoc_y_key d x1 y1 x2 y2 x3 y3
  rw [g1, g2, g3] at kx ky
  constructor
  · exact cross_cancel eL eR nBL nBR (by rw [kx]; grind)
  · exact cross_cancel eL' eR' nCL nCR (by rw [ky]; grind)

/-- **Associativity of the twisted-Edwards law on curve points** (`a = -1`, `d` a non-square,
`-1` a square): the hypothesis `EdAssoc` of the scalar-multiplication theorems is a theorem. -/
theorem edwards_assoc {d : F} (hc : EdComplete d) : EdAssoc d := by
  intro P Q R hP hQ hR
  have hPQ := edAdd_closed hc hP hQ
  have hQR := edAdd_closed hc hQ hR
  have s4 := edAdd_sum hc hP hQ
  have s5 := edAdd_sum hc hQ hR
  have s6 := edAdd_sum hc hPQ hR
  have s7 := edAdd_sum hc hP hQR
  obtain ⟨ex, ey⟩ := edSum_assoc hc hP hQ hR s4 s5 s6 s7
  exact Prod.ext ex ey

end MidnightZK.C06
