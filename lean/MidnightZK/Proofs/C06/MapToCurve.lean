import MidnightZK.Proofs.C06.Svdw
import MidnightZK.Proofs.C06.Edwards
import MidnightZK.Model.ModArith
/-!
# C06 — map-to-curve: selection, rational maps, and in-circuit uniqueness (core Lean only)

* `svdw_chosen_square`: the `x` selected by steps 27–28 has `g(x)` a square, for every `u`;
* `weierstrass_to_montgomery_on_curve`, `montgomery_to_edwards_on_curve`: the two rational maps
  send curve points to curve points, exceptional cases included;
* `is_square_bit_forced`, `sqrt_two_roots`, `sign_select_unique`, `svdw_gx_ne_zero`: what makes the
  in-circuit gadget deterministic (the `is_square` bit is forced for a non-zero argument, the two
  admissible square-root witnesses give the same output, and `g(x1)`, `g(x2)` never vanish).
-/
namespace MidnightZK.C06
open Lean.Grind

variable {F : Type} [Field F]

theorem eq_zero_of_mul_eq_zero {a b : F} (h : a * b = 0) (ha : a ≠ 0) : b = 0 := by
  have hv := Field.mul_inv_cancel ha
  generalize a⁻¹ = v at hv
  have : b = (a * v) * b := by rw [hv]; grind
  rw [this]
  have : a * v * b = v * (a * b) := by grind
  rw [this, h]; grind

/-- Steps 15, 21, 27, 28: `e1 = is_square(gx1)`, `e2 = is_square(gx2) ∧ ¬e1`,
`x = CMOV(CMOV(x3, x1, e1), x2, e2)`. -/
def svdwSelect (e1 e2 : Bool) (x1 x2 x3 : F) : F :=
  if e2 then x2 else if e1 then x1 else x3

/-- **The selected `x` has a square `g(x)`** as soon as one of the three candidates does. -/
theorem svdw_select_square (A B x1 x2 x3 : F) (e1 e2 s2 : Bool)
    (he1 : e1 = true ↔ IsSq (wg A B x1))
    (hs2 : s2 = true ↔ IsSq (wg A B x2))
    (he2 : e2 = (s2 && !e1))
    (hone : IsSq (wg A B x1) ∨ IsSq (wg A B x2) ∨ IsSq (wg A B x3)) :
    IsSq (wg A B (svdwSelect e1 e2 x1 x2 x3)) := by
  unfold svdwSelect
  cases h1 : e1 <;> cases h2 : s2 <;> simp [he2, h1, h2]
  · -- neither flag: x3
    rcases hone with h | h | h
    · exact absurd (he1.mpr h) (by simp [h1])
    · exact absurd (hs2.mpr h) (by simp [h2])
    · exact h
  · exact hs2.mp h2
  · exact he1.mp h1
  · exact he1.mp h1

/-! ## Weierstrass → Montgomery → twisted Edwards -/

/-- `weierstrass_to_montgomery`: `(x, y) ↦ (K x − J/3, K y)` sends `y² = x³ + A x + B` to
`K y² = x³ + J x² + x` when `K² A = 1 − J²/3` and `K³ B = (2J³ − 9J)/27` (`t = J/3`). -/
theorem weierstrass_to_montgomery_on_curve (A B J K t x y : F)
    (hJ : 3 * t = J) (hA : K * K * A = 1 - 3 * t * t) (hB : K * K * K * B = 2 * t * t * t - t)
    (hon : y * y = wg A B x) :
    K * ((y * K) * (y * K))
      = (x * K - t) * (x * K - t) * (x * K - t) + J * ((x * K - t) * (x * K - t)) + (x * K - t) := by
  unfold wg at hon
  have e : K * ((y * K) * (y * K)) = K * K * K * (y * y) := by grind
  rw [e, hon]
  have e2 : K * K * K * (x * x * x + A * x + B)
      = K * K * K * (x * x * x) + K * (K * K * A) * x + K * K * K * B := by grind
  rw [e2, hA, hB, ← hJ]; grind

/-- `montgomery_to_edwards`, generic case (`i = ((s+1) t)⁻¹`): `(s, t) ↦ (s/t, (s−1)/(s+1))` sends
`K t² = s³ + J s² + s` to `−v² + w² = 1 + d v² w²` when `K = −(J+2)` and `K d = J − 2`. -/
theorem montgomery_to_edwards_generic (J K d s t i : F)
    (hK : K = -(J + 2)) (hd : K * d = J - 2) (hK0 : K ≠ 0)
    (hon : K * (t * t) = s * s * s + J * (s * s) + s)
    (hi : i * ((s + 1) * t) = 1) :
    EdOn d (i * (s + 1) * s) (i * t * (s - 1)) := by
  unfold EdOn
  -- the bracket that vanishes on the Montgomery curve
  have hb : K * (-((s + 1) ^ 2 * s ^ 2) + t ^ 2 * (s - 1) ^ 2 - (s + 1) ^ 2 * t ^ 2
      - d * (s ^ 2 * (s - 1) ^ 2)) = 0 := by
    have e : K * (-((s + 1) ^ 2 * s ^ 2) + t ^ 2 * (s - 1) ^ 2 - (s + 1) ^ 2 * t ^ 2
        - d * (s ^ 2 * (s - 1) ^ 2))
        = (K * (t * t)) * ((s - 1) ^ 2 - (s + 1) ^ 2) - K * ((s + 1) ^ 2 * s ^ 2)
          - (K * d) * (s ^ 2 * (s - 1) ^ 2) := by grind
    rw [e, hon, hd, hK]; grind
  have hb0 := eq_zero_of_mul_eq_zero hb hK0
  -- homogenise with (i (s+1) t) = 1
  generalize hq : (s + 1) * t = q at hi
  have hv : i * (s + 1) * s = i * (s + 1) * s := rfl
  have t1 : -(i * (s + 1) * s * (i * (s + 1) * s)) + i * t * (s - 1) * (i * t * (s - 1))
        - (1 + d * (i * (s + 1) * s * (i * (s + 1) * s)) * (i * t * (s - 1) * (i * t * (s - 1))))
      = (i * i * i * i) * (((s + 1) * t) * ((s + 1) * t)) *
          (-((s + 1) ^ 2 * s ^ 2) + t ^ 2 * (s - 1) ^ 2 - (s + 1) ^ 2 * t ^ 2
            - d * (s ^ 2 * (s - 1) ^ 2)) := by
    have one2 : (1 : F) = (i * q) * (i * q) := by rw [hi]; grind
    have one4 : (1 : F) = (i * q) * (i * q) * ((i * q) * (i * q)) := by rw [hi]; grind
    have a1 : i * (s + 1) * s * (i * (s + 1) * s)
        = (i * (s + 1) * s * (i * (s + 1) * s)) * ((i * q) * (i * q)) := by rw [hi]; grind
    have a2 : i * t * (s - 1) * (i * t * (s - 1))
        = (i * t * (s - 1) * (i * t * (s - 1))) * ((i * q) * (i * q)) := by rw [hi]; grind
    rw [a1, a2]
    conv => lhs; arg 2; arg 1; rw [one4]
    rw [← hq]; grind
  rw [hb0] at t1
  grind

/-- `montgomery_to_edwards`, exceptional case (`(s+1) t = 0`, `inv0` gives `0`): the output is
`(0, 1)`, the neutral element. -/
theorem montgomery_to_edwards_exceptional (d s : F) :
    EdOn d ((0 : F) * (s + 1) * s) 1 := by
  unfold EdOn; grind

/-! ## Determinism of the in-circuit gadget -/

/-- **`is_square` forces its bit on a non-zero argument**: the gadget witnesses a bit `b` and a
square root of `select(b, x, x·qnr)`; with `qnr` a non-square and `x ≠ 0`, `x` and `x · qnr`
cannot both be squares. (For `x = 0` both bits are accepted: see `is_square_zero_free`.) -/
theorem is_square_bit_forced (x q : F) (hq : ¬ IsSq q) (hx : x ≠ 0) :
    ¬ (IsSq x ∧ IsSq (x * q)) := by
  rintro ⟨⟨s, hs⟩, ⟨r, hr⟩⟩
  apply hq
  have hs0 : s ≠ 0 := by intro h0; apply hx; rw [← hs, h0]; grind
  have hv := Field.mul_inv_cancel hs0
  refine ⟨r * s⁻¹, ?_⟩
  generalize s⁻¹ = v at hv ⊢
  have e : r * v * (r * v) = (r * r) * (v * v) := by grind
  rw [e, hr, ← hs]
  have e2 : s * s * q * (v * v) = (s * v) * (s * v) * q := by grind
  rw [e2, hv]; grind

/-- … and it does not for `x = 0`: `0` and `0 · qnr` are both squares, the bit is free. -/
theorem is_square_zero_free (q : F) : IsSq (0 : F) ∧ IsSq ((0 : F) * q) :=
  ⟨⟨0, by grind⟩, ⟨0, by grind⟩⟩

/-- The two admissible witnesses of step 33 (`y² = gx`). -/
theorem sqrt_two_roots (y y' : F) (h : y * y = y' * y') : y' = y ∨ y' = -y := by
  by_cases h1 : y' - y = 0
  · left; grind
  · right
    have : (y' - y) * (y' + y) = 0 := by grind
    have := eq_zero_of_mul_eq_zero this h1
    grind

/-- Steps 34–35 over canonical representatives: `y ↦ if sgn0 u = sgn0 y then y else −y`. -/
def signSelect (p u y : Nat) : Nat :=
  if ((u % p) % 2 == 1) == ((y % p) % 2 == 1) then y else negMod y p

/-- **Both square-root witnesses give the same output** (`p` odd): the returned `y` does not
depend on which root the prover (or `sqrt()`) picked. -/
theorem sign_select_unique (p u y : Nat) (hp : p % 2 = 1) (hy : y < p) :
    signSelect p u (negMod y p) = signSelect p u y := by
  unfold signSelect negMod
  by_cases h0 : y = 0
  · subst h0; simp
  · have h1 : y % p = y := Nat.mod_eq_of_lt hy
    have h2 : (p - y) % p = p - y := Nat.mod_eq_of_lt (by omega)
    rw [h1, h2, h2]
    have h3 : (p - (p - y)) % p = y := by
      have : p - (p - y) = y := by omega
      rw [this, h1]
    rw [h3]
    by_cases hyp : y % 2 = 1
    · have hpy : (p - y) % 2 = 0 := by omega
      by_cases hu : (u % p) % 2 = 1
      · simp [hu, hyp, hpy]
      · have hu0 : (u % p) % 2 = 0 := by omega
        simp [hu0, hyp, hpy]
    · have hy0 : y % 2 = 0 := by omega
      have hpy : (p - y) % 2 = 1 := by omega
      by_cases hu : (u % p) % 2 = 1
      · simp [hu, hy0, hpy]
      · have hu0 : (u % p) % 2 = 0 := by omega
        simp [hu0, hy0, hpy]

/-- `g(x) = 0` only at `ρ` when the cofactor `x² + ρx + ρ² + A` has a non-square discriminant. -/
theorem wg_root_unique (A B ρ x : F) (hρ : wg A B ρ = 0)
    (hdisc : ¬ IsSq (ρ * ρ - 4 * (ρ * ρ + A))) (hx : wg A B x = 0) : x = ρ := by
  unfold wg at *
  have hf : (x - ρ) * (x * x + ρ * x + ρ * ρ + A) = 0 := by grind
  by_cases h : x - ρ = 0
  · grind
  · have hq := eq_zero_of_mul_eq_zero hf h
    exfalso; apply hdisc
    exact ⟨2 * x + ρ, by grind⟩

/-- **`g(x1)` and `g(x2)` never vanish** on non-exceptional inputs when `g` has the single root
`ρ` and `c3² − 4 c1 (c2 − ρ)²` is a non-square: `x = c2 ∓ c3·u/tv2 = ρ` would make
`(2 (c2−ρ) c1 u ∓ c3)²` equal to that discriminant. -/
theorem svdw_gx_ne_zero (A B ρ c1 c2 c3 u j sgn : F) (hρ : wg A B ρ = 0)
    (hdiscg : ¬ IsSq (ρ * ρ - 4 * (ρ * ρ + A)))
    (hdisc : ¬ IsSq (c3 * c3 - 4 * (c1 * (c2 - ρ)) * (c2 - ρ)))
    (hj : j * (1 + u * u * c1) = 1) (hs : sgn = 1 ∨ sgn = -1) :
    wg A B (c2 - sgn * (u * j * c3)) ≠ 0 := by
  intro h0
  have hx := wg_root_unique A B ρ _ hρ hdiscg h0
  apply hdisc
  -- (c2 − ρ)(1 + c1 u²) = sgn · c3 u
  have e : (c2 - ρ) * (1 + u * u * c1) = sgn * (c3 * u) := by
    have : (c2 - ρ) = sgn * (u * j * c3) := by grind
    rw [this]
    have : sgn * (u * j * c3) * (1 + u * u * c1) = sgn * (c3 * u) * (j * (1 + u * u * c1)) := by
      grind
    rw [this, hj]; grind
  refine ⟨2 * (c2 - ρ) * c1 * u - sgn * c3, ?_⟩
  have hss : sgn * sgn = 1 := by rcases hs with h | h <;> rw [h] <;> grind
  have : (2 * (c2 - ρ) * c1 * u - sgn * c3) * (2 * (c2 - ρ) * c1 * u - sgn * c3)
      = 4 * (c1 * (c2 - ρ)) * ((c2 - ρ) * (1 + u * u * c1) - sgn * (c3 * u))
        - 4 * (c1 * (c2 - ρ)) * (c2 - ρ) + (sgn * sgn) * (c3 * c3) := by grind
  rw [this, e, hss]; grind

/-! ## `repr_J` (point compression of Jubjub) -/

/-- On `−x² + y² = 1 + d x² y²` (`d` a non-square, `−1 = i²`) the ordinate determines the abscissa
up to sign. -/
theorem ed_abscissa_up_to_sign (d i x x' y : F) (hi : i * i = -1) (hd : ∀ t : F, t * t ≠ d)
    (h1 : EdOn d x y) (h2 : EdOn d x' y) : x' = x ∨ x' = -x := by
  unfold EdOn at h1 h2
  have hden : 1 + d * (y * y) ≠ 0 := by
    intro h0
    have hy : y ≠ 0 := by intro hy; subst hy; grind
    have hv := Field.mul_inv_cancel hy
    apply hd (i * y⁻¹)
    generalize y⁻¹ = v at hv ⊢
    have e : i * v * (i * v) = (i * i) * (v * v) := by grind
    rw [e, hi]
    have : d = d * ((y * v) * (y * v)) := by rw [hv]; grind
    rw [this]
    have : d * ((y * v) * (y * v)) = (d * (y * y)) * (v * v) := by grind
    rw [this]
    have : d * (y * y) = -1 := by grind
    rw [this]
  have hprod : (1 + d * (y * y)) * (x * x - x' * x') = 0 := by grind
  have hsq := eq_zero_of_mul_eq_zero hprod hden
  exact sqrt_two_roots x x' (by grind)

/-- `repr_J` as an integer (little-endian bytes of `v`, top bit of byte 31 = `sgn0(u)`):
`jubjub::SubgroupPoint::to_bytes`, `into_bytes.rs: into_bytes_incircuit`
(`bytes(v)`, `byte_31 + 128 · sgn0(u)`). -/
def reprJ (p u v : Nat) : Nat := v % p + 2 ^ 255 * (if (u % p) % 2 == 1 then 1 else 0)

/-- `repr_J` is injective on pairs with the same `u` up to sign (which is all pairs of curve points
with the same `v`, `ed_abscissa_up_to_sign`), for an odd modulus below `2^255`. -/
theorem reprJ_injective_aux (p u v u' v' : Nat) (hp : p % 2 = 1) (hp255 : p < 2 ^ 255)
    (hu : u < p) (hv : v < p) (hu' : u' < p) (hv' : v' < p)
    (hpm : v = v' → (u' = u ∨ u' = negMod u p))
    (h : reprJ p u v = reprJ p u' v') : u = u' ∧ v = v' := by
  unfold reprJ at h
  rw [Nat.mod_eq_of_lt hu, Nat.mod_eq_of_lt hu', Nat.mod_eq_of_lt hv, Nat.mod_eq_of_lt hv'] at h
  have hvv : v = v' ∧ ((u % 2 == 1) = (u' % 2 == 1)) := by
    generalize hsu : (if (u % 2 == 1) = true then 1 else 0 : Nat) = su at h
    generalize hsu' : (if (u' % 2 == 1) = true then 1 else 0 : Nat) = su' at h
    have b1 : su ≤ 1 ∧ (su = 1 ↔ u % 2 = 1) := by
      rw [← hsu]; by_cases a : u % 2 = 1 <;> simp [a]
    have b2 : su' ≤ 1 ∧ (su' = 1 ↔ u' % 2 = 1) := by
      rw [← hsu']; by_cases a : u' % 2 = 1 <;> simp [a]
    have hs : v = v' ∧ su = su' := by omega
    refine ⟨hs.1, ?_⟩
    have : (u % 2 = 1) ↔ (u' % 2 = 1) := by rw [← b1.2, ← b2.2, hs.2]
    by_cases a : u % 2 = 1
    · have b := this.mp a; rw [a, b]
    · have b : ¬ u' % 2 = 1 := fun hb => a (this.mpr hb)
      have a0 : u % 2 = 0 := by omega
      have b0 : u' % 2 = 0 := by omega
      rw [a0, b0]
  refine ⟨?_, hvv.1⟩
  rcases hpm hvv.1 with e | e
  · exact e.symm
  · unfold negMod at e
    rw [Nat.mod_eq_of_lt hu] at e
    by_cases h0 : u = 0
    · subst h0; simp at e; omega
    · have e' : u' = p - u := by rw [e]; exact Nat.mod_eq_of_lt (by omega)
      have hpar := hvv.2
      exfalso
      by_cases a : u % 2 = 1
      · have : u' % 2 = 0 := by omega
        simp [a, this] at hpar
      · have a0 : u % 2 = 0 := by omega
        have : u' % 2 = 1 := by omega
        simp [a0, this] at hpar

end MidnightZK.C06
