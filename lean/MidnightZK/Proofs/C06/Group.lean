import Mathlib.Algebra.BigOperators.Group.Finset.Basic
import Mathlib.Algebra.Module.Basic
import Mathlib.Tactic.Abel
import Mathlib.Algebra.BigOperators.GroupWithZero.Action
import MidnightZK.Model.C06.Weierstrass
/-!
# C06 — the multiplication algorithms of the foreign chip over an abstract commutative group

The instruction-level theorems (`foreign_add_complete_sound`, `foreign_double_complete_sound`)
show that `add`, `double`, `incomplete_add` (under its preconditions) return the group sum. Here
the algorithms built on them are proved correct in any commutative group `G`:
`mul_by_u128` (double-and-add from the least significant bit), the windowed multi-scalar
multiplication with its prover-chosen blinding point, and the GLV re-check.
-/
namespace MidnightZK.C06
open Finset

variable {G : Type} [AddCommGroup G]

/-! ## `mul_by_u128` -/

/-- Value of the optional accumulator (`None` = nothing added yet). -/
def optVal : Option G → G
  | none => 0
  | some a => a

theorem mulLsbG_val (fuel : ℕ) : ∀ (n : ℕ) (tmp : G) (res : Option G), n < 2 ^ fuel →
    optVal (WCurve.mulLsbG (· + ·) (fun x => x + x) fuel n tmp res) = optVal res + n • tmp := by
  induction fuel with
  | zero =>
    intro n tmp res h
    have : n = 0 := by simpa using h
    subst this; simp [WCurve.mulLsbG]
  | succ f ih =>
    intro n tmp res h
    unfold WCurve.mulLsbG
    split
    · next h0 => subst h0; simp
    · next h0 =>
      have hlt : n / 2 < 2 ^ f := by
        have : 2 ^ (f + 1) = 2 * 2 ^ f := by rw [pow_succ]; ring
        omega
      simp only
      rw [ih _ _ _ hlt]
      have hn : n = 2 * (n / 2) + n % 2 := by omega
      have e2 : (n / 2) • (tmp + tmp) = (2 * (n / 2)) • tmp := by
        rw [mul_smul, two_smul, smul_add]
      rw [e2]
      rcases Nat.mod_two_eq_zero_or_one n with hm | hm
      · simp only [hm, Nat.zero_ne_one, if_false]
        conv => rhs; rw [hn, hm, Nat.add_zero]
      · simp only [hm, if_true]
        conv => rhs; rw [hn, hm, add_smul, one_smul]
        cases res with
        | none => simp only [optVal]; abel
        | some a => simp only [optVal]; abel

/-- The accumulator stays `None` only for `n = 0` (the code returns `assign_fixed(identity)` in
that case before entering the loop, and `res.unwrap()` is safe otherwise). -/
theorem mulLsbG_isSome (fuel : ℕ) : ∀ (n : ℕ) (tmp : G) (res : Option G), n < 2 ^ fuel → 0 < n →
    (WCurve.mulLsbG (· + ·) (fun x => x + x) fuel n tmp res).isSome = true := by
  induction fuel with
  | zero => intro n tmp res h hp; simp at h; omega
  | succ f ih =>
    intro n tmp res h hp
    unfold WCurve.mulLsbG
    have h0 : n ≠ 0 := by omega
    simp only [h0, if_false]
    have hlt : n / 2 < 2 ^ f := by
      have : 2 ^ (f + 1) = 2 * 2 ^ f := by rw [pow_succ]; ring
      omega
    by_cases hh : 0 < n / 2
    · exact ih _ _ _ hlt hh
    · have hn1 : n = 1 := by omega
      subst hn1
      cases f with
      | zero => cases res <;> simp [WCurve.mulLsbG]
      | succ f' => cases res <;> simp [WCurve.mulLsbG]

/-! ## Windowed multi-scalar multiplication with a blinding point -/

/-- `Σ_{j<l} k j • P j`. -/
def dotN (l : ℕ) (k : ℕ → ℕ) (P : ℕ → G) : G := ∑ j ∈ range l, k j • P j

/-- One iteration of `windowed_msm`: `ws` doublings, then for every base `j` the addition of the
table entry `k_j·P_j − α` selected by the window `k_j`. -/
def windowStep (ws l : ℕ) (α : G) (P : ℕ → G) (acc : G) (k : ℕ → ℕ) : G :=
  2 ^ ws • acc + ∑ j ∈ range l, (k j • P j - α)

/-- The scalars accumulated after a list of window columns (most significant first). -/
def combine (ws : ℕ) (s : ℕ → ℕ) : List (ℕ → ℕ) → (ℕ → ℕ)
  | [] => s
  | k :: rest => combine ws (fun j => 2 ^ ws * s j + k j) rest

theorem windowStep_inv (ws l : ℕ) (R : G) (P : ℕ → G) (s k : ℕ → ℕ) :
    windowStep ws l ((2 ^ ws - 1) • R) P (l • R + dotN l s P) k
      = l • R + dotN l (fun j => 2 ^ ws * s j + k j) P := by
  unfold windowStep dotN
  rw [Finset.sum_sub_distrib, Finset.sum_const, card_range, smul_add, Finset.smul_sum]
  simp only [add_smul, mul_smul, Finset.sum_add_distrib]
  have h1 : (2 ^ ws : ℕ) • (l • R) = l • R + l • ((2 ^ ws - 1) • R) := by
    have hp : 1 ≤ 2 ^ ws := Nat.one_le_two_pow
    rw [← mul_smul, ← mul_smul, ← add_smul]
    congr 1
    have : l * (2 ^ ws - 1) = l * 2 ^ ws - l := by rw [Nat.mul_sub, Nat.mul_one]
    have h2 : l ≤ l * 2 ^ ws := Nat.le_mul_of_pos_right l (by omega)
    rw [this]; rw [Nat.mul_comm (2 ^ ws) l]; omega
  rw [h1]; abel

theorem windowed_fold (ws l : ℕ) (R : G) (P : ℕ → G) :
    ∀ (rows : List (ℕ → ℕ)) (s : ℕ → ℕ),
      rows.foldl (windowStep ws l ((2 ^ ws - 1) • R) P) (l • R + dotN l s P)
        = l • R + dotN l (combine ws s rows) P
  | [], s => rfl
  | k :: rest, s => by
    rw [List.foldl_cons, windowStep_inv, windowed_fold ws l R P rest]
    rfl

/-! ## GLV -/

/-- `glv_split`: from `x = ±x₁ + ζ·(±x₂)` (asserted in the scalar field, here as integers modulo
the group order through the `ℤ`-action) and `φ(P) = ζ•P`, the two half-size terms recombine to
`x•P`, for every sign choice of the prover. -/
theorem glv_recombine (P φP : G) (x x1 x2 ζ : ℤ) (s1 s2 : Bool)
    (hφ : φP = ζ • P)
    (hx : x • P = ((if s1 then x1 else -x1) + ζ * (if s2 then x2 else -x2)) • P) :
    x • P = x1 • (if s1 then P else -P) + x2 • (if s2 then φP else -φP) := by
  rw [hx, hφ, add_smul, mul_smul]
  cases s1 <;> cases s2 <;> simp [smul_neg, neg_smul, smul_comm ζ x2 P]

end MidnightZK.C06
