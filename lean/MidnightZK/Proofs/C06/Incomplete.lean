import Mathlib.Data.ZMod.Basic
import MidnightZK.Proofs.C06.Group
/-!
# C06 — the multiplication loops of the foreign chip with INCOMPLETE additions

`Proofs/C06/Group.lean` proves `mul_by_u128` and `windowed_msm` correct when every addition is the
group addition. The chip, however, uses `incomplete_add`, whose constraints (coordinate level:
`Proofs/C06/ForeignWiring.lean`) say, for non-identity operands `a`, `b`:

* `a = −b`  : unsatisfiable            (`incomplete_add_opposite_unsat`)
* `a ≠ ±b`  : `r = a + b`              (`incomplete_add_sound`)
* `a = b`   : NOTHING about `r`        (`incomplete_add_equal_free`)

`IncAddG` is exactly this relation in an abstract commutative group. The loops are mirrored as
relations (`MulLsbRel`, `InnerRel`, `WindowLoopRel`) whose additions are `IncAddG`, and the
theorems say under which side conditions — the ones the chip emits or relies on — the relation
still forces the group result:

* `mul_by_u128_incomplete_sound`: needs `m • p ≠ 0` for `0 < m < 2^fuel` (the order argument of
  the source comment: "all non-identity points have order ORDER > 2^129");
* `mul_by_u128_small_order_unconstrained`: without it the result is unconstrained (`ℤ/3`, `n = 5`)
  — this is reachable on BLS12-381 G1, whose curve group has cofactor `3·11²·…` and whose points
  are only constrained to the curve;
* `window_loop_incomplete_sound`: with `incomplete_assert_different_x(acc, addend)` before every
  addition the loop is the exact fold of `windowStep`; `windowed_msm_incomplete_sound` concludes.
-/
namespace MidnightZK.C06
open Finset

variable {G : Type} [AddCommGroup G]

/-- Group-level content of the constraints of `incomplete_add(a, b)` for non-identity operands. -/
def IncAddG (a b r : G) : Prop := a ≠ -b ∧ (a ≠ b → r = a + b)

/-- The missing exclusion: for equal operands every `r` is accepted. -/
theorem incAddG_equal_free (a r : G) (h : a ≠ -a) : IncAddG a a r := ⟨h, fun hne => absurd rfl hne⟩

/-! ## `mul_by_u128` -/

/-- `mul_by_u128` as a relation between the inputs and the returned accumulator: every `double`
is exact (`foreign_double_complete_sound`), every addition is an `incomplete_add` whose result
`r` is whatever the prover witnessed subject to `IncAddG`. Same recursion as `WCurve.mulLsbG`. -/
def MulLsbRel : ℕ → ℕ → G → Option G → Option G → Prop
  | 0, _, _, res, out => out = res
  | fuel + 1, n, tmp, res, out =>
    if n = 0 then out = res
    else if n % 2 = 1 then
      match res with
      | none => MulLsbRel fuel (n / 2) (tmp + tmp) (some tmp) out
      | some a => ∃ r, IncAddG a tmp r ∧ MulLsbRel fuel (n / 2) (tmp + tmp) (some r) out
    else MulLsbRel fuel (n / 2) (tmp + tmp) res out

/-- State of the loop at iteration `i`: nothing accumulated yet (`k = 0`) or `k • p` with
`0 < k < 2^i`. -/
def AccIs (p : G) (i k : ℕ) : Option G → Prop
  | none => k = 0
  | some a => 0 < k ∧ k < 2 ^ i ∧ a = k • p

private theorem two_pow_smul_double (p : G) (i : ℕ) :
    (2 ^ i) • p + (2 ^ i) • p = (2 ^ (i + 1)) • p := by
  rw [pow_succ, mul_comm, mul_smul, two_smul]

/-- Invariant of `mul_by_u128`. -/
theorem mulLsbRel_inv (p : G) (B : ℕ) (hord : ∀ m : ℕ, 0 < m → m < 2 ^ B → m • p ≠ 0) :
    ∀ (fuel i n k : ℕ) (res out : Option G), i + fuel ≤ B → n < 2 ^ fuel → AccIs p i k res →
      MulLsbRel fuel n ((2 ^ i) • p) res out → optVal out = (k + n * 2 ^ i) • p := by
  intro fuel
  induction fuel with
  | zero =>
    intro i n k res out _ hn hacc h
    have hn0 : n = 0 := by simpa using hn
    subst hn0
    simp only [MulLsbRel] at h
    rw [h]
    cases res with
    | none => simp only [AccIs] at hacc; subst hacc; simp [optVal]
    | some a => obtain ⟨_, _, e⟩ := hacc; simp [optVal, e]
  | succ f ih =>
    intro i n k res out hB hn hacc h
    unfold MulLsbRel at h
    by_cases h0 : n = 0
    · simp only [h0, if_true] at h
      rw [h]; subst h0
      cases res with
      | none => simp only [AccIs] at hacc; subst hacc; simp [optVal]
      | some a => obtain ⟨_, _, e⟩ := hacc; simp [optVal, e]
    · simp only [h0, if_false] at h
      have hlt : n / 2 < 2 ^ f := by
        have : 2 ^ (f + 1) = 2 * 2 ^ f := by rw [pow_succ]; ring
        omega
      have hB' : (i + 1) + f ≤ B := by omega
      have hnd : n = 2 * (n / 2) + n % 2 := by omega
      have hpow : 2 ^ (i + 1) = 2 * 2 ^ i := by rw [pow_succ]; ring
      rw [two_pow_smul_double] at h
      have hiB : 2 ^ (i + 1) ≤ 2 ^ B := Nat.pow_le_pow_right (by omega) (by omega)
      have hipos : 0 < 2 ^ i := Nat.two_pow_pos i
      by_cases hodd : n % 2 = 1
      · simp only [hodd, if_true] at h
        cases res with
        | none =>
          simp only [AccIs] at hacc; subst hacc
          simp only at h
          have hacc' : AccIs p (i + 1) (2 ^ i) (some ((2 ^ i) • p)) := ⟨hipos, by omega, rfl⟩
          rw [ih (i + 1) (n / 2) (2 ^ i) _ out hB' hlt hacc' h]
          congr 1
          rw [hpow]; rw [hodd] at hnd
          generalize n / 2 = m at hnd; subst hnd; ring
        | some a =>
          obtain ⟨hk0, hk1, ea⟩ := hacc
          simp only at h
          obtain ⟨r, ⟨_, hr⟩, h'⟩ := h
          -- the addition is not the exceptional case a = tmp
          have hne : a ≠ (2 ^ i) • p := by
            intro he
            rw [ea] at he
            have hs : (2 ^ i - k) • p = 0 := by
              have : (2 ^ i) • p = (k + (2 ^ i - k)) • p := by congr 1; omega
              rw [add_smul, ← he] at this
              exact (add_eq_left.mp this.symm)
            exact hord (2 ^ i - k) (by omega) (by omega) hs
          have er : r = (k + 2 ^ i) • p := by rw [hr hne, ea, add_smul]
          have hacc' : AccIs p (i + 1) (k + 2 ^ i) (some r) := ⟨by omega, by omega, er⟩
          rw [ih (i + 1) (n / 2) (k + 2 ^ i) _ out hB' hlt hacc' h']
          congr 1
          rw [hpow]; rw [hodd] at hnd
          generalize n / 2 = m at hnd; subst hnd; ring
      · simp only [hodd, if_false] at h
        have heven : n % 2 = 0 := by omega
        have hacc' : AccIs p (i + 1) k res := by
          cases res with
          | none => exact hacc
          | some a => obtain ⟨a1, a2, a3⟩ := hacc; exact ⟨a1, by omega, a3⟩
        rw [ih (i + 1) (n / 2) k res out hB' hlt hacc' h]
        congr 1
        rw [hpow]; rw [heven] at hnd
        generalize n / 2 = m at hnd; subst hnd; ring

/-- **`mul_by_u128` with incomplete additions**: if no multiple `m • p`, `0 < m < 2^fuel`, is the
identity (the chip's order argument; true for every non-identity point of a curve of prime order
above `2^129`, i.e. secp256k1, and for the points of the prime-order subgroup of BLS12-381 G1),
every accepted run returns `n • p`: no addition of the loop is the exceptional case `a = b`,
whatever the prover witnesses. -/
theorem mul_by_u128_incomplete_sound (p : G) (fuel n : ℕ) (hn : n < 2 ^ fuel)
    (hord : ∀ m : ℕ, 0 < m → m < 2 ^ fuel → m • p ≠ 0) (out : Option G)
    (h : MulLsbRel fuel n p none out) : optVal out = n • p := by
  have h' : MulLsbRel fuel n ((2 ^ 0) • p) none out := by simpa using h
  have := mulLsbRel_inv p fuel hord fuel 0 n 0 none out (by omega) hn rfl h'
  simpa using this

/-- Non-vacuity: the honest run is accepted (`13 • 1` in `ℤ`, where no multiple vanishes). -/
example : MulLsbRel 4 13 (1 : ℤ) none (some 13) := by
  refine ⟨5, ⟨by decide, fun _ => by decide⟩, ?_⟩
  refine ⟨13, ⟨by decide, fun _ => by decide⟩, ?_⟩
  simp [MulLsbRel]

/-- **The order hypothesis is necessary**: in a group with a point of order 3 (`ℤ/3`, `p = 1`),
`mul_by_u128(5, p)` accepts EVERY result — the addition `p + 4p` is the exceptional case
`a = b`. The curve group of BLS12-381 G1 has such points (`(0, ±2)`, cofactor
`3·11²·10177²·…`), and `assign` / `point_from_coordinates` constrain a point to the curve only:
recorded finding `foreign:bls:mul_by_u128:small-order-base`. -/
theorem mul_by_u128_small_order_unconstrained (x : ZMod 3) :
    MulLsbRel 3 5 (1 : ZMod 3) none (some x) := by
  have e : ((1 : ZMod 3) + 1 + (1 + 1)) = 1 := by decide
  simp only [MulLsbRel]
  refine ⟨x, ?_, ?_⟩
  · rw [e]; exact incAddG_equal_free 1 x (by decide)
  · simp

/-! ## The window loop of `windowed_msm` -/

/-- Inner loop over the bases: for `j = 0 … l−1`, `incomplete_assert_different_x(acc, T j)` then
`acc ← incomplete_add(acc, T j)` (`T j` = the table entry selected by the window of base `j`). -/
def InnerRel (T : ℕ → G) : ℕ → G → G → Prop
  | 0, acc, out => out = acc
  | j + 1, acc, out =>
    ∃ mid, InnerRel T j acc mid ∧ (mid ≠ T j ∧ mid ≠ -(T j)) ∧ IncAddG mid (T j) out

theorem innerRel_sum (T : ℕ → G) : ∀ (l : ℕ) (acc out : G), InnerRel T l acc out →
    out = acc + ∑ j ∈ range l, T j
  | 0, acc, out, h => by simpa [InnerRel] using h
  | l + 1, acc, out, h => by
    obtain ⟨mid, hm, ⟨hne, _⟩, _, hr⟩ := h
    rw [hr hne, innerRel_sum T l acc mid hm, Finset.sum_range_succ, add_assoc]

/-- The whole double-and-add loop: for every window column `k` (most significant first), `ws`
exact doublings, then the inner loop with the table entries `k j • P j − α`. -/
def WindowLoopRel (ws l : ℕ) (α : G) (P : ℕ → G) : List (ℕ → ℕ) → G → G → Prop
  | [], acc, out => out = acc
  | k :: rest, acc, out =>
    ∃ mid, InnerRel (fun j => k j • P j - α) l (2 ^ ws • acc) mid ∧
      WindowLoopRel ws l α P rest mid out

/-- **The window loop with incomplete additions is the exact fold**: every addition is preceded
by `incomplete_assert_different_x`, which excludes both exceptional cases. -/
theorem window_loop_incomplete_sound (ws l : ℕ) (α : G) (P : ℕ → G) :
    ∀ (rows : List (ℕ → ℕ)) (acc out : G), WindowLoopRel ws l α P rows acc out →
      out = rows.foldl (windowStep ws l α P) acc
  | [], acc, out, h => by simpa [WindowLoopRel] using h
  | k :: rest, acc, out, h => by
    obtain ⟨mid, hi, hrest⟩ := h
    rw [window_loop_incomplete_sound ws l α P rest mid out hrest, List.foldl_cons]
    congr 1
    rw [innerRel_sum _ l _ _ hi]; rfl

/-- **`windowed_msm` as wired**: `α = (2^ws − 1)•R` and `l•R` from `mul_by_u128` (sound by
`mul_by_u128_incomplete_sound` when `R` has no small multiple equal to the identity), tables
`k•P_j − α` (`table_chain_sound`), the loop with asserted-different-`x` incomplete additions, and
the final COMPLETE `add(acc, −l•R)`: the result is `Σ_j s_j • P_j` for every blinding point `R`. -/
theorem windowed_msm_incomplete_sound (ws l : ℕ) (R : G) (P : ℕ → G) (rows : List (ℕ → ℕ))
    (acc : G) (h : WindowLoopRel ws l ((2 ^ ws - 1) • R) P rows (l • R) acc) :
    acc - l • R = dotN l (combine ws (fun _ => 0) rows) P := by
  rw [window_loop_incomplete_sound ws l _ P rows _ _ h]
  have hz : dotN l (fun _ => 0) P = 0 := by simp [dotN]
  have h0 : l • R = l • R + dotN l (fun _ => 0) P := by rw [hz, add_zero]
  conv => lhs; rw [h0]
  rw [windowed_fold, ← h0, add_sub_cancel_left]

/-- Without the assertion the inner step accepts anything when the accumulator equals the
addend (used by the harness's mutation `p2`: dropping an `incomplete_assert_different_x`). -/
theorem inner_step_needs_assert (t r : G) (h : t ≠ -t) : IncAddG t t r := incAddG_equal_free t r h

end MidnightZK.C06
