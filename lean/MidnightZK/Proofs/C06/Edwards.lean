import MidnightZK.Model.C06.Expr
import MidnightZK.Gen.C06Gates
/-!
# C06 — algebra of the native twisted-Edwards chip (`a = -1`), core Lean only

Everything is stated over an arbitrary field `F` (`Lean.Grind.Field`) and a curve parameter `d`;
the gate theorems instantiate `d` with the constant found in the dumped gates.
-/
namespace MidnightZK.C06
open Lean.Grind

variable {F : Type} [Field F]

/-- Curve equation `-x² + y² = 1 + d x² y²`. -/
def EdOn (d x y : F) : Prop := -(x * x) + y * y = 1 + d * (x * x) * (y * y)

/-- **Completeness of the addition law** (Bernstein–Lange, `a = -1` a square, `d` a non-square):
for two curve points, `d x₁x₂y₁y₂ ≠ ±1`. `i` is a square root of `-1`. -/
theorem ed_denominator_aux (d i x1 y1 x2 y2 : F)
    (hi : i * i = -1) (h2ne : (2:F) ≠ 0)
    (hd : ∀ t : F, t * t ≠ d)
    (h1 : EdOn d x1 y1) (h2 : EdOn d x2 y2)
    (e : F) (he : e = d * x1 * x2 * y1 * y2) (hee : e * e = 1) : False := by
  unfold EdOn at h1 h2
  have k1 : (i*x1 + e*y1) * (i*x1 + e*y1)
      = d * (x1*x1) * (y1*y1) * ((i*x2 + y2) * (i*x2 + y2)) := by grind
  have k2 : (i*x1 - e*y1) * (i*x1 - e*y1)
      = d * (x1*x1) * (y1*y1) * ((i*x2 - y2) * (i*x2 - y2)) := by grind
  have hx1 : x1 ≠ 0 := by intro h; subst h; grind
  have hy1 : y1 ≠ 0 := by intro h; subst h; grind
  by_cases c1 : i*x2 + y2 = 0
  · by_cases c2 : i*x2 - y2 = 0
    · have t2 : (2:F) * y2 = 0 := by grind
      have : y2 = 0 := by grind
      subst this; grind
    · apply hd ((i*x1 - e*y1) * (x1 * y1 * (i*x2 - y2))⁻¹)
      have hne : x1 * y1 * (i*x2 - y2) ≠ 0 := by grind
      have hw := Field.mul_inv_cancel hne
      generalize (x1 * y1 * (i*x2 - y2))⁻¹ = v at hw ⊢
      have s1 : (i*x1 - e*y1) * v * ((i*x1 - e*y1) * v)
          = ((i*x1 - e*y1) * (i*x1 - e*y1)) * (v*v) := by grind
      have s2 : d * (x1*x1) * (y1*y1) * ((i*x2 - y2) * (i*x2 - y2)) * (v*v)
          = d * ((x1 * y1 * (i*x2 - y2) * v) * (x1 * y1 * (i*x2 - y2) * v)) := by grind
      rw [s1, k2, s2, hw]; grind
  · apply hd ((i*x1 + e*y1) * (x1 * y1 * (i*x2 + y2))⁻¹)
    have hne : x1 * y1 * (i*x2 + y2) ≠ 0 := by grind
    have hw := Field.mul_inv_cancel hne
    generalize (x1 * y1 * (i*x2 + y2))⁻¹ = v at hw ⊢
    have s1 : (i*x1 + e*y1) * v * ((i*x1 + e*y1) * v)
        = ((i*x1 + e*y1) * (i*x1 + e*y1)) * (v*v) := by grind
    have s2 : d * (x1*x1) * (y1*y1) * ((i*x2 + y2) * (i*x2 + y2)) * (v*v)
        = d * ((x1 * y1 * (i*x2 + y2) * v) * (x1 * y1 * (i*x2 + y2) * v)) := by grind
    rw [s1, k1, s2, hw]; grind

/-- Side conditions under which the Edwards law is complete: `2 ≠ 0`, `-1` is a square, `d` is
not. -/
structure EdComplete (d : F) : Prop where
  two_ne : (2:F) ≠ 0
  sqrt_m1 : ∃ i : F, i * i = -1
  d_nonsquare : ∀ t : F, t * t ≠ d

theorem ed_denominators_ne_zero {d : F} (hc : EdComplete d) {x1 y1 x2 y2 : F}
    (h1 : EdOn d x1 y1) (h2 : EdOn d x2 y2) :
    1 + d * x1 * x2 * y1 * y2 ≠ 0 ∧ 1 - d * x1 * x2 * y1 * y2 ≠ 0 := by
  obtain ⟨i, hi⟩ := hc.sqrt_m1
  constructor
  · intro h
    exact ed_denominator_aux d i x1 y1 x2 y2 hi hc.two_ne hc.d_nonsquare h1 h2 _ rfl (by grind)
  · intro h
    exact ed_denominator_aux d i x1 y1 x2 y2 hi hc.two_ne hc.d_nonsquare h1 h2 _ rfl (by grind)

/-- The affine sum (as a relation, no division): `(x₃, y₃) = (x₁,y₁) + (x₂,y₂)`. -/
def EdSum (d x1 y1 x2 y2 x3 y3 : F) : Prop :=
  x3 * (1 + d * x1 * x2 * y1 * y2) = x1 * y2 + y1 * x2 ∧
  y3 * (1 - d * x1 * x2 * y1 * y2) = y1 * y2 + x1 * x2

/-- Under completeness the relation `EdSum` determines the sum. -/
theorem edSum_unique {d : F} (hc : EdComplete d) {x1 y1 x2 y2 x3 y3 x3' y3' : F}
    (h1 : EdOn d x1 y1) (h2 : EdOn d x2 y2)
    (s : EdSum d x1 y1 x2 y2 x3 y3) (s' : EdSum d x1 y1 x2 y2 x3' y3') : x3 = x3' ∧ y3 = y3' := by
  obtain ⟨n1, n2⟩ := ed_denominators_ne_zero hc h1 h2
  obtain ⟨a, b⟩ := s
  obtain ⟨a', b'⟩ := s'
  constructor
  · have : (x3 - x3') * (1 + d * x1 * x2 * y1 * y2) = 0 := by grind
    grind
  · have : (y3 - y3') * (1 - d * x1 * x2 * y1 * y2) = 0 := by grind
    grind

end MidnightZK.C06
