import MidnightZK.Model.C06.Expr
import MidnightZK.Gen.C06Gates
/-!
# C06 — algebra of the native twisted-Edwards chip (`a = -1`), core Lean only

Everything is stated over an arbitrary field `F` (`Lean.Grind.Field`) and a curve parameter `d`;
the gate theorems instantiate `d` with the constant found in the dumped gates.
-/
namespace MidnightZK.C06
open Lean.Grind

variable {F : Type} [Field F]

/-- Curve equation `-x² + y² = 1 + d x² y²`. -/
def EdOn (d x y : F) : Prop := -(x * x) + y * y = 1 + d * (x * x) * (y * y)

/-- **Completeness of the addition law** (Bernstein–Lange, `a = -1` a square, `d` a non-square):
for two curve points, `d x₁x₂y₁y₂ ≠ ±1`. `i` is a square root of `-1`. -/
theorem ed_denominator_aux (d i x1 y1 x2 y2 : F)
    (hi : i * i = -1) (h2ne : (2:F) ≠ 0)
    (hd : ∀ t : F, t * t ≠ d)
    (h1 : EdOn d x1 y1) (h2 : EdOn d x2 y2)
    (e : F) (he : e = d * x1 * x2 * y1 * y2) (hee : e * e = 1) : False := by
  unfold EdOn at h1 h2
  have k1 : (i*x1 + e*y1) * (i*x1 + e*y1)
      = d * (x1*x1) * (y1*y1) * ((i*x2 + y2) * (i*x2 + y2)) := by grind
  have k2 : (i*x1 - e*y1) * (i*x1 - e*y1)
      = d * (x1*x1) * (y1*y1) * ((i*x2 - y2) * (i*x2 - y2)) := by grind
  have hx1 : x1 ≠ 0 := by intro h; subst h; grind
  have hy1 : y1 ≠ 0 := by intro h; subst h; grind
  by_cases c1 : i*x2 + y2 = 0
  · by_cases c2 : i*x2 - y2 = 0
    · have t2 : (2:F) * y2 = 0 := by grind
      have : y2 = 0 := by grind
      subst this; grind
    · apply hd ((i*x1 - e*y1) * (x1 * y1 * (i*x2 - y2))⁻¹)
      have hne : x1 * y1 * (i*x2 - y2) ≠ 0 := by grind
      have hw := Field.mul_inv_cancel hne
      generalize (x1 * y1 * (i*x2 - y2))⁻¹ = v at hw ⊢
      have s1 : (i*x1 - e*y1) * v * ((i*x1 - e*y1) * v)
          = ((i*x1 - e*y1) * (i*x1 - e*y1)) * (v*v) := by grind
      have s2 : d * (x1*x1) * (y1*y1) * ((i*x2 - y2) * (i*x2 - y2)) * (v*v)
          = d * ((x1 * y1 * (i*x2 - y2) * v) * (x1 * y1 * (i*x2 - y2) * v)) := by grind
      rw [s1, k2, s2, hw]; grind
  · apply hd ((i*x1 + e*y1) * (x1 * y1 * (i*x2 + y2))⁻¹)
    have hne : x1 * y1 * (i*x2 + y2) ≠ 0 := by grind
    have hw := Field.mul_inv_cancel hne
    generalize (x1 * y1 * (i*x2 + y2))⁻¹ = v at hw ⊢
    have s1 : (i*x1 + e*y1) * v * ((i*x1 + e*y1) * v)
        = ((i*x1 + e*y1) * (i*x1 + e*y1)) * (v*v) := by grind
    have s2 : d * (x1*x1) * (y1*y1) * ((i*x2 + y2) * (i*x2 + y2)) * (v*v)
        = d * ((x1 * y1 * (i*x2 + y2) * v) * (x1 * y1 * (i*x2 + y2) * v)) := by grind
    rw [s1, k1, s2, hw]; grind

/-- Side conditions under which the Edwards law is complete: `2 ≠ 0`, `-1` is a square, `d` is
not. -/
structure EdComplete (d : F) : Prop where
  two_ne : (2:F) ≠ 0
  sqrt_m1 : ∃ i : F, i * i = -1
  d_nonsquare : ∀ t : F, t * t ≠ d

theorem ed_denominators_ne_zero {d : F} (hc : EdComplete d) {x1 y1 x2 y2 : F}
    (h1 : EdOn d x1 y1) (h2 : EdOn d x2 y2) :
    1 + d * x1 * x2 * y1 * y2 ≠ 0 ∧ 1 - d * x1 * x2 * y1 * y2 ≠ 0 := by
  obtain ⟨i, hi⟩ := hc.sqrt_m1
  constructor
  · intro h
    exact ed_denominator_aux d i x1 y1 x2 y2 hi hc.two_ne hc.d_nonsquare h1 h2 _ rfl (by grind)
  · intro h
    exact ed_denominator_aux d i x1 y1 x2 y2 hi hc.two_ne hc.d_nonsquare h1 h2 _ rfl (by grind)

/-- The affine sum (as a relation, no division): `(x₃, y₃) = (x₁,y₁) + (x₂,y₂)`. -/
def EdSum (d x1 y1 x2 y2 x3 y3 : F) : Prop :=
  x3 * (1 + d * x1 * x2 * y1 * y2) = x1 * y2 + y1 * x2 ∧
  y3 * (1 - d * x1 * x2 * y1 * y2) = y1 * y2 + x1 * x2

/-- Under completeness the relation `EdSum` determines the sum. -/
theorem edSum_unique {d : F} (hc : EdComplete d) {x1 y1 x2 y2 x3 y3 x3' y3' : F}
    (h1 : EdOn d x1 y1) (h2 : EdOn d x2 y2)
    (s : EdSum d x1 y1 x2 y2 x3 y3) (s' : EdSum d x1 y1 x2 y2 x3' y3') : x3 = x3' ∧ y3 = y3' := by
  obtain ⟨n1, n2⟩ := ed_denominators_ne_zero hc h1 h2
  obtain ⟨a, b⟩ := s
  obtain ⟨a', b'⟩ := s'
  constructor
  · have : (x3 - x3') * (1 + d * x1 * x2 * y1 * y2) = 0 := by grind
    grind
  · have : (y3 - y3') * (1 - d * x1 * x2 * y1 * y2) = 0 := by grind
    grind

/-! ## Closure, neutral element, negation -/

theorem edOn_id (d : F) : EdOn d 0 1 := by unfold EdOn; grind

theorem edOn_neg {d x y : F} (h : EdOn d x y) : EdOn d (-x) y := by unfold EdOn at *; grind

/-- `P + (0,1) = P`. -/
theorem edSum_id_right (d x y : F) : EdSum d x y 0 1 x y := by unfold EdSum; grind

theorem edSum_id_left (d x y : F) : EdSum d 0 1 x y x y := by unfold EdSum; grind

/-- `P + (−P) = (0,1)` for a curve point. -/
theorem edSum_neg {d x y : F} (h : EdOn d x y) : EdSum d x y (-x) y 0 1 := by
  unfold EdSum EdOn at *; grind

theorem edSum_comm {d x1 y1 x2 y2 x3 y3 : F} (h : EdSum d x1 y1 x2 y2 x3 y3) :
    EdSum d x2 y2 x1 y1 x3 y3 := by unfold EdSum at *; grind

private theorem ed_closed_key (d x1 y1 x2 y2 e n1 n2 : F)
    (h1 : -(x1 * x1) + y1 * y1 = 1 + d * (x1 * x1) * (y1 * y1))
    (h2 : -(x2 * x2) + y2 * y2 = 1 + d * (x2 * x2) * (y2 * y2))
    (he : e = d * x1 * x2 * y1 * y2)
    (hn1 : n1 = x1 * y2 + y1 * x2)
    (hn2 : n2 = y1 * y2 + x1 * x2) :
    -(n1*n1) * ((1-e)*(1-e)) + (n2*n2) * ((1+e)*(1+e))
      - ((1+e)*(1+e)) * ((1-e)*(1-e)) - d * (n1*n1) * (n2*n2) = 0 := by
  subst he hn1 hn2
  grind

/-- **Closure**: the sum of two curve points is a curve point. -/
theorem edSum_closed {d : F} (hc : EdComplete d) {x1 y1 x2 y2 x3 y3 : F}
    (h1 : EdOn d x1 y1) (h2 : EdOn d x2 y2) (s : EdSum d x1 y1 x2 y2 x3 y3) :
    EdOn d x3 y3 := by
  obtain ⟨n1, n2⟩ := ed_denominators_ne_zero hc h1 h2
  obtain ⟨a, b⟩ := s
  have key := ed_closed_key d x1 y1 x2 y2 (d * x1 * x2 * y1 * y2) (x1 * y2 + y1 * x2)
    (y1 * y2 + x1 * x2) h1 h2 rfl rfl rfl
  rw [← a, ← b] at key
  generalize hD1 : 1 + d * x1 * x2 * y1 * y2 = D1 at *
  generalize hD2 : 1 - d * x1 * x2 * y1 * y2 = D2 at *
  have k2 : (D1 * D1) * (D2 * D2) * (-(x3 * x3) + y3 * y3 - (1 + d * (x3 * x3) * (y3 * y3))) = 0 := by
    grind
  have hne : (D1 * D1) * (D2 * D2) ≠ 0 := by grind
  unfold EdOn
  grind

/-! ## The concrete addition function -/

/-- Affine addition with inverses (the formulas of `p_plus_b_q` / of the curve library). -/
def edAdd (d : F) (P Q : F × F) : F × F :=
  ((P.1 * Q.2 + P.2 * Q.1) * (1 + d * P.1 * Q.1 * P.2 * Q.2)⁻¹,
   (P.2 * Q.2 + P.1 * Q.1) * (1 - d * P.1 * Q.1 * P.2 * Q.2)⁻¹)

def EdOnP (d : F) (P : F × F) : Prop := EdOn d P.1 P.2

theorem edAdd_sum {d : F} (hc : EdComplete d) {P Q : F × F} (hP : EdOnP d P) (hQ : EdOnP d Q) :
    EdSum d P.1 P.2 Q.1 Q.2 (edAdd d P Q).1 (edAdd d P Q).2 := by
  obtain ⟨n1, n2⟩ := ed_denominators_ne_zero hc hP hQ
  have w1 := Field.mul_inv_cancel n1
  have w2 := Field.mul_inv_cancel n2
  unfold EdSum edAdd
  constructor
  · simp only
    generalize (1 + d * P.1 * Q.1 * P.2 * Q.2)⁻¹ = v at w1 ⊢
    grind
  · simp only
    generalize (1 - d * P.1 * Q.1 * P.2 * Q.2)⁻¹ = v at w2 ⊢
    grind

theorem edAdd_closed {d : F} (hc : EdComplete d) {P Q : F × F} (hP : EdOnP d P) (hQ : EdOnP d Q) :
    EdOnP d (edAdd d P Q) :=
  edSum_closed hc hP hQ (edAdd_sum hc hP hQ)

/-- The relation determines the function: any `(x₃,y₃)` related to `P, Q` by `EdSum` is
`edAdd d P Q`. -/
theorem edSum_eq_edAdd {d : F} (hc : EdComplete d) {P Q : F × F} (hP : EdOnP d P) (hQ : EdOnP d Q)
    {x3 y3 : F} (s : EdSum d P.1 P.2 Q.1 Q.2 x3 y3) : (x3, y3) = edAdd d P Q := by
  have := edSum_unique hc hP hQ s (edAdd_sum hc hP hQ)
  exact Prod.ext this.1 this.2

theorem edAdd_id_right {d : F} (hc : EdComplete d) {P : F × F} (hP : EdOnP d P) :
    edAdd d P (0, 1) = P := by
  have h := edSum_eq_edAdd hc hP (Q := (0, 1)) (edOn_id d) (edSum_id_right d P.1 P.2)
  exact h.symm

theorem edAdd_id_left {d : F} (hc : EdComplete d) {P : F × F} (hP : EdOnP d P) :
    edAdd d (0, 1) P = P := by
  have h := edSum_eq_edAdd hc (P := (0, 1)) (edOn_id d) hP (edSum_id_left d P.1 P.2)
  exact h.symm

theorem edAdd_comm (d : F) (P Q : F × F) : edAdd d P Q = edAdd d Q P := by
  unfold edAdd
  have e1 : d * P.1 * Q.1 * P.2 * Q.2 = d * Q.1 * P.1 * Q.2 * P.2 := by grind
  rw [e1]
  apply Prod.ext <;> simp only <;> grind

end MidnightZK.C06
