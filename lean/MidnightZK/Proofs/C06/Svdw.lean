/-!
# C06 — algebra of the Shallue–van de Woestijne map (`svdw_map_to_curve`), core Lean only

Everything is over an arbitrary field `F` (`Lean.Grind.Field`) with the constants' defining
equations as hypotheses (`SvdwConsts`; for Jubjub they are kernel-checked on the constants
regenerated from `mtc_params.rs`, `svdw_constants_spec`).

The three candidates are `x1 = c2 − t`, `x2 = c2 + t`, `x3 = Z + c4 (tv2² tv3)²` with
`t = c3 · u · tv1 · tv3`, `tv3 = inv0(tv1 · tv2)`, `tv1 = 1 − c1u²`, `tv2 = 1 + c1u²`.
Main identity (`svdw_product_identity`), for `tv1 · tv2 ≠ 0`:

  `D⁴ · tv1⁶ · g(x3) = (8 · c3 · tv2³)² · g(x1) · g(x2)`,   `D = 3Z² + 4A`,

so when `g(x1)` and `g(x2)` are both non-squares (their product is then a square in a finite
field), `g(x3)` is a square.
-/
namespace MidnightZK.C06
open Lean.Grind

variable {F : Type} [Field F]

/-- `MapToWeierstrassParams::g`. -/
def wg (A B x : F) : F := x * x * x + A * x + B

/-- `a` is a square (`0` included: `!ct_quadratic_non_residue()`, `sqrt().is_some()`). -/
def IsSq (a : F) : Prop := ∃ s : F, s * s = a

/-- Defining equations of `c1 … c4` (`mtc_params.rs`) and the two non-degeneracy conditions the
repository's `test_params` asserts (`c1 ≠ 0`, `c4 ≠ 0` i.e. `3Z² + 4A` invertible). -/
structure SvdwConsts (A B Z c1 c2 c3 c4 : F) : Prop where
  hc1 : c1 = wg A B Z
  hc2 : 2 * c2 = -Z
  hc3 : c3 * c3 = -c1 * (3 * Z * Z + 4 * A)
  hc4 : c4 * (3 * Z * Z + 4 * A) = -4 * c1
  c1_ne : c1 ≠ 0
  den_ne : 3 * Z * Z + 4 * A ≠ 0
  two_ne : (2 : F) ≠ 0

theorem four_ne_zero (h2 : (2 : F) ≠ 0) : (4 : F) ≠ 0 := by
  intro h4
  apply h2
  have hv := Field.mul_inv_cancel h2
  generalize (2 : F)⁻¹ = v at hv
  have e : (2 : F) = 4 * v - 2 * (2 * v - 1) := by grind
  rw [e, h4, hv]; grind

theorem cancel_four (h2 : (2 : F) ≠ 0) {x y : F} (h : 4 * x = 4 * y) : x = y := by
  have hv := Field.mul_inv_cancel (four_ne_zero h2)
  generalize (4 : F)⁻¹ = v at hv
  have e : x = (4 * v) * x := by rw [hv]; grind
  have e' : y = (4 * v) * y := by rw [hv]; grind
  rw [e, e']
  have : 4 * v * x = v * (4 * x) := by grind
  rw [this, h]; grind

/-- `g(c2 + t) · g(c2 − t)` as a difference of squares in `s = t²`. -/
theorem wg_pair (A B c2 t s : F) (hs : s = t * t) :
    wg A B (c2 - t) * wg A B (c2 + t)
      = (wg A B c2 + 3 * c2 * s) ^ 2 - s * (3 * c2 * c2 + A + s) ^ 2 := by
  subst hs; unfold wg; grind

/-- The even part at `c2 = −Z/2`: `8 g(c2) = 8 c1 − 3 Z D`. -/
theorem wg_c2 {A B Z c1 c2 c3 c4 : F} (h : SvdwConsts A B Z c1 c2 c3 c4) :
    8 * wg A B c2 = 8 * c1 - 3 * Z * (3 * Z * Z + 4 * A) := by
  have h1 := h.hc1; have h2 := h.hc2
  unfold wg at *
  have e1 : 8 * (c2 * c2 * c2) = (2 * c2) * (2 * c2) * (2 * c2) := by grind
  have e2 : 8 * (A * c2) = 4 * A * (2 * c2) := by grind
  grind

/-- The common polynomial `N(w)` of the two halves of the identity (`w = c1 u²`). -/
def svdwN (Z D c1 w : F) : F :=
  (1 + w) ^ 2 * ((1 + w) ^ 2 * (8 * c1 - 3 * Z * D) + 12 * Z * D * w) ^ 2
    + 4 * D ^ 3 * w * (1 - w) ^ 4

/-- First half: `64 · tv2⁶ · g(x1) · g(x2) = N`, for `t² · tv2² = −D w`. -/
theorem svdw_half12 {A B Z c1 c2 c3 c4 : F} (h : SvdwConsts A B Z c1 c2 c3 c4)
    (w t : F) (ht : t * t * (1 + w) ^ 2 = -(3 * Z * Z + 4 * A) * w) :
    64 * (1 + w) ^ 6 * (wg A B (c2 - t) * wg A B (c2 + t))
      = svdwN Z (3 * Z * Z + 4 * A) c1 w := by
  have hp := wg_pair A B c2 t (t * t) rfl
  have hg := wg_c2 h
  have h2 := h.hc2
  generalize hD : 3 * Z * Z + 4 * A = D at *
  generalize hG : wg A B c2 = G at *
  generalize hs : t * t = s at *
  -- 8·tv2²·E and 8·tv2²·O as polynomials in w
  have hE : 8 * (1 + w) ^ 2 * (G + 3 * c2 * s)
      = (1 + w) ^ 2 * (8 * c1 - 3 * Z * D) + 12 * Z * D * w := by
    have : 24 * c2 * (s * (1 + w) ^ 2) = 12 * (2 * c2) * (s * (1 + w) ^ 2) := by grind
    grind
  have hO : 8 * (1 + w) ^ 2 * (3 * c2 * c2 + A + s) = 2 * D * (1 + w) ^ 2 - 8 * D * w := by
    have e : 4 * (3 * c2 * c2 + A) = D := by
      have : 4 * (3 * c2 * c2) = 3 * ((2 * c2) * (2 * c2)) := by grind
      grind
    grind
  rw [hp]
  have k1 : 64 * (1 + w) ^ 6 * ((G + 3 * c2 * s) ^ 2 - s * (3 * c2 * c2 + A + s) ^ 2)
      = (1 + w) ^ 2 * (8 * (1 + w) ^ 2 * (G + 3 * c2 * s)) ^ 2
        - (s * (1 + w) ^ 2) * (8 * (1 + w) ^ 2 * (3 * c2 * c2 + A + s)) ^ 2 := by grind
  rw [k1, hE, hO, ht]
  unfold svdwN
  grind

/-- Second half: `D³ · tv1⁶ · g(x3) = −c1 · N`, for `D · (x3 − Z) · tv1² = −4 c1 · tv2²`. -/
theorem svdw_half3 {A B Z c1 c2 c3 c4 : F} (h : SvdwConsts A B Z c1 c2 c3 c4)
    (w δ : F)
    (hδ : (3 * Z * Z + 4 * A) * δ * (1 - w) ^ 2 = -4 * c1 * (1 + w) ^ 2) :
    (3 * Z * Z + 4 * A) ^ 3 * (1 - w) ^ 6 * wg A B (Z + δ)
      = -c1 * svdwN Z (3 * Z * Z + 4 * A) c1 w := by
  have h1 := h.hc1
  -- 4 g(Z + δ) = 4 c1 + δ (4δ² + 12 Z δ + 9Z² + D)
  have e : 4 * wg A B (Z + δ)
      = 4 * c1 + δ * (4 * δ * δ + 12 * Z * δ + 9 * Z * Z + (3 * Z * Z + 4 * A)) := by
    unfold wg at *; grind
  generalize hD : 3 * Z * Z + 4 * A = D at *
  generalize hG : wg A B (Z + δ) = G at *
  have k : 4 * (D ^ 3 * (1 - w) ^ 6 * G)
      = 4 * c1 * D ^ 3 * (1 - w) ^ 6
        + (D * δ * (1 - w) ^ 2) * (4 * (D * δ * (1 - w) ^ 2) ^ 2
            + 12 * Z * D * (1 - w) ^ 2 * (D * δ * (1 - w) ^ 2)
            + (9 * Z * Z + D) * D ^ 2 * (1 - w) ^ 4) := by
    have : 4 * (D ^ 3 * (1 - w) ^ 6 * G) = D ^ 3 * (1 - w) ^ 6 * (4 * G) := by grind
    rw [this, e]; grind
  rw [hδ] at k
  have : 4 * (D ^ 3 * (1 - w) ^ 6 * G) = 4 * (-c1 * svdwN Z D c1 w) := by
    rw [k]; unfold svdwN; grind
  exact cancel_four h.two_ne this

/-- **Product identity of the SvdW candidates** (non-exceptional inputs: `tv1 · tv2 ≠ 0`, so that
`i = tv3` is the true inverse):
`D⁴ tv1⁶ · g(x3) = (8 c3 tv2³)² · g(x1) · g(x2)`. -/
theorem svdw_product_identity {A B Z c1 c2 c3 c4 : F} (h : SvdwConsts A B Z c1 c2 c3 c4)
    (u i : F) (hi : i * ((1 - u * u * c1) * (1 + u * u * c1)) = 1) :
    let tv1 := 1 - u * u * c1
    let tv2 := 1 + u * u * c1
    let tv4 := u * tv1 * i * c3
    let x1 := c2 - tv4
    let x2 := c2 + tv4
    let x3 := (tv2 * tv2 * i) * (tv2 * tv2 * i) * c4 + Z
    (3 * Z * Z + 4 * A) ^ 4 * tv1 ^ 6 * wg A B x3
      = (8 * c3 * tv2 ^ 3) ^ 2 * (wg A B x1 * wg A B x2) := by
  intro tv1 tv2 tv4 x1 x2 x3
  have hw1 : tv1 = 1 - u * u * c1 := rfl
  have hw2 : tv2 = 1 + u * u * c1 := rfl
  generalize hw : u * u * c1 = w at *
  have hi' : i * (tv1 * tv2) = 1 := by rw [hw1, hw2]; exact hi
  have h3 := h.hc3
  have h4 := h.hc4
  -- t² · tv2² = −D w
  have ht : tv4 * tv4 * (1 + w) ^ 2 = -(3 * Z * Z + 4 * A) * w := by
    have a1 : tv4 * tv4 * (1 + w) ^ 2 = (c3 * c3) * (u * u) * ((i * (tv1 * tv2)) ^ 2) := by
      show (u * tv1 * i * c3) * (u * tv1 * i * c3) * (1 + w) ^ 2 = _
      rw [hw2]; grind
    rw [a1, hi', h3, ← hw]; grind
  -- D (x3 − Z) tv1² = −4 c1 tv2²
  have hδ : (3 * Z * Z + 4 * A) * ((tv2 * tv2 * i) * (tv2 * tv2 * i) * c4) * (1 - w) ^ 2
      = -4 * c1 * (1 + w) ^ 2 := by
    have a1 : (3 * Z * Z + 4 * A) * ((tv2 * tv2 * i) * (tv2 * tv2 * i) * c4) * (1 - w) ^ 2
        = (c4 * (3 * Z * Z + 4 * A)) * (tv2 * tv2) * ((i * (tv1 * tv2)) ^ 2) := by
      rw [hw1]; grind
    rw [a1, hi', h4, hw2]; grind
  have e12 := svdw_half12 h w tv4 ht
  have e3 := svdw_half3 h w ((tv2 * tv2 * i) * (tv2 * tv2 * i) * c4) hδ
  have hx3 : x3 = Z + (tv2 * tv2 * i) * (tv2 * tv2 * i) * c4 := by
    show (tv2 * tv2 * i) * (tv2 * tv2 * i) * c4 + Z = _; grind
  rw [hx3]
  show _ = (8 * c3 * tv2 ^ 3) ^ 2 * (wg A B (c2 - tv4) * wg A B (c2 + tv4))
  rw [hw1, hw2] at *
  generalize wg A B (Z + (1 + w) * (1 + w) * i * ((1 + w) * (1 + w) * i) * c4) = G3 at *
  generalize wg A B (c2 - tv4) * wg A B (c2 + tv4) = G12 at *
  generalize svdwN Z (3 * Z * Z + 4 * A) c1 w = N at *
  generalize 3 * Z * Z + 4 * A = D at *
  -- D⁴ tv1⁶ G3 = D · (−c1 N) = (c3²) · N = c3² · 64 tv2⁶ G12
  have s1 : D ^ 4 * (1 - w) ^ 6 * G3 = D * (D ^ 3 * (1 - w) ^ 6 * G3) := by grind
  have s2 : (8 * c3 * (1 + w) ^ 3) ^ 2 * G12 = (c3 * c3) * (64 * (1 + w) ^ 6 * G12) := by grind
  rw [s1, s2, e3, e12, h3]; grind

/-- In the exceptional case (`tv1 · tv2 = 0`, `inv0` returns `0`) the candidates are
`x1 = x2 = c2 = −Z/2` and `x3 = Z`. -/
theorem svdw_exceptional_candidates (Z c2 c3 c4 u c1 : F) :
    let tv1 := 1 - u * u * c1
    let tv2 := 1 + u * u * c1
    let i : F := 0
    let tv4 := u * tv1 * i * c3
    c2 - tv4 = c2 ∧ c2 + tv4 = c2 ∧ (tv2 * tv2 * i) * (tv2 * tv2 * i) * c4 + Z = Z := by
  intro tv1 tv2 i tv4
  refine ⟨?_, ?_, ?_⟩ <;> grind

/-- From `D⁴ tv1⁶ · G3 = (8 c3 tv2³)² · s²` with `D, tv1 ≠ 0`: `G3` is a square. -/
theorem sq_of_product (D tv1 tv2 c3 s G3 G12 : F) (hD : D ≠ 0) (ht : tv1 ≠ 0)
    (pid : D ^ 4 * tv1 ^ 6 * G3 = (8 * c3 * tv2 ^ 3) ^ 2 * G12) (hs : s * s = G12) :
    IsSq G3 := by
  have hden : D * D * (tv1 * tv1 * tv1) ≠ 0 := by
    intro h0
    have hDv := Field.mul_inv_cancel hD
    have htv := Field.mul_inv_cancel ht
    generalize D⁻¹ = a at hDv
    generalize tv1⁻¹ = b at htv
    have : (1 : F) = (D * a) * (D * a) * ((tv1 * b) * (tv1 * b) * (tv1 * b)) := by
      rw [hDv, htv]; grind
    have e : (D * a) * (D * a) * ((tv1 * b) * (tv1 * b) * (tv1 * b))
        = (D * D * (tv1 * tv1 * tv1)) * (a * a * (b * b * b)) := by grind
    rw [e, h0] at this
    grind
  have hv := Field.mul_inv_cancel hden
  refine ⟨8 * c3 * tv2 ^ 3 * s * (D * D * (tv1 * tv1 * tv1))⁻¹, ?_⟩
  generalize (D * D * (tv1 * tv1 * tv1))⁻¹ = v at hv ⊢
  subst hs
  have p' : (D * D * (tv1 * tv1 * tv1)) ^ 2 * G3 = (8 * c3 * tv2 ^ 3 * s) ^ 2 := by
    have : (D * D * (tv1 * tv1 * tv1)) ^ 2 * G3 = D ^ 4 * tv1 ^ 6 * G3 := by grind
    rw [this, pid]; grind
  generalize D * D * (tv1 * tv1 * tv1) = d at *
  have e1 : 8 * c3 * tv2 ^ 3 * s * v * (8 * c3 * tv2 ^ 3 * s * v)
      = (8 * c3 * tv2 ^ 3 * s) ^ 2 * (v * v) := by grind
  rw [e1, ← p']
  have e2 : d ^ 2 * G3 * (v * v) = (d * v) * (d * v) * G3 := by grind
  rw [e2, hv]; grind

/-- **At least one candidate works** — the classical argument. `hmul`: the product of two
non-squares is a square (true in every finite field); `hexc`: `g(Z)` or `g(−Z/2)` is a square
(asserted by `test_params`; kernel-checked for Jubjub: both are). `i` is `inv0(tv1 · tv2)`. -/
theorem svdw_one_candidate_square {A B Z c1 c2 c3 c4 : F} (h : SvdwConsts A B Z c1 c2 c3 c4)
    (hmul : ∀ a b : F, ¬ IsSq a → ¬ IsSq b → IsSq (a * b))
    (hexc : IsSq (wg A B Z) ∨ IsSq (wg A B c2))
    (u i : F)
    (hinv : (1 - u * u * c1) * (1 + u * u * c1) ≠ 0 → i * ((1 - u * u * c1) * (1 + u * u * c1)) = 1)
    (hzero : (1 - u * u * c1) * (1 + u * u * c1) = 0 → i = 0) :
    let tv1 := 1 - u * u * c1
    let tv2 := 1 + u * u * c1
    let tv4 := u * tv1 * i * c3
    IsSq (wg A B (c2 - tv4)) ∨ IsSq (wg A B (c2 + tv4)) ∨
      IsSq (wg A B ((tv2 * tv2 * i) * (tv2 * tv2 * i) * c4 + Z)) := by
  intro tv1 tv2 tv4
  by_cases hz : (1 - u * u * c1) * (1 + u * u * c1) = 0
  · -- exceptional input
    have hi0 := hzero hz
    have e := svdw_exceptional_candidates Z c2 c3 c4 u c1
    simp only at e
    have e1 : c2 - tv4 = c2 := by show c2 - u * tv1 * i * c3 = c2; rw [hi0]; exact e.1
    have e3 : (tv2 * tv2 * i) * (tv2 * tv2 * i) * c4 + Z = Z := by rw [hi0]; exact e.2.2
    rcases hexc with hZ | hC
    · right; right; rw [e3]; exact hZ
    · left; rw [e1]; exact hC
  · have hi := hinv hz
    have pid := svdw_product_identity h u i hi
    simp only at pid
    by_cases s1 : IsSq (wg A B (c2 - tv4))
    · exact Or.inl s1
    by_cases s2 : IsSq (wg A B (c2 + tv4))
    · exact Or.inr (Or.inl s2)
    right; right
    obtain ⟨s, hs⟩ := hmul _ _ s1 s2
    have htv1 : tv1 ≠ 0 := by
      intro h0; apply hz; show tv1 * tv2 = 0; rw [h0]; grind
    exact sq_of_product _ tv1 tv2 c3 s _ _ h.den_ne htv1 pid hs

end MidnightZK.C06
