import MidnightZK.Proofs.C06.Weierstrass
/-!
# C06 — wiring of the foreign Weierstrass chip above the EC gates (core Lean only)

`circuits/src/ecc/foreign/ecc_chip.rs`. `Proofs/C06/Weierstrass.lean` proves what `add` and
`double` constrain. This file mirrors the instructions built on the *incomplete* addition and
shows, for each exceptional case of the chord formulas (`p = q`, `p = −q`, an identity operand),
whether a constraint the chip emits excludes it:

* `IncAddHolds` = the constraints of `incomplete_add(p, q)`: `r` freshly witnessed
  (`assign_point_unchecked`), `assert_equal(p.is_id, r.is_id)`, `assert_add(p, q, r, cond = 1)`.
  Nothing about `q.is_id`, nothing about `p.x ≠ q.x`;
* `incomplete_add_sound`: sound when both operands are non-identity curve points with `p.x ≠ q.x`;
* `incomplete_add_opposite_unsat`: `p = −q` makes the constraints unsatisfiable;
* `incomplete_add_equal_free`: `p = q` leaves `λ` free and with it the result — the case every
  caller has to exclude; `incomplete_add_equal_not_unique` exhibits two accepted results;
* `TableChain` = the table loop of `windowed_msm` (`acc₀ = −α`, `acc_k = incomplete_add(acc_{k−1}, p)`);
  `table_chain_sound`: the single assertion `incomplete_assert_different_x(α, p)` emitted before
  the loop excludes the exceptional cases of ALL fifteen additions (no group axiom needed):
  a result with `r.x = p.x` is `−p`, and the next `incomplete_add` is then unsatisfiable;
* `SelectHolds`, `MulConstSmallHolds`: `select`, and the identity swap of `mul_by_constant`.
-/
namespace MidnightZK.C06
open Lean.Grind

variable {F : Type} [Field F]

/-- `ForeignEccChip::incomplete_add(p, q)`, what is constrained about the fresh `r` and `λ`. -/
structure IncAddHolds (p q r : WP F) (lam : F) : Prop where
  /-- `assert_equal(p.is_id, r.is_id)` ("assert that r is not the identity") -/
  flag : p.isId = r.isId
  /-- `assert_add(p, q, r, one)`: `slope(p,q)`, `lambda_squared(p,q,r)`, `slope(p,−r)` -/
  ids : AddIds p.x p.y q.x q.y r.x r.y lam

private theorem inv_of_mul_eq' {a c v : F} (hv : v ≠ 0) (h : a * v = c) : a = c * v⁻¹ := by
  have hw := Field.mul_inv_cancel hv
  generalize v⁻¹ = w at hw ⊢
  have : a * (v * w) = c * w := by grind
  rw [hw] at this; grind

/-- In a chord addition with `p.x ≠ q.x`, a result that shares its `x` with the SECOND operand is
its negative (so it is not `q`: no curve point has `y = 0`). -/
theorem addIds_x_eq_second {px py qx qy rx ry lam : F} (h : AddIds px py qx qy rx ry lam)
    (hx : rx = qx) : ry = -qy := by
  obtain ⟨a, _, c⟩ := addIds_formulas h
  subst hx
  grind

/-- In a chord addition, a result that shares its `x` with the FIRST operand is its negative
(the "careful case" of the source comment in `assert_add`). -/
theorem addIds_x_eq_first {px py qx qy rx ry lam : F} (h : AddIds px py qx qy rx ry lam)
    (hx : rx = px) : ry = -py := by
  obtain ⟨_, _, c⟩ := addIds_formulas h
  subst hx
  grind

section
variable [DecidableEq F]

/-- **`incomplete_add` is sound under its preconditions**: non-identity curve points with
different `x`: `r = p + q` (complete law), `r` is a non-identity curve point; `λ` is forced. -/
theorem incomplete_add_sound {b : F} {p q r : WP F} {lam : F} (hp : p.wf b) (hq : q.wf b)
    (hpi : p.isId = false) (hqi : q.isId = false) (hx : p.x ≠ q.x) (h : IncAddHolds p q r lam) :
    r.same (wAdd p q) ∧ r.wf b ∧ r.isId = false := by
  have hri : r.isId = false := by rw [← h.flag, hpi]
  obtain ⟨a, b1, c⟩ := addIds_formulas h.ids
  have hd : q.x - p.x ≠ 0 := by grind
  have hl : lam = (q.y - p.y) * (q.x - p.x)⁻¹ := inv_of_mul_eq' hd a
  refine ⟨⟨?_, ?_⟩, ?_, hri⟩
  · simp [wAdd, hpi, hqi, hx, hri]
  · intro _
    simp only [wAdd, hpi, hqi, hx, Bool.false_eq_true, if_false]
    rw [← hl]
    constructor <;> grind
  · intro _; exact addIds_on_curve (hp hpi) (hq hqi) hx h.ids

end

/-- **`p = −q` is excluded by the constraints themselves**: the first slope identity reads
`−2·p.y = 0`. ("Unsatisfiable Circuit: if `p = -q`" in the documentation of `incomplete_add`.) -/
theorem incomplete_add_opposite_unsat {p q r : WP F} {lam : F} (h2 : (2 : F) ≠ 0)
    (hy : p.y ≠ 0) (hx : p.x = q.x) (hyn : q.y = -p.y) : ¬ IncAddHolds p q r lam := by
  intro h
  obtain ⟨s, _, _⟩ := h.ids
  unfold SlopeId at s
  rw [hx, hyn] at s
  have : 2 * p.y = 0 := by grind
  grind

/-- **`p = q` is NOT excluded**: for equal operands every `λ` passes, and the result
`(λ² − 2·p.x, λ·(p.x − r.x) − p.y)` is accepted — a one-parameter family that in general is not
even on the curve. Every caller of `incomplete_add` has to exclude `p = q` by another constraint
(`incomplete_assert_different_x`) or by an argument about the order of the operands
(`mul_by_u128`): see `table_chain_sound`, `mul_by_u128_incomplete_sound`. -/
theorem incomplete_add_equal_free (p : WP F) (qid : Bool) (lam : F) :
    IncAddHolds p ⟨qid, p.x, p.y⟩
      ⟨p.isId, lam * lam - p.x - p.x, lam * (p.x - (lam * lam - p.x - p.x)) - p.y⟩ lam := by
  refine ⟨rfl, ?_, ?_, ?_⟩
  · unfold SlopeId; simp only; grind
  · unfold LamSqId; simp only; grind
  · unfold SlopeId; simp only; grind

/-- Two different accepted results for `p = q` (`λ = 0` and `λ = 1`): the constraints of
`incomplete_add` alone do not determine `r`. -/
theorem incomplete_add_equal_not_unique (p : WP F) (h10 : (1 : F) ≠ 0) :
    ∃ r r' : WP F, ∃ lam lam' : F,
      IncAddHolds p ⟨p.isId, p.x, p.y⟩ r lam ∧ IncAddHolds p ⟨p.isId, p.x, p.y⟩ r' lam' ∧ r.x ≠ r'.x := by
  refine ⟨_, _, 0, 1, incomplete_add_equal_free p p.isId 0, incomplete_add_equal_free p p.isId 1, ?_⟩
  simp only
  intro h
  apply h10
  grind

/-! ## The table loop of `windowed_msm` -/

/-- Rows of the table construction for one base `p`: starting from `acc = −α`,
`acc ← incomplete_add(acc, p)` fifteen times (`(r, λ)` = the fresh point and slope of each call). -/
def TableChain (p : WP F) : WP F → List (WP F × F) → Prop
  | _, [] => True
  | acc, (r, lam) :: rest => IncAddHolds acc p r lam ∧ TableChain p r rest

section
variable [DecidableEq F]

/-- What the table must be: every entry is the complete sum of the previous one and `p`, a
non-identity curve point, and every addition was non-exceptional. -/
def TableSpec (b : F) (p : WP F) : WP F → List (WP F × F) → Prop
  | _, [] => True
  | acc, (r, _) :: rest =>
    acc.x ≠ p.x ∧ r.same (wAdd acc p) ∧ r.wf b ∧ r.isId = false ∧ TableSpec b p r rest

/-- **Table construction of `windowed_msm`**: from `p ≠ id` (asserted: `p.is_id = 0`), `−α` a
non-identity curve point and the ONE assertion `α.x ≠ p.x` (`incomplete_assert_different_x`),
every `incomplete_add` of the loop is non-exceptional and the table is
`[−α, p−α, 2p−α, …]` in the complete law. The exclusion of the later exceptional cases is
derived, not assumed: if an entry had `x = p.x` it would be `−p` (`addIds_x_eq_second`) and the
next `incomplete_add` would be unsatisfiable (`incomplete_add_opposite_unsat`). Without the
first assertion the statement is false (`incomplete_add_equal_free` with `−α = p`). -/
theorem table_chain_sound {b : F} (h2 : (2 : F) ≠ 0) (hno2 : NoTwoTorsion b) {p : WP F}
    (hp : p.wf b) (hpi : p.isId = false) :
    ∀ (rows : List (WP F × F)) (acc : WP F), acc.wf b → acc.isId = false →
      (rows ≠ [] → acc.x ≠ p.x) → TableChain p acc rows → TableSpec b p acc rows
  | [], _, _, _, _, _ => trivial
  | (r, lam) :: rest, acc, hacc, hai, hx, h => by
    obtain ⟨h1, hrest⟩ := h
    have hx1 : acc.x ≠ p.x := hx (by simp)
    obtain ⟨s, w, ri⟩ := incomplete_add_sound hacc hp hai hpi hx1 h1
    refine ⟨hx1, s, w, ri, ?_⟩
    apply table_chain_sound h2 hno2 hp hpi rest r w ri ?_ hrest
    intro hne
    match rest, hrest, hne with
    | (r', lam') :: _, hrest, _ =>
      obtain ⟨h2', _⟩ := hrest
      intro hxe
      have hy : r.y = -p.y := addIds_x_eq_second h1.ids hxe
      have hry : r.y ≠ 0 := hno2 _ _ (w ri)
      exact incomplete_add_opposite_unsat (p := r) (q := p) h2 hry hxe (by grind) h2'

end

/-! ## `select` and the identity swap of `mul_by_constant` -/

/-- `select(cond, p, q)`: flag and both coordinates selected component-wise by the same bit. -/
def SelectHolds (c : Bool) (p q r : WP F) : Prop :=
  r.isId = (if c then p.isId else q.isId) ∧ r.x = (if c then p.x else q.x) ∧
    r.y = (if c then p.y else q.y)

omit [Field F] in
theorem select_sound {c : Bool} {p q r : WP F} (h : SelectHolds c p q r) :
    r = if c then p else q := by
  obtain ⟨a, b, d⟩ := h
  cases c <;> cases r <;> cases p <;> cases q <;> simp_all

/-- `mul_by_constant`, constants of at most 128 bits: `p' = select(base.is_id, g, base)`,
`r' = mul_by_u128(n, p')`, result `select(base.is_id, id, r')`. With `mul` the function
`mul_by_u128` computes on non-identity points, the result is the identity for the identity and
`mul base` otherwise: the incomplete multiplication never sees the identity. -/
theorem mul_const_swap_sound {g idp base p' r' res : WP F} (mul : WP F → WP F)
    (hg : g.isId = false) (hid : idp.isId = true)
    (h1 : SelectHolds base.isId g base p') (hm : r' = mul p')
    (h3 : SelectHolds base.isId idp r' res) :
    p'.isId = false ∧ (base.isId = true → res.isId = true) ∧
      (base.isId = false → res = mul base) := by
  have e1 := select_sound h1
  have e3 := select_sound h3
  cases hb : base.isId
  · simp only [hb, Bool.false_eq_true, if_false] at e1 e3
    refine ⟨by rw [e1, hb], by simp, fun _ => by rw [e3, hm, e1]⟩
  · simp only [hb, if_true] at e1 e3
    refine ⟨by rw [e1, hg], fun _ => by rw [e3, hid], by simp⟩

end MidnightZK.C06
